#!/bin/bash
# runs every claimed check (quick by default) on /repo's working tree, one line per property
cd "$(dirname "$0")/.."
TIER=${1:-quick}
for p in $(python3 -c "import json;print(' '.join(json.load(open('tools/claimed.json'))))"); do
  S=$(date +%s); timeout 7200 ./check $p $TIER > .build/runall_$p.log 2>&1; RC=$?; E=$(date +%s)
  echo "$p rc=$RC $((E-S))s $(grep -c '^VIOLATION' .build/runall_$p.log) violations $(grep '^\[check\] correspondence' .build/runall_$p.log | tail -1 | cut -c9-)"
done
