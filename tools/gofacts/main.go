// gofacts: a tiny go/ast fact extractor.  `gofacts /repo` prints Gen/Facts.lean:
// literal defaults / guards and structural "shape" records of the schedule- and fault-dependent
// code (DESIGN.md 4.3).  It recognises the shapes it was written for; anything else yields
// `false` fields (a refactor then breaks the `tie` theorem and triggers the runtime search).
package main

import (
	"fmt"
	"go/ast"
	"go/parser"
	"go/token"
	"os"
	"path/filepath"
	"sort"
	"strings"
)

var fset = token.NewFileSet()

func parse(root, rel string) *ast.File {
	f, err := parser.ParseFile(fset, filepath.Join(root, rel), nil, parser.ParseComments)
	if err != nil {
		return nil
	}
	return f
}

func findFunc(f *ast.File, recv, name string) *ast.FuncDecl {
	if f == nil {
		return nil
	}
	for _, d := range f.Decls {
		fd, ok := d.(*ast.FuncDecl)
		if !ok || fd.Name.Name != name {
			continue
		}
		r := ""
		if fd.Recv != nil && len(fd.Recv.List) > 0 {
			r = exprStr(fd.Recv.List[0].Type)
		}
		if strings.TrimPrefix(r, "*") == recv {
			return fd
		}
	}
	return nil
}

func exprStr(e ast.Expr) string {
	switch x := e.(type) {
	case nil:
		return ""
	case *ast.Ident:
		return x.Name
	case *ast.SelectorExpr:
		return exprStr(x.X) + "." + x.Sel.Name
	case *ast.StarExpr:
		return "*" + exprStr(x.X)
	case *ast.CallExpr:
		args := []string{}
		for _, a := range x.Args {
			args = append(args, exprStr(a))
		}
		return exprStr(x.Fun) + "(" + strings.Join(args, ",") + ")"
	case *ast.UnaryExpr:
		return x.Op.String() + exprStr(x.X)
	case *ast.BinaryExpr:
		return exprStr(x.X) + x.Op.String() + exprStr(x.Y)
	case *ast.BasicLit:
		return x.Value
	case *ast.IndexExpr:
		return exprStr(x.X) + "[" + exprStr(x.Index) + "]"
	case *ast.ParenExpr:
		return "(" + exprStr(x.X) + ")"
	case *ast.CompositeLit:
		parts := []string{}
		for _, el := range x.Elts {
			parts = append(parts, exprStr(el))
		}
		return exprStr(x.Type) + "{" + strings.Join(parts, ",") + "}"
	case *ast.KeyValueExpr:
		return exprStr(x.Key) + ":" + exprStr(x.Value)
	case *ast.ChanType:
		return "chan " + exprStr(x.Value)
	case *ast.ArrayType:
		return "[]" + exprStr(x.Elt)
	case *ast.FuncLit:
		return "func"
	case *ast.SliceExpr:
		return exprStr(x.X) + "[" + exprStr(x.Low) + ":" + exprStr(x.High) + "]"
	case *ast.TypeAssertExpr:
		return exprStr(x.X) + ".(" + exprStr(x.Type) + ")"
	}
	return fmt.Sprintf("<%T>", e)
}

// isCtxDoneRecv: `<-ctx.Done()` as a comm clause statement
func isCtxDoneRecv(s ast.Stmt) bool {
	es, ok := s.(*ast.ExprStmt)
	if !ok {
		return false
	}
	return exprStr(es.X) == "<-ctx.Done()"
}

type selInfo struct {
	hasCtx    bool
	ctxBody   []ast.Stmt
	sendTo    string // channel name of a send case
	sendVal   string
	recvFrom  string // channel name of a receive case
	recvBody  []ast.Stmt
	hasDeflt  bool
	node      *ast.SelectStmt
}

func analyseSelect(s *ast.SelectStmt) selInfo {
	in := selInfo{node: s}
	for _, c := range s.Body.List {
		cc := c.(*ast.CommClause)
		switch comm := cc.Comm.(type) {
		case nil:
			in.hasDeflt = true
		case *ast.SendStmt:
			in.sendTo = exprStr(comm.Chan)
			in.sendVal = exprStr(comm.Value)
		case *ast.ExprStmt:
			if isCtxDoneRecv(comm) {
				in.hasCtx = true
				in.ctxBody = cc.Body
			} else if u, ok := comm.X.(*ast.UnaryExpr); ok && u.Op == token.ARROW {
				in.recvFrom = exprStr(u.X)
				in.recvBody = cc.Body
			}
		case *ast.AssignStmt:
			if len(comm.Rhs) == 1 {
				if u, ok := comm.Rhs[0].(*ast.UnaryExpr); ok && u.Op == token.ARROW {
					in.recvFrom = exprStr(u.X)
					in.recvBody = cc.Body
				}
			}
		}
	}
	return in
}

func selects(n ast.Node) []selInfo {
	var out []selInfo
	ast.Inspect(n, func(x ast.Node) bool {
		if s, ok := x.(*ast.SelectStmt); ok {
			out = append(out, analyseSelect(s))
		}
		return true
	})
	return out
}

func containsCall(n ast.Node, call string) bool {
	found := false
	ast.Inspect(n, func(x ast.Node) bool {
		if c, ok := x.(*ast.CallExpr); ok && exprStr(c) == call {
			found = true
		}
		return !found
	})
	return found
}

func containsCallPrefix(n ast.Node, prefix string) bool {
	found := false
	ast.Inspect(n, func(x ast.Node) bool {
		if c, ok := x.(*ast.CallExpr); ok && strings.HasPrefix(exprStr(c), prefix) {
			found = true
		}
		return !found
	})
	return found
}

func returnsFirst(body []ast.Stmt, want string) bool {
	for _, s := range body {
		if r, ok := s.(*ast.ReturnStmt); ok {
			parts := []string{}
			for _, e := range r.Results {
				parts = append(parts, exprStr(e))
			}
			return strings.Join(parts, ",") == want
		}
	}
	return false
}

func lb(b bool) string {
	if b {
		return "true"
	}
	return "false"
}

type kv struct {
	k, v string
}

func record(name, typ string, fields []kv) string {
	var sb strings.Builder
	fmt.Fprintf(&sb, "def %s : %s :=\n  { ", name, typ)
	for i, f := range fields {
		if i > 0 {
			sb.WriteString("\n    ")
		}
		fmt.Fprintf(&sb, "%s := %s", f.k, f.v)
		if i < len(fields)-1 {
			sb.WriteString(",")
		}
	}
	sb.WriteString(" }\n")
	return sb.String()
}

// ---------------------------------------------------------------------------------------------
// MulVec shape (pkg/sparse/vector.go)

func mulVecShape(root string) string {
	f := parse(root, "pkg/sparse/vector.go")
	fd := findFunc(f, "Vector", "MulVec")
	var (
		prodSel, prodClose, wRecv, wSend, oneDot, closer, colSel, colRe, dropsZero, sorts, pubAfter bool
		jobsCap, entriesCap                                                                          = ".unknown", ".unknown"
		numWorkers                                                                                   = 0
	)
	if fd != nil {
		dimVar := ""
		var goStmts []*ast.GoStmt
		var collector *ast.ForStmt
		var afterLoop []ast.Stmt
		for i, st := range fd.Body.List {
			switch s := st.(type) {
			case *ast.AssignStmt:
				l, r := "", ""
				if len(s.Lhs) >= 1 {
					l = exprStr(s.Lhs[0])
				}
				if len(s.Rhs) >= 1 {
					r = exprStr(s.Rhs[0])
				}
				if r == "m.Dim()" {
					dimVar = l
				}
				capOf := func(r string, elem string) string {
					pre := "make(chan " + elem + ","
					if strings.HasPrefix(r, pre) {
						a := strings.TrimSuffix(strings.TrimPrefix(r, pre), ")")
						if a == dimVar && dimVar != "" {
							return ".dim"
						}
						return ".unknown"
					}
					if r == "make(chan "+elem+")" {
						return ".unbuffered"
					}
					return ""
				}
				if l == "jobs" {
					if c := capOf(r, "int"); c != "" {
						jobsCap = c
					}
				}
				if l == "entries" {
					if c := capOf(r, "Entry"); c != "" {
						entriesCap = c
					}
				}
				if l == "numWorkers" {
					fmt.Sscanf(r, "%d", &numWorkers)
				}
			case *ast.GoStmt:
				goStmts = append(goStmts, s)
			case *ast.ForStmt:
				hasGo := false
				ast.Inspect(s, func(x ast.Node) bool {
					if g, ok := x.(*ast.GoStmt); ok {
						goStmts = append(goStmts, g)
						hasGo = true
					}
					return true
				})
				if !hasGo && s.Cond == nil && s.Init == nil {
					collector = s
					afterLoop = fd.Body.List[i+1:]
				}
			case *ast.LabeledStmt:
				if fs, ok := s.Stmt.(*ast.ForStmt); ok && fs.Cond == nil {
					collector = fs
					afterLoop = fd.Body.List[i+1:]
				}
			}
		}
		for _, g := range goStmts {
			fl, ok := g.Call.Fun.(*ast.FuncLit)
			if !ok {
				continue
			}
			sels := selects(fl.Body)
			switch {
			case containsCall(fl.Body, "close(jobs)"):
				// producer
				deferred := false
				for _, st := range fl.Body.List {
					if d, ok := st.(*ast.DeferStmt); ok && exprStr(d.Call) == "close(jobs)" {
						deferred = true
					}
				}
				prodClose = deferred
				for _, s := range sels {
					if s.sendTo == "jobs" && s.hasCtx && returnsFirst(s.ctxBody, "") {
						prodSel = true
					}
				}
			case containsCall(fl.Body, "wg.Wait()") && containsCall(fl.Body, "close(entries)"):
				// closer: wg.Wait() must come before close(entries), nothing else
				if len(fl.Body.List) == 2 {
					a, ok1 := fl.Body.List[0].(*ast.ExprStmt)
					b, ok2 := fl.Body.List[1].(*ast.ExprStmt)
					closer = ok1 && ok2 && exprStr(a.X) == "wg.Wait()" && exprStr(b.X) == "close(entries)"
				}
			case containsCallPrefix(fl.Body, "VecDot("):
				// worker
				for _, s := range sels {
					if s.recvFrom == "jobs" && s.hasCtx && returnsFirst(s.ctxBody, "") {
						wRecv = true
					}
					if s.sendTo == "entries" && s.hasCtx && returnsFirst(s.ctxBody, "") {
						wSend = s.sendVal == "Entry{Index:row,Value:product}"
					}
				}
				nDot := 0
				ast.Inspect(fl.Body, func(x ast.Node) bool {
					if a, ok := x.(*ast.AssignStmt); ok && len(a.Rhs) == 1 && strings.HasPrefix(exprStr(a.Rhs[0]), "VecDot(") {
						nDot++
						if exprStr(a.Lhs[0]) == "product" && exprStr(a.Rhs[0]) == "VecDot(m.RowVector(row),v1)" && a.Tok == token.DEFINE {
							oneDot = true
						}
					}
					return true
				})
				if nDot != 1 {
					oneDot = false
				}
				// the worker must not touch any variable declared outside except via channels: approximated by
				// requiring that `product` is declared (:=) inside the loop body (checked above via DEFINE).
			}
		}
		if collector != nil {
			for _, s := range selects(collector.Body) {
				if s.recvFrom == "entries" {
					if s.hasCtx && returnsFirst(s.ctxBody, "ctx.Err()") {
						colSel = true
					}
					// zero filter: `if e.Value != 0 { sortedEntries = append(sortedEntries, e) }`
					for _, st := range s.recvBody {
						if is, ok := st.(*ast.IfStmt); ok && exprStr(is.Cond) == "e.Value!=0" {
							dropsZero = true
						}
					}
				}
			}
			sortAt, pubAt, recheckAt := -1, -1, -1
			for i, st := range afterLoop {
				switch s := st.(type) {
				case *ast.ExprStmt:
					if exprStr(s.X) == "sort.Sort(EntriesByIndex(sortedEntries))" {
						sortAt = i
					}
				case *ast.AssignStmt:
					if exprStr(s.Lhs[0]) == "v.Entries" && exprStr(s.Rhs[0]) == "sortedEntries" && pubAt < 0 {
						pubAt = i
					}
				case *ast.IfStmt:
					// `if err := ctx.Err(); err != nil { return err }` or `if ctx.Err() != nil { return ctx.Err() }`
					src := ""
					if s.Init != nil {
						if a, ok := s.Init.(*ast.AssignStmt); ok {
							src = exprStr(a.Rhs[0])
						}
					}
					cond := exprStr(s.Cond)
					if (src == "ctx.Err()" && cond == "err!=nil" && returnsFirst(s.Body.List, "err")) ||
						(cond == "ctx.Err()!=nil" && returnsFirst(s.Body.List, "ctx.Err()")) {
						recheckAt = i
					}
				}
			}
			sorts = sortAt >= 0
			pubAfter = pubAt >= 0 && sortAt >= 0 && pubAt > sortAt
			colRe = recheckAt >= 0 && (pubAt < 0 || recheckAt < pubAt)
			// nothing may be assigned to the receiver before the loop
			ast.Inspect(fd.Body, func(x ast.Node) bool {
				if a, ok := x.(*ast.AssignStmt); ok {
					for _, l := range a.Lhs {
						ls := exprStr(l)
						if (ls == "v.Entries" || ls == "v.Dim") && collector != nil && a.Pos() < collector.End() {
							pubAfter = false
						}
					}
				}
				return true
			})
		}
	}
	return record("mulVecShape", "MulVecShape", []kv{
		{"producerSelectsCtx", lb(prodSel)}, {"producerClosesJobs", lb(prodClose)},
		{"workerRecvSelectsCtx", lb(wRecv)}, {"workerSendSelectsCtx", lb(wSend)},
		{"rowByOneVecDot", lb(oneDot)}, {"closerWaitsAllWorkers", lb(closer)},
		{"collectorSelectsCtx", lb(colSel)}, {"collectorRechecksCtx", lb(colRe)},
		{"dropsZero", lb(dropsZero)}, {"sortsAfterCollect", lb(sorts)}, {"publishesAfterSort", lb(pubAfter)},
		{"jobsCap", jobsCap}, {"entriesCap", entriesCap}, {"numWorkers", fmt.Sprint(numWorkers)},
	})
}

// ---------------------------------------------------------------------------------------------
// Compute shape (pkg/basic/eigentrust.go)

func computeShape(root string) string {
	f := parse(root, "pkg/basic/eigentrust.go")
	fd := findFunc(f, "", "Compute")
	var polls, retNil, after, clones, propagates bool
	if fd != nil {
		var loop *ast.ForStmt
		for _, st := range fd.Body.List {
			if fs, ok := st.(*ast.ForStmt); ok && containsCallPrefix(fs.Body, "t1.MulVec(") {
				loop = fs
			}
			if a, ok := st.(*ast.AssignStmt); ok && exprStr(a.Lhs[0]) == "t1" && exprStr(a.Rhs[0]) == "t0.Clone()" {
				clones = true
			}
		}
		if loop != nil && len(loop.Body.List) > 0 {
			if s, ok := loop.Body.List[0].(*ast.SelectStmt); ok {
				in := analyseSelect(s)
				polls = in.hasCtx && in.hasDeflt
				retNil = returnsFirst(in.ctxBody, "nil,ctx.Err()")
			}
			// err = t1.MulVec(ctx, ct, t1); if err != nil { return nil, err }
			for i, st := range loop.Body.List {
				if a, ok := st.(*ast.AssignStmt); ok && strings.HasPrefix(exprStr(a.Rhs[0]), "t1.MulVec(ctx,") && i+1 < len(loop.Body.List) {
					if is, ok := loop.Body.List[i+1].(*ast.IfStmt); ok && exprStr(is.Cond) == "err!=nil" && returnsFirst(is.Body.List, "nil,err") {
						propagates = true
					}
				}
			}
			// `t` (the caller's result vector) is written only after the loop
			after = true
			ast.Inspect(fd.Body, func(x ast.Node) bool {
				switch s := x.(type) {
				case *ast.AssignStmt:
					for _, l := range s.Lhs {
						if exprStr(l) == "t" && s.Pos() > fd.Body.List[8].Pos() && s.Pos() < loop.End() && s.Tok != token.DEFINE {
							after = false
						}
					}
				case *ast.CallExpr:
					c := exprStr(s)
					if (strings.HasPrefix(c, "t.Assign(") || strings.HasPrefix(c, "t.MulVec(") || strings.HasPrefix(c, "t.ScaleVec(") || strings.HasPrefix(c, "t.AddVec(")) && s.Pos() < loop.End() {
						after = false
					}
				}
				return true
			})
		}
	}
	return record("computeShape", "ComputeShape", []kv{
		{"pollsCtxAtLoopHead", lb(polls)}, {"returnsNilOnCtx", lb(retNil)},
		{"resultAssignedAfterLoop", lb(after)}, {"clonesInitial", lb(clones)}, {"propagatesMulVecErr", lb(propagates)},
	})
}

// ---------------------------------------------------------------------------------------------
// Transpose shape (pkg/sparse/matrix.go)

func transposeShape(root string) string {
	f := parse(root, "pkg/sparse/matrix.go")
	fd := findFunc(f, "CSMatrix", "Transpose")
	var polls, retNil, untouched bool
	if fd != nil {
		untouched = true
		ast.Inspect(fd.Body, func(x ast.Node) bool {
			switch s := x.(type) {
			case *ast.AssignStmt:
				for _, l := range s.Lhs {
					ls := exprStr(l)
					if strings.HasPrefix(ls, "m.") {
						untouched = false
					}
				}
			case *ast.IncDecStmt:
				if strings.HasPrefix(exprStr(s.X), "m.") {
					untouched = false
				}
			case *ast.RangeStmt:
				if exprStr(s.X) == "m.Entries" && len(s.Body.List) > 0 {
					if sel, ok := s.Body.List[0].(*ast.SelectStmt); ok {
						in := analyseSelect(sel)
						if in.hasCtx && in.hasDeflt {
							polls = true
							retNil = returnsFirst(in.ctxBody, "nil,ctx.Err()")
						}
					}
				}
			}
			return true
		})
	}
	return record("transposeShape", "TransposeShape", []kv{
		{"pollsCtxPerRow", lb(polls)}, {"returnsNilOnCtx", lb(retNil)}, {"receiverUntouched", lb(untouched)},
	})
}

// ---------------------------------------------------------------------------------------------
// literal defaults and guards

type constFact struct{ name, val string }

func oapiConsts(root string) []constFact {
	var out []constFact
	grab := func(rel, fn, recv, prefix string) {
		f := parse(root, rel)
		fd := findFunc(f, recv, fn)
		alphaDef, epsNum, alphaGuard, epsGuard := "?", "?", "?", "?"
		if fd != nil {
			ast.Inspect(fd.Body, func(x ast.Node) bool {
				is, ok := x.(*ast.IfStmt)
				if !ok {
					return true
				}
				cond := exprStr(is.Cond)
				if cond == "alpha==nil" {
					for _, st := range is.Body.List {
						if a, ok := st.(*ast.AssignStmt); ok && exprStr(a.Lhs[0]) == "a" {
							alphaDef = exprStr(a.Rhs[0])
						}
					}
					if e, ok := is.Else.(*ast.IfStmt); ok {
						alphaGuard = exprStr(e.Cond)
					}
				}
				if cond == "epsilon==nil" {
					for _, st := range is.Body.List {
						if a, ok := st.(*ast.AssignStmt); ok && exprStr(a.Lhs[0]) == "e" {
							epsNum = exprStr(a.Rhs[0])
						}
					}
					if e, ok := is.Else.(*ast.IfStmt); ok {
						epsGuard = exprStr(e.Cond)
					}
				}
				return true
			})
		}
		out = append(out, constFact{prefix + "AlphaDefault", alphaDef}, constFact{prefix + "EpsilonDefault", epsNum},
			constFact{prefix + "AlphaReject", alphaGuard}, constFact{prefix + "EpsilonReject", epsGuard})
	}
	grab("pkg/basic/server/oapi/openapi.go", "compute", "StrictServerImpl", "oapi")
	grab("pkg/basic/server/grpc/compute.go", "BasicCompute", "ComputeServer", "grpc")
	return out
}

func main() {
	root := "/repo"
	if len(os.Args) > 1 {
		root = os.Args[1]
	}
	var sb strings.Builder
	sb.WriteString("/-\n  GENERATED by /verif/tools/gofacts from the working tree of /repo — do not edit.\n")
	sb.WriteString("  Regenerated on every check run; the `tie` theorems in Props/ are re-checked against it.\n-/\n")
	sb.WriteString("import EtVerif.Model.Shapes\n\nnamespace EtVerif.Facts\nopen EtVerif\n\n")
	sb.WriteString(mulVecShape(root))
	sb.WriteString("\n")
	sb.WriteString(computeShape(root))
	sb.WriteString("\n")
	sb.WriteString(transposeShape(root))
	sb.WriteString("\n")
	sb.WriteString(mmapShape(root))
	sb.WriteString("\n")
	sb.WriteString(storeShape(root))
	sb.WriteString("\n")
	sb.WriteString(sites(root))
	sb.WriteString("\n")
	cs := oapiConsts(root)
	sort.Slice(cs, func(i, j int) bool { return cs[i].name < cs[j].name })
	for _, c := range cs {
		fmt.Fprintf(&sb, "def %s : String := %q\n", c.name, c.val)
	}
	sb.WriteString("\nend EtVerif.Facts\n")
	fmt.Print(sb.String())
}
