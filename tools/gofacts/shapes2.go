package main

import (
	"fmt"
	"go/ast"
	"go/token"
	"sort"
	"strings"
)

// ---------------------------------------------------------------------------------------------
// Mmap shape (pkg/sparse/matrix.go)

func deferGuarded(d *ast.DeferStmt, cond, call string) bool {
	fl, ok := d.Call.Fun.(*ast.FuncLit)
	if !ok {
		return false
	}
	for _, st := range fl.Body.List {
		if is, ok := st.(*ast.IfStmt); ok && exprStr(is.Cond) == cond && containsCall(is.Body, call) {
			return true
		}
	}
	return false
}

func mmapShape(root string) string {
	f := parse(root, "pkg/sparse/matrix.go")
	fd := findFunc(f, "CSMatrix", "Mmap")
	var zeroEarly, rmDefer, closeDefer, unmapDefer, polls, repoints, caps, installAfter, fresh bool
	var order []string
	if fd != nil {
		type ev struct {
			pos  token.Pos
			name string
		}
		var evs []ev
		var createPos, loopEnd, zeroPos token.Pos
		var rmDeferPos token.Pos
		for _, st := range fd.Body.List {
			switch s := st.(type) {
			case *ast.IfStmt:
				if exprStr(s.Cond) == "nnz==0" && returnsFirst(s.Body.List, "m.Munmap()") {
					zeroPos = s.Pos()
				}
				if exprStr(s.Cond) == "m.mapped!=nil" && containsCall(s.Body, "syscall.Munmap(m.mapped)") && createPos != 0 {
					evs = append(evs, ev{s.Pos(), "MunmapOld"})
				}
			case *ast.DeferStmt:
				if deferGuarded(s, "!removed", "os.Remove(filename)") {
					rmDefer = true
					rmDeferPos = s.Pos()
				}
				if deferGuarded(s, "file!=nil", "file.Close()") {
					closeDefer = true
				}
				if deferGuarded(s, "mapped!=nil", "syscall.Munmap(mapped)") {
					unmapDefer = true
				}
			case *ast.AssignStmt:
				r := ""
				if len(s.Rhs) > 0 {
					r = exprStr(s.Rhs[0])
				}
				l := exprStr(s.Lhs[0])
				switch {
				case strings.HasPrefix(r, "os.CreateTemp("):
					createPos = s.Pos()
					evs = append(evs, ev{s.Pos(), "CreateTemp"})
				case strings.HasPrefix(r, "file.Truncate("):
					evs = append(evs, ev{s.Pos(), "Truncate"})
				case strings.HasPrefix(r, "syscall.Mmap("):
					evs = append(evs, ev{s.Pos(), "Mmap"})
				case r == "file.Close()":
					evs = append(evs, ev{s.Pos(), "Close"})
				case r == "os.Remove(filename)":
					evs = append(evs, ev{s.Pos(), "Remove"})
				case l == "m.Entries" && r == "swapped":
					evs = append(evs, ev{s.Pos(), "install"})
					installAfter = loopEnd != 0 && s.Pos() > loopEnd
				case l == "swapped":
					fresh = r == "make([][]Entry,len(m.Entries),cap(m.Entries))" || r == "make([][]Entry,len(m.Entries))"
				case l == "m.mapped" && r == "mapped":
					evs = append(evs, ev{s.Pos(), "adopt"})
				}
			case *ast.RangeStmt:
				if exprStr(s.X) == "m.Entries" && createPos != 0 {
					evs = append(evs, ev{s.Pos(), "copy"})
					loopEnd = s.End()
					if len(s.Body.List) > 0 {
						if sel, ok := s.Body.List[0].(*ast.SelectStmt); ok {
							in := analyseSelect(sel)
							polls = in.hasCtx && in.hasDeflt && returnsFirst(in.ctxBody, "ctx.Err()")
						}
					}
					ast.Inspect(s.Body, func(x ast.Node) bool {
						if a, ok := x.(*ast.AssignStmt); ok {
							l := exprStr(a.Lhs[0])
							if l == "swapped[major]" && exprStr(a.Rhs[0]) == "span" {
								repoints = true
							}
							if l == "span" {
								if se, ok := a.Rhs[0].(*ast.SliceExpr); ok && se.Slice3 && exprStr(se.High) == exprStr(se.Max) {
									caps = true
								}
							}
							if strings.HasPrefix(l, "m.Entries") {
								installAfter = false
							}
						}
						return true
					})
				}
			}
		}
		zeroEarly = zeroPos != 0 && createPos != 0 && zeroPos < createPos
		// the unlink defer must be installed before Truncate
		for _, e := range evs {
			if e.name == "Truncate" && rmDeferPos != 0 && rmDeferPos > e.pos {
				rmDefer = false
			}
		}
		sort.Slice(evs, func(i, j int) bool { return evs[i].pos < evs[j].pos })
		for _, e := range evs {
			order = append(order, e.name)
		}
		// no assignment to m.Entries before the loop ends
		ast.Inspect(fd.Body, func(x ast.Node) bool {
			if a, ok := x.(*ast.AssignStmt); ok {
				for _, l := range a.Lhs {
					if strings.HasPrefix(exprStr(l), "m.Entries") && (loopEnd == 0 || a.Pos() < loopEnd) {
						installAfter = false
					}
				}
			}
			return true
		})
	}
	q := []string{}
	for _, o := range order {
		q = append(q, fmt.Sprintf("%q", o))
	}
	return record("mmapShape", "MmapShape", []kv{
		{"zeroNnzReturnsEarly", lb(zeroEarly)}, {"order", "[" + strings.Join(q, ", ") + "]"},
		{"removesFileOnFailure", lb(rmDefer)}, {"closesFileOnFailure", lb(closeDefer)}, {"unmapsOnFailure", lb(unmapDefer)},
		{"pollsCtxPerRow", lb(polls)}, {"repointsRows", lb(repoints)}, {"tableIsFresh", lb(fresh)}, {"capsSpans", lb(caps)}, {"installsAfterCopy", lb(installAfter)},
	})
}

// ---------------------------------------------------------------------------------------------
// store shape

// callInsideLockAndRun: is there a `<recv>.LockAndRun(func…{ … <needle> … })` in fd?
func callInsideLockAndRun(fd *ast.FuncDecl, needle string) bool {
	if fd == nil {
		return false
	}
	found := false
	ast.Inspect(fd.Body, func(x ast.Node) bool {
		c, ok := x.(*ast.CallExpr)
		if !ok {
			return true
		}
		if sel, ok := c.Fun.(*ast.SelectorExpr); ok && sel.Sel.Name == "LockAndRun" && len(c.Args) == 1 {
			if fl, ok := c.Args[0].(*ast.FuncLit); ok {
				ast.Inspect(fl.Body, func(y ast.Node) bool {
					if cc, ok := y.(*ast.CallExpr); ok && strings.HasPrefix(exprStr(cc), needle) {
						found = true
					}
					if a, ok := y.(*ast.AssignStmt); ok && strings.Contains(exprStr(a.Rhs[0]), needle) {
						found = true
					}
					return true
				})
			}
		}
		return true
	})
	return found
}

func countInsideLockAndRun(fd *ast.FuncDecl, needle string) int {
	n := 0
	if fd == nil {
		return 0
	}
	ast.Inspect(fd.Body, func(x ast.Node) bool {
		c, ok := x.(*ast.CallExpr)
		if !ok {
			return true
		}
		if sel, ok := c.Fun.(*ast.SelectorExpr); ok && sel.Sel.Name == "LockAndRun" && len(c.Args) == 1 {
			if fl, ok := c.Args[0].(*ast.FuncLit); ok {
				ast.Inspect(fl.Body, func(y ast.Node) bool {
					if a, ok := y.(*ast.AssignStmt); ok && strings.Contains(exprStr(a.Rhs[0]), needle) {
						n++
					}
					return true
				})
			}
		}
		return true
	})
	return n
}

func storeShape(root string) string {
	oapi := parse(root, "pkg/basic/server/oapi/openapi.go")
	named := parse(root, "pkg/basic/server/namedtrust.go")
	gcomp := parse(root, "pkg/basic/server/grpc/compute.go")
	gtm := parse(root, "pkg/basic/server/grpc/trustmatrix.go")
	loadStored := callInsideLockAndRun(findFunc(oapi, "StrictServerImpl", "loadStoredTrustMatrix"), "deepcopy.Copy(c0)")
	getLocked := callInsideLockAndRun(findFunc(oapi, "StrictServerImpl", "getLocalTrust"), "c.Dim()")
	setFd := findFunc(named, "NamedTrustMatrices", "Set")
	setSwap := setFd != nil && containsCallPrefix(setFd.Body, "ntms.Swap(id,")
	setAlone := false
	if setFd != nil {
		// exactly: tm = New…(c); _, loaded := ntms.Swap(id, tm); created = !loaded; return
		setAlone = true
		ast.Inspect(setFd.Body, func(x ast.Node) bool {
			if a, ok := x.(*ast.AssignStmt); ok && len(a.Rhs) == 1 && strings.HasPrefix(exprStr(a.Rhs[0]), "ntms.Swap(") {
				if exprStr(a.Lhs[0]) != "_" {
					setAlone = false
				}
			}
			if c, ok := x.(*ast.CallExpr); ok {
				cs := exprStr(c)
				if strings.Contains(cs, "LockAndRun") || strings.Contains(cs, "Reset(") || strings.Contains(cs, "Munmap(") {
					setAlone = false
				}
			}
			return true
		})
	}
	mergeFd := findFunc(named, "NamedTrustMatrices", "Merge")
	mergeOK := mergeFd != nil && containsCallPrefix(mergeFd.Body, "ntms.LoadOrStore(id,") &&
		callInsideLockAndRun(mergeFd, "c2.Merge(")
	delFd := findFunc(oapi, "StrictServerImpl", "DeleteLocalTrust")
	delOK := delFd != nil && containsCallPrefix(delFd.Body, "svr.core.StoredTrustMatrices.LoadAndDelete(")
	upd := findFunc(oapi, "StrictServerImpl", "UpdateLocalTrust")
	upd400 := false
	if upd != nil {
		ast.Inspect(upd.Body, func(x ast.Node) bool {
			if is, ok := x.(*ast.IfStmt); ok && exprStr(is.Cond) == "err!=nil" {
				for _, st := range is.Body.List {
					if d, ok := st.(*ast.DeclStmt); ok {
						if gd, ok := d.Decl.(*ast.GenDecl); ok {
							for _, sp := range gd.Specs {
								if vs, ok := sp.(*ast.ValueSpec); ok && exprStr(vs.Type) == "openapi.UpdateLocalTrust400JSONResponse" {
									upd400 = returnsFirst(is.Body.List, "resp,nil")
								}
							}
						}
					}
				}
				return false
			}
			return true
		})
	}
	bc := findFunc(gcomp, "ComputeServer", "BasicCompute")
	deep := countInsideLockAndRun(bc, "deepcopy.Copy(") >= 3
	// TrustMatrix.Update: every timestamp.Set(updateTimestamp) sits inside `case cmp > 0`
	updTM := findFunc(gtm, "TrustMatrixServer", "Update")
	tsOK := false
	if updTM != nil {
		total, inCase := 0, 0
		ast.Inspect(updTM.Body, func(x ast.Node) bool {
			if c, ok := x.(*ast.CallExpr); ok && exprStr(c) == "timestamp.Set(updateTimestamp)" {
				total++
			}
			if cc, ok := x.(*ast.CaseClause); ok && len(cc.List) == 1 && exprStr(cc.List[0]) == "cmp>0" {
				for _, st := range cc.Body {
					if containsCall(st, "timestamp.Set(updateTimestamp)") {
						inCase++
					}
				}
			}
			return true
		})
		tsOK = total == 1 && inCase == 1
	}
	return record("storeShape", "StoreShape", []kv{
		{"loadStoredDeepCopiesUnderLock", lb(loadStored)}, {"getReadsUnderLock", lb(getLocked)},
		{"setUsesSwap", lb(setSwap)}, {"setLeavesPreviousAlone", lb(setAlone)}, {"mergeLoadOrStoreThenLockedMerge", lb(mergeOK)},
		{"deleteUsesLoadAndDelete", lb(delOK)}, {"updateAnswers400", lb(upd400)},
		{"grpcDeepCopiesInputs", lb(deep)}, {"grpcTimestampOnlyAdvances", lb(tsOK)},
	})
}

// ---------------------------------------------------------------------------------------------
// partiality-site inventory (C15): index / slice expressions, explicit panics, make with a
// non-constant size, per function, in the repo's own front-end and core packages.

var siteFiles = []string{
	"pkg/sparse/vector.go", "pkg/sparse/matrix.go", "pkg/sparse/util.go",
	"pkg/basic/eigentrust.go", "pkg/basic/localtrust.go", "pkg/basic/trustvector.go", "pkg/basic/peernames.go",
	"pkg/basic/server/oapi/openapi.go", "pkg/basic/server/namedtrust.go",
	"pkg/basic/server/grpc/trustmatrix.go", "pkg/basic/server/grpc/trustvector.go", "pkg/basic/server/grpc/compute.go",
	"pkg/basic/server/grpc/biguintqwords.go",
	"cmd/eigentrust/cmd/basiccompute.go", "internal/playground/engine.go",
}

func sites(root string) string {
	type key struct{ file, fn, kind string }
	counts := map[key]int{}
	for _, rel := range siteFiles {
		f := parse(root, rel)
		if f == nil {
			counts[key{rel, "?", "unparsable"}] = 1
			continue
		}
		for _, d := range f.Decls {
			fd, ok := d.(*ast.FuncDecl)
			if !ok || fd.Body == nil {
				continue
			}
			name := fd.Name.Name
			if fd.Recv != nil && len(fd.Recv.List) > 0 {
				name = strings.TrimPrefix(exprStr(fd.Recv.List[0].Type), "*") + "." + name
			}
			ast.Inspect(fd.Body, func(x ast.Node) bool {
				switch e := x.(type) {
				case *ast.IndexExpr:
					// generic instantiations like util.SyncMap[string, …] are types, not accesses: skip identifiers in type position heuristically
					if _, isLit := e.Index.(*ast.BasicLit); isLit || true {
						counts[key{rel, name, "index"}]++
					}
				case *ast.SliceExpr:
					counts[key{rel, name, "slice"}]++
				case *ast.CallExpr:
					fn := exprStr(e.Fun)
					if fn == "panic" {
						counts[key{rel, name, "panic"}]++
					}
					if fn == "make" && len(e.Args) >= 2 {
						if _, lit := e.Args[1].(*ast.BasicLit); !lit {
							counts[key{rel, name, "make"}]++
						}
					}
				case *ast.StarExpr:
					// pointer dereference of a request field: `*alpha`, `*request.Params.Merge`
					counts[key{rel, name, "deref"}]++
				}
				return true
			})
		}
	}
	keys := []key{}
	for k := range counts {
		keys = append(keys, k)
	}
	sort.Slice(keys, func(i, j int) bool {
		a, b := keys[i], keys[j]
		if a.file != b.file {
			return a.file < b.file
		}
		if a.fn != b.fn {
			return a.fn < b.fn
		}
		return a.kind < b.kind
	})
	var sb strings.Builder
	sb.WriteString("def partialitySites : List Site :=\n  [")
	for i, k := range keys {
		if i > 0 {
			sb.WriteString(",\n   ")
		}
		fmt.Fprintf(&sb, "⟨%q, %q, %q, %d⟩", k.file, k.fn, k.kind, counts[k])
	}
	sb.WriteString("]\n")
	return sb.String()
}
