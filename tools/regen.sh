#!/bin/sh
# regen.sh: regenerate Gen/Facts.lean and Gen/Translated.lean from /repo's CURRENT tree (rewrite only on change)
cd "$(dirname "$0")/.."
export GOFLAGS=-mod=mod GOPROXY=off GOSUMDB=off GOTOOLCHAIN=local GOCACHE="${GOCACHE:-$PWD/.gocache}"
REPO="${VERIF_REPO:-/repo}"
mkdir -p .build lean/EtVerif/Gen
(cd tools/gofacts && go build -o ../../.build/gofacts . ) && .build/gofacts "$REPO" > .build/Facts.lean && (cmp -s .build/Facts.lean lean/EtVerif/Gen/Facts.lean || cp .build/Facts.lean lean/EtVerif/Gen/Facts.lean)
(cd tools/go2lean && go build -o ../../.build/go2lean . ) && .build/go2lean "$REPO" > .build/Translated.lean && (cmp -s .build/Translated.lean lean/EtVerif/Gen/Translated.lean || cp .build/Translated.lean lean/EtVerif/Gen/Translated.lean)
