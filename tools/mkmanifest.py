#!/usr/bin/env python3
"""Regenerates /verif/MANIFEST.json from the table below (one place to keep claims honest)."""
import json, os
ROOT = os.path.dirname(os.path.dirname(os.path.abspath(__file__)))

COMMON_NOTE = ("Trusted: Lean 4.33 kernel, axioms propext/Classical.choice/Quot.sound only (audited per theorem on every run), "
               "Mathlib in proof modules; the hand-written Lean model is tied to /repo by the correspondence run "
               "(sampling) and, where stated, by facts regenerated from the source (tools/gofacts). ")

CLAIMS = {
 "C01": ("Theorems over R: L1 contraction of the EigenTrust map, existence+uniqueness of the fixed point, and the stop bound "
         "||t_k - t*||_1 <= ((1-a)/a)*sqrt(n)*e for every check schedule; sparse step refines the dense map. Correspondence: "
         "basic.Compute vs the model at Float (bit-for-bit incl. iteration count) and vs the exact rational fixed point "
         "(Gaussian elimination in Lean, result verified exactly).",
         "Rounding term 1e-14/a is a measured tolerance, not proved."),
 "C02": ("Theorems (any ordered field): every iterate of every run is a distribution (non-negative, sum 1, dimension n, strictly increasing "
         "indices, no stored zero). Correspondence: WithIterations(k)/WithMaxIterations runs judged in exact rationals.",
         "Rounding of the sum is a measured tolerance; overflow excluded (see C05)."),
 "C03": ("Theorems: the OpenAPI pipeline hands basic.Compute exactly the documented effective inputs (dimension = largest size, uniform "
         "fallback, substitution of pre-trust for peers without positive outgoing trust, defaults 0.5 and 1e-6/n, discounts), invalid "
         "requests are refused, both endpoints agree, stored = inline. Correspondence: requests through the echo router registered as "
         "serve.go does, all presence patterns and size relations; scores judged against the exact rational EigenTrust scores of the "
         "documented effective inputs and against the model at Float (bit-for-bit).",
         "JSON codec and echo routing are outside the model; rounding is a measured tolerance."),
 "C13": ("Theorems: sequential refinement of the /local-trust handlers to a map id -> matrix for every request history (statuses, overlay "
         "merge with enlargement, invalid body = 400 and state unchanged, GET body = valid inline reference reproducing the matrix); and, for a "
         "step-level model of the handlers (atomic sync.Map primitives + per-object locked sections, unbounded goroutines), FULL linearizability of "
         "every concurrent history of put/merge/get/head/delete with loaded bodies (C13b.linearizable, replayed through C13.runSpec). Tie: store "
         "primitives regenerated from the source (decide). Correspondence: HTTP histories judged step by step against the model and an "
         "independent dense map; concurrent clients checked by porcupine against the sequential spec; direct race stress of the strict handlers.",
         "Known finding (listed in known_findings.jsonl): a PUT whose body is a STORED reference is not atomic w.r.t. DELETE of the referenced id "
         "(proved for the model, observed on the code). Data races are only looked for by the race-detector run of the thorough tier."),
 "C14": ("Theorems: (pure model) computes never alter the store in any mixed history, a compute's answer is a function of the content stored under the "
         "referenced id at that moment, stored = inline; (explicit heap model of row cells and row tables, C14b) the in-place pipeline SetDim / "
         "ExtractDistrust / CanonicalizeLocalTrust run on a DEEP copy leaves every pre-existing cell unchanged (frame theorem, every request), refines "
         "the pure pipeline, the aliasing of the pre-trust cell is harmless; with a SHALLOW copy a stored row is rewritten (witness). Tie: deep copy "
         "under the lock regenerated from the source (decide). Correspondence: GET before / compute / GET after byte-identical, stored vs inline "
         "scores bit-identical, repeated computes, computes racing with PUT?merge=true must return exactly the solo result on one version.",
         "The heap model is not itself run against the code (only its pure refinement is); mohae/deepcopy is trusted; data races: race-detector run in the thorough tier."),
 "C04": ("Theorems: canonicalisation laws (sum 1, ratios, zero-sum error, substitution for every row position, uniform fallback), "
         "exact scale invariance of the canonicalisation pipeline, and sigma-equivariance for power-of-two scaling under explicit "
         "IEEE hypotheses. Correspondence: the three canonicalisers judged in exact rationals; scaled-vs-unscaled runs compared bitwise.",
         "The bit-identical clause rests on IEEE hypotheses that are theorem arguments (spot-tested, not proved)."),
 "C05": ("Theorems: characterisation of the stop iteration for all schedules (any Scalar), validation rejects before any iteration, fuel "
         "monotonicity; over R: K <= ceil(ln(e/4)/ln(1-a))+2 and K<=2 at a=1. Correspondence: iteration counts, check counts and returned "
         "iterate vs an independent spec of the schedule; watchdog for termination; overflow inputs.",
         "Float stagnation above epsilon cannot be excluded by proof (watchdog only)."),
 "C06": ("Theorems: any arrival order + any sorting function yields the sequential product; every reachable terminal state of the goroutine "
         "step system (any worker count, any interleaving) publishes exactly it; no deadlock, termination measure. Tie: shape facts "
         "regenerated from vector.go (decide). Correspondence: parallel vs sequential bit compare under GOMAXPROCS 1..16, with load, "
         "concurrent callers; Compute vs the Float model bit-for-bit.",
         "Go memory model / data races are outside the step system (channel operations atomic)."),
 "C07": ("Theorems: step-system invariant for all schedules and cancel points: result is none, ctx error (receiver untouched) or the full "
         "product; no goroutine leak; witness that the property fails without the post-loop ctx re-check; compute/transpose atomicity. "
         "Tie: shape facts regenerated from the source (decide). Correspondence: counting context cancelling at the k-th poll, "
         "all k (stride in quick), GOMAXPROCS 1..16, repeated; goroutine and input checks.",
         "Real-time promptness is not modelled; swap-out (Mmap) cancellation is covered under C12."),
 "C08": ("Theorems: L = P - D entrywise, signs, disjoint supports, order preserved (sublists), dims; discount = t_j - sum_i t_i*D_ij with the "
         "undiscounted weights; zero-reputation distrusters have no effect (exact list equality). Correspondence: bit-level for extraction, "
         "exact-rational tolerance for the discount.",
         "Rounding of t_i*D_ij and the subtraction is a measured tolerance; NaN entries excluded."),
 "C09": ("Theorems (any ordered field, some for any Scalar): add/sub/scale/dot/sum/norm/mulVec denote dense arithmetic; WF preserved; no stored "
         "zero; dimension errors; each output value is one scalar operation; KBN is exact in a field. Correspondence: bit-level for "
         "element-wise ops, exact-rational KBN bound for sums, all aliasing patterns.",
         "Aliasing is exercised, not proved; the float KBN bound is measured per case in exact rationals, not proved."),
 "C10": ("Theorems: construction cells/order independence, transpose = dense transpose, involution, views; resize = crop-and-pad for EVERY "
         "history of setDim/setMajor/setMinor/transpose/merge with the backing array (hidden rows) in the model. Correspondence: histories "
         "observed after every step including cap(Entries).",
         "None beyond the common trusted base."),
 "C11": ("Theorems: mergeSpan = overlay (all seven branches), sortedness kept, matrix/vector merge, all merge histories, re-batching invariance. "
         "Correspondence: Vector.Merge / CSMatrix.Merge spans in every relation, histories, random re-batchings through NewCSRMatrix(includeZero).",
         "None beyond the common trusted base."),
 "C12": ("Theorems: a resource-ledger / location-tag model of Mmap, Munmap, Reset, finalize, Merge and SetDim: contents never depend on swap-out, "
         "faults or cancellation (for every op history); after success every non-empty row lives in the adopted mapping; at every return no temp "
         "file and no descriptor remain and only the adopted mapping is live (every fault choice except a failing unlink, stated); failure leaves "
         "the matrix, its rows and its mapping intact and usable; re-mapping happens exactly when dirty. Tie: Mmap's step order, cleanup defers, "
         "per-row poll and re-pointing regenerated from matrix.go (decide). Correspondence: the model's ledger and tags vs the PROCESS after every "
         "call: files in a private TMPDIR, swap-file lines of /proc/self/maps, row addresses inside the mapping; injected faults (TMPDIR unusable, "
         "zero non-zeros, cancellation at every row), GC/finalizer, histories.",
         "Kernel mmap semantics, page residency (RSS) and finalizer timing are outside the model; truncate/close/unlink failures are covered by the model and the shape tie only."),
 "C15": ("Theorems: for every front-end model, the preconditions of the operations whose Go originals can panic hold at every call "
         "(row/column indices in range for NewCSRMatrix/Transpose, flag table covers all peers, value column present), invalid requests give the "
         "documented client error with state unchanged, iteration counts are bounded. Tie: the partiality-site inventory (index/slice/deref/make/panic "
         "expressions per function) regenerated from the source equals the audited one. Correspondence: outcome classes for a malformed-but-structured "
         "stream and a raw byte-mutation stream on OpenAPI, gRPC (panics recovered harness-side), CLI, playground and CSV readers, with watchdog.",
         "The decoders (encoding/json, csv, protobuf) are outside the model: 'all byte strings' is covered by the byte-mutation stream only; memory exhaustion by huge sizes is out of scope."),
 "C16": ("Theorems: for every call history of both services: Get = non-zero cells of the last-writer-wins overlay of the successful updates since "
         "the last flush/creation, sorted, duplicate-free; timestamp = max of those updates (never lowered); response codes; created ids fresh; unknown "
         "ids NotFound; invalid updates leave the state unchanged; qword codec round trip, canonicity, injectivity for all naturals. "
         "Correspondence: call histories over bufconn judged step by step against the model and an independent dense map, multi-qword and stale timestamps.",
         "The concurrent-clients clause is not proved for the gRPC services (sequential histories only; the same map primitives are proved linearizable for the OpenAPI store in C13b): concurrent clients are exercised and checked by porcupine against the sequential spec."),
 "C17": ("Theorems: BasicCompute = compute on the canonicalised effective inputs warm-started from the previous global trust, discounted; positive-only vector "
         "gets the undiscounted scores; timestamps = max of the inputs and never lowered; local trust and every other vector unchanged; NotFound / InvalidArgument "
         "exactly characterised with state unchanged; iteration count <= max_iterations. Correspondence: histories of updates and computes over bufconn, "
         "contents bit-compared with the model and judged against the exact rational EigenTrust scores of the documented effective inputs.",
         "Rounding is a measured tolerance; protobuf/gRPC transport outside the model."),
 "C19": ("Theorems: the CLI name table is first-appearance order over the concatenated name stream of the three files, indices stable, id/index round trip, "
         "the request holds exactly the CSV arcs/values/sizes (2- and 3-column records, raw mode), every malformed record refuses; library readers build exactly "
         "the listed arcs or fail. Correspondence: the real CLI binary with --print-request on generated CSV triples (quotes, commas, unicode, numeric-looking "
         "names, header/no header, raw mode), and ReadLocalTrustFromCsv, judged against the model and an independent first-appearance spec.",
         "encoding/csv and strconv (shortest round-trip formatting) are library guarantees, exercised not proved; the loopback README pipeline is not part of the quick tier."),
 "C20": ("Theorems: result rows are a permutation of the peers (dimension rule), sorted by descending score, scores = the model's compute on the canonicalised inputs "
         "with alpha = confidence/100 and discounts, flags exactly the pre-trusted peers (flag table covers every peer), unusable uploads refused. "
         "Correspondence: POST /calculate on a gin engine with the repository templates (hook), HTML scraped, judged against the model (bit-level) and the exact "
         "rational reference scores; every kind of pre-trusted subset, names present/absent, size relations, malformed files.",
         "Template engine and multipart decoding outside the model; rounding measured."),
 "C18": ("Theorems: flat-tail stats as functions of the ranking sequence (length, threshold, delta, ranking), stop rule, ranking = top-k. "
         "Correspondence: stats and stop iteration vs an independent spec evaluated on the iterates (bit-exact step function).",
         "Tied scores excluded (as the property does)."),
}

# properties whose obligations include refinement theorems about code REGENERATED from the source by tools/go2lean
TRANSL = {
 "C01": "basic.Compute itself (validation, option resolution and defaults, transpose, the loop with its check schedule and stop rule, result assignment; MulVec as a hand-modelled extern), the convergence checker and Vector.Norm2 (translated with math.Sqrt/IsNaN/IsInf as uninterpreted parameters; Compute translated together with them refines the model under the stated hypotheses about sqrt on sums of squares, Props/TrSrc, Props/TrChk) and the kernels one iteration is made of (AddVec/ScaleVec/VecDot/KBNSummer)",
 "C02": "basic.Compute itself, the canonicalisers that establish its hypotheses (Canonicalize, CanonicalizeTrustVector, CanonicalizeLocalTrust) and the kernels one iteration is made of (AddVec/ScaleVec/VecDot/KBNSummer)",
 "C04": "basic.Canonicalize, CanonicalizeTrustVector and CanonicalizeLocalTrust (incl. idempotence over two successive calls, Props/TrGo04c)",
 "C05": "basic.Compute itself (schedule resolution: checkFreq default 1, minIterations default checkFreq, maxIterations 0 = unlimited; the loop), the convergence checker (Props/TrChk) and the nine option constructors of computeopts.go (each sets only its own field)",
 "C08": "basic.ExtractDistrust and DiscountTrustVector (incl. the two-call pipeline on the returned matrix, Props/TrGo08c)",
 "C09": "KBNSummer.Add/Sum, Vector.Sum/AddVec/SubVec/scaleInPlace/ScaleVec/Assign/Clone/Reset/SetDim and VecDot (incl. algebraic laws over call sequences, Props/TrGo09c)",
 "C10": "CSMatrix.Dim/NNZ/SetMinorDim/Transpose, NewCSRMatrix, RowVector/SetRowVector",
 "C11": "mergeSpan and Vector.Merge (incl. the overlay property and every update history of Vector.Merge stated on the translated code, Props/TrGo11)",
 "C15": "the playground's iterationBound (the iteration bound of the repair e85c9dc; proved equal to the model's pgIterBound, between 2 and 65536 for all inputs)",
 "C20": "the playground's iterationBound (the iteration bound of the repair e85c9dc; proved equal to the model's pgIterBound)",
 "C18": "NewFlatTailChecker, FlatTailChecker.Update/Reached/Stats and basic.Compute itself (the stop rule)",
}

def entry(pid):
    text, partial = CLAIMS[pid]
    technique = "Lean 4 machine-checked proof + model/implementation correspondence check"
    if pid in TRANSL:
        text += (" Second tie, by proof: the current source of " + TRANSL[pid] + " is translated statement by statement to Lean on every run "
                 "(tools/go2lean -> Gen/Translated.lean) and refinement theorems (Props/Tr*.lean; all inputs, termination included) show that the "
                 "translated code computes exactly the hand-written model these theorems are about.")
        partial += (" The translation uses value semantics (no slice/pointer aliasing, no capacity, unbounded ints) and is itself trusted; see DESIGN.md 14.3.")
        technique = "Lean 4 machine-checked proof + Go-to-Lean translation of the kernels with refinement theorems + correspondence check"
    return {
        "property_id": pid,
        "quick_cmd": f"./check {pid} quick",
        "thorough_cmd": f"./check {pid} thorough",
        "evidence_file": f"evidence/{pid}.json",
        "replay_cmd_template": f"./check {pid} quick --replay {{path}}",
        "engine": "lean-model",
        "level_claimed": {"category": "proof", "text": text, "design_ref": f"DESIGN.md section 6 / {pid}"},
        "level_note": COMMON_NOTE + "Not carried by the theorems: " + partial,
        "technique": technique,
    }

def main():
    claimed = json.load(open(os.path.join(ROOT, "tools", "claimed.json")))
    na = json.load(open(os.path.join(ROOT, "tools", "not_applicable.json")))
    hooks = json.load(open(os.path.join(ROOT, "tools", "hooks.json")))
    m = {
        "version": 1,
        "setup_cmd": "./setup.sh",
        "hooks": hooks,
        "engines": [
            {"name": "lean-model", "path": "lean", "serves_properties": claimed,
             "kind_free_text": "Lean 4 model + theorems (lake project EtVerif) and the core-only driver etdriver"},
            {"name": "go-harness", "path": "harness", "serves_properties": claimed,
             "kind_free_text": "Go correspondence harness running the real code in-process (module replace => /repo)"},
            {"name": "gofacts", "path": "tools/gofacts", "serves_properties": [p for p in claimed if p in ("C06", "C07", "C12", "C13", "C14", "C15")],
             "kind_free_text": "go/ast fact extractor regenerating lean/EtVerif/Gen/Facts.lean on every run"},
            {"name": "go2lean", "path": "tools/go2lean", "serves_properties": [p for p in claimed if p in TRANSL],
             "kind_free_text": "Go -> Lean translator (go/ast) regenerating lean/EtVerif/Gen/Translated.lean from the kernels of pkg/sparse and pkg/basic on every run; refinement theorems in lean/EtVerif/Props/Tr*.lean"},
        ],
        "checks": [entry(p) for p in claimed],
        "not_applicable": na,
        "notes": "All checks go through ./check (see DESIGN.md 2 and 5). Properties not yet listed under checks are listed under "
                 "not_applicable with the reason 'not yet built' until their model, theorems and correspondence land.",
    }
    json.dump(m, open(os.path.join(ROOT, "MANIFEST.json"), "w"), indent=1)

if __name__ == "__main__":
    main()
