#!/bin/bash
# trymut.sh <property> <scratch-worktree> [check-property ...]
# Confirms a seeded change (build, suite, demo both ways) in its scratch worktree, then applies it to /repo,
# runs the quick check(s), and undoes it.  Keeps it under /verif/seeded/<property>[-n]/ with the outcome.
set -u
P=$1; WT=$2; shift 2; CHECKS=${@:-$P}
export GOFLAGS=-mod=mod GOPROXY=off GOSUMDB=off GOTOOLCHAIN=local
cd "$WT" || exit 2
[ -f seed/patch.diff ] || { echo "no seed/patch.diff"; exit 2; }
echo "== confirm in scratch worktree"
go build ./... >/dev/null 2>&1 && B=ok || B=FAIL
go test -vet=off -count=1 ./pkg/... ./cmd/... ./internal/... 2>&1 | grep -v "no test files" | grep -q FAIL && T=FAIL || T=ok
DEMO=$(python3 -c "import json;print(json.load(open('seed/meta.json')).get('how_demo_runs','go test -vet=off -count=1 ./demo/'))" 2>/dev/null)
timeout 600 go test -vet=off -count=1 ./demo/ >/tmp/demo_with.log 2>&1 && DW=pass || DW=fail
git apply -R seed/patch.diff 2>/dev/null && REV=1 || REV=0
timeout 600 go test -vet=off -count=1 ./demo/ >/tmp/demo_without.log 2>&1 && DO=pass || DO=fail
[ $REV = 1 ] && git apply seed/patch.diff
echo "build=$B suite=$T demo_with_change=$DW demo_without_change=$DO"
cd /verif
git -C /repo status --short | grep -q . && { echo "/repo not clean"; exit 2; }
git -C /repo apply "$WT/seed/patch.diff" || { echo "patch does not apply to /repo"; exit 2; }
RES=""
for C in $CHECKS; do
  timeout 1800 ./check $C quick > /tmp/trymut_$C.log 2>&1; RC=$?
  V=$(grep -c "^VIOLATION" /tmp/trymut_$C.log)
  NF=$(grep -c "no-failing-input-found" /tmp/trymut_$C.log)
  echo "check $C: rc=$RC violations=$V no-failing-input=$NF"
  grep "^\[check\]" /tmp/trymut_$C.log | tail -4
  RES="$RES $C:rc=$RC:viol=$V:nofail=$NF"
done
git -C /repo checkout -- .
/verif/tools/regen.sh
git -C /repo status --short
N=$(ls -d /verif/seeded/$P* 2>/dev/null | wc -l); D=/verif/seeded/$P; [ $N -gt 0 ] && D=/verif/seeded/$P-$((N+1))
mkdir -p $D; cp "$WT/seed/patch.diff" $D/; cp "$WT"/seed/demo_test.go $D/ 2>/dev/null; cp "$WT/seed/meta.json" $D/meta.agent.json
python3 - "$D" "$P" "$B" "$T" "$DW" "$DO" "$RES" <<'PY'
import json,sys
d,p,b,t,dw,do,res=sys.argv[1:8]
try: a=json.load(open(d+'/meta.agent.json'))
except Exception: a={}
m={"property":p,"summary":a.get("summary"),"needs":a.get("needs"),"files_changed":a.get("files_changed"),
   "confirmed":{"build":b,"existing_suite":t,"demo_with_change":dw,"demo_without_change":do},
   "what_i_ran":"tools/trymut.sh: go build ./...; go test -vet=off -count=1; demo with and without the change (git stash); git -C /repo apply; ./check <prop> quick; git -C /repo checkout -- .",
   "check_outcome":res.strip()}
json.dump(m,open(d+'/meta.json','w'),indent=1)
PY
rm -f $D/meta.agent.json
echo "kept in $D"
