/-! ### externs — hand-modelled callees of the translated code (NOT translated)

  * `Vector.MulVec` is a goroutine system; Props/C06–C07 prove that every schedule of it publishes the
    sequential product (or the context error).  The translated `Compute` calls this sequential
    specification (the model's `mulVec`), cancellation not modelled.
  * `ConvergenceChecker` takes a square root and tests non-finiteness, which `Scalar` does not offer; it is
    the model's checker carrying the SQUARED delta (`Delta()` returns the squared norm; `Converged()` is
    `Scalar.sqrtLe dsq e`), exactly as Model/Basic.lean does.
  * `SortEntriesByValue` (`sort.Sort`, unstable) is *a* sorted permutation: the model's insertion sort.
-/

def entryOfG (e : GEntry α) : Entry α := ⟨e.Index.toNat, e.Value⟩
def entryToG (e : Entry α) : GEntry α := ⟨(e.idx : Int), e.val⟩

def goSortEntriesByValue (es : List (GEntry α)) : List (GEntry α) := (sortByVal (es.map entryOfG)).map entryToG
def goSortEntriesByIndex (es : List (GEntry α)) : List (GEntry α) := (sortByIdx (es.map entryOfG)).map entryToG

structure Vector_MulVec.St (α : Type) where
  v : GVector α

def Vector_MulVec (v : GVector α) (m : GCSMatrix α) (v1 : GVector α) :
    R (Vector_MulVec.St α × Option GoError) :=
  if m.MajorDim ≠ m.MinorDim then .ok (⟨v⟩, some ⟨"ErrDimensionMismatch"⟩)
  else if m.MajorDim ≠ v1.Dim then .ok (⟨v⟩, some ⟨"ErrDimensionMismatch"⟩)
  else .ok (⟨{ Dim := m.MajorDim,
               Entries := (mulVecEntries (m.Entries.map (·.map entryOfG)) (v1.Entries.map entryOfG)).map entryToG }⟩, none)

structure GConvergenceChecker (α : Type) where
  c : ConvChecker α
  e : α

def GConvergenceChecker.zero : GConvergenceChecker α := ⟨⟨[], Scalar.zero⟩, Scalar.zero⟩

structure NewConvergenceChecker.St (α : Type) where
  unit : Unit := ()

def NewConvergenceChecker (t0 : GVector α) (e : α) :
    R (NewConvergenceChecker.St α × GConvergenceChecker α) :=
  .ok ({}, ⟨⟨t0.Entries.map entryOfG, Scalar.zero⟩, e⟩)

structure ConvergenceChecker_Update.St (α : Type) where
  c : GConvergenceChecker α

/-- `Update`: new squared delta against the previously checked vector; a non-finite delta is an error
    (the repaired code) and leaves the checker as it was. -/
def ConvergenceChecker_Update (c : GConvergenceChecker α) (t : GVector α) :
    R (ConvergenceChecker_Update.St α × Option GoError) :=
  let c' := c.c.update (t.Entries.map entryOfG)
  if nonFinite c'.dsq then .ok (⟨c⟩, some ⟨"trust vector delta is not finite (%v)"⟩)
  else .ok (⟨{ c with c := c' }⟩, none)

structure ConvergenceChecker_Converged.St (α : Type) where
  c : GConvergenceChecker α

def ConvergenceChecker_Converged (c : GConvergenceChecker α) :
    R (ConvergenceChecker_Converged.St α × Bool) :=
  .ok (⟨c⟩, Scalar.sqrtLe c.c.dsq c.e)

structure ConvergenceChecker_Delta.St (α : Type) where
  c : GConvergenceChecker α

/-- `Delta()`: the SQUARED norm (see the header). -/
def ConvergenceChecker_Delta (c : GConvergenceChecker α) : R (ConvergenceChecker_Delta.St α × α) :=
  .ok (⟨c⟩, c.c.dsq)
