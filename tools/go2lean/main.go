// go2lean: a small Go → Lean 4 translator for the sequential numeric kernels of go-eigentrust.
//
//	go2lean <repo>  >  lean/EtVerif/Gen/Translated.lean
//
// It parses the CURRENT source of the functions listed in `targets` (go/parser, go/ast only —
// no type checker: types of locals are inferred from the declared parameter / field types) and
// emits, statement by statement, one Lean definition per function in terms of the combinators of
// EtVerif/Model/GoSem.lean (state record of the locals, explicit panics, fuelled loops).
// Anything outside the supported fragment makes the function come out as a comment
// `-- UNSUPPORTED <fn>: <reason>` (no definition), so that the refinement theorem about it stops
// compiling: a source change the translator cannot read is a broken obligation, not a silent pass.
package main

import (
	_ "embed"
	"fmt"
	"go/ast"
	"go/parser"
	"go/token"
	"os"
	"path/filepath"
	"regexp"
	"sort"
	"strconv"
	"strings"
)

//go:embed externs.lean
var externsLean string

// ---------------------------------------------------------------- types

type Ty struct {
	K     string // int float bool string slice struct error unit tuple opt (nil-able pointer field) ghost
	Elem  *Ty
	Name  string // struct name (Lean: G<Name>)
	Elems []*Ty
}

var (
	tInt   = &Ty{K: "int"}
	tFloat = &Ty{K: "float"}
	tBool  = &Ty{K: "bool"}
	tErr   = &Ty{K: "error"}
	tUnit  = &Ty{K: "unit"}
	tStr   = &Ty{K: "string"}
	// untyped numeric constant: adapts to the other operand
	tConst = &Ty{K: "const"}
)

func (t *Ty) lean() string {
	switch t.K {
	case "int", "const":
		return "Int"
	case "float":
		return "α"
	case "bool":
		return "Bool"
	case "string":
		return "String"
	case "error":
		return "(Option GoError)"
	case "unit":
		return "Unit"
	case "slice":
		return "(List " + t.Elem.lean() + ")"
	case "struct":
		return "(G" + leanStructName(t.Name) + " α)"
	case "opt":
		return "(Option " + t.Elem.lean() + ")"
	case "tuple":
		var p []string
		for _, e := range t.Elems {
			p = append(p, e.lean())
		}
		return "(" + strings.Join(p, " × ") + ")"
	}
	panic(unsupported("type " + t.K))
}

func (t *Ty) zero() string {
	switch t.K {
	case "int", "const":
		return "(0 : Int)"
	case "float":
		return "(Scalar.zero : α)"
	case "bool":
		return "false"
	case "string":
		return "\"\""
	case "error":
		return "(none : Option GoError)"
	case "unit":
		return "()"
	case "slice":
		return "([] : " + t.lean() + ")"
	case "struct":
		return "(G" + leanStructName(t.Name) + ".zero : G" + leanStructName(t.Name) + " α)"
	case "opt":
		return "(none : " + t.lean() + ")"
	case "tuple":
		var p []string
		for _, e := range t.Elems {
			p = append(p, e.zero())
		}
		return "(" + strings.Join(p, ", ") + ")"
	}
	panic(unsupported("zero of " + t.K))
}

type unsupported string

type Field struct {
	Name string
	Ty   *Ty
}

type Struct struct {
	Name     string
	LeanName string // Lean structure name without the G prefix (defaults to Name)
	Fields   []Field
}

func leanStructName(goName string) string {
	if st, ok := structs[goName]; ok && st.LeanName != "" {
		return st.LeanName
	}
	return goName
}

var structs = map[string]*Struct{}

// CSRMatrix / CSCMatrix embed CSMatrix and add no field; `Matrix` is an alias of CSRMatrix:
// all are rendered as the embedded struct (promoted fields and methods).
var typeAlias = map[string]string{"Matrix": "CSMatrix", "CSRMatrix": "CSMatrix", "CSCMatrix": "CSMatrix"}
var structOrder []string

func (s *Struct) field(n string) *Ty {
	for _, f := range s.Fields {
		if f.Name == n {
			return f.Ty
		}
	}
	return nil
}

// fieldTypeFromAst: a pointer in struct-field position may be nil (Option); elsewhere *T is T.
func fieldTypeFromAst(e ast.Expr) *Ty {
	if st, ok := e.(*ast.StarExpr); ok {
		return &Ty{K: "opt", Elem: typeFromAst(st.X)}
	}
	return typeFromAst(e)
}

// typeFromAst resolves a Go type expression to a Ty (value semantics: *T is T).
func typeFromAst(e ast.Expr) *Ty {
	switch x := e.(type) {
	case *ast.Ident:
		switch x.Name {
		case "int", "int64", "uint64", "uint":
			return tInt
		case "float64":
			return tFloat
		case "bool":
			return tBool
		case "string":
			return tStr
		case "error":
			return tErr
		}
		if a, ok := typeAlias[x.Name]; ok {
			return &Ty{K: "struct", Name: a}
		}
		if _, ok := structs[x.Name]; ok {
			return &Ty{K: "struct", Name: x.Name}
		}
		if x.Name == "ComputeOpt" {
			return &Ty{K: "ghost"}
		}
		panic(unsupported("type " + x.Name))
	case *ast.StarExpr:
		return typeFromAst(x.X)
	case *ast.Ellipsis:
		return &Ty{K: "slice", Elem: typeFromAst(x.Elt)}
	case *ast.FuncType:
		return &Ty{K: "ghost"}
	case *ast.SelectorExpr: // pkg.Type
		if id, ok := x.X.(*ast.Ident); ok {
			switch id.Name + "." + x.Sel.Name {
			case "context.Context", "zerolog.Logger", "time.Time", "time.Duration":
				return &Ty{K: "ghost"} // not modelled: cancellation, logging, wall-clock time
			}
		}
		return typeFromAst(x.Sel)
	case *ast.ArrayType:
		if x.Len != nil {
			panic(unsupported("array type"))
		}
		return &Ty{K: "slice", Elem: typeFromAst(x.Elt)}
	}
	panic(unsupported(fmt.Sprintf("type expr %T", e)))
}

// ---------------------------------------------------------------- targets

type Target struct {
	Dir  string // directory under the repo
	Recv string // receiver type name ("" for a plain function)
	Name string
}

var targets = []Target{
	{"internal/playground", "", "iterationBound"},
	{"pkg/sparse", "KBNSummer", "Add"},
	{"pkg/sparse", "KBNSummer", "Sum"},
	{"pkg/sparse", "Vector", "Sum"},
	{"pkg/sparse", "Vector", "AddVec"},
	{"pkg/sparse", "Vector", "SubVec"},
	{"pkg/sparse", "Vector", "scaleInPlace"},
	{"pkg/sparse", "", "VecDot"},
	{"pkg/sparse", "", "mergeSpan"},
	{"pkg/basic", "", "Canonicalize"},
	{"pkg/sparse", "Vector", "Assign"},
	{"pkg/sparse", "Vector", "Clone"},
	{"pkg/sparse", "Vector", "Reset"},
	{"pkg/sparse", "Vector", "ScaleVec"},
	{"pkg/sparse", "Vector", "SetDim"},
	{"pkg/sparse", "Vector", "Merge"},
	{"pkg/sparse", "CSMatrix", "Dim"},
	{"pkg/sparse", "CSMatrix", "SetMinorDim"},
	{"pkg/sparse", "CSMatrix", "NNZ"},
	{"pkg/basic", "", "CanonicalizeTrustVector"},
	{"pkg/basic", "", "ExtractDistrust"},
	{"pkg/basic", "", "DiscountTrustVector"},
	{"pkg/sparse", "CSMatrix", "Transpose"},
	{"pkg/sparse", "CSRMatrix", "RowVector"},
	{"pkg/sparse", "CSRMatrix", "SetRowVector"},
	{"pkg/sparse", "", "NewCSRMatrix"},
	{"pkg/basic", "", "CanonicalizeLocalTrust"},
	{"pkg/basic", "", "WithInitialTrust"},
	{"pkg/basic", "", "WithResultIn"},
	{"pkg/basic", "", "WithFlatTail"},
	{"pkg/basic", "", "WithFlatTailNumLeaders"},
	{"pkg/basic", "", "WithFlatTailStats"},
	{"pkg/basic", "", "WithMaxIterations"},
	{"pkg/basic", "", "WithMinIterations"},
	{"pkg/basic", "", "WithIterations"},
	{"pkg/basic", "", "WithCheckFreq"},
	{"pkg/basic", "", "NewFlatTailChecker"},
	{"pkg/basic", "FlatTailChecker", "Update"},
	{"pkg/basic", "FlatTailChecker", "Reached"},
	{"pkg/basic", "FlatTailChecker", "Stats"},
	{"pkg/basic", "", "Compute"},
}

// struct declarations that the targets need (parsed from the source, fields filtered to the
// supported types; unsupported fields such as *zerolog.Logger are dropped and any use of them
// makes the using function unsupported).
// Compute(…, opts ...ComputeOpt) starts by folding the options into `o := ComputeOpts{}`; the translated
// function takes that record as its parameter instead (the With* constructors are translated separately).
var optsParams = map[string][3]string{"Compute": {"opts", "o", "ComputeOpts"}}

var structTargets = []struct{ Dir, Name string }{
	{"pkg/sparse", "Entry"},
	{"pkg/sparse", "CooEntry"},
	{"pkg/sparse", "KBNSummer"},
	{"pkg/sparse", "Vector"},
	{"pkg/sparse", "CSMatrix"},
	{"pkg/api/openapi", "FlatTailStats"},
	{"pkg/basic", "ComputeOpts"},
	{"pkg/basic", "FlatTailChecker"},
}

type Var struct {
	Go     string
	Lean   string
	Ty     *Ty
	Raw    bool   // a lambda-bound variable (closure parameter): rendered without the `st.` prefix
	Origin string // for a local slice variable: the lvalue path it was copied from (shares its backing array)
}

type Fn struct {
	T          Target
	Decl       *ast.FuncDecl
	LeanName   string
	Recv       *Var
	Params     []*Var
	Result     *Ty
	Mutates    map[string]bool // lean names of receiver / params written through
	UsesCap    bool
	UsesFuel   bool
	Oracles    map[string]bool // sqrtO, nanO, infO: uninterpreted float functions (math.Sqrt, IsNaN, IsInf)
	Vars       []*Var          // all state fields, in declaration order
	Body       string
	ResAlias   [][2]string // result field F shares its backing array with this path over the receiver / parameters
	Named      []*Var      // named results
	Aliases    [][3]string // alias flag name, Go name a, Go name b
	Written    map[*Var]bool
	StoredBack map[*Var]bool
	Aux        []string
	Err        string
}

var fns = map[string]*Fn{} // key: Recv+"."+Name or Name
var fnOrder []*Fn

func fnKey(recv, name string) string {
	if recv == "" {
		return name
	}
	return recv + "." + name
}

var oracleOrder = []string{"sqrtO", "nanO", "infO"}
var oracleType = map[string]string{"sqrtO": "α → α", "nanO": "α → Bool", "infO": "α → Bool"}

// ---------------------------------------------------------------- compiler state

type scope map[string]*Var

type frame struct {
	label  string // Go label ("" if none)
	id     int
	isLoop bool
	used   bool
}

type comp struct {
	fn           *Fn
	scopes       []scope
	names        map[string]int // lean field name -> count (uniquifier)
	frames       []*frame
	nextID       int
	closures     map[string]*ast.FuncLit
	pendingLabel string
	aux          []string        // auxiliary definitions (loop parts), emitted before the body
	ghosts       map[string]bool // variables that only carry unmodelled things (context, logger, time)
	views        []view          // write-through aliases: a local path that shares its backing array with another path
}

// view: `key` (an lvalue path of the function, e.g. `inRow.Entries` or the range variable `row`) shares its
// backing array with `origin` (e.g. `localTrust.Entries[viewIdx]`): every write to or through `key` is
// followed by a store of `key`'s new value into `origin` (value semantics made faithful for this pattern).
type view struct {
	key, origin string
	depth       int
}

func parseExpr(t string) ast.Expr {
	x, err := parser.ParseExpr(t)
	if err != nil {
		panic(unsupported("internal: cannot re-parse " + t))
	}
	return x
}

// isGhost: the expression only involves unmodelled things — the context, a zerolog logger chain,
// wall-clock time.  Statements made only of such expressions are skipped.
func (c *comp) isGhost(x ast.Expr) bool {
	switch y := x.(type) {
	case *ast.Ident:
		return c.ghosts[y.Name] && c.lookup(y.Name) == nil
	case *ast.ParenExpr:
		return c.isGhost(y.X)
	case *ast.SelectorExpr:
		if y.Sel.Name == "logger" {
			return true
		}
		return c.isGhost(y.X)
	case *ast.CallExpr:
		t := exprText(y.Fun)
		if t == "zerolog.Ctx" || t == "time.Now" || t == "runtime.GC" || t == "runtime.SetFinalizer" {
			return true
		}
		if sel, ok := y.Fun.(*ast.SelectorExpr); ok {
			return c.isGhost(sel.X) // method chain on a ghost value (logger.Trace().Int(…).Msg(…), tm1.Sub(tm0))
		}
	}
	return false
}

// aliasFlag returns the state field telling whether the two pointer parameters are the same object.
func (c *comp) aliasFlag(a, b string) string {
	va, vb := c.lookup(a), c.lookup(b)
	isP := func(v *Var) bool {
		if v == nil {
			return false
		}
		if v == c.fn.Recv {
			return true
		}
		for _, p := range c.fn.Params {
			if p == v {
				return true
			}
		}
		return false
	}
	if !isP(va) || !isP(vb) {
		panic(unsupported("pointer comparison of non-parameters"))
	}
	n1, n2 := va.Lean, vb.Lean
	if n2 < n1 {
		n1, n2 = n2, n1
	}
	name := "alias_" + n1 + "_" + n2
	for _, al := range c.fn.Aliases {
		if al[0] == name {
			return name
		}
	}
	c.fn.Aliases = append(c.fn.Aliases, [3]string{name, va.Go, vb.Go})
	return name
}

func (c *comp) push() { c.scopes = append(c.scopes, scope{}) }
func (c *comp) pop() {
	c.scopes = c.scopes[:len(c.scopes)-1]
	var keep []view
	for _, v := range c.views {
		if v.depth <= len(c.scopes) {
			keep = append(keep, v)
		}
	}
	c.views = keep
}

func (c *comp) lookup(name string) *Var {
	for i := len(c.scopes) - 1; i >= 0; i-- {
		if v, ok := c.scopes[i][name]; ok {
			return v
		}
	}
	return nil
}

var leanKeywords = map[string]bool{"end": true, "at": true, "from": true, "fun": true, "do": true, "then": true, "else": true,
	"if": true, "let": true, "have": true, "show": true, "in": true, "open": true, "st": true, "fuel": true, "capO": true,
	"match": true, "with": true, "where": true, "by": true, "def": true, "instance": true, "structure": true, "deriving": true}

func (c *comp) declare(name string, ty *Ty) *Var {
	if name == "_" {
		return nil
	}
	if ty.K == "const" {
		ty = tInt
	}
	base := name
	if leanKeywords[base] {
		base = base + "_"
	}
	lean := base
	if n := c.names[base]; n > 0 {
		lean = fmt.Sprintf("%s_%d", base, n+1)
	}
	c.names[base]++
	v := &Var{Go: name, Lean: lean, Ty: ty}
	c.scopes[len(c.scopes)-1][name] = v
	c.fn.Vars = append(c.fn.Vars, v)
	return v
}

// expression context: the lines of a `do` block evaluated before the expression itself.
type ectx struct {
	c     *comp
	lines []string
	ntmp  *int
}

func (e *ectx) tmp() string {
	*e.ntmp++
	return fmt.Sprintf("t%d", *e.ntmp)
}

func (e *ectx) bind(rhs string) string {
	t := e.tmp()
	e.lines = append(e.lines, fmt.Sprintf("let %s ← %s", t, rhs))
	return t
}

func (c *comp) newCtx() *ectx {
	n := 0
	return &ectx{c: c, ntmp: &n}
}

func (e *ectx) sub() *ectx { return &ectx{c: e.c, ntmp: e.ntmp} }

func doBlock(lines []string, final string, ind string) string {
	if len(lines) == 0 {
		return final
	}
	var b strings.Builder
	b.WriteString("do\n")
	for _, l := range lines {
		b.WriteString(ind + "  " + l + "\n")
	}
	b.WriteString(ind + "  " + final)
	return b.String()
}

// ---------------------------------------------------------------- expressions

func isErrIdent(name string) bool { return strings.HasPrefix(name, "Err") && len(name) > 3 }

func constLit(v string, want *Ty) string {
	if want != nil && want.K == "float" {
		switch v {
		case "0":
			return "(Scalar.zero : α)"
		case "1":
			return "(Scalar.one : α)"
		}
		if n, err := strconv.Atoi(v); err == nil && n >= 0 {
			return fmt.Sprintf("(Scalar.ofNat %d : α)", n)
		}
		panic(unsupported("float literal " + v))
	}
	if _, err := strconv.Atoi(v); err != nil {
		panic(unsupported("literal " + v))
	}
	return "(" + v + " : Int)"
}

// expr compiles e; `want` is the type an untyped constant should take (may be nil); a plain value is
// wrapped (`some`) where a nil-able pointer is wanted, and a nil-able pointer is dereferenced (panicking
// on nil) where a plain value is wanted.
func (e *ectx) expr(x ast.Expr, want *Ty) (string, *Ty) {
	s, t := e.expr0(x, want)
	if want != nil && want.K == "opt" && t.K != "opt" && t.K != "const" {
		return "(some " + s + ")", want
	}
	if want != nil && want.K != "opt" && t.K == "opt" {
		return e.deref(s, t)
	}
	return s, t
}

func (e *ectx) deref(s string, t *Ty) (string, *Ty) {
	return e.bind("goDeref " + s), t.Elem
}

// base compiles the operand of a selector / method call: nil-able pointers are dereferenced.
func (e *ectx) base(x ast.Expr) (string, *Ty) {
	s, t := e.expr0(x, nil)
	if t.K == "opt" {
		return e.deref(s, t)
	}
	return s, t
}

func (e *ectx) expr0(x ast.Expr, want *Ty) (string, *Ty) {
	switch x := x.(type) {
	case *ast.ParenExpr:
		return e.expr(x.X, want)
	case *ast.BasicLit:
		if x.Kind == token.INT {
			if want != nil && want.K == "float" {
				return constLit(x.Value, want), tFloat
			}
			return constLit(x.Value, nil), tConst
		}
		if x.Kind == token.FLOAT {
			if strings.HasSuffix(x.Value, ".0") {
				return constLit(strings.TrimSuffix(x.Value, ".0"), tFloat), tFloat
			}
			panic(unsupported("float literal " + x.Value))
		}
		panic(unsupported("literal " + x.Value))
	case *ast.Ident:
		switch x.Name {
		case "true", "false":
			return x.Name, tBool
		case "nil":
			if want != nil && want.K == "error" {
				return "(none : Option GoError)", tErr
			}
			if want != nil && (want.K == "slice" || want.K == "opt") {
				return want.zero(), want
			}
			if want != nil && want.K == "struct" {
				// a nil *T (only ever returned together with a non-nil error): rendered as the zero struct
				return want.zero(), want
			}
			panic(unsupported("nil without type"))
		}
		if v := e.c.lookup(x.Name); v != nil {
			if v.Raw {
				return v.Lean, v.Ty
			}
			return "st." + v.Lean, v.Ty
		}
		if isErrIdent(x.Name) {
			return fmt.Sprintf("(some ⟨%q⟩ : Option GoError)", x.Name), tErr
		}
		panic(unsupported("identifier " + x.Name))
	case *ast.SelectorExpr:
		if id, ok := x.X.(*ast.Ident); ok && e.c.lookup(id.Name) == nil {
			// package-qualified name
			if isErrIdent(x.Sel.Name) {
				return fmt.Sprintf("(some ⟨%q⟩ : Option GoError)", x.Sel.Name), tErr
			}
			if id.Name == "math" && x.Sel.Name == "MaxInt" {
				return "(9223372036854775807 : Int)", tInt
			}
			panic(unsupported("qualified identifier " + id.Name + "." + x.Sel.Name))
		}
		s, t := e.base(x.X)
		if t.K != "struct" {
			panic(unsupported("selector on non-struct"))
		}
		ft := structs[t.Name].field(x.Sel.Name)
		if ft == nil {
			panic(unsupported("field " + t.Name + "." + x.Sel.Name))
		}
		return "(" + s + ")." + x.Sel.Name, ft
	case *ast.StarExpr:
		return e.base(x.X)
	case *ast.UnaryExpr:
		switch x.Op {
		case token.AND:
			if want != nil && want.K == "opt" {
				return e.expr0(x.X, want.Elem)
			}
			return e.expr0(x.X, want)
		case token.NOT:
			s, _ := e.expr(x.X, tBool)
			return "(!" + s + ")", tBool
		case token.SUB:
			s, t := e.expr(x.X, want)
			if t.K == "float" {
				return "(Scalar.neg " + s + ")", tFloat
			}
			return "(-" + s + ")", t
		}
		panic(unsupported("unary " + x.Op.String()))
	case *ast.BinaryExpr:
		return e.binary(x, want)
	case *ast.IndexExpr:
		s, t := e.expr(x.X, nil)
		if t.K != "slice" {
			panic(unsupported("index of non-slice"))
		}
		i, _ := e.expr(x.Index, tInt)
		return e.bind(fmt.Sprintf("goIdx %s %s", s, i)), t.Elem
	case *ast.SliceExpr:
		s, t := e.expr(x.X, nil)
		if t.K != "slice" {
			panic(unsupported("slice of non-slice"))
		}
		lo, hi := "(0 : Int)", "(goLen "+s+")"
		if x.Low != nil {
			lo, _ = e.expr(x.Low, tInt)
		}
		if x.High != nil {
			hi, _ = e.expr(x.High, tInt)
		}
		// the capacity operand of a full slice expression is ignored (capacity is not modelled)
		return e.bind(fmt.Sprintf("goSlice %s %s %s", s, lo, hi)), t
	case *ast.CompositeLit:
		t := typeFromAst(x.Type)
		if t.K != "struct" {
			panic(unsupported("composite literal of " + t.K))
		}
		if id, ok := x.Type.(*ast.Ident); ok && typeAlias[id.Name] != "" && len(x.Elts) == 1 {
			if inner, ok := x.Elts[0].(*ast.CompositeLit); ok {
				return e.expr0(inner, want) // CSRMatrix{CSMatrix{…}}: the embedded struct is the whole value
			}
		}
		st := structs[t.Name]
		vals := map[string]string{}
		for _, el := range x.Elts {
			kv, ok := el.(*ast.KeyValueExpr)
			if !ok {
				panic(unsupported("positional composite literal"))
			}
			k := kv.Key.(*ast.Ident).Name
			ft := st.field(k)
			if ft == nil && e.c.isGhost(kv.Value) {
				continue // an unmodelled field (logger) given an unmodelled value
			}
			if ft == nil {
				panic(unsupported("field " + k))
			}
			v, _ := e.expr(kv.Value, ft)
			vals[k] = v
		}
		var parts []string
		for _, f := range st.Fields {
			v, ok := vals[f.Name]
			if !ok {
				v = f.Ty.zero()
			}
			parts = append(parts, f.Name+" := "+v)
		}
		return "({ " + strings.Join(parts, ", ") + " } : G" + leanStructName(t.Name) + " α)", t
	case *ast.CallExpr:
		return e.call(x, want)
	}
	panic(unsupported(fmt.Sprintf("expression %T", x)))
}

func (e *ectx) binary(x *ast.BinaryExpr, want *Ty) (string, *Ty) {
	op := x.Op
	if op == token.LAND || op == token.LOR {
		a, _ := e.expr(x.X, tBool)
		sub := e.sub()
		b, _ := sub.expr(x.Y, tBool)
		if len(sub.lines) == 0 {
			if op == token.LAND {
				return "(" + a + " && " + b + ")", tBool
			}
			return "(" + a + " || " + b + ")", tBool
		}
		// short circuit: the right operand may panic
		rhs := "(" + doBlock(sub.lines, "pure "+b, "      ") + ")"
		if op == token.LAND {
			return e.bind(fmt.Sprintf("(if %s then %s else pure false)", a, rhs)), tBool
		}
		return e.bind(fmt.Sprintf("(if %s then pure true else %s)", a, rhs)), tBool
	}
	// operand types: compile the side that is not an untyped constant first
	var a, b string
	var ta, tb *Ty
	if want != nil && want.K != "int" && want.K != "float" {
		want = nil // only numeric context flows into the operands (untyped constants)
	}
	if isConstExpr(x.X) && !isConstExpr(x.Y) {
		b, tb = e.expr0(x.Y, want)
		a, ta = e.expr0(x.X, tb)
	} else {
		a, ta = e.expr0(x.X, want)
		b, tb = e.expr0(x.Y, ta)
	}
	t := ta
	if t.K == "const" {
		t = tb
	}
	if t.K == "const" {
		t = tInt
	}
	cmp := func(intOp, fl string, swap bool) (string, *Ty) {
		if t.K == "float" {
			if swap {
				return fmt.Sprintf("(%s %s %s)", fl, b, a), tBool
			}
			return fmt.Sprintf("(%s %s %s)", fl, a, b), tBool
		}
		if t.K == "int" {
			return fmt.Sprintf("(decide (%s %s %s))", a, intOp, b), tBool
		}
		panic(unsupported("comparison on " + t.K))
	}
	switch op {
	case token.LSS:
		return cmp("<", "Scalar.lt", false)
	case token.LEQ:
		return cmp("≤", "Scalar.le", false)
	case token.GTR:
		return cmp(">", "Scalar.lt", true)
	case token.GEQ:
		return cmp("≥", "Scalar.le", true)
	case token.EQL, token.NEQ:
		var s string
		switch t.K {
		case "struct":
			// pointer identity between the receiver / pointer parameters: a Boolean parameter of the
			// translated function, decided syntactically at each call site
			ia, oka := x.X.(*ast.Ident)
			ib, okb := x.Y.(*ast.Ident)
			if !oka || !okb {
				panic(unsupported("pointer comparison " + exprText(x)))
			}
			if ib.Name == "nil" {
				panic(unsupported("nil test of a non-nilable pointer " + exprText(x)))
			}
			s = "st." + e.c.aliasFlag(ia.Name, ib.Name)
		case "float":
			s = fmt.Sprintf("(Scalar.eq %s %s)", a, b)
		case "int":
			s = fmt.Sprintf("(decide (%s = %s))", a, b)
		case "bool":
			s = fmt.Sprintf("(%s == %s)", a, b)
		case "error":
			if b == "(none : Option GoError)" {
				s = fmt.Sprintf("(%s).isNone", a)
			} else {
				s = fmt.Sprintf("(decide (%s = %s))", a, b)
			}
		case "opt":
			if !strings.HasPrefix(b, "(none :") {
				panic(unsupported("pointer comparison"))
			}
			s = fmt.Sprintf("(%s).isNone", a)
		default:
			panic(unsupported("equality on " + t.K))
		}
		if op == token.NEQ {
			s = "(!" + s + ")"
		}
		return s, tBool
	}
	if t.K == "float" {
		fn := map[token.Token]string{token.ADD: "Scalar.add", token.SUB: "Scalar.sub", token.MUL: "Scalar.mul", token.QUO: "Scalar.div"}[op]
		if fn == "" {
			panic(unsupported("float op " + op.String()))
		}
		return fmt.Sprintf("(%s %s %s)", fn, a, b), tFloat
	}
	if t.K == "int" {
		switch op {
		case token.ADD, token.SUB, token.MUL:
			return fmt.Sprintf("(%s %s %s)", a, op.String(), b), tInt
		case token.QUO:
			return fmt.Sprintf("(Int.tdiv %s %s)", a, b), tInt
		case token.REM:
			return fmt.Sprintf("(Int.tmod %s %s)", a, b), tInt
		case token.SHL:
			// a << k for a literal k only (unbounded ints: no wrap-around, see 14.3)
			if m := regexp.MustCompile(`^\((\d+) : Int\)$`).FindStringSubmatch(b); m != nil {
				return fmt.Sprintf("(%s * (2 : Int) ^ %s)", a, m[1]), tInt
			}
		}
	}
	panic(unsupported("binary " + op.String() + " on " + t.K))
}

func isConstExpr(x ast.Expr) bool {
	switch x := x.(type) {
	case *ast.BasicLit:
		return true
	case *ast.ParenExpr:
		return isConstExpr(x.X)
	case *ast.Ident:
		return x.Name == "nil"
	}
	return false
}

func (e *ectx) call(x *ast.CallExpr, want *Ty) (string, *Ty) {
	// builtins and intrinsics
	if id, ok := x.Fun.(*ast.Ident); ok && e.c.lookup(id.Name) == nil {
		switch id.Name {
		case "len":
			s, t := e.expr(x.Args[0], nil)
			if t.K != "slice" {
				panic(unsupported("len of " + t.K))
			}
			return "(goLen " + s + ")", tInt
		case "cap":
			s, t := e.expr(x.Args[0], nil)
			if t.K != "slice" {
				panic(unsupported("cap of " + t.K))
			}
			e.c.fn.UsesCap = true
			return "(capO (" + s + ").length)", tInt
		case "append":
			s, t := e.expr(x.Args[0], want)
			if t.K != "slice" {
				panic(unsupported("append to " + t.K))
			}
			if x.Ellipsis != token.NoPos {
				if len(x.Args) != 2 {
					panic(unsupported("append with ... and several arguments"))
				}
				y, _ := e.expr(x.Args[1], t)
				return "(" + s + " ++ " + y + ")", t
			}
			var els []string
			for _, a := range x.Args[1:] {
				y, _ := e.expr(a, t.Elem)
				els = append(els, y)
			}
			return "(" + s + " ++ [" + strings.Join(els, ", ") + "])", t
		case "make":
			t := typeFromAst(x.Args[0])
			if t.K != "slice" {
				panic(unsupported("make of " + t.K))
			}
			n, _ := e.expr(x.Args[1], tInt)
			if len(x.Args) == 3 {
				// make([]T, n, cap): the capacity is not modelled, but a negative one panics
				e.expr(x.Args[2], tInt)
			}
			return e.bind(fmt.Sprintf("goMake %s %s", t.Elem.zero(), n)), t
		case "float64":
			a, ta := e.expr(x.Args[0], nil)
			if ta.K == "float" {
				return a, tFloat
			}
			return "(goFloatOfInt " + a + " : α)", tFloat
		case "int":
			a, ta := e.expr(x.Args[0], tInt)
			if ta.K != "int" && ta.K != "const" {
				panic(unsupported("int() of " + ta.K))
			}
			return a, tInt
		case "NewCSRMatrix":
			return e.newCSR(x)
		case "SortEntriesByValue":
			a, ta := e.expr(x.Args[0], nil)
			return "(goSortEntriesByValue " + a + ")", ta
		case "max", "min":
			a, ta := e.expr(x.Args[0], want)
			b, _ := e.expr(x.Args[1], ta)
			if ta.K == "float" {
				panic(unsupported("float max/min"))
			}
			return fmt.Sprintf("(%s %s %s)", id.Name, a, b), tInt
		}
		if f, ok := fns[id.Name]; ok {
			return e.callFn(f, nil, x.Args)
		}
		panic(unsupported("call of " + id.Name))
	}
	if sel, ok := x.Fun.(*ast.SelectorExpr); ok {
		if id, ok := sel.X.(*ast.Ident); ok && e.c.lookup(id.Name) == nil {
			q := id.Name + "." + sel.Sel.Name
			switch q {
			case "math.Abs":
				s, _ := e.expr(x.Args[0], tFloat)
				return "(Scalar.abs " + s + ")", tFloat
			case "math.Sqrt":
				// `Scalar` has no square root: an uninterpreted function parameter (Float.sqrt at Float)
				s, _ := e.expr(x.Args[0], tFloat)
				e.c.fn.Oracles["sqrtO"] = true
				return "(sqrtO " + s + ")", tFloat
			case "math.IsNaN":
				s, _ := e.expr(x.Args[0], tFloat)
				e.c.fn.Oracles["nanO"] = true
				return "(nanO " + s + ")", tBool
			case "math.IsInf":
				s, _ := e.expr(x.Args[0], tFloat)
				e.c.fn.Oracles["infO"] = true
				return "(infO " + s + ")", tBool
			case "errors.New", "fmt.Errorf":
				// a fresh error value: identified by its (format) string; the arguments are not modelled
				lit, ok := x.Args[0].(*ast.BasicLit)
				if !ok {
					panic(unsupported(q + " without a literal"))
				}
				return fmt.Sprintf("(some ⟨%s⟩ : Option GoError)", lit.Value), tErr
			case "reflect.DeepEqual":
				a, ta := e.expr(x.Args[0], nil)
				b, _ := e.expr(x.Args[1], ta)
				if ta.K != "slice" || ta.Elem.K != "int" {
					panic(unsupported("reflect.DeepEqual on " + ta.K))
				}
				return e.bind(fmt.Sprintf("goDeepEqualInts %s %s", a, b)), tBool
			case "sparse.SortEntriesByValue":
				a, ta := e.expr(x.Args[0], nil)
				return "(goSortEntriesByValue " + a + ")", ta
			case "errors.Is":
				a, ta := e.expr(x.Args[0], tErr)
				b, _ := e.expr(x.Args[1], tErr)
				if ta.K != "error" {
					panic(unsupported("errors.Is on " + ta.K))
				}
				// the errors of this code base are plain sentinels (no wrapping): Is = equality
				return fmt.Sprintf("(decide (%s = %s))", a, b), tBool
			case "sort.Search":
				return e.sortSearch(x)
			case "sparse.NewCSRMatrix":
				return e.newCSR(x)
			}
			// function of another translated package, e.g. sparse.VecDot
			if f, ok := fns[sel.Sel.Name]; ok {
				return e.callFn(f, nil, x.Args)
			}
			panic(unsupported("call of " + q))
		}
		// method call
		_, rt := e.sub().expr0(sel.X, nil)
		if rt.K == "opt" {
			rt = rt.Elem
		}
		if rt.K == "struct" {
			if f, ok := fns[fnKey(rt.Name, sel.Sel.Name)]; ok {
				return e.callFn(f, sel.X, x.Args)
			}
			panic(unsupported("method " + rt.Name + "." + sel.Sel.Name))
		}
	}
	panic(unsupported("call"))
}

// sort.Search(n, func(i int) bool { return <expr> }) — the closure becomes a Lean lambda.
func (e *ectx) sortSearch(x *ast.CallExpr) (string, *Ty) {
	n, _ := e.expr(x.Args[0], tInt)
	fl, ok := x.Args[1].(*ast.FuncLit)
	if !ok || fl.Type.Params.NumFields() != 1 || len(fl.Body.List) != 1 {
		panic(unsupported("sort.Search predicate"))
	}
	ret, ok := fl.Body.List[0].(*ast.ReturnStmt)
	if !ok || len(ret.Results) != 1 {
		panic(unsupported("sort.Search predicate"))
	}
	pname := fl.Type.Params.List[0].Names[0].Name
	e.c.push()
	e.c.scopes[len(e.c.scopes)-1][pname] = &Var{Go: pname, Lean: "i_", Ty: tInt, Raw: true}
	sub := e.sub()
	cond, _ := sub.expr(ret.Results[0], tBool)
	e.c.pop()
	return e.bind(fmt.Sprintf("goSearch %s (fun i_ => %s)", n, doBlock(sub.lines, "pure "+cond, "      "))), tInt
}

// sparse.NewCSRMatrix(rows, cols, nil, _): the empty rows×cols matrix (matrix.go 333-336, 349-355
// with no entries; the finalizer is not modelled).  Any other argument shape is unsupported.
func (e *ectx) newCSR(x *ast.CallExpr) (string, *Ty) {
	if len(x.Args) != 4 {
		panic(unsupported("NewCSRMatrix arguments"))
	}
	if id, ok := x.Args[2].(*ast.Ident); !ok || id.Name != "nil" {
		if f, ok := fns["NewCSRMatrix"]; ok {
			return e.callFn(f, nil, x.Args)
		}
		panic(unsupported("NewCSRMatrix with entries"))
	}
	r, _ := e.expr(x.Args[0], tInt)
	c, _ := e.expr(x.Args[1], tInt)
	rows := e.bind(fmt.Sprintf("goMake ([] : List (GEntry α)) %s", r))
	return fmt.Sprintf("({ MajorDim := %s, MinorDim := %s, Entries := %s } : GCSMatrix α)", r, c, rows), &Ty{K: "struct", Name: "CSMatrix"}
}

// callFn emits a call of a translated function, with copy-back of what the callee writes
// through its receiver / pointer parameters.
func (e *ectx) callFn(f *Fn, recv ast.Expr, args []ast.Expr) (string, *Ty) {
	if f.Err != "" {
		panic(unsupported("callee " + f.LeanName + " is unsupported"))
	}
	var parts []string
	parts = append(parts, "Gen."+f.LeanName)
	if f.UsesCap {
		e.c.fn.UsesCap = true
		parts = append(parts, "capO")
	}
	if f.UsesFuel {
		e.c.fn.UsesFuel = true
		parts = append(parts, "fuel")
	}
	for _, o := range oracleOrder {
		if f.Oracles[o] {
			e.c.fn.Oracles[o] = true
			parts = append(parts, o)
		}
	}
	type back struct {
		lv   ast.Expr
		lean string
	}
	var backs []back
	if f.Recv != nil {
		s, _ := e.expr(recv, f.Recv.Ty)
		parts = append(parts, s)
		if f.Mutates[f.Recv.Lean] {
			backs = append(backs, back{recv, f.Recv.Lean})
		}
	}
	var real []ast.Expr
	for _, a := range args {
		if !e.c.isGhost(a) {
			real = append(real, a)
		}
	}
	args = real
	if len(args) != len(f.Params) {
		panic(unsupported("argument count"))
	}
	// alias flags of the callee: decided syntactically (same expression text = same object; distinct
	// variables and fresh composite literals are taken to be distinct objects)
	argText := map[string]string{}
	if f.Recv != nil {
		argText[f.Recv.Go] = exprText(recv)
	}
	for i, a := range args {
		argText[f.Params[i].Go] = exprText(a)
	}
	var aliasArgs []string
	for _, al := range f.Aliases {
		ta, tb := argText[al[1]], argText[al[2]]
		same := ta != "" && ta == tb && !strings.Contains(ta, "{")
		aliasArgs = append(aliasArgs, fmt.Sprintf("%v", same))
	}
	for i, a := range args {
		s, _ := e.expr(a, f.Params[i].Ty)
		parts = append(parts, s)
		if f.Mutates[f.Params[i].Lean] {
			backs = append(backs, back{a, f.Params[i].Lean})
		}
	}
	parts = append(parts, aliasArgs...)
	r := e.bind(strings.Join(parts, " "))
	for _, b := range backs {
		v := fmt.Sprintf("%s.1.%s", r, b.lean)
		if e.lvType(b.lv).K == "opt" {
			v = "(some " + v + ")"
		}
		e.assignTop(b.lv, v)
	}
	return r + ".2", f.Result
}

// assignTop: an assignment as the source makes it, followed by the write-through of every view it touches.
func (e *ectx) assignTop(lv ast.Expr, rhs string) {
	e.assignTo(lv, rhs)
	t := exprText(lv)
	for _, v := range e.c.views {
		if t == v.key || strings.HasPrefix(t, v.key+"[") || strings.HasPrefix(t, v.key+".") {
			cur, _ := e.expr0(parseExpr(v.key), nil)
			e.assignTo(parseExpr(v.origin), cur)
		}
	}
}

// assignTo emits `let st := { st with root := … }` for the lvalue lv := rhs.
func (e *ectx) assignTo(lv ast.Expr, rhs string) {
	switch x := lv.(type) {
	case *ast.ParenExpr:
		e.assignTo(x.X, rhs)
	case *ast.StarExpr:
		e.assignTo(x.X, rhs)
	case *ast.UnaryExpr:
		if x.Op == token.AND {
			e.assignTo(x.X, rhs)
			return
		}
		panic(unsupported("assignment target"))
	case *ast.Ident:
		if x.Name == "_" {
			return
		}
		v := e.c.lookup(x.Name)
		if v == nil {
			panic(unsupported("assignment to " + x.Name))
		}
		if v == e.c.fn.Recv {
			e.c.fn.Mutates[v.Lean] = true
		}
		for _, p := range e.c.fn.Params {
			if p == v && (v.Ty.K == "struct" || v.Ty.K == "slice") {
				// conservatively: a write to (or through) a pointer / slice parameter
				e.c.fn.Mutates[v.Lean] = true
			}
		}
		e.lines = append(e.lines, fmt.Sprintf("let st := { st with %s := %s }", v.Lean, rhs))
	case *ast.SelectorExpr:
		cur, t := e.expr0(x.X, nil)
		wrap := false
		if t.K == "opt" {
			cur, t = e.deref(cur, t)
			wrap = true
		}
		if t.K != "struct" {
			panic(unsupported("field assignment on " + t.K))
		}
		if structs[t.Name].field(x.Sel.Name) == nil {
			panic(unsupported("field " + x.Sel.Name))
		}
		nv := fmt.Sprintf("{ %s with %s := %s }", cur, x.Sel.Name, rhs)
		if wrap {
			nv = "(some " + nv + ")"
		}
		e.assignTo(x.X, nv)
	case *ast.IndexExpr:
		cur, t := e.expr(x.X, nil)
		if t.K != "slice" {
			panic(unsupported("index assignment on " + t.K))
		}
		if id, ok := x.X.(*ast.Ident); ok {
			covered := false
			for _, vw := range e.c.views {
				if vw.key == id.Name {
					covered = true // a view: written through to its origin by assignTop
				}
			}
			if v := e.c.lookup(id.Name); v != nil && v.Origin != "" && !covered {
				e.c.fn.Written[v] = true // element write through a slice that shares a backing array
			}
		}
		i, _ := e.expr(x.Index, tInt)
		nl := e.bind(fmt.Sprintf("goSet %s %s %s", cur, i, rhs))
		e.assignTo(x.X, nl)
	default:
		panic(unsupported(fmt.Sprintf("assignment target %T", lv)))
	}
}

func exprText(x ast.Expr) string {
	switch y := x.(type) {
	case nil:
		return ""
	case *ast.Ident:
		return y.Name
	case *ast.ParenExpr:
		return exprText(y.X)
	case *ast.StarExpr:
		return exprText(y.X)
	case *ast.UnaryExpr:
		if y.Op == token.AND {
			return exprText(y.X)
		}
		return y.Op.String() + exprText(y.X)
	case *ast.SelectorExpr:
		return exprText(y.X) + "." + y.Sel.Name
	case *ast.IndexExpr:
		return exprText(y.X) + "[" + exprText(y.Index) + "]"
	case *ast.BasicLit:
		return y.Value
	case *ast.CompositeLit:
		return "{composite}"
	case *ast.BinaryExpr:
		return exprText(y.X) + y.Op.String() + exprText(y.Y)
	case *ast.CallExpr:
		return exprText(y.Fun) + "(…)"
	}
	return fmt.Sprintf("<%T>", x)
}

func (e *ectx) lvType(lv ast.Expr) *Ty {
	_, t := e.sub().expr0(lv, nil)
	return t
}

// ---------------------------------------------------------------- statements

const ind = "  "

func (c *comp) setStmt(e *ectx, depth string) string {
	return "(Stm.set fun st => " + doBlock(e.lines, "pure st", depth+ind) + ")"
}

func seqOf(parts []string, depth string) string {
	var ps []string
	for _, p := range parts {
		if p != "Stm.skip" {
			ps = append(ps, p)
		}
	}
	if len(ps) == 0 {
		return "Stm.skip"
	}
	s := ps[len(ps)-1]
	for i := len(ps) - 2; i >= 0; i-- {
		s = "(Stm.seq " + ps[i] + "\n" + depth + s + ")"
	}
	return s
}

func (c *comp) block(stmts []ast.Stmt, depth string) string {
	c.push()
	defer c.pop()
	var parts []string
	for _, s := range stmts {
		parts = append(parts, c.stmt(s, depth))
	}
	return seqOf(parts, depth)
}

func stateful(e *ectx) bool {
	for _, l := range e.lines {
		if strings.HasPrefix(l, "let st :=") {
			return true
		}
	}
	return false
}

// cond compiles a condition `σ → R Bool`.  A condition may not change the state (the combinators give it
// no way to): a condition whose evaluation writes through a receiver / parameter (a call with copy-back)
// is hoisted by the caller with condHoisted, or is unsupported (loop and switch-case conditions).
func (c *comp) cond(x ast.Expr, depth string) string {
	e := c.newCtx()
	s, _ := e.expr(x, tBool)
	if stateful(e) {
		panic(unsupported("condition with side effects on the state"))
	}
	return "(fun st => " + doBlock(e.lines, "pure "+s, depth+ind) + ")"
}

// condHoisted: for an `if`, a side-effecting condition is first evaluated into a fresh Boolean state
// field by a `Stm.set` (which keeps the state changes), and the `ite` then tests that field.
func (c *comp) condHoisted(x ast.Expr, depth string) (pre string, cond string) {
	e := c.newCtx()
	s, _ := e.expr(x, tBool)
	if !stateful(e) {
		return "Stm.skip", "(fun st => " + doBlock(e.lines, "pure "+s, depth+ind) + ")"
	}
	v := c.declare("cond", tBool)
	e.lines = append(e.lines, fmt.Sprintf("let st := { st with %s := %s }", v.Lean, s))
	return c.setStmt(e, depth), "(fun st => pure st." + v.Lean + ")"
}

func (c *comp) findFrame(label string, forContinue bool) *frame {
	for i := len(c.frames) - 1; i >= 0; i-- {
		f := c.frames[i]
		if label != "" {
			if f.label == label {
				return f
			}
			continue
		}
		if forContinue && !f.isLoop {
			continue
		}
		return f
	}
	panic(unsupported("branch target"))
}

func (c *comp) newFrame(isLoop bool) *frame {
	c.nextID++
	f := &frame{label: c.pendingLabel, id: c.nextID, isLoop: isLoop}
	c.pendingLabel = ""
	c.frames = append(c.frames, f)
	return f
}

func (c *comp) popFrame() { c.frames = c.frames[:len(c.frames)-1] }

func (c *comp) stmt(s ast.Stmt, depth string) string {
	d := depth + ind
	switch s := s.(type) {
	case *ast.EmptyStmt:
		return "Stm.skip"
	case *ast.BlockStmt:
		return c.block(s.List, depth)
	case *ast.LabeledStmt:
		c.pendingLabel = s.Label.Name
		return c.stmt(s.Stmt, depth)
	case *ast.DeclStmt:
		gd := s.Decl.(*ast.GenDecl)
		if gd.Tok != token.VAR {
			panic(unsupported("declaration"))
		}
		e := c.newCtx()
		for _, sp := range gd.Specs {
			vs := sp.(*ast.ValueSpec)
			if len(vs.Values) > 0 {
				panic(unsupported("var with initialiser"))
			}
			t := typeFromAst(vs.Type)
			for _, n := range vs.Names {
				v := c.declare(n.Name, t)
				if v != nil {
					e.lines = append(e.lines, fmt.Sprintf("let st := { st with %s := %s }", v.Lean, t.zero()))
				}
			}
		}
		return c.setStmt(e, d)
	case *ast.SelectStmt:
		// `select { case <-ctx.Done(): return …; default: }`: a cancellation poll (not modelled)
		for _, cl := range s.Body.List {
			cc := cl.(*ast.CommClause)
			if cc.Comm == nil {
				if len(cc.Body) != 0 {
					panic(unsupported("select default with a body"))
				}
				continue
			}
			es, ok := cc.Comm.(*ast.ExprStmt)
			if !ok || !strings.HasPrefix(exprText(es.X), "<-") || !c.isGhost(es.X.(*ast.UnaryExpr).X) {
				panic(unsupported("select"))
			}
		}
		return "Stm.skip"
	case *ast.ExprStmt:
		if c.isGhost(s.X) {
			return "Stm.skip"
		}
		call, ok := s.X.(*ast.CallExpr)
		if !ok {
			panic(unsupported("expression statement"))
		}
		if id, ok := call.Fun.(*ast.Ident); ok && c.ghosts[id.Name] {
			return "Stm.skip"
		}
		if id, ok := call.Fun.(*ast.Ident); ok {
			if fl, ok := c.closures[id.Name]; ok {
				return c.block(fl.Body.List, depth)
			}
		}
		if t := exprText(call.Fun); t == "runtime.SetFinalizer" || t == "runtime.GC" {
			return "Stm.skip" // no effect on the values computed (finalizers / GC are not modelled)
		}
		if exprText(call.Fun) == "sort.Sort" && len(call.Args) == 1 {
			// sort.Sort(EntriesByIndex(x)) / EntriesByValue: in-place sort of the slice x (any sorted
			// permutation: the model's insertion sort)
			conv, ok := call.Args[0].(*ast.CallExpr)
			if !ok || len(conv.Args) != 1 {
				panic(unsupported("sort.Sort operand"))
			}
			fn := map[string]string{"EntriesByIndex": "goSortEntriesByIndex", "EntriesByValue": "goSortEntriesByValue"}[exprText(conv.Fun)]
			if fn == "" {
				panic(unsupported("sort.Sort of " + exprText(conv.Fun)))
			}
			e := c.newCtx()
			cur, t := e.expr0(conv.Args[0], nil)
			if t.K != "slice" {
				panic(unsupported("sort.Sort of " + t.K))
			}
			e.assignTop(conv.Args[0], "("+fn+" "+cur+")")
			return c.setStmt(e, d)
		}
		e := c.newCtx()
		e.call(call, nil)
		return c.setStmt(e, d)
	case *ast.IncDecStmt:
		e := c.newCtx()
		cur, t := e.expr(s.X, nil)
		if t.K != "int" {
			panic(unsupported("++ on " + t.K))
		}
		op := "+"
		if s.Tok == token.DEC {
			op = "-"
		}
		e.assignTop(s.X, fmt.Sprintf("(%s %s 1)", cur, op))
		return c.setStmt(e, d)
	case *ast.AssignStmt:
		return c.assign(s, d)
	case *ast.ReturnStmt:
		e := c.newCtx()
		var vals []string
		res := c.fn.Result
		if len(s.Results) == 0 {
			for _, nv := range c.fn.Named {
				vals = append(vals, "st."+nv.Lean)
			}
		}
		for i, r := range s.Results {
			want := res
			if res.K == "tuple" {
				want = res.Elems[i]
			}
			v, _ := e.expr(r, want)
			vals = append(vals, v)
		}
		v := "()"
		if len(vals) == 1 {
			v = vals[0]
		} else if len(vals) > 1 {
			v = "(" + strings.Join(vals, ", ") + ")"
		}
		if stateful(e) {
			// the returned expression writes through a receiver / parameter: keep the state change
			// (a `Stm.set` storing the value), then return the stored value
			rv := c.declare("retval", res)
			e.lines = append(e.lines, fmt.Sprintf("let st := { st with %s := %s }", rv.Lean, v))
			return seqOf([]string{c.setStmt(e, d), "(Stm.ret fun st => pure st." + rv.Lean + ")"}, depth)
		}
		return "(Stm.ret fun st => " + doBlock(e.lines, "pure "+v, d) + ")"
	case *ast.BranchStmt:
		label := ""
		if s.Label != nil {
			label = s.Label.Name
		}
		switch s.Tok {
		case token.BREAK:
			f := c.findFrame(label, false)
			f.used = true
			return fmt.Sprintf("(Stm.brk %d)", f.id)
		case token.CONTINUE:
			f := c.findFrame(label, true)
			return fmt.Sprintf("(Stm.cont %d)", f.id)
		}
		panic(unsupported("branch " + s.Tok.String()))
	case *ast.IfStmt:
		c.push()
		defer c.pop()
		var parts []string
		if s.Init != nil {
			parts = append(parts, c.stmt(s.Init, depth))
		}
		pre, cond := c.condHoisted(s.Cond, d)
		parts = append(parts, pre)
		then := c.block(s.Body.List, d)
		els := "Stm.skip"
		if s.Else != nil {
			els = c.stmt(s.Else, d)
		}
		parts = append(parts, fmt.Sprintf("(Stm.ite %s\n%s%s\n%s%s)", cond, d, then, d, els))
		return seqOf(parts, depth)
	case *ast.SwitchStmt:
		if s.Tag != nil || s.Init != nil {
			panic(unsupported("switch with tag/init"))
		}
		f := c.newFrame(false)
		var deflt *ast.CaseClause
		var cases []*ast.CaseClause
		for _, cl := range s.Body.List {
			cc := cl.(*ast.CaseClause)
			if cc.List == nil {
				deflt = cc
			} else {
				cases = append(cases, cc)
			}
		}
		out := "Stm.skip"
		if deflt != nil {
			out = c.block(deflt.Body, d)
		}
		for i := len(cases) - 1; i >= 0; i-- {
			cc := cases[i]
			if len(cc.List) != 1 {
				panic(unsupported("case list"))
			}
			for _, st := range cc.Body {
				if b, ok := st.(*ast.BranchStmt); ok && b.Tok == token.FALLTHROUGH {
					panic(unsupported("fallthrough"))
				}
			}
			cond := c.cond(cc.List[0], d)
			body := c.block(cc.Body, d)
			out = fmt.Sprintf("(Stm.ite %s\n%s%s\n%s%s)", cond, d, body, d, out)
		}
		c.popFrame()
		if f.used {
			out = fmt.Sprintf("(Stm.block %d %s)", f.id, out)
		}
		return out
	case *ast.ForStmt:
		c.push()
		defer c.pop()
		c.fn.UsesFuel = true
		label := c.pendingLabel
		c.pendingLabel = ""
		init := "Stm.skip"
		if s.Init != nil {
			init = c.stmt(s.Init, depth)
		}
		c.pendingLabel = label
		f := c.newFrame(true)
		cond := "(fun _ => pure true)"
		if s.Cond != nil {
			cond = c.cond(s.Cond, d)
		}
		body := c.block(s.Body.List, d)
		post := "Stm.skip"
		if s.Post != nil {
			post = c.stmt(s.Post, d)
		}
		c.popFrame()
		n := fmt.Sprintf("%s.loop%d", c.fn.LeanName, f.id)
		st := c.fn.LeanName + ".St α"
		c.aux = append(c.aux,
			fmt.Sprintf("def %s_cond«XP» : %s → R Bool :=\n  %s\n", n, st, cond),
			fmt.Sprintf("def %s_body«XP» : Stm (%s) %s :=\n  %s\n", n, st, c.fn.Result.lean(), body),
			fmt.Sprintf("def %s_post«XP» : Stm (%s) %s :=\n  %s\n", n, st, c.fn.Result.lean(), post))
		loop := fmt.Sprintf("(Stm.loop %d (%s_cond«XA») (%s_body«XA») (%s_post«XA») fuel)", f.id, n, n, n)
		return seqOf([]string{init, loop}, depth)
	case *ast.RangeStmt:
		if id, ok := s.X.(*ast.Ident); ok && c.ghosts[id.Name] && c.lookup(id.Name) == nil {
			if _, isOpts := optsParams[c.fn.T.Name]; isOpts {
				return "Stm.skip" // for _, opt := range opts { opt(&o) }: `o` is the parameter
			}
		}
		c.push()
		defer c.pop()
		if s.Tok != token.DEFINE {
			panic(unsupported("range with ="))
		}
		e := c.newCtx()
		xs, t := e.expr(s.X, nil)
		if t.K != "slice" {
			panic(unsupported("range over " + t.K))
		}
		if stateful(e) {
			panic(unsupported("range expression with side effects on the state"))
		}
		f := c.newFrame(true)
		var kv, vv *Var
		if s.Key != nil {
			kv = c.declare(s.Key.(*ast.Ident).Name, tInt)
		}
		if s.Value != nil {
			vv = c.declare(s.Value.(*ast.Ident).Name, t.Elem)
		}
		live := false
		if vv != nil && vv.Ty.K == "slice" && mutatesInPlace(s.Body, vv.Go) {
			// the body changes the row in place through the range variable (a copy of the slice header that
			// shares the row's backing array): re-read the row each iteration and write it through
			live = true
			if kv == nil {
				kv = c.declare("rangeIdx", tInt)
			}
			c.scopes[len(c.scopes)-1][kv.Lean] = kv
			c.views = append(c.views, view{key: vv.Go, origin: exprText(s.X) + "[" + kv.Lean + "]", depth: len(c.scopes)})
		} else if vv != nil && assignsThrough(s.Body, rootIdent(s.X)) {
			// the body writes through the ranged object: Go reads each element at the start of its
			// iteration from the live backing array.  Supported when the body only assigns ELEMENTS of
			// the ranged slice (never the slice itself, whose header Go has already copied).
			if !onlyElementWrites(s.Body, rootIdent(s.X), exprText(s.X)) {
				panic(unsupported("range body reassigns the ranged slice"))
			}
			live = true
			if kv == nil {
				kv = c.declare("rangeIdx", tInt)
			}
		}
		if vv != nil && vv.Ty.K == "slice" && !live {
			vv.Origin = exprText(s.X) + "[*]" // shares the row's backing array; can never be stored back
		}
		var ups []string
		if kv != nil {
			ups = append(ups, kv.Lean+" := i")
		}
		if vv != nil && !live {
			ups = append(ups, vv.Lean+" := x")
		}
		bind := "(fun _ _ st => st)"
		if len(ups) > 0 {
			iN, xN := "_", "_"
			if kv != nil {
				iN = "i"
			}
			if vv != nil && !live {
				xN = "x"
			}
			bind = fmt.Sprintf("(fun %s %s st => { st with %s })", iN, xN, strings.Join(ups, ", "))
		}
		body := c.block(s.Body.List, d)
		if live {
			le := c.newCtx()
			cur, _ := le.expr(s.X, nil)
			el := le.bind(fmt.Sprintf("goIdx %s st.%s", cur, kv.Lean))
			le.lines = append(le.lines, fmt.Sprintf("let st := { st with %s := %s }", vv.Lean, el))
			body = seqOf([]string{c.setStmt(le, d), body}, d)
		}
		c.popFrame()
		n := fmt.Sprintf("%s.loop%d", c.fn.LeanName, f.id)
		st := c.fn.LeanName + ".St α"
		c.aux = append(c.aux,
			fmt.Sprintf("def %s_xs«XP» : %s → R %s :=\n  (fun st => %s)\n", n, st, t.lean(), doBlock(e.lines, "pure "+xs, d)),
			fmt.Sprintf("def %s_bind«XP» : Int → %s → %s → %s :=\n  %s\n", n, t.Elem.lean(), st, st, bind),
			fmt.Sprintf("def %s_body«XP» : Stm (%s) %s :=\n  %s\n", n, st, c.fn.Result.lean(), body))
		return fmt.Sprintf("(Stm.rangeOver %d (%s_xs«XA») (%s_bind«XA») (%s_body«XA»))", f.id, n, n, n)
	}
	panic(unsupported(fmt.Sprintf("statement %T", s)))
}

func rootIdent(x ast.Expr) string {
	for {
		switch y := x.(type) {
		case *ast.Ident:
			return y.Name
		case *ast.SelectorExpr:
			x = y.X
		case *ast.IndexExpr:
			x = y.X
		case *ast.StarExpr:
			x = y.X
		case *ast.ParenExpr:
			x = y.X
		case *ast.UnaryExpr:
			x = y.X
		case *ast.SliceExpr:
			x = y.X
		default:
			return ""
		}
	}
}

func assignsThrough(body *ast.BlockStmt, root string) bool {
	found := false
	ast.Inspect(body, func(n ast.Node) bool {
		switch s := n.(type) {
		case *ast.AssignStmt:
			for _, l := range s.Lhs {
				if _, isId := l.(*ast.Ident); !isId && rootIdent(l) == root {
					found = true
				}
				if id, isId := l.(*ast.Ident); isId && id.Name == root && s.Tok != token.DEFINE {
					found = true
				}
			}
		case *ast.IncDecStmt:
			if rootIdent(s.X) == root {
				found = true
			}
		case *ast.CallExpr:
			// a method call on the ranged object may write through it
			if sel, ok := s.Fun.(*ast.SelectorExpr); ok && rootIdent(sel.X) == root {
				found = true
			}
		}
		return true
	})
	return found
}

// mutatesInPlace: the body sorts the slice variable in place or assigns its elements.
func mutatesInPlace(body *ast.BlockStmt, name string) bool {
	found := false
	ast.Inspect(body, func(n ast.Node) bool {
		switch s := n.(type) {
		case *ast.CallExpr:
			if exprText(s.Fun) == "sort.Sort" && len(s.Args) == 1 && rootIdent(innerArg(s.Args[0])) == name {
				found = true
			}
		case *ast.AssignStmt:
			for _, l := range s.Lhs {
				if _, isId := l.(*ast.Ident); !isId && rootIdent(l) == name {
					found = true
				}
			}
		}
		return true
	})
	return found
}

// innerArg: the operand of a conversion such as EntriesByIndex(row).
func innerArg(x ast.Expr) ast.Expr {
	if c, ok := x.(*ast.CallExpr); ok && len(c.Args) == 1 {
		return c.Args[0]
	}
	return x
}

// viewsOfCall: `x := recv.M(args)` where M returns a struct one of whose slice fields shares its backing array
// with a path over M's receiver / parameters (e.g. RowVector: Entries ≡ m.Entries[index]).  The path is
// instantiated with the actual receiver / arguments; non-literal arguments are snapshotted into fresh
// state fields so that the view keeps pointing at the same element.
func (c *comp) viewsOfCall(e *ectx, lhs string, call *ast.CallExpr) {
	sel, ok := call.Fun.(*ast.SelectorExpr)
	if !ok || c.lookup(rootIdent(sel.X)) == nil {
		return
	}
	_, rt := e.sub().expr0(sel.X, nil)
	if rt.K == "opt" {
		rt = rt.Elem
	}
	if rt.K != "struct" {
		return
	}
	f, ok := fns[fnKey(rt.Name, sel.Sel.Name)]
	if !ok || len(f.ResAlias) == 0 {
		return
	}
	subst := map[string]string{f.Recv.Go: exprText(sel.X)}
	var args []ast.Expr
	for _, a := range call.Args {
		if !c.isGhost(a) {
			args = append(args, a)
		}
	}
	for i, p := range f.Params {
		at := exprText(args[i])
		if _, isLit := args[i].(*ast.BasicLit); !isLit && p.Ty.K == "int" {
			sv := c.declare("viewIdx", tInt)
			cur, _ := e.expr0(args[i], tInt)
			e.lines = append(e.lines, fmt.Sprintf("let st := { st with %s := %s }", sv.Lean, cur))
			// the snapshot is addressed by its Go-level name = its Lean name (unique)
			c.scopes[len(c.scopes)-1][sv.Lean] = sv
			at = sv.Lean
		}
		subst[p.Go] = at
	}
	for _, ra := range f.ResAlias {
		path := parseExpr(ra[1])
		c.views = append(c.views, view{key: lhs + "." + ra[0], origin: exprText(substIdents(path, subst)), depth: len(c.scopes)})
	}
}

func substIdents(x ast.Expr, m map[string]string) ast.Expr {
	switch y := x.(type) {
	case *ast.Ident:
		if r, ok := m[y.Name]; ok {
			return parseExpr(r)
		}
		return y
	case *ast.SelectorExpr:
		return &ast.SelectorExpr{X: substIdents(y.X, m), Sel: y.Sel}
	case *ast.IndexExpr:
		return &ast.IndexExpr{X: substIdents(y.X, m), Index: substIdents(y.Index, m)}
	case *ast.ParenExpr:
		return substIdents(y.X, m)
	case *ast.StarExpr:
		return substIdents(y.X, m)
	}
	return x
}

// onlyElementWrites: every assignment in body whose target is rooted at `root` assigns an element
// (or a field of an element) of the ranged expression `rng`, never `rng` itself or a prefix of it.
func onlyElementWrites(body *ast.BlockStmt, root, rng string) bool {
	ok := true
	check := func(l ast.Expr) {
		if rootIdent(l) != root {
			return
		}
		if _, isId := l.(*ast.Ident); isId {
			ok = false
			return
		}
		if !strings.HasPrefix(exprText(l), rng+"[") {
			ok = false
		}
	}
	ast.Inspect(body, func(n ast.Node) bool {
		switch s := n.(type) {
		case *ast.AssignStmt:
			if s.Tok != token.DEFINE {
				for _, l := range s.Lhs {
					check(l)
				}
			}
		case *ast.IncDecStmt:
			check(s.X)
		case *ast.CallExpr:
			if sel, isSel := s.Fun.(*ast.SelectorExpr); isSel && rootIdent(sel.X) == root {
				ok = false // a method call on the ranged object may do anything to it
			}
		}
		return true
	})
	return ok
}

func (c *comp) assign(s *ast.AssignStmt, d string) string {
	allGhost := len(s.Rhs) > 0
	for _, r := range s.Rhs {
		if !c.isGhost(r) {
			allGhost = false
		}
	}
	if allGhost {
		for _, l := range s.Lhs {
			if id, ok := l.(*ast.Ident); ok {
				if c.lookup(id.Name) != nil {
					panic(unsupported("unmodelled value assigned to a modelled variable"))
				}
				c.ghosts[id.Name] = true
			}
		}
		return "Stm.skip"
	}
	if rep, ok := optsParams[c.fn.T.Name]; ok && s.Tok == token.DEFINE && len(s.Lhs) == 1 {
		if id, ok := s.Lhs[0].(*ast.Ident); ok && id.Name == rep[1] {
			if cl, ok := s.Rhs[0].(*ast.CompositeLit); ok && len(cl.Elts) == 0 {
				return "Stm.skip" // o := ComputeOpts{}: `o` is the parameter
			}
		}
	}
	e := c.newCtx()
	// closure definition: name := func() { … }
	if s.Tok == token.DEFINE && len(s.Lhs) == 1 && len(s.Rhs) == 1 {
		if fl, ok := s.Rhs[0].(*ast.FuncLit); ok {
			if fl.Type.Params.NumFields() != 0 || fl.Type.Results.NumFields() != 0 {
				panic(unsupported("closure with parameters or results"))
			}
			c.closures[s.Lhs[0].(*ast.Ident).Name] = fl
			return "Stm.skip"
		}
	}
	if s.Tok != token.ASSIGN && s.Tok != token.DEFINE {
		// op=
		if len(s.Lhs) != 1 {
			panic(unsupported("op-assign"))
		}
		cur, t := e.expr(s.Lhs[0], nil)
		rhs, _ := e.expr(s.Rhs[0], t)
		var v string
		switch t.K {
		case "float":
			fn := map[token.Token]string{token.ADD_ASSIGN: "Scalar.add", token.SUB_ASSIGN: "Scalar.sub", token.MUL_ASSIGN: "Scalar.mul", token.QUO_ASSIGN: "Scalar.div"}[s.Tok]
			if fn == "" {
				panic(unsupported("op-assign " + s.Tok.String()))
			}
			v = fmt.Sprintf("(%s %s %s)", fn, cur, rhs)
		case "int":
			op := map[token.Token]string{token.ADD_ASSIGN: "+", token.SUB_ASSIGN: "-", token.MUL_ASSIGN: "*"}[s.Tok]
			if op == "" {
				panic(unsupported("op-assign " + s.Tok.String()))
			}
			v = fmt.Sprintf("(%s %s %s)", cur, op, rhs)
		default:
			panic(unsupported("op-assign on " + t.K))
		}
		e.assignTop(s.Lhs[0], v)
		return c.setStmt(e, d)
	}
	// evaluate every right-hand side first (parallel assignment)
	var vals []string
	var tys []*Ty
	if len(s.Rhs) == 1 && len(s.Lhs) > 1 {
		// a, b := f(…): destructure the callee's result tuple
		call, ok := s.Rhs[0].(*ast.CallExpr)
		if !ok {
			panic(unsupported("multi-value assignment"))
		}
		v, t := e.call(call, nil)
		if t.K != "tuple" || len(t.Elems) != len(s.Lhs) {
			panic(unsupported("multi-value call assignment"))
		}
		tn := e.tmp()
		e.lines = append(e.lines, fmt.Sprintf("let %s := %s", tn, v))
		for i, l := range s.Lhs {
			proj := tn
			for k := 0; k < i; k++ {
				proj += ".2"
			}
			if i < len(s.Lhs)-1 {
				proj += ".1"
			}
			if id, ok := l.(*ast.Ident); ok && s.Tok == token.DEFINE && id.Name != "_" {
				if _, exists := c.scopes[len(c.scopes)-1][id.Name]; !exists {
					c.declare(id.Name, t.Elems[i])
				}
			}
			e.assignTop(l, proj)
		}
		return c.setStmt(e, d)
	}
	for i, r := range s.Rhs {
		var want *Ty
		if id, ok := s.Lhs[i].(*ast.Ident); ok {
			if v := c.lookup(id.Name); v != nil && !(s.Tok == token.DEFINE && c.scopes[len(c.scopes)-1][id.Name] == nil && false) {
				want = v.Ty
			}
		} else {
			want = e.lvType(s.Lhs[i])
		}
		v, t := e.expr(r, want)
		if len(s.Rhs) > 1 {
			// freeze the value before any assignment of this statement happens
			tn := e.tmp()
			e.lines = append(e.lines, fmt.Sprintf("let %s := %s", tn, v))
			v = tn
		}
		vals = append(vals, v)
		tys = append(tys, t)
	}
	for i, l := range s.Lhs {
		if id, ok := l.(*ast.Ident); ok && s.Tok == token.DEFINE && id.Name != "_" {
			if _, exists := c.scopes[len(c.scopes)-1][id.Name]; !exists {
				c.declare(id.Name, tys[i])
			}
		}
		if id, ok := l.(*ast.Ident); ok && len(s.Rhs) == len(s.Lhs) {
			if call, ok := s.Rhs[i].(*ast.CallExpr); ok {
				c.viewsOfCall(e, id.Name, call)
			}
		}
		if id, ok := l.(*ast.Ident); ok && tys[i].K == "slice" {
			// a slice variable copied from an lvalue path shares that path's backing array
			if v := c.lookup(id.Name); v != nil {
				switch r := s.Rhs[i].(type) {
				case *ast.Ident:
					if r.Name != "nil" {
						v.Origin = exprText(r)
					}
				case *ast.SelectorExpr, *ast.IndexExpr:
					v.Origin = exprText(r)
				case *ast.SliceExpr:
					if rootIdent(r) != id.Name { // a reslice of itself keeps its origin
						v.Origin = exprText(r.X)
					}
				default:
					v.Origin = "" // freshly allocated (append / make / call result)
				}
			}
		} else if tys[i].K == "slice" {
			// store-back `path = x…`: the writes made through x reach `path` again
			if r := rootIdent(s.Rhs[i]); r != "" {
				if v := c.lookup(r); v != nil && v.Origin == exprText(l) {
					c.fn.StoredBack[v] = true
				}
			}
		}
		e.assignTop(l, vals[i])
	}
	return c.setStmt(e, d)
}

// ---------------------------------------------------------------- driver

func parseDir(repo, dir string) []*ast.File {
	fset := token.NewFileSet()
	pkgs, err := parser.ParseDir(fset, filepath.Join(repo, dir), func(fi os.FileInfo) bool {
		return !strings.HasSuffix(fi.Name(), "_test.go")
	}, 0)
	if err != nil {
		fmt.Fprintln(os.Stderr, "parse:", err)
		os.Exit(1)
	}
	var files []*ast.File
	var names []string
	for _, p := range pkgs {
		for n := range p.Files {
			names = append(names, n)
		}
		sort.Strings(names)
		for _, n := range names {
			files = append(files, p.Files[n])
		}
	}
	return files
}

func findStruct(files []*ast.File, name string) *ast.StructType {
	for _, f := range files {
		for _, d := range f.Decls {
			gd, ok := d.(*ast.GenDecl)
			if !ok || gd.Tok != token.TYPE {
				continue
			}
			for _, sp := range gd.Specs {
				ts := sp.(*ast.TypeSpec)
				if ts.Name.Name == name {
					if st, ok := ts.Type.(*ast.StructType); ok {
						return st
					}
				}
			}
		}
	}
	return nil
}

func findFunc(files []*ast.File, recv, name string) *ast.FuncDecl {
	for _, f := range files {
		for _, d := range f.Decls {
			fd, ok := d.(*ast.FuncDecl)
			if !ok || fd.Name.Name != name {
				continue
			}
			r := ""
			if fd.Recv != nil && len(fd.Recv.List) == 1 {
				t := fd.Recv.List[0].Type
				if s, ok := t.(*ast.StarExpr); ok {
					t = s.X
				}
				if id, ok := t.(*ast.Ident); ok {
					r = id.Name
				}
			}
			if r == recv {
				return fd
			}
		}
	}
	return nil
}

// An option constructor `func WithX(n T) ComputeOpt { return func(o *ComputeOpts) { … } }` is translated as
// the function that applies the option: receiver `o`, parameters of the constructor, body of the closure.
func optionClosure(fd *ast.FuncDecl) *ast.FuncLit {
	if fd.Recv != nil || fd.Body == nil || len(fd.Body.List) != 1 {
		return nil
	}
	ret, ok := fd.Body.List[0].(*ast.ReturnStmt)
	if !ok || len(ret.Results) != 1 {
		return nil
	}
	fl, ok := ret.Results[0].(*ast.FuncLit)
	if !ok || fl.Type.Params.NumFields() != 1 || fl.Type.Results.NumFields() != 0 {
		return nil
	}
	return fl
}

// externs: callees of the translated code that are NOT translated but hand-modelled in the Lean text of
// externs.lean (copied into the generated file): MulVec (goroutines; its sequential specification) and
// the convergence checker (square root / non-finiteness; the model's squared-delta checker).
func mkExtern(lean string, recv *Var, params []*Var, res *Ty, mutatesRecv bool) *Fn {
	f := &Fn{LeanName: lean, Recv: recv, Params: params, Result: res, Mutates: map[string]bool{}, Oracles: map[string]bool{}}
	if mutatesRecv {
		f.Mutates[recv.Lean] = true
	}
	return f
}

func registerExterns() {
	vec := &Ty{K: "struct", Name: "Vector"}
	mat := &Ty{K: "struct", Name: "CSMatrix"}
	cc := &Ty{K: "struct", Name: "ConvergenceChecker"}
	structs["ConvergenceChecker"] = &Struct{Name: "ConvergenceChecker"} // opaque: fields only in externs.lean
	fns["Vector.MulVec"] = mkExtern("Vector_MulVec", &Var{Go: "v", Lean: "v", Ty: vec},
		[]*Var{{Go: "m", Lean: "m", Ty: mat}, {Go: "v1", Lean: "v1", Ty: vec}}, tErr, true)
	fns["NewConvergenceChecker"] = mkExtern("NewConvergenceChecker", nil,
		[]*Var{{Go: "t0", Lean: "t0", Ty: vec}, {Go: "e", Lean: "e", Ty: tFloat}}, cc, false)
	fns["ConvergenceChecker.Update"] = mkExtern("ConvergenceChecker_Update", &Var{Go: "c", Lean: "c", Ty: cc},
		[]*Var{{Go: "t", Lean: "t", Ty: vec}}, tErr, true)
	fns["ConvergenceChecker.Converged"] = mkExtern("ConvergenceChecker_Converged", &Var{Go: "c", Lean: "c", Ty: cc}, nil, tBool, false)
	fns["ConvergenceChecker.Delta"] = mkExtern("ConvergenceChecker_Delta", &Var{Go: "c", Lean: "c", Ty: cc}, nil, tFloat, false)
}

func translate(f *Fn) {
	defer func() {
		if r := recover(); r != nil {
			if u, ok := r.(unsupported); ok {
				f.Err = string(u)
				return
			}
			panic(r)
		}
	}()
	c := &comp{fn: f, names: map[string]int{}, closures: map[string]*ast.FuncLit{}, ghosts: map[string]bool{}}
	c.push()
	fd := f.Decl
	if fd.Type.TypeParams != nil {
		panic(unsupported("generic function"))
	}
	body := fd.Body
	var optLit *ast.FuncLit
	if optLit = optionClosure(fd); optLit != nil {
		r := optLit.Type.Params.List[0]
		f.Recv = c.declare(r.Names[0].Name, typeFromAst(r.Type))
		body = optLit.Body
	}
	if fd.Recv != nil {
		r := fd.Recv.List[0]
		name := "_recv"
		if len(r.Names) == 1 {
			name = r.Names[0].Name
		}
		f.Recv = c.declare(name, typeFromAst(r.Type))
	}
	nilTested := map[string]bool{}
	ast.Inspect(fd.Body, func(n ast.Node) bool {
		if b, ok := n.(*ast.BinaryExpr); ok && (b.Op == token.EQL || b.Op == token.NEQ) {
			if id, ok := b.Y.(*ast.Ident); ok && id.Name == "nil" {
				if x, ok := b.X.(*ast.Ident); ok {
					nilTested[x.Name] = true
				}
			}
		}
		return true
	})
	for _, p := range fd.Type.Params.List {
		t := typeFromAst(p.Type)
		if _, isPtr := p.Type.(*ast.StarExpr); isPtr {
			for _, n := range p.Names {
				if nilTested[n.Name] {
					t = fieldTypeFromAst(p.Type) // a pointer parameter the body tests against nil may be nil
				}
			}
		}
		for _, n := range p.Names {
			if rep, ok := optsParams[f.T.Name]; ok && n.Name == rep[0] {
				// the variadic option list is replaced by the options record it is folded into
				f.Params = append(f.Params, c.declare(rep[1], &Ty{K: "struct", Name: rep[2]}))
				c.ghosts[rep[0]] = true
				continue
			}
			if t.K == "ghost" || (t.K == "slice" && t.Elem.K == "ghost") {
				c.ghosts[n.Name] = true
				continue
			}
			f.Params = append(f.Params, c.declare(n.Name, t))
		}
	}
	f.Result = tUnit
	if fd.Type.Results != nil && optLit == nil {
		var rs []*Ty
		for _, r := range fd.Type.Results.List {
			t := typeFromAst(r.Type)
			if len(r.Names) == 0 {
				rs = append(rs, t)
			}
			for _, n := range r.Names {
				// named result: a local variable (zero-initialised) returned by a bare `return`
				f.Named = append(f.Named, c.declare(n.Name, t))
				rs = append(rs, t)
			}
		}
		if len(rs) == 1 {
			f.Result = rs[0]
		} else if len(rs) > 1 {
			f.Result = &Ty{K: "tuple", Elems: rs}
		}
	}
	f.Body = c.block(body.List, "  ")
	f.Aux = c.aux
	// result aliasing: `return &T{…, F: <path over receiver/params>, …}` with F a slice
	if len(body.List) == 1 {
		if ret, ok := body.List[0].(*ast.ReturnStmt); ok && len(ret.Results) == 1 {
			x := ret.Results[0]
			if u, ok := x.(*ast.UnaryExpr); ok && u.Op == token.AND {
				x = u.X
			}
			if cl, ok := x.(*ast.CompositeLit); ok && f.Result.K == "struct" {
				for _, el := range cl.Elts {
					if kv, ok := el.(*ast.KeyValueExpr); ok {
						k := kv.Key.(*ast.Ident).Name
						if ft := structs[f.Result.Name].field(k); ft != nil && ft.K == "slice" {
							switch kv.Value.(type) {
							case *ast.IndexExpr, *ast.SelectorExpr:
								f.ResAlias = append(f.ResAlias, [2]string{k, exprText(kv.Value)})
							}
						}
					}
				}
			}
		}
	}
	// alias lint: value semantics is only faithful if every element write through a local slice that
	// shares a backing array with an lvalue path is stored back to that path
	for v := range f.Written {
		if !f.StoredBack[v] {
			panic(unsupported("element write through " + v.Go + " (shares the backing array of " + v.Origin + ") is never stored back"))
		}
	}
}

func emit(f *Fn, w *strings.Builder) {
	if f.Err != "" {
		fmt.Fprintf(w, "-- UNSUPPORTED %s: %s\n\n", f.LeanName, f.Err)
		return
	}
	pos := f.T.Dir + " " + fnKey(f.T.Recv, f.T.Name)
	fmt.Fprintf(w, "/-! ### %s -/\n\n", pos)
	fmt.Fprintf(w, "structure %s.St (α : Type) where\n", f.LeanName)
	for _, v := range f.Vars {
		fmt.Fprintf(w, "  %s : %s\n", v.Lean, v.Ty.lean())
	}
	for _, al := range f.Aliases {
		fmt.Fprintf(w, "  %s : Bool  -- Go: %s and %s are the same object\n", al[0], al[1], al[2])
	}
	extraP, extraA := "", ""
	if f.UsesCap {
		extraP += " (capO : Nat → Int)"
		extraA += " capO"
	}
	if f.UsesFuel {
		extraP += " (fuel : Nat)"
		extraA += " fuel"
	}
	for _, o := range oracleOrder {
		if f.Oracles[o] {
			extraP += " (" + o + " : " + oracleType[o] + ")"
			extraA += " " + o
		}
	}
	rp := strings.NewReplacer("«XP»", extraP, "«XA»", extraA)
	fmt.Fprintln(w)
	for _, a := range f.Aux {
		fmt.Fprintln(w, rp.Replace(a))
	}
	fmt.Fprintf(w, "def %s.body%s : Stm (%s.St α) %s :=\n  %s\n\n", f.LeanName, extraP, f.LeanName, f.Result.lean(), rp.Replace(f.Body))
	var ps, inits []string
	isParam := map[*Var]bool{}
	aliasSet := map[string]bool{}
	for _, al := range f.Aliases {
		aliasSet[al[0]] = true
	}
	if f.Recv != nil {
		isParam[f.Recv] = true
		ps = append(ps, fmt.Sprintf("(%s : %s)", f.Recv.Lean, f.Recv.Ty.lean()))
	}
	for _, p := range f.Params {
		isParam[p] = true
		ps = append(ps, fmt.Sprintf("(%s : %s)", p.Lean, p.Ty.lean()))
	}
	for _, al := range f.Aliases {
		ps = append(ps, fmt.Sprintf("(%s : Bool)", al[0]))
		inits = append(inits, fmt.Sprintf("%s := %s", al[0], al[0]))
	}
	for _, v := range f.Vars {
		if isParam[v] {
			inits = append(inits, fmt.Sprintf("%s := %s", v.Lean, v.Lean))
		} else {
			inits = append(inits, fmt.Sprintf("%s := %s", v.Lean, v.Ty.zero()))
		}
	}
	var mut []string
	for m := range f.Mutates {
		mut = append(mut, m)
	}
	sort.Strings(mut)
	fmt.Fprintf(w, "/-- %s (writes through: %s). -/\n", pos, strings.Join(mut, ", "))
	fmt.Fprintf(w, "def %s%s %s : R (%s.St α × %s) :=\n  Stm.run (%s.body%s) %s\n    { %s }\n\n",
		f.LeanName, extraP, strings.Join(ps, " "), f.LeanName, f.Result.lean(), f.LeanName, extraA, f.Result.zero(),
		strings.Join(inits, ", "))
}

func main() {
	if len(os.Args) < 2 {
		fmt.Fprintln(os.Stderr, "usage: go2lean <repo>")
		os.Exit(2)
	}
	repo := os.Args[1]
	dirs := map[string][]*ast.File{}
	get := func(d string) []*ast.File {
		if _, ok := dirs[d]; !ok {
			dirs[d] = parseDir(repo, d)
		}
		return dirs[d]
	}
	var w strings.Builder
	w.WriteString("/-\n  GENERATED by /verif/tools/go2lean from the working tree of /repo — do not edit.\n" +
		"  Regenerated on every check run; the refinement theorems in Props/Tr*.lean are re-checked against it.\n-/\n" +
		"import EtVerif.Model.GoSem\nimport EtVerif.Model.Basic\n\nnamespace EtVerif.Gen\nopen EtVerif EtVerif.GoSem\n\nset_option linter.unusedVariables false\n\nvariable {α : Type} [Scalar α]\n\n")
	emitStruct := func(st struct{ Dir, Name string }) {
		decl := findStruct(get(st.Dir), st.Name)
		s := structs[st.Name]
		if decl == nil {
			fmt.Fprintf(&w, "-- UNSUPPORTED struct %s: not found\n\n", st.Name)
			return
		}
		for _, fl := range decl.Fields.List {
			var t *Ty
			func() {
				defer func() {
					if r := recover(); r != nil {
						if _, ok := r.(unsupported); !ok {
							panic(r)
						}
					}
				}()
				t = fieldTypeFromAst(fl.Type)
			}()
			if t == nil || t.K == "ghost" || (t.K == "opt" && t.Elem.K == "ghost") {
				continue // unsupported / unmodelled field type: dropped (uses become unsupported)
			}
			if _, isPtr := fl.Type.(*ast.StarExpr); !isPtr && t.K == "opt" {
				t = t.Elem
			}
			for _, n := range fl.Names {
				s.Fields = append(s.Fields, Field{n.Name, t})
			}
		}
		fmt.Fprintf(&w, "/-- %s %s -/\nstructure G%s (α : Type) where\n", st.Dir, st.Name, leanStructName(st.Name))
		var zs []string
		for _, f := range s.Fields {
			fmt.Fprintf(&w, "  %s : %s\n", f.Name, f.Ty.lean())
			zs = append(zs, f.Name+" := "+f.Ty.zero())
		}
		fmt.Fprintf(&w, "\ndef G%s.zero : G%s α := { %s }\n\n", leanStructName(st.Name), leanStructName(st.Name), strings.Join(zs, ", "))
	}
	// struct declarations, in the listed order (register names first so that types resolve)
	for _, st := range structTargets {
		structs[st.Name] = &Struct{Name: st.Name}
	}
	for _, st := range structTargets {
		emitStruct(st)
	}
	registerExterns()
	w.WriteString(externsLean + "\n")
	suffix := ""
	doTarget := func(t Target) {
		f := &Fn{T: t, Mutates: map[string]bool{}, Written: map[*Var]bool{}, StoredBack: map[*Var]bool{}, Oracles: map[string]bool{}}
		f.LeanName = t.Name + suffix
		if t.Recv != "" {
			f.LeanName = t.Recv + "_" + t.Name + suffix
		}
		f.Decl = findFunc(get(t.Dir), t.Recv, t.Name)
		if f.Decl == nil {
			f.Err = "function not found in " + t.Dir
		} else {
			translate(f)
		}
		rk := t.Recv
		if a, ok := typeAlias[rk]; ok {
			rk = a // methods of CSRMatrix are found through the embedded CSMatrix the values are rendered as
		}
		if _, dup := fns[fnKey(rk, t.Name)]; !dup || suffix != "" {
			fns[fnKey(rk, t.Name)] = f
		}
		fnOrder = append(fnOrder, f)
		emit(f, &w)
	}
	for _, t := range targets {
		doTarget(t)
	}
	// second universe: the convergence checker and Norm2 FROM THE SOURCE (with math.Sqrt / IsNaN / IsInf as
	// uninterpreted function parameters), next to the hand-modelled extern that the translated Compute calls:
	// a refinement theorem relates the two.  Names carry the suffix _src.
	w.WriteString("/-! ## the convergence checker and Norm2, translated from the source (sqrtO, nanO, infO are parameters) -/\n\n")
	suffix = "_src"
	structs["ConvergenceChecker"] = &Struct{Name: "ConvergenceChecker", LeanName: "ConvergenceCheckerSrc"}
	emitStruct(struct{ Dir, Name string }{"pkg/basic", "ConvergenceChecker"})
	for _, k := range []string{"NewConvergenceChecker", "ConvergenceChecker.Update", "ConvergenceChecker.Converged", "ConvergenceChecker.Delta"} {
		delete(fns, k)
	}
	for _, t := range []Target{
		{"pkg/sparse", "Vector", "Norm2"},
		{"pkg/basic", "", "NewConvergenceChecker"},
		{"pkg/basic", "ConvergenceChecker", "Update"},
		{"pkg/basic", "ConvergenceChecker", "Converged"},
		{"pkg/basic", "ConvergenceChecker", "Delta"},
		// Compute once more, now calling the checker translated from the source instead of the extern
		{"pkg/basic", "", "Compute"},
	} {
		doTarget(t)
	}
	w.WriteString("end EtVerif.Gen\n")
	fmt.Print(w.String())
}
