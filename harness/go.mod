module verifharness

go 1.21

require (
	github.com/rs/zerolog v1.28.0
	k3l.io/go-eigentrust v0.0.0
)

require (
	github.com/apapsch/go-jsonmerge/v2 v2.0.0 // indirect
	github.com/getkin/kin-openapi v0.110.0 // indirect
	github.com/go-openapi/jsonpointer v0.19.5 // indirect
	github.com/go-openapi/swag v0.21.1 // indirect
	github.com/google/uuid v1.5.0 // indirect
	github.com/invopop/yaml v0.1.0 // indirect
	github.com/josharian/intern v1.0.0 // indirect
	github.com/labstack/echo/v4 v4.11.4 // indirect
	github.com/labstack/gommon v0.4.2 // indirect
	github.com/mailru/easyjson v0.7.7 // indirect
	github.com/mattn/go-colorable v0.1.13 // indirect
	github.com/mattn/go-isatty v0.0.20 // indirect
	github.com/mohae/deepcopy v0.0.0-20170929034955-c48cc78d4826 // indirect
	github.com/oapi-codegen/runtime v1.1.1 // indirect
	github.com/valyala/bytebufferpool v1.0.0 // indirect
	github.com/valyala/fasttemplate v1.2.2 // indirect
	golang.org/x/crypto v0.21.0 // indirect
	golang.org/x/net v0.23.0 // indirect
	golang.org/x/sys v0.18.0 // indirect
	golang.org/x/text v0.14.0 // indirect
	gopkg.in/yaml.v2 v2.4.0 // indirect
	gopkg.in/yaml.v3 v3.0.1 // indirect
)

replace k3l.io/go-eigentrust => /repo
