module verifharness

go 1.21

require (
	github.com/rs/zerolog v1.28.0
	k3l.io/go-eigentrust v0.0.0
)

require (
	github.com/mattn/go-colorable v0.1.13 // indirect
	github.com/mattn/go-isatty v0.0.20 // indirect
	golang.org/x/sys v0.18.0 // indirect
)

replace k3l.io/go-eigentrust => /repo
