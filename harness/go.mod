module verifharness

go 1.21

require (
	github.com/gin-gonic/gin v1.9.1
	github.com/labstack/echo/v4 v4.11.4
	github.com/rs/zerolog v1.28.0
	google.golang.org/grpc v1.46.2
	k3l.io/go-eigentrust v0.0.0
)

require (
	github.com/anishathalye/porcupine v1.3.0
	github.com/apapsch/go-jsonmerge/v2 v2.0.0 // indirect
	github.com/aws/aws-sdk-go-v2 v1.30.1 // indirect
	github.com/aws/aws-sdk-go-v2/aws/protocol/eventstream v1.6.3 // indirect
	github.com/aws/aws-sdk-go-v2/config v1.27.24 // indirect
	github.com/aws/aws-sdk-go-v2/credentials v1.17.24 // indirect
	github.com/aws/aws-sdk-go-v2/feature/ec2/imds v1.16.9 // indirect
	github.com/aws/aws-sdk-go-v2/feature/s3/manager v1.17.5 // indirect
	github.com/aws/aws-sdk-go-v2/internal/configsources v1.3.13 // indirect
	github.com/aws/aws-sdk-go-v2/internal/endpoints/v2 v2.6.13 // indirect
	github.com/aws/aws-sdk-go-v2/internal/ini v1.8.0 // indirect
	github.com/aws/aws-sdk-go-v2/internal/v4a v1.3.13 // indirect
	github.com/aws/aws-sdk-go-v2/service/internal/accept-encoding v1.11.3 // indirect
	github.com/aws/aws-sdk-go-v2/service/internal/checksum v1.3.15 // indirect
	github.com/aws/aws-sdk-go-v2/service/internal/presigned-url v1.11.15 // indirect
	github.com/aws/aws-sdk-go-v2/service/internal/s3shared v1.17.13 // indirect
	github.com/aws/aws-sdk-go-v2/service/s3 v1.58.0 // indirect
	github.com/aws/aws-sdk-go-v2/service/sso v1.22.1 // indirect
	github.com/aws/aws-sdk-go-v2/service/ssooidc v1.26.2 // indirect
	github.com/aws/aws-sdk-go-v2/service/sts v1.30.1 // indirect
	github.com/aws/smithy-go v1.20.3 // indirect
	github.com/gabriel-vasile/mimetype v1.4.2 // indirect
	github.com/getkin/kin-openapi v0.110.0 // indirect
	github.com/gin-contrib/sse v0.1.0 // indirect
	github.com/go-openapi/jsonpointer v0.19.5 // indirect
	github.com/go-openapi/swag v0.21.1 // indirect
	github.com/go-playground/locales v0.14.1 // indirect
	github.com/go-playground/universal-translator v0.18.1 // indirect
	github.com/go-playground/validator/v10 v10.14.1 // indirect
	github.com/golang/protobuf v1.5.2 // indirect
	github.com/google/uuid v1.5.0 // indirect
	github.com/invopop/yaml v0.1.0 // indirect
	github.com/jmespath/go-jmespath v0.4.0 // indirect
	github.com/josharian/intern v1.0.0 // indirect
	github.com/labstack/gommon v0.4.2 // indirect
	github.com/leodido/go-urn v1.2.4 // indirect
	github.com/mailru/easyjson v0.7.7 // indirect
	github.com/mattn/go-colorable v0.1.13 // indirect
	github.com/mattn/go-isatty v0.0.20 // indirect
	github.com/mohae/deepcopy v0.0.0-20170929034955-c48cc78d4826 // indirect
	github.com/oapi-codegen/runtime v1.1.1 // indirect
	github.com/pelletier/go-toml/v2 v2.0.9 // indirect
	github.com/ugorji/go/codec v1.2.11 // indirect
	github.com/valyala/bytebufferpool v1.0.0 // indirect
	github.com/valyala/fasttemplate v1.2.2 // indirect
	golang.org/x/crypto v0.21.0 // indirect
	golang.org/x/net v0.23.0 // indirect
	golang.org/x/sys v0.18.0 // indirect
	golang.org/x/text v0.14.0 // indirect
	google.golang.org/genproto v0.0.0-20220519153652-3a47de7e79bd // indirect
	google.golang.org/protobuf v1.33.0 // indirect
	gopkg.in/yaml.v2 v2.4.0 // indirect
	gopkg.in/yaml.v3 v3.0.1 // indirect
)

replace k3l.io/go-eigentrust => /repo
