package main

// Compute-level properties C01, C02, C05, C18 on the real basic.Compute, with a watchdog and
// log capture (iteration count and number of exit-criteria checks come from the context logger).

import (
	"bytes"
	"context"
	"encoding/json"
	"math"
	"strings"
	"sync"
	"time"

	"github.com/rs/zerolog"
	"k3l.io/go-eigentrust/pkg/basic"
	"k3l.io/go-eigentrust/pkg/sparse"
)

type copts struct {
	t0               *sparse.Vector
	flat, leaders    int
	maxI, minI, freq *int
	res              *sparse.Vector       // WithResultIn: a separate, pre-filled destination vector
	aliasT0          bool                 // WithResultIn(v) and WithInitialTrust(v) on the SAME vector (the gRPC server's warm start)
	decoy            []int                // overridden options placed EARLIER in the option list (functional options: the last setting of a field wins)
	useIters         bool                 // maxI == minI are given through the ONE option WithIterations(n) (not as two options)
	stats            *basic.FlatTailStats // a caller-owned statistics object (possibly used by an earlier Compute already)
}

// the vector returned by the last observed Compute that ended without error (for warm restarts)
var lastComputeResult *sparse.Vector

func (o copts) goOpts(stats *basic.FlatTailStats) []basic.ComputeOpt {
	opts := []basic.ComputeOpt{basic.WithFlatTailStats(stats), basic.WithFlatTail(o.flat), basic.WithFlatTailNumLeaders(o.leaders)}
	// decoys: each is a setting that a LATER option of this list overrides completely, so by the documented
	// semantics of the options (each sets its own field(s); defaults are resolved when Compute starts) it
	// must have no effect.  decoy = kind*100 + value.
	for _, d := range o.decoy {
		kind, val := d/100, d%100
		switch {
		case kind == 0 && o.freq != nil:
			opts = append(opts, basic.WithCheckFreq(val))
		case kind == 1 && o.minI != nil:
			opts = append(opts, basic.WithMinIterations(val))
		case kind == 2 && o.maxI != nil:
			opts = append(opts, basic.WithMaxIterations(val))
		case kind == 3 && o.minI != nil && o.maxI != nil:
			opts = append(opts, basic.WithIterations(val))
		}
	}
	if o.t0 != nil {
		v := cloneVec(o.t0)
		opts = append(opts, basic.WithInitialTrust(v))
		if o.aliasT0 {
			opts = append(opts, basic.WithResultIn(v))
		}
	}
	if o.res != nil && !(o.aliasT0 && o.t0 != nil) {
		opts = append(opts, basic.WithResultIn(cloneVec(o.res)))
	}
	if o.useIters && o.maxI != nil && o.minI != nil && *o.maxI == *o.minI {
		opts = append(opts, basic.WithIterations(*o.maxI))
	} else {
		if o.maxI != nil {
			opts = append(opts, basic.WithMaxIterations(*o.maxI))
		}
		if o.minI != nil {
			opts = append(opts, basic.WithMinIterations(*o.minI))
		}
	}
	if o.freq != nil {
		opts = append(opts, basic.WithCheckFreq(*o.freq))
	}
	return opts
}

func (w *W) optInt(p *int) *W {
	if p == nil {
		return w.Int(0)
	}
	return w.Int(1).Int(*p)
}

func (w *W) creq(c *sparse.Matrix, p *sparse.Vector, a, e float64, o copts) *W {
	w.CSM(&c.CSMatrix).Vec(p).F(a).F(e).Str("t0")
	if o.t0 != nil {
		w.Int(1).Vec(o.t0)
	} else {
		w.Int(0)
	}
	w.Str("flat").Int(o.flat).Str("leaders").Int(o.leaders)
	w.Str("max").optInt(o.maxI).Str("min").optInt(o.minI).Str("freq").optInt(o.freq)
	return w
}

type logSink struct {
	mu     sync.Mutex
	checks int
	iters  int
}

func (s *logSink) Write(b []byte) (int, error) {
	s.mu.Lock()
	defer s.mu.Unlock()
	for _, line := range bytes.Split(b, []byte("\n")) {
		if len(line) == 0 {
			continue
		}
		var m map[string]any
		if json.Unmarshal(line, &m) != nil {
			continue
		}
		switch m["message"] {
		case "one iteration":
			s.checks++
		case "finished":
			if v, ok := m["iterations"].(float64); ok {
				s.iters = int(v)
			}
		}
	}
	return len(b), nil
}

func errClass(err error) string {
	s := err.Error()
	switch {
	case strings.Contains(s, "dimension mismatch"):
		return "dim"
	case strings.Contains(s, "empty local trust"):
		return "empty"
	case strings.Contains(s, "hunch"):
		return "alpha"
	case strings.Contains(s, "epsilon"):
		return "epsilon"
	case strings.Contains(s, "checkFreq"):
		return "checkfreq"
	case strings.Contains(s, "maxIters"):
		return "maxiters"
	case strings.Contains(s, "minIters"):
		return "miniters"
	case strings.Contains(s, "finite"):
		return "nonfinite"
	}
	return "other"
}

// slowRetries: how many runs that hit the watchdog may still be repeated with a six times longer one before they are
// reported as "did not return" (a loaded machine stretches a 10 000-iteration run past the watchdog; a hang stays a hang).
var slowRetries = 3

// observeCompute runs the real Compute under a watchdog and appends the observation.
func observeCompute(w *W, c *sparse.Matrix, p *sparse.Vector, a, e float64, o copts, watchdog time.Duration) string {
	mark := len(w.String())
	out := observeComputeOnce(w, c, p, a, e, o, watchdog)
	if out == "timeout" && slowRetries > 0 {
		slowRetries--
		w.truncate(mark)
		out = observeComputeOnce(w, c, p, a, e, o, 6*watchdog)
	}
	return out
}

func observeComputeOnce(w *W, c *sparse.Matrix, p *sparse.Vector, a, e float64, o copts, watchdog time.Duration) string {
	sink := &logSink{}
	logger := zerolog.New(sink).Level(zerolog.TraceLevel)
	ctx, cancel := context.WithCancel(logger.WithContext(context.Background()))
	defer cancel()
	statsP := &basic.FlatTailStats{}
	if o.stats != nil {
		statsP = o.stats
	}
	type res struct {
		t   *sparse.Vector
		err error
		pan string
	}
	ch := make(chan res, 1)
	cc, pc := cloneCSR(c), cloneVec(p)
	go func() {
		var r res
		r.pan = safely(func() { r.t, r.err = basic.Compute(ctx, cc, pc, a, e, o.goOpts(statsP)...) })
		ch <- r
	}()
	var r res
	select {
	case r = <-ch:
	case <-time.After(watchdog):
		cancel()
		select {
		case <-ch:
		case <-time.After(5 * time.Second):
		}
		w.Bar().Str("timeout")
		return "timeout"
	}
	w.Bar()
	switch {
	case r.pan != "":
		w.Str("panic")
		return "panic"
	case r.err != nil:
		w.Str("err").Str(errClass(r.err))
		return "err"
	}
	stats := *statsP
	lastComputeResult = cloneVec(r.t)
	w.Str("ok").Vec(r.t).Int(sink.iters).Int(sink.checks).Int(stats.Length).Int(stats.Threshold).F(stats.DeltaNorm)
	if stats.Ranking == nil {
		w.Int(0)
	} else {
		w.Int(1).Int(len(stats.Ranking))
		for _, i := range stats.Ranking {
			w.Int(i)
		}
	}
	// the returned vector must be the K-th iterate: re-obtain it with WithIterations(K)
	same := true
	if sink.iters >= 1 {
		o2 := o
		k := sink.iters
		o2.maxI, o2.minI, o2.freq = &k, &k, nil
		o2.flat = 0
		var st2 basic.FlatTailStats
		t2, err := basic.Compute(context.Background(), cloneCSR(c), cloneVec(p), a, e, o2.goOpts(&st2)...)
		same = err == nil && vecEqualBits(t2, r.t)
	}
	w.Bool(same)
	return "ok"
}

func ip(n int) *int { return &n }

func (g *G) distribution(n int) *sparse.Vector {
	v := g.vec(n)
	for i := range v.Entries {
		v.Entries[i].Value = float64(g.intn(32) + 1)
	}
	basic.CanonicalizeTrustVector(v)
	return v
}

func (g *G) schedule(o *copts) {
	switch g.intn(4) {
	case 0:
	case 1:
		o.minI = ip([]int{1, 2, 3, 7}[g.intn(4)])
	case 2:
		o.freq = ip([]int{1, 2, 5}[g.intn(3)])
	default:
		o.minI = ip([]int{1, 2, 3, 7}[g.intn(4)])
		o.freq = ip([]int{1, 2, 5}[g.intn(3)])
	}
}

func runComputeProps(prop string) func(h *H) {
	return func(h *H) {
		g := h.g
		n := h.budget(250, 2000)
		wd := 20 * time.Second
		outcomes := map[string]int{}
		for k := 0; k < n; k++ {
			dim := g.intn(h.budget(10, 30)) + 1
			c, p := g.canonicalInputs(dim)
			a := []float64{1, 0.9, 0.5, 0.15, 0.05, 0.01}[g.intn(6)]
			e := math.Pow(10, -float64(g.intn(12))-g.r.Float64())
			if a <= 0.05 && e < 1e-6 {
				e = 1e-4 // keep iteration counts (and per-iteration GC) affordable
			}
			o := copts{}
			switch prop {
			case "C01":
				g.schedule(&o)
				if g.intn(3) == 0 {
					o.t0 = g.distribution(dim)
				}
				if g.intn(10) == 0 {
					a = 0.001
					e = 0.05
				}
				if g.intn(8) == 0 {
					// alpha so close to 1 that one step from ANY start lands within epsilon of the pre-trust: the
					// first check must still compare the iterate with the vector the run started from
					a = []float64{0.999, 1 - 1e-6, 1 - 1e-9}[g.intn(3)]
					e = []float64{1e-2, 1e-4, 1e-6}[g.intn(3)]
					o = copts{t0: g.distribution(dim)}
					g.count("alpha-near-one-with-initial-trust")
				}
				if g.intn(4) == 0 {
					// "resume": warm start from the partial result of a run capped at k iterations, first
					// check of the resumed run scheduled at iteration k
					kk := g.intn(3) + 1
					o1 := copts{maxI: ip(kk)}
					var st basic.FlatTailStats
					if part, err := basic.Compute(context.Background(), cloneCSR(c), cloneVec(p), a, e, o1.goOpts(&st)...); err == nil {
						o = copts{t0: part, minI: ip(kk)}
						g.count("resume-from-partial")
					}
				}
			case "C02":
				a = []float64{0, 1, 0.5, 0.15, 0.9, 0.01}[g.intn(6)]
				if g.intn(2) == 0 {
					kk := g.intn(12) + 1
					o.maxI, o.minI = ip(kk), ip(kk) // WithIterations
					o.useIters = g.intn(2) == 0
					g.count("fixed-iterations")
				} else {
					o.maxI = ip(g.intn(12) + 1)
					g.schedule(&o)
					g.count("max-iterations")
				}
				if g.intn(3) == 0 {
					o.t0 = g.distribution(dim)
				}
			case "C05":
				switch g.intn(10) {
				case 0: // invalid parameter values, one at a time
					which := g.pick("alpha<0", "alpha>1", "eps0", "eps<0", "freq0", "freq<0", "max<0", "min0", "min<0", "pdim", "t0dim", "nonsquare", "empty", "iterations0", "iterations<0", "iterations0")
					g.count("invalid:" + which)
					switch which {
					case "alpha<0":
						a = -0.1
					case "alpha>1":
						a = 1.5
					case "eps0":
						e = 0
					case "eps<0":
						e = -1e-3
					case "freq0":
						o.freq = ip(0)
					case "freq<0":
						o.freq = ip(-2)
					case "max<0":
						o.maxI = ip(-1)
					case "min0":
						o.minI = ip(0)
					case "min<0":
						o.minI = ip(-3)
					case "iterations0": // WithIterations(0): a fixed count of zero iterations is min = 0, refused
						o.maxI, o.minI, o.useIters = ip(0), ip(0), true
					case "iterations<0":
						o.maxI, o.minI, o.useIters = ip(-2), ip(-2), true
					case "pdim":
						p.Dim++
					case "t0dim":
						o.t0 = g.distribution(dim + 1)
					case "nonsquare":
						c.MinorDim++
					case "empty":
						c = sparse.NewCSRMatrix(0, 0, nil, false)
						p = sparse.NewVector(0, nil)
					}
				case 1: // finite values whose row sums overflow (library call as the servers make it)
					dim = g.intn(4) + 2
					m := g.csm(dim, dim, "positive")
					for i := range m.Entries {
						if len(m.Entries[i]) < 2 {
							m.Entries[i] = []sparse.Entry{{Index: 0, Value: 1e308}, {Index: dim - 1, Value: 1e308}}
						}
					}
					m.Entries[0] = []sparse.Entry{{Index: 0, Value: 1e308}, {Index: 1, Value: 1.7e308}}
					c = &sparse.Matrix{CSMatrix: *m}
					p = g.distribution(dim)
					_ = basic.CanonicalizeLocalTrust(c, p)
					c = cloneCSR(c)
					g.count("overflowing-row-sum")
					a, e = 0.5, 1e-6
				case 2, 3: // every combination of the iteration options
					mins := []*int{nil, ip(1), ip(2), ip(3), ip(7)}
					maxs := []*int{nil, ip(0), ip(1), ip(2), ip(5), ip(50)}
					freqs := []*int{nil, ip(1), ip(2), ip(5)}
					o.minI, o.maxI, o.freq = mins[g.intn(5)], maxs[g.intn(6)], freqs[g.intn(4)]
					g.count("schedule-combo")
				case 4:
					kk := g.intn(9) + 1
					o.maxI, o.minI = ip(kk), ip(kk)
					g.count("with-iterations")
				default: // default schedule: termination bound
					a = []float64{0.001, 0.01, 0.15, 0.5, 0.999, 1}[g.intn(6)]
					e = []float64{1e-9, 1e-6, 1e-3, 0.5}[g.intn(4)]
					if a <= 0.01 {
						e = []float64{1e-3, 1e-2, 0.5}[g.intn(3)]
					}
					g.count("default-schedule")
				}
			case "C18":
				o.flat = g.intn(5)
				o.leaders = g.intn(dim + 2)
				e = []float64{1, 1e-3, 1e-6, 1e-9}[g.intn(4)]
				a = []float64{0.5, 0.15, 0.05, 0.9}[g.intn(4)]
				g.schedule(&o)
				if g.intn(3) == 0 {
					o.maxI = ip(g.intn(30) + 1)
					g.count("cut-by-maxiterations")
				}
				if g.intn(2) == 0 {
					o.t0 = g.distribution(dim)
				}
				// make scores pairwise distinct with high probability: perturb p
				for i := range p.Entries {
					p.Entries[i].Value *= 1 + float64(i+1)*1e-3
				}
				basic.CanonicalizeTrustVector(p)
			}
			// where the result goes is not part of the model (a pure function): the destination may be a fresh
			// vector, a separate pre-filled one, or the very vector given as initial trust (gRPC warm start)
			if p.Dim == dim {
				switch g.intn(5) {
				case 0:
					o.res = g.distribution(dim)
					g.count("result-in:separate")
				case 1, 2:
					if o.t0 != nil && o.t0.Dim == dim {
						o.aliasT0 = true
						g.count("result-in:aliases-initial-trust")
					}
				}
			}
			if (g.intn(3) == 0 || (prop == "C05" && g.intn(2) == 0)) && (o.freq != nil || o.minI != nil || o.maxI != nil) {
				for k := g.intn(2) + 1; k > 0; k-- {
					kind := g.intn(4)
					if o.freq != nil && g.intn(2) == 0 {
						kind = 0 // an overridden WithCheckFreq (the documented default of minIterations is the FINAL checkFreq)
					}
					o.decoy = append(o.decoy, kind*100+g.intn(9)+1)
				}
				g.count("overridden-earlier-options")
			}
			shared := (prop == "C18" || prop == "C05") && g.intn(3) == 0
			if shared {
				o.stats = &basic.FlatTailStats{}
			}
			w := h.line(prop, "compute").creq(c, p, a, e, o)
			oc := observeCompute(w, c, p, a, e, o, wd)
			outcomes[oc]++
			h.emit(w)
			if shared && oc == "ok" && lastComputeResult != nil && lastComputeResult.Dim == dim {
				// a second Compute handed the SAME statistics object, warm-started from the result of the first
				// (its first checked ranking is the one the first run ended with): the statistics are those of
				// this run alone, as if the object were fresh
				o2 := o
				o2.t0 = cloneVec(lastComputeResult)
				basic.CanonicalizeTrustVector(o2.t0)
				o2.aliasT0, o2.res = false, nil
				g.count("stats-object-reused-for-a-warm-restart")
				w2 := h.line(prop, "compute").creq(c, p, a, e, o2)
				outcomes[observeCompute(w2, c, p, a, e, o2, wd)]++
				h.emit(w2)
			}
		}
		h.notes["outcomes"] = outcomes
		if prop == "C02" {
			runOapiC02(h)
			// the gRPC front-end: stored collections of every size relation (created-but-empty, flushed, shorter,
			// longer), computes judged against the documented scores
			for k := 0; k < h.budget(60, 1200); k++ {
				grpcHistory(h, "C02", g.intn(h.budget(24, 60))+12, false)
			}
		}
	}
}
