package main

// C15: no input crashes or hangs a front-end; invalid input is refused as such.
// Malformed-but-structured stream per front-end plus a raw byte-mutation stream.

import (
	"encoding/json"
	"fmt"
	"math"
	"os"
	"path/filepath"
	"strconv"
	"time"
)

func (g *G) malformOReq(r oReq) (oReq, string) {
	kinds := []string{"msize0", "msize-neg", "mi-neg", "mi-eq", "mj-big", "mi-maxint", "mj-maxint", "vi-maxint", "mi-2p40", "vsize0", "vi-neg", "vi-eq", "v-zero", "v-neg",
		"alpha-neg", "alpha-big", "eps0", "eps-neg", "eps-big", "flat-neg", "leaders-neg", "max-neg", "min0", "min-neg",
		"freq0", "freq-neg", "mscheme", "mobjstore", "vscheme", "storedmissing", "overflow", "dupcoords", "huge", "tinyvals", "valid"}
	k := kinds[g.intn(len(kinds))]
	someVec := func() *vRef {
		if r.pt != nil && g.intn(2) == 0 {
			return r.pt
		}
		if r.it == nil {
			r.it = g.inlineVector(r.lt.size)
		}
		return r.it
	}
	switch k {
	case "msize0":
		r.lt.size = 0
		r.lt.entries = nil
	case "msize-neg":
		r.lt.size = -3
		r.lt.entries = nil
	case "mi-neg":
		r.lt.entries = append(r.lt.entries, mEntry{-1, 0, 1})
	case "mi-eq":
		r.lt.entries = append(r.lt.entries, mEntry{r.lt.size, 0, 1})
	case "mj-big":
		r.lt.entries = append(r.lt.entries, mEntry{0, r.lt.size + 5, 1})
	case "mi-maxint":
		r.lt.entries = append(r.lt.entries, mEntry{math.MaxInt64, 0, 1})
	case "mj-maxint":
		r.lt.entries = append(r.lt.entries, mEntry{0, math.MaxInt64, 1})
	case "mi-2p40":
		r.lt.entries = append(r.lt.entries, mEntry{1 << 40, 0, 1})
	case "vi-maxint":
		v := someVec()
		v.entries = append(v.entries, vEntry{math.MaxInt64, 1})
	case "vsize0":
		v := someVec()
		v.size = 0
		v.entries = nil
	case "vi-neg":
		v := someVec()
		v.entries = append(v.entries, vEntry{-1, 1})
	case "vi-eq":
		v := someVec()
		v.entries = append(v.entries, vEntry{v.size, 1})
	case "v-zero":
		v := someVec()
		v.entries = append(v.entries, vEntry{0, 0})
	case "v-neg":
		v := someVec()
		v.entries = append(v.entries, vEntry{0, -0.5})
	case "alpha-neg":
		r.alpha = fp(-0.1)
	case "alpha-big":
		r.alpha = fp(1.0000001)
	case "eps0":
		r.eps = fp(0)
	case "eps-neg":
		r.eps = fp(-1e-3)
	case "eps-big":
		r.eps = fp(1.5)
	case "flat-neg":
		r.flat = ip(-1)
	case "leaders-neg":
		r.leaders = ip(-1)
	case "max-neg":
		r.max = ip(-1)
	case "min0":
		r.min = ip(0)
	case "min-neg":
		r.min = ip(-2)
	case "freq0":
		r.frq = ip(0)
	case "freq-neg":
		r.frq = ip(-1)
	case "mscheme":
		r.lt = mRef{kind: "unknownscheme"}
	case "mobjstore":
		r.lt = mRef{kind: "objstore"}
	case "vscheme":
		r.pt = &vRef{kind: "unknownscheme"}
	case "storedmissing":
		r.lt = mRef{kind: "storedmissing", id: "nosuchid"}
	case "overflow":
		n := r.lt.size
		r.lt.entries = []mEntry{{0, 0, 1e308}, {0, n - 1, 1.5e308}}
		if n == 1 {
			r.lt.size = 2
			r.lt.entries = []mEntry{{0, 0, 1e308}, {0, 1, 1.5e308}}
		}
		r.max = nil
	case "dupcoords":
		if len(r.lt.entries) > 0 {
			r.lt.entries = append(r.lt.entries, r.lt.entries[0])
		}
	case "huge":
		for i := range r.lt.entries {
			r.lt.entries[i].V = 1e300
		}
	case "tinyvals":
		for i := range r.lt.entries {
			r.lt.entries[i].V = 5e-324
		}
	}
	return r, k
}

func mutateBytes(g *G, b []byte) []byte {
	out := append([]byte{}, b...)
	for m := 0; m < 1+g.intn(3); m++ {
		if len(out) == 0 {
			break
		}
		pos := g.intn(len(out))
		switch g.intn(5) {
		case 0:
			out[pos] = byte(g.intn(256))
		case 1:
			out = append(out[:pos], out[pos+1:]...)
		case 2:
			ins := []string{"-", "1e999", "null", "{", "]", "\"", "-1", "9999999999999999999999", "0.0", "[]", "NaN"}[g.intn(11)]
			out = append(out[:pos], append([]byte(ins), out[pos:]...)...)
		case 3:
			out = out[:pos]
		default:
			out[pos] ^= 1 << uint(g.intn(8))
		}
	}
	return out
}

func runC15(h *H) {
	g := h.g
	wd := 20 * time.Second
	env := newOapiEnv()
	n := h.budget(500, 12000)
	outcomes := map[string]int{}
	{
		// KNOWN FINDING (known_findings.jsonl, C15/compute/stop-criterion-never-met-in-floats): a valid request with a
		// positive alpha whose epsilon lies below the rounding floor of its own iteration — the delta stalls
		// at 2.04e-15 and Compute iterates until the client gives up.  Kept as one fixed case so that the
		// finding stays visible (and so that a repair is noticed).
		r := oReq{lt: mRef{kind: "inline", size: 5, entries: []mEntry{{3, 2, 7.625}, {1, 3, 1.625}, {2, 3, 2.5}}},
			pt:    &vRef{kind: "inline", size: 5, entries: []vEntry{{0, 1}, {2, 1}, {4, 1}}},
			alpha: fp(0.02), eps: fp(1e-15)}
		res := env.compute(r, 8*time.Second)
		h.n++
		w := (&W{}).Str(fmt.Sprintf("C15-%d:C15/compute/stop-criterion-never-met-in-floats", h.n)).Str("C15").Str("oapi")
		h.emit(w.oreq(r).Bar().oresp(r.stats, res))
		g.count("oapi:epsilon-below-rounding-floor " + res.outcome)
	}
	for k := 0; k < n; k++ {
		r, kind := g.malformOReq(g.validOReq(true))
		g.count("oapi:" + kind)
		res := env.compute(r, wd)
		outcomes[fmt.Sprint("oapi ", res.status, res.outcome)]++
		h.emit(h.line("C15", "oapi").oreq(r).Bar().oresp(r.stats, res))
	}
	// refused requests leave the store unchanged; invalid PUT bodies
	for k := 0; k < n/4; k++ {
		id := "keep"
		good := g.inlineMatrix(g.intn(4)+1, true)
		env.do("PUT", "/local-trust/"+id, mustJSON(good.inlineJSON()), wd)
		before := env.do("GET", "/local-trust/"+id, nil, wd)
		bad, kind := g.malformOReq(g.validOReq(true))
		var st string
		if g.intn(2) == 0 {
			res := env.do("PUT", "/local-trust/"+id+"?merge=true", mustJSON(bad.lt.json()), wd)
			st = fmt.Sprint(res.status, res.outcome)
			if res.status == 200 || res.status == 201 { // the mutation did not touch the matrix: restore
				env.do("PUT", "/local-trust/"+id, mustJSON(good.inlineJSON()), wd)
			}
		} else {
			bad.lt = mRef{kind: "stored", id: id, size: good.size, entries: good.entries}
			res := env.compute(bad, wd)
			st = fmt.Sprint(res.status, res.outcome)
		}
		after := env.do("GET", "/local-trust/"+id, nil, wd)
		same := string(before.body) == string(after.body)
		h.emit(h.line("C15", "state").Str("oapi").Str(kind).Bar().Str(st).Bool(same))
	}
	// raw byte stream: mutated JSON bodies on every route
	for k := 0; k < n; k++ {
		r := g.validOReq(true)
		body := mutateBytes(g, r.json())
		var res httpRes
		route := g.pick("compute", "stats", "put")
		switch route {
		case "compute":
			res = env.do("POST", "/compute", body, wd)
		case "stats":
			res = env.do("POST", "/compute-with-stats", body, wd)
		default:
			res = env.do("PUT", "/local-trust/fuzz", mutateBytes(g, mustJSON(r.lt.json())), wd)
		}
		st := fmt.Sprint(res.status)
		if res.outcome != "" {
			st = res.outcome
		}
		outcomes["bytes "+route+" "+st]++
		h.emit(h.line("C15", "bytes").Str("oapi-" + route).Bar().Str(st))
	}
	// type stream: well-formed JSON in which ONE member has a value of the wrong JSON type (a size that is a float or
	// a string, entries that are an object, an id that is a number, a scheme that is an array, null anywhere):
	// refused as a client error (or harmless), never an internal error
	for k := 0; k < n; k++ {
		r := g.validOReq(true)
		if g.intn(4) == 0 {
			r.lt = mRef{kind: "stored", id: "fuzz"}
		}
		route := g.pick("compute", "stats", "put")
		var res httpRes
		switch route {
		case "compute":
			res = env.do("POST", "/compute", mutateTypes(g, r.json()), wd)
		case "stats":
			res = env.do("POST", "/compute-with-stats", mutateTypes(g, r.json()), wd)
		default:
			res = env.do("PUT", "/local-trust/fuzz", mutateTypes(g, mustJSON(r.lt.json())), wd)
		}
		st := fmt.Sprint(res.status)
		if res.outcome != "" {
			st = res.outcome
		}
		outcomes["types "+route+" "+st]++
		h.emit(h.line("C15", "bytes").Str("oapi-types-" + route).Bar().Str(st))
	}
	h.notes["outcomes"] = outcomes
	// gRPC services: malformed index strings, absent params, out-of-range parameters
	ng := h.budget(150, 3000)
	for k := 0; k < ng; k++ {
		grpcHistory(h, "C15", g.intn(h.budget(20, 60))+6, true)
	}
	// playground uploads, CLI files and library CSV readers (valid and malformed)
	runUploads(h, "C15", h.budget(200, 4000))
	runCliAndReaders(h, "C15", h.budget(80, 1500))
	runOapiCsv(h)
}

// object-storage (file:) CSV bodies of the OpenAPI server: loadCsvTrustMatrix / loadCsvTrustVector
func runOapiCsv(h *H) {
	g := h.g
	env := newOapiEnv()
	env.srv.UseFileURI = true
	bdir := os.Getenv("VERIF_BUILD")
	if bdir == "" {
		bdir = "/verif/.build"
	}
	dir := filepath.Join(bdir, "oapicsv")
	os.RemoveAll(dir)
	os.MkdirAll(dir, 0o755)
	defer os.RemoveAll(dir)
	wd := 20 * time.Second
	n := h.budget(200, 3000)
	for k := 0; k < n; k++ {
		dim := g.intn(4) + 1
		recs := [][]string{{"i", "j", "v"}}
		for _, c := range g.r.Perm(dim * dim)[:g.intn(dim*dim)+1] {
			recs = append(recs, []string{strconv.Itoa(c / dim), strconv.Itoa(c % dim), fmtLevel(g)})
		}
		kind := g.pick("valid", "valid", "valid", "neg-i", "neg-j", "bad-int", "bad-float", "short-record", "long-record", "bad-header", "empty", "quote-error")
		raw := []byte(nil)
		switch kind {
		case "neg-i":
			recs = append(recs, []string{"-1", "0", "1"})
		case "neg-j":
			recs = append(recs, []string{"0", "-2", "1"})
		case "bad-int":
			recs = append(recs, []string{"one", "0", "1"})
		case "bad-float":
			recs = append(recs, []string{"0", "0", "lots"})
		case "short-record":
			recs = append(recs, []string{"0", "0"})
		case "long-record":
			recs = append(recs, []string{"0", "0", "1", "9"})
		case "bad-header":
			recs[0] = []string{"from", "to", "value"}
		case "empty":
			recs = nil
		case "quote-error":
			raw = append(csvBytes(recs), []byte("0,\"0,1\n")...)
		}
		g.count("oapicsv:" + kind)
		b := raw
		if b == nil {
			b = csvBytes(recs)
		}
		path := filepath.Join(dir, fmt.Sprintf("m%d.csv", k))
		os.WriteFile(path, b, 0o644)
		body := mustJSON(map[string]any{"localTrust": map[string]any{"scheme": "objectstorage", "url": "file://" + path}})
		res := env.do("POST", "/compute", body, wd)
		parsed, ok := csvParse(b)
		st := fmt.Sprint(res.status)
		if res.outcome != "" {
			st = res.outcome
		}
		h.emit(h.line("C15", "oapicsv").records(parsed).Bool(ok).Bar().Str(st))
		os.Remove(path)
	}
}

// mutateTypes replaces the value of one randomly chosen member (at any depth) of a JSON document by a value of
// another JSON type.
func mutateTypes(g *G, body []byte) []byte {
	var doc any
	if err := json.Unmarshal(body, &doc); err != nil {
		return body
	}
	type slot struct {
		set func(any)
		val any
	}
	var slots []slot
	var walk func(v any)
	walk = func(v any) {
		switch x := v.(type) {
		case map[string]any:
			for k, c := range x {
				k, c := k, c
				slots = append(slots, slot{func(n any) { x[k] = n }, c})
				walk(c)
			}
		case []any:
			for i, c := range x {
				i, c := i, c
				slots = append(slots, slot{func(n any) { x[i] = n }, c})
				walk(c)
			}
		}
	}
	walk(doc)
	if len(slots) == 0 {
		return body
	}
	sl := slots[g.intn(len(slots))]
	var repl []any
	switch sl.val.(type) {
	case float64:
		repl = []any{"7", 2.5, []any{}, map[string]any{}, true, nil, []any{1.0}}
	case string:
		repl = []any{7.0, []any{"inline"}, map[string]any{"scheme": "inline"}, false, nil}
	case []any:
		repl = []any{map[string]any{}, "entries", 3.0, nil, []any{[]any{0.0, 1.0, 1.0}}, []any{nil}}
	case map[string]any:
		repl = []any{[]any{}, "x", 1.0, nil, true}
	default:
		repl = []any{1.0, "x", []any{}, map[string]any{}}
	}
	sl.set(repl[g.intn(len(repl))])
	g.count(fmt.Sprintf("type-mutation:%T", sl.val))
	out, err := json.Marshal(doc)
	if err != nil {
		return body
	}
	return out
}
