package main

// C09: sparse vector algebra vs dense arithmetic.  Runs the REAL pkg/sparse code.

import (
	"context"
	"math"

	"k3l.io/go-eigentrust/pkg/sparse"
)

func runC09(h *H) {
	g := h.g
	n := h.budget(4000, 200000)
	for k := 0; k < n; k++ {
		switch k % 8 {
		case 0, 1: // add / sub with all aliasing patterns
			v1, v2, _ := g.vecPair()
			if g.intn(8) == 0 {
				v1, v2 = g.vecPairBig()
			}
			op := "add"
			if k%8 == 1 {
				op = "sub"
			}
			if g.intn(12) == 0 { // dimension mismatch
				v2.Dim += 1 + g.intn(3)
				g.count("dimmismatch")
			}
			alias := g.pick("fresh", "recv=v1", "recv=v2", "v1=v2", "recv=v1=v2")
			g.count("alias:" + alias)
			a, b := cloneVec(v1), cloneVec(v2)
			if g.intn(3) == 0 {
				// operands whose backing arrays have room to spare (as after SetDim shrinks, dropped underflows,
				// earlier sums): an in-place strategy would find the room it needs only then
				for _, x := range []*sparse.Vector{a, b} {
					x.Entries = append(make([]sparse.Entry, 0, len(x.Entries)+1+g.intn(24)), x.Entries...)
				}
				g.count("alias:spare-capacity")
			}
			var recv *sparse.Vector
			switch alias {
			case "fresh":
				recv = &sparse.Vector{Dim: 99, Entries: []sparse.Entry{{Index: 0, Value: 7}}}
				if g.intn(2) == 0 {
					recv.Entries = append(make([]sparse.Entry, 0, 40), recv.Entries...)
				}
			case "recv=v1":
				recv = a
			case "recv=v2":
				recv = b
			case "v1=v2":
				b = a
				v2 = v1
				recv = &sparse.Vector{}
			case "recv=v1=v2":
				b = a
				v2 = v1
				recv = a
			}
			var err error
			if op == "add" {
				err = recv.AddVec(a, b)
			} else {
				err = recv.SubVec(a, b)
			}
			w := h.line("C09", op).Vec(v1).Vec(v2).Bar()
			if err != nil {
				w.Str("err")
			} else {
				w.Str("ok").Vec(recv)
			}
			h.emit(w)
			if err == nil && alias == "fresh" {
				// same for sums and differences: mutating the result in place leaves both operands alone
				recv.ScaleVec(2, recv)
				g.count(op + ":then-mutate-result")
				h.emit(h.line("C09", "sum").Vec(v1).Bar().F(a.Sum()))
				h.emit(h.line("C09", "sum").Vec(v2).Bar().F(b.Sum()))
			}
		case 2: // scale, receiver aliased or not; factors 0, 1, -1, 2^k, underflowing
			v := g.vec(g.intn(12) + 1)
			var a float64
			cls := g.pick("zero", "one", "minusone", "pow2", "underflow", "ordinary", "negzero")
			switch cls {
			case "zero":
				a = 0
			case "negzero":
				a = math.Copysign(0, -1)
			case "one":
				a = 1
			case "minusone":
				a = -1
			case "pow2":
				a = g.value("pow2")
			case "underflow":
				a = 1e-300
				for i := range v.Entries {
					if g.intn(2) == 0 {
						v.Entries[i].Value = g.value("tiny")
					}
				}
			default:
				a = g.value("ordinary")
			}
			g.count("scale:" + cls)
			in := cloneVec(v)
			var recv *sparse.Vector
			if g.intn(2) == 0 {
				recv = in
				g.count("alias:scale-recv=v")
			} else {
				recv = &sparse.Vector{Dim: 5, Entries: []sparse.Entry{{Index: 1, Value: 3}}}
				if g.intn(2) == 0 { // a receiver with room to spare
					recv.Entries = append(make([]sparse.Entry, 0, 40), recv.Entries...)
				}
			}
			recv.ScaleVec(a, in)
			h.emit(h.line("C09", "scale").F(a).Vec(v).Bar().Vec(recv))
			if recv != in {
				// the result used as the in-place receiver of a further call must not reach back into the
				// operand (a result sharing the operand's backing array would): the operand still sums
				// and norms like the vector it was cloned from
				recv.ScaleVec(2, recv)
				g.count("scale:then-mutate-result")
				h.emit(h.line("C09", "sum").Vec(v).Bar().F(in.Sum()))
				h.emit(h.line("C09", "norm2").Vec(v).Bar().F(in.Norm2()))
			}
		case 3: // dot (both orders)
			v1, v2, _ := g.vecPair()
			if g.intn(4) == 0 {
				v1, v2 = g.vecPairBig()
			} else if g.intn(3) == 0 {
				xs := g.illConditioned(g.intn(5) + 1)
				v1 = g.vecFromValues(xs, g.intn(3))
				v2 = &sparse.Vector{Dim: v1.Dim}
				for _, e := range v1.Entries {
					v2.Entries = append(v2.Entries, sparse.Entry{Index: e.Index, Value: g.value("pow2")})
				}
				g.count("illconditioned:dot")
			}
			d1 := sparse.VecDot(v1, v2)
			d2 := sparse.VecDot(v2, v1)
			h.emit(h.line("C09", "dot").Vec(v1).Vec(v2).Bar().F(d1).F(d2))
		case 4: // sum
			var v *sparse.Vector
			if g.intn(2) == 0 {
				v = g.vecFromValues(g.illConditioned(g.intn(6)+1), g.intn(3))
				g.count("illconditioned:sum")
			} else {
				v = g.vec(g.intn(20) + 1)
			}
			h.emit(h.line("C09", "sum").Vec(v).Bar().F(v.Sum()))
		case 5: // norm2
			v := g.vec(g.intn(20) + 1)
			if g.intn(4) == 0 {
				for i := range v.Entries {
					v.Entries[i].Value = g.value(g.pick("wide", "tiny"))
				}
			}
			h.emit(h.line("C09", "norm2").Vec(v).Bar().F(v.Norm2()))
		default: // mulvec, receiver aliased to operand or fresh
			dim := g.intn(9) + 1
			m := g.csm(dim, dim, g.valueClass())
			v := g.vec(dim)
			if g.intn(10) == 0 {
				// a wide matrix with short rows against a well-filled vector (rows of a trust matrix against the
				// trust vector): lopsided dot products inside MulVec
				dim = 40 + g.intn(200)
				m = &sparse.CSMatrix{MajorDim: dim, MinorDim: dim, Entries: make([][]sparse.Entry, dim)}
				for i := 0; i < dim; i += 1 + g.intn(6) {
					m.Entries[i] = g.vecOn(dim, g.support(dim, 1+g.intn(6)), "positive").Entries
				}
				v = g.vecOn(dim, g.support(dim, 32+g.intn(dim-31)), "positive")
				g.count("mulvec:short-rows-long-vector")
			}
			mis := g.intn(12) == 0
			if mis {
				switch g.intn(3) {
				case 0:
					v.Dim++
				case 1:
					m.MinorDim++
				default:
					m.MajorDim++
					m.Entries = append(m.Entries, nil)
				}
				g.count("dimmismatch")
			}
			mat := &sparse.Matrix{CSMatrix: *cloneCSM(m)}
			in := cloneVec(v)
			recv := in
			if g.intn(2) == 0 {
				recv = &sparse.Vector{}
			} else {
				g.count("alias:mulvec-recv=v")
			}
			err := recv.MulVec(context.Background(), mat, in)
			w := h.line("C09", "mulvec").CSM(m).Vec(v).Bar()
			if err != nil {
				w.Str("err")
			} else {
				w.Str("ok").Vec(recv)
			}
			h.emit(w)
		}
	}
}
