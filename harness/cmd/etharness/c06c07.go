package main

// C06 (determinism / schedule independence) and C07 (cancellation) on the real code.
// Both compare the implementation with ITSELF (parallel vs sequential, disturbed vs undisturbed);
// the driver maps the observed outcome class to the model's outcome set.

import (
	"context"
	"fmt"
	"runtime"
	"sort"
	"strings"
	"sync"
	"sync/atomic"
	"time"

	"k3l.io/go-eigentrust/pkg/basic"
	"k3l.io/go-eigentrust/pkg/sparse"
)

// countingCtx cancels itself at the k-th call of Done() (k <= 0: never).
type countingCtx struct {
	context.Context
	n      atomic.Int64
	k      int64
	done   chan struct{}
	once   sync.Once
	cancel atomic.Bool
}

func newCountingCtx(k int) *countingCtx {
	return &countingCtx{Context: context.Background(), k: int64(k), done: make(chan struct{})}
}
func (c *countingCtx) Done() <-chan struct{} {
	n := c.n.Add(1)
	if c.k > 0 && n >= c.k {
		c.once.Do(func() { c.cancel.Store(true); close(c.done) })
	}
	return c.done
}

// Err is a poll too: code may look at ctx.Err() instead of selecting on Done(), so the k-th poll of EITHER kind
// is where the cancellation lands.
func (c *countingCtx) Err() error {
	if c.cancel.Load() {
		return context.Canceled
	}
	n := c.n.Add(1)
	if c.k > 0 && n >= c.k {
		c.once.Do(func() { c.cancel.Store(true); close(c.done) })
		return context.Canceled
	}
	return nil
}

func goroutinesSettle(base int) bool {
	deadline := time.Now().Add(5 * time.Second)
	for time.Now().Before(deadline) {
		if runtime.NumGoroutine() <= base {
			return true
		}
		runtime.Gosched()
		time.Sleep(200 * time.Microsecond)
	}
	// only goroutines of the code under test count
	buf := make([]byte, 1<<20)
	buf = buf[:runtime.Stack(buf, true)]
	return !strings.Contains(string(buf), "sparse.(*Vector).MulVec")
}

// canonical compute inputs: row-stochastic c (zero rows replaced by p), distribution p
func (g *G) canonicalInputs(n int) (*sparse.Matrix, *sparse.Vector) {
	p := g.vec(n)
	for i := range p.Entries {
		p.Entries[i].Value = float64(g.intn(16) + 1)
	}
	basic.CanonicalizeTrustVector(p)
	m := g.csm(n, n, "positive")
	// graph shapes
	shape := g.pick("random", "selfloops", "chain", "star", "periodic", "disconnected", "sinks", "zero-rows")
	switch shape {
	case "selfloops":
		for i := range m.Entries {
			m.Entries[i] = []sparse.Entry{{Index: i, Value: 1}}
			if g.intn(2) == 0 && n > 1 {
				j := (i + 1) % n
				if j < i {
					m.Entries[i] = []sparse.Entry{{Index: j, Value: 1}, {Index: i, Value: 2}}
				} else {
					m.Entries[i] = append(m.Entries[i], sparse.Entry{Index: j, Value: float64(g.intn(5) + 1)})
				}
			}
		}
	case "chain", "periodic":
		for i := range m.Entries {
			m.Entries[i] = []sparse.Entry{{Index: (i + 1) % n, Value: float64(g.intn(9) + 1)}}
		}
	case "star":
		for i := range m.Entries {
			if i == 0 {
				m.Entries[i] = nil
				for j := 1; j < n; j++ {
					m.Entries[i] = append(m.Entries[i], sparse.Entry{Index: j, Value: float64(g.intn(9) + 1)})
				}
			} else {
				m.Entries[i] = []sparse.Entry{{Index: 0, Value: 1}}
			}
		}
	case "disconnected":
		h := n / 2
		for i := range m.Entries {
			var row []sparse.Entry
			for _, e := range m.Entries[i] {
				if (i < h) == (e.Index < h) {
					row = append(row, e)
				}
			}
			m.Entries[i] = row
		}
	case "sinks":
		for i := range m.Entries {
			if g.intn(2) == 0 {
				m.Entries[i] = nil
			}
		}
	case "zero-rows":
		// peers whose stated trust sums to exactly zero although the row is not empty (stored zeros, as the gRPC
		// loader keeps them): such a row has no outbound trust and gets the pre-trust like an empty one
		for i := range m.Entries {
			if g.intn(2) == 0 {
				j := g.intn(n)
				m.Entries[i] = []sparse.Entry{{Index: j, Value: 0}}
				if j+1 < n && g.intn(2) == 0 {
					m.Entries[i] = append(m.Entries[i], sparse.Entry{Index: j + 1, Value: 0})
				}
			}
		}
	}
	g.count("graph:" + shape)
	if g.intn(4) == 0 { // wide weight range
		for i := range m.Entries {
			for j := range m.Entries[i] {
				m.Entries[i][j].Value = g.value("wide")
				if m.Entries[i][j].Value < 0 {
					m.Entries[i][j].Value = -m.Entries[i][j].Value
				}
			}
		}
		g.count("weights:wide")
	}
	c := &sparse.Matrix{CSMatrix: *m}
	if err := basic.CanonicalizeLocalTrust(c, p); err != nil {
		panic(err)
	}
	// rows substituted by p share p's entries: unshare so deep comparisons are meaningful
	c = cloneCSR(c)
	return c, p
}

func seqMulVec(m *sparse.Matrix, v *sparse.Vector) *sparse.Vector {
	out := &sparse.Vector{Dim: m.MajorDim}
	for i := 0; i < m.MajorDim; i++ {
		x := sparse.VecDot(m.RowVector(i), v)
		if x != 0 {
			out.Entries = append(out.Entries, sparse.Entry{Index: i, Value: x})
		}
	}
	return out
}

func busy(stop *atomic.Bool, n int) *sync.WaitGroup {
	var wg sync.WaitGroup
	for i := 0; i < n; i++ {
		wg.Add(1)
		go func() {
			defer wg.Done()
			x := 0.0
			for !stop.Load() {
				for j := 0; j < 1000; j++ {
					x += float64(j)
				}
				runtime.Gosched()
			}
			_ = x
		}()
	}
	return &wg
}

func runC06(h *H) {
	g := h.g
	cases := h.budget(24, 60)
	reps := h.budget(6, 24)
	procsList := []int{1, 2, 3, 4, 8, 16}
	old := runtime.GOMAXPROCS(0)
	defer runtime.GOMAXPROCS(old)
	var prevC *sparse.Matrix
	var prevP, prevRef *sparse.Vector
	var prevA, prevE float64
	for k := 0; k < cases; k++ {
		n := g.intn(40) + 1
		if k%5 == 0 {
			n = g.intn(200) + 40
		}
		c, p := g.canonicalInputs(n)
		if k%8 == 3 {
			// a very popular peer: one column with thousands of entries (a long row of the transpose)
			n = 2500 + g.intn(1500)
			if k == 3 {
				n = 6200 + g.intn(2500) // well beyond any plausible chunking threshold (4096, 6144, …)
			}
			c, p = g.hubInputs(n)
			g.count("hub-column")
		}
		ct, _ := c.Transpose(context.Background())
		v := g.vec(n)
		ref := seqMulVec(ct, v)
		cIn, ctIn, vIn, pIn := cloneCSR(c), cloneCSR(ct), cloneVec(v), cloneVec(p)
		a := []float64{0.5, 0.15, 0.9, 1, 0.01}[g.intn(5)]
		e := []float64{1e-6, 1e-9, 1e-3}[g.intn(3)]
		var refCompute *sparse.Vector
		allSameMV, allSameC, sorted, runs := true, true, true, 0
		// a second, different operand: results obtained earlier must stay what they were while other
		// products are being computed (no buffer shared between a published result and a later call)
		v2 := g.vec(n)
		if len(v2.Entries) == 0 || vecEqualBits(v2, v) {
			v2 = cloneVec(p)
		}
		ref2 := seqMulVec(ct, v2)
		var held2 *sparse.Vector
		for _, procs := range procsList {
			runtime.GOMAXPROCS(procs)
			for _, load := range []bool{false, true} {
				var stop atomic.Bool
				var wg *sync.WaitGroup
				if load {
					wg = busy(&stop, 16)
				}
				for r := 0; r < reps; r++ {
					// several goroutines share the same inputs concurrently
					var cw sync.WaitGroup
					res := make([]*sparse.Vector, 3)
					for q := range res {
						cw.Add(1)
						go func(q int) {
							defer cw.Done()
							out := &sparse.Vector{}
							if err := out.MulVec(context.Background(), ct, v); err != nil {
								panic(err)
							}
							res[q] = out
						}(q)
					}
					cw.Wait()
					// another product, with a different operand, before the results above are looked at
					o2 := &sparse.Vector{}
					if err := o2.MulVec(context.Background(), ct, v2); err != nil {
						panic(err)
					}
					if held2 != nil && !vecEqualBits(held2, ref2) {
						allSameMV = false // a result published earlier changed afterwards
						g.count("earlier-result-changed")
					}
					if !vecEqualBits(o2, ref2) {
						allSameMV = false
					}
					held2 = o2
					for _, out := range res {
						runs++
						if !vecEqualBits(out, ref) {
							allSameMV = false
						}
						for i := 1; i < len(out.Entries); i++ {
							if out.Entries[i-1].Index >= out.Entries[i].Index {
								sorted = false
							}
						}
					}
				}
				if r := reps / 3; r > 0 {
					for i := 0; i < r; i++ {
						// a second Compute on DIFFERENT inputs runs concurrently (no state shared between calls)
						var ow sync.WaitGroup
						var tOther *sparse.Vector
						if prevC != nil {
							ow.Add(1)
							go func() {
								defer ow.Done()
								tOther, _ = basic.Compute(context.Background(), prevC, prevP, prevA, prevE, basic.WithMaxIterations(200))
							}()
						}
						t, err := basic.Compute(context.Background(), c, p, a, e, basic.WithMaxIterations(200))
						ow.Wait()
						if prevC != nil && (tOther == nil || !vecEqualBits(tOther, prevRef)) {
							allSameC = false
							g.count("concurrent-compute-on-other-inputs-differs")
						}
						if err != nil {
							panic(err)
						}
						if refCompute == nil {
							refCompute = t
						} else if !vecEqualBits(t, refCompute) {
							allSameC = false
						}
					}
				}
				if load {
					stop.Store(true)
					wg.Wait()
				}
			}
		}
		runtime.GOMAXPROCS(old)
		if refCompute != nil && n <= 300 {
			// the same logical local trust assembled differently - one constructor call, or a constructor call
			// followed by merges of the remaining entries (later columns of every row; then a random remainder) -
			// is the same input: same matrix, same bits out
			for _, mode := range []string{"tail-columns", "random-split"} {
				var first, rest, rest2 []sparse.CooEntry
				zero := false
				for i, row := range c.Entries {
					cut := len(row)
					if len(row) > 0 {
						cut = g.intn(len(row) + 1)
					}
					for j, en := range row {
						zero = zero || en.Value == 0
						co := sparse.CooEntry{Row: i, Column: en.Index, Value: en.Value}
						switch {
						case mode == "tail-columns" && j >= cut:
							rest = append(rest, co)
						case mode == "random-split" && g.intn(3) == 0:
							rest = append(rest, co)
						case mode == "random-split" && g.intn(3) == 0:
							rest2 = append(rest2, co)
						default:
							first = append(first, co)
						}
					}
				}
				if zero {
					break
				}
				built := sparse.NewCSRMatrix(n, n, first, false)
				for _, part := range [][]sparse.CooEntry{rest, rest2} {
					if len(part) > 0 {
						built.Merge(&sparse.NewCSRMatrix(n, n, part, false).CSMatrix)
					}
				}
				g.count("built-by-merge:" + mode)
				if !csmEqualBits(&built.CSMatrix, &c.CSMatrix) {
					allSameC = false
					g.count("built-by-merge-matrix-differs")
					continue
				}
				if t, err := basic.Compute(context.Background(), built, p, a, e, basic.WithMaxIterations(200)); err != nil || !vecEqualBits(t, refCompute) {
					allSameC = false
					g.count("built-by-merge-scores-differ")
				}
			}
			prevC, prevP, prevA, prevE, prevRef = cloneCSR(c), cloneVec(p), a, e, cloneVec(refCompute)
		}
		inputsSame := csmEqualBits(&c.CSMatrix, &cIn.CSMatrix) && csmEqualBits(&ct.CSMatrix, &ctIn.CSMatrix) &&
			vecEqualBits(v, vIn) && vecEqualBits(p, pIn)
		g.count(fmt.Sprintf("runs:%d", runs))
		// mulvec: the driver recomputes the sequential product with the Lean model (Float) as well
		h.emit(h.line("C06", "mulvec").CSM(&ct.CSMatrix).Vec(v).Bar().Vec(ref).Bool(allSameMV).Bool(sorted).Bool(inputsSame).Int(runs))
		w := h.line("C06", "compute").CSM(&c.CSMatrix).Vec(p).F(a).F(e).Int(200).Bar()
		if refCompute != nil {
			w.Vec(refCompute).Bool(allSameC).Bool(inputsSame)
		} else {
			w.Vec(&sparse.Vector{}).Bool(false).Bool(false)
		}
		h.emit(w)
	}
}

// outcome classes of a cancelled operation
func classify(err error, got, ref *sparse.Vector, recvBefore *sparse.Vector, recv *sparse.Vector) string {
	switch {
	case err != nil && err == context.Canceled:
		if recvBefore != nil && recv != nil && !vecEqualBits(recvBefore, recv) {
			return "ctxerr-receiver-modified"
		}
		if got != nil {
			return "ctxerr-with-result"
		}
		return "ctxerr"
	case err != nil:
		return "othererr"
	case got != nil && vecEqualBits(got, ref):
		return "full"
	default:
		return "partial"
	}
}

func runC07(h *H) {
	g := h.g
	// budgets: the thorough tier sweeps 120 / 160 cancellation points per call (every poll when there are fewer) on 30
	// inputs; sweeping EVERY poll of every unlimited compute took more than two hours on a loaded machine
	cases := h.budget(10, 30)
	reps := h.budget(40, 120)
	procsList := []int{1, 2, 4, 16}
	old := runtime.GOMAXPROCS(0)
	defer runtime.GOMAXPROCS(old)
	tally := map[string]int{}
	emitTally := func(op string, dim int) {
		for key, cnt := range tally {
			h.emit(h.line("C07", "cancel").Str(op).Int(dim).Str(key).Bar().Int(cnt))
		}
		for key := range tally {
			delete(tally, key)
		}
	}
	for k := 0; k < cases; k++ {
		n := []int{1, 2, 3, 5, 8, 33, 70}[k%7]
		c, p := g.canonicalInputs(n)
		ct, _ := c.Transpose(context.Background())
		v := g.vec(n)
		if len(v.Entries) == 0 {
			v = cloneVec(p)
		}
		ref := seqMulVec(ct, v)
		ctIn, vIn := cloneCSR(ct), cloneVec(v)
		// undisturbed poll count
		cc := newCountingCtx(0)
		probe := &sparse.Vector{}
		_ = probe.MulVec(cc, ct, v)
		polls := int(cc.n.Load())
		stride := 1
		if lim := h.budget(24, 120); polls > lim {
			stride = polls / lim
		}
		base := runtime.NumGoroutine()
		for _, procs := range procsList {
			runtime.GOMAXPROCS(procs)
			for kk := 1; kk <= polls+2; kk += stride {
				for r := 0; r < reps/len(procsList)+1; r++ {
					ctx := newCountingCtx(kk)
					recvBefore := &sparse.Vector{Dim: 77, Entries: []sparse.Entry{{Index: 3, Value: 9}}}
					recv := cloneVec(recvBefore)
					err := recv.MulVec(ctx, ct, v)
					var got *sparse.Vector
					if err == nil {
						got = recv
					}
					oc := classify(err, got, ref, recvBefore, recv)
					if err == nil {
						oc = classify(nil, got, ref, nil, nil)
					}
					tally[fmt.Sprintf("%s k=%d/%d procs=%d", oc, kk, polls, procs)]++
				}
			}
			// pre-cancelled and timer-cancelled contexts
			for r := 0; r < reps; r++ {
				ctx, cancel := context.WithCancel(context.Background())
				cancel()
				recv := &sparse.Vector{Dim: 77, Entries: []sparse.Entry{{Index: 3, Value: 9}}}
				before := cloneVec(recv)
				err := recv.MulVec(ctx, ct, v)
				var got *sparse.Vector
				if err == nil {
					got = recv
				}
				tally[fmt.Sprintf("%s precancelled procs=%d", classify(err, got, ref, before, recv), procs)]++
			}
		}
		runtime.GOMAXPROCS(old)
		leaked := !goroutinesSettle(base)
		inputsSame := csmEqualBits(&ct.CSMatrix, &ctIn.CSMatrix) && vecEqualBits(v, vIn)
		emitTally("mulvec", n)
		h.emit(h.line("C07", "after").Str("mulvec").Int(n).Bar().Bool(leaked).Bool(inputsSame))

		// a large multiplication with expensive rows, cancelled shortly after it started: nothing may stay behind
		if k%3 == 0 {
			nb := 1500 + g.intn(500)
			cb, _ := g.hubInputs(nb)
			for i := range cb.Entries { // make every row expensive
				if i%4 == 0 {
					row := make([]sparse.Entry, 0, nb)
					for j := 0; j < nb; j++ {
						row = append(row, sparse.Entry{Index: j, Value: 1 / float64(nb)})
					}
					cb.Entries[i] = row
				}
			}
			vb := &sparse.Vector{Dim: nb}
			for j := 0; j < nb; j++ {
				vb.Entries = append(vb.Entries, sparse.Entry{Index: j, Value: 1 / float64(nb)})
			}
			baseB := runtime.NumGoroutine()
			for _, procs := range []int{2, 16} {
				runtime.GOMAXPROCS(procs)
				for r := 0; r < 12; r++ {
					ctx, cancel := context.WithCancel(context.Background())
					go func(d time.Duration) { time.Sleep(d); cancel() }(time.Duration(100+g.intn(900)) * time.Microsecond)
					recv := &sparse.Vector{}
					err := recv.MulVec(ctx, cb, vb)
					cancel()
					oc := "full"
					if err == context.Canceled {
						oc = "ctxerr"
					} else if err != nil {
						oc = "othererr"
					}
					tally[fmt.Sprintf("%s early-cancel procs=%d", oc, procs)]++
				}
			}
			runtime.GOMAXPROCS(old)
			leakedB := !goroutinesSettle(baseB)
			emitTally("mulvec-large", nb)
			h.emit(h.line("C07", "after").Str("mulvec-large").Int(nb).Bar().Bool(leakedB).Bool(true))
		}

		// Compute: cancel at the k-th poll of an undisturbed run; with and without iteration limits
		for _, limited := range []bool{false, true} {
			opts := []basic.ComputeOpt{}
			if limited {
				opts = append(opts, basic.WithIterations(1+g.intn(3)))
			}
			a, e := 0.5, 1e-6
			refT, err := basic.Compute(context.Background(), c, p, a, e, opts...)
			if err != nil {
				panic(err)
			}
			cc := newCountingCtx(0)
			_, _ = basic.Compute(cc, c, p, a, e, opts...)
			polls := int(cc.n.Load())
			stride := 1
			if lim := h.budget(40, 160); polls > lim {
				stride = polls / lim
			}
			cIn, pIn := cloneCSR(c), cloneVec(p)
			base := runtime.NumGoroutine()
			for _, procs := range procsList {
				runtime.GOMAXPROCS(procs)
				for kk := 1; kk <= polls+2; kk += stride {
					for r := 0; r < reps/40+2; r++ {
						ctx := newCountingCtx(kk)
						resultIn := &sparse.Vector{Dim: n, Entries: []sparse.Entry{{Index: 0, Value: 42}}}
						callOpts := append([]basic.ComputeOpt{}, opts...)
						if r%2 == 1 {
							// the same vector as initial trust AND result destination (as gRPC BasicCompute does)
							resultIn = cloneVec(p)
							callOpts = append(callOpts, basic.WithInitialTrust(resultIn))
						}
						before := cloneVec(resultIn)
						t, err := basic.Compute(ctx, c, p, a, e, append(callOpts, basic.WithResultIn(resultIn))...)
						var got *sparse.Vector
						if err == nil {
							got = t
						} else if t != nil {
							got = t
						}
						oc := classify(err, got, refT, before, resultIn)
						if err == nil {
							oc = classify(nil, got, refT, nil, nil)
						}
						lim := "unlimited"
						if limited {
							lim = "limited"
						}
						tally[fmt.Sprintf("%s %s k=%d/%d procs=%d", oc, lim, kk, polls, procs)]++
					}
				}
			}
			runtime.GOMAXPROCS(old)
			leaked := !goroutinesSettle(base)
			same := csmEqualBits(&c.CSMatrix, &cIn.CSMatrix) && vecEqualBits(p, pIn)
			emitTally("compute", n)
			h.emit(h.line("C07", "after").Str("compute").Int(n).Bar().Bool(leaked).Bool(same))
		}

		// Transpose: cancel at every row poll
		{
			refM, _ := c.Transpose(context.Background())
			cIn := cloneCSR(c)
			for kk := 1; kk <= n+1; kk++ {
				ctx := newCountingCtx(kk)
				mt, err := c.Transpose(ctx)
				oc := "partial"
				switch {
				case err == context.Canceled && mt == nil:
					oc = "ctxerr"
				case err == context.Canceled:
					oc = "ctxerr-with-result"
				case err == nil && csmEqualBits(&mt.CSMatrix, &refM.CSMatrix):
					oc = "full"
				}
				tally[fmt.Sprintf("%s k=%d/%d procs=%d", oc, kk, n, old)]++
			}
			same := csmEqualBits(&c.CSMatrix, &cIn.CSMatrix)
			emitTally("transpose", n)
			h.emit(h.line("C07", "after").Str("transpose").Int(n).Bar().Bool(false).Bool(same))
		}
	}
	// cancellation of a swap-out (Mmap polls the context once per row): a cancelled Mmap — of a fresh, a mapped,
	// or a mapped-and-since-modified matrix — must leave the matrix, its rows and its mapping intact
	runC12As(h, "C07", h.budget(60, 600), true)
}

func (g *G) hubInputs(n int) (*sparse.Matrix, *sparse.Vector) {
	m := &sparse.CSMatrix{MajorDim: n, MinorDim: n, Entries: make([][]sparse.Entry, n)}
	for i := 1; i < n; i++ {
		m.Entries[i] = []sparse.Entry{{Index: 0, Value: 1 + float64(g.intn(1000))/7}}
		if j := 1 + g.intn(n-1); j != i {
			m.Entries[i] = append(m.Entries[i], sparse.Entry{Index: j, Value: 0.5 + g.r.Float64()})
			if j < 0 {
				_ = j
			}
		}
		sort.Slice(m.Entries[i], func(a, b int) bool { return m.Entries[i][a].Index < m.Entries[i][b].Index })
	}
	m.Entries[0] = []sparse.Entry{{Index: 1, Value: 1}, {Index: n - 1, Value: 2}}
	p := &sparse.Vector{Dim: n}
	for i := 0; i < n; i += 1 + g.intn(7) {
		p.Entries = append(p.Entries, sparse.Entry{Index: i, Value: 1 + g.r.Float64()})
	}
	basic.CanonicalizeTrustVector(p)
	c := &sparse.Matrix{CSMatrix: *m}
	if err := basic.CanonicalizeLocalTrust(c, p); err != nil {
		panic(err)
	}
	return cloneCSR(c), p
}
