package main

// CSV-based front-ends: playground (C20), CLI (C19), library CSV readers (C19/C15).
// CSV bytes are produced with encoding/csv and parsed back with encoding/csv in the harness to obtain
// the records shipped to the driver (the csv / strconv libraries are outside the model).

import (
	"bytes"
	"encoding/csv"
	"encoding/hex"
	"encoding/json"
	"fmt"
	"html"
	"io"
	"mime/multipart"
	"net/http"
	"net/http/httptest"
	"os"
	"os/exec"
	"path/filepath"
	"regexp"
	"strconv"
	"strings"
	"sync"
	"time"

	"github.com/gin-gonic/gin"
	"k3l.io/go-eigentrust/pkg/basic"
	"k3l.io/go-eigentrust/pkg/verifhook"
)

func hexStr(s string) string {
	if s == "" {
		return "-"
	}
	return hex.EncodeToString([]byte(s))
}

func (w *W) field(s string) *W {
	w.Str(hexStr(s))
	if n, err := strconv.Atoi(s); err == nil {
		w.Str(fmt.Sprintf("i%d", n))
	} else {
		w.Str("x")
	}
	if n, err := strconv.ParseInt(s, 0, 0); err == nil {
		w.Str(fmt.Sprintf("i%d", n))
	} else {
		w.Str("x")
	}
	if f, err := strconv.ParseFloat(s, 64); err == nil {
		w.Str(fbits(f))
	} else {
		w.Str("x")
	}
	return w
}

func (w *W) records(recs [][]string) *W {
	w.Int(len(recs))
	for _, r := range recs {
		w.Int(len(r))
		for _, f := range r {
			w.field(f)
		}
	}
	return w
}

// csvBytes serialises records the way a person writes a CSV file: a field is quoted only when the reader
// needs it (it contains a quote, a comma or a line break, or it is the only, empty, field of its record).
// In particular leading / trailing white space stays UNQUOTED (encoding/csv's Writer would quote it, and a
// quoted field hides what a reader option such as TrimLeadingSpace does to bare fields).
func csvBytes(recs [][]string) []byte {
	var buf bytes.Buffer
	for _, r := range recs {
		for i, f := range r {
			if i > 0 {
				buf.WriteByte(',')
			}
			if strings.ContainsAny(f, "\",\r\n") || (f == "" && len(r) == 1) {
				buf.WriteByte('"')
				buf.WriteString(strings.ReplaceAll(f, "\"", "\"\""))
				buf.WriteByte('"')
			} else {
				buf.WriteString(f)
			}
		}
		buf.WriteByte('\n')
	}
	return buf.Bytes()
}

var _ = csv.NewWriter

// parse with the same library settings the code under test uses; on a CSV error returns what was read so far + false
func csvParse(b []byte) ([][]string, bool) { return csvParseN(b, 0) }

func csvParseN(b []byte, fieldsPerRecord int) ([][]string, bool) {
	r := csv.NewReader(bytes.NewReader(b))
	r.FieldsPerRecord = fieldsPerRecord
	var out [][]string
	for {
		rec, err := r.Read()
		if err == io.EOF {
			return out, true
		}
		if err != nil {
			return out, false
		}
		out = append(out, rec)
	}
}

var fancyNames = []string{"alice", "bob", "carol", "dave, jr.", "e\"ve", "0", "1", "007", "-3", "ünï", "x y", "Peer 1", "0x10", "1e3", "NaN",
	"Tom & Jerry", "<b>eve</b>", "o'neil", "a&amp;b", "&lt;"}

// names with leading / trailing white space: used for the CLI and the library readers only (an HTML page
// cannot show the difference, so the playground cases keep to the names above)
var spaceNames = []string{" ek", "\tzed", "\u00a0nb", "trail ", "\u3000wide"}

func (g *G) peerNames(n int) []string { return g.peerNamesFrom(n, fancyNames) }

// peerNamesWS: as peerNames, with white-space-edged names in the pool.
func (g *G) peerNamesWS(n int) []string {
	out := g.peerNamesFrom(n, append(append([]string{}, fancyNames...), spaceNames...))
	if n > 0 && g.intn(3) == 0 {
		// the empty string is a name like any other (an empty CSV field)
		out[g.intn(n)] = ""
		g.count("names:empty-string-name")
	}
	return out
}

func (g *G) peerNamesFrom(n int, pool []string) []string {
	p := g.r.Perm(len(pool))
	out := []string{}
	for i := 0; i < n && i < len(p); i++ {
		out = append(out, pool[p[i]])
	}
	for len(out) < n {
		out = append(out, fmt.Sprintf("p%d", len(out)))
	}
	return out
}

func fmtLevel(g *G) string {
	switch g.intn(8) {
	case 0:
		return "1"
	case 1:
		return "0.5"
	case 2:
		return "1e-3"
	case 3:
		return "2.5"
	}
	return strconv.FormatFloat(float64(g.intn(64)+1)/8, 'g', -1, 64)
}

// ---------------------------------------------------------------------------------------------
// playground

type pgEnv struct{ r *gin.Engine }

func newPgEnv() *pgEnv {
	gin.SetMode(gin.ReleaseMode)
	gin.DefaultWriter = io.Discard
	gin.DefaultErrorWriter = io.Discard
	gr := gin.Default()
	repo := os.Getenv("VERIF_REPO")
	if repo == "" {
		repo = "/repo"
	}
	gr.LoadHTMLGlob(filepath.Join(repo, "templates", "*"))
	verifhook.PlaygroundAddRoutes(gr)
	return &pgEnv{r: gr}
}

var rowRe = regexp.MustCompile(`(?s)<tr\s*(style="font-weight: bold")?\s*>\s*<td>([^<]*)</td>\s*<td>([^<]*)</td>\s*<td>([^<]*)</td>`)

func (e *pgEnv) upload(names, lt, pt []byte, hunch *string, wd time.Duration) (int, string, string) {
	var body bytes.Buffer
	mw := multipart.NewWriter(&body)
	add := func(field string, data []byte) {
		if data == nil && field == "peerNamesFile" {
			return
		}
		fw, _ := mw.CreateFormFile(field, field+".csv")
		fw.Write(data)
	}
	add("peerNamesFile", names)
	add("localTrustFile", lt)
	add("preTrustFile", pt)
	if hunch != nil {
		mw.WriteField("hunchPercent", *hunch)
	}
	mw.Close()
	req := httptest.NewRequest("POST", "/calculate", &body)
	req.Header.Set("Content-Type", mw.FormDataContentType())
	rec := httptest.NewRecorder()
	ch := make(chan string, 1)
	go func() { ch <- safely(func() { e.r.ServeHTTP(rec, req) }) }()
	select {
	case pan := <-ch:
		if pan != "" {
			return 0, "", "panic"
		}
	case <-time.After(wd):
		return 0, "", "timeout"
	}
	return rec.Code, rec.Body.String(), ""
}

func runC20(h *H) { runUploads(h, "C20", h.budget(300, 6000)) }

func runUploads(h *H, prop string, n int) {
	g := h.g
	env := newPgEnv()
	wd := 30 * time.Second
	outcomes := map[string]int{}
	for k := 0; k < n; k++ {
		dim := g.intn(5) + 1
		hasNames := g.intn(2) == 0 || k%16 == 9
		names := g.peerNames(dim + g.intn(2))
		id := func(i int) string {
			if hasNames {
				return names[i]
			}
			return strconv.Itoa(i)
		}
		var ltRecs, ptRecs, nameRecs [][]string
		if hasNames {
			for _, nm := range names {
				nameRecs = append(nameRecs, []string{nm})
			}
		}
		ltDim, ptDim := dim, dim
		switch g.intn(3) {
		case 0:
			ltDim = g.intn(dim) + 1
		case 1:
			ptDim = g.intn(dim) + 1
		}
		cells := g.r.Perm(ltDim * ltDim)[:g.intn(ltDim*ltDim+1)]
		ltThree, ptTwo := g.intn(4) != 0, g.intn(3) != 0
		for _, c := range cells {
			rec := []string{id(c / ltDim), id(c % ltDim)}
			if ltThree {
				lv := fmtLevel(g)
				if g.intn(6) == 0 {
					lv = "-" + lv
				}
				rec = append(rec, lv)
			}
			ltRecs = append(ltRecs, rec)
		}
		if len(ltRecs) == 0 {
			ltRecs = append(ltRecs, []string{id(0), id(ltDim - 1), "1"}[:map[bool]int{true: 3, false: 2}[ltThree]])
		}
		// pre-trusted subset: any subset, single high-index peer, none → (empty file is unusable)
		sub := g.pick("subset", "single-high", "all", "one")
		for i := 0; i < ptDim; i++ {
			take := false
			switch sub {
			case "subset":
				take = g.intn(2) == 0
			case "single-high":
				take = i == ptDim-1
			case "all":
				take = true
			case "one":
				take = i == 0
			}
			if take {
				rec := []string{id(i)}
				if ptTwo {
					rec = append(rec, fmtLevel(g))
				}
				ptRecs = append(ptRecs, rec)
			}
		}
		g.count("pretrusted:" + sub)
		hunch := strconv.Itoa(g.intn(100) + 1)
		switch g.intn(8) {
		case 0: // other decimal spellings of the same whole percentage (strconv.Atoi reads them alike)
			hunch = g.pick("0", "00", "+") + hunch
			g.count("hunch:padded-or-signed")
		case 1:
			hunch = g.pick(" "+hunch, hunch+" ", hunch+".0", "0x"+hunch, "1_0", "0b101", "0o17")
			g.count("hunch:not-a-plain-integer")
		}
		hp := &hunch
		sel := g.intn(12)
		emptyNames := false
		if k%16 == 9 {
			sel = 0
		}
		if k%20 == 7 {
			// slow mixing: a directed ring with one pre-trusted peer at the lowest confidences — the error only
			// shrinks by (1 - confidence/100) per iteration, so the run needs thousands of iterations
			dim = g.intn(5) + 8
			hasNames, nameRecs, ltRecs = false, nil, nil
			for i := 0; i < dim; i++ {
				ltRecs = append(ltRecs, []string{strconv.Itoa(i), strconv.Itoa((i + 1) % dim), "1"})
			}
			ptRecs = [][]string{{"0"}}
			hunch = strconv.Itoa(g.intn(2) + 1)
			sel = 11
			g.count("slow-mixing-ring")
		}
		// malformed uploads
		switch sel {
		case 0:
			bad := g.pick("hunch-text", "hunch-big", "hunch-neg", "lt-1field", "lt-badlevel", "pt-unknown", "names-dup", "lt-bigger-than-names", "pt-empty-record", "names-empty", "names-empty")
			if k%16 == 9 {
				bad = "names-empty"
			}
			g.count("malformed:" + bad)
			switch bad {
			case "hunch-text":
				s := "ten"
				hp = &s
			case "hunch-big":
				s := "101"
				hp = &s
			case "hunch-neg":
				s := "-1"
				hp = &s
			case "lt-1field":
				ltRecs = append(ltRecs, []string{id(0)})
			case "lt-badlevel":
				ltRecs = append(ltRecs, []string{id(0), id(0), "much"})
			case "pt-unknown":
				ptRecs = append(ptRecs, []string{"nobody-knows-me"})
			case "names-dup":
				if hasNames {
					nameRecs = append(nameRecs, []string{names[0]})
				}
			case "lt-bigger-than-names":
				if !hasNames {
					ltRecs = append(ltRecs, []string{"9", "0", "1"})
				}
			case "pt-empty-record":
				ptRecs = append(ptRecs, []string{""})
			case "names-empty":
				// a peer names part that is PRESENT but holds no record (zero bytes, or blank lines only), with
				// trust files that use integer ids as uploads without names do
				if hasNames {
					toInt := map[string]string{}
					for i, nm := range names {
						if _, dup := toInt[nm]; !dup {
							toInt[nm] = strconv.Itoa(i)
						}
					}
					for _, r := range ltRecs {
						for f := 0; f < len(r) && f < 2; f++ {
							if v, ok := toInt[r[f]]; ok {
								r[f] = v
							}
						}
					}
					for _, r := range ptRecs {
						if v, ok := toInt[r[0]]; ok && len(r) > 0 {
							r[0] = v
						}
					}
					nameRecs = nil
					emptyNames = true
				}
			}
		}
		var nb []byte
		if hasNames {
			nb = csvBytes(nameRecs)
			if emptyNames {
				nb = []byte{}
				if g.intn(2) == 0 {
					nb = []byte("\n\n")
				}
			}
		}
		lb, pb := csvBytes(ltRecs), csvBytes(ptRecs)
		code, page, oc := env.upload(nb, lb, pb, hp, wd)
		if oc == "timeout" && slowRetries > 0 {
			// a loaded machine stretches a several-thousand-iteration upload past the watchdog: once more, six times
			// as long, before it is reported as "did not answer" (a hang stays a hang)
			slowRetries--
			code, page, oc = env.upload(nb, lb, pb, hp, 6*wd)
		}
		w := h.line(prop, "upload").Bool(hasNames)
		pn, ok1 := csvParse(nb)
		pl, ok2 := csvParse(lb)
		pp, ok3 := csvParse(pb)
		if hasNames {
			w.records(pn)
		}
		w.records(pl).records(pp).Str("csvok").Bool(ok1 && ok2 && ok3).Str("hunch").Str(atoiTok(*hp)).Bar()
		if oc != "" {
			w.Str(oc)
			outcomes[oc]++
		} else {
			w.Int(code)
			outcomes[fmt.Sprint(code)]++
			if code == 200 {
				rows := rowRe.FindAllStringSubmatch(page, -1)
				w.Int(len(rows))
				for _, r := range rows {
					// the cell as a browser shows it: character references resolved exactly once
					name := html.UnescapeString(strings.TrimSpace(r[3]))
					sc, err := strconv.ParseFloat(strings.TrimSpace(html.UnescapeString(r[4])), 64)
					if err != nil {
						sc = -1
					}
					w.Str(hexStr(name)).F(sc).Bool(r[1] != "")
				}
			}
		}
		h.emit(w)
	}
	h.notes["outcomes"] = outcomes
}

// ---------------------------------------------------------------------------------------------
// CLI

func buildCLI(h *H) string {
	repo := os.Getenv("VERIF_REPO")
	if repo == "" {
		repo = "/repo"
	}
	bdir := os.Getenv("VERIF_BUILD")
	if bdir == "" {
		bdir = "/verif/.build"
	}
	exe := filepath.Join(bdir, "eigentrust-cli")
	os.Remove(exe)
	cmd := exec.Command("go", "build", "-o", exe, "./cmd/eigentrust")
	cmd.Dir = repo
	cmd.Env = append(os.Environ(), "GOFLAGS=-mod=mod")
	if out, err := cmd.CombinedOutput(); err != nil {
		panic(fmt.Sprintf("cannot build the CLI: %v\n%s", err, out))
	}
	return exe
}

type cliReqJSON struct {
	Body struct {
		LocalTrust   json.RawMessage  `json:"localTrust"`
		PreTrust     *json.RawMessage `json:"preTrust"`
		InitialTrust *json.RawMessage `json:"initialTrust"`
	} `json:"body"`
	PeerIds []string `json:"peerIds"`
}

func runC19(h *H) {
	runCliAndReaders(h, "C19", h.budget(150, 3000))
	runCliPipeline(h, "C19")
}

func runCliAndReaders(h *H, prop string, n int) {
	g := h.g
	exe := buildCLI(h)
	bdir := filepath.Dir(exe)
	work := filepath.Join(bdir, "cliwork")
	os.RemoveAll(work)
	os.MkdirAll(work, 0o755)
	outcomes := map[string]int{}
	for k := 0; k < n; k++ {
		raw := g.intn(5) == 0
		hdr := g.intn(2) == 0
		dim := g.intn(5) + 1
		names := g.peerNamesWS(dim)
		id := func(i int) string {
			if raw {
				return strconv.Itoa(i)
			}
			return names[i]
		}
		mk := func(recs [][]string, header []string) [][]string {
			if hdr {
				return append([][]string{header}, recs...)
			}
			return recs
		}
		cols := 3
		if g.intn(3) == 0 {
			cols = 2 // 2-column local trust, 1-column vectors
			g.count("columns:2/1")
		}
		var lt [][]string
		for _, c := range g.r.Perm(dim * dim)[:g.intn(dim*dim)+1] {
			rec := []string{id(c / dim), id(c % dim)}
			if cols == 3 {
				rec = append(rec, fmtLevel(g))
			}
			lt = append(lt, rec)
		}
		if g.intn(4) == 0 {
			// few records, truster index above trustee index (the size must still cover the truster)
			lt = nil
			for i := 0; i < g.intn(2)+1; i++ {
				a := g.intn(dim)
				b := g.intn(a + 1)
				rec := []string{id(a), id(b)}
				if cols == 3 {
					rec = append(rec, fmtLevel(g))
				}
				lt = append(lt, rec)
			}
			g.count("few-descending-records")
		}
		ltHeader := []string{"from", "to", "level"}[:cols]
		lt = mk(lt, ltHeader)
		vec := func() [][]string {
			var v [][]string
			for i := 0; i < dim; i++ {
				if g.intn(2) == 0 {
					rec := []string{id(g.intn(dim))}
					if cols == 3 {
						rec = append(rec, fmtLevel(g))
					}
					v = append(v, rec)
				}
			}
			if len(v) == 0 {
				rec := []string{id(0)}
				if cols == 3 {
					rec = append(rec, "1")
				}
				v = append(v, rec)
			}
			return mk(v, []string{"peer", "level"}[:cols-1])
		}
		var pt, it [][]string
		hasPT, hasIT := g.intn(2) == 0, g.intn(3) == 0
		if hasPT {
			pt = vec()
		}
		if hasIT {
			it = vec()
			// a peer first seen in the initial-trust file
			if !raw && g.intn(2) == 0 {
				rec := []string{"late-comer"}
				if cols == 3 {
					rec = append(rec, "1")
				}
				it = append(it, rec)
			}
		}
		if g.intn(10) == 0 { // malformed
			bad := g.pick("4fields", "badvalue", "negvalue", "short")
			g.count("malformed:" + bad)
			switch bad {
			case "4fields":
				lt = append(lt, []string{id(0), id(0), "1", "extra"})
			case "badvalue":
				lt = append(lt, []string{id(0), id(0), "lots"})
			case "negvalue":
				if hasPT {
					pt = append(pt, []string{id(0), "-1"})
				}
			case "short":
				lt = append(lt, []string{id(0)})
			}
		}
		ltF, ptF, itF := filepath.Join(work, "lt.csv"), filepath.Join(work, "pt.csv"), filepath.Join(work, "it.csv")
		ltB, ptB, itB := csvBytes(lt), csvBytes(pt), csvBytes(it)
		// encoding/csv refuses records with a different field count than the first one unless told otherwise;
		// the CLI uses the default reader, so the harness records exactly what that reader yields.
		os.WriteFile(ltF, ltB, 0o644)
		args := []string{"basic", "compute", "--print-request", "-l", ltF, fmt.Sprintf("--csv-header=%v", hdr)}
		if raw {
			args = append(args, "--raw-peer-ids")
		}
		if hasPT {
			os.WriteFile(ptF, ptB, 0o644)
			args = append(args, "-p", ptF)
		}
		if hasIT {
			os.WriteFile(itF, itB, 0o644)
			args = append(args, "-i", itF)
		}
		cmd := exec.Command(exe, args...)
		var stdout, stderr bytes.Buffer
		cmd.Stdout, cmd.Stderr = &stdout, &stderr
		err := cmd.Run()
		w := h.line(prop, "cli").Bool(raw).Bool(hdr)
		pl, okL := csvParse(ltB)
		w.records(pl).Bool(okL)
		w.Str("pt").Bool(hasPT)
		if hasPT {
			pp, ok := csvParse(ptB)
			w.records(pp).Bool(ok)
		}
		w.Str("it").Bool(hasIT)
		if hasIT {
			pi, ok := csvParse(itB)
			w.records(pi).Bool(ok)
		}
		w.Bar()
		var req cliReqJSON
		switch {
		case strings.Contains(stderr.String(), "panic:") || strings.Contains(stderr.String(), "goroutine "):
			w.Str("panic")
			outcomes["panic"]++
		case err != nil:
			w.Str("exit")
			outcomes["exit"]++
		case json.Unmarshal(stdout.Bytes(), &req) != nil || len(stdout.Bytes()) == 0:
			w.Str("err")
			outcomes["err"]++
		default:
			w.Str("ok")
			outcomes["ok"]++
			var m struct {
				Size    int `json:"size"`
				Entries []struct {
					I, J int
					V    float64
				} `json:"entries"`
			}
			json.Unmarshal(req.Body.LocalTrust, &m)
			w.Int(m.Size).Int(len(m.Entries))
			for _, e := range m.Entries {
				w.Int(e.I).Int(e.J).F(e.V)
			}
			vecOut := func(raw *json.RawMessage) {
				if raw == nil {
					w.Int(0)
					return
				}
				var v struct {
					Size    int `json:"size"`
					Entries []struct {
						I int
						V float64
					} `json:"entries"`
				}
				json.Unmarshal(*raw, &v)
				w.Int(1).Int(v.Size).Int(len(v.Entries))
				for _, e := range v.Entries {
					w.Int(e.I).F(e.V)
				}
			}
			vecOut(req.Body.PreTrust)
			vecOut(req.Body.InitialTrust)
			w.Int(len(req.PeerIds))
			for _, p := range req.PeerIds {
				w.Str(hexStr(p))
			}
		}
		h.emit(w)
	}
	h.notes["outcomes"] = outcomes
	os.RemoveAll(work)
	os.Remove(exe)

	// ReadPeerNamesFromCsv: duplicate names at every position, empty records
	for k := 0; k < n; k++ {
		names := g.peerNamesWS(g.intn(5) + 1)
		var recs [][]string
		for _, nm := range names {
			rec := []string{nm}
			if g.intn(4) == 0 {
				rec = append(rec, "extra")
			}
			recs = append(recs, rec)
		}
		switch g.pick("ok", "ok", "dup-first", "dup-last", "dup-mid", "dup-adjacent") {
		case "dup-first":
			recs = append(recs, []string{names[0]})
			g.count("names:dup-first")
		case "dup-last":
			recs = append(recs, []string{names[len(names)-1]})
		case "dup-mid":
			recs = append(recs, []string{names[len(names)/2]})
		case "dup-adjacent":
			recs = append([][]string{{names[0]}}, recs...)
		}
		b := csvBytes(recs)
		parsed, okp := csvParseN(b, -1)
		w := h.line(prop, "readnames").records(parsed).Bool(okp).Bar()
		rd := csv.NewReader(bytes.NewReader(b))
		rd.FieldsPerRecord = -1
		pan := safely(func() {
			got, idx, err := basic.ReadPeerNamesFromCsv(rd)
			if err != nil {
				w.Str("err")
				return
			}
			w.Str("ok").Int(len(got))
			for _, nm := range got {
				w.Str(hexStr(nm)).Int(idx[nm])
			}
		})
		if pan != "" {
			w.Str("panic")
		}
		h.emit(w)
	}
	// library CSV readers
	for k := 0; k < n; k++ {
		dim := g.intn(5) + 1
		useNames := g.intn(2) == 0
		names := g.peerNamesWS(dim)
		id := func(i int) string {
			if useNames {
				return names[i]
			}
			return strconv.Itoa(i)
		}
		var recs [][]string
		for _, c := range g.r.Perm(dim * dim)[:g.intn(dim*dim+1)] {
			rec := []string{id(c / dim), id(c % dim)}
			if g.intn(3) != 0 {
				lv := fmtLevel(g)
				if g.intn(4) == 0 {
					// an explicit zero level: not stored, but its peers still count for the dimension
					lv = []string{"0", "0.0", "-0", "0e0"}[g.intn(4)]
					g.count("reader-zero-level")
				}
				rec = append(rec, lv)
			}
			recs = append(recs, rec)
		}
		if g.intn(6) == 0 {
			bad := [][]string{{id(0)}, {id(0), "stranger"}, {id(0), id(0), "abc"}, {"-1", "0", "1"}, {}}[g.intn(5)]
			if len(bad) > 0 {
				recs = append(recs, bad)
				g.count("reader-malformed")
			}
		}
		var idx map[string]int
		w := h.line(prop, "readlt").Bool(useNames)
		if useNames {
			idx = map[string]int{}
			for i, nm := range names {
				idx[nm] = i
			}
			var nr [][]string
			for _, nm := range names {
				nr = append(nr, []string{nm})
			}
			w.records(nr)
		}
		b := csvBytes(recs)
		parsed, okp := csvParseN(b, -1)
		w.records(parsed).Bool(okp).Bar()
		rd := csv.NewReader(bytes.NewReader(b))
		rd.FieldsPerRecord = -1
		var outM interface{ Dims() (int, int) }
		_ = outM
		pan := safely(func() {
			m, err := basic.ReadLocalTrustFromCsv(rd, idx)
			if err != nil {
				w.Str("err")
			} else {
				w.Str("ok").CSM(&m.CSMatrix)
			}
		})
		if pan != "" {
			w.Str("panic")
		}
		h.emit(w)
	}
}

// ---------------------------------------------------------------------------------------------
// C19 loopback pipeline: the real CLI binary against the real OpenAPI handlers served on
// 127.0.0.1 (the response body is recorded), output CSV parsed back.

type recorder struct {
	h    http.Handler
	mu   sync.Mutex
	last []byte
}

func (r *recorder) ServeHTTP(w http.ResponseWriter, req *http.Request) {
	rec := httptest.NewRecorder()
	r.h.ServeHTTP(rec, req)
	r.mu.Lock()
	r.last = append([]byte{}, rec.Body.Bytes()...)
	r.mu.Unlock()
	for k, v := range rec.Header() {
		w.Header()[k] = v
	}
	w.WriteHeader(rec.Code)
	w.Write(rec.Body.Bytes())
}

func runCliPipeline(h *H, prop string) {
	g := h.g
	exe := buildCLI(h)
	defer os.Remove(exe)
	work := filepath.Join(filepath.Dir(exe), "pipework")
	os.RemoveAll(work)
	os.MkdirAll(work, 0o755)
	defer os.RemoveAll(work)
	env := newOapiEnv()
	rc := &recorder{h: env.e}
	srv := httptest.NewServer(rc)
	defer srv.Close()
	n := h.budget(40, 600)
	for k := 0; k < n; k++ {
		var lt, pt [][]string
		alpha := ""
		if k == 0 { // the README transcript
			lt = [][]string{{"from", "to", "value"}, {"ek", "sd", "100"}, {"vm", "sd", "100"}, {"ek", "vm", "75"}}
			pt = [][]string{{"peer_id", "value"}, {"ek", "50"}, {"vm", "100"}}
		} else if k == 1 {
			lt = [][]string{{"from", "to", "value"}, {"ek", "sd", "100"}, {"vm", "sd", "100"}, {"ek", "vm", "75"}}
			pt = [][]string{{"peer_id", "value"}, {"ek", "50"}, {"vm", "100"}}
			alpha = "0.01"
		} else {
			dim := g.intn(5) + 2
			names := g.peerNamesWS(dim)
			lt = [][]string{{"from", "to", "value"}}
			for _, c := range g.r.Perm(dim * dim)[:g.intn(dim*dim)+1] {
				lt = append(lt, []string{names[c/dim], names[c%dim], fmtLevel(g)})
			}
			if g.intn(2) == 0 {
				pt = [][]string{{"peer_id", "value"}}
				for i := 0; i < dim; i++ {
					if g.intn(2) == 0 {
						pt = append(pt, []string{names[i], fmtLevel(g)})
					}
				}
				if len(pt) == 1 {
					pt = append(pt, []string{names[0], "1"})
				}
			}
			if g.intn(3) == 0 {
				alpha = []string{"0.2", "0.9", "1"}[g.intn(3)]
			}
			if k%4 == 3 && dim >= 3 {
				// a peer reached only through a FAINT arc (weights eight and more orders of magnitude apart), not
				// pre-trusted, and one distrusted faintly: scores far below 1e-7, also negative ones - the score
				// column must still carry them exactly
				faint := g.pick("1e-9", "3e-12", "7.5e-10", "1.25e-8")
				lt = [][]string{{"from", "to", "value"},
					{names[0], names[1], fmtLevel(g)}, {names[0], names[2], faint},
					{names[1], names[0], fmtLevel(g)}, {names[2], names[0], "1"}}
				if dim >= 4 {
					lt = append(lt, []string{names[1], names[3], "-" + g.pick("1e-9", "2.5e-11")}, []string{names[3], names[0], "1"})
				}
				pt = [][]string{{"peer_id", "value"}, {names[0], "1"}}
				g.count("pipeline:faint-arcs")
			}
		}
		ltF, ptF, outF := filepath.Join(work, "lt.csv"), filepath.Join(work, "pt.csv"), filepath.Join(work, "out.csv")
		os.Remove(outF)
		os.WriteFile(ltF, csvBytes(lt), 0o644)
		args := []string{"basic", "compute", "-H", srv.URL + "/basic/v1", "-l", ltF, "-o", outF}
		if pt != nil {
			os.WriteFile(ptF, csvBytes(pt), 0o644)
			args = append(args, "-p", ptF)
		}
		if alpha != "" {
			args = append(args, "-a", alpha)
		}
		rc.mu.Lock()
		rc.last = nil
		rc.mu.Unlock()
		cmd := exec.Command(exe, args...)
		var stderr bytes.Buffer
		cmd.Stderr = &stderr
		err := cmd.Run()
		w := h.line(prop, "pipeline").records(lt).Str("pt").Bool(pt != nil)
		if pt != nil {
			w.records(pt)
		}
		af := 0.5
		if alpha != "" {
			af, _ = strconv.ParseFloat(alpha, 64)
		}
		w.F(af).Bar()
		outB, rerr := os.ReadFile(outF)
		var resp struct {
			EigenTrust struct {
				Entries []struct {
					I int     `json:"i"`
					V float64 `json:"v"`
				} `json:"entries"`
			} `json:"eigenTrust"`
		}
		rc.mu.Lock()
		body := rc.last
		rc.mu.Unlock()
		switch {
		case strings.Contains(stderr.String(), "panic:"):
			w.Str("panic")
		case err != nil || rerr != nil || json.Unmarshal(body, &resp) != nil:
			w.Str("err")
		default:
			recs, _ := csvParse(outB)
			w.Str("ok").Int(len(recs))
			for _, r := range recs {
				v := -1.0
				if len(r) >= 2 {
					if f, e := strconv.ParseFloat(r[1], 64); e == nil {
						v = f
					}
				}
				nm := ""
				if len(r) >= 1 {
					nm = r[0]
				}
				w.Str(hexStr(nm)).F(v)
			}
			w.Int(len(resp.EigenTrust.Entries))
			for _, e := range resp.EigenTrust.Entries {
				w.Int(e.I).F(e.V)
			}
		}
		h.emit(w)
	}
}
