package main

// Structured generators (DESIGN.md 4.2).  Every random choice comes from one PRNG seeded by
// VERIF_SEED; shape classes are counted into the evidence so starvation is visible.

import (
	"math"
	"math/rand"
	"sort"

	"k3l.io/go-eigentrust/pkg/sparse"
)

type G struct {
	r      *rand.Rand
	shapes map[string]int
}

func newG(seed int64) *G { return &G{r: rand.New(rand.NewSource(seed)), shapes: map[string]int{}} }

func (g *G) count(class string) { g.shapes[class]++ }

func (g *G) intn(n int) int {
	if n <= 0 {
		return 0
	}
	return g.r.Intn(n)
}

func (g *G) pick(xs ...string) string { return xs[g.intn(len(xs))] }

// value classes
func (g *G) value(class string) float64 {
	switch class {
	case "ordinary":
		return math.Round(g.r.NormFloat64()*1000) / 64
	case "positive":
		return float64(g.intn(1000)+1) / 16
	case "pow2":
		return math.Ldexp(1, g.intn(80)-40)
	case "wide":
		return math.Ldexp(1+g.r.Float64(), g.intn(200)-100)
	case "huge":
		return (1 + g.r.Float64()) * 1e300
	case "tiny":
		return (1 + g.r.Float64()) * 1e-300
	case "denormal":
		return math.Float64frombits(uint64(g.intn(1<<20) + 1))
	case "random":
		return g.r.Float64()*2 - 1
	case "negative":
		return -float64(g.intn(1000)+1) / 16
	case "zero":
		return 0
	}
	return g.r.Float64()
}

var valueClasses = []string{"ordinary", "positive", "pow2", "wide", "random", "negative"}

func (g *G) valueClass() string { return valueClasses[g.intn(len(valueClasses))] }

// sorted distinct indices in [0,dim)
func (g *G) support(dim, n int) []int {
	if n > dim {
		n = dim
	}
	p := g.r.Perm(dim)[:n]
	sort.Ints(p)
	return p
}

func (g *G) vecOn(dim int, idx []int, class string) *sparse.Vector {
	v := &sparse.Vector{Dim: dim}
	for _, i := range idx {
		v.Entries = append(v.Entries, sparse.Entry{Index: i, Value: g.value(class)})
	}
	return v
}

func (g *G) vec(dim int) *sparse.Vector {
	n := g.intn(dim + 1)
	cls := g.valueClass()
	return g.vecOn(dim, g.support(dim, n), cls)
}

// pair of vectors of equal dimension with a chosen support relation
func (g *G) vecPair() (*sparse.Vector, *sparse.Vector, string) {
	dim := g.intn(12) + 1
	rel := g.pick("disjoint", "nested", "interleaved", "identical", "empty1", "empty2", "bothempty",
		"single0", "singlelast", "random", "cancel", "explicitzero", "extreme")
	c1, c2 := g.valueClass(), g.valueClass()
	var v1, v2 *sparse.Vector
	switch rel {
	case "disjoint":
		p := g.r.Perm(dim)
		k := g.intn(dim + 1)
		a, b := append([]int{}, p[:k]...), append([]int{}, p[k:]...)
		if len(b) > 0 {
			b = b[:g.intn(len(b)+1)]
		}
		sort.Ints(a)
		sort.Ints(b)
		v1, v2 = g.vecOn(dim, a, c1), g.vecOn(dim, b, c2)
	case "nested":
		a := g.support(dim, g.intn(dim+1))
		var b []int
		for _, i := range a {
			if g.intn(2) == 0 {
				b = append(b, i)
			}
		}
		v1, v2 = g.vecOn(dim, a, c1), g.vecOn(dim, b, c2)
		if g.intn(2) == 0 {
			v1, v2 = v2, v1
		}
	case "interleaved":
		var a, b []int
		for i := 0; i < dim; i++ {
			if i%2 == 0 {
				a = append(a, i)
			} else {
				b = append(b, i)
			}
		}
		v1, v2 = g.vecOn(dim, a, c1), g.vecOn(dim, b, c2)
	case "identical":
		a := g.support(dim, g.intn(dim+1))
		v1, v2 = g.vecOn(dim, a, c1), g.vecOn(dim, a, c2)
	case "empty1":
		v1, v2 = g.vecOn(dim, nil, c1), g.vec(dim)
	case "empty2":
		v1, v2 = g.vec(dim), g.vecOn(dim, nil, c2)
	case "bothempty":
		v1, v2 = g.vecOn(dim, nil, c1), g.vecOn(dim, nil, c2)
	case "single0":
		v1, v2 = g.vecOn(dim, []int{0}, c1), g.vec(dim)
	case "singlelast":
		v1, v2 = g.vec(dim), g.vecOn(dim, []int{dim - 1}, c2)
	case "cancel":
		a := g.support(dim, g.intn(dim+1))
		v1 = g.vecOn(dim, a, c1)
		v2 = cloneVec(v1)
		for i := range v2.Entries {
			switch g.intn(3) {
			case 0:
				v2.Entries[i].Value = -v2.Entries[i].Value
			case 1:
				v2.Entries[i].Value = -v2.Entries[i].Value * (1 + math.Ldexp(1, -g.intn(52)-1))
			}
		}
	case "explicitzero":
		v1, v2 = g.vec(dim), g.vec(dim)
		if len(v1.Entries) > 0 {
			v1.Entries[g.intn(len(v1.Entries))].Value = 0
		}
		if len(v2.Entries) > 0 && g.intn(2) == 0 {
			v2.Entries[g.intn(len(v2.Entries))].Value = 0
		}
	case "extreme":
		a, b := g.support(dim, g.intn(dim+1)), g.support(dim, g.intn(dim+1))
		v1, v2 = g.vecOn(dim, a, g.pick("tiny", "denormal", "wide")), g.vecOn(dim, b, g.pick("tiny", "denormal", "wide"))
	default:
		v1, v2 = g.vec(dim), g.vec(dim)
	}
	g.count("support:" + rel)
	return v1, v2, rel
}

// ill-conditioned value lists on which a naive sum violates the KBN bound
func (g *G) illConditioned(n int) []float64 {
	var xs []float64
	switch g.intn(4) {
	case 0:
		xs = []float64{1e16, 1, -1e16}
	case 1:
		big := math.Ldexp(1+g.r.Float64(), 60+g.intn(40))
		xs = []float64{big, g.r.Float64(), g.r.Float64(), -big}
	case 2:
		for i := 0; i < n; i++ {
			x := math.Ldexp(1+g.r.Float64(), g.intn(120)-60)
			xs = append(xs, x, -x*(1+math.Ldexp(1, -g.intn(50)-2)))
		}
	default:
		x := math.Ldexp(1, 53+g.intn(10))
		xs = []float64{x}
		for i := 0; i < n; i++ {
			xs = append(xs, 1)
		}
		xs = append(xs, -x)
	}
	g.r.Shuffle(len(xs), func(i, j int) {
		if g.intn(3) == 0 {
			xs[i], xs[j] = xs[j], xs[i]
		}
	})
	return xs
}

func (g *G) vecFromValues(xs []float64, extraDim int) *sparse.Vector {
	dim := len(xs) + extraDim
	idx := g.support(dim, len(xs))
	v := &sparse.Vector{Dim: dim}
	for k, i := range idx {
		v.Entries = append(v.Entries, sparse.Entry{Index: i, Value: xs[k]})
	}
	return v
}

// random CSR matrix rows x cols with the given density; rows strictly sorted
func (g *G) csm(rows, cols int, class string) *sparse.CSMatrix {
	m := &sparse.CSMatrix{MajorDim: rows, MinorDim: cols}
	if rows > 0 {
		m.Entries = make([][]sparse.Entry, rows)
	}
	dens := g.intn(4)
	for i := 0; i < rows; i++ {
		var n int
		switch dens {
		case 0:
			n = g.intn(2)
		case 1:
			n = g.intn(cols/2 + 1)
		default:
			n = g.intn(cols + 1)
		}
		if g.intn(6) == 0 {
			n = 0
		}
		for _, j := range g.support(cols, n) {
			m.Entries[i] = append(m.Entries[i], sparse.Entry{Index: j, Value: g.value(class)})
		}
	}
	return m
}

func (g *G) coos(rows, cols int, class string, zeroFrac int) []sparse.CooEntry {
	var es []sparse.CooEntry
	if rows == 0 || cols == 0 {
		return es
	}
	n := g.intn(rows*cols + 1)
	cells := g.r.Perm(rows * cols)[:n]
	for _, c := range cells {
		v := g.value(class)
		if zeroFrac > 0 && g.intn(zeroFrac) == 0 {
			v = 0
		}
		es = append(es, sparse.CooEntry{Row: c / cols, Column: c % cols, Value: v})
	}
	return es
}

// vecPairBig: operands of very different (or similar) LARGE lengths - the sizes at which an implementation may switch
// to another strategy (searching the longer operand, block-wise merging): a long operand with 32..600 stored entries
// and a short one with 1..12, whose indices hit and miss the long support in every alignment (a miss directly
// followed by a hit, a short index before the first / after the last long index, runs of hits).
func (g *G) vecPairBig() (*sparse.Vector, *sparse.Vector) {
	dim := 40 + g.intn(700)
	nLong := 32 + g.intn(dim-31)
	long := g.vecOn(dim, g.support(dim, nLong), g.pick("positive", "ordinary", "positive"))
	var short *sparse.Vector
	switch mode := g.pick("skew", "skew", "skew-adjacent", "similar", "single"); mode {
	case "skew":
		short = g.vecOn(dim, g.support(dim, 1+g.intn(12)), g.pick("positive", "ordinary"))
	case "skew-adjacent": // runs of adjacent indices: a miss is followed at once by a possible hit
		start := g.intn(dim)
		var idx []int
		for i := start; i < dim && len(idx) < 2+g.intn(8); i++ {
			idx = append(idx, i)
		}
		short = g.vecOn(dim, idx, "positive")
	case "similar":
		short = g.vecOn(dim, g.support(dim, nLong/2+g.intn(nLong/2+1)), g.pick("positive", "ordinary"))
	default:
		short = g.vecOn(dim, []int{g.intn(dim)}, "positive")
	}
	g.count("bigpair")
	if g.intn(2) == 0 {
		return short, long
	}
	return long, short
}

func (g *G) pick2(a, b int) int {
	if g.intn(2) == 0 {
		return a
	}
	return b
}
