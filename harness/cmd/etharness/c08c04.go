package main

// C08 (ExtractDistrust / DiscountTrustVector) and C04 (canonicalisers) on the real pkg/basic.

import (
	"errors"
	"math"

	"k3l.io/go-eigentrust/pkg/basic"
	"k3l.io/go-eigentrust/pkg/sparse"
)

// square matrix with a chosen sign pattern
func (g *G) signedCSM(dim int) (*sparse.CSMatrix, string) {
	pat := g.pick("mixed", "allneg-row", "alternating", "negfirst", "zeros", "emptyrows", "allpos", "allneg")
	m := g.csm(dim, dim, "positive")
	for i := range m.Entries {
		for j := range m.Entries[i] {
			e := &m.Entries[i][j]
			switch pat {
			case "mixed":
				if g.intn(2) == 0 {
					e.Value = -e.Value
				}
			case "allneg-row":
				if i%2 == 0 {
					e.Value = -e.Value
				}
			case "alternating":
				if j%2 == 0 {
					e.Value = -e.Value
				}
			case "negfirst":
				if j == 0 {
					e.Value = -e.Value
				}
			case "zeros":
				switch g.intn(3) {
				case 0:
					e.Value = 0
				case 1:
					e.Value = -e.Value
				}
			case "emptyrows":
				if g.intn(2) == 0 {
					e.Value = -e.Value
				}
			case "allneg":
				e.Value = -e.Value
			}
		}
		if pat == "emptyrows" && g.intn(2) == 0 {
			m.Entries[i] = nil
		}
	}
	g.count("sign:" + pat)
	return m, pat
}

func runC08(h *H) {
	g := h.g
	n := h.budget(3000, 200000)
	// the two pinned test examples are corpus seeds
	{
		lt := sparse.NewCSRMatrix(3, 3, []sparse.CooEntry{{0, 0, 100}, {0, 1, -50}, {0, 2, -50}, {2, 0, -100}, {2, 1, 100}}, false)
		in := cloneCSR(lt)
		d, err := basic.ExtractDistrust(in)
		w := h.line("C08", "extract").CSM(&lt.CSMatrix).Bar()
		if err != nil {
			w.Str("err")
		} else {
			w.Str("ok").CSM(&in.CSMatrix).CSM(&d.CSMatrix)
		}
		h.emit(w)
	}
	for k := 0; k < n; k++ {
		if k%2 == 0 {
			dim := g.intn(8) + 1
			m, _ := g.signedCSM(dim)
			if g.intn(15) == 0 {
				m.MinorDim++
				g.count("nonsquare")
			}
			in := &sparse.Matrix{CSMatrix: *cloneCSM(m)}
			d, err := basic.ExtractDistrust(in)
			w := h.line("C08", "extract").CSM(m).Bar()
			if err != nil {
				w.Str("err")
			} else {
				w.Str("ok").CSM(&in.CSMatrix).CSM(&d.CSMatrix)
			}
			h.emit(w)
		} else {
			dim := g.intn(8) + 1
			// distrust matrix: positive, row-normalised as the pipeline does
			d := g.csm(dim, dim, "positive")
			dm := &sparse.Matrix{CSMatrix: *d}
			if g.intn(3) != 0 {
				_ = basic.CanonicalizeLocalTrust(dm, nil)
			}
			// score vector with zero-score distrusters before / between / after scored ones
			var t *sparse.Vector
			pat := g.pick("random", "prefix", "suffix", "middle", "single", "empty", "full", "explicitzero")
			switch pat {
			case "prefix":
				k := g.intn(dim + 1)
				idx := make([]int, 0)
				for i := 0; i < k; i++ {
					idx = append(idx, i)
				}
				t = g.vecOn(dim, idx, "positive")
			case "suffix":
				k := g.intn(dim + 1)
				idx := make([]int, 0)
				for i := dim - k; i < dim; i++ {
					idx = append(idx, i)
				}
				t = g.vecOn(dim, idx, "positive")
			case "middle":
				idx := make([]int, 0)
				for i := dim / 3; i < dim-dim/3; i++ {
					idx = append(idx, i)
				}
				t = g.vecOn(dim, idx, "positive")
			case "single":
				t = g.vecOn(dim, []int{g.intn(dim)}, "positive")
			case "empty":
				t = g.vecOn(dim, nil, "positive")
			case "full":
				idx := make([]int, dim)
				for i := range idx {
					idx[i] = i
				}
				t = g.vecOn(dim, idx, "positive")
			case "explicitzero":
				t = g.vec(dim)
				for i := range t.Entries {
					if g.intn(2) == 0 {
						t.Entries[i].Value = 0
					} else {
						t.Entries[i].Value = math.Abs(t.Entries[i].Value)
					}
				}
			default:
				t = g.vec(dim)
				for i := range t.Entries {
					t.Entries[i].Value = math.Abs(t.Entries[i].Value)
				}
			}
			g.count("scores:" + pat)
			basic.CanonicalizeTrustVector(t)
			if pat == "empty" || pat == "explicitzero" { // keep genuinely sparse / zero scores
				if pat == "empty" {
					t = &sparse.Vector{Dim: dim}
				}
			}
			in := cloneVec(t)
			din := cloneCSR(dm)
			if err := basic.DiscountTrustVector(in, din); err != nil {
				panic(err)
			}
			h.emit(h.line("C08", "discount").Vec(t).CSM(&dm.CSMatrix).Bar().Vec(in))
		}
	}
}

func runC04(h *H) {
	g := h.g
	n := h.budget(3000, 200000)
	for k := 0; k < n; k++ {
		switch k % 3 {
		case 0:
			v := g.vec(g.intn(10) + 1)
			cls := g.pick("asis", "zerosum", "negsum", "cancel", "empty", "stored-zeros", "single")
			switch cls {
			case "stored-zeros":
				// only explicitly stored zeros (one, two or three of them): the sum is zero although entries exist
				v.Entries = v.Entries[:min(len(v.Entries), g.intn(3)+1)]
				for i := range v.Entries {
					v.Entries[i].Value = 0
				}
			case "single":
				v.Entries = v.Entries[:min(len(v.Entries), 1)]
				if len(v.Entries) == 1 && g.intn(3) == 0 {
					v.Entries[0].Value = -v.Entries[0].Value
				}
			case "zerosum":
				if len(v.Entries) >= 2 {
					s := 0.0
					for i := 1; i < len(v.Entries); i++ {
						v.Entries[i].Value = float64(g.intn(64) - 32)
						s += v.Entries[i].Value
					}
					v.Entries[0].Value = -s
				}
			case "negsum":
				for i := range v.Entries {
					v.Entries[i].Value = -math.Abs(v.Entries[i].Value)
				}
			case "cancel":
				xs := g.illConditioned(g.intn(4) + 1)
				v = g.vecFromValues(xs, 0)
			case "empty":
				v.Entries = nil
			}
			g.count("canon:" + cls)
			in := append([]sparse.Entry{}, v.Entries...)
			err := basic.Canonicalize(in)
			w := h.line("C04", "canon").Entries(v.Entries).Bar()
			if errors.Is(err, sparse.ErrZeroSum) {
				// entries must be untouched
				same := vecEqualBits(&sparse.Vector{Entries: in}, &sparse.Vector{Entries: v.Entries})
				if same {
					w.Str("zerosum")
				} else {
					w.Str("ok").Entries(in) // report the (wrongly) modified entries: the driver will flag it
				}
			} else {
				w.Str("ok").Entries(in)
			}
			h.emit(w)
		case 1: // CanonicalizeLocalTrust with empty / zero-sum / negative-sum rows at every position
			dim := g.intn(7) + 1
			m := g.csm(dim, dim, g.pick("positive", "ordinary", "pow2"))
			for i := range m.Entries {
				switch g.intn(6) {
				case 0:
					m.Entries[i] = nil
				case 5:
					// a row that stores only explicit zeros (a single one most of the time)
					if len(m.Entries[i]) > 0 {
						m.Entries[i] = m.Entries[i][:min(len(m.Entries[i]), g.intn(2)+1)]
						for j := range m.Entries[i] {
							m.Entries[i][j].Value = 0
						}
						g.count("row:stored-zeros")
					}
				case 1:
					if len(m.Entries[i]) >= 2 {
						s := 0.0
						for j := 1; j < len(m.Entries[i]); j++ {
							m.Entries[i][j].Value = float64(g.intn(64) - 32)
							s += m.Entries[i][j].Value
						}
						m.Entries[i][0].Value = -s
					}
				}
			}
			if g.intn(3) == 0 { // last row zero
				m.Entries[dim-1] = nil
				g.count("lastrow:empty")
			}
			hasP := g.intn(3) != 0
			var p *sparse.Vector
			w := h.line("C04", "canonlt").CSM(m)
			if hasP {
				p = g.vec(dim)
				for i := range p.Entries {
					p.Entries[i].Value = math.Abs(p.Entries[i].Value) + 1
				}
				basic.CanonicalizeTrustVector(p)
				if g.intn(12) == 0 {
					p.Dim++
					g.count("pdim-mismatch")
				}
				w.Int(1).Vec(p)
			} else {
				w.Int(0)
			}
			if g.intn(15) == 0 {
				m.MinorDim++ // non-square; line already encoded the square one, so re-encode
				w = h.relined(w, "C04", "canonlt").CSM(m)
				if hasP {
					w.Int(1).Vec(p)
				} else {
					w.Int(0)
				}
				g.count("nonsquare")
			}
			in := &sparse.Matrix{CSMatrix: *cloneCSM(m)}
			var pin *sparse.Vector
			if hasP {
				pin = cloneVec(p)
			}
			err := basic.CanonicalizeLocalTrust(in, pin)
			w.Bar()
			if err != nil {
				w.Str("err")
			} else {
				w.Str("ok").CSM(&in.CSMatrix)
			}
			h.emit(w)
		default:
			v := g.vec(g.intn(10) + 1)
			if g.intn(3) == 0 {
				v.Entries = nil
				g.count("tv:zero")
			} else if g.intn(5) == 0 && len(v.Entries) >= 1 {
				v.Entries = v.Entries[:min(len(v.Entries), g.intn(2)+1)]
				for i := range v.Entries {
					v.Entries[i].Value = 0
				}
				g.count("tv:stored-zeros")
			} else if g.intn(4) == 0 && len(v.Entries) >= 2 {
				s := 0.0
				for i := 1; i < len(v.Entries); i++ {
					v.Entries[i].Value = float64(g.intn(64) - 32)
					s += v.Entries[i].Value
				}
				v.Entries[0].Value = -s
				g.count("tv:zerosum")
			}
			in := cloneVec(v)
			basic.CanonicalizeTrustVector(in)
			h.emit(h.line("C04", "canontv").Vec(v).Bar().Vec(in))
		}
	}
}
