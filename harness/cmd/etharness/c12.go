package main

// C12: swap-out (Mmap) is transparent, really off-heap, and leak-free.
// Observes process resources after every call: files in a private TMPDIR, lines of /proc/self/maps
// that name the swap file, and the address of every row's backing array relative to the mapping
// (`mapped` is read through reflect+unsafe; no hook).  Faults injectable without hooks:
// missing / read-only TMPDIR, zero non-zeros, cancellation at the k-th row.

import (
	"context"
	"fmt"
	trustmatrixpb "k3l.io/go-eigentrust/pkg/api/pb/trustmatrix"
	"os"
	"path/filepath"
	"reflect"
	"runtime"
	"strings"
	"time"
	"unsafe"

	"k3l.io/go-eigentrust/pkg/sparse"
)

// matrices found damaged are kept reachable so that the GC never runs their finalizer
var graveyard []*sparse.CSMatrix

func mappedRange(m *sparse.CSMatrix) (uintptr, uintptr, bool) {
	f := reflect.ValueOf(m).Elem().FieldByName("mapped")
	if !f.IsValid() || f.Len() == 0 {
		return 0, 0, f.IsValid() && !f.IsNil()
	}
	b := *(*[]byte)(unsafe.Pointer(f.UnsafeAddr()))
	start := uintptr(unsafe.Pointer(&b[0]))
	return start, start + uintptr(len(b)), true
}

func isMapped(m *sparse.CSMatrix) bool {
	f := reflect.ValueOf(m).Elem().FieldByName("mapped")
	return f.IsValid() && !f.IsNil()
}

// number of non-empty rows, and how many of them live inside the current mapping
func rowResidency(m *sparse.CSMatrix) (nonEmpty, inMap int) {
	lo, hi, _ := mappedRange(m)
	for _, r := range m.Entries {
		if len(r) == 0 {
			continue
		}
		nonEmpty++
		p := uintptr(unsafe.Pointer(unsafe.SliceData(r)))
		if lo != 0 && p >= lo && p+uintptr(len(r))*unsafe.Sizeof(sparse.Entry{}) <= hi {
			inMap++
		}
	}
	return
}

func swapMapLines() int {
	b, err := os.ReadFile("/proc/self/maps")
	if err != nil {
		return -1
	}
	n := 0
	for _, l := range strings.Split(string(b), "\n") {
		if strings.Contains(l, "eigentrust-server-csmatrix.") {
			n++
		}
	}
	return n
}

func tmpFiles(dir string) int {
	es, err := os.ReadDir(dir)
	if err != nil {
		return -1
	}
	return len(es)
}

func gcSettle() {
	for i := 0; i < 3; i++ {
		runtime.GC()
		time.Sleep(2 * time.Millisecond)
	}
}

func runC12(h *H) {
	runC12As(h, "C12", h.budget(150, 1500), false)
	runC12Server(h, h.budget(40, 600))
}

// runC12Server: histories on the SERVERS' stores ("servers swap out after every update"): replace / merge / delete /
// read of stored local trust through the OpenAPI handlers and through the gRPC trust-matrix service.  After every call
// (and a GC, since replaced matrices are released by their finalizer) the process may hold at most one swap-file
// mapping per stored matrix and no temporary file; after deleting everything and dropping the server, none.
//
//	C12 srv <oapi|grpc> <nsteps> ( <op> <id> | <code> <stored> <maplines> <tmpfiles> )* end <leakedMaps> <tmpfiles>
func runC12Server(h *H, nh int) {
	g := h.g
	bdir := os.Getenv("VERIF_BUILD")
	if bdir == "" {
		bdir = "/verif/.build"
	}
	tmp := filepath.Join(bdir, "swaptmp-srv")
	os.RemoveAll(tmp)
	os.MkdirAll(tmp, 0o755)
	defer os.RemoveAll(tmp)
	oldTmp := os.Getenv("TMPDIR")
	os.Setenv("TMPDIR", tmp)
	defer os.Setenv("TMPDIR", oldTmp)
	wd := 20 * time.Second
	ids := []string{"a", "b"}
	settleTo := func(base, want int) int {
		gcSettle()
		for dl := time.Now().Add(3 * time.Second); swapMapLines()-base > want && time.Now().Before(dl); {
			gcSettle()
		}
		return swapMapLines() - base
	}
	for k := 0; k < nh; k++ {
		gcSettle()
		gcSettle()
		base := swapMapLines()
		kind := "oapi"
		if k%3 == 2 {
			kind = "grpc"
		}
		steps := g.intn(h.budget(10, 40)) + 2
		w := &W{}
		stored := map[string]bool{}
		done := 0
		if kind == "oapi" {
			env := newOapiEnv()
			for s := 0; s < steps; s++ {
				done++
				id := ids[g.intn(len(ids))]
				op := g.pick("put", "put", "put", "merge", "merge", "delete", "get", "put-empty", "compute")
				var res httpRes
				switch op {
				case "put", "put-empty", "merge":
					m := g.inlineMatrix(g.intn(5)+1, false)
					if op == "put-empty" {
						m = mRef{kind: "inline", size: g.intn(4) + 1}
					}
					path := "/local-trust/" + id
					if op == "merge" {
						path += "?merge=true"
					}
					res = env.do("PUT", path, mustJSON(m.json()), wd)
					if res.status == 200 || res.status == 201 {
						stored[id] = true
					}
				case "delete":
					res = env.do("DELETE", "/local-trust/"+id, nil, wd)
					if res.status >= 200 && res.status < 300 {
						delete(stored, id)
					}
				case "get":
					res = env.do("GET", "/local-trust/"+id, nil, wd)
				case "compute":
					r := g.validOReq(false)
					r.lt = mRef{kind: "stored", id: id}
					res = env.compute(r, wd)
				}
				g.count("srv-op:" + op)
				code := fmt.Sprint(res.status)
				if res.outcome != "" {
					code = res.outcome
				}
				maps := settleTo(base, len(stored))
				w.Str(op).Str(id).Bar().Str(code).Int(len(stored)).Int(maps).Int(tmpFiles(tmp))
			}
			for id := range stored {
				env.do("DELETE", "/local-trust/"+id, nil, wd)
			}
			env = nil
		} else {
			env := newGrpcEnv()
			for s := 0; s < steps; s++ {
				done++
				id := ids[g.intn(len(ids))]
				op := g.pick("create", "update", "update", "update", "flush", "delete", "get")
				ctx, cancel := context.WithTimeout(context.Background(), wd)
				var err error
				switch op {
				case "create":
					_, err = env.tm.Create(ctx, &trustmatrixpb.CreateRequest{Id: id})
					if err == nil {
						stored[id] = true
					}
				case "update":
					var es []*trustmatrixpb.Entry
					for i := g.intn(6); i >= 0; i-- {
						es = append(es, &trustmatrixpb.Entry{Truster: fmt.Sprint(g.intn(5)), Trustee: fmt.Sprint(g.intn(5)), Value: float64(g.intn(9)) / 2})
					}
					_, err = env.tm.Update(ctx, &trustmatrixpb.UpdateRequest{Header: &trustmatrixpb.Header{Id: &id, TimestampQwords: []uint64{uint64(s + 1)}}, Entries: es})
				case "flush":
					_, err = env.tm.Flush(ctx, &trustmatrixpb.FlushRequest{Id: id})
				case "delete":
					_, err = env.tm.Delete(ctx, &trustmatrixpb.DeleteRequest{Id: id})
					if err == nil {
						delete(stored, id)
					}
				case "get":
					if st, e := env.tm.Get(ctx, &trustmatrixpb.GetRequest{Id: id}); e != nil {
						err = e
					} else {
						for {
							if _, e := st.Recv(); e != nil {
								break
							}
						}
					}
				}
				cancel()
				g.count("srv-op:grpc-" + op)
				maps := settleTo(base, len(stored))
				w.Str(op).Str(id).Bar().Str(codeTok(err)).Int(len(stored)).Int(maps).Int(tmpFiles(tmp))
			}
			cctx, cancel := context.WithTimeout(context.Background(), wd)
			for id := range stored {
				_, _ = env.tm.Delete(cctx, &trustmatrixpb.DeleteRequest{Id: id})
			}
			cancel()
			env.close()
			env = nil
		}
		leaked := settleTo(base, 0)
		h.n++
		lw := (&W{}).Str(fmt.Sprintf("C12-%d", h.n)).Str("C12").Str("srv")
		h.emit(lw.Str(kind).Int(done).Str(w.String()).Str("end").Int(leaked).Int(tmpFiles(tmp)))
	}
}

// runC12As runs swap-out histories; for C07 (cancellation of Mmap must leave the matrix intact) the operations
// are biased towards swap-out / modification / cancelled swap-out and the case ids carry the C07 prefix
// (the lines are still judged by the swap-out model: property token C12).
func runC12As(h *H, idPrefix string, nh int, cancelBias bool) {
	g := h.g
	bdir := os.Getenv("VERIF_BUILD")
	if bdir == "" {
		bdir = "/verif/.build"
	}
	tmp := filepath.Join(bdir, "swaptmp")
	os.RemoveAll(tmp)
	os.MkdirAll(tmp, 0o755)
	defer os.RemoveAll(tmp)
	oldTmp := os.Getenv("TMPDIR")
	os.Setenv("TMPDIR", tmp)
	defer os.Setenv("TMPDIR", oldTmp)
	gcSettle()
	for k := 0; k < nh; k++ {
		gcSettle()
		baseMaps := swapMapLines()
		rows, cols := g.intn(6)+1, g.intn(6)+1
		m0 := g.csm(rows, cols, g.valueClass())
		if g.intn(6) == 0 { // zero non-zeros
			for i := range m0.Entries {
				m0.Entries[i] = nil
			}
			g.count("zero-nnz")
		}
		cur := newFinalizable(m0)
		steps := g.intn(h.budget(10, 40)) + 2
		w := &W{}
		done := 0
		for s := 0; s < steps; s++ {
			done++
			op := g.pick("mmap", "mmap", "mmap", "munmap", "munmap", "merge", "mergeinto", "setdim", "shrinkcols", "shrinkcols", "reset", "gc", "mmap-cancel", "mmap-notmpdir", "mmap-rotmpdir")
			if cancelBias {
				op = g.pick("mmap", "mmap", "mmap-cancel", "mmap-cancel", "mmap-cancel", "merge", "mergeinto", "shrinkcols", "munmap", "setdim")
			}
			g.count("op:" + op)
			status := "ok"
			pan := safely(func() {
				switch op {
				case "mmap":
					if err := cur.Mmap(context.Background()); err != nil {
						status = "err"
					}
				case "mmap-cancel":
					kk := g.intn(len(cur.Entries)+2) + 1
					if err := cur.Mmap(newCountingCtx(kk)); err == context.Canceled {
						status = "ctxerr"
					} else if err != nil {
						status = "err"
					}
					w.Str("mmap-cancel").Int(kk)
					op = ""
				case "mmap-notmpdir":
					os.Setenv("TMPDIR", filepath.Join(tmp, "does-not-exist"))
					if err := cur.Mmap(context.Background()); err != nil {
						status = "err"
					}
					os.Setenv("TMPDIR", tmp)
				case "mmap-rotmpdir": // TMPDIR names a regular file: CreateTemp fails with ENOTDIR (root ignores dir modes)
					notdir := filepath.Join(bdir, "swaptmp-file")
					os.WriteFile(notdir, []byte("x"), 0o644)
					os.Setenv("TMPDIR", notdir)
					if err := cur.Mmap(context.Background()); err != nil {
						status = "err"
					}
					os.Setenv("TMPDIR", tmp)
					os.Remove(notdir)
				case "munmap":
					if err := cur.Munmap(); err != nil {
						status = "err"
					}
				case "merge": // merge an update into the (possibly swapped-out) matrix
					u := g.updateCSM(g.intn(6)+1, g.intn(6)+1)
					w.Str("merge").CSM(u)
					op = ""
					cur.Merge(cloneCSM(u))
				case "mergeinto": // merge the (possibly swapped-out) matrix into a fresh one
					t := g.csm(g.intn(6)+1, g.intn(6)+1, "positive")
					w.Str("mergeinto").CSM(t)
					op = ""
					t2 := newFinalizable(t)
					t2.Merge(cur)
					cur = t2
				case "setdim":
					r, c := g.intn(7), g.intn(7)
					w.Str("setdim").Int(r).Int(c)
					op = ""
					cur.SetMajorDim(r)
					cur.SetMinorDim(c)
				case "shrinkcols": // truncate rows in place (inside the mapping when swapped out), keep the row count
					c := 0
					if cur.MinorDim > 1 {
						c = 1 + g.intn(cur.MinorDim-1)
					}
					w.Str("setdim").Int(cur.MajorDim).Int(c)
					op = ""
					cur.SetMinorDim(c)
				case "reset":
					cur.Reset()
				case "gc":
					gcSettle()
				}
			})
			if op != "" {
				w.Str(op)
			}
			if pan != "" {
				w.Bar().Str("panic")
				break
			}
			obs := &W{}
			pan2 := safely(func() {
				nonEmpty, inMap := rowResidency(cur)
				obs.Str(status).CSM(cur).Bool(isMapped(cur)).Int(nonEmpty).Int(inMap).Int(tmpFiles(tmp)).Int(swapMapLines() - baseMaps)
			})
			if pan2 != "" { // reading the matrix faulted (e.g. a row points into an unmapped region)
				w.Bar().Str("panic")
				graveyard = append(graveyard, cur) // keep the damaged matrix reachable: its finalizer would fault
				cur = &sparse.CSMatrix{}
				break
			}
			w.Bar().Str(obs.String())
		}
		// drop the matrix: the finalizer must release the mapping
		cur = nil
		gcSettle()
		gcSettle()
		// finalizers run asynchronously: give them up to 5 s before calling it a leak
		for dl := time.Now().Add(5 * time.Second); swapMapLines()-baseMaps > 0 && time.Now().Before(dl); {
			gcSettle()
		}
		leakedMaps := swapMapLines() - baseMaps
		h.n++
		lw := (&W{}).Str(fmt.Sprintf("%s-%d", idPrefix, h.n)).Str("C12").Str("hist")
		h.emit(lw.CSM(m0).Int(done).Str(w.String()).Str("end").Int(leakedMaps).Int(tmpFiles(tmp)))
	}
}

// a matrix built by the library constructor (so that its finalizer is installed)
func newFinalizable(m *sparse.CSMatrix) *sparse.CSMatrix {
	var coos []sparse.CooEntry
	for i, r := range m.Entries {
		for _, e := range r {
			coos = append(coos, sparse.CooEntry{Row: i, Column: e.Index, Value: e.Value})
		}
	}
	return &sparse.NewCSRMatrix(m.MajorDim, m.MinorDim, coos, true).CSMatrix
}
