package main

// gRPC front-end (C16, C17, C15-grpc): the three real services registered on a grpc.Server as
// cmd/eigentrust/cmd/grpc.go does, reached over an in-memory bufconn connection.
// A recovery interceptor (harness side only) turns a handler panic into the observation "panic"
// instead of killing the harness; the real server has no such interceptor.

import (
	"context"
	"fmt"
	"io"
	"math"
	"net"
	"strconv"
	"time"

	"google.golang.org/grpc"
	"google.golang.org/grpc/codes"
	"google.golang.org/grpc/credentials/insecure"
	"google.golang.org/grpc/status"
	"google.golang.org/grpc/test/bufconn"
	computepb "k3l.io/go-eigentrust/pkg/api/pb/compute"
	trustmatrixpb "k3l.io/go-eigentrust/pkg/api/pb/trustmatrix"
	trustvectorpb "k3l.io/go-eigentrust/pkg/api/pb/trustvector"
	"k3l.io/go-eigentrust/pkg/basic/server"
	grpcserver "k3l.io/go-eigentrust/pkg/basic/server/grpc"
)

type grpcEnv struct {
	srv  *grpc.Server
	conn *grpc.ClientConn
	tm   trustmatrixpb.ServiceClient
	tv   trustvectorpb.ServiceClient
	cp   computepb.ServiceClient
}

func newGrpcEnv() *grpcEnv {
	core, err := server.NewCore(context.Background())
	if err != nil {
		panic(err)
	}
	lis := bufconn.Listen(1 << 20)
	recoverUnary := func(ctx context.Context, req interface{}, info *grpc.UnaryServerInfo, handler grpc.UnaryHandler) (resp interface{}, err error) {
		defer func() {
			if r := recover(); r != nil {
				err = status.Errorf(codes.DataLoss, "HARNESS-PANIC: %v", r)
			}
		}()
		return handler(ctx, req)
	}
	recoverStream := func(srv interface{}, ss grpc.ServerStream, info *grpc.StreamServerInfo, handler grpc.StreamHandler) (err error) {
		defer func() {
			if r := recover(); r != nil {
				err = status.Errorf(codes.DataLoss, "HARNESS-PANIC: %v", r)
			}
		}()
		return handler(srv, ss)
	}
	s := grpc.NewServer(grpc.UnaryInterceptor(recoverUnary), grpc.StreamInterceptor(recoverStream))
	computepb.RegisterServiceServer(s, grpcserver.NewGrpcServer(core))
	trustmatrixpb.RegisterServiceServer(s, grpcserver.NewTrustMatrixServer(&core.StoredTrustMatrices))
	trustvectorpb.RegisterServiceServer(s, grpcserver.NewTrustVectorServer(&core.StoredTrustVectors))
	go func() { _ = s.Serve(lis) }()
	conn, err := grpc.DialContext(context.Background(), "bufnet",
		grpc.WithContextDialer(func(ctx context.Context, _ string) (net.Conn, error) { return lis.DialContext(ctx) }),
		grpc.WithTransportCredentials(insecure.NewCredentials()))
	if err != nil {
		panic(err)
	}
	return &grpcEnv{srv: s, conn: conn, tm: trustmatrixpb.NewServiceClient(conn), tv: trustvectorpb.NewServiceClient(conn),
		cp: computepb.NewServiceClient(conn)}
}

func (e *grpcEnv) close() { e.conn.Close(); e.srv.Stop() }

func codeTok(err error) string {
	if err == nil {
		return "ok"
	}
	st, _ := status.FromError(err)
	switch st.Code() {
	case codes.NotFound:
		return "notfound"
	case codes.InvalidArgument:
		return "invalid"
	case codes.Unknown:
		return "unknown"
	case codes.Internal:
		return "internal"
	case codes.Unavailable:
		return "unavailable"
	case codes.DataLoss:
		return "panic"
	case codes.DeadlineExceeded, codes.Canceled:
		return "timeout"
	}
	return "other"
}

func atoiTok(s string) string {
	n, err := strconv.Atoi(s)
	if err != nil {
		return "x"
	}
	return fmt.Sprintf("i%d", n)
}

func (w *W) qwords(q []uint64) *W {
	w.Int(len(q))
	for _, x := range q {
		w.Str(strconv.FormatUint(x, 10))
	}
	return w
}

func (g *G) indexString(max int) string {
	switch g.intn(18) {
	case 14: // digit strings at the edges of int64 / uint64: not indices (strconv.Atoi: out of range)
		// (2^63-1 itself is a valid int and is accepted; sizes beyond 2^31 are outside the model - DESIGN 7, item 8 - so
		// it is not generated)
		return g.pick("9223372036854775808", "18446744073709551615", "18446744073709551616", "99999999999999999999999")
	case 15: // zero-padded decimals: the same index as without the padding (never octal)
		return g.pick("0", "00", "000") + strconv.Itoa(g.intn(max))
	case 16: // padded two-digit indices (8, 9, 10 …: where an octal reading would differ or fail)
		return "0" + strconv.Itoa(8+g.intn(5))
	case 17:
		return g.pick("0b11", "0o7", "1_0", "0X3")
	}
	switch g.intn(14) {
	case 0:
		return "-1"
	case 1:
		return "abc"
	case 2:
		return ""
	case 3:
		return "+2"
	case 4:
		return " 1"
	case 5:
		return "0x3"
	case 6:
		return "1.0"
	}
	return strconv.Itoa(g.intn(max))
}

func (g *G) timestamp() []uint64 {
	switch g.intn(8) {
	case 0:
		return nil
	case 1:
		return []uint64{0}
	case 2:
		return []uint64{0, 0, uint64(g.intn(50))}
	case 3:
		return []uint64{uint64(g.intn(3) + 1), uint64(g.intn(1000))}
	case 4:
		return []uint64{^uint64(0), ^uint64(0), uint64(g.intn(9)), 7}
	}
	return []uint64{uint64(g.intn(60))}
}

type gstep struct {
	malformed bool
}

// one history of calls on both stores and (for C17) the compute service
func grpcHistory(h *H, prop string, steps int, malformed bool) {
	g := h.g
	env := newGrpcEnv()
	defer env.close()
	ctxT := func() (context.Context, context.CancelFunc) {
		return context.WithTimeout(context.Background(), 20*time.Second)
	}
	mids := []string{"m1", "m2"}
	vids := []string{"g", "p", "gp", "v2"}
	w := &W{}
	done := 0
	idx := func(max int) string {
		if malformed {
			return g.indexString(max)
		}
		if g.intn(12) == 0 {
			// valid decimal spellings with leading zeros (fixed-width ids): the same coordinate as without them,
			// also where an octal reading would differ ("010") or fail ("08")
			g.count("index:zero-padded-decimal")
			return g.pick("0", "00") + strconv.Itoa(g.pick2(g.intn(max), 8+g.intn(5)))
		}
		return strconv.Itoa(g.intn(max))
	}
	setup := g.intn(4) != 0 // most histories start from created collections
	scenario := g.intn(2) == 0
	flushVariant := g.intn(2)
	for s := 0; s < steps; s++ {
		done++
		ctx, cancel := ctxT()
		if setup && s < 4 {
			id := []string{"m1", "p", "g", "gp"}[s]
			if s == 0 {
				_, err := env.tm.Create(ctx, &trustmatrixpb.CreateRequest{Id: id})
				w.Str("mcreate").Str(id).Bar().Str(codeTok(err)).Str(id)
			} else {
				_, err := env.tv.Create(ctx, &trustvectorpb.CreateRequest{Id: id})
				w.Str("vcreate").Str(id).Bar().Str(codeTok(err)).Str(id)
			}
			cancel()
			continue
		}
		if prop == "C17" && setup && s >= 4 && s < 11 && scenario {
			// provenance scenario: every order of the four timestamps, then a compute, then read everything back
			tsOf := func() []uint64 { return []uint64{uint64(g.intn(4)) * 25} }
			switch s {
			case 4:
				id, ts := "m1", tsOf()
				es := []*trustmatrixpb.Entry{{Truster: "0", Trustee: "1", Value: 1}, {Truster: "1", Trustee: "0", Value: 2}, {Truster: "1", Trustee: "2", Value: 1}}
				if g.intn(3) == 0 {
					// a non-finite local trust value: the compute below passes validation and fails LATE (the trust
					// delta is not finite) - the stored vectors must be exactly what they were before the call
					es[g.intn(3)].Value = math.Inf(1)
					g.count("scenario:nonfinite-local-trust-late-failure")
				}
				_, err := env.tm.Update(ctx, &trustmatrixpb.UpdateRequest{Header: &trustmatrixpb.Header{Id: &id, TimestampQwords: ts}, Entries: es})
				w.Str("mupdate").Str(id).qwords(ts).Int(len(es))
				for _, e := range es {
					w.Str(atoiTok(e.Truster)).Str(atoiTok(e.Trustee)).F(e.Value)
				}
				w.Bar().Str(codeTok(err))
			case 5, 6, 7:
				id := []string{"p", "g", "gp"}[s-5]
				ts := tsOf()
				es := []*trustvectorpb.Entry{{Trustee: strconv.Itoa(g.intn(3)), Value: float64(g.intn(4) + 1)}}
				if id == "g" && g.intn(2) == 0 {
					// a stored global trust much LARGER than local trust and pre-trust (a stale result of a bigger
					// network): everything is aligned to it, and the default epsilon is 1e-6 / that dimension
					es = append(es, &trustvectorpb.Entry{Trustee: strconv.Itoa(12 + g.intn(10)), Value: float64(g.intn(4) + 1)})
					g.count("scenario:global-trust-larger-than-inputs")
				}
				_, err := env.tv.Update(ctx, &trustvectorpb.UpdateRequest{Header: &trustvectorpb.Header{Id: &id, TimestampQwords: ts}, Entries: es})
				w.Str("vupdate").Str(id).qwords(ts).Int(len(es))
				for _, e := range es {
					w.Str(atoiTok(e.Trustee)).F(e.Value)
				}
				w.Bar().Str(codeTok(err))
			case 8:
				p := &computepb.Params{LocalTrustId: "m1", PreTrustId: "p", GlobalTrustId: "g", PositiveGlobalTrustId: "gp"}
				if g.intn(2) == 0 {
					p.PreTrustId = ""
				}
				_, err := env.cp.BasicCompute(ctx, &computepb.BasicComputeRequest{Params: p})
				w.Str("compute").Int(1).Str("m1").Str(orDash(p.PreTrustId)).optF(nil).optF(nil).Str("g").Int(0).Str("gp").Bar().Str(codeTok(err))
			case 9:
				w.Str("vget").Str("gp").Bar()
				emitVGet(env, ctx, w, "gp")
			case 10:
				w.Str("vget").Str("g").Bar()
				emitVGet(env, ctx, w, "g")
			}
			cancel()
			continue
		}
		if prop == "C16" && setup && s >= 4 && s < 10 && scenario {
			// flush scenario: a collection that holds NO entry when it is flushed (only a timestamp was ever sent, or
			// every entry was erased again) - flushing resets the timestamp all the same, so a later update with a
			// LOWER stamp sets it
			vupd := func(ts uint64, es []*trustvectorpb.Entry) {
				id := "p"
				q := []uint64{ts}
				_, err := env.tv.Update(ctx, &trustvectorpb.UpdateRequest{Header: &trustvectorpb.Header{Id: &id, TimestampQwords: q}, Entries: es})
				w.Str("vupdate").Str(id).qwords(q).Int(len(es))
				for _, e := range es {
					w.Str(atoiTok(e.Trustee)).F(e.Value)
				}
				w.Bar().Str(codeTok(err))
			}
			switch s {
			case 4:
				if flushVariant == 0 {
					vupd(uint64(50+g.intn(50)), nil)
					g.count("scenario:flush-after-timestamp-only-update")
				} else {
					vupd(uint64(50+g.intn(50)), []*trustvectorpb.Entry{{Trustee: "1", Value: 2.5}})
					g.count("scenario:flush-after-erasing-every-entry")
				}
			case 5:
				if flushVariant == 0 {
					w.Str("vget").Str("p").Bar()
					emitVGet(env, ctx, w, "p")
				} else {
					vupd(uint64(100+g.intn(50)), []*trustvectorpb.Entry{{Trustee: "1", Value: 0}})
				}
			case 6:
				_, err := env.tv.Flush(ctx, &trustvectorpb.FlushRequest{Id: "p"})
				w.Str("vflush").Str("p").Bar().Str(codeTok(err))
			case 7, 9:
				w.Str("vget").Str("p").Bar()
				emitVGet(env, ctx, w, "p")
			case 8:
				vupd(uint64(1+g.intn(9)), []*trustvectorpb.Entry{{Trustee: "0", Value: 1.5}})
			}
			cancel()
			continue
		}
		kinds := 10
		if prop == "C17" || prop == "C15" || prop == "C02" {
			kinds = 13
		}
		switch k := g.intn(kinds); {
		case k == 0: // matrix create (named, fresh, or duplicate)
			id := g.pickID(mids)
			if g.intn(5) == 0 {
				id = ""
			}
			resp, err := env.tm.Create(ctx, &trustmatrixpb.CreateRequest{Id: id})
			w.Str("mcreate").Str(orDash(id)).Bar().Str(codeTok(err))
			if err == nil {
				w.Str(resp.Id)
				if id == "" {
					mids = append(mids, resp.Id)
				}
			}
			g.count("op:mcreate")
		case k == 1 || k == 2: // matrix update
			id := g.pickID(mids)
			ts := g.timestamp()
			n := g.intn(6)
			dim := g.intn(5) + 1
			seen := map[[2]string]bool{}
			req := &trustmatrixpb.UpdateRequest{Header: &trustmatrixpb.Header{Id: &id, TimestampQwords: ts}}
			w.Str("mupdate").Str(id).qwords(ts)
			var es []*trustmatrixpb.Entry
			for i := 0; i < n; i++ {
				a, b := idx(dim), idx(dim)
				// batches have distinct coordinates (as the property quantifies): dedupe by parsed value
				if seen[[2]string{atoiTok(a), atoiTok(b)}] && atoiTok(a) != "x" && atoiTok(b) != "x" {
					continue
				}
				seen[[2]string{atoiTok(a), atoiTok(b)}] = true
				v := float64(g.intn(32)) / 4
				if g.intn(5) == 0 {
					v = 0
				}
				if g.intn(6) == 0 {
					v = -v
				}
				if prop == "C17" && g.intn(40) == 0 {
					v = math.Inf(1)
					g.count("mupdate:nonfinite-value")
				}
				es = append(es, &trustmatrixpb.Entry{Truster: a, Trustee: b, Value: v})
			}
			req.Entries = es
			w.Int(len(es))
			for _, e := range es {
				w.Str(atoiTok(e.Truster)).Str(atoiTok(e.Trustee)).F(e.Value)
			}
			_, err := env.tm.Update(ctx, req)
			w.Bar().Str(codeTok(err))
			g.count("op:mupdate")
		case k == 3: // matrix get
			id := g.pickID(mids)
			w.Str("mget").Str(id).Bar()
			emitMGet(env, ctx, w, id)
			g.count("op:mget")
		case k == 4 && g.intn(3) != 0: // (rarely) flush / delete
			id := g.pickID(mids)
			_ = id
			w.Str("mget").Str(id).Bar()
			emitMGet(env, ctx, w, id)
			g.count("op:mget")
		case k == 4:
			id := g.pickID(mids)
			var err error
			if g.intn(2) == 0 {
				_, err = env.tm.Flush(ctx, &trustmatrixpb.FlushRequest{Id: id})
				w.Str("mflush").Str(id).Bar().Str(codeTok(err))
			} else {
				_, err = env.tm.Delete(ctx, &trustmatrixpb.DeleteRequest{Id: id})
				w.Str("mdelete").Str(id).Bar().Str(codeTok(err))
			}
			g.count("op:mflush/delete")
		case k == 5: // vector create
			id := g.pickID(vids)
			_, err := env.tv.Create(ctx, &trustvectorpb.CreateRequest{Id: id})
			w.Str("vcreate").Str(id).Bar().Str(codeTok(err))
			if err == nil {
				w.Str(id)
			}
			g.count("op:vcreate")
		case k == 6 || k == 7: // vector update
			id := g.pickID(vids)
			ts := g.timestamp()
			n := g.intn(5)
			dim := g.intn(5) + 1
			seen := map[string]bool{}
			req := &trustvectorpb.UpdateRequest{Header: &trustvectorpb.Header{Id: &id, TimestampQwords: ts}}
			w.Str("vupdate").Str(id).qwords(ts)
			var es []*trustvectorpb.Entry
			for i := 0; i < n; i++ {
				a := idx(dim)
				if seen[atoiTok(a)] && atoiTok(a) != "x" {
					continue
				}
				seen[atoiTok(a)] = true
				v := float64(g.intn(32)+1) / 4
				if g.intn(6) == 0 {
					v = 0
				}
				es = append(es, &trustvectorpb.Entry{Trustee: a, Value: v})
			}
			req.Entries = es
			w.Int(len(es))
			for _, e := range es {
				w.Str(atoiTok(e.Trustee)).F(e.Value)
			}
			_, err := env.tv.Update(ctx, req)
			w.Bar().Str(codeTok(err))
			g.count("op:vupdate")
		case k == 8: // vector get
			id := g.pickID(vids)
			w.Str("vget").Str(id).Bar()
			emitVGet(env, ctx, w, id)
			g.count("op:vget")
		case k == 9 && g.intn(3) != 0:
			id := g.pickID(vids)
			w.Str("vget").Str(id).Bar()
			emitVGet(env, ctx, w, id)
			g.count("op:vget")
		case k == 9:
			id := g.pickID(vids)
			var err error
			if g.intn(2) == 0 {
				_, err = env.tv.Flush(ctx, &trustvectorpb.FlushRequest{Id: id})
				w.Str("vflush").Str(id).Bar().Str(codeTok(err))
			} else {
				_, err = env.tv.Delete(ctx, &trustvectorpb.DeleteRequest{Id: id})
				w.Str("vdelete").Str(id).Bar().Str(codeTok(err))
			}
			g.count("op:vflush/delete")
		default: // BasicCompute
			req := &computepb.BasicComputeRequest{}
			w.Str("compute")
			if malformed && g.intn(8) == 0 {
				w.Int(0)
				g.count("compute:nilparams")
			} else {
				p := &computepb.Params{LocalTrustId: g.pickID(mids), GlobalTrustId: "g"}
				if g.intn(3) != 0 {
					p.PreTrustId = "p"
				}
				if g.intn(3) == 0 {
					p.PositiveGlobalTrustId = "gp"
				} else if g.intn(6) == 0 {
					// the same vector named for both results (valid: it ends up with the discounted scores)
					p.PositiveGlobalTrustId = p.GlobalTrustId
					g.count("compute:positive-id-equals-global-id")
				}
				if g.intn(2) == 0 {
					a := []float64{0.5, 0.2, 0.9, 1, 0}[g.intn(5)]
					if malformed && g.intn(4) == 0 {
						a = []float64{-0.5, 1.5}[g.intn(2)]
					}
					p.Alpha = &a
				}
				if g.intn(2) == 0 {
					e := []float64{1e-3, 1e-6, 1}[g.intn(3)]
					if malformed && g.intn(4) == 0 {
						e = []float64{0, -1, 2}[g.intn(3)]
					}
					p.Epsilon = &e
				}
				if g.intn(3) == 0 || (p.Alpha != nil && *p.Alpha == 0) {
					p.MaxIterations = uint32(g.intn(6) + 1)
				}
				if g.intn(12) == 0 {
					p.GlobalTrustId = "nosuch"
				}
				if g.intn(12) == 0 {
					p.PreTrustId = "nosuch"
				}
				if g.intn(12) == 0 {
					p.LocalTrustId = "nosuch"
				}
				req.Params = p
				w.Int(1).Str(orDash(p.LocalTrustId)).Str(orDash(p.PreTrustId)).optF(p.Alpha).optF(p.Epsilon).
					Str(orDash(p.GlobalTrustId)).Int(int(p.MaxIterations)).Str(orDash(p.PositiveGlobalTrustId))
			}
			_, err := env.cp.BasicCompute(ctx, req)
			w.Bar().Str(codeTok(err))
			g.count("op:compute")
		}
		cancel()
	}
	h.emit(h.line(prop, "ghist").Int(done).Str(w.String()))
}

func orDash(s string) string {
	if s == "" {
		return "-"
	}
	return s
}

func runGrpc(prop string) func(h *H) {
	return func(h *H) {
		n := h.budget(200, 4000)
		for k := 0; k < n; k++ {
			steps := h.g.intn(h.budget(24, 80)) + 12
			grpcHistory(h, prop, steps, false)
		}
		if prop == "C16" {
			runConcGrpc(h, prop)
		}
	}
}

// mostly the first (created) id, sometimes any other
func (g *G) pickID(ids []string) string {
	if g.intn(10) < 7 {
		return ids[0]
	}
	return ids[g.intn(len(ids))]
}

func emitMGet(env *grpcEnv, ctx context.Context, w *W, id string) {
	stream, err := env.tm.Get(ctx, &trustmatrixpb.GetRequest{Id: id})
	var hdr *trustmatrixpb.Header
	var ents []*trustmatrixpb.Entry
	if err == nil {
		for {
			var part *trustmatrixpb.GetResponse
			part, err = stream.Recv()
			if err == io.EOF {
				err = nil
				break
			}
			if err != nil {
				break
			}
			if hh := part.GetHeader(); hh != nil {
				hdr = hh
			} else if e := part.GetEntry(); e != nil {
				ents = append(ents, e)
			}
		}
	}
	w.Str(codeTok(err))
	if err == nil && hdr != nil {
		w.qwords(hdr.TimestampQwords).Int(len(ents))
		for _, e := range ents {
			w.Str(atoiTok(e.Truster)).Str(atoiTok(e.Trustee)).F(e.Value)
		}
	}
}

func emitVGet(env *grpcEnv, ctx context.Context, w *W, id string) {
	stream, err := env.tv.Get(ctx, &trustvectorpb.GetRequest{Id: id})
	var hdr *trustvectorpb.Header
	var ents []*trustvectorpb.Entry
	if err == nil {
		for {
			var part *trustvectorpb.GetResponse
			part, err = stream.Recv()
			if err == io.EOF {
				err = nil
				break
			}
			if err != nil {
				break
			}
			if hh := part.GetHeader(); hh != nil {
				hdr = hh
			} else if e := part.GetEntry(); e != nil {
				ents = append(ents, e)
			}
		}
	}
	w.Str(codeTok(err))
	if err == nil && hdr != nil {
		w.qwords(hdr.TimestampQwords).Int(len(ents))
		for _, e := range ents {
			w.Str(atoiTok(e.Trustee)).F(e.Value)
		}
	}
}
