package main

// etharness <property> <tier> <seed> <outfile>
//
// Runs the real go-eigentrust code (module replaced by /repo) on generated cases and writes
// one line per case: `<id> <prop> <op> <inputs…> | <implementation observation…>`.
// A JSON side file `<outfile>.meta.json` carries the measured input distribution.

import (
	"bufio"
	"encoding/json"
	"fmt"
	"os"
	"runtime/debug"
	"strconv"

	"github.com/rs/zerolog"
)

type H struct {
	g     *G
	tier  string
	out   *bufio.Writer
	n     int
	notes map[string]any
}

func (h *H) budget(quick, thorough int) int {
	switch h.tier {
	case "thorough":
		return thorough
	case "search": // used after a broken obligation/correspondence: a few times the quick budget
		if quick*4 < thorough {
			return quick * 4
		}
		return thorough
	}
	return quick
}

func (h *H) line(prop, op string) *W {
	w := &W{}
	h.n++
	return w.Str(fmt.Sprintf("%s-%d", prop, h.n)).Str(prop).Str(op)
}

// relined starts the line over (same case id) after the inputs were changed.
func (h *H) relined(old *W, prop, op string) *W {
	w := &W{}
	return w.Str(fmt.Sprintf("%s-%d", prop, h.n)).Str(prop).Str(op)
}

func (h *H) emit(w *W) {
	h.out.WriteString(w.String())
	h.out.WriteByte('\n')
}

// safely runs f and returns the panic message ("" if none).
func safely(f func()) (msg string) {
	defer func() {
		if r := recover(); r != nil {
			msg = fmt.Sprint(r)
			if msg == "" {
				msg = "panic"
			}
		}
	}()
	f()
	return ""
}

var runners = map[string]func(*H){
	"C01": runComputeProps("C01"),
	"C02": runComputeProps("C02"),
	"C05": runComputeProps("C05"),
	"C18": runComputeProps("C18"),
	"C03": runOapiCompute("C03"),
	"C12": runC12,
	"C13": runC13,
	"C19": runC19,
	"C20": runC20,
	"C16": runGrpc("C16"),
	"C17": runGrpc("C17"),
	"C15": runC15,
	"C14": runC14,
	"C09": runC09,
	"C10": runC10,
	"C11": runC11,
	"C08": func(h *H) {
		runC08(h)
		// "scores of /compute for requests with negative entries": the servers' split / discount around Compute,
		// inline and through a stored reference (computed twice: the split must not eat into what is stored)
		runOapiCompute("C08")(h)
	},
	"C04": runC04,
	"C06": runC06,
	"C07": runC07,
}

func main() {
	if len(os.Args) < 5 {
		fmt.Fprintln(os.Stderr, "usage: etharness <property> <tier> <seed> <outfile>")
		os.Exit(2)
	}
	// finalizers of sparse matrices log to os.Stderr at trace level: silence them
	if dn, err := os.OpenFile(os.DevNull, os.O_WRONLY, 0); err == nil {
		os.Stderr = dn
	}
	zerolog.SetGlobalLevel(zerolog.TraceLevel)
	// reading a row that points into an unmapped region must be an observable panic, not a crash
	debug.SetPanicOnFault(true)
	prop, tier := os.Args[1], os.Args[2]
	seed, _ := strconv.ParseInt(os.Args[3], 10, 64)
	f, err := os.Create(os.Args[4])
	if err != nil {
		panic(err)
	}
	h := &H{g: newG(seed*1000003 + int64(len(prop))*7919 + int64(prop[1])*31 + int64(prop[2])), tier: tier,
		out: bufio.NewWriterSize(f, 1<<20), notes: map[string]any{}}
	run, ok := runners[prop]
	if !ok {
		fmt.Fprintln(os.Stderr, "unknown property", prop)
		os.Exit(2)
	}
	run(h)
	h.out.Flush()
	f.Close()
	meta := map[string]any{"cases": h.n, "shapes": h.g.shapes, "notes": h.notes}
	b, _ := json.MarshalIndent(meta, "", " ")
	os.WriteFile(os.Args[4]+".meta.json", b, 0o644)
}
