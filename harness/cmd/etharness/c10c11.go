package main

// C10 (construction / transpose / resize histories) and C11 (merge = overlay) on the real code.

import (
	"context"

	"k3l.io/go-eigentrust/pkg/sparse"
)

func (g *G) span(dim int) []sparse.Entry {
	v := g.vec(dim)
	return v.Entries
}

// update vector/span with explicit zeros at head / middle / tail
func (g *G) updateVec(dim int) *sparse.Vector {
	v := g.vec(dim)
	if len(v.Entries) > 0 {
		switch g.pick("nozero", "head", "mid", "tail", "allzero", "some") {
		case "head":
			v.Entries[0].Value = 0
			g.count("zero:head")
		case "mid":
			v.Entries[len(v.Entries)/2].Value = 0
			g.count("zero:mid")
		case "tail":
			v.Entries[len(v.Entries)-1].Value = 0
			g.count("zero:tail")
		case "allzero":
			for i := range v.Entries {
				v.Entries[i].Value = 0
			}
			g.count("zero:all")
		case "some":
			for i := range v.Entries {
				if g.intn(3) == 0 {
					v.Entries[i].Value = 0
				}
			}
			g.count("zero:some")
		}
	}
	return v
}

func (g *G) updateCSM(rows, cols int) *sparse.CSMatrix {
	m := &sparse.CSMatrix{MajorDim: rows, MinorDim: cols}
	if rows > 0 {
		m.Entries = make([][]sparse.Entry, rows)
	}
	for i := 0; i < rows; i++ {
		if g.intn(3) != 0 {
			m.Entries[i] = g.updateVec(cols).Entries
		}
	}
	return m
}

// slack re-homes a span in a backing array with spare capacity (contents and length unchanged).
func (g *G) slack(es *[]sparse.Entry) {
	if *es == nil {
		return
	}
	*es = append(make([]sparse.Entry, 0, len(*es)+1+g.intn(12)), (*es)...)
}

func runC11(h *H) {
	g := h.g
	n := h.budget(4000, 300000)
	for k := 0; k < n; k++ {
		switch k % 6 {
		case 0, 1: // vector merge, all dimension relations
			d1, d2 := g.intn(10), g.intn(10)
			switch g.intn(4) {
			case 0:
				d2 = d1
			case 1:
				d1 = 0
			}
			v := g.vec(d1)
			if g.intn(5) == 0 && len(v.Entries) > 0 {
				v.Entries[g.intn(len(v.Entries))].Value = 0 // zero in the target
				g.count("zero:target")
			}
			u := g.updateVec(d2)
			g.count(rel3("vdim", d1, d2))
			a, b := cloneVec(v), cloneVec(u)
			if g.intn(3) == 0 {
				g.slack(&a.Entries)
				g.count("slack:receiver")
			}
			a.Merge(b)
			h.emit(h.line("C11", "vmerge").Vec(v).Vec(u).Bar().Vec(a).Vec(b))
		case 2, 3: // matrix merge
			r1, c1, r2, c2 := g.intn(7), g.intn(7), g.intn(7), g.intn(7)
			if g.intn(2) == 0 {
				c1, c2 = r1, r2
			}
			a := g.csm(r1, c1, g.valueClass())
			b := g.updateCSM(r2, c2)
			g.count(rel3("mrows", r1, r2))
			g.count(rel3("mcols", c1, c2))
			x, y := cloneCSM(a), cloneCSM(b)
			if g.intn(3) == 0 { // receiver rows with room to spare (rows adopted from append-grown updates have it)
				for i := range x.Entries {
					g.slack(&x.Entries[i])
				}
				g.count("slack:receiver")
			}
			x.Merge(y)
			h.emit(h.line("C11", "mmerge").CSM(a).CSM(b).Bar().CSM(x).CSM(y))
		case 4: // vector merge history
			v := g.vec(g.intn(8))
			nu := g.intn(h.budget(8, 30)) + 1
			w := h.line("C11", "vhist").Vec(v).Int(nu)
			cur := cloneVec(v)
			slackHist := g.intn(2) == 0
			for i := 0; i < nu; i++ {
				u := g.updateVec(g.intn(10))
				w.Vec(u)
				uc := cloneVec(u)
				if slackHist { // updates as append builds them: the receiver adopts arrays with spare capacity
					g.slack(&uc.Entries)
					g.slack(&cur.Entries)
				}
				cur.Merge(uc)
			}
			h.emit(w.Bar().Vec(cur))
		default: // re-batching of the same assignment sequence (as gRPC Update builds batches)
			rows, cols := g.intn(5)+1, g.intn(5)+1
			na := g.intn(14) + 1
			var asg []sparse.CooEntry
			for i := 0; i < na; i++ {
				v := g.value(g.valueClass())
				if g.intn(4) == 0 {
					v = 0
				}
				asg = append(asg, sparse.CooEntry{Row: g.intn(rows), Column: g.intn(cols), Value: v})
			}
			s1 := g.batches(asg)
			s2 := g.batches(asg)
			w := h.line("C11", "rebatch").Int(rows).Int(cols).Coos(asg)
			run := func(sizes []int) *sparse.CSMatrix {
				acc := sparse.NewCSRMatrix(rows, cols, nil, false)
				at := 0
				for _, sz := range sizes {
					b := sparse.NewCSRMatrix(rows, cols, append([]sparse.CooEntry{}, asg[at:at+sz]...), true)
					acc.Merge(&b.CSMatrix)
					at += sz
				}
				return &acc.CSMatrix
			}
			w.Int(len(s1))
			for _, s := range s1 {
				w.Int(s)
			}
			w.Int(len(s2))
			for _, s := range s2 {
				w.Int(s)
			}
			h.emit(w.Bar().CSM(run(s1)).CSM(run(s2)))
		}
	}
}

// split a sequence into consecutive batches, each with distinct coordinates
func (g *G) batches(asg []sparse.CooEntry) []int {
	var sizes []int
	at := 0
	for at < len(asg) {
		seen := map[[2]int]bool{}
		sz := 0
		limit := g.intn(len(asg)-at) + 1
		for at+sz < len(asg) && sz < limit {
			k := [2]int{asg[at+sz].Row, asg[at+sz].Column}
			if seen[k] {
				break
			}
			seen[k] = true
			sz++
		}
		sizes = append(sizes, sz)
		at += sz
	}
	return sizes
}

func rel3(name string, a, b int) string {
	switch {
	case a < b:
		return name + ":<"
	case a == b:
		return name + ":="
	}
	return name + ":>"
}

func runC10(h *H) {
	g := h.g
	n := h.budget(3000, 150000)
	ctx := context.Background()
	for k := 0; k < n; k++ {
		switch k % 4 {
		case 0: // construction from coordinate lists in random order
			rows, cols := g.intn(9), g.intn(9)
			if g.intn(3) == 0 {
				cols = rows
			}
			inc := g.intn(2) == 0
			es := g.coos(rows, cols, g.valueClass(), 4)
			m := sparse.NewCSRMatrix(rows, cols, append([]sparse.CooEntry{}, es...), inc)
			g.count(rel3("shape", rows, cols))
			h.emit(h.line("C10", "newcsr").Int(rows).Int(cols).Bool(inc).Coos(es).Bar().CSM(&m.CSMatrix))
		case 1: // transpose, involution, shared views
			rows, cols := g.intn(9), g.intn(9)
			m := &sparse.Matrix{CSMatrix: *g.csm(rows, cols, g.valueClass())}
			in := cloneCSR(m)
			t, err := in.Transpose(ctx)
			if err != nil {
				panic(err)
			}
			tt, _ := t.Transpose(ctx)
			view := in.TransposeToCSC()
			h.emit(h.line("C10", "transpose").CSM(&m.CSMatrix).Bar().CSM(&t.CSMatrix).CSM(&tt.CSMatrix).CSM(&view.CSMatrix))
		default: // resize / transpose / merge histories, observed after every step incl. cap
			rows, cols := g.intn(6), g.intn(6)
			m0 := g.csm(rows, cols, g.valueClass())
			cur := &sparse.Matrix{CSMatrix: *cloneCSM(m0)}
			nops := g.intn(h.budget(6, 40)) + 1
			w := &W{}
			dims := []int{0, 1, 2, 3, 5, 7}
			done := 0
			for i := 0; i < nops; i++ {
				done++
				pan := safely(func() {
					switch g.intn(8) {
					case 0, 1, 2:
						r, c := dims[g.intn(len(dims))], dims[g.intn(len(dims))]
						w.Str("setdim").Int(r).Int(c)
						cur.SetDim(r, c)
						g.count("op:setdim")
					case 3:
						r := dims[g.intn(len(dims))]
						w.Str("setmajor").Int(r)
						cur.SetMajorDim(r)
						g.count("op:setmajor")
					case 4:
						c := dims[g.intn(len(dims))]
						w.Str("setminor").Int(c)
						cur.SetMinorDim(c)
						g.count("op:setminor")
					case 5:
						w.Str("transpose")
						t, err := cur.Transpose(ctx)
						if err != nil {
							panic(err)
						}
						cur = t
						g.count("op:transpose")
					default:
						u := g.updateCSM(g.intn(6), g.intn(6))
						w.Str("merge").CSM(u)
						cur.Merge(cloneCSM(u))
						g.count("op:merge")
					}
				})
				if pan != "" {
					w.Bar().Str("panic")
					g.count("panic")
					break
				}
				w.Bar().CSM(&cur.CSMatrix).Int(cap(cur.Entries))
			}
			h.emit(h.line("C10", "hist").CSM(m0).Int(done).Str(w.String()))
		}
	}
}
