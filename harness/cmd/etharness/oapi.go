package main

// OpenAPI front-end (C03, C02-API, C13, C14, C15-oapi): the real StrictServerImpl behind an echo
// router registered exactly as cmd/eigentrust/cmd/serve.go does, driven in-process with httptest.

import (
	"bytes"
	"context"
	"encoding/json"
	"fmt"
	"k3l.io/go-eigentrust/pkg/sparse"
	"net/http"
	"net/http/httptest"
	"runtime/debug"
	"sort"
	"strings"
	"time"

	"github.com/labstack/echo/v4"
	"k3l.io/go-eigentrust/pkg/api/openapi"
	oapiserver "k3l.io/go-eigentrust/pkg/basic/server/oapi"
)

type oapiEnv struct {
	e   *echo.Echo
	srv *oapiserver.StrictServerImpl
}

func newOapiEnv() *oapiEnv {
	srv, err := oapiserver.NewStrictServerImpl(context.Background())
	if err != nil {
		panic(err)
	}
	e := echo.New()
	openapi.RegisterHandlersWithBaseURL(e, openapi.NewStrictHandler(srv, nil), "/basic/v1")
	return &oapiEnv{e: e, srv: srv}
}

type httpRes struct {
	status  int
	body    []byte
	outcome string // "", "panic", "timeout"
}

func (env *oapiEnv) do(method, path string, body []byte, wd time.Duration) httpRes {
	ctx, cancel := context.WithCancel(context.Background())
	defer cancel()
	var rd *bytes.Reader
	if body != nil {
		rd = bytes.NewReader(body)
	} else {
		rd = bytes.NewReader(nil)
	}
	req := httptest.NewRequest(method, "/basic/v1"+path, rd).WithContext(ctx)
	if body != nil {
		req.Header.Set("Content-Type", "application/json")
	}
	rec := httptest.NewRecorder()
	ch := make(chan string, 1)
	go func() {
		debug.SetPanicOnFault(true) // a read of unmapped swap memory must be an observable panic
		ch <- safely(func() { env.e.ServeHTTP(rec, req) })
	}()
	select {
	case pan := <-ch:
		if pan != "" {
			return httpRes{outcome: "panic"}
		}
	case <-time.After(wd):
		cancel()
		select {
		case <-ch:
		case <-time.After(5 * time.Second):
		}
		return httpRes{outcome: "timeout"}
	}
	return httpRes{status: rec.Code, body: rec.Body.Bytes()}
}

type mEntry struct {
	I, J int
	V    float64
}
type vEntry struct {
	I int
	V float64
}
type mRef struct {
	kind    string // inline stored storedmissing objstore unknownscheme
	id      string
	size    int
	entries []mEntry
}
type vRef struct {
	kind    string
	size    int
	entries []vEntry
}
type oReq struct {
	stats                        bool
	lt                           mRef
	pt, it                       *vRef
	alpha, eps                   *float64
	flat, leaders, max, min, frq *int
}

func (m mRef) inlineJSON() map[string]any {
	es := []map[string]any{}
	for _, e := range m.entries {
		es = append(es, map[string]any{"i": e.I, "j": e.J, "v": e.V})
	}
	return map[string]any{"scheme": "inline", "size": m.size, "entries": es}
}

func (m mRef) json() map[string]any {
	switch m.kind {
	case "inline":
		return m.inlineJSON()
	case "stored", "storedmissing":
		return map[string]any{"scheme": "stored", "id": m.id}
	case "objstore":
		return map[string]any{"scheme": "objectstorage", "url": "ftp://example.invalid/x.csv"}
	}
	return map[string]any{"scheme": "bogus"}
}

func (v vRef) json() map[string]any {
	switch v.kind {
	case "inline":
		es := []map[string]any{}
		for _, e := range v.entries {
			es = append(es, map[string]any{"i": e.I, "v": e.V})
		}
		return map[string]any{"scheme": "inline", "size": v.size, "entries": es}
	case "objstore":
		return map[string]any{"scheme": "objectstorage", "url": "ftp://example.invalid/x.csv"}
	}
	return map[string]any{"scheme": "bogus"}
}

func (r oReq) json() []byte {
	m := map[string]any{"localTrust": r.lt.json()}
	if r.pt != nil {
		m["preTrust"] = r.pt.json()
	}
	if r.it != nil {
		m["initialTrust"] = r.it.json()
	}
	if r.alpha != nil {
		m["alpha"] = *r.alpha
	}
	if r.eps != nil {
		m["epsilon"] = *r.eps
	}
	opt := func(k string, p *int) {
		if p != nil {
			m[k] = *p
		}
	}
	opt("flatTail", r.flat)
	opt("numLeaders", r.leaders)
	opt("maxIterations", r.max)
	opt("minIterations", r.min)
	opt("checkFreq", r.frq)
	b, err := json.Marshal(m)
	if err != nil {
		panic(err)
	}
	return b
}

func (w *W) mref(m mRef) *W {
	switch m.kind {
	case "inline":
		w.Str("inline").Int(m.size).Int(len(m.entries))
	case "stored":
		w.Str("stored").Str(m.id).Int(m.size).Int(len(m.entries))
	case "storedmissing":
		return w.Str("storedmissing").Str(m.id)
	default:
		return w.Str(m.kind)
	}
	for _, e := range m.entries {
		w.Int(e.I).Int(e.J).F(e.V)
	}
	return w
}

func (w *W) vref(v *vRef) *W {
	if v == nil {
		return w.Int(0)
	}
	w.Int(1)
	if v.kind != "inline" {
		return w.Str(v.kind)
	}
	w.Str("inline").Int(v.size).Int(len(v.entries))
	for _, e := range v.entries {
		w.Int(e.I).F(e.V)
	}
	return w
}

func (w *W) optF(p *float64) *W {
	if p == nil {
		return w.Int(0)
	}
	return w.Int(1).F(*p)
}

func (w *W) oreq(r oReq) *W {
	if r.stats {
		w.Str("stats")
	} else {
		w.Str("compute")
	}
	w.mref(r.lt).Str("pt").vref(r.pt).Str("it").vref(r.it).Str("alpha").optF(r.alpha).Str("eps").optF(r.eps)
	return w.Str("flat").optInt(r.flat).Str("leaders").optInt(r.leaders).Str("max").optInt(r.max).
		Str("min").optInt(r.min).Str("freq").optInt(r.frq)
}

// append the observation of a compute response
func (w *W) oresp(stats bool, res httpRes) *W {
	if res.outcome != "" {
		return w.Str(res.outcome)
	}
	w.Int(res.status)
	if res.status != 200 {
		return w
	}
	type tv struct {
		Scheme  string `json:"scheme"`
		Size    int    `json:"size"`
		Entries []struct {
			I int     `json:"i"`
			V float64 `json:"v"`
		} `json:"entries"`
	}
	var vec tv
	var st *openapi.FlatTailStats
	if stats {
		var body struct {
			EigenTrust    tv                    `json:"eigenTrust"`
			FlatTailStats openapi.FlatTailStats `json:"flatTailStats"`
		}
		if err := json.Unmarshal(res.body, &body); err != nil {
			return w.Str("size").Int(-1).Int(0)
		}
		vec = body.EigenTrust
		st = &body.FlatTailStats
	} else if err := json.Unmarshal(res.body, &vec); err != nil {
		return w.Str("size").Int(-1).Int(0)
	}
	w.Str("size").Int(vec.Size).Int(len(vec.Entries))
	for _, e := range vec.Entries {
		w.Int(e.I).F(e.V)
	}
	if st != nil {
		w.Str("stats").Int(st.Length).Int(st.Threshold).F(st.DeltaNorm)
		if st.Ranking == nil {
			w.Int(0)
		} else {
			w.Int(1).Int(len(st.Ranking))
			for _, i := range st.Ranking {
				w.Int(i)
			}
		}
	}
	return w
}

func (g *G) inlineMatrix(size int, negatives bool) mRef {
	m := mRef{kind: "inline", size: size}
	if size <= 0 {
		return m
	}
	cells := g.r.Perm(size * size)[:g.intn(size*size+1)]
	for _, c := range cells {
		v := float64(g.intn(64)+1) / 8
		if negatives && g.intn(4) == 0 {
			v = -v
		}
		m.entries = append(m.entries, mEntry{c / size, c % size, v})
	}
	return m
}

func (g *G) inlineVector(size int) *vRef {
	v := &vRef{kind: "inline", size: size}
	for _, i := range g.support(size, g.intn(size+1)) {
		v.entries = append(v.entries, vEntry{i, float64(g.intn(32)+1) / 4})
	}
	return v
}

func fp(x float64) *float64 { return &x }

// a valid request with a random presence pattern of the optional fields and all size relations
func (g *G) validOReq(negatives bool) oReq {
	n := g.intn(7) + 1
	r := oReq{stats: g.intn(2) == 0, lt: g.inlineMatrix(n, negatives)}
	pat := g.intn(128)
	sizeRel := func() int {
		switch g.intn(3) {
		case 0:
			return n
		case 1:
			return g.intn(n) + 1
		}
		return n + g.intn(4) + 1
	}
	if pat&1 != 0 {
		r.pt = g.inlineVector(sizeRel())
	}
	if pat&2 != 0 {
		r.it = g.inlineVector(sizeRel())
	}
	if pat&4 != 0 {
		r.alpha = fp([]float64{0.1, 0.5, 0.9, 1, 0.25}[g.intn(5)])
	}
	if pat&8 != 0 {
		r.eps = fp([]float64{1e-3, 1e-6, 1e-9, 1}[g.intn(4)])
	}
	if pat&16 != 0 {
		r.min = ip(g.intn(4) + 1)
	}
	if pat&32 != 0 {
		r.frq = ip(g.intn(3) + 1)
	}
	if pat&64 != 0 && g.intn(3) == 0 {
		r.max = ip(g.intn(40))
	}
	if g.intn(6) == 0 {
		r.flat = ip(g.intn(3))
		r.leaders = ip(g.intn(n + 1))
	}
	g.count(fmt.Sprintf("presence:%07b", pat))
	return r
}

func (env *oapiEnv) compute(r oReq, wd time.Duration) httpRes {
	path := "/compute"
	if r.stats {
		path = "/compute-with-stats"
	}
	res := env.do("POST", path, r.json(), wd)
	if res.outcome == "timeout" && wd >= 20*time.Second && slowRetries > 0 {
		// a loaded machine stretches a long run past the watchdog: once more, six times as long (a hang stays a hang;
		// the fixed known-finding request of C15 uses a shorter watchdog and is not repeated)
		slowRetries--
		res = env.do("POST", path, r.json(), 6*wd)
	}
	return res
}

func runOapiCompute(prop string) func(h *H) {
	return func(h *H) {
		g := h.g
		env := newOapiEnv()
		n := h.budget(400, 8000)
		if prop == "C08" {
			n = h.budget(200, 4000)
		}
		wd := 20 * time.Second
		outcomes := map[string]int{}
		for k := 0; k < n; k++ {
			r := g.validOReq(prop != "C02")
			if (prop == "C03" && k%5 == 0) || (prop == "C08" && k%2 == 0) { // stored reference resolving to the same matrix
				id := fmt.Sprintf("m%d", k)
				put := env.do("PUT", "/local-trust/"+id, mustJSON(r.lt.inlineJSON()), wd)
				if put.status == 201 || put.status == 200 {
					r.lt.kind, r.lt.id = "stored", id
					g.count("stored-ref")
				}
			}
			res := env.compute(r, wd)
			outcomes[fmt.Sprint(res.status, res.outcome)]++
			h.emit(h.line(prop, "oapi").oreq(r).Bar().oresp(r.stats, res))
			if r.lt.kind == "stored" {
				// the same stored reference once more: a compute must not have changed what is stored
				res2 := env.compute(r, wd)
				h.emit(h.line(prop, "oapi").oreq(r).Bar().oresp(r.stats, res2))
				g.count("stored-ref-repeated")
			}
		}
		if prop == "C03" {
			// default epsilon = 1e-6/n with n decided by a much larger initial trust, slow convergence:
			// closed clusters, small alpha, initial trust concentrated on one cluster
			for k := 0; k < h.budget(6, 40); k++ {
				m := 2 * (g.intn(2) + 1)
				lt := mRef{kind: "inline", size: m}
				for i := 0; i < m; i += 2 {
					lt.entries = append(lt.entries, mEntry{i, i + 1, 1}, mEntry{i + 1, i, 1})
				}
				big := 30 + g.intn(30)
				it := &vRef{kind: "inline", size: big, entries: []vEntry{{0, 1}, {1, 1}}}
				r := oReq{stats: g.intn(2) == 0, lt: lt, it: it, alpha: fp([]float64{0.02, 0.05}[g.intn(2)])}
				g.count("default-epsilon-large-initial-trust")
				res := env.compute(r, 60*time.Second)
				h.emit(h.line(prop, "oapi").oreq(r).Bar().oresp(r.stats, res))
			}
		}
		h.notes["outcomes"] = outcomes
	}
}

func mustJSON(v any) []byte {
	b, err := json.Marshal(v)
	if err != nil {
		panic(err)
	}
	return b
}

// ---------------------------------------------------------------------------------------------
// C13: sequential histories on /local-trust/{id}

func (w *W) storeBody(res httpRes) *W {
	if res.outcome != "" {
		return w.Str(res.outcome)
	}
	w.Int(res.status)
	if res.status == 200 && len(bytes.TrimSpace(res.body)) > 0 {
		var body struct {
			Scheme  string `json:"scheme"`
			Size    int    `json:"size"`
			Entries []struct {
				I int     `json:"i"`
				J int     `json:"j"`
				V float64 `json:"v"`
			} `json:"entries"`
		}
		if err := json.Unmarshal(res.body, &body); err == nil {
			w.Str("body").Int(body.Size).Int(len(body.Entries))
			for _, e := range body.Entries {
				w.Int(e.I).Int(e.J).F(e.V)
			}
			sch := body.Scheme
			if sch == "" {
				sch = "EMPTY"
			}
			w.Str(strings.ReplaceAll(sch, " ", "_"))
		}
	}
	return w
}

func runC13(h *H) {
	g := h.g
	wd := 20 * time.Second
	nh := h.budget(400, 6000)
	ids := []string{"a", "b", "c"}
	for k := 0; k < nh; k++ {
		env := newOapiEnv()
		steps := g.intn(h.budget(8, 60)) + 1
		w := &W{}
		nops := 0
		if k%8 == 5 {
			// scripted prefix: a stored matrix that is LARGE but holds no entry (none sent, or only zeros,
			// which the loader drops), then merges of smaller matrices: the size must stay the maximum
			id := ids[g.intn(len(ids))]
			big := mRef{kind: "inline", size: g.intn(4) + 4}
			if g.intn(2) == 0 {
				big.entries = []mEntry{{big.size - 1, 0, 0}, {0, big.size - 1, 0}}
			}
			res := env.do("PUT", "/local-trust/"+id, mustJSON(big.json()), wd)
			nops++
			w.Str("put").Str(id).Bool(false).mref(big).Bar().storeBody(res)
			for j := 0; j < 2; j++ {
				small := g.inlineMatrix(g.intn(big.size-1)+1, true)
				res = env.do("PUT", "/local-trust/"+id+"?merge=true", mustJSON(small.json()), wd)
				nops++
				w.Str("put").Str(id).Bool(true).mref(small).Bar().storeBody(res)
				res = env.do("GET", "/local-trust/"+id, nil, wd)
				nops++
				w.Str("get").Str(id).Bar().storeBody(res)
			}
			steps += 5
			g.count("scripted:empty-large-then-merge-smaller")
		}
		for s := 0; s < steps-func() int {
			if k%8 == 5 {
				return 5
			}
			return 0
		}(); s++ {
			id := ids[g.intn(len(ids))]
			switch g.intn(7) {
			case 0, 1, 2:
				merge := g.intn(2) == 0
				var m mRef
				switch g.intn(10) {
				case 0:
					m = mRef{kind: "inline", size: 0}
					g.count("invalid:size0")
				case 1:
					m = g.inlineMatrix(g.intn(4)+1, true)
					m.entries = append(m.entries, mEntry{m.size, 0, 1})
					g.count("invalid:index")
				case 2:
					m = mRef{kind: "unknownscheme"}
					g.count("invalid:scheme")
				case 3:
					m = mRef{kind: "inline", size: g.intn(4) + 1}
					g.count("empty-matrix")
				case 4, 5:
					// the body names a STORED matrix: another id, a missing one, or the very id being written
					m = mRef{kind: "stored", id: ids[g.intn(len(ids))]}
					if g.intn(2) == 0 {
						m.id = id
						g.count("stored-body:self-reference")
					} else {
						g.count("stored-body:other-id")
					}
				default:
					m = g.inlineMatrix(g.intn(5)+1, true)
				}
				path := "/local-trust/" + id
				if merge {
					path += "?merge=true"
				}
				res := env.do("PUT", path, mustJSON(m.json()), wd)
				nops++
				w.Str("put").Str(id).Bool(merge).mref(m).Bar().storeBody(res)
				g.count("op:put")
				if m.kind == "stored" {
					// what the store holds after a PUT whose body named a stored matrix is looked at right away
					res = env.do("GET", "/local-trust/"+id, nil, wd)
					nops++
					w.Str("get").Str(id).Bar().storeBody(res)
					if m.id != id {
						res = env.do("GET", "/local-trust/"+m.id, nil, wd)
						nops++
						w.Str("get").Str(m.id).Bar().storeBody(res)
					}
				}
			case 3, 4:
				res := env.do("GET", "/local-trust/"+id, nil, wd)
				nops++
				w.Str("get").Str(id).Bar().storeBody(res)
				g.count("op:get")
			case 5:
				res := env.do("HEAD", "/local-trust/"+id, nil, wd)
				nops++
				w.Str("head").Str(id).Bar().storeBody(res)
				g.count("op:head")
			default:
				res := env.do("DELETE", "/local-trust/"+id, nil, wd)
				nops++
				w.Str("delete").Str(id).Bar().storeBody(res)
				g.count("op:delete")
			}
		}
		h.emit(h.line("C13", "hist").Int(nops).Str(w.String()))
	}
	runConcStore(h, "C13")
	runConcDirect(h, "C13")
	runConcStoredBody(h, "C13")
	runConcGetVsReplace(h, "C13")
}

// ---------------------------------------------------------------------------------------------
// C14: compute never alters stored inputs; stored == inline

func runC14(h *H) {
	g := h.g
	wd := 20 * time.Second
	n := h.budget(300, 5000)
	env := newOapiEnv()
	for k := 0; k < n; k++ {
		r := g.validOReq(true)
		if k%2 == 1 {
			g.stochasticRows(&r.lt)
		}
		if k%10 == 4 {
			// a dimension at which the default (uniform) pre-trust is NOT a fixed point of canonicalisation in
			// floats (n copies of fl(1/n) do not sum to exactly 1), no pre-trust given: whatever the server keeps
			// from one request to the next shows in the last bits of the next answer
			n := uniformNotFixedDims()[g.intn(len(uniformNotFixedDims()))]
			r.lt = mRef{kind: "inline", size: n}
			for i := 0; i < n; i++ {
				for _, j := range g.support(n, 1+g.intn(3)) {
					r.lt.entries = append(r.lt.entries, mEntry{i, j, float64(g.intn(16)+1) / 4})
				}
			}
			r.pt, r.it = nil, nil
			r.flat, r.leaders = nil, nil
			g.count("uniform-pretrust-not-a-fixed-point-of-canonicalisation")
		}
		id := fmt.Sprintf("s%d", k%7)
		put := env.do("PUT", "/local-trust/"+id, mustJSON(r.lt.inlineJSON()), wd)
		if put.status != 200 && put.status != 201 {
			continue
		}
		before := env.do("GET", "/local-trust/"+id, nil, wd)
		inline := env.compute(r, wd)
		rs := r
		rs.lt.kind, rs.lt.id = "stored", id
		stored := env.compute(rs, wd)
		stored2 := env.compute(rs, wd) // repeated compute
		after := env.do("GET", "/local-trust/"+id, nil, wd)
		getSame := bytes.Equal(before.body, after.body) && before.status == 200 && after.status == 200
		eq := inline.status == stored.status && bytes.Equal(inline.body, stored.body) && bytes.Equal(stored.body, stored2.body)
		st := fmt.Sprint(stored.status)
		if stored.outcome != "" {
			st = stored.outcome
		}
		h.emit(h.line("C14", "isolate").oreq(rs).Bar().Bool(getSame).Bool(eq).Str(st))
		// the stored-reference compute is also judged against the documented effective inputs
		h.emit(h.line("C14", "oapi").oreq(rs).Bar().oresp(rs.stats, stored))
	}
	runConcCompute(h, "C14")
}

var _ = http.StatusOK

// C02, API level: accepted requests without negative trust values yield scores that sum to 1 —
// including runs cut off by an iteration limit and warm starts from raw (unnormalised) initial trust.
func runOapiC02(h *H) {
	g := h.g
	env := newOapiEnv()
	n := h.budget(300, 6000)
	wd := 20 * time.Second
	for k := 0; k < n; k++ {
		r := g.validOReq(false)
		switch g.intn(4) {
		case 0: // raw-weight initial trust with an iteration cut-off
			r.it = g.inlineVector(r.lt.size)
			r.max = ip(g.intn(4) + 1)
			g.count("api:rawinitial+cutoff")
		case 1: // alpha = 0 keeps the initial mass forever
			r.it = g.inlineVector(r.lt.size)
			r.alpha = fp(0)
			r.max = ip(g.intn(20) + 1)
			g.count("api:alpha0")
		case 2: // empty initial trust (zero vector -> uniform)
			r.it = &vRef{kind: "inline", size: r.lt.size}
			r.max = ip(g.intn(3) + 1)
			g.count("api:emptyinitial")
		}
		res := env.compute(r, wd)
		h.emit(h.line("C02", "oapi").oreq(r).Bar().oresp(r.stats, res))
	}
}

// stochasticRows: a client that stores ALREADY normalised local trust: every non-negative row is divided by its sum.
// Preference is given to rows on the boundary between two notions of "sums to one": the plain left-to-right sum of
// the normalised row is exactly 1 while the compensated (KBN) sum is not, or the other way round - an
// implementation that recognises "already canonical" rows by one and normalises by the other treats them
// inconsistently.
func (g *G) stochasticRows(m *mRef) {
	rows := map[int][]int{}
	for k, e := range m.entries {
		rows[e.I] = append(rows[e.I], k)
	}
	for _, ks := range rows {
		neg := false
		for _, k := range ks {
			neg = neg || m.entries[k].V < 0
		}
		if neg || len(ks) < 2 {
			continue
		}
		sort.Slice(ks, func(a, b int) bool { return m.entries[ks[a]].J < m.entries[ks[b]].J })
		best := make([]float64, len(ks))
		found := false
		for try := 0; try < 300 && !found; try++ {
			vals := make([]float64, len(ks))
			sum := 0.0
			for i := range vals {
				vals[i] = float64(g.intn(1000)+1) / 1000
				if try%2 == 1 {
					vals[i] = g.r.Float64() + 1e-3
				}
				sum += vals[i]
			}
			plain := 0.0
			var kbn sparse.KBNSummer
			for i := range vals {
				vals[i] /= sum
				plain += vals[i]
				kbn.Add(vals[i])
			}
			if try == 0 {
				copy(best, vals)
			}
			if (plain == 1) != (kbn.Sum() == 1) {
				copy(best, vals)
				found = true
			}
		}
		if found {
			g.count("stochastic-row:plain-vs-compensated-sum-differ")
		} else {
			g.count("stochastic-row:ordinary")
		}
		for i, k := range ks {
			m.entries[k].V = best[i]
		}
	}
}

var uniformNotFixed []int

// dimensions n in 2..200 for which n copies of fl(1/n) have a compensated sum different from 1
func uniformNotFixedDims() []int {
	if uniformNotFixed == nil {
		for n := 2; n <= 200; n++ {
			var k sparse.KBNSummer
			for i := 0; i < n; i++ {
				k.Add(1 / float64(n))
			}
			if k.Sum() != 1 {
				uniformNotFixed = append(uniformNotFixed, n)
			}
		}
		if len(uniformNotFixed) == 0 {
			uniformNotFixed = []int{49}
		}
	}
	return uniformNotFixed
}
