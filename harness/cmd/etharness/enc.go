package main

// Wire encoding of the line protocol (DESIGN.md section 2): whitespace separated tokens,
// floats as the 16 hex digits of their IEEE-754 bit pattern, NaN canonicalised.

import (
	"fmt"
	"math"
	"strings"

	"k3l.io/go-eigentrust/pkg/sparse"
)

type W struct{ sb strings.Builder }

func (w *W) tok(s string) *W {
	if w.sb.Len() > 0 {
		w.sb.WriteByte(' ')
	}
	w.sb.WriteString(s)
	return w
}
func (w *W) Int(n int) *W    { return w.tok(fmt.Sprintf("%d", n)) }
func (w *W) Str(s string) *W { return w.tok(s) }
func (w *W) Bar() *W         { return w.tok("|") }
func (w *W) String() string  { return w.sb.String() }

// truncate drops everything written after the first n bytes.
func (w *W) truncate(n int) {
	s := w.sb.String()
	if n < len(s) {
		w.sb.Reset()
		w.sb.WriteString(s[:n])
	}
}
func (w *W) Bool(b bool) *W {
	if b {
		return w.tok("1")
	}
	return w.tok("0")
}

func fbits(x float64) string {
	if math.IsNaN(x) {
		return "7ff8000000000000"
	}
	return fmt.Sprintf("%016x", math.Float64bits(x))
}

func (w *W) F(x float64) *W { return w.tok(fbits(x)) }

func (w *W) Entries(es []sparse.Entry) *W {
	w.Int(len(es))
	for _, e := range es {
		w.Int(e.Index).F(e.Value)
	}
	return w
}

func (w *W) Vec(v *sparse.Vector) *W {
	w.Int(v.Dim)
	return w.Entries(v.Entries)
}

func (w *W) CSM(m *sparse.CSMatrix) *W {
	w.Int(m.MajorDim).Int(m.MinorDim).Int(len(m.Entries))
	for _, r := range m.Entries {
		w.Entries(r)
	}
	return w
}

func (w *W) Coos(es []sparse.CooEntry) *W {
	w.Int(len(es))
	for _, e := range es {
		w.Int(e.Row).Int(e.Column).F(e.Value)
	}
	return w
}

func cloneVec(v *sparse.Vector) *sparse.Vector {
	return &sparse.Vector{Dim: v.Dim, Entries: append([]sparse.Entry(nil), v.Entries...)}
}

func cloneCSM(m *sparse.CSMatrix) *sparse.CSMatrix {
	out := &sparse.CSMatrix{MajorDim: m.MajorDim, MinorDim: m.MinorDim}
	if m.Entries != nil {
		out.Entries = make([][]sparse.Entry, len(m.Entries))
		for i, r := range m.Entries {
			if r != nil {
				out.Entries[i] = append([]sparse.Entry{}, r...)
			}
		}
	}
	return out
}

func cloneCSR(m *sparse.Matrix) *sparse.Matrix {
	return &sparse.Matrix{CSMatrix: *cloneCSM(&m.CSMatrix)}
}

func vecEqualBits(a, b *sparse.Vector) bool {
	if a.Dim != b.Dim || len(a.Entries) != len(b.Entries) {
		return false
	}
	for i := range a.Entries {
		if a.Entries[i].Index != b.Entries[i].Index || fbits(a.Entries[i].Value) != fbits(b.Entries[i].Value) {
			return false
		}
	}
	return true
}

func csmEqualBits(a, b *sparse.CSMatrix) bool {
	if a.MajorDim != b.MajorDim || a.MinorDim != b.MinorDim || len(a.Entries) != len(b.Entries) {
		return false
	}
	for i := range a.Entries {
		x := sparse.Vector{Entries: a.Entries[i]}
		y := sparse.Vector{Entries: b.Entries[i]}
		if !vecEqualBits(&x, &y) {
			return false
		}
	}
	return true
}
