package main

// Concurrent clauses of C13 (and C14): several clients issue requests on the same and on
// different ids of the real OpenAPI server at the same time; the recorded history
// (invocation / response instants, inputs, outputs) must be linearizable with respect to the
// sequential map specification.  The search is porcupine's (supporting evidence; the theorems
// cover the sequential semantics only — see DESIGN.md, C13 "partial").

import (
	"context"
	"encoding/json"
	"fmt"
	"io"
	"sort"
	"strconv"
	"sync"
	"sync/atomic"
	"time"

	"github.com/anishathalye/porcupine"
	"k3l.io/go-eigentrust/pkg/api/openapi"
	trustmatrixpb "k3l.io/go-eigentrust/pkg/api/pb/trustmatrix"
)

type kvIn struct {
	op    string // put get head delete
	id    string
	merge bool
	valid bool
	size  int
	cells map[[2]int]float64
}

type kvOut struct {
	status int
	body   string // canonical rendering of a GET body
}

type kvMat struct {
	size  int
	cells map[[2]int]float64
}

func renderMat(size int, cells map[[2]int]float64) string {
	keys := make([][2]int, 0, len(cells))
	for k, v := range cells {
		if v != 0 {
			keys = append(keys, k)
		}
	}
	sort.Slice(keys, func(i, j int) bool {
		if keys[i][0] != keys[j][0] {
			return keys[i][0] < keys[j][0]
		}
		return keys[i][1] < keys[j][1]
	})
	s := fmt.Sprintf("%d:", size)
	for _, k := range keys {
		s += fmt.Sprintf("(%d,%d,%s)", k[0], k[1], fbits(cells[k]))
	}
	return s
}

// per-id state: "" = absent, else rendering
var kvModel = porcupine.Model{
	Partition: func(history []porcupine.Operation) [][]porcupine.Operation {
		m := map[string][]porcupine.Operation{}
		for _, op := range history {
			id := op.Input.(kvIn).id
			m[id] = append(m[id], op)
		}
		var out [][]porcupine.Operation
		for _, v := range m {
			out = append(out, v)
		}
		return out
	},
	Init: func() interface{} { return (*kvMat)(nil) },
	Step: func(state, input, output interface{}) (bool, interface{}) {
		st := state.(*kvMat)
		in := input.(kvIn)
		out := output.(kvOut)
		switch in.op {
		case "get":
			if st == nil {
				return out.status == 404, st
			}
			return out.status == 200 && out.body == renderMat(st.size, st.cells), st
		case "head":
			if st == nil {
				return out.status == 404, st
			}
			return out.status == 204, st
		case "delete":
			if st == nil {
				return out.status == 404, st
			}
			return out.status == 204, (*kvMat)(nil)
		case "put":
			if !in.valid {
				return out.status == 400, st
			}
			if st == nil {
				return out.status == 201, &kvMat{in.size, in.cells}
			}
			if !in.merge {
				return out.status == 200, &kvMat{in.size, in.cells}
			}
			nc := map[[2]int]float64{}
			for k, v := range st.cells {
				nc[k] = v
			}
			for k, v := range in.cells {
				nc[k] = v
			}
			sz := st.size
			if in.size > sz {
				sz = in.size
			}
			return out.status == 200, &kvMat{sz, nc}
		}
		return false, st
	},
	Equal: func(a, b interface{}) bool {
		x, y := a.(*kvMat), b.(*kvMat)
		if x == nil || y == nil {
			return x == y
		}
		return renderMat(x.size, x.cells) == renderMat(y.size, y.cells)
	},
}

func (g *G) kvPut(id string) (kvIn, mRef) {
	merge := g.intn(2) == 0
	if g.intn(12) == 0 {
		return kvIn{op: "put", id: id, merge: merge, valid: false}, mRef{kind: "inline", size: 0}
	}
	m := g.inlineMatrix(g.intn(3)+1, true)
	cells := map[[2]int]float64{}
	for _, e := range m.entries {
		cells[[2]int{e.I, e.J}] = e.V
	}
	return kvIn{op: "put", id: id, merge: merge, valid: true, size: m.size, cells: cells}, m
}

func runConcStore(h *H, prop string) {
	g := h.g
	rounds := h.budget(400, 8000)
	wd := 20 * time.Second
	bad, unknown := 0, 0
	var firstBad string
	for r := 0; r < rounds; r++ {
		env := newOapiEnv()
		ids := []string{"x", "y"}
		nclients := g.intn(4) + 2
		// pre-populate sometimes so that deletes / merges race on an existing id
		var ops []porcupine.Operation
		var mu sync.Mutex
		t0 := time.Now()
		if g.intn(3) != 0 {
			in, m := g.kvPut("x")
			in.merge = false
			call := time.Since(t0).Nanoseconds()
			res := env.do("PUT", "/local-trust/x", mustJSON(m.json()), wd)
			ops = append(ops, porcupine.Operation{ClientId: 0, Input: in, Call: call, Output: kvOut{status: res.status}, Return: time.Since(t0).Nanoseconds()})
		}
		type planned struct {
			in   kvIn
			m    mRef
			path string
			meth string
		}
		plans := make([][]planned, nclients)
		conflict := g.pick("delete-delete", "put-put", "merge-put", "mixed", "mixed")
		for c := 0; c < nclients; c++ {
			nops := g.intn(3) + 1
			for k := 0; k < nops; k++ {
				id := ids[0]
				if g.intn(5) == 0 {
					id = ids[1]
				}
				kind := g.pick("put", "get", "head", "delete")
				if k == 0 {
					switch conflict {
					case "delete-delete":
						kind = "delete"
					case "put-put":
						kind = "put"
					case "merge-put":
						kind = "put"
					}
				}
				var p planned
				switch kind {
				case "put":
					in, m := g.kvPut(id)
					if conflict == "put-put" && k == 0 {
						in.merge = false
					}
					p = planned{in: in, m: m, meth: "PUT", path: "/local-trust/" + id}
					if in.merge {
						p.path += "?merge=true"
					}
				case "get":
					p = planned{in: kvIn{op: "get", id: id}, meth: "GET", path: "/local-trust/" + id}
				case "head":
					p = planned{in: kvIn{op: "head", id: id}, meth: "HEAD", path: "/local-trust/" + id}
				default:
					p = planned{in: kvIn{op: "delete", id: id}, meth: "DELETE", path: "/local-trust/" + id}
				}
				plans[c] = append(plans[c], p)
			}
		}
		g.count("conflict:" + conflict)
		var wg sync.WaitGroup
		start := make(chan struct{})
		for c := 0; c < nclients; c++ {
			wg.Add(1)
			go func(c int) {
				defer wg.Done()
				<-start
				for _, p := range plans[c] {
					var body []byte
					if p.meth == "PUT" {
						body = mustJSON(p.m.json())
					}
					call := time.Since(t0).Nanoseconds()
					res := env.do(p.meth, p.path, body, wd)
					ret := time.Since(t0).Nanoseconds()
					out := kvOut{status: res.status}
					if p.in.op == "get" && res.status == 200 {
						var b struct {
							Size    int `json:"size"`
							Entries []struct {
								I, J int
								V    float64
							} `json:"entries"`
						}
						if json.Unmarshal(res.body, &b) == nil {
							cells := map[[2]int]float64{}
							for _, e := range b.Entries {
								cells[[2]int{e.I, e.J}] = e.V
							}
							out.body = renderMat(b.Size, cells)
						}
					}
					if res.outcome != "" {
						out.status = -1
					}
					mu.Lock()
					ops = append(ops, porcupine.Operation{ClientId: c + 1, Input: p.in, Call: call, Output: out, Return: ret})
					mu.Unlock()
				}
			}(c)
		}
		close(start)
		wg.Wait()
		res := porcupine.CheckOperationsTimeout(kvModel, ops, 5*time.Second)
		switch res {
		case porcupine.Illegal:
			bad++
			if firstBad == "" {
				for _, o := range ops {
					in := o.Input.(kvIn)
					firstBad += fmt.Sprintf("[c%d %s %s merge=%v -> %d @%d..%d] ", o.ClientId, in.op, in.id, in.merge, o.Output.(kvOut).status, o.Call, o.Return)
				}
			}
		case porcupine.Unknown:
			unknown++
		}
	}
	w := h.line(prop, "conc").Str("oapi-store").Int(rounds).Bar().Int(bad).Int(unknown)
	h.emit(w)
	if firstBad != "" {
		h.notes["first_nonlinearizable_history"] = firstBad
	}
}

// Direct stress of the strict handlers (no HTTP in between, so that racing requests reach the
// map primitives within nanoseconds of each other): after PUT of a fresh id, k concurrent DELETEs
// must yield exactly one 204; k concurrent PUTs of a fresh id exactly one 201.
func runConcDirect(h *H, prop string) {
	rounds := h.budget(3000, 40000)
	env := newOapiEnv()
	ctx := context.Background()
	badDel, badPut := 0, 0
	body := func() *openapi.TrustMatrixRef {
		var ref openapi.TrustMatrixRef
		_ = ref.FromInlineTrustMatrix(openapi.InlineTrustMatrix{Scheme: "inline", Size: 1})
		ref.Scheme = "inline"
		return &ref
	}
	for r := 0; r < rounds; r++ {
		id := fmt.Sprintf("d%d", r)
		const k = 4
		var ready, wg sync.WaitGroup
		var gate atomic.Bool
		// concurrent creating PUTs
		created := make([]bool, k)
		for c := 0; c < k; c++ {
			ready.Add(1)
			wg.Add(1)
			go func(c int) {
				defer wg.Done()
				ready.Done()
				for !gate.Load() {
				}
				resp, err := env.srv.UpdateLocalTrust(ctx, openapi.UpdateLocalTrustRequestObject{Id: id, Body: body()})
				if err == nil {
					_, created[c] = resp.(openapi.UpdateLocalTrust201Response)
				}
			}(c)
		}
		ready.Wait()
		gate.Store(true)
		wg.Wait()
		n := 0
		for _, b := range created {
			if b {
				n++
			}
		}
		if n != 1 {
			badPut++
		}
		// concurrent DELETEs
		gate.Store(false)
		deleted := make([]bool, k)
		for c := 0; c < k; c++ {
			ready.Add(1)
			wg.Add(1)
			go func(c int) {
				defer wg.Done()
				ready.Done()
				for !gate.Load() {
				}
				resp, err := env.srv.DeleteLocalTrust(ctx, openapi.DeleteLocalTrustRequestObject{Id: id})
				if err == nil {
					_, deleted[c] = resp.(openapi.DeleteLocalTrust204Response)
				}
			}(c)
		}
		ready.Wait()
		gate.Store(true)
		wg.Wait()
		n = 0
		for _, b := range deleted {
			if b {
				n++
			}
		}
		if n != 1 {
			badDel++
		}
	}
	h.emit(h.line(prop, "conc").Str("oapi-direct-delete").Int(rounds).Bar().Int(badDel).Int(0))
	h.emit(h.line(prop, "conc").Str("oapi-direct-create").Int(rounds).Bar().Int(badPut).Int(0))
}

// C14, concurrent clause: computes on a stored id race with PUT?merge=true on the same id; every
// compute must return exactly what it would return alone on ONE of the versions that existed
// (here: before or after each merge), never a mixture, and must not crash.
func runConcCompute(h *H, prop string) {
	g := h.g
	rounds := h.budget(6, 60)
	wd := 120 * time.Second
	bad, crashed := 0, 0
	var note string
	for r := 0; r < rounds; r++ {
		env := newOapiEnv()
		n := 260 + g.intn(80)
		// version A: dense-ish filler rows; rows 0 and n-1 decide the scores
		mk := func(first, last int) mRef {
			m := mRef{kind: "inline", size: n}
			for i := 0; i < n; i++ {
				for j := 0; j < n; j += 1 + (i+j)%3 {
					m.entries = append(m.entries, mEntry{i, j, 1})
				}
			}
			m.entries = append(m.entries, mEntry{0, first, 5000}, mEntry{n - 1, last, 5000})
			return m
		}
		a := mk(1, 2)
		// the merge rewrites the first and the last row completely
		upd := mRef{kind: "inline", size: n}
		for j := 0; j < n; j++ {
			v := 0.0
			if j == 2 {
				v = 5000
			}
			upd.entries = append(upd.entries, mEntry{0, j, v})
			w := 0.0
			if j == 1 {
				w = 5000
			}
			upd.entries = append(upd.entries, mEntry{n - 1, j, w})
		}
		// zero values are dropped by the inline loader, so express the rewrite as explicit new values
		upd = mRef{kind: "inline", size: n}
		for j := 0; j < n; j++ {
			upd.entries = append(upd.entries, mEntry{0, j, map[bool]float64{true: 5000, false: 1e-9}[j == 2]})
			upd.entries = append(upd.entries, mEntry{n - 1, j, map[bool]float64{true: 5000, false: 1e-9}[j == 1]})
		}
		put := func(m mRef, merge bool) int {
			path := "/local-trust/big"
			if merge {
				path += "?merge=true"
			}
			return env.do("PUT", path, mustJSON(m.json()), wd).status
		}
		req := oReq{lt: mRef{kind: "stored", id: "big"}, max: ip(2), alpha: fp(0.5)}
		reqJSON := req.json()
		if put(a, false) != 201 {
			continue
		}
		resA := env.do("POST", "/compute", reqJSON, wd)
		put(upd, true)
		resB := env.do("POST", "/compute", reqJSON, wd)
		if resA.status != 200 || resB.status != 200 || string(resA.body) == string(resB.body) {
			continue
		}
		// race: restore A, then computes against one concurrent merge
		put(a, false)
		var wg sync.WaitGroup
		results := make([]httpRes, 6)
		start := make(chan struct{})
		for c := range results {
			wg.Add(1)
			go func(c int) {
				defer wg.Done()
				<-start
				time.Sleep(time.Duration(c) * 300 * time.Microsecond)
				results[c] = env.do("POST", "/compute", reqJSON, wd)
			}(c)
		}
		wg.Add(1)
		go func() {
			defer wg.Done()
			<-start
			time.Sleep(time.Duration(g.intn(1500)) * time.Microsecond)
			put(upd, true)
		}()
		close(start)
		wg.Wait()
		for _, res := range results {
			switch {
			case res.outcome != "" || res.status >= 500:
				crashed++
			case res.status == 200 && string(res.body) != string(resA.body) && string(res.body) != string(resB.body):
				bad++
				if note == "" {
					note = fmt.Sprintf("round %d: a compute racing with PUT?merge=true returned scores of neither version", r)
				}
			}
		}
	}
	h.emit(h.line(prop, "conc").Str("compute-vs-merge").Int(rounds).Bar().Int(bad + crashed).Int(0))
	if note != "" {
		h.notes["compute_vs_merge"] = note
	}
}

// ---------------------------------------------------------------------------------------------
// C16, concurrent clients on the gRPC trust-matrix service: recorded histories must be
// linearizable w.r.t. the sequential overlay/timestamp specification.

type gmIn struct {
	op    string // create update get flush delete
	id    string
	ts    uint64
	cells map[[2]int]float64
}
type gmOut struct {
	code string
	ts   uint64
	body string
}
type gmState struct {
	cells map[[2]int]float64
	ts    uint64
}

var gmModel = porcupine.Model{
	Partition: func(history []porcupine.Operation) [][]porcupine.Operation {
		m := map[string][]porcupine.Operation{}
		for _, op := range history {
			id := op.Input.(gmIn).id
			m[id] = append(m[id], op)
		}
		var out [][]porcupine.Operation
		for _, v := range m {
			out = append(out, v)
		}
		return out
	},
	Init: func() interface{} { return (*gmState)(nil) },
	Step: func(state, input, output interface{}) (bool, interface{}) {
		st := state.(*gmState)
		in := input.(gmIn)
		out := output.(gmOut)
		switch in.op {
		case "create":
			if st != nil {
				return out.code == "unknown", st
			}
			return out.code == "ok", &gmState{cells: map[[2]int]float64{}}
		case "get":
			if st == nil {
				return out.code == "notfound", st
			}
			return out.code == "ok" && out.ts == st.ts && out.body == renderMat(0, st.cells), st
		case "flush":
			if st == nil {
				return out.code == "notfound", st
			}
			return out.code == "ok", &gmState{cells: map[[2]int]float64{}}
		case "delete":
			if st == nil {
				return out.code == "notfound", st
			}
			return out.code == "ok", (*gmState)(nil)
		case "update":
			if st == nil {
				return out.code == "notfound", st
			}
			nc := map[[2]int]float64{}
			for k, v := range st.cells {
				nc[k] = v
			}
			for k, v := range in.cells {
				if v == 0 {
					delete(nc, k)
				} else {
					nc[k] = v
				}
			}
			ts := st.ts
			if in.ts > ts {
				ts = in.ts
			}
			return out.code == "ok", &gmState{cells: nc, ts: ts}
		}
		return false, st
	},
	Equal: func(a, b interface{}) bool {
		x, y := a.(*gmState), b.(*gmState)
		if x == nil || y == nil {
			return x == y
		}
		return x.ts == y.ts && renderMat(0, x.cells) == renderMat(0, y.cells)
	},
}

func runConcGrpc(h *H, prop string) {
	g := h.g
	rounds := h.budget(150, 3000)
	bad, unknown := 0, 0
	var firstBad string
	for r := 0; r < rounds; r++ {
		env := newGrpcEnv()
		ids := []string{"x", "y"}
		var ops []porcupine.Operation
		var mu sync.Mutex
		t0 := time.Now()
		ctxB := context.Background()
		if g.intn(4) != 0 {
			call := time.Since(t0).Nanoseconds()
			_, err := env.tm.Create(ctxB, &trustmatrixpb.CreateRequest{Id: "x"})
			ops = append(ops, porcupine.Operation{ClientId: 0, Input: gmIn{op: "create", id: "x"}, Call: call,
				Output: gmOut{code: codeTok(err)}, Return: time.Since(t0).Nanoseconds()})
		}
		nclients := g.intn(4) + 2
		type planned struct{ in gmIn }
		plans := make([][]planned, nclients)
		for c := range plans {
			for k := 0; k < g.intn(3)+1; k++ {
				id := ids[0]
				if g.intn(6) == 0 {
					id = ids[1]
				}
				in := gmIn{op: g.pick("update", "update", "get", "get", "flush", "delete", "create"), id: id}
				if in.op == "update" {
					in.ts = uint64(g.intn(40))
					in.cells = map[[2]int]float64{}
					for e := 0; e < g.intn(3)+1; e++ {
						v := float64(g.intn(8))
						in.cells[[2]int{g.intn(3), g.intn(3)}] = v
					}
				}
				plans[c] = append(plans[c], planned{in})
			}
		}
		var wg sync.WaitGroup
		start := make(chan struct{})
		for c := range plans {
			wg.Add(1)
			go func(c int) {
				defer wg.Done()
				<-start
				for _, p := range plans[c] {
					ctx, cancel := context.WithTimeout(ctxB, 20*time.Second)
					call := time.Since(t0).Nanoseconds()
					out := gmOut{}
					switch p.in.op {
					case "create":
						_, err := env.tm.Create(ctx, &trustmatrixpb.CreateRequest{Id: p.in.id})
						out.code = codeTok(err)
					case "flush":
						_, err := env.tm.Flush(ctx, &trustmatrixpb.FlushRequest{Id: p.in.id})
						out.code = codeTok(err)
					case "delete":
						_, err := env.tm.Delete(ctx, &trustmatrixpb.DeleteRequest{Id: p.in.id})
						out.code = codeTok(err)
					case "update":
						id := p.in.id
						req := &trustmatrixpb.UpdateRequest{Header: &trustmatrixpb.Header{Id: &id, TimestampQwords: []uint64{p.in.ts}}}
						for k, v := range p.in.cells {
							req.Entries = append(req.Entries, &trustmatrixpb.Entry{Truster: strconv.Itoa(k[0]), Trustee: strconv.Itoa(k[1]), Value: v})
						}
						_, err := env.tm.Update(ctx, req)
						out.code = codeTok(err)
					case "get":
						stream, err := env.tm.Get(ctx, &trustmatrixpb.GetRequest{Id: p.in.id})
						cells := map[[2]int]float64{}
						if err == nil {
							for {
								var part *trustmatrixpb.GetResponse
								part, err = stream.Recv()
								if err == io.EOF {
									err = nil
									break
								}
								if err != nil {
									break
								}
								if hh := part.GetHeader(); hh != nil {
									if len(hh.TimestampQwords) == 1 {
										out.ts = hh.TimestampQwords[0]
									} else if len(hh.TimestampQwords) > 1 {
										out.ts = ^uint64(0)
									}
								} else if e := part.GetEntry(); e != nil {
									i, _ := strconv.Atoi(e.Truster)
									j, _ := strconv.Atoi(e.Trustee)
									cells[[2]int{i, j}] = e.Value
								}
							}
						}
						out.code = codeTok(err)
						out.body = renderMat(0, cells)
					}
					cancel()
					ret := time.Since(t0).Nanoseconds()
					mu.Lock()
					ops = append(ops, porcupine.Operation{ClientId: c + 1, Input: p.in, Call: call, Output: out, Return: ret})
					mu.Unlock()
				}
			}(c)
		}
		close(start)
		wg.Wait()
		env.close()
		switch porcupine.CheckOperationsTimeout(gmModel, ops, 5*time.Second) {
		case porcupine.Illegal:
			bad++
			if firstBad == "" {
				for _, o := range ops {
					in := o.Input.(gmIn)
					firstBad += fmt.Sprintf("[c%d %s %s ts=%d -> %s @%d..%d] ", o.ClientId, in.op, in.id, in.ts, o.Output.(gmOut).code, o.Call, o.Return)
				}
			}
		case porcupine.Unknown:
			unknown++
		}
	}
	h.emit(h.line(prop, "conc").Str("grpc-trustmatrix").Int(rounds).Bar().Int(bad).Int(unknown))
	if firstBad != "" {
		h.notes["first_nonlinearizable_history"] = firstBad
	}
}

// A PUT whose body is a STORED reference is two separate instants (copy of the referenced matrix,
// then Swap): racing with a DELETE of the referenced id it can answer 201 although, in every
// sequential order, it could only answer 200 (id still there) or 400 (already deleted).
// Proved for the step model as C13b.stored_ref_put_not_linearizable; this is its replay on the real code.
func runConcStoredBody(h *H, prop string) {
	rounds := h.budget(150, 2000)
	env := newOapiEnv()
	ctx := context.Background()
	n := 220
	big := openapi.InlineTrustMatrix{Scheme: "inline", Size: n}
	for i := 0; i < n; i++ {
		for j := 0; j < n; j++ {
			big.Entries = append(big.Entries, openapi.InlineTrustMatrixEntry{I: i, J: j, V: 1})
		}
	}
	inlineBody := func() *openapi.TrustMatrixRef {
		var ref openapi.TrustMatrixRef
		_ = ref.FromInlineTrustMatrix(big)
		ref.Scheme = "inline"
		return &ref
	}
	storedBody := func(id string) *openapi.TrustMatrixRef {
		var ref openapi.TrustMatrixRef
		_ = ref.FromStoredTrustMatrix(openapi.StoredTrustMatrix{Scheme: "stored", Id: id})
		ref.Scheme = "stored"
		return &ref
	}
	bad := 0
	for r := 0; r < rounds; r++ {
		id := fmt.Sprintf("sb%d", r)
		if _, err := env.srv.UpdateLocalTrust(ctx, openapi.UpdateLocalTrustRequestObject{Id: id, Body: inlineBody()}); err != nil {
			continue
		}
		var wg sync.WaitGroup
		var putCreated, deleted bool
		var gate atomic.Bool
		wg.Add(2)
		go func() {
			defer wg.Done()
			for !gate.Load() {
			}
			resp, err := env.srv.UpdateLocalTrust(ctx, openapi.UpdateLocalTrustRequestObject{Id: id, Body: storedBody(id)})
			if err == nil {
				_, putCreated = resp.(openapi.UpdateLocalTrust201Response)
			}
		}()
		go func() {
			defer wg.Done()
			for !gate.Load() {
			}
			time.Sleep(time.Duration(r%40) * 20 * time.Microsecond)
			resp, err := env.srv.DeleteLocalTrust(ctx, openapi.DeleteLocalTrustRequestObject{Id: id})
			if err == nil {
				_, deleted = resp.(openapi.DeleteLocalTrust204Response)
			}
		}()
		gate.Store(true)
		wg.Wait()
		if putCreated && deleted {
			bad++
		}
		env.srv.DeleteLocalTrust(ctx, openapi.DeleteLocalTrustRequestObject{Id: id})
	}
	w := &W{}
	w.Str(fmt.Sprintf("%s-%d:C13/UpdateLocalTrust/stored-body-put-races-delete", prop, h.n+1)).Str(prop).Str("conc")
	h.n++
	h.emit(w.Str("oapi-stored-body-put-vs-delete").Int(rounds).Bar().Int(bad).Int(0))
}

// GET racing with replacing PUTs on one id: every GET must return one of the stored versions.
func runConcGetVsReplace(h *H, prop string) {
	env := newOapiEnv()
	ctx := context.Background()
	mk := func(n int, v float64) *openapi.TrustMatrixRef {
		m := openapi.InlineTrustMatrix{Scheme: "inline", Size: n}
		for i := 0; i < n; i++ {
			for j := 0; j < n; j++ {
				m.Entries = append(m.Entries, openapi.InlineTrustMatrixEntry{I: i, J: j, V: v})
			}
		}
		var ref openapi.TrustMatrixRef
		_ = ref.FromInlineTrustMatrix(m)
		ref.Scheme = "inline"
		return &ref
	}
	const na, nb = 40, 41
	if _, err := env.srv.UpdateLocalTrust(ctx, openapi.UpdateLocalTrustRequestObject{Id: "r", Body: mk(na, 1)}); err != nil {
		return
	}
	dur := time.Duration(h.budget(1500, 15000)) * time.Millisecond
	var stop atomic.Bool
	var bad, gets atomic.Int64
	var wg sync.WaitGroup
	for wr := 0; wr < 2; wr++ {
		wg.Add(1)
		go func(wr int) {
			defer wg.Done()
			for k := 0; !stop.Load(); k++ {
				if (k+wr)%2 == 0 {
					env.srv.UpdateLocalTrust(ctx, openapi.UpdateLocalTrustRequestObject{Id: "r", Body: mk(na, 1)})
				} else {
					env.srv.UpdateLocalTrust(ctx, openapi.UpdateLocalTrustRequestObject{Id: "r", Body: mk(nb, 2)})
				}
			}
		}(wr)
	}
	for rd := 0; rd < 3; rd++ {
		wg.Add(1)
		go func() {
			defer wg.Done()
			for !stop.Load() {
				resp, err := env.srv.GetLocalTrust(ctx, openapi.GetLocalTrustRequestObject{Id: "r"})
				if err != nil {
					bad.Add(1)
					continue
				}
				if ok200, is := resp.(openapi.GetLocalTrust200JSONResponse); is {
					gets.Add(1)
					sz, ne := ok200.Size, len(ok200.Entries)
					if !((sz == na && ne == na*na) || (sz == nb && ne == nb*nb)) {
						bad.Add(1)
					}
				}
			}
		}()
	}
	time.Sleep(dur)
	stop.Store(true)
	wg.Wait()
	h.emit(h.line(prop, "conc").Str("oapi-get-vs-replace").Int(int(gets.Load())).Bar().Int(int(bad.Load())).Int(0))
}
