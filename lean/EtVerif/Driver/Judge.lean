/-
  Shared judging helpers: exact-rational views of Float data, tolerances.
-/
import EtVerif.Driver.Codec

namespace EtVerif.Driver
open EtVerif

structure Verdict where
  prop : Bool          -- property predicate on the implementation's observation
  corr : Bool          -- implementation observation = model observation (canonicalised)
  bit  : Option Bool := none   -- bit-level structural equality with model@Float (informational)
  msg  : String := ""

def Verdict.render (v : Verdict) : String :=
  let b := match v.bit with | none => "-" | some true => "1" | some false => "0"
  s!"P={if v.prop then 1 else 0} C={if v.corr then 1 else 0} B={b}" ++
    (if v.msg.isEmpty then "" else " " ++ v.msg)

def f2q (x : Float) : Option Rat := ratOfBits x.toBits

def f2q! (x : Float) : Rat := (f2q x).getD 0

def qabs (x : Rat) : Rat := if x < 0 then -x else x

def qsum (xs : List Rat) : Rat := xs.foldl (· + ·) 0

/-- unit roundoff of binary64 -/
def uRound : Rat := 1 / ((2 ^ 53 : Nat) : Rat)

/-- The Kahan-Babuska-Neumaier bound of property C09: `u|S| + 4 n² u² Σ|x_i|`. -/
def kbnTol (terms : List Rat) : Rat :=
  let s := qsum terms
  let n : Rat := (terms.length : Rat)
  uRound * qabs s + 4 * n * n * uRound * uRound * qsum (terms.map qabs)

/-- smallest positive subnormal; an absolute slack for results that may underflow -/
def tiny : Rat := 1 / ((2 ^ 1074 : Nat) : Rat)

/-- IEEE equality of two floats with NaN = NaN (canonicalised), -0 = 0. -/
def feq (x y : Float) : Bool := (x.isNaN && y.isNaN) || x == y

def entriesEq (a b : List (Entry Float)) : Bool :=
  a.length == b.length && (a.zip b).all fun (x, y) => x.idx == y.idx && feq x.val y.val

def entriesBitEq (a b : List (Entry Float)) : Bool :=
  a.length == b.length && (a.zip b).all fun (x, y) => x.idx == y.idx && floatShow x.val == floatShow y.val

def toQ (es : List (Entry Float)) : List (Entry Rat) := es.map fun e => ⟨e.idx, f2q! e.val⟩

def allFinite (es : List (Entry Float)) : Bool := es.all fun e => e.val.isFinite

/-- union of the index supports, ascending, no duplicates -/
def supportUnion (a b : List (Entry Float)) : List Nat :=
  let xs := (a.map (·.idx) ++ b.map (·.idx))
  let sorted := xs.toArray.qsort (· < ·) |>.toList
  sorted.eraseDups

end EtVerif.Driver
