/-
  Driver handler for gRPC call histories (C16, C17, C15-grpc):
    Cxx ghist <nsteps> ( <call> "|" <code> [resp…] )*
  calls:
    mcreate <id|->                    | code [id]
    mupdate <id> <nq w*> <n> (<i|x> <i|x> v)*   | code
    mget <id>                         | code [<nq w*> <n> (i j v)*]
    mflush|mdelete <id>               | code
    vcreate <id>                      | code [id]
    vupdate <id> <nq w*> <n> (<i|x> v)*  | code
    vget <id>                         | code [<nq w*> <n> (i v)*]
    vflush|vdelete <id>               | code
    compute <0 | 1 lt pt alpha? eps? gt maxIter pgt> | code
  Index tokens are `i<int>` (strconv.Atoi succeeded) or `x` (it failed).
-/
import EtVerif.Driver.OapiD
import EtVerif.Model.Grpc

namespace EtVerif.Driver
open EtVerif Scalar EtVerif.Grpc

def idxTok : P (Option Int) := do
  let t ← tok
  if t == "x" then pure none
  else if t.startsWith "i" then
    match (t.drop 1).toString.toInt? with
    | some n => pure (some n)
    | none => throw s!"bad index token {t}"
  else throw s!"bad index token {t}"

def qwordsP : P (List Nat) := do
  let n ← nat
  rep n nat

def idTok : P String := do
  let t ← tok
  pure (if t == "-" then "" else t)

def codeOf (c : Code) : String :=
  match c with
  | .ok => "ok" | .notFound => "notfound" | .invalidArgument => "invalid"
  | .unknown => "unknown" | .internal => "internal" | .unavailable => "unavailable"

/-- independent spec state: per id, cell map and timestamp -/
structure SpecM where
  cells : List ((Nat × Nat) × Float)
  dim : Nat
  ts : Nat
deriving Inhabited

structure SpecV where
  cells : List (Nat × Float)
  dim : Nat
  ts : Nat
deriving Inhabited

structure SpecG where
  mats : List (String × SpecM) := []
  vecs : List (String × SpecV) := []

def constsG : Grpc.Consts Float := { half := 0.5, epsNum := 1e-6 }

def sortCells (cs : List ((Nat × Nat) × Float)) : List ((Nat × Nat) × Float) :=
  (cs.toArray.qsort fun a b => a.1.1 < b.1.1 || (a.1.1 == b.1.1 && a.1.2 < b.1.2)).toList

def sortVCells (cs : List (Nat × Float)) : List (Nat × Float) :=
  (cs.toArray.qsort fun a b => a.1 < b.1).toList

/-- the documented result of BasicCompute as exact scores, via the API-document oracle of C03:
    local trust = matrix cells, pre-trust = vector cells, initial trust = previous global trust. -/
def bcDocScores (m : SpecM) (p : Option SpecV) (g : SpecV) (alpha eps : Option Float) :
    Option (Array Rat × Nat × Rat × Rat) :=
  let im : Oapi.IMatrix Float := ⟨m.dim, m.cells.map fun ((i, j), v) => ((i : Int), (j : Int), v)⟩
  let iv := fun (v : SpecV) => (Oapi.VectorRef.inline ⟨(v.dim : Int), v.cells.map fun (i, x) => ((i : Int), x)⟩ : Oapi.VectorRef Float)
  let nonEmpty := fun (v : SpecV) => decide (v.dim ≥ 1)
  let req : Oapi.ComputeReq Float :=
    { localTrust := .inline im,
      preTrust := match p with | some v => (if nonEmpty v then some (iv v) else none) | none => none,
      initialTrust := if nonEmpty g && !g.cells.isEmpty then some (iv g) else none,
      alpha := alpha, epsilon := eps }
  docScores { stats := false, req := req, pre := none }

def judgeGHist (prop : String) : P Verdict := do
  let n ← nat
  let mut s : GState Float := {}
  let mut sp : SpecG := {}
  let mut p := true
  let mut c := true
  let mut msg := ""
  for k in [0:n] do
    let op ← tok
    let mut mCode : Code := .ok
    let mut expectCode : String := "ok"
    let mut anyCode := false    -- spec leaves the code open (e.g. create of an existing id)
    let mut mGetM : Option (Nat × List (Nat × Nat × Float)) := none
    let mut mGetV : Option (Nat × List (Nat × Float)) := none
    let mut sGetM : Option SpecM := none
    let mut sGetV : Option SpecV := none
    let mut createdId : Option String := none
    let mut isFresh := false
    let mut docCheck : Option (Array Rat × Nat × Rat × Rat) := none
    let mut docTarget := ""
    match op with
    | "mcreate" =>
      let id ← idTok
      if id == "" then isFresh := true
      else
        let (s', cd) := tmCreateNamed s id
        s := s'; mCode := cd
        if (lookup sp.mats id).isSome then expectCode := "unknown"; anyCode := true
        else sp := { sp with mats := store sp.mats id ⟨[], 0, 0⟩ }
    | "mupdate" =>
      let id ← idTok
      let ts := qwords2Nat (← qwordsP)
      let m ← nat
      let es ← rep m (do let i ← idxTok; let j ← idxTok; let v : Float ← scalar; pure (⟨i, j, v⟩ : MEntry Float))
      let (s', cd) := tmUpdate s id ts es
      s := s'; mCode := cd
      match lookup sp.mats id with
      | none => expectCode := "notfound"
      | some sm =>
        if es.any fun e => e.truster.isNone || e.trustee.isNone then expectCode := "unknown"; anyCode := true
        else if es.any fun e => e.truster.getD 0 < 0 || e.trustee.getD 0 < 0 then expectCode := "invalid"
        else
          let newCells := es.map fun e => (((e.truster.getD 0).toNat, (e.trustee.getD 0).toNat), e.value)
          let dimB := newCells.foldl (fun d ((i, j), _) => max d (max (i + 1) (j + 1))) 0
          let cells := newCells.foldl (fun acc (ij, v) =>
            let acc' := acc.filter (·.1 != ij)
            if v == 0 then acc' else (ij, v) :: acc') sm.cells
          sp := { sp with mats := store sp.mats id ⟨cells, max sm.dim dimB, max sm.ts ts⟩ }
    | "mget" =>
      let id ← idTok
      mGetM := tmGet s id
      mCode := if mGetM.isSome then .ok else .notFound
      sGetM := lookup sp.mats id
      expectCode := if sGetM.isSome then "ok" else "notfound"
    | "mflush" =>
      let id ← idTok
      let (s', cd) := tmFlush s id
      s := s'; mCode := cd
      if (lookup sp.mats id).isSome then sp := { sp with mats := store sp.mats id ⟨[], 0, 0⟩ }
      else expectCode := "notfound"
    | "mdelete" =>
      let id ← idTok
      let (s', cd) := tmDelete s id
      s := s'; mCode := cd
      if (lookup sp.mats id).isSome then sp := { sp with mats := erase sp.mats id }
      else expectCode := "notfound"
    | "vcreate" =>
      let id ← idTok
      let (s', cd) := tvCreateNamed s id
      s := s'; mCode := cd
      if (lookup sp.vecs id).isSome then expectCode := "unknown"; anyCode := true
      else sp := { sp with vecs := store sp.vecs id ⟨[], 0, 0⟩ }
    | "vupdate" =>
      let id ← idTok
      let ts := qwords2Nat (← qwordsP)
      let m ← nat
      let es ← rep m (do let i ← idxTok; let v : Float ← scalar; pure (⟨i, v⟩ : VEntry Float))
      let (s', cd) := tvUpdate s id ts es
      s := s'; mCode := cd
      match lookup sp.vecs id with
      | none => expectCode := "notfound"
      | some sv =>
        if es.any fun e => e.trustee.isNone then expectCode := "unknown"; anyCode := true
        else if es.any fun e => e.trustee.getD 0 < 0 then expectCode := "invalid"
        else
          let newCells := es.map fun e => ((e.trustee.getD 0).toNat, e.value)
          let dimB := newCells.foldl (fun d (i, _) => max d (i + 1)) 0
          let cells := newCells.foldl (fun acc (i, v) =>
            let acc' := acc.filter (·.1 != i)
            if v == 0 then acc' else (i, v) :: acc') sv.cells
          sp := { sp with vecs := store sp.vecs id ⟨cells, max sv.dim dimB, max sv.ts ts⟩ }
    | "vget" =>
      let id ← idTok
      mGetV := tvGet s id
      mCode := if mGetV.isSome then .ok else .notFound
      sGetV := lookup sp.vecs id
      expectCode := if sGetV.isSome then "ok" else "notfound"
    | "vflush" =>
      let id ← idTok
      let (s', cd) := tvFlush s id
      s := s'; mCode := cd
      if (lookup sp.vecs id).isSome then sp := { sp with vecs := store sp.vecs id ⟨[], 0, 0⟩ }
      else expectCode := "notfound"
    | "vdelete" =>
      let id ← idTok
      let (s', cd) := tvDelete s id
      s := s'; mCode := cd
      if (lookup sp.vecs id).isSome then sp := { sp with vecs := erase sp.vecs id }
      else expectCode := "notfound"
    | "compute" =>
      let has ← nat
      if has == 0 then
        let (s', cd) := basicCompute fuelCap constsG s none
        s := s'; mCode := cd
        expectCode := "invalid"
      else
        let lt ← idTok; let pt ← idTok
        let alpha : Option Float ← optP scalar
        let eps : Option Float ← optP scalar
        let gt ← idTok; let maxIt ← nat; let pgt ← idTok
        let q : Params Float := { localTrustId := lt, preTrustId := pt, alpha := alpha, epsilon := eps,
                                  globalTrustId := gt, maxIterations := maxIt, positiveGlobalTrustId := pgt }
        let (s', cd) := basicCompute fuelCap constsG s (some q)
        -- spec: errors by documented precedence are left to the code comparison below when several apply
        let ltS := lookup sp.mats lt
        let ptS := if pt == "" then none else lookup sp.vecs pt
        let gtS := lookup sp.vecs gt
        let badA := match alpha with | some a => a < 0 || a > 1 | none => false
        let badE := match eps with | some e => e ≤ 0 || e > 1 | none => false
        if ltS.isNone || (pt != "" && ptS.isNone) || gtS.isNone then
          expectCode := if badA || badE then "notfound-or-invalid" else "notfound"
        else if badA || badE then expectCode := "invalid"
        else
          -- a well-formed request: ok, or a well-formed error when the inputs cannot be computed on
          expectCode := codeOf cd
          if cd == .ok then
            let tsIn := max (ltS.map (·.ts)).get! (max ((ptS.map (·.ts)).getD 0) (gtS.map (·.ts)).get!)
            -- result contents are taken from the model state; the doc oracle judges them below
            let newG := (lookup s'.vecs gt)
            match newG with
            | some tv =>
              let cells := (tv.v.entries.filter fun e => e.val != 0).map fun e => (e.idx, e.val)
              if pgt != "" && pgt != gt then
                match lookup s'.vecs pgt, lookup sp.vecs pgt with
                | some tp, some old =>
                  let pcells := (tp.v.entries.filter fun e => e.val != 0).map (fun e => (e.idx, e.val))
                  let pv : SpecV := ⟨pcells, tp.v.dim, max old.ts tsIn⟩
                  sp := { sp with vecs := store sp.vecs pgt pv }
                | _, _ => pure ()
              let gv : SpecV := ⟨cells, tv.v.dim, tsIn⟩
              sp := { sp with vecs := store sp.vecs gt gv }
              if maxIt == 0 then
                docCheck := bcDocScores ltS.get! ptS gtS.get! alpha eps
                docTarget := gt
            | none => pure ()
        s := s'; mCode := cd
    | o => throw s!"ghist: unknown call {o}"
    expect "|"
    let code ← tok
    if code == "panic" || code == "timeout" then
      set ([] : List String)
      return { prop := false, corr := false, msg := s!"step {k} {op}: implementation {code}" }
    -- response payloads
    let mut pk := anyCode || code == expectCode || (expectCode == "notfound-or-invalid" && (code == "notfound" || code == "invalid"))
    let mut ck := code == codeOf mCode
    if (op == "mcreate" || op == "vcreate") && code == "ok" then
      let rid ← tok
      createdId := some rid
      if isFresh then
        -- created ids are unique
        pk := pk && (lookup sp.mats rid).isNone
        let (s', cd) := tmCreateFresh s rid
        s := s'
        ck := cd == .ok
        sp := { sp with mats := store sp.mats rid ⟨[], 0, 0⟩ }
    if isFresh && code != "ok" then ck := false
    if op == "mget" && code == "ok" then
      let tsW ← qwordsP
      let m ← nat
      let es ← rep m (do let i ← idxTok; let j ← idxTok; let v : Float ← scalar; pure (i, j, v))
      match sGetM with
      | some sm =>
        let want := sortCells sm.cells
        pk := pk && tsW == nat2Qwords sm.ts && es.length == want.length &&
          (es.zip want).all fun ((i, j, v), ((wi, wj), wv)) =>
            i == some (wi : Int) && j == some (wj : Int) && floatShow v == floatShow wv
      | none => pk := false
      match mGetM with
      | some (mts, mes) =>
        ck := ck && tsW == nat2Qwords mts && es.length == mes.length &&
          (es.zip mes).all fun ((i, j, v), (mi, mj, mv)) =>
            i == some (mi : Int) && j == some (mj : Int) && floatShow v == floatShow mv
      | none => ck := false
    if op == "vget" && code == "ok" then
      let tsW ← qwordsP
      let m ← nat
      let es ← rep m (do let i ← idxTok; let v : Float ← scalar; pure (i, v))
      match mGetV with
      | some (mts, mes) =>
        ck := ck && tsW == nat2Qwords mts && es.length == mes.length &&
          (es.zip mes).all fun ((i, v), (mi, mv)) => i == some (mi : Int) && floatShow v == floatShow mv
      | none => ck := false
      match sGetV with
      | some sv =>
        let want := sortVCells sv.cells
        let tsOK := tsW == nat2Qwords sv.ts
        -- contents written by BasicCompute are judged against the model (bitwise, above) and the doc oracle;
        -- contents written by updates must equal the spec's overlay exactly
        pk := pk && tsOK && es.length == want.length &&
          (es.zip want).all fun ((i, v), (wi, wv)) => i == some (wi : Int) && (floatShow v == floatShow wv)
      | none => pk := false
    -- documented scores after a successful BasicCompute
    match docCheck with
    | some (ds, nn, a, e) =>
      if code == "ok" then
        match lookup s.vecs docTarget with
        | some tv =>
          let sq := denseOf nn (toQ tv.v.entries)
          let bound := 2 * ((1 - a) / a * sqrtUp nn * e + (1 / 100000000000000 : Rat) / a) + (nn : Rat) * 64 * uRound
          if tv.v.dim == nn then pk := pk && l1Dist nn sq ds ≤ bound
        | none => pure ()
    | none => pure ()
    if p && !pk then msg := s!"step {k} {op}: code {code}, documented {expectCode}"
    if c && !ck && msg.isEmpty then msg := s!"step {k} {op}: code {code}, model {codeOf mCode}"
    p := p && pk; c := c && ck
    let _ := createdId
  let _ := prop
  pure { prop := p, corr := c, bit := some (p && c), msg := msg }

end EtVerif.Driver
