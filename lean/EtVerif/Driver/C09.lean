/-
  Driver handlers for C09 (sparse vector algebra).  Line grammar (after `<id> C09`):
    add|sub  <vec> <vec>        | ok <vec> / err
    scale    <a> <vec>          | <vec>
    dot      <vec> <vec>        | <bits> <bits(swapped)>
    sum      <vec>              | <bits>
    norm2    <vec>              | <bits>
    mulvec   <csm> <vec>        | ok <vec> / err
-/
import EtVerif.Driver.Judge

namespace EtVerif.Driver
open EtVerif Scalar

def denF (es : List (Entry Float)) (i : Nat) : Float := denE es i

/-- the dense element-wise spec of add/sub on the union support -/
def elementwiseOK (op : Float → Float → Float) (v1 v2 : Vec Float) (r : Vec Float) : Bool :=
  let sup := supportUnion v1.entries v2.entries
  r.dim == v1.dim && r.wf &&
  sup.all (fun i => feq (denF r.entries i) (op (denF v1.entries i) (denF v2.entries i))) &&
  r.entries.all (fun e => sup.contains e.idx)

def judgeAddSub (isSub : Bool) : P Verdict := do
  let v1 : Vec Float ← vec
  let v2 : Vec Float ← vec
  expect "|"
  let st ← tok
  let model := if isSub then v1.subVec v2 else v1.addVec v2
  let op : Float → Float → Float := if isSub then (· - ·) else (· + ·)
  match st, model with
  | "err", .error _ => pure { prop := v1.dim != v2.dim, corr := true, bit := some true }
  | "ok", .ok m =>
    let r : Vec Float ← vec
    let inWF := v1.wf && v2.wf
    let p := v1.dim == v2.dim && (!inWF || elementwiseOK op v1 v2 r)
    let c := r.dim == m.dim && entriesEq (nz r.entries) (nz m.entries)
    pure { prop := p, corr := c, bit := some (entriesBitEq r.entries m.entries),
           msg := if p && c then "" else s!"model={showVec m}" }
  | "err", .ok m => pure { prop := false, corr := false, msg := s!"impl err, model={showVec m}" }
  | "ok", .error _ => pure { prop := false, corr := false, msg := "impl ok on dimension mismatch" }
  | s, _ => throw s!"bad status {s}"

def judgeScale : P Verdict := do
  let a : Float ← scalar
  let v : Vec Float ← vec
  expect "|"
  let r : Vec Float ← vec
  let m := Vec.scale a v
  let p := r.dim == v.dim && (!v.wf || (r.wf &&
      v.entries.all (fun e => feq (denF r.entries e.idx) (e.val * a)) &&
      r.entries.all (fun e => v.entries.any (·.idx == e.idx))))
  -- (whether a zero product is dropped or stays stored is not part of the property: both denote the same dense
  --  vector; the bit-level comparison with the model below still sees it)
  let c := r.dim == m.dim && entriesEq (nz r.entries) (nz m.entries)
  pure { prop := p, corr := c, bit := some (entriesBitEq r.entries m.entries),
         msg := if p && c then "" else s!"model={showVec m}" }

/-- `|impl − Σ terms| ≤ kbnTol terms` in exact rationals. -/
def withinKBN (impl : Float) (terms : List Float) : Bool :=
  match f2q impl with
  | none => false
  | some r =>
    let ts := terms.map f2q!
    qabs (r - qsum ts) ≤ kbnTol ts

def denseDotTerms (v1 v2 : Vec Float) : List Float :=
  (supportUnion v1.entries v2.entries).filterMap fun i =>
    if v1.entries.any (·.idx == i) && v2.entries.any (·.idx == i) then
      some (denF v1.entries i * denF v2.entries i) else none

def judgeDot : P Verdict := do
  let v1 : Vec Float ← vec
  let v2 : Vec Float ← vec
  expect "|"
  let r : Float ← scalar
  let rs : Float ← scalar
  let mt := dotTerms v1.entries v2.entries
  let m := vecDot v1.entries v2.entries
  let fin := allFinite v1.entries && allFinite v2.entries && (denseDotTerms v1 v2).all Float.isFinite
  let p := !(v1.wf && v2.wf && fin) ||
    (withinKBN r (denseDotTerms v1 v2) && floatShow r == floatShow rs)
  let c := !fin || withinKBN r mt
  pure { prop := p, corr := c, bit := some (floatShow r == floatShow m),
         msg := if p && c then "" else s!"model={floatShow m}" }

def judgeSum : P Verdict := do
  let v : Vec Float ← vec
  expect "|"
  let r : Float ← scalar
  let ts := v.entries.map (·.val)
  let m := v.sum
  let ok := withinKBN r ts
  pure { prop := ok, corr := ok, bit := some (floatShow r == floatShow m),
         msg := if ok then "" else s!"model={floatShow m}" }

def judgeNorm2 : P Verdict := do
  let v : Vec Float ← vec
  expect "|"
  let r : Float ← scalar
  let ts := v.entries.map fun e => e.val * e.val
  let m := Float.sqrt v.sumSq
  let fin := ts.all Float.isFinite
  let ok := !fin || (match f2q r with
    | none => false
    | some q =>
      let tq := ts.map f2q!
      let s := qsum tq
      q ≥ 0 && qabs (q * q - s) ≤ 4 * uRound * s + 4 * kbnTol tq + tiny)
  pure { prop := ok, corr := ok, bit := some (floatShow r == floatShow m),
         msg := if ok then "" else s!"model={floatShow m}" }

def judgeMulVec : P Verdict := do
  let m : CSM Float ← csm
  let v : Vec Float ← vec
  expect "|"
  let st ← tok
  let model := mulVec m v
  match st, model with
  | "err", .error _ => pure { prop := !(m.major == m.minor && m.major == v.dim), corr := true, bit := some true }
  | "ok", .ok mv =>
    let r : Vec Float ← vec
    let inWF := m.wf && v.wf
    let rowOK := fun (i : Nat) =>
      let row : Vec Float := m.rowVec i
      let ts := denseDotTerms row v
      let x := denF r.entries i
      !(ts.all Float.isFinite) || withinKBN x ts
    let p := m.major == m.minor && m.major == v.dim &&
      (!inWF || (r.dim == v.dim && r.wf && (List.range m.major).all rowOK &&
        r.entries.all (fun e => e.val != 0)))
    let c := r.dim == mv.dim && (nz r.entries).length == (nz mv.entries).length &&
      ((nz r.entries).zip (nz mv.entries)).all (fun (a, b) => a.idx == b.idx) &&
      (List.range m.major).all (fun i =>
        let ts := dotTerms (m.rows.getD i []) v.entries
        !(ts.all Float.isFinite) || withinKBN (denF r.entries i) ts)
    pure { prop := p, corr := c, bit := some (entriesBitEq r.entries mv.entries),
           msg := if p && c then "" else s!"model={showVec mv}" }
  | "err", .ok mv => pure { prop := false, corr := false, msg := s!"impl err, model={showVec mv}" }
  | "ok", .error _ => pure { prop := false, corr := false, msg := "impl ok on dimension mismatch" }
  | s, _ => throw s!"bad status {s}"

def judgeC09 (op : String) : P Verdict :=
  match op with
  | "add" => judgeAddSub false
  | "sub" => judgeAddSub true
  | "scale" => judgeScale
  | "dot" => judgeDot
  | "sum" => judgeSum
  | "norm2" => judgeNorm2
  | "mulvec" => judgeMulVec
  | _ => throw s!"C09: unknown op {op}"

end EtVerif.Driver
