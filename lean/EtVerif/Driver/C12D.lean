/-
  Driver handler for C12 histories:
    C12 hist <csm m0> <nsteps> ( <op…> "|" <status> <csm> <mapped 0|1> <nonEmpty> <inMap> <tmpfiles> <maplines> | panic )* end <leakedMaps> <tmpfiles>
  ops: mmap | mmap-cancel <k> | mmap-notmpdir | mmap-rotmpdir | munmap | merge <csm u> | mergeinto <csm t> | setdim r c | reset | gc
  The model's ledger and location tags must agree with the process: files in TMPDIR, swap-file
  lines in /proc/self/maps, rows inside the adopted mapping.
-/
import EtVerif.Driver.FeD
import EtVerif.Model.Mmap

namespace EtVerif.Driver
open EtVerif Scalar EtVerif.Mm

def judgeMmapHist : P Verdict := do
  let m0 : CSM Float ← csm
  let n ← nat
  let mut s : MState Float := fresh m0 {}
  let mut p := true
  let mut c := true
  let mut msg := ""
  for k in [0:n] do
    let op ← tok
    let mut expectStatus := "ok"
    -- the implementation's dirtiness test is conservative (pointer range computed from the CURRENT entry count:
    -- after an in-place column shrink it re-maps a matrix all of whose rows still lie in the mapping); a re-map
    -- cancelled at one of its polls — or failing at CreateTemp — leaves everything as it was, which is exactly the
    -- model's no-op
    let cleanBefore := (match s.mapped with | some id => !dirty s id | none => false)
    match op with
    | "mmap" =>
      let (s', r) := mmap {} s
      s := s'; expectStatus := match r with | .ok _ => "ok" | .error .ctx => "ctxerr" | .error .sys => "err"
    | "mmap-cancel" =>
      let kk ← nat
      let (s', r) := mmap { cancelAtRow := some (kk - 1) } s
      s := s'; expectStatus := match r with | .ok _ => "ok" | .error .ctx => "ctxerr" | .error .sys => "err"
    | "mmap-notmpdir" | "mmap-rotmpdir" =>
      let (s', r) := mmap { createTemp := true } s
      s := s'; expectStatus := match r with | .ok _ => "ok" | .error .ctx => "ctxerr" | .error .sys => "err"
    | "munmap" => s := munmap s
    | "merge" =>
      let u : CSM Float ← csm
      s := (merge s (fresh u s.led)).1
    | "mergeinto" =>
      let t : CSM Float ← csm
      let (t', _) := merge (fresh t s.led) s
      s := { t' with led := (munmap s).led }
    | "setdim" =>
      let r ← nat; let cc ← nat
      s := setDim s r cc
    | "reset" => s := reset s
    | "gc" => pure ()
    | o => throw s!"C12: unknown op {o}"
    expect "|"
    let st ← tok
    if st == "panic" then
      set ([] : List String)
      return { prop := false, corr := false, msg := s!"step {k} {op}: implementation panicked" }
    let r : CSM Float ← csm
    let mapped ← flag
    let nonEmpty ← nat
    let inMap ← nat
    let tmpf ← nat
    let mapl ← nat
    -- PROP: contents (transparency), off-heap residency, ledger
    let contentsOK := csmEq r s.m
    let residencyOK := !mapped || inMap == nonEmpty || (dirtyNow s)
    let offHeapOK := !(op.startsWith "mmap" && st == "ok") || (inMap == nonEmpty && (nonEmpty == 0 || mapped))
    let ledgerOK := tmpf == 0 && mapl == (if mapped then 1 else 0)
    let _ := residencyOK
    let pk := contentsOK && offHeapOK && ledgerOK
    -- CORR with the model's ledger and tags
    let statusOK := st == expectStatus ||
      ((op == "mmap-cancel" && cleanBefore && expectStatus == "ok" && st == "ctxerr") ||
       ((op == "mmap-notmpdir" || op == "mmap-rotmpdir") && cleanBefore && expectStatus == "ok" && st == "err"))
    let ck := statusOK && csmEq r s.m && mapped == s.mapped.isSome &&
      nonEmpty == nonEmptyCount s && inMap == inMapCount s &&
      tmpf == s.led.files.length && mapl == s.led.maps.length
    if p && !pk then msg := s!"step {k} {op}: contents={contentsOK} offheap={offHeapOK} ledger={ledgerOK} (tmpfiles={tmpf} maplines={mapl} inMap={inMap}/{nonEmpty})"
    if c && !ck && msg.isEmpty then
      msg := s!"step {k} {op}: status {st} model {expectStatus}; mapped {mapped}/{s.mapped.isSome}; inMap {inMap}/{inMapCount s}; files {tmpf}/{s.led.files.length}; maps {mapl}/{s.led.maps.length}"
    p := p && pk; c := c && ck
  expect "end"
  let leaked ← nat
  let tmpEnd ← nat
  let endOK := leaked == 0 && tmpEnd == 0
  if p && !endOK then msg := s!"after dropping the matrix and GC: {leaked} mapping(s) and {tmpEnd} temp file(s) remain"
  pure { prop := p && endOK, corr := c, bit := some (p && c), msg := msg }
where
  dirtyNow (s : MState Float) : Bool := match s.mapped with
    | some id => dirty s id
    | none => false

/-- Server-level swap-out histories (OpenAPI handlers / gRPC trust-matrix service):
      srv <oapi|grpc> <nsteps> ( <op> <id> "|" <code> <stored> <maplines> <tmpfiles> )* end <leakedMaps> <tmpfiles>
    The ledger model at this level is one line: a stored matrix owns at most one mapping (`Mm.mmap` releases the
    previous one on re-map, `reset`/finalizer release it), so after every call the process holds at most `stored`
    swap-file mappings and no temporary file, and none once everything is deleted and collected. -/
def judgeMmapSrv : P Verdict := do
  let kind ← tok
  let n ← nat
  let mut p := true
  let mut msg := ""
  for k in [0:n] do
    let op ← tok
    let id ← tok
    expect "|"
    let code ← tok
    let stored ← nat
    let maps ← nat
    let tmpf ← nat
    let bad := code == "panic" || code == "timeout"
    let ok := !bad && maps ≤ stored && tmpf == 0
    if p && !ok then
      msg := s!"{kind} step {k} {op} {id}: code {code}; {maps} swap-file mapping(s) for {stored} stored matrix/matrices, {tmpf} temp file(s)"
    p := p && ok
  expect "end"
  let leaked ← nat
  let tmpEnd ← nat
  let endOK := leaked == 0 && tmpEnd == 0
  if p && !endOK then msg := s!"{kind}: after deleting every stored matrix, dropping the server and GC: {leaked} mapping(s) and {tmpEnd} temp file(s) remain"
  pure { prop := p && endOK, corr := p && endOK, bit := none, msg := msg }

end EtVerif.Driver
