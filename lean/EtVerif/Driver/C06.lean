/-
  Driver handlers for C06 (determinism) and C07 (cancellation outcome classes).
    C06 mulvec  <csm> <vec>               | <vec seq-ref> allSame sorted inputsSame runs
    C06 compute <csm c> <vec p> a e maxI  | <vec> allSame inputsSame
    C07 cancel  <op> <dim> <outcome> <detail…> | count
    C07 after   <op> <dim>                | leaked inputsSame
  The outcome set {ctxerr, full} is the one proved for the step system (Props/C07).
-/
import EtVerif.Driver.C08

namespace EtVerif.Driver
open EtVerif Scalar

def flag : P Bool := do
  let n ← nat
  pure (n == 1)

def judgeC06 (op : String) : P Verdict := do
  match op with
  | "mulvec" =>
    let m : CSM Float ← csm
    let v : Vec Float ← vec
    expect "|"
    let r : Vec Float ← vec
    let allSame ← flag
    let sorted ← flag
    let inputsSame ← flag
    let _runs ← nat
    let p := allSame && sorted && inputsSame && r.wf
    match mulVec m v with
    | .ok mv =>
      let c := r.dim == mv.dim && entriesBitEq r.entries mv.entries
      pure { prop := p, corr := c, bit := some c, msg := if p && c then "" else s!"model={showVec mv}" }
    | .error _ => pure { prop := p, corr := false, msg := "model: dimension error" }
  | "compute" =>
    let c : CSM Float ← csm
    let p : Vec Float ← vec
    let a : Float ← scalar
    let e : Float ← scalar
    let maxI ← nat
    expect "|"
    let r : Vec Float ← vec
    let allSame ← flag
    let inputsSame ← flag
    let pr := allSame && inputsSame && r.wf
    match compute 100000 c p a e { maxIterations := some (maxI : Int) } with
    | .ok res =>
      let cc := r.dim == res.t.dim && entriesBitEq r.entries res.t.entries
      pure { prop := pr, corr := cc, bit := some cc, msg := if pr && cc then "" else s!"model={showVec res.t}" }
    | .error _ => pure { prop := pr, corr := false, msg := "model: compute error" }
  | _ => throw s!"C06: unknown op {op}"

def restOfInput : P (List String) := do
  let mut acc : Array String := #[]
  repeat
    match (← peek?) with
    | some "|" => break
    | some t => let _ ← tok; acc := acc.push t
    | none => break
  pure acc.toList

def judgeC07 (op : String) : P Verdict := do
  match op with
  | "cancel" =>
    let what ← tok
    let _dim ← nat
    let outcome ← tok
    let detail ← restOfInput
    expect "|"
    let cnt ← nat
    let ok := outcome == "ctxerr" || outcome == "full"
    pure { prop := ok, corr := ok, bit := none,
           msg := if ok then "" else s!"{what}: outcome {outcome} ({" ".intercalate detail}) x{cnt} not in model outcome set [ctxerr, full]" }
  | "after" =>
    let what ← tok
    let _dim ← nat
    expect "|"
    let leaked ← flag
    let same ← flag
    let ok := !leaked && same
    pure { prop := ok, corr := ok, bit := none,
           msg := if ok then "" else s!"{what}: goroutine leak={leaked} inputsUnchanged={same}" }
  | _ => throw s!"C07: unknown op {op}"

end EtVerif.Driver
