/-
  Driver handlers for C08 (distrust extraction / discount) and C04 (canonicalisation).
    C08 extract  <csm>              | ok <csm P> <csm D> / err
    C08 discount <vec> <csm>        | <vec>
    C04 canon    n (idx val)*n      | ok n (idx val)*n / zerosum
    C04 canonlt  <csm> hasP [<vec>] | ok <csm> / err
    C04 canontv  <vec>              | <vec>
-/
import EtVerif.Driver.C11
import EtVerif.Model.Basic

namespace EtVerif.Driver
open EtVerif Scalar

def isSublistIdx : List (Entry Float) → List (Entry Float) → (Float → Float) → Bool
  | [], _, _ => true
  | _ :: _, [], _ => false
  | a :: as, b :: bs, f =>
    if a.idx == b.idx && floatShow a.val == floatShow (f b.val) then isSublistIdx as bs f
    else isSublistIdx (a :: as) bs f

def kbnF (es : List (Entry Float)) : Float := kbnSum (es.map fun (e : Entry Float) => e.val)

def judgeExtract : P Verdict := do
  let l : CSM Float ← csm
  expect "|"
  let st ← tok
  match st, extractDistrust l with
  | "err", .error _ => pure { prop := l.major != l.minor, corr := true, bit := some true }
  | "ok", .ok (mp, md) =>
    let p : CSM Float ← csm
    let d : CSM Float ← csm
    let rowOK := fun (i : Nat) =>
      let lr := rowOf l i; let pr := rowOf p i; let dr := rowOf d i
      pr.all (fun e => e.val >= 0) && dr.all (fun e => e.val > 0) &&
      pr.all (fun e => !hasIdx dr e.idx) &&
      isSublistIdx pr lr id && isSublistIdx dr lr (fun x => -x) &&
      pr.length + dr.length == lr.length
    let allFin := l.rows.all allFinite
    let pOK := l.major == l.minor && (!allFin ||
      (p.major == l.major && p.minor == l.minor && d.major == l.major && d.minor == l.major &&
       p.rows.length == l.rows.length && d.rows.length == l.rows.length &&
       (List.range l.rows.length).all rowOK))
    let c := csmBitEq p mp && csmBitEq d md
    pure { prop := pOK, corr := c, bit := some c, msg := if pOK && c then "" else s!"modelP={showCSM mp} modelD={showCSM md}" }
  | "err", .ok _ => pure { prop := false, corr := false, msg := "impl err on square matrix" }
  | "ok", .error _ => pure { prop := false, corr := false, msg := "impl ok on non-square matrix" }
  | s, _ => throw s!"bad status {s}"

def judgeDiscount : P Verdict := do
  let t : Vec Float ← vec
  let d : CSM Float ← csm
  expect "|"
  let r : Vec Float ← vec
  let m := discountTrustVector t d
  let fin := allFinite t.entries && d.rows.all allFinite
  let inWF := t.wf && d.wf && d.major == t.dim && d.minor == t.dim
  let tq := toQ t.entries
  let colOK := fun (j : Nat) =>
    let terms : List Rat := (List.range t.dim).filterMap fun i =>
      let ti := denE tq i
      let dij := denE (toQ (rowOf d i)) j
      if ti == 0 || dij == 0 then none else some (ti * dij)
    let exact := denE tq j - qsum terms
    let mag := qabs (denE tq j) + qsum (terms.map qabs)
    let tol := (2 * (terms.length + 2 : Nat) : Rat) * uRound * mag + tiny
    match f2q (denFl r.entries j) with
    | none => false
    | some x => qabs (x - exact) ≤ tol
  let p := !(fin && inWF) || (r.dim == t.dim && r.wf && (List.range t.dim).all colOK &&
            r.entries.all (fun e => e.val.isFinite))
  let c := r.dim == m.dim && entriesEq (nz r.entries) (nz m.entries)
  pure { prop := p, corr := c, bit := some (entriesBitEq r.entries m.entries),
         msg := if p && c then "" else s!"model={showVec m}" }

def judgeC08 (op : String) : P Verdict :=
  match op with
  | "extract" => judgeExtract
  | "discount" => judgeDiscount
  | _ => throw s!"C08: unknown op {op}"

/-! ### C04 -/

/-- exact check of a canonicalised span: `out_i * S ≈ in_i` and `Σ out ≈ 1`. -/
def canonSpanOK (inp out : List (Entry Float)) : Bool :=
  let vals := inp.map fun e => f2q! e.val
  let s := qsum vals
  let tolS := kbnTol vals
  inp.length == out.length && s != 0 &&
  ((inp.zip out).all fun (a, b) =>
    a.idx == b.idx &&
    (match f2q b.val with
     | none => false
     | some o =>
       let v := f2q! a.val
       -- |o*S − v| ≤ (tolS/|S| + 2u)|v|·(1+…)  ⇔  |o*S − v|·|S| ≤ (tolS + 2u|S|)·|v|·2
       qabs (o * s - v) * qabs s ≤ 2 * (tolS + 2 * uRound * qabs s) * qabs v + tiny)) &&
  (let so := qsum (out.map fun e => f2q! e.val)
   qabs (so - 1) * qabs s ≤ 2 * (tolS + ((inp.length + 2 : Nat) : Rat) * 2 * uRound * qsum (vals.map qabs)) + tiny)

def zeroSumOK (inp : List (Entry Float)) : Bool :=
  let vals := inp.map fun e => f2q! e.val
  qabs (qsum vals) ≤ kbnTol vals

def judgeCanon : P Verdict := do
  let es : List (Entry Float) ← entries
  expect "|"
  let st ← tok
  let fin := allFinite es && (kbnF es).isFinite
  match st, canonicalize es with
  | "zerosum", m =>
    let p := !fin || zeroSumOK es
    pure { prop := p, corr := (match m with | .error _ => true | .ok _ => false), bit := none }
  | "ok", m =>
    let out : List (Entry Float) ← entries
    let p := !fin || canonSpanOK es out
    match m with
    | .ok mo => pure { prop := p, corr := !fin || canonSpanOK es out, bit := some (entriesBitEq out mo),
                       msg := if p then "" else s!"model={showEntries mo}" }
    | .error _ => pure { prop := p, corr := false, msg := "model says zero sum" }
  | s, _ => throw s!"bad status {s}"

def judgeCanonLT : P Verdict := do
  let m : CSM Float ← csm
  let hasP ← nat
  let pv : Option (Vec Float) ← (if hasP == 1 then do let v : Vec Float ← vec; pure (some v) else pure none)
  expect "|"
  let st ← tok
  let model := canonicalizeLocalTrust m pv
  let expectErr := m.major != m.minor || (match pv with | some p => p.dim != m.major | none => false)
  match st, model with
  | "err", .error _ => pure { prop := expectErr, corr := true, bit := some true }
  | "ok", .ok mm =>
    let r : CSM Float ← csm
    let rowOK := fun (i : Nat) =>
      let inp := rowOf m i; let out := rowOf r i
      let fin := allFinite inp && (kbnF inp).isFinite
      !fin || canonSpanOK inp out ||
        (zeroSumOK inp && (match pv with
          | some p => entriesBitEq out p.entries
          | none => entriesBitEq out inp))
    let p := !expectErr && r.major == m.major && r.minor == m.minor && r.rows.length == m.rows.length &&
      (List.range m.rows.length).all rowOK
    pure { prop := p, corr := p, bit := some (csmBitEq r mm), msg := if p then "" else s!"model={showCSM mm}" }
  | "err", .ok _ => pure { prop := false, corr := false, msg := "impl err, model ok" }
  | "ok", .error _ => pure { prop := false, corr := false, msg := "impl ok, model err" }
  | s, _ => throw s!"bad status {s}"

def judgeCanonTV : P Verdict := do
  let v : Vec Float ← vec
  expect "|"
  let r : Vec Float ← vec
  let m := canonicalizeTrustVector v
  let fin := allFinite v.entries && (kbnF v.entries).isFinite
  let uniformOK := r.entries.length == v.dim &&
    (r.entries.zipIdx.all fun (e, i) => e.idx == i && floatShow e.val == floatShow (1.0 / Float.ofNat v.dim))
  let p := r.dim == v.dim && (!fin || canonSpanOK v.entries r.entries || (zeroSumOK v.entries && uniformOK))
  pure { prop := p, corr := p, bit := some (entriesBitEq r.entries m.entries),
         msg := if p then "" else s!"model={showVec m}" }

def judgeC04 (op : String) : P Verdict :=
  match op with
  | "canon" => judgeCanon
  | "canonlt" => judgeCanonLT
  | "canontv" => judgeCanonTV
  | _ => throw s!"C04: unknown op {op}"

end EtVerif.Driver
