/-
  Driver glue (trusted base item 4): token stream parsing, hex <-> Float / Rat conversion,
  canonical printing.  Core-only.
-/
import EtVerif.Model.Sparse

namespace EtVerif.Driver
open EtVerif

abbrev P := StateT (List String) (Except String)

def tok : P String := do
  match (← get) with
  | [] => throw "unexpected end of line"
  | t :: ts => set ts; pure t

def peek? : P (Option String) := do
  match (← get) with
  | [] => pure none
  | t :: _ => pure (some t)

def expect (s : String) : P Unit := do
  let t ← tok
  if t != s then throw s!"expected {s}, got {t}"

def nat : P Nat := do
  let t ← tok
  match t.toNat? with
  | some n => pure n
  | none => throw s!"bad nat {t}"

def int : P Int := do
  let t ← tok
  match t.toInt? with
  | some n => pure n
  | none => throw s!"bad int {t}"

def hexDigit (c : Char) : Option Nat :=
  if '0' ≤ c ∧ c ≤ '9' then some (c.toNat - '0'.toNat)
  else if 'a' ≤ c ∧ c ≤ 'f' then some (c.toNat - 'a'.toNat + 10)
  else none

def parseHex (s : String) : Option Nat :=
  s.foldl (fun acc c => match acc, hexDigit c with
    | some a, some d => some (a * 16 + d)
    | _, _ => none) (some 0)

def bits : P UInt64 := do
  let t ← tok
  match parseHex t with
  | some n => pure n.toUInt64
  | none => throw s!"bad hex {t}"

def rep {β : Type} (n : Nat) (p : P β) : P (List β) := do
  let mut acc : Array β := #[]
  for _ in [0:n] do
    acc := acc.push (← p)
  pure acc.toList

/-- exact rational value of a finite IEEE-754 binary64 bit pattern. -/
def ratOfBits (b : UInt64) : Option Rat :=
  let sign := (b >>> 63).toNat
  let exp := ((b >>> 52) &&& 0x7ff).toNat
  let man := (b &&& 0xfffffffffffff).toNat
  if exp == 0x7ff then none
  else
    let m : Nat := if exp == 0 then man else man + 2^52
    let e : Int := if exp == 0 then -1074 else (exp : Int) - 1075
    let v : Rat := if e ≥ 0 then ((m * 2 ^ e.toNat : Nat) : Rat)
                   else (m : Rat) / ((2 ^ (-e).toNat : Nat) : Rat)
    some (if sign == 1 then -v else v)

/-- A scalar the driver can read from / write to the wire. -/
class Wire (α : Type) extends Scalar α where
  ofBits : UInt64 → Option α
  /-- canonical text (Float: 16 hex digits, NaN canonicalised; Rat: num/den) -/
  str : α → String

def hex16 (n : UInt64) : String :=
  let ds := (Nat.toDigits 16 n.toNat)
  String.ofList (List.replicate (16 - ds.length) '0' ++ ds)

def floatShow (x : Float) : String :=
  if x.isNaN then "NAN" else hex16 x.toBits

instance : Wire Float where
  ofBits b := some (Float.ofBits b)
  str := floatShow

instance : Wire Rat where
  ofBits := ratOfBits
  str q := s!"{q.num}/{q.den}"

variable {α : Type} [Wire α]

def scalar : P α := do
  let b ← bits
  match Wire.ofBits b with
  | some x => pure x
  | none => throw "nonfinite"

def entry : P (Entry α) := do
  let i ← nat
  let v ← scalar
  pure ⟨i, v⟩

def entries : P (List (Entry α)) := do
  let n ← nat
  rep n entry

/-- `dim n (idx val)*n` -/
def vec : P (Vec α) := do
  let d ← nat
  let es ← entries
  pure ⟨d, es⟩

/-- `major minor nrows (n (idx val)*n)*nrows` -/
def csm : P (CSM α) := do
  let ma ← nat
  let mi ← nat
  let nr ← nat
  let rows ← rep nr entries
  pure ⟨ma, mi, rows, []⟩

def coo : P (Coo α) := do
  let r ← nat
  let c ← nat
  let v ← scalar
  pure ⟨r, c, v⟩

def showEntries (es : List (Entry α)) : String :=
  " ".intercalate (toString es.length :: es.map fun e => s!"{e.idx} {Wire.str e.val}")

def showVec (v : Vec α) : String := s!"{v.dim} {showEntries v.entries}"

def showCSM (m : CSM α) : String :=
  " ".intercalate ([toString m.major, toString m.minor, toString m.rows.length] ++ m.rows.map showEntries)

/-- non-zero content, the observation most properties make of a sparse value. -/
def nz (es : List (Entry α)) : List (Entry α) := es.filter fun e => !Scalar.isZero e.val

def runP {β : Type} (p : P β) (toks : List String) : Except String (β × List String) := p.run toks

end EtVerif.Driver
