/-
  Driver handlers for the CSV front-ends (C19 CLI + library readers, C20 playground).
    field  := <hexraw|-> <i<n>|x> <i<n>|x> <bits|x>
    recs   := <nrec> ( <nf> field*nf )*nrec
    C20 upload <hasNames> [recs] <recs lt> <recs pt> hunch <i<n>|x> | <status|panic|timeout> [ nrows (hexname score flagged)* ]
    C19 cli <raw> <hdr> <recs lt> <csvok> pt <0|1> [recs csvok] it <0|1> [recs csvok] | ok <request…> / err / exit / panic
    C19 readlt <useNames> [recs names] <recs> <csvok> | ok <csm> / err / panic
-/
import EtVerif.Driver.GrpcD
import EtVerif.Model.Frontends

namespace EtVerif.Driver
open EtVerif Scalar EtVerif.Fe

def unhex (s : String) : String :=
  if s == "-" then "" else
  let cs := s.toList
  let rec go : List Char → List UInt8 → List UInt8
    | a :: b :: t, acc => go t (((hexDigit a).getD 0 * 16 + (hexDigit b).getD 0).toUInt8 :: acc)
    | _, acc => acc.reverse
  let bytes := go cs []
  (String.fromUTF8? ⟨bytes.toArray⟩).getD s

def optFloatTok : P (Option Float) := do
  let t ← tok
  if t == "x" then pure none
  else match parseHex t with
    | some n => pure (some (Float.ofBits n.toUInt64))
    | none => throw s!"bad float token {t}"

def fieldP : P (Field Float) := do
  let raw := unhex (← tok)
  let a ← idxTok
  let p0 ← idxTok
  let f ← optFloatTok
  pure ⟨raw, a, p0, f⟩

def recordsP : P (List (Record Float)) := do
  let n ← nat
  rep n (do let nf ← nat; rep nf fieldP)

structure PRow where
  name : String
  score : Float
  flagged : Bool

def judgeUpload : P Verdict := do
  let hasNames ← flag
  let namesR ← (if hasNames then do let r ← recordsP; pure (some r) else pure none)
  let ltR ← recordsP
  let ptR ← recordsP
  expect "csvok"
  let csvOK ← flag
  expect "hunch"
  let hp ← idxTok
  expect "|"
  let st ← tok
  if st == "panic" || st == "timeout" then
    return { prop := false, corr := false, msg := s!"playground {st}" }
  let status := st.toNat?.getD 0
  let mut rows : List PRow := []
  if status == 200 then
    let n ← nat
    rows ← rep n (do let nm := unhex (← tok); let sc : Float ← scalar; let fl ← flag; pure (⟨nm, sc, fl⟩ : PRow))
  let u : Upload Float := { names := namesR, localTrust := ltR, preTrust := ptR, hunchPercent := hp }
  let model := if csvOK then calculate fuelCap (100.0 : Float) (1e-15 : Float) u else none
  match model with
  | none =>
    let ok := status == 400
    pure { prop := ok, corr := ok, bit := some ok,
           msg := if ok then "" else s!"unusable upload answered {status}, documented 400" }
  | some mrows =>
    if status != 200 then
      return { prop := false, corr := false, msg := s!"usable upload answered {status}" }
    -- CORR: same rows as the model (as a map name → (score, flagged)); order checked by PROP
    let corr := rows.length == mrows.length &&
      mrows.all fun mr => rows.any fun r => r.name == mr.name && floatShow r.score == floatShow mr.score && r.flagged == mr.flagged
    -- PROP
    let dim := mrows.length
    let names := (namesR.bind fun recs => readPeerNames recs [])
    let nameOf := fun (i : Nat) => match names with | some ns => ns.getD i "" | none => s!"Peer {i}"
    let eachOnce := rows.length == dim && (List.range dim).all fun i => (rows.filter (·.name == nameOf i)).length == 1
    let sortedDesc := (rows.zip (rows.drop 1)).all fun (a, b) => a.score >= b.score
    -- flags: exactly the peers that have a pre-trust record
    let ptIdx : List Nat := ptR.filterMap fun r => match r with
      | f :: _ => parsePeerId names f
      | [] => none
    let flagsOK := (List.range dim).all fun i =>
      rows.all fun r => r.name != nameOf i || r.flagged == ptIdx.contains i
    -- scores: reference EigenTrust scores (documented effective inputs, alpha = confidence/100, e = 1e-15)
    let ltCells : List (Int × Int × Float) := ltR.filterMap fun r => match r with
      | f0 :: f1 :: rest => match parsePeerId names f0, parsePeerId names f1 with
        | some i, some j => some ((i : Int), (j : Int), match rest with | f2 :: _ => f2.float.getD 1.0 | [] => 1.0)
        | _, _ => none
      | _ => none
    let ptCells : List (Int × Float) := ptR.filterMap fun r => match r with
      | f0 :: rest => match parsePeerId names f0 with
        | some i => some ((i : Int), match rest with | f1 :: _ => f1.float.getD 1.0 | [] => 1.0)
        | none => none
      | _ => none
    let alpha : Float := Float.ofInt (hp.getD 0) / 100.0
    let req : Oapi.ComputeReq Float :=
      { localTrust := .inline ⟨(dim : Int), ltCells.filter fun (_, _, v) => v != 0⟩,
        preTrust := some (.inline ⟨(dim : Int), ptCells⟩), alpha := some alpha, epsilon := some 1e-15 }
    let scoresOK := match docScores { stats := false, req := req, pre := none } with
      | none => true
      | some (ds, nn, a, _) =>
        let got : Array Rat := ((List.range nn).map fun i =>
          match rows.find? (·.name == nameOf i) with | some r => f2q! r.score | none => 0).toArray
        let bound : Rat := ((1 - a) / a * sqrtUp nn * (1 / 1000000000000000) + (1 / 100000000000000 : Rat) / a) * 2
          + (nn : Rat) * 64 * uRound
        nn != dim || l1Dist nn got ds ≤ bound
    let p := eachOnce && sortedDesc && flagsOK && scoresOK
    pure { prop := p, corr := corr, bit := some corr,
           msg := if p && corr then "" else s!"eachOnce={eachOnce} sorted={sortedDesc} flags={flagsOK} scores={scoresOK} modelRows={mrows.length}" }

/-! ### CLI -/

def firstAppear (xs : List String) : List String :=
  xs.foldl (fun acc x => if acc.contains x then acc else acc ++ [x]) []

def judgeCli : P Verdict := do
  let raw ← flag
  let hdr ← flag
  let ltR ← recordsP
  let ltOK ← flag
  expect "pt"
  let hasPT ← flag
  let mut ptR : Option (List (Record Float)) := none
  let mut allOK := ltOK
  if hasPT then
    ptR := some (← recordsP); let ok ← flag; allOK := allOK && ok
  expect "it"
  let hasIT ← flag
  let mut itR : Option (List (Record Float)) := none
  if hasIT then
    itR := some (← recordsP); let ok ← flag; allOK := allOK && ok
  expect "|"
  let st ← tok
  let model := if allOK then cliBuildRequest raw hdr ltR ptR itR else none
  if st == "panic" then
    return { prop := false, corr := false, msg := "CLI panicked" }
  if st != "ok" then
    let ok := model.isNone
    return { prop := ok, corr := ok, bit := some ok, msg := if ok then "" else "CLI refused files the model accepts" }
  -- parse the printed request
  let size ← int
  let n ← nat
  let es ← rep n ientryM
  let vecP : P (Option (Int × List (Int × Float))) := do
    let h ← nat
    if h == 0 then pure none else
      let sz ← int; let k ← nat; let ve ← rep k ientryV
      pure (some (sz, ve))
  let pv ← vecP
  let iv ← vecP
  let np ← nat
  let peerIds ← rep np (do pure (unhex (← tok)))
  match model with
  | none => pure { prop := false, corr := false, msg := "CLI accepted files the model refuses" }
  | some m =>
    let eqM := size == m.localTrust.size && es.length == m.localTrust.entries.length &&
      (es.zip m.localTrust.entries).all fun ((i, j, v), (mi, mj, mv)) => i == mi && j == mj && floatShow v == floatShow mv
    let eqV := fun (a : Option (Int × List (Int × Float))) (b : Option (Oapi.IVector Float)) => match a, b with
      | none, none => true
      | some (sz, ve), some mv => sz == mv.size && ve.length == mv.entries.length &&
          (ve.zip mv.entries).all fun ((i, v), (mi, mvv)) => i == mi && floatShow v == floatShow mvv
      | _, _ => false
    let corr := eqM && eqV pv m.preTrust && eqV iv m.initialTrust && (raw || peerIds == m.peerIds)
    -- PROP (independent): first-appearance indexing over the concatenated name stream
    let body := fun (recs : List (Record Float)) => if hdr then recs.drop 1 else recs
    let stream : List String :=
      ((body ltR).map fun r => (r.take 2).map (·.raw)).flatten ++
      (match ptR with | some r => (body r).filterMap (fun x => x.head?.map (·.raw)) | none => []) ++
      (match itR with | some r => (body r).filterMap (fun x => x.head?.map (·.raw)) | none => [])
    let tbl := firstAppear stream
    let idxOf : Field Float → Int := fun f => if raw then f.parseInt0.getD (-1) else (tbl.idxOf f.raw : Int)
    let wantM : List (Int × Int × Float) := (body ltR).map fun r =>
      (idxOf (r.getD 0 default), idxOf (r.getD 1 default), match r.drop 2 with | f :: _ => f.float.getD 0 | [] => 1.0)
    let arcsOK := es.length == wantM.length &&
      (es.zip wantM).all fun ((i, j, v), (wi, wj, wv)) => i == wi && j == wj && floatShow v == floatShow wv
    let sizeOK := size == (wantM.foldl (fun d (i, j, _) => max d (max (i + 1) (j + 1))) 0)
    let tblOK := raw || peerIds == tbl
    let vecOK := fun (a : Option (Int × List (Int × Float))) (recs : Option (List (Record Float))) => match a, recs with
      | none, none => true
      | some (sz, ve), some r =>
        let want := (body r).map fun x => (idxOf (x.getD 0 default), match x.drop 1 with | f :: _ => f.float.getD 0 | [] => 1.0)
        ve.length == want.length && ((ve.zip want).all fun ((i, v), (wi, wv)) => i == wi && floatShow v == floatShow wv) &&
        sz == want.foldl (fun d (i, _) => max d (i + 1)) 0
      | _, _ => false
    let p := arcsOK && sizeOK && tblOK && vecOK pv ptR && vecOK iv itR
    pure { prop := p, corr := corr, bit := some corr,
           msg := if p && corr then "" else s!"arcs={arcsOK} size={sizeOK} table={tblOK} model.size={m.localTrust.size}" }

def judgeReadLT : P Verdict := do
  let useNames ← flag
  let namesR ← (if useNames then do let r ← recordsP; pure (some r) else pure none)
  let recs ← recordsP
  let csvOK ← flag
  expect "|"
  let st ← tok
  let names := namesR.bind fun r => readPeerNames r []
  let model := if csvOK then readLocalTrust names recs else none
  match st, model with
  | "panic", _ => pure { prop := false, corr := false, msg := "ReadLocalTrustFromCsv panicked" }
  | "err", none => pure { prop := true, corr := true, bit := some true }
  | "err", some _ => pure { prop := false, corr := false, msg := "reader refused records the model accepts" }
  | "ok", m =>
    let r : CSM Float ← csm
    match m with
    | none => pure { prop := false, corr := false, msg := "reader accepted records the model refuses" }
    | some mm =>
      -- PROP: exactly the listed arcs
      let arcs : List (Nat × Nat × Float) := recs.filterMap fun x => match x with
        | f0 :: f1 :: rest => match parsePeerId names f0, parsePeerId names f1 with
          | some i, some j => some (i, j, (match rest with | f2 :: _ => f2.float.getD 0.0 | [] => (1.0 : Float)))
          | _, _ => none
        | _ => none
      let dim := arcs.foldl (fun d (i, j, _) => max d (max (i + 1) (j + 1))) 0
      let nzArcs := arcs.filter fun (_, _, v) => v != 0
      let p := r.major == dim && r.minor == dim && r.nnz == nzArcs.length &&
        nzArcs.all fun (i, j, v) => (rowOf r i).any fun e => e.idx == j && floatShow e.val == floatShow v
      let c := csmBitEq r mm
      pure { prop := p, corr := c, bit := some c, msg := if p && c then "" else s!"model={showCSM mm}" }
  | s, _ => throw s!"bad status {s}"

/-- `C19 readnames <recs> <csvok> | ok n (hexname idx)* / err / panic`: the peer list is exactly the first fields,
    duplicate-free, and the name → index map is its inverse. -/
def judgeReadNames : P Verdict := do
  let recs ← recordsP
  let csvOK ← flag
  expect "|"
  let st ← tok
  let model := if csvOK then readPeerNames recs [] else none
  match st, model with
  | "panic", _ => pure { prop := false, corr := false, msg := "ReadPeerNamesFromCsv panicked" }
  | "err", none => pure { prop := true, corr := true, bit := some true }
  | "err", some _ => pure { prop := false, corr := false, msg := "reader refused a peer list the model accepts" }
  | "ok", m =>
    let n ← nat
    let got ← rep n (do let nm := unhex (← tok); let i ← nat; pure (nm, i))
    let firsts := recs.map fun r => (r.head?.map (·.raw)).getD ""
    let bij := (got.zipIdx.all fun ((_, i), k) => i == k) && got.map (·.1) == firsts && distinctBy firsts &&
      recs.all (fun r => !r.isEmpty)
    match m with
    | none => pure { prop := false, corr := false, msg := "reader accepted a peer list with a duplicate / empty record" }
    | some ms => pure { prop := bij, corr := got.map (·.1) == ms, bit := some (got.map (·.1) == ms),
                        msg := if bij then "" else "peer list is not a bijection onto 0..n-1" }
  | s, _ => throw s!"bad status {s}"

/-- `C15 oapicsv <recs> <csvok> | <status>`: a `file:` CSV body of /compute; unusable files are refused with 400. -/
def judgeOapiCsv : P Verdict := do
  let recs ← recordsP
  let csvOK ← flag
  expect "|"
  let st ← tok
  let model := if csvOK then oapiCsvMatrix recs else none
  let usable := match model with
    | some m => decide (m.major ≥ 1)      -- an empty matrix cannot be computed on
    | none => false
  let ok := match st.toNat? with
    | some code => if usable then code == 200 else code == 400
    | none => false
  pure { prop := ok, corr := ok, bit := none,
         msg := if ok then "" else s!"file: CSV body (usable={usable}) answered {st}" }

/-- `C19 pipeline <recs lt> pt <0|1> [recs] <alpha> | ok nOut (hexname bits)* nResp (i bits)* / err / panic`:
    the CLI against the real server on loopback.  Every response entry must come back under the name
    that first appeared at that index, with a decimal that re-parses to the identical float64, and the
    scores must be the reference EigenTrust scores of the CSV inputs. -/
def judgePipeline : P Verdict := do
  let ltR ← recordsP
  expect "pt"
  let hasPT ← flag
  let ptR ← (if hasPT then do let r ← recordsP; pure (some r) else pure none)
  let alpha : Float ← scalar
  expect "|"
  let st ← tok
  if st != "ok" then
    set ([] : List String)
    return { prop := false, corr := false, msg := s!"pipeline {st}" }
  let nOut ← nat
  let out ← rep nOut (do let nm := unhex (← tok); let v : Float ← scalar; pure (nm, v))
  let nResp ← nat
  let resp ← rep nResp (do let i ← nat; let v : Float ← scalar; pure (i, v))
  match cliBuildRequest false true ltR ptR none with
  | none => pure { prop := false, corr := false, msg := "model refuses the files" }
  | some m =>
    let tbl := m.peerIds
    -- index -> name, identical bits
    let mapped := out.length == resp.length &&
      (out.zip resp).all fun ((nm, v), (i, rv)) => tbl[i]? == some nm && floatShow v == floatShow rv
    let modelOut := cliOutput false tbl (resp.map fun (i, v) => ((i : Int), v))
    let corr := match modelOut with
      | some mo => mo.length == out.length && (mo.zip out).all fun ((a, x), (b, y)) => a == b && floatShow x == floatShow y
      | none => false
    -- reference scores
    let req : Oapi.ComputeReq Float :=
      { localTrust := .inline m.localTrust, preTrust := m.preTrust.map (.inline ·), alpha := some alpha }
    let scoresOK := match docScores { stats := false, req := req, pre := none } with
      | none => true
      | some (ds, nn, a, e) =>
        let got : Array Rat := ((List.range nn).map fun i =>
          match resp.find? (·.1 == i) with | some (_, v) => f2q! v | none => 0).toArray
        let bound := 2 * ((1 - a) / a * sqrtUp nn * e + (1 / 100000000000000 : Rat) / a) + (nn : Rat) * 64 * uRound
        l1Dist nn got ds ≤ bound
    let p := mapped && scoresOK
    pure { prop := p, corr := corr, bit := some corr,
           msg := if p && corr then "" else s!"mapped={mapped} scores={scoresOK} table={tbl}" }

end EtVerif.Driver
