/-
  Driver handlers for C11 (merge = last-writer-wins overlay) and C10 (construction, transpose,
  resize).  Values are only moved, never computed, so the Float model is the exact oracle.
    C11 vmerge  <vec> <vec>            | <vec> <vec(arg after)>
    C11 mmerge  <csm> <csm>            | <csm> <csm(arg after)>
    C11 vhist   <vec> n (<vec>)*n      | <vec>
    C11 rebatch rows cols n (r c v)*n  k1 (size)*k1  k2 (size)*k2 | <csm> <csm>
    C10 newcsr  rows cols inc n (r c v)*n | <csm>
    C10 transpose <csm>                | <csm(T)> <csm(TT)> <csm(view)>
    C10 hist    <csm> nops (op… | <csm> cap)*nops
-/
import EtVerif.Driver.Judge

namespace EtVerif.Driver
open EtVerif Scalar

def denFl (es : List (Entry Float)) (i : Nat) : Float := denE es i
def hasIdx (es : List (Entry Float)) (i : Nat) : Bool := es.any (·.idx == i)

/-- dense overlay spec on one span -/
def overlayOK (a b r : List (Entry Float)) : Bool :=
  let sup := supportUnion a b
  sup.all (fun i => feq (denFl r i) (if hasIdx b i then denFl b i else denFl a i)) &&
  (nz r).all (fun e => sup.contains e.idx)

def csmEq (a b : CSM Float) : Bool :=
  a.major == b.major && a.minor == b.minor && a.rows.length == b.rows.length &&
  (a.rows.zip b.rows).all fun (x, y) => entriesEq (nz x) (nz y)

def csmBitEq (a b : CSM Float) : Bool :=
  a.major == b.major && a.minor == b.minor && a.rows.length == b.rows.length &&
  (a.rows.zip b.rows).all fun (x, y) => entriesBitEq x y

def isEmptyVec (v : Vec Float) : Bool := v.dim == 0 && v.entries.isEmpty
def isEmptyCSM (m : CSM Float) : Bool := m.major == 0 && m.minor == 0 && m.rows.isEmpty

def judgeVMerge : P Verdict := do
  let v : Vec Float ← vec
  let v2 : Vec Float ← vec
  expect "|"
  let r : Vec Float ← vec
  let r2 : Vec Float ← vec
  let (m, _) := v.merge v2
  let inWF := v.wf && v2.wf
  let p := !inWF || (r.dim == max v.dim v2.dim && isEmptyVec r2 && r.wf && overlayOK v.entries v2.entries r.entries)
  let c := r.dim == m.dim && entriesEq (nz r.entries) (nz m.entries) && isEmptyVec r2
  pure { prop := p, corr := c, bit := some (entriesBitEq r.entries m.entries),
         msg := if p && c then "" else s!"model={showVec m}" }

def rowOf (m : CSM Float) (i : Nat) : List (Entry Float) := m.rows.getD i []

def judgeMMerge : P Verdict := do
  let a : CSM Float ← csm
  let b : CSM Float ← csm
  expect "|"
  let r : CSM Float ← csm
  let r2 : CSM Float ← csm
  let (m, _) := a.merge b
  let inWF := a.wf && b.wf
  let p := !inWF || (r.major == max a.major b.major && r.minor == max a.minor b.minor && isEmptyCSM r2 && r.wf &&
    (List.range r.major).all fun i => overlayOK (rowOf a i) (rowOf b i) (rowOf r i))
  let c := csmEq r m && isEmptyCSM r2
  pure { prop := p, corr := c, bit := some (csmBitEq r m), msg := if p && c then "" else s!"model={showCSM m}" }

def judgeVHist : P Verdict := do
  let v : Vec Float ← vec
  let n ← nat
  let us : List (Vec Float) ← rep n vec
  expect "|"
  let r : Vec Float ← vec
  let m := us.foldl (fun a u => (a.merge u).1) v
  -- dense spec: apply updates in order to a finite map
  let dimF := us.foldl (fun d u => max d u.dim) v.dim
  let cells : List (Nat × Float) := (us.foldl (fun (acc : List (Nat × Float)) u =>
      u.entries.foldl (fun acc e => (e.idx, e.val) :: acc.filter (·.1 != e.idx)) acc)
      (v.entries.map fun e => (e.idx, e.val)))
  let inWF := v.wf && us.all Vec.wf
  let p := !inWF || (r.dim == dimF && r.wf &&
    cells.all (fun (i, x) => feq (denFl r.entries i) x) &&
    (nz r.entries).all (fun e => cells.any (·.1 == e.idx)))
  let c := r.dim == m.dim && entriesEq (nz r.entries) (nz m.entries)
  pure { prop := p, corr := c, bit := some (entriesBitEq r.entries m.entries),
         msg := if p && c then "" else s!"model={showVec m}" }

def splitSizes {β : Type} : List β → List Nat → List (List β)
  | _, [] => []
  | xs, n :: ns => xs.take n :: splitSizes (xs.drop n) ns

def judgeRebatch : P Verdict := do
  let rows ← nat
  let cols ← nat
  let n ← nat
  let asg : List (Coo Float) ← rep n coo
  let k1 ← nat
  let s1 ← rep k1 nat
  let k2 ← nat
  let s2 ← rep k2 nat
  expect "|"
  let r1 : CSM Float ← csm
  let r2 : CSM Float ← csm
  let cells : List ((Nat × Nat) × Float) := asg.foldl (fun acc e =>
      ((e.row, e.col), e.val) :: acc.filter (fun x => x.1 != (e.row, e.col))) []
  let good := fun (r : CSM Float) =>
    r.major == rows && r.minor == cols && r.wf &&
    cells.all (fun ((i, j), x) => feq (denFl (rowOf r i) j) x) &&
    (List.range r.major).all (fun i => (nz (rowOf r i)).all fun e => cells.any (fun x => x.1 == (i, e.idx)))
  let runModel := fun (sizes : List Nat) =>
    (splitSizes asg sizes).foldl (fun (a : CSM Float) b =>
      (a.merge (CSM.newCSR rows cols b true)).1) (CSM.newCSR rows cols [] false)
  let m1 := runModel s1
  let m2 := runModel s2
  let p := good r1 && good r2 && csmEq r1 r2
  let c := csmEq r1 m1 && csmEq r2 m2
  pure { prop := p, corr := c, bit := some (csmBitEq r1 m1 && csmBitEq r2 m2),
         msg := if p && c then "" else s!"model1={showCSM m1}" }

def judgeC11 (op : String) : P Verdict :=
  match op with
  | "vmerge" => judgeVMerge
  | "mmerge" => judgeMMerge
  | "vhist" => judgeVHist
  | "rebatch" => judgeRebatch
  | _ => throw s!"C11: unknown op {op}"

/-! ### C10 -/

def judgeNewCSR : P Verdict := do
  let rows ← nat
  let cols ← nat
  let inc ← nat
  let n ← nat
  let es : List (Coo Float) ← rep n coo
  expect "|"
  let r : CSM Float ← csm
  let incl := inc == 1
  let m := CSM.newCSR rows cols es incl
  let want := es.filter fun e => incl || e.val != 0
  let p := r.major == rows && r.minor == cols && r.rows.length == rows && r.wf &&
    r.nnz == want.length &&
    want.all (fun e => (rowOf r e.row).any fun x => x.idx == e.col && floatShow x.val == floatShow e.val)
  let c := csmBitEq r m
  pure { prop := p, corr := c, bit := some (csmBitEq r m), msg := if p && c then "" else s!"model={showCSM m}" }

def denseT (m r : CSM Float) : Bool :=
  r.major == m.minor && r.minor == m.major && r.rows.length == m.minor && r.wf && r.nnz == m.nnz &&
  (List.range m.major).all fun i => (rowOf m i).all fun e =>
    (rowOf r e.idx).any fun x => x.idx == i && floatShow x.val == floatShow e.val

def judgeTranspose : P Verdict := do
  let m : CSM Float ← csm
  expect "|"
  let t : CSM Float ← csm
  let tt : CSM Float ← csm
  let view : CSM Float ← csm   -- TransposeToCSC().CSMatrix as (major, minor, rows)
  let mt := m.transpose
  let p := !m.wf || (denseT m t && csmBitEq tt m &&
    view.major == m.minor && view.minor == m.major && (view.rows.zip m.rows).all (fun (x, y) => entriesBitEq x y)
      && view.rows.length == m.rows.length)
  let c := csmBitEq t mt && csmBitEq tt mt.transpose
  pure { prop := p, corr := c, bit := some (csmBitEq t mt), msg := if p && c then "" else s!"model={showCSM mt}" }

/-- dense crop/pad + transpose + overlay interpretation of a history on a finite cell map -/
structure Dense where
  rows : Nat
  cols : Nat
  cells : List ((Nat × Nat) × Float)

def Dense.ofCSM (m : CSM Float) : Dense :=
  ⟨m.major, m.minor, (m.rows.zipIdx.map fun (r, i) => r.map fun e => ((i, e.idx), e.val)).flatten⟩

def Dense.crop (d : Dense) (r c : Nat) : Dense :=
  ⟨r, c, d.cells.filter fun ((i, j), _) => i < r && j < c⟩

def Dense.matches (d : Dense) (m : CSM Float) : Bool :=
  m.major == d.rows && m.minor == d.cols && m.wf &&
  d.cells.all (fun ((i, j), x) => feq (denFl (rowOf m i) j) x) &&
  (List.range m.major).all (fun i => (nz (rowOf m i)).all fun e => d.cells.any (fun x => x.1 == (i, e.idx)))

def judgeHist : P Verdict := do
  let m0 : CSM Float ← csm
  let nops ← nat
  let mut m := m0
  let mut d := Dense.ofCSM m0
  let mut p := true
  let mut c := true
  let mut b := true
  let mut msg := ""
  for k in [0:nops] do
    let op ← tok
    match op with
    | "setdim" =>
      let r ← nat; let cc ← nat
      m := m.setDim r cc; d := d.crop r cc
    | "setmajor" =>
      let r ← nat
      m := m.setMajorDim r; d := d.crop r d.cols
    | "setminor" =>
      let cc ← nat
      m := m.setMinorDim cc; d := d.crop d.rows cc
    | "transpose" =>
      m := m.transpose
      d := ⟨d.cols, d.rows, d.cells.map fun ((i, j), x) => ((j, i), x)⟩
    | "merge" =>
      let u : CSM Float ← csm
      m := (m.merge u).1
      let d1 : Dense := ⟨max d.rows u.major, max d.cols u.minor, d.cells⟩
      let ucells := (Dense.ofCSM u).cells
      d := ⟨d1.rows, d1.cols, ucells ++ d1.cells.filter fun x => !ucells.any (·.1 == x.1)⟩
    | o => throw s!"hist: unknown op {o}"
    expect "|"
    if (← peek?) == some "panic" then
      set ([] : List String)
      return { prop := false, corr := false, msg := s!"step {k} {op}: implementation panicked; model={showCSM m}" }
    let r : CSM Float ← csm
    let cap ← nat
    let pk := d.matches r
    let ck := csmEq r m && cap == m.rows.length + m.hidden.length
    if p && !pk then msg := s!"step {k} {op}: dense spec violated; model={showCSM m}"
    if c && !ck && msg.isEmpty then msg := s!"step {k} {op}: model={showCSM m} cap={m.rows.length + m.hidden.length}"
    p := p && pk; c := c && ck; b := b && csmBitEq r m
  pure { prop := !m0.wf || p, corr := c, bit := some b, msg := msg }

def judgeC10 (op : String) : P Verdict :=
  match op with
  | "newcsr" => judgeNewCSR
  | "transpose" => judgeTranspose
  | "hist" => judgeHist
  | _ => throw s!"C10: unknown op {op}"

end EtVerif.Driver
