/-
  Driver handlers for the OpenAPI front-end: C03 (documented defaults/alignment), C02 (API level),
  C13 (stored local trust, sequential histories), C14 (stored = inline, isolation flags),
  C15 (outcome classes of the oapi front-end).

  Grammar
    mref  := inline <size:int> <n> (i j v)*n | stored <id> <size:int> <n> (i j v)*n | objstore | unknownscheme
    vref  := inline <size:int> <n> (i v)*n | objstore | unknownscheme
    creq  := <compute|stats> <mref> pt <0|1> [vref] it <0|1> [vref] alpha <0|1> [f] eps <0|1> [f]
             flat <oi> leaders <oi> max <oi> min <oi> freq <oi>
    cresp := <status:int> [ size <n> <k> (i v)*k [ stats length threshold deltaNorm <0|1> [m idx*m] ] ]   (200 only)
             | panic | timeout
    Cxx oapi <creq> | <cresp>
    C13 hist <nsteps> ( put <id> <merge 0|1> <mref> | get <id> | head <id> | delete <id>   "|" <status:int> [ body <size> <k> (i j v)*k <scheme> ] )*
    C14 isolate <creq> | <getSame 0|1> <storedEqInline 0|1> <status>
-/
import EtVerif.Driver.Compute
import EtVerif.Model.Oapi

namespace EtVerif.Driver
open EtVerif Scalar EtVerif.Oapi

def ientryM : P (Int × Int × Float) := do
  let i ← int; let j ← int; let v : Float ← scalar
  pure (i, j, v)

def ientryV : P (Int × Float) := do
  let i ← int; let v : Float ← scalar
  pure (i, v)

/-- returns the reference and, for `stored`, the (id, content) to pre-load into the model store -/
def mref : P (MatrixRef Float × Option (String × IMatrix Float)) := do
  match (← tok) with
  | "inline" =>
    let size ← int; let n ← nat; let es ← rep n ientryM
    pure (.inline ⟨size, es⟩, none)
  | "stored" =>
    let id ← tok; let size ← int; let n ← nat; let es ← rep n ientryM
    pure (.stored id, some (id, ⟨size, es⟩))
  | "storedmissing" =>
    let id ← tok
    pure (.stored id, none)
  | "objstore" => pure (.objectStorage "x", none)
  | "unknownscheme" => pure (.unknown "x", none)
  | t => throw s!"bad mref {t}"

def vref : P (VectorRef Float) := do
  match (← tok) with
  | "inline" =>
    let size ← int; let n ← nat; let es ← rep n ientryV
    pure (.inline ⟨size, es⟩)
  | "objstore" => pure (.objectStorage "x")
  | "unknownscheme" => pure (.unknown "x")
  | t => throw s!"bad vref {t}"

def optP {β : Type} (p : P β) : P (Option β) := do
  let h ← nat
  if h == 1 then pure (some (← p)) else pure none

structure OReq where
  stats : Bool
  req : ComputeReq Float
  pre : Option (String × IMatrix Float)

def oreq : P OReq := do
  let ep ← tok
  let (lt, pre) ← mref
  expect "pt"; let pt ← optP vref
  expect "it"; let it ← optP vref
  expect "alpha"; let alpha : Option Float ← optP scalar
  expect "eps"; let eps : Option Float ← optP scalar
  expect "flat"; let flat ← optInt
  expect "leaders"; let leaders ← optInt
  expect "max"; let maxI ← optInt
  expect "min"; let minI ← optInt
  expect "freq"; let freq ← optInt
  pure { stats := ep == "stats", pre,
         req := { localTrust := lt, initialTrust := it, preTrust := pt, alpha := alpha, epsilon := eps,
                  flatTail := flat, numLeaders := leaders, maxIterations := maxI, minIterations := minI,
                  checkFreq := freq } }

def constsF : Consts Float := { half := 0.5, epsNum := 1e-6 }

def storeOf (pre : Option (String × IMatrix Float)) : Store Float :=
  match pre with
  | some (id, m) => match loadInlineMatrix m with
    | some c => [(id, c)]
    | none => []
  | none => []

structure OResp where
  status : Nat
  scores : Option (Vec Float)
  stats : Option (Nat × Nat × Float × Option (List Nat))

def oresp : P (Option OResp × String) := do
  let st ← tok
  if st == "panic" || st == "timeout" then return (none, st)
  match st.toNat? with
  | none => throw s!"bad status {st}"
  | some code =>
    if code != 200 then return (some ⟨code, none, none⟩, st)
    expect "size"
    let n ← nat
    let es : List (Entry Float) ← entries
    let mut stats := none
    if (← peek?) == some "stats" then
      let _ ← tok
      let l ← nat; let th ← nat; let d : Float ← scalar
      let rk ← optP (do let m ← nat; rep m nat)
      stats := some (l, th, d, rk)
    return (some ⟨200, some ⟨n, es⟩, stats⟩, st)

/-! ### the documented effective inputs, dense, in exact rationals (API doc oracle) -/

def imSize : MatrixRef Float → Option (String × IMatrix Float) → Option (IMatrix Float)
  | .inline m, _ => some m
  | .stored _, some (_, m) => some m
  | _, _ => none

def ivOf : Option (VectorRef Float) → Option (Option (IVector Float))
  | none => some none
  | some (.inline v) => some (some v)
  | some _ => none

def distinctBy {β : Type} [BEq β] (xs : List β) : Bool := xs.eraseDups.length == xs.length

/-- documented scores: `some (scores, n, a, e)`; `none` when the request is not a valid inline one,
    has duplicate coordinates, or alpha = 0 (no unique fixed point). -/
def docScores (r : OReq) : Option (Array Rat × Nat × Rat × Rat) := do
  let m ← imSize r.req.localTrust r.pre
  let pv ← ivOf r.req.preTrust
  let tv ← ivOf r.req.initialTrust
  if m.size ≤ 0 then none
  let inR := fun (sz : Int) (i : Int) => 0 ≤ i && i < sz
  if !(m.entries.all fun (i, j, v) => inR m.size i && inR m.size j && v.isFinite) then none
  if !(distinctBy (m.entries.map fun (i, j, _) => (i, j))) then none
  let vecOK := fun (v : IVector Float) =>
    decide (v.size ≥ 1) && (v.entries.all fun (i, x) => inR v.size i && x > 0 && x.isFinite) && distinctBy (v.entries.map (·.1))
  if !(match pv with | some v => vecOK v | none => true) then none
  if !(match tv with | some v => vecOK v | none => true) then none
  let n : Nat := max m.size.toNat (max (match pv with | some v => v.size.toNat | none => 0)
                                       (match tv with | some v => v.size.toNat | none => 0))
  let a : Rat := match r.req.alpha with | some x => f2q! x | none => 1 / 2
  let e : Rat := match r.req.epsilon with
    | some x => f2q! x
    | none => f2q! ((1e-6 : Float) / Float.ofNat n)
  if a ≤ 0 || a > 1 then none
  -- dense L
  let zeroRow : Array Rat := Array.replicate n 0
  let l : Array (Array Rat) := m.entries.foldl (fun acc (i, j, v) =>
      acc.set! i.toNat ((acc[i.toNat]!).set! j.toNat (f2q! v))) (Array.replicate n zeroRow)
  let pin : Array Rat := match pv with
    | some v => v.entries.foldl (fun acc (i, x) => acc.set! i.toNat (f2q! x)) zeroRow
    | none => zeroRow
  let psum := pin.foldl (· + ·) 0
  let pEff : Array Rat := if psum == 0 then Array.replicate n (1 / (n : Rat)) else pin.map (· / psum)
  let pos := l.map fun row => row.map fun x => if x > 0 then x else 0
  let neg := l.map fun row => row.map fun x => if x < 0 then -x else 0
  let cEff := pos.map fun row =>
    let s := row.foldl (· + ·) 0
    if s == 0 then pEff else row.map (· / s)
  let d := neg.map fun row =>
    let s := row.foldl (· + ·) 0
    if s == 0 then row else row.map (· / s)
  -- exact fixed point, verified
  let mat : Array (Array Rat) := (Array.range n).map fun j => (Array.range n).map fun i =>
    (if i == j then (1 : Rat) else 0) - (1 - a) * cEff[i]![j]!
  let ts ← gaussSolve n mat (pEff.map (a * ·))
  if denseF n cEff pEff a ts != ts then none
  let scores := (Array.range n).map fun j =>
    ts[j]! - (Array.range n).foldl (fun s i => s + ts[i]! * d[i]![j]!) 0
  pure (scores, n, a, e)

def reqHasNegative (r : OReq) : Bool :=
  match imSize r.req.localTrust r.pre with
  | some m => m.entries.any fun (_, _, v) => v < 0
  | none => false

/-- the same coordinate listed twice in the local trust, or the same index twice in a trust vector: accepted by
    the server, both entries stored (documented neither way). -/
def reqHasDupCoords (r : OReq) : Bool :=
  let rec dupM : List (Int × Int × Float) → Bool
    | [] => false
    | (i, j, _) :: rest => rest.any (fun (i', j', _) => i == i' && j == j') || dupM rest
  let rec dupV : List (Int × Float) → Bool
    | [] => false
    | (i, _) :: rest => rest.any (fun (i', _) => i == i') || dupV rest
  let m := match imSize r.req.localTrust r.pre with
    | some m => dupM m.entries
    | none => false
  let v := fun (o : Option (VectorRef Float)) => match o with
    | some (.inline v) => dupV v.entries
    | _ => false
  m || v r.req.preTrust || v r.req.initialTrust

/-- does the request violate a documented constraint (⇒ must be refused with 400)? -/
def reqInvalid (r : OReq) : Bool :=
  let badM := match r.req.localTrust with
    | .inline m => decide (m.size ≤ 0) || m.entries.any fun (i, j, _) => i < 0 || i ≥ m.size || j < 0 || j ≥ m.size
    | .stored _ => r.pre.isNone
    | _ => true
  let badV := fun (o : Option (VectorRef Float)) => match o with
    | none => false
    | some (.inline v) => decide (v.size ≤ 0) || v.entries.any fun (i, x) => i < 0 || i ≥ v.size || x ≤ 0
    | some _ => true
  let badA := match r.req.alpha with | some a => a < 0 || a > 1 | none => false
  let badE := match r.req.epsilon with | some e => e ≤ 0 || e > 1 | none => false
  badM || badV r.req.preTrust || badV r.req.initialTrust || badA || badE ||
  optBad r.req.flatTail 0 || optBad r.req.numLeaders 0 || optBad r.req.maxIterations 0 ||
  optBad r.req.minIterations 1 || optBad r.req.checkFreq 1

/-- the documented schedule, run by the driver on the prepared effective inputs, does not stop within the horizon
    (or meets tied scores): an implementation that does not return either is then the rounding-floor family
    (known finding under C15), not a violation of what C02/C03/C13/C14 say about returned results. -/
def oapiSpecNeverStops (s : Oapi.Store Float) (req : Oapi.ComputeReq Float) : Bool :=
  match Oapi.prepare constsF s req with
  | some eff =>
    let bounded := match eff.opts.maxIterations with | some m => m > 0 | none => false
    let sp := specRun { c := eff.c, p := eff.p, a := eff.a, e := eff.e, t0 := eff.opts.t0, flat := eff.opts.flatTail,
                        leaders := eff.opts.numLeaders, maxI := eff.opts.maxIterations, minI := eff.opts.minIterations,
                        freq := eff.opts.checkFreq } fuelCap
    !bounded && (!sp.endedByCriteria || sp.tied)
  | none => false

/-- With a flat-tail requirement the STOP iteration depends on the rankings; when scores tie at a checked
    iterate Go's unstable sort may order them differently from the model's, so the run may legitimately stop at
    another iteration and return another iterate.  `true` = this request is such a run. -/
def oapiTiedStop (s : Oapi.Store Float) (req : Oapi.ComputeReq Float) : Bool :=
  match req.flatTail with
  | some l =>
    if l > 0 then
      match Oapi.prepare constsF s req with
      | some eff =>
        (specRun { c := eff.c, p := eff.p, a := eff.a, e := eff.e, t0 := eff.opts.t0, flat := eff.opts.flatTail,
                   leaders := eff.opts.numLeaders, maxI := eff.opts.maxIterations, minI := eff.opts.minIterations,
                   freq := eff.opts.checkFreq } fuelCap).tied
      | none => false
    else false
  | none => false

def judgeOapi (prop : String) : P Verdict := do
  let r ← oreq
  expect "|"
  let (resp, raw) ← oresp
  let s := storeOf r.pre
  let model := handleComputeWithStats fuelCap constsF s r.req
  match resp with
  | none =>
    if raw == "timeout" && oapiSpecNeverStops s r.req then
      if prop == "C15" then
        pure { prop := false, corr := false,
               msg := "implementation timeout [finding:C15/compute/stop-criterion-never-met-in-floats] (the documented schedule does not stop within the horizon either)" }
      else
        pure { prop := true, corr := true,
               msg := "implementation did not return within the watchdog; the documented schedule does not stop within the horizon either (known finding under C15)" }
    else
      pure { prop := false, corr := false, msg := s!"implementation {raw}" }
  | some o =>
    -- CORR: status and scores vs model@Float
    let (mStatus, mScores, mStats) : Nat × Option (Vec Float) × Option (FlatTailStats Float) := match model with
      | .ok (v, st) => (200, some v, some st)
      | .badRequest => (400, none, none)
      | .notFound => (404, none, none)
      | .serverError => (500, none, none)
    let scoresClose := match o.scores, mScores with
      | some a, some b => a.dim == b.dim && entriesClose a.entries b.entries 1e-12
      | none, none => true
      | _, _ => false
    let scoresBit := match o.scores, mScores with
      | some a, some b => a.dim == b.dim && entriesBitEq a.entries b.entries
      | none, none => true
      | _, _ => false
    let tiedStop := !scoresClose && o.status == 200 && mStatus == 200 && oapiTiedStop s r.req
    let scoresClose := scoresClose || tiedStop
    let scoresBit := scoresBit || tiedStop
    let corr := o.status == mStatus && scoresClose
    -- PROP
    let invalid := reqInvalid r
    let mut p := true
    let mut why := ""
    if o.status ≥ 500 then
      -- an internal error is never an acceptable answer to an invalid request; for valid ones
      -- it is acceptable only where the property allows a well-formed error (C15: overflow)
      p := !invalid && prop == "C15" && mStatus == 500
      if !p then why := s!"status {o.status} (invalid={invalid})"
    else if invalid then
      p := o.status == 400
      if !p then why := s!"invalid request answered {o.status}, documented 400"
    else if o.status != 200 then
      p := false; why := s!"valid request answered {o.status}"
    else
      match o.scores with
      | none => p := false; why := "200 without scores"
      | some sc =>
        let finite := sc.entries.all (·.val.isFinite)
        if prop == "C02" then
          if !reqHasNegative r then
            let vals := sc.entries.map fun e => f2q! e.val
            p := finite && sc.wf && qabs (qsum vals - 1) ≤ (1 / 1000000000000 : Rat)
            if !p then why := "scores of a non-negative request do not sum to 1"
        else if prop == "C15" then
          -- a well-formed success: finite, well-formed scores which - when the request holds no negative value -
          -- are what a compute promises at all, a distribution (adversarial numbers whose sums overflow must end in
          -- a well-formed error or in this, not in a 200 with leftovers)
          if !reqHasNegative r then
            let vals := sc.entries.map fun e => (f2q e.val).getD 0
            p := finite && sc.wf && qabs (qsum vals - 1) ≤ (1 / 1000000000 : Rat)
            if !p then why := "200 with scores that are not a finite distribution for a request without negative values"
          else
            p := finite && sc.wf
            if !p then why := "200 with non-finite or malformed scores"
          if !p && reqHasDupCoords r then
            why := why ++ " [finding:C15/oapi/duplicate-coordinates-malformed-success]"
        else if prop == "C03" || prop == "C14" || prop == "C08" then
          let unlimited := r.req.maxIterations.isNone || r.req.maxIterations == some 0
          match docScores r with
          | none => p := true
          | some (ds, n, a, e) =>
            let sq := denseOf n (toQ sc.entries)
            let bound := 2 * ((1 - a) / a * sqrtUp n * e + (1 / 100000000000000 : Rat) / a) + (n : Rat) * 64 * uRound
            let dimOK := sc.dim == n && sc.wf
            p := dimOK && finite && (!unlimited || l1Dist n sq ds ≤ bound)
            if !p then why := s!"scores differ from the documented effective inputs' EigenTrust scores (dimOK={dimOK}, n={n})"
    pure { prop := p, corr := corr, bit := some (o.status == mStatus && scoresBit),
           msg := if p && corr then why else s!"{why} model: status={mStatus} scores={match mScores with | some v => showVec v | none => "-"}" }

/-! ### C13 sequential histories -/

structure DStore where
  items : List (String × Nat × List ((Nat × Nat) × Float))

def DStore.get? (d : DStore) (id : String) : Option (Nat × List ((Nat × Nat) × Float)) :=
  (d.items.find? (·.1 == id)).map (·.2)

def DStore.set (d : DStore) (id : String) (v : Nat × List ((Nat × Nat) × Float)) : DStore :=
  ⟨(id, v) :: d.items.filter (·.1 != id)⟩

def cellsOfI (m : IMatrix Float) : List ((Nat × Nat) × Float) :=
  -- later duplicates do not replace earlier ones in the code (both are stored); histories use distinct coordinates
  (m.entries.filter fun (_, _, v) => v != 0).map fun (i, j, v) => ((i.toNat, j.toNat), v)

def imValid (m : IMatrix Float) : Bool :=
  decide (m.size ≥ 1) && m.entries.all fun (i, j, _) => 0 ≤ i && i < m.size && 0 ≤ j && j < m.size

def judgeStoreHist : P Verdict := do
  let n ← nat
  let mut s : Store Float := []
  let mut d : DStore := ⟨[]⟩
  let mut p := true
  let mut c := true
  let mut msg := ""
  for k in [0:n] do
    let op ← tok
    let mut req : StoreReq Float := .get ""
    let mut expectStatus : Nat := 0
    let mut expectBody : Option (Nat × List ((Nat × Nat) × Float)) := none
    match op with
    | "put" =>
      let id ← tok; let merge ← flag
      let (ref, pre) ← mref
      let _ := pre
      req := .put id merge ref
      -- spec
      let content : Option (Nat × List ((Nat × Nat) × Float)) := match ref with
        | .inline m => if imValid m then some (m.size.toNat, cellsOfI m) else none
        | .stored sid => d.get? sid
        | _ => none
      match content with
      | none => expectStatus := 400
      | some (sz, cells) =>
        match d.get? id with
        | none => expectStatus := 201; d := d.set id (sz, cells)
        | some (osz, ocells) =>
          expectStatus := 200
          if merge then
            d := d.set id (max osz sz, cells ++ ocells.filter fun x => !cells.any (·.1 == x.1))
          else d := d.set id (sz, cells)
    | "get" =>
      let id ← tok
      req := .get id
      match d.get? id with
      | none => expectStatus := 404
      | some v => expectStatus := 200; expectBody := some v
    | "head" =>
      let id ← tok
      req := .head id
      expectStatus := if (d.get? id).isSome then 204 else 404
    | "delete" =>
      let id ← tok
      req := .delete id
      if (d.get? id).isSome then
        expectStatus := 204; d := ⟨d.items.filter (·.1 != id)⟩
      else expectStatus := 404
    | o => throw s!"C13: unknown op {o}"
    expect "|"
    let stTok ← tok
    if stTok == "panic" then
      set ([] : List String)
      return { prop := false, corr := false, msg := s!"step {k} {op}: implementation panicked" }
    let status := stTok.toNat?.getD 0
    let mut body : Option (Int × List (Int × Int × Float) × String) := none
    if (← peek?) == some "body" then
      let _ ← tok
      let sz ← int; let kk ← nat; let es ← rep kk ientryM; let scheme ← tok
      body := some (sz, es, scheme)
    -- model
    let (s', mresp) := handleStore s req
    s := s'
    let (mStatus, mBody) : Nat × Option (Nat × List (Nat × Nat × Float)) := match mresp with
      | .created => (201, none) | .updated => (200, none) | .noContent => (204, none)
      | .notFound => (404, none) | .badRequest => (400, none)
      | .matrix sz es => (200, some (sz, es))
    let bodyMatchesModel := match body, mBody with
      | none, none => true
      | some (sz, es, _), some (msz, mes) =>
        sz == (msz : Int) && es.length == mes.length &&
        (es.zip mes).all fun ((i, j, v), (mi, mj, mv)) => i == (mi : Int) && j == (mj : Int) && floatShow v == floatShow mv
      | _, _ => false
    let ck := status == mStatus && bodyMatchesModel
    -- spec
    let bodyMatchesSpec := match body, expectBody with
      | none, none => true
      | some (sz, es, scheme), some (esz, cells) =>
        sz == (esz : Int) && scheme == "inline" && es.length == cells.length &&
        es.all (fun (i, j, v) => cells.any fun ((ci, cj), cv) => (ci : Int) == i && (cj : Int) == j && floatShow cv == floatShow v) &&
        -- the body is itself a valid inline reference: indices in range
        es.all (fun (i, j, _) => 0 ≤ i && i < sz && 0 ≤ j && j < sz)
      | _, _ => false
    let pk := status == expectStatus && bodyMatchesSpec
    if p && !pk then msg := s!"step {k} {op}: status {status}, documented {expectStatus}; body ok={bodyMatchesSpec}"
    if c && !ck && msg.isEmpty then msg := s!"step {k} {op}: status {status}, model {mStatus}; body matches model={bodyMatchesModel}"
    p := p && pk; c := c && ck
  pure { prop := p, corr := c, bit := some (p && c), msg := msg }

def judgeIsolate : P Verdict := do
  let r ← oreq
  expect "|"
  let getSame ← flag
  let storedEqInline ← flag
  let status ← tok
  -- a compute that does not return because the documented schedule never stops in floats (known finding under
  -- C15) says nothing about isolation: the stored matrix must still be unchanged, which `getSame` reports
  let excused := status == "timeout" && oapiSpecNeverStops (storeOf r.pre) r.req
  let ok := getSame && ((storedEqInline && status != "panic" && status != "timeout") || excused)
  pure { prop := ok, corr := ok, bit := none,
         msg := if ok then "" else s!"GET before/after identical={getSame} stored==inline scores={storedEqInline} status={status}" }

/-- `C15 state <frontend> <kind> | <status> <same>`: a refused request leaves server state unchanged. -/
def judgeState : P Verdict := do
  let fe ← tok
  let kind ← tok
  expect "|"
  let st ← tok
  let same ← flag
  let ok := same && st != "panic" && st != "timeout"
  pure { prop := ok, corr := ok, bit := none,
         msg := if ok then "" else s!"{fe} {kind}: status {st}, state unchanged={same}" }

/-- `C15 bytes <route> | <status|panic|timeout>`: any byte string gets a well-formed non-5xx answer. -/
def judgeBytes : P Verdict := do
  let route ← tok
  expect "|"
  let st ← tok
  let ok := match st.toNat? with
    | some code => code < 500
    | none => st == "ok" || st == "clienterror"
  pure { prop := ok, corr := ok, bit := none, msg := if ok then "" else s!"{route}: {st}" }

/-- `Cxx conc <what> <rounds> | <nonlinearizable> <unknown>`: recorded concurrent histories that admit
    no sequential order respecting real time (porcupine search against the sequential map spec). -/
def judgeConc : P Verdict := do
  let what ← tok
  let rounds ← nat
  expect "|"
  let bad ← nat
  let unknown ← nat
  let ok := bad == 0
  pure { prop := ok, corr := ok, bit := none,
         msg := if ok then "" else s!"{what}: {bad} of {rounds} concurrent histories are not linearizable ({unknown} undecided)" }

end EtVerif.Driver
