/-
  Driver handlers for the compute-level properties C01, C02, C05, C18 (library `basic.Compute`).

  Line (after `<id> Cxx compute`):
    <csm c> <vec p> <a> <e>  t0 <0|1> [vec]  flat <n> leaders <n>  max <0|1> [int] min <0|1> [int] freq <0|1> [int]
    | ok <vec t> <iters> <nchecks> <length> <threshold> <deltaNorm> <hasRanking> [n idx*] <sameAsWithIterations 0|1>
    | err <class>            class ∈ dim empty alpha epsilon checkfreq maxiters miniters nonfinite other
    | timeout
-/
import EtVerif.Driver.C06

namespace EtVerif.Driver
open EtVerif Scalar

structure CReq where
  c : CSM Float
  p : Vec Float
  a : Float
  e : Float
  t0 : Option (Vec Float)
  flat : Nat
  leaders : Nat
  maxI : Option Int
  minI : Option Int
  freq : Option Int

def optInt : P (Option Int) := do
  let h ← nat
  if h == 1 then pure (some (← int)) else pure none

def creq : P CReq := do
  let c : CSM Float ← csm
  let p : Vec Float ← vec
  let a : Float ← scalar
  let e : Float ← scalar
  expect "t0"
  let h ← nat
  let t0 ← (if h == 1 then do let v : Vec Float ← vec; pure (some v) else pure none)
  expect "flat"; let flat ← nat
  expect "leaders"; let leaders ← nat
  expect "max"; let maxI ← optInt
  expect "min"; let minI ← optInt
  expect "freq"; let freq ← optInt
  pure { c, p, a, e, t0, flat, leaders, maxI, minI, freq }

def CReq.opts (r : CReq) : ComputeOpts Float :=
  { t0 := r.t0, flatTail := r.flat, numLeaders := r.leaders,
    maxIterations := r.maxI, minIterations := r.minI, checkFreq := r.freq }

structure CObs where
  t : Vec Float
  iters : Nat
  nchecks : Nat
  length : Nat
  threshold : Nat
  deltaNorm : Float
  ranking : Option (List Nat)
  sameAsIter : Bool

def cobs : P CObs := do
  let t : Vec Float ← vec
  let iters ← nat
  let nchecks ← nat
  let length ← nat
  let threshold ← nat
  let deltaNorm : Float ← scalar
  let hr ← nat
  let ranking ← (if hr == 1 then do let n ← nat; let l ← rep n nat; pure (some l) else pure none)
  let same ← flag
  pure { t, iters, nchecks, length, threshold, deltaNorm, ranking, sameAsIter := same }

/-! ### exact rational helpers -/

def vecQ (v : Vec Float) : Vec Rat := ⟨v.dim, toQ v.entries⟩
def csmQ (m : CSM Float) : CSM Rat := ⟨m.major, m.minor, m.rows.map toQ, []⟩

def denseOf (n : Nat) (es : List (Entry Rat)) : Array Rat :=
  es.foldl (fun acc e => if e.idx < n then acc.set! e.idx (acc[e.idx]! + e.val) else acc) (Array.replicate n 0)

/-- Gaussian elimination with partial (first non-zero) pivoting over `Rat`; `none` if singular. -/
def gaussSolve (n : Nat) (a : Array (Array Rat)) (b : Array Rat) : Option (Array Rat) := Id.run do
  let mut m := a
  let mut rhs := b
  for col in [0:n] do
    -- find pivot
    let mut piv := n
    for r in [col:n] do
      if piv == n && m[r]![col]! != 0 then piv := r
    if piv == n then return none
    if piv != col then
      let tmp := m[col]!; m := m.set! col m[piv]!; m := m.set! piv tmp
      let t2 := rhs[col]!; rhs := rhs.set! col rhs[piv]!; rhs := rhs.set! piv t2
    let pv := m[col]![col]!
    for r in [0:n] do
      if r != col then
        let f := m[r]![col]! / pv
        if f != 0 then
          let rowc := m[col]!
          m := m.set! r ((m[r]!).mapIdx fun j x => x - f * rowc[j]!)
          rhs := rhs.set! r (rhs[r]! - f * rhs[col]!)
  return some ((Array.range n).map fun i => rhs[i]! / m[i]![i]!)

/-- dense `F t = (1-a) Cᵀ t + a p` in exact rationals -/
def denseF (n : Nat) (c : Array (Array Rat)) (p : Array Rat) (a : Rat) (t : Array Rat) : Array Rat :=
  (Array.range n).map fun j =>
    (1 - a) * ((Array.range n).foldl (fun s i => s + c[i]![j]! * t[i]!) 0) + a * p[j]!

/-- the exact fixed point `t* = F t*` of the float inputs, *verified* (the solver is not trusted). -/
def exactFixedPoint (r : CReq) : Option (Array Rat) :=
  let n := r.c.major
  let cq : Array (Array Rat) := ((List.range n).map fun i => denseOf n (toQ (r.c.rows.getD i []))).toArray
  let pq := denseOf n (toQ r.p.entries)
  let a := f2q! r.a
  -- (I - (1-a) Cᵀ) t = a p
  let mat : Array (Array Rat) := (Array.range n).map fun j => (Array.range n).map fun i =>
    (if i == j then (1 : Rat) else 0) - (1 - a) * cq[i]![j]!
  let rhs := pq.map (a * ·)
  match gaussSolve n mat rhs with
  | none => none
  | some t => if denseF n cq pq a t == t then some t else none

/-- a rational upper bound of `sqrt n` -/
def sqrtUp (n : Nat) : Rat := ((Nat.sqrt (n * 1000000000000) + 1 : Nat) : Rat) / 1000000

def l1Dist (n : Nat) (x y : Array Rat) : Rat :=
  (List.range n).foldl (fun s i => s + qabs (x[i]! - y[i]!)) 0

/-! ### independent spec of the schedule (C05) and of the stats (C18), evaluated on the
     iterates of the pure step function at Float (bit-exact with the implementation) -/

def iterates (r : CReq) (upTo : Nat) : Array (List (Entry Float)) := Id.run do
  let ct := r.c.transpose
  let ap := (Vec.scale r.a r.p).entries
  let q := (1.0 : Float) - r.a
  let mut t := (r.t0.getD r.p).entries
  let mut acc := #[t]
  for _ in [0:upTo] do
    t := stepEntries ct.rows ap q t
    acc := acc.push t
  return acc

def delta (t tprev : List (Entry Float)) : Float :=
  Float.sqrt (kbnSum ((subEntries t tprev).map fun e => e.val * e.val))

/-- scores ranked ascending; `none` when two checked scores tie (property excludes ties) -/
def specRanking (t : List (Entry Float)) (leaders : Nat) : Option (List Nat) :=
  let sorted := (t.toArray.qsort (fun a b => a.val < b.val)).toList
  let tied := (sorted.zip (sorted.drop 1)).any fun (a, b) => a.val == b.val
  if tied then none
  else
    let r := sorted.map (·.idx)
    some (if r.length > leaders then r.drop (r.length - leaders) else r)

structure SpecRun where
  stopIter : Nat
  endedByCriteria : Bool
  checks : List Nat
  rankings : List (List Nat)
  deltas : List Float
  tied : Bool
  nonFinite : Bool

/-- The documented iteration control: checks at minI, minI+freq, … < maxI; stop at the first check
    with `d ≤ e` and the last `flat+1` rankings identical; never more than maxI. -/
def specRun (r : CReq) (cap : Nat) : SpecRun := Id.run do
  let n := r.c.major
  let freq := (r.freq.getD 1).toNat
  let minI := (r.minI.getD (r.freq.getD 1)).toNat
  let maxI : Nat := match r.maxI with | some m => (if m == 0 then cap else m.toNat) | none => cap
  let leaders := if r.leaders == 0 then n else r.leaders
  let its := iterates r (min maxI cap)
  let mut prev := its[0]!
  let mut checks : List Nat := []
  let mut ranks : List (List Nat) := []
  let mut deltas : List Float := []
  let mut tied := false
  let mut k := 0
  while k < maxI && k < cap do
    if k ≥ minI && (k - minI) % freq == 0 then
      let tk := its[k]!
      let d := delta tk prev
      prev := tk
      checks := checks ++ [k]
      deltas := deltas ++ [d]
      match specRanking tk leaders with
      | none => tied := true; ranks := ranks ++ [[]]
      | some rk => ranks := ranks ++ [rk]
      if d.isNaN || d.isInf then
        return { stopIter := k, endedByCriteria := false, checks, rankings := ranks, deltas, tied, nonFinite := true }
      -- last flat+1 rankings identical
      let m := ranks.length
      let lastRun := (ranks.reverse.takeWhile (· == ranks.getLast!)).length
      if d ≤ r.e && lastRun ≥ r.flat + 1 && m ≥ r.flat + 1 then
        return { stopIter := k, endedByCriteria := true, checks, rankings := ranks, deltas, tied, nonFinite := false }
    k := k + 1
  return { stopIter := k, endedByCriteria := false, checks, rankings := ranks, deltas, tied, nonFinite := false }

/-- runs of equal consecutive rankings: (ranking, index of head, size) -/
def runsOf (ranks : List (List Nat)) : List (List Nat × Nat × Nat) := Id.run do
  let mut out : List (List Nat × Nat × Nat) := []
  let mut i := 0
  for rk in ranks do
    match out.getLast? with
    | some (r0, h, sz) =>
      if r0 == rk then out := out.dropLast ++ [(r0, h, sz + 1)] else out := out ++ [(rk, i, 1)]
    | none => out := [(rk, i, 1)]
    i := i + 1
  return out

def classOfErr : SErr → String
  | .dimMismatch => "dim"
  | .emptyLocalTrust => "empty"
  | .badParam "alpha" => "alpha"
  | .badParam "epsilon" => "epsilon"
  | .badParam "checkFreq" => "checkfreq"
  | .badParam "maxIterations" => "maxiters"
  | .badParam "minIterations" => "miniters"
  | .badParam "nonfinite" => "nonfinite"
  | _ => "other"

def relClose (x y : Float) (rel : Float) : Bool :=
  feq x y || (x - y).abs ≤ rel * (x.abs + y.abs) + 1e-300

def entriesClose (a b : List (Entry Float)) (rel : Float) : Bool :=
  let sup := supportUnion a b
  sup.all fun i => relClose (denFl a i) (denFl b i) rel

def fuelCap : Nat := 20000

/-- exact-tier comparison: K steps of the generic model at `Rat` (only when affordable). -/
def exactIterateOK (r : CReq) (k : Nat) (t : Vec Float) : Option Bool :=
  let n := r.c.major
  if n > 8 || k > 25 || k == 0 then none
  else
    let ct := (csmQ r.c).transpose
    let a := f2q! r.a
    let ap := (Vec.scale a (vecQ r.p)).entries
    let t0 := (vecQ (r.t0.getD r.p)).entries
    let tk := (List.range k).foldl (fun t _ => stepEntries ct.rows ap (1 - a) t) t0
    let tol : Rat := ((k * n + 4 : Nat) : Rat) * 8 * uRound
    some ((List.range n).all fun i =>
      match f2q (denFl t.entries i) with
      | none => false
      | some x => qabs (x - denE tk i) ≤ tol * (1 + qabs (denE tk i)))

def judgeCompute (prop : String) : P Verdict := do
  let r ← creq
  expect "|"
  let st ← tok
  let model := compute fuelCap r.c r.p r.a r.e r.opts
  match st with
  | "timeout" =>
    let _ ← restOfInput
    -- An implementation that does not return is judged against the documented schedule run by the driver on the
    -- same floats: if that schedule (delta ≤ epsilon and, with a flat tail, L+1 identical rankings at a scheduled
    -- check; never more than maxIterations) does not stop within the driver's horizon either, the run is not a
    -- violation of the stop rule (C05, C18) nor of what the other properties say about returned results — it is
    -- the rounding-floor family recorded as a known finding under C15.  C05's termination clause (default
    -- schedule, no flat tail, a ≥ 0.001, e ≥ 1e-9) is the exception: there the theorem promises a bound.
    let sp := specRun r fuelCap
    let bounded := match r.maxI with | some m => m > 0 | none => false
    let dflt := r.minI.isNone && r.freq.isNone && r.flat == 0 && r.t0.isNone
    let c05clause := prop == "C05" && dflt && r.a ≥ 0.001 && r.e ≥ 1e-9
    if !bounded && !sp.endedByCriteria && !c05clause then
      pure { prop := true, corr := true,
             msg := s!"implementation did not return within the watchdog; the documented schedule does not stop within {fuelCap} iterations either (tied={sp.tied})" }
    else if prop == "C18" && sp.tied then
      pure { prop := true, corr := true, msg := "implementation did not return within the watchdog; tied scores (excluded by the property)" }
    else
      pure { prop := false, corr := false,
             msg := s!"implementation did not return (watchdog); the documented schedule stops at iteration {sp.stopIter}" }
  | "panic" =>
    let _ ← restOfInput
    pure { prop := false, corr := false, msg := "implementation panicked" }
  | "err" =>
    let cls ← tok
    match model with
    | .error e =>
      let mc := classOfErr e
      pure { prop := true, corr := mc == cls || cls == "other", bit := some (mc == cls),
             msg := if mc == cls || cls == "other" then "" else s!"model error class {mc}" }
    | .ok _ => pure { prop := false, corr := false, msg := s!"impl rejected ({cls}) a call the model accepts" }
  | "ok" =>
    let o ← cobs
    match model with
    | .error e => pure { prop := false, corr := false, msg := s!"impl accepted a call the model rejects ({classOfErr e})" }
    | .ok m =>
      let n := r.c.major
      -- CORR: control must agree exactly, values closely (bit equality reported separately)
      let mDelta := Float.sqrt m.stats.deltaSq
      -- rankings of tied scores depend on Go's unstable sort: stats are compared only without ties
      let spTied := (specRun r fuelCap).tied
      -- with a flat-tail requirement the STOP iteration itself depends on the rankings: in a tied run the
      -- iteration count, and with it the returned iterate, are not comparable with the model's
      let tiedStop := spTied && r.flat > 0
      let ctrl := tiedStop || (o.iters == m.iters && o.nchecks == m.checks.length &&
        (spTied || (o.length == m.stats.length && o.threshold == m.stats.threshold && o.ranking == m.stats.ranking)))
      let bitEq := tiedStop || (ctrl && entriesBitEq o.t.entries m.t.entries && (spTied || floatShow o.deltaNorm == floatShow mDelta))
      let exactTier := if tiedStop then none else exactIterateOK r o.iters o.t
      let corr := tiedStop || (ctrl && o.t.dim == m.t.dim && entriesClose o.t.entries m.t.entries 1e-12 &&
        (spTied || relClose o.deltaNorm mDelta 1e-9) && exactTier != some false)
      -- PROP per property
      let sp := specRun r fuelCap
      let finite := o.t.entries.all (·.val.isFinite)
      let mut p := true
      let mut why := ""
      if prop == "C05" then
        let stopOK := o.iters == sp.stopIter && o.nchecks == sp.checks.length && o.sameAsIter
        let withinMax := match r.maxI with | some mx => mx == 0 || (o.iters : Int) ≤ mx | none => true
        -- termination bound under the default schedule
        let dflt := r.minI.isNone && r.freq.isNone && r.flat == 0 && r.t0.isNone
        let bound : Float := Float.ceil (Float.log (r.e / 4.0) / Float.log (1.0 - r.a)) + 2.0
        let termOK := !(dflt && r.a ≥ 0.001 && r.a < 1.0 && r.e ≥ 1e-9 && (r.maxI.isNone || r.maxI == some 0)) ||
          o.iters.toFloat ≤ (if bound < 2.0 then 2.0 else bound)
        let termOne := !(dflt && r.a == 1.0 && (r.maxI.isNone || r.maxI == some 0)) || o.iters ≤ 2
        p := stopOK && withinMax && termOK && termOne
        if !p then why := s!"spec stop iteration {sp.stopIter} checks {sp.checks.length}; impl {o.iters}/{o.nchecks}; sameAsWithIterations={o.sameAsIter} termOK={termOK}"
      else if prop == "C02" then
        let vals := o.t.entries.map fun e => f2q! e.val
        let sumOK : Bool := decide (qabs (qsum vals - 1) ≤ ((o.iters + 2) * n + 4 : Nat) * 2 * uRound)
        p := finite && o.t.dim == n && o.t.wf && o.t.entries.all (·.val ≥ 0) && sumOK
        if !p then why := s!"not a distribution: finite={finite} wf={o.t.wf} sumOK={sumOK}"
      else if prop == "C01" then
        -- the implementation claims convergence whenever it stopped before the iteration limit
        let implConverged := match r.maxI with
          | some mx => mx == 0 || (o.iters : Int) < mx
          | none => true
        if implConverged && r.a > 0 then
          match exactFixedPoint r with
          | none => p := true; why := "fixed point solver failed (skipped)"
          | some ts =>
            let a := f2q! r.a; let e := f2q! r.e
            let tq := denseOf n (toQ o.t.entries)
            let bound := (1 - a) / a * sqrtUp n * e + (1 / 100000000000000 : Rat) / a
            p := finite && l1Dist n tq ts ≤ bound
            if !p then why := s!"L1 distance to the exact fixed point exceeds ((1-a)/a)·sqrt(n)·e + 1e-14/a"
        else
          p := true
      else if prop == "C18" then
        if sp.tied then p := true; why := "tied scores (excluded by the property)"
        else
          let runs := runsOf sp.rankings
          match runs.getLast? with
          | none => p := o.ranking.isNone && o.length == 0 && o.threshold == 1
          | some (rk, hd, sz) =>
            let earlier := (runs.dropLast.map fun (_, _, s) => s).foldl max 1
            let dHead := sp.deltas.getD hd 0.0
            let stopOK := o.iters == sp.stopIter
            -- ranking lists the top scored peers of the last checked iterate, in score order
            let lastT := (iterates r (sp.checks.getLast!)).back!
            let leaders := if r.leaders == 0 then n else r.leaders
            let topOK := match o.ranking with
              | none => false
              | some orank =>
                orank.length == min leaders lastT.length &&
                (orank.all fun i => lastT.any (·.idx == i)) &&
                (lastT.all fun e => orank.contains e.idx ||
                  orank.all fun i => denFl lastT i > e.val) &&
                (let vs := orank.map (denFl lastT ·)
                 (vs.zip (vs.drop 1)).all (fun (x, y) => x < y) || (vs.zip (vs.drop 1)).all (fun (x, y) => x > y))
            p := stopOK && o.ranking == some rk && o.length + 1 == sz && o.threshold == earlier &&
              floatShow o.deltaNorm == floatShow dHead && topOK &&
              (!sp.endedByCriteria || o.length ≥ r.flat)
            if !p then why := s!"stats: spec ranking={rk} length={sz - 1} threshold={earlier} stop={sp.stopIter} topOK={topOK}"
      pure { prop := p, corr := corr, bit := some bitEq,
             msg := if p && corr then why else s!"{why} model: iters={m.iters} checks={m.checks.length} len={m.stats.length} thr={m.stats.threshold} t={showVec m.t}" }
  | s => throw s!"bad status {s}"

end EtVerif.Driver
