/-
  Shape records: structural facts about schedule- or fault-dependent code that differential
  testing sees worst.  `tools/gofacts` regenerates `Gen/Facts.lean` (values of these types) from
  /repo's source on every run; the transition-system theorems are stated for a shape parameter
  and a decidable predicate `safe`, and `Props/Cxx.lean` closes `Facts.… .safe = true` by `decide`.
  Core-only.
-/
namespace EtVerif

inductive ChanCap where
  | dim          -- make(chan T, dim): one slot per row
  | unbuffered
  | const (n : Nat)
  | unknown
deriving Repr, DecidableEq, Inhabited

/-- sparse.(*Vector).MulVec, vector.go 200-273. -/
structure MulVecShape where
  /-- producer: `select { case <-ctx.Done(): return; case jobs <- row: }`, `defer close(jobs)` -/
  producerSelectsCtx : Bool
  producerClosesJobs : Bool
  /-- worker: receive `select` has a `ctx.Done()` case; exits when `jobs` is closed -/
  workerRecvSelectsCtx : Bool
  /-- worker: send `select` has a `ctx.Done()` case -/
  workerSendSelectsCtx : Bool
  /-- a worker computes a whole row by ONE `VecDot(m.RowVector(row), v1)` and tags it with `row` -/
  rowByOneVecDot : Bool
  /-- closer goroutine: `wg.Wait(); close(entries)` -/
  closerWaitsAllWorkers : Bool
  /-- collector: loop `select` has a `ctx.Done()` case returning `ctx.Err()` -/
  collectorSelectsCtx : Bool
  /-- collector re-checks `ctx.Err()` after the loop ended by `entries` being closed and returns it
      before publishing (the repair of the partial-result defect) -/
  collectorRechecksCtx : Bool
  /-- zero products are dropped -/
  dropsZero : Bool
  /-- `sort.Sort(EntriesByIndex(...))` after the loop, before publishing -/
  sortsAfterCollect : Bool
  /-- receiver (`v.Dim`, `v.Entries`) assigned only after collection and sort -/
  publishesAfterSort : Bool
  jobsCap : ChanCap
  entriesCap : ChanCap
  numWorkers : Nat
deriving Repr, DecidableEq, Inhabited

/-- cancellation safety: every blocking point can observe cancellation and a closed `entries`
    channel is never mistaken for completion after cancellation. -/
def MulVecShape.safe (s : MulVecShape) : Bool :=
  s.producerSelectsCtx && s.producerClosesJobs && s.workerRecvSelectsCtx && s.workerSendSelectsCtx &&
  s.closerWaitsAllWorkers && s.collectorSelectsCtx && s.collectorRechecksCtx &&
  s.publishesAfterSort && decide (s.jobsCap = .dim) && decide (s.entriesCap = .dim) &&
  decide (s.numWorkers ≥ 1)

/-- determinism: each row summed by one worker, tagged, sorted before publication. -/
def MulVecShape.deterministicCollect (s : MulVecShape) : Bool :=
  s.rowByOneVecDot && s.sortsAfterCollect && s.publishesAfterSort && s.dropsZero &&
  s.producerClosesJobs && s.closerWaitsAllWorkers && decide (s.numWorkers ≥ 1)

/-- basic.Compute, eigentrust.go 258-313. -/
structure ComputeShape where
  pollsCtxAtLoopHead : Bool
  returnsNilOnCtx : Bool
  /-- the caller-visible result (`t` / `WithResultIn`) is written only after the loop -/
  resultAssignedAfterLoop : Bool
  /-- t0 is cloned before iteration (inputs are read-only) -/
  clonesInitial : Bool
  /-- errors of MulVec are returned with a nil result -/
  propagatesMulVecErr : Bool
deriving Repr, DecidableEq, Inhabited

def ComputeShape.safe (s : ComputeShape) : Bool :=
  s.pollsCtxAtLoopHead && s.returnsNilOnCtx && s.resultAssignedAfterLoop && s.clonesInitial &&
  s.propagatesMulVecErr

/-- sparse.(*CSMatrix).Transpose, matrix.go 76-108. -/
structure TransposeShape where
  pollsCtxPerRow : Bool
  returnsNilOnCtx : Bool
  /-- builds a fresh table; the receiver is never written -/
  receiverUntouched : Bool
deriving Repr, DecidableEq, Inhabited

def TransposeShape.safe (s : TransposeShape) : Bool :=
  s.pollsCtxPerRow && s.returnsNilOnCtx && s.receiverUntouched

end EtVerif

namespace EtVerif

/-- sparse.(*CSMatrix).Mmap (matrix.go): order of the significant steps and the cleanup `defer`s. -/
structure MmapShape where
  /-- `if nnz == 0 { return m.Munmap() }` before any file is created -/
  zeroNnzReturnsEarly : Bool
  /-- the significant calls, in source order -/
  order : List String
  /-- `defer` removing the temp file unless it was already unlinked, installed right after CreateTemp -/
  removesFileOnFailure : Bool
  /-- `defer` closing the descriptor while `file != nil` -/
  closesFileOnFailure : Bool
  /-- `defer` unmapping the new mapping while `mapped != nil` (it is set to nil on adoption) -/
  unmapsOnFailure : Bool
  /-- the copy loop polls `ctx.Done()` once per row and returns `ctx.Err()` -/
  pollsCtxPerRow : Bool
  /-- inside the loop the mapped span is recorded in a NEW table (`swapped[major] = span`) -/
  repointsRows : Bool
  /-- that table is freshly allocated (`make([][]Entry, len, cap)`), not an alias of `m.Entries` -/
  tableIsFresh : Bool
  /-- spans are capped (`entries[a:b:b]`) so that `append` cannot spill into the next row -/
  capsSpans : Bool
  /-- the receiver's `Entries` is assigned only after the loop (and after the old mapping was released) -/
  installsAfterCopy : Bool
deriving Repr, DecidableEq, Inhabited

def MmapShape.expectedOrder : List String :=
  ["CreateTemp", "Truncate", "Mmap", "Close", "Remove", "copy", "MunmapOld", "install", "adopt"]

def MmapShape.safe (s : MmapShape) : Bool :=
  s.zeroNnzReturnsEarly && decide (s.order = MmapShape.expectedOrder) && s.removesFileOnFailure &&
  s.closesFileOnFailure && s.unmapsOnFailure && s.pollsCtxPerRow && s.repointsRows && s.tableIsFresh && s.capsSpans &&
  s.installsAfterCopy

/-- how the servers isolate stored collections (oapi/openapi.go, namedtrust.go, grpc/compute.go). -/
structure StoreShape where
  /-- loadStoredTrustMatrix: `deepcopy.Copy(c0)` inside `tm0.LockAndRun` -/
  loadStoredDeepCopiesUnderLock : Bool
  /-- getLocalTrust builds the body inside `tm.LockAndRun` -/
  getReadsUnderLock : Bool
  /-- NamedTrustMatrices.Set uses `Swap`; created = !loaded -/
  setUsesSwap : Bool
  /-- … and never touches the replaced object (`_, loaded := ntms.Swap(id, tm)`): a reader may still hold it -/
  setLeavesPreviousAlone : Bool
  /-- NamedTrustMatrices.Merge: `LoadOrStore` then a locked `Merge` on the loaded object -/
  mergeLoadOrStoreThenLockedMerge : Bool
  /-- DeleteLocalTrust uses `LoadAndDelete` -/
  deleteUsesLoadAndDelete : Bool
  /-- UpdateLocalTrust answers the generated 400 object when the body cannot be loaded -/
  updateAnswers400 : Bool
  /-- gRPC BasicCompute deep-copies local trust, pre-trust and global trust under their locks -/
  grpcDeepCopiesInputs : Bool
  /-- gRPC TrustMatrix.Update: the timestamp is only ever `Set` inside the `cmp > 0` case -/
  grpcTimestampOnlyAdvances : Bool
deriving Repr, DecidableEq, Inhabited

def StoreShape.safe (s : StoreShape) : Bool :=
  s.loadStoredDeepCopiesUnderLock && s.getReadsUnderLock && s.setUsesSwap && s.setLeavesPreviousAlone &&
  s.mergeLoadOrStoreThenLockedMerge && s.deleteUsesLoadAndDelete && s.updateAnswers400 &&
  s.grpcDeepCopiesInputs && s.grpcTimestampOnlyAdvances

/-- one partiality site: an expression of the repo's own code that can panic on bad data. -/
structure Site where
  file : String
  func : String
  kind : String     -- index | slice | panic | make
  count : Nat
deriving Repr, DecidableEq, Inhabited

end EtVerif
