/-
  Shape records: structural facts about schedule- or fault-dependent code that differential
  testing sees worst.  `tools/gofacts` regenerates `Gen/Facts.lean` (values of these types) from
  /repo's source on every run; the transition-system theorems are stated for a shape parameter
  and a decidable predicate `safe`, and `Props/Cxx.lean` closes `Facts.… .safe = true` by `decide`.
  Core-only.
-/
namespace EtVerif

inductive ChanCap where
  | dim          -- make(chan T, dim): one slot per row
  | unbuffered
  | const (n : Nat)
  | unknown
deriving Repr, DecidableEq, Inhabited

/-- sparse.(*Vector).MulVec, vector.go 200-273. -/
structure MulVecShape where
  /-- producer: `select { case <-ctx.Done(): return; case jobs <- row: }`, `defer close(jobs)` -/
  producerSelectsCtx : Bool
  producerClosesJobs : Bool
  /-- worker: receive `select` has a `ctx.Done()` case; exits when `jobs` is closed -/
  workerRecvSelectsCtx : Bool
  /-- worker: send `select` has a `ctx.Done()` case -/
  workerSendSelectsCtx : Bool
  /-- a worker computes a whole row by ONE `VecDot(m.RowVector(row), v1)` and tags it with `row` -/
  rowByOneVecDot : Bool
  /-- closer goroutine: `wg.Wait(); close(entries)` -/
  closerWaitsAllWorkers : Bool
  /-- collector: loop `select` has a `ctx.Done()` case returning `ctx.Err()` -/
  collectorSelectsCtx : Bool
  /-- collector re-checks `ctx.Err()` after the loop ended by `entries` being closed and returns it
      before publishing (the repair of the partial-result defect) -/
  collectorRechecksCtx : Bool
  /-- zero products are dropped -/
  dropsZero : Bool
  /-- `sort.Sort(EntriesByIndex(...))` after the loop, before publishing -/
  sortsAfterCollect : Bool
  /-- receiver (`v.Dim`, `v.Entries`) assigned only after collection and sort -/
  publishesAfterSort : Bool
  jobsCap : ChanCap
  entriesCap : ChanCap
  numWorkers : Nat
deriving Repr, DecidableEq, Inhabited

/-- cancellation safety: every blocking point can observe cancellation and a closed `entries`
    channel is never mistaken for completion after cancellation. -/
def MulVecShape.safe (s : MulVecShape) : Bool :=
  s.producerSelectsCtx && s.producerClosesJobs && s.workerRecvSelectsCtx && s.workerSendSelectsCtx &&
  s.closerWaitsAllWorkers && s.collectorSelectsCtx && s.collectorRechecksCtx &&
  s.publishesAfterSort && decide (s.jobsCap = .dim) && decide (s.entriesCap = .dim) &&
  decide (s.numWorkers ≥ 1)

/-- determinism: each row summed by one worker, tagged, sorted before publication. -/
def MulVecShape.deterministicCollect (s : MulVecShape) : Bool :=
  s.rowByOneVecDot && s.sortsAfterCollect && s.publishesAfterSort && s.dropsZero &&
  s.producerClosesJobs && s.closerWaitsAllWorkers && decide (s.numWorkers ≥ 1)

/-- basic.Compute, eigentrust.go 258-313. -/
structure ComputeShape where
  pollsCtxAtLoopHead : Bool
  returnsNilOnCtx : Bool
  /-- the caller-visible result (`t` / `WithResultIn`) is written only after the loop -/
  resultAssignedAfterLoop : Bool
  /-- t0 is cloned before iteration (inputs are read-only) -/
  clonesInitial : Bool
  /-- errors of MulVec are returned with a nil result -/
  propagatesMulVecErr : Bool
deriving Repr, DecidableEq, Inhabited

def ComputeShape.safe (s : ComputeShape) : Bool :=
  s.pollsCtxAtLoopHead && s.returnsNilOnCtx && s.resultAssignedAfterLoop && s.clonesInitial &&
  s.propagatesMulVecErr

/-- sparse.(*CSMatrix).Transpose, matrix.go 76-108. -/
structure TransposeShape where
  pollsCtxPerRow : Bool
  returnsNilOnCtx : Bool
  /-- builds a fresh table; the receiver is never written -/
  receiverUntouched : Bool
deriving Repr, DecidableEq, Inhabited

def TransposeShape.safe (s : TransposeShape) : Bool :=
  s.pollsCtxPerRow && s.returnsNilOnCtx && s.receiverUntouched

end EtVerif
