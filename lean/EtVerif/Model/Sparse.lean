/-
  Model of pkg/sparse (vector.go, matrix.go, util.go, entry.go) of go-eigentrust.

  Conventions (DESIGN.md 3.1): slices are lists; in-place mutation returns the new value;
  the two-pointer loops keep the *branch order* of the Go `switch` statements.
  Core-only (linked into the driver).  Every definition names the Go lines it mirrors.
-/
import EtVerif.Model.Scalar

namespace EtVerif
open Scalar

/-- sparse.Entry (entry.go 6-14).  Indices are `Nat`: negative indices are rejected by the
    front-end models before anything reaches this layer. -/
structure Entry (α : Type) where
  idx : Nat
  val : α
deriving Repr, Inhabited

/-- sparse.CooEntry (entry.go 18-21). -/
structure Coo (α : Type) where
  row : Nat
  col : Nat
  val : α
deriving Repr, Inhabited

/-- sparse.Vector (vector.go 11-18). -/
structure Vec (α : Type) where
  dim : Nat
  entries : List (Entry α)
deriving Repr, Inhabited

variable {α : Type} [Scalar α]

/-! ### util.go: KBNSummer (27-60) -/

structure KBN (α : Type) where
  sum : α
  comp : α

def KBN.init : KBN α := ⟨zero, zero⟩

/-- KBNSummer.Add (util.go 31-56). -/
def KBN.push (s : KBN α) (v : α) : KBN α :=
  let swap := lt (abs s.sum) (abs v)
  let moreSig := if swap then v else s.sum
  let lessSig := if swap then s.sum else v
  let sum' := add s.sum v
  let truncatedLessSig := sub sum' moreSig
  ⟨sum', add s.comp (sub lessSig truncatedLessSig)⟩

/-- KBNSummer.Sum (util.go 58-60). -/
def KBN.result (s : KBN α) : α := add s.sum s.comp

def kbnSum (xs : List α) : α := (xs.foldl KBN.push KBN.init).result

/-! ### vector.go -/

/-- Vector.Sum (57-64). -/
def Vec.sum (v : Vec α) : α := kbnSum (v.entries.map (·.val))

/-- The merge loop of AddVec (73-97), branch order as in the Go `switch`. -/
def addEntries : List (Entry α) → List (Entry α) → List (Entry α)
  | [], e2 => e2
  | e1, [] => e1
  | a :: e1, b :: e2 =>
    if a.idx < b.idx then a :: addEntries e1 (b :: e2)
    else if b.idx < a.idx then b :: addEntries (a :: e1) e2
    else ⟨a.idx, add a.val b.val⟩ :: addEntries e1 e2
termination_by e1 e2 => e1.length + e2.length

def negEntries (es : List (Entry α)) : List (Entry α) := es.map fun e => ⟨e.idx, neg e.val⟩

/-- The merge loop of SubVec (110-134). -/
def subEntries : List (Entry α) → List (Entry α) → List (Entry α)
  | [], e2 => negEntries e2
  | e1, [] => e1
  | a :: e1, b :: e2 =>
    if a.idx < b.idx then a :: subEntries e1 (b :: e2)
    else if b.idx < a.idx then ⟨b.idx, neg b.val⟩ :: subEntries (a :: e1) e2
    else ⟨a.idx, sub a.val b.val⟩ :: subEntries e1 e2
termination_by e1 e2 => e1.length + e2.length

inductive SErr where
  | dimMismatch
  | zeroSum
  | emptyLocalTrust
  | badParam (what : String)
  | ctx
deriving Repr, DecidableEq, Inhabited

/-- Vector.AddVec (67-101). -/
def Vec.addVec (v1 v2 : Vec α) : Except SErr (Vec α) :=
  if v1.dim ≠ v2.dim then .error .dimMismatch
  else .ok ⟨v1.dim, addEntries v1.entries v2.entries⟩

/-- Vector.SubVec (104-138). -/
def Vec.subVec (v1 v2 : Vec α) : Except SErr (Vec α) :=
  if v1.dim ≠ v2.dim then .error .dimMismatch
  else .ok ⟨v1.dim, subEntries v1.entries v2.entries⟩

/-- scaleInPlace (153-172): multiply, drop products that compare equal to zero. -/
def scaleEntries (a : α) (es : List (Entry α)) : List (Entry α) :=
  if eq a one then es
  else es.filterMap fun e =>
    let x := mul e.val a
    if isZero x then none else some ⟨e.idx, x⟩

/-- Vector.ScaleVec (141-151). -/
def Vec.scale (a : α) (v : Vec α) : Vec α :=
  if isZero a then ⟨v.dim, []⟩ else ⟨v.dim, scaleEntries a v.entries⟩

/-- The products fed to the summer by VecDot (183-195): for each entry of `e1`, entries of
    `e2` with a smaller or equal index are consumed; equal indices contribute a product. -/
def dotTerms : List (Entry α) → List (Entry α) → List α
  | [], _ => []
  | _, [] => []
  | a :: e1, b :: e2 =>
    if b.idx < a.idx then dotTerms (a :: e1) e2
    else if b.idx = a.idx then mul a.val b.val :: dotTerms (a :: e1) e2
    else dotTerms e1 (b :: e2)
termination_by e1 e2 => e1.length + e2.length

/-- VecDot (175-197). -/
def vecDot (e1 e2 : List (Entry α)) : α := kbnSum (dotTerms e1 e2)

/-- Vector.Norm2 before the square root (276-282). -/
def Vec.sumSq (v : Vec α) : α := kbnSum (v.entries.map fun e => mul e.val e.val)

/-- Vector.SetDim (48-55).  `sort.Search` on an index-sorted slice = `takeWhile`. -/
def Vec.setDim (v : Vec α) (dim : Nat) : Vec α :=
  if dim < v.dim then ⟨dim, v.entries.takeWhile (·.idx < dim)⟩ else ⟨dim, v.entries⟩

/-- mergeSpan (matrix.go 110-152).  The three early returns coincide with the loop's
    behaviour on empty spans; the loop has the seven branches of the Go code:
    `!more2`, `!more1` (zeros of the update are *kept* here), `index1 < index2`,
    `index2 < index1` (zero dropped / non-zero taken), equal (zero deletes / non-zero wins). -/
def mergeSpan : List (Entry α) → List (Entry α) → List (Entry α)
  | s1, [] => s1
  | [], s2 => s2
  | a :: s1, b :: s2 =>
    if a.idx < b.idx then a :: mergeSpan s1 (b :: s2)
    else if b.idx < a.idx then
      (if !isZero b.val then b :: mergeSpan (a :: s1) s2 else mergeSpan (a :: s1) s2)
    else
      (if !isZero b.val then b :: mergeSpan s1 s2 else mergeSpan s1 s2)
termination_by s1 s2 => s1.length + s2.length

/-- Vector.Merge (290-294); the second component is the argument after the call (Reset). -/
def Vec.merge (v v2 : Vec α) : Vec α × Vec α :=
  let v' := v.setDim (max v.dim v2.dim)
  (⟨v'.dim, mergeSpan v'.entries v2.entries⟩, ⟨0, []⟩)

/-- insertion of one entry into an index-sorted list (stable: after equal keys). -/
def insertByIdx (e : Entry α) : List (Entry α) → List (Entry α)
  | [] => [e]
  | x :: xs => if e.idx < x.idx then e :: x :: xs else x :: insertByIdx e xs

/-- `sort.Sort(EntriesByIndex …)`: *a* sorted permutation.  The executable model uses a stable
    insertion sort; theorems use only "sorted permutation", and inputs with duplicate keys
    (where Go's unstable sort is unspecified) are excluded where it matters. -/
def sortByIdx (es : List (Entry α)) : List (Entry α) := es.foldr insertByIdx []

/-- NewVector (26-31). -/
def Vec.new (dim : Nat) (es : List (Entry α)) : Vec α := ⟨dim, sortByIdx es⟩

/-! ### matrix.go -/

abbrev Row (α : Type) := List (Entry α)

/-- sparse.CSMatrix (19-23).  `hidden` is the part of the backing array of `Entries` beyond
    `len` (`Entries[len:cap]`), which `SetMajorDim` can re-expose. `mapped` is modelled
    separately (Model/Mmap.lean). -/
structure CSM (α : Type) where
  major : Nat
  minor : Nat
  rows : List (Row α)
  hidden : List (Row α) := []
deriving Repr, Inhabited

def CSM.empty : CSM α := ⟨0, 0, [], []⟩

/-- CSMatrix.Dim (37-42). -/
def CSM.dim (m : CSM α) : Except SErr Nat :=
  if m.major ≠ m.minor then .error .dimMismatch else .ok m.major

/-- CSMatrix.NNZ (68-73). -/
def CSM.nnz (m : CSM α) : Nat := (m.rows.map List.length).sum

/-- CSMatrix.SetMajorDim (46-52), *as repaired* (shrinking clears the dropped tail, so that
    `hidden` only ever holds nil rows):
    `cap < dim` → fresh table of capacity `dim`; then reslice to `dim`. -/
def CSM.setMajorDim (m : CSM α) (dim : Nat) : CSM α :=
  let len := m.rows.length
  let cap := len + m.hidden.length
  if cap < dim then
    { m with major := dim, rows := m.rows ++ List.replicate (dim - len) [], hidden := [] }
  else
    let all := m.rows ++ m.hidden
    let kept := all.take dim
    let dropped := all.drop dim
    -- repaired code: `clear(m.Entries[dim:len])` on shrink
    let dropped' := dropped.zipIdx.map fun (r, i) => if dim + i < len then [] else r
    { m with major := dim, rows := kept, hidden := dropped' }

/-- CSMatrix.SetMinorDim (56-65): truncate visible rows only. -/
def CSM.setMinorDim (m : CSM α) (dim : Nat) : CSM α :=
  if dim < m.minor then
    { m with minor := dim, rows := m.rows.map fun r => r.takeWhile (·.idx < dim) }
  else { m with minor := dim }

/-- CSRMatrix.SetDim (365-368). -/
def CSM.setDim (m : CSM α) (rows cols : Nat) : CSM α :=
  (m.setMajorDim rows).setMinorDim cols

/-- entries of one source row scattered into the transposed table (95-99):
    `t[col] = append(t[col], {row, val})`. -/
def scatterRow (t : List (Row α)) (i : Nat) (r : Row α) : List (Row α) :=
  r.foldl (fun t e => t.modify e.idx (· ++ [⟨i, e.val⟩])) t

/-- CSMatrix.Transpose (76-108) without cancellation: counting pass is only an allocation
    hint; the scatter pass appends rows in increasing order.  All column indices must be
    `< minor` (else Go panics on `nnzs[e.Index]`; see `CSM.colsInRange`). -/
def CSM.transpose (m : CSM α) : CSM α :=
  let t0 : List (Row α) := List.replicate m.minor []
  let t := m.rows.zipIdx.foldl (fun t (r, i) => scatterRow t i r) t0
  ⟨m.minor, m.major, t, []⟩

def CSM.colsInRange (m : CSM α) : Bool :=
  m.rows.all fun r => r.all fun e => e.idx < m.minor

/-- one step of the bucket pass of NewCSRMatrix (337-345). -/
def bucketCoo (includeZero : Bool) (t : List (Row α)) (e : Coo α) : List (Row α) :=
  if isZero e.val && !includeZero then t
  else t.modify e.row (· ++ [⟨e.col, e.val⟩])

/-- NewCSRMatrix (330-358).  Row indices must be `< rows` (else Go panics). -/
def CSM.newCSR (rows cols : Nat) (es : List (Coo α)) (includeZero : Bool) : CSM α :=
  let t0 : List (Row α) := List.replicate rows []
  let t := es.foldl (bucketCoo includeZero) t0
  ⟨rows, cols, t.map sortByIdx, []⟩

def cooRowsInRange (rows : Nat) (es : List (Coo α)) (includeZero : Bool) : Bool :=
  es.all fun e => (isZero e.val && !includeZero) || e.row < rows

/-- row-wise mergeSpan over the first `m2.major` rows (matrix.go 165-167). -/
def mergeRows : List (Row α) → List (Row α) → List (Row α)
  | r1 :: t1, r2 :: t2 => mergeSpan r1 r2 :: mergeRows t1 t2
  | t1, [] => t1
  | [], _ => []

/-- CSMatrix.Merge (159-169); second component = the argument afterwards (Reset). -/
def CSM.merge (m m2 : CSM α) : CSM α × CSM α :=
  let m' := (m.setMajorDim (max m.major m2.major)).setMinorDim (max m.minor m2.minor)
  ({ m' with rows := mergeRows m'.rows m2.rows }, CSM.empty)

/-- CSRMatrix.RowVector (372-377). -/
def CSM.rowVec (m : CSM α) (i : Nat) : Vec α := ⟨m.minor, m.rows.getD i []⟩

/-- The sequential matrix-vector product: row `i` ↦ `VecDot(row i, v)`, zero products
    dropped, index order (vector.go MulVec 200-273 minus the goroutines; Props/C06 shows
    that every schedule of the parallel code yields exactly this). -/
def mulVecEntries (rows : List (Row α)) (v : List (Entry α)) : List (Entry α) :=
  rows.zipIdx.filterMap fun (r, i) =>
    let p := vecDot r v
    if isZero p then none else some ⟨i, p⟩

/-- Vector.MulVec (200-273), sequential semantics. -/
def mulVec (m : CSM α) (v : Vec α) : Except SErr (Vec α) :=
  match m.dim with
  | .error e => .error e
  | .ok dim =>
    if dim ≠ v.dim then .error .dimMismatch
    else .ok ⟨dim, mulVecEntries m.rows v.entries⟩

/-! ### executable well-formedness checks (used by the driver on implementation output) -/

def sortedStrict : List (Entry α) → Bool
  | [] => true
  | [_] => true
  | a :: b :: t => a.idx < b.idx && sortedStrict (b :: t)

def wfEntries (dim : Nat) (es : List (Entry α)) : Bool :=
  sortedStrict es && es.all (·.idx < dim)

def Vec.wf (v : Vec α) : Bool := wfEntries v.dim v.entries

def CSM.wf (m : CSM α) : Bool :=
  m.rows.length == m.major && m.rows.all (wfEntries m.minor)

/-- dense value at index `i` (sum of stored values at `i`; at most one when sorted). -/
def denE : List (Entry α) → Nat → α
  | [], _ => zero
  | e :: es, i => if e.idx = i then add e.val (denE es i) else denE es i

end EtVerif
