/-
  Model of the swap-out machinery of pkg/sparse/matrix.go (Mmap 180-…, Munmap, finalize, Reset,
  Merge's Munmap of its argument) as a *resource ledger* plus a *location tag* per row.
  Syscalls are abstract steps that may fail by an environment choice (`Faults`).
  Mirrors the tree after the `fix:` commits of known_findings.jsonl (temp file removed on every
  failure path; nnz = 0 maps nothing; rows re-pointed into the mapping, installed after the copy).
  Core-only.
-/
import EtVerif.Model.Sparse

namespace EtVerif.Mm
open EtVerif Scalar

variable {α : Type} [Scalar α]

/-- where a row's backing array lives -/
inductive Loc where
  | heap
  | map (id : Nat)
deriving Repr, DecidableEq, Inhabited

/-- process resources attributable to swap-out -/
structure Ledger where
  files : List Nat := []     -- temp files present in TMPDIR
  fds : List Nat := []       -- open descriptors
  maps : List Nat := []      -- live mappings
  next : Nat := 0            -- fresh id supply
deriving Repr, Inhabited

structure MState (α : Type) where
  m : CSM α
  locs : List Loc            -- one tag per row of `m.rows` (meaningful for non-empty rows)
  mapped : Option Nat        -- `m.mapped != nil`: id of the adopted mapping
  led : Ledger

/-- environment choices for one `Mmap` call -/
structure Faults where
  createTemp : Bool := false
  truncate : Bool := false
  mmapSys : Bool := false
  remove : Bool := false
  /-- the context is found cancelled at the poll before copying row `k` -/
  cancelAtRow : Option Nat := none
deriving Repr, Inhabited

inductive MErr where
  | sys | ctx
deriving Repr, DecidableEq

def rmv (l : List Nat) (x : Nat) : List Nat := l.filter (· != x)

/-- is some non-empty row outside the current mapping? (the "dirty" check, 183-204) -/
def dirty (s : MState α) (id : Nat) : Bool :=
  (s.m.rows.zip s.locs).any fun (r, l) => !r.isEmpty && l != Loc.map id

/-- Munmap (290-306): rows copied back to the heap, mapping released. -/
def munmap (s : MState α) : MState α :=
  match s.mapped with
  | none => s
  | some id =>
    { s with m := { s.m with hidden := [] }, locs := s.m.rows.map fun _ => Loc.heap, mapped := none,
             led := { s.led with maps := rmv s.led.maps id } }

/-- Mmap (180-…). Returns the new state and the outcome. -/
def mmap (f : Faults) (s : MState α) : MState α × Except MErr Unit :=
  let alreadyClean := match s.mapped with
    | some id => !dirty s id
    | none => false
  if alreadyClean then (s, .ok ())
  else if s.m.nnz = 0 then (munmap s, .ok ())
  else if f.createTemp then (s, .error .sys)
  else
    let fid := s.led.next
    -- CreateTemp: file exists, descriptor open
    let led1 : Ledger := { s.led with files := fid :: s.led.files, fds := fid :: s.led.fds, next := fid + 1 }
    -- every failure below runs the deferred close (fd released) and the deferred unlink
    let failClean : MState α × Except MErr Unit :=
      ({ s with led := { led1 with files := rmv led1.files fid, fds := rmv led1.fds fid } }, .error .sys)
    if f.truncate then failClean
    else if f.mmapSys then failClean
    else
      let mid := led1.next
      -- mapped; descriptor closed
      let led2 : Ledger := { led1 with maps := mid :: led1.maps, fds := rmv led1.fds fid, next := mid + 1 }
      if f.remove then
        -- unlink failed: the mapping is released by the deferred unmap; the file cannot be removed
        ({ s with led := { led2 with maps := rmv led2.maps mid } }, .error .sys)
      else
        let led3 : Ledger := { led2 with files := rmv led2.files fid }
        match f.cancelAtRow with
        | some k =>
          if k < s.m.rows.length then
            -- cancelled during the copy: deferred unmap; receiver untouched
            ({ s with led := { led3 with maps := rmv led3.maps mid } }, .error .ctx)
          else
            ({ s with m := { s.m with hidden := s.m.hidden.map fun _ => [] },
                      locs := s.m.rows.map fun _ => Loc.map mid, mapped := some mid,
                      led := { led3 with maps := match s.mapped with
                                 | some old => rmv led3.maps old
                                 | none => led3.maps } }, .ok ())
        | none =>
          ({ s with m := { s.m with hidden := s.m.hidden.map fun _ => [] },
                    locs := s.m.rows.map fun _ => Loc.map mid, mapped := some mid,
                    led := { led3 with maps := match s.mapped with
                               | some old => rmv led3.maps old
                               | none => led3.maps } }, .ok ())

/-- Reset (26-34). -/
def reset (s : MState α) : MState α :=
  let s' := munmap s
  { s' with m := CSM.empty, locs := [] }

/-- finalize (308-319): the garbage collector found the matrix unreachable. -/
def finalize (s : MState α) : MState α := munmap s

/-- locations after a row-wise merge: an untouched target row keeps its place, an adopted update
    row is on the heap (the update was swapped in first), a merged row is freshly allocated. -/
def mergeLocs : List (Row α) → List Loc → List (Row α) → List Loc
  | r1 :: t1, l1 :: tl, r2 :: t2 =>
    (if r2.isEmpty then l1 else Loc.heap) :: mergeLocs t1 tl t2
  | _, tl, [] => tl
  | _, _, _ => []

/-- CSMatrix.Merge (159-169) into a possibly swapped-out receiver; `u` is the update's state
    (it is swapped in first and reset afterwards). Returns (receiver, update). -/
def merge (s u : MState α) : MState α × MState α :=
  let u1 := munmap u
  let grown := (s.m.setMajorDim (max s.m.major u1.m.major)).setMinorDim (max s.m.minor u1.m.minor)
  let locsGrown := s.locs ++ List.replicate (grown.rows.length - s.locs.length) Loc.heap
  let merged := (s.m.merge u1.m).1
  ({ s with m := merged, locs := mergeLocs grown.rows (locsGrown.take grown.rows.length) u1.m.rows },
   { u1 with m := CSM.empty, locs := [] })

/-- SetMajorDim / SetMinorDim keep the surviving rows where they are. -/
def setDim (s : MState α) (r c : Nat) : MState α :=
  let m' := s.m.setDim r c
  { s with m := m', locs := (s.locs ++ List.replicate (r - s.locs.length) Loc.heap).take r }

/-- a freshly constructed matrix: on the heap, nothing mapped -/
def fresh (m : CSM α) (led : Ledger) : MState α :=
  { m := m, locs := m.rows.map fun _ => Loc.heap, mapped := none, led := led }

/-- rows that must be in the mapping after a successful swap-out -/
def inMapCount (s : MState α) : Nat :=
  match s.mapped with
  | none => 0
  | some id => ((s.m.rows.zip s.locs).filter fun (r, l) => !r.isEmpty && l == Loc.map id).length

def nonEmptyCount (s : MState α) : Nat := (s.m.rows.filter fun r => !r.isEmpty).length

end EtVerif.Mm
