/-
  Model of pkg/basic/server/grpc (trustmatrix.go, trustvector.go, compute.go, biguintqwords.go)
  from the *decoded* messages, over a sequential state.  protobuf / gRPC transport are outside the
  model.  Mirrors the tree after the `fix:` commits of known_findings.jsonl (timestamp never
  lowered; negative indices refused; nil params refused; max_iterations honoured).  Core-only.
-/
import EtVerif.Model.Basic

namespace EtVerif.Grpc
open EtVerif Scalar

variable {α : Type} [Scalar α]

/-! ### biguintqwords.go -/

def base64 : Nat := 2 ^ 64

/-- Qwords2BigUint (21-28): big-endian base-2^64 digits. -/
def qwords2Nat (ws : List Nat) : Nat := ws.foldl (fun v w => v * base64 + w) 0

/-- least-significant-first digits -/
def qwordsLE : Nat → Nat → List Nat
  | 0, _ => []
  | fuel + 1, n => if n = 0 then [] else (n % base64) :: qwordsLE fuel (n / base64)

/-- BigUint2Qwords (10-19): `(BitLen+63)/64` words, most significant first, none for 0. -/
def nat2Qwords (n : Nat) : List Nat := (qwordsLE n n).reverse

/-! ### state -/

structure TM (α : Type) where
  m : CSM α
  ts : Nat

structure TV (α : Type) where
  v : Vec α
  ts : Nat

structure GState (α : Type) where
  mats : List (String × TM α) := []
  vecs : List (String × TV α) := []

def lookup {β : Type} (l : List (String × β)) (id : String) : Option β := (l.find? (·.1 == id)).map (·.2)
def store {β : Type} (l : List (String × β)) (id : String) (b : β) : List (String × β) :=
  (id, b) :: l.filter (·.1 != id)
def erase {β : Type} (l : List (String × β)) (id : String) : List (String × β) := l.filter (·.1 != id)

/-- gRPC status classes observed by clients -/
inductive Code where
  | ok | notFound | invalidArgument | unknown | internal | unavailable
deriving Repr, DecidableEq, Inhabited

/-! ### TrustMatrix service -/

/-- one decoded update entry: `strconv.Atoi` results (`none` = not an integer literal) -/
structure MEntry (α : Type) where
  truster : Option Int
  trustee : Option Int
  value : α

/-- Create (26-40) with an explicit id: NewNamed refuses an existing id. -/
def tmCreateNamed (s : GState α) (id : String) : GState α × Code :=
  if (lookup s.mats id).isSome then (s, .unknown)
  else ({ s with mats := store s.mats id ⟨CSM.empty, 0⟩ }, .ok)

/-- Create with an empty id: the random id is an oracle input; `LoadOrStore` guarantees it is
    fresh (the retry loop is abstracted: a colliding oracle value is a no-op to be retried). -/
def tmCreateFresh (s : GState α) (fresh : String) : GState α × Code :=
  if (lookup s.mats fresh).isSome then (s, .unknown) else
  ({ s with mats := store s.mats fresh ⟨CSM.empty, 0⟩ }, .ok)

/-- Get (42-83): header timestamp, then the non-zero entries in row-major order. -/
def tmGet (s : GState α) (id : String) : Option (Nat × List (Nat × Nat × α)) :=
  (lookup s.mats id).map fun tm =>
    (tm.ts, (tm.m.rows.zipIdx.map fun (r, i) =>
      (r.filter fun e => !isZero e.val).map fun e => (i, e.idx, e.val)).flatten)

/-- the index validation of Update (95-120), in entry order:
    the first failing entry decides the error (`unknown` for a non-integer literal,
    `invalidArgument` for a negative index — as repaired). -/
def parseMEntries : List (MEntry α) → Except Code (List (Coo α))
  | [] => .ok []
  | e :: es =>
    match e.truster with
    | none => .error .unknown
    | some i =>
      match e.trustee with
      | none => .error .unknown
      | some j =>
        if i < 0 || j < 0 then .error .invalidArgument
        else match parseMEntries es with
          | .error c => .error c
          | .ok rest => .ok (⟨i.toNat, j.toNat, e.value⟩ :: rest)

/-- Update (84-149): build the batch (zeros included) with squared dimensions, merge, and advance
    the timestamp to the maximum (as repaired: a stale update never lowers it). -/
def tmUpdate (s : GState α) (id : String) (ts : Nat) (entries : List (MEntry α)) : GState α × Code :=
  match lookup s.mats id with
  | none => (s, .notFound)
  | some tm =>
    match parseMEntries entries with
    | .error c => (s, c)
    | .ok coos =>
      let rows := coos.foldl (fun r e => max r (e.row + 1)) 0
      let cols := coos.foldl (fun c e => max c (e.col + 1)) 0
      let n := max rows cols
      let c2 := CSM.newCSR n n coos true
      let m' := (tm.m.merge c2).1
      ({ s with mats := store s.mats id ⟨m', max tm.ts ts⟩ }, .ok)

/-- Flush (151-164). -/
def tmFlush (s : GState α) (id : String) : GState α × Code :=
  match lookup s.mats id with
  | none => (s, .notFound)
  | some _ => ({ s with mats := store s.mats id ⟨CSM.empty, 0⟩ }, .ok)

/-- Delete (166-174). -/
def tmDelete (s : GState α) (id : String) : GState α × Code :=
  if (lookup s.mats id).isSome then ({ s with mats := erase s.mats id }, .ok) else (s, .notFound)

/-! ### TrustVector service -/

structure VEntry (α : Type) where
  trustee : Option Int
  value : α

def tvCreateNamed (s : GState α) (id : String) : GState α × Code :=
  if (lookup s.vecs id).isSome then (s, .unknown)
  else ({ s with vecs := store s.vecs id ⟨⟨0, []⟩, 0⟩ }, .ok)

def tvGet (s : GState α) (id : String) : Option (Nat × List (Nat × α)) :=
  (lookup s.vecs id).map fun tv =>
    (tv.ts, (tv.v.entries.filter fun e => !isZero e.val).map fun e => (e.idx, e.val))

def parseVEntries : List (VEntry α) → Except Code (List (Entry α))
  | [] => .ok []
  | e :: es =>
    match e.trustee with
    | none => .error .unknown
    | some i =>
      if i < 0 then .error .invalidArgument
      else match parseVEntries es with
        | .error c => .error c
        | .ok rest => .ok (⟨i.toNat, e.value⟩ :: rest)

/-- trustvector.go Update (83-129). -/
def tvUpdate (s : GState α) (id : String) (ts : Nat) (entries : List (VEntry α)) : GState α × Code :=
  match lookup s.vecs id with
  | none => (s, .notFound)
  | some tv =>
    match parseVEntries entries with
    | .error c => (s, c)
    | .ok es =>
      let size := es.foldl (fun r e => max r (e.idx + 1)) 0
      let v' := (tv.v.merge (Vec.new size es)).1
      ({ s with vecs := store s.vecs id ⟨v', max tv.ts ts⟩ }, .ok)

def tvFlush (s : GState α) (id : String) : GState α × Code :=
  match lookup s.vecs id with
  | none => (s, .notFound)
  | some _ => ({ s with vecs := store s.vecs id ⟨⟨0, []⟩, 0⟩ }, .ok)

def tvDelete (s : GState α) (id : String) : GState α × Code :=
  if (lookup s.vecs id).isSome then ({ s with vecs := erase s.vecs id }, .ok) else (s, .notFound)

/-! ### Compute service -/

structure Params (α : Type) where
  localTrustId : String
  preTrustId : String
  alpha : Option α
  epsilon : Option α
  globalTrustId : String
  maxIterations : Nat
  positiveGlobalTrustId : String

structure Consts (α : Type) where
  half : α
  epsNum : α

/-- BasicCompute (24-175); `none` params = the request carries no `params` message. -/
def basicCompute (fuel : Nat) (k : Consts α) (s : GState α) (params : Option (Params α)) :
    GState α × Code :=
  match params with
  | none => (s, .invalidArgument)
  | some q =>
    match lookup s.mats q.localTrustId with
    | none => (s, .notFound)
    | some ltm =>
      let c0 := ltm.m
      if c0.major ≠ c0.minor then (s, .internal) else
      let cDim0 := c0.major
      let ts0 := ltm.ts
      -- pre-trust (60-79)
      let pre : Option (Option (TV α)) :=
        if q.preTrustId == "" then some none
        else match lookup s.vecs q.preTrustId with
          | none => none
          | some pt => some (some pt)
      match pre with
      | none => (s, .notFound)
      | some preOpt =>
        let (c1, p1, ts1) : CSM α × Vec α × Nat := match preOpt with
          | none => (c0, Vec.new cDim0 [], ts0)
          | some pt =>
            let p := pt.v
            let ts := max ts0 pt.ts
            if p.dim < cDim0 then (c0, p.setDim cDim0, ts)
            else if cDim0 < p.dim then (c0.setDim p.dim p.dim, p, ts)
            else (c0, p, ts)
        -- global trust (80-100)
        match lookup s.vecs q.globalTrustId with
        | none => (s, .notFound)
        | some gt =>
          let ts2 := max ts1 gt.ts
          let (c2, p2, t2) : CSM α × Vec α × Vec α :=
            if gt.v.dim < p1.dim then (c1, p1, gt.v.setDim p1.dim)
            else if p1.dim < gt.v.dim then (c1.setDim gt.v.dim gt.v.dim, p1.setDim gt.v.dim, gt.v)
            else (c1, p1, gt.v)
          let cDim := c2.major
          -- parameters (108-123)
          let aOK := match q.alpha with | some a => !(lt a zero || lt one a) | none => true
          let eOK := match q.epsilon with | some e => !(le e zero || lt one e) | none => true
          if !aOK || !eOK then (s, .invalidArgument) else
          let a := q.alpha.getD k.half
          let e := q.epsilon.getD (div k.epsNum (ofNat cDim))
          let p3 := canonicalizeTrustVector p2
          let t3 := canonicalizeTrustVector t2
          match extractDistrust c2 with
          | .error _ => (s, .internal)
          | .ok (c3, d3) =>
            match canonicalizeLocalTrust c3 (some p3), canonicalizeLocalTrust d3 none with
            | .ok c4, .ok d4 =>
              let opts : ComputeOpts α :=
                { t0 := some t3, resultDim := some t3.dim,
                  maxIterations := if q.maxIterations = 0 then none else some (q.maxIterations : Int) }
              match compute fuel c4 p3 a e opts with
              | .error _ => (s, .unavailable)
              | .ok res =>
                let tpos := res.t
                -- positive-only vector (147-163)
                let vecs1 :=
                  if q.positiveGlobalTrustId == "" then s.vecs
                  else match lookup s.vecs q.positiveGlobalTrustId with
                    | none => s.vecs
                    | some gtp => store s.vecs q.positiveGlobalTrustId ⟨tpos, max gtp.ts ts2⟩
                let tfin := discountTrustVector tpos d4
                -- the global trust object may have been re-stamped by the positive-only write when both ids coincide
                let gtNow := (lookup vecs1 q.globalTrustId).getD gt
                let vecs2 := store vecs1 q.globalTrustId ⟨tfin, max gtNow.ts ts2⟩
                ({ s with vecs := vecs2 }, .ok)
            | _, _ => (s, .internal)

end EtVerif.Grpc
