/-
  GoSem: the semantic prelude of the Go → Lean translator (tools/go2lean).

  `tools/go2lean` reads the *current* source of selected functions of /repo (the sequential
  numeric kernels of pkg/sparse and pkg/basic) and emits `Gen/Translated.lean`: one Lean
  definition per Go function, statement by statement, in terms of the combinators below.
  The combinators give the imperative fragment of Go that those functions use a precise,
  executable meaning:

  * a function body is a state transformer over a record of its local variables
    (`Stm σ ρ := σ → Except GoErr (σ × Ctl ρ)`), `Ctl` carrying `break`/`continue`/`return`;
  * run-time panics (index / slice out of range, negative `make`) are explicit errors
    (`GoErr.panic`), never totalised defaults;
  * `for` loops take *fuel*; running out of fuel is the explicit error `GoErr.fuel`, so a
    refinement theorem "for every fuel ≥ bound the result is `ok …`" is also a termination proof;
  * `int` is `Int` (unbounded: 64-bit wrap-around is not modelled), `float64` is the `Scalar`
    parameter, slices are lists (capacity is not modelled: `cap(x)` is an arbitrary function
    `capO` of the length, and reslicing beyond the length is a model panic; aliasing between
    slices / pointer parameters is not modelled — value semantics).

  Core-only (no Mathlib): linked into the driver so that the translated code can be executed.
-/
import EtVerif.Model.Scalar

namespace EtVerif.GoSem

inductive GoErr where
  | panic (what : String)
  | fuel
deriving Repr, DecidableEq, Inhabited

/-- A Go `error` value other than nil: package-level sentinel or formatted message. -/
structure GoError where
  name : String
deriving Repr, DecidableEq, Inhabited

abbrev R := Except GoErr

inductive Ctl (ρ : Type) where
  | next
  | brk (l : Nat)
  | cont (l : Nat)
  | ret (r : ρ)

abbrev Stm (σ ρ : Type) := σ → R (σ × Ctl ρ)

namespace Stm
variable {σ ρ : Type}

@[inline] def skip : Stm σ ρ := fun s => .ok (s, .next)

@[inline] def seq (a b : Stm σ ρ) : Stm σ ρ := fun s =>
  match a s with
  | .error e => .error e
  | .ok (s', .next) => b s'
  | .ok (s', c) => .ok (s', c)

/-- assignment-like statement: a (possibly panicking) state update. -/
@[inline] def set (f : σ → R σ) : Stm σ ρ := fun s =>
  match f s with
  | .error e => .error e
  | .ok s' => .ok (s', .next)

@[inline] def ite (c : σ → R Bool) (a b : Stm σ ρ) : Stm σ ρ := fun s =>
  match c s with
  | .error e => .error e
  | .ok true => a s
  | .ok false => b s

@[inline] def ret (f : σ → R ρ) : Stm σ ρ := fun s =>
  match f s with
  | .error e => .error e
  | .ok r => .ok (s, .ret r)

@[inline] def brk (l : Nat) : Stm σ ρ := fun s => .ok (s, .brk l)
@[inline] def cont (l : Nat) : Stm σ ρ := fun s => .ok (s, .cont l)

/-- a breakable block (Go `switch`): `break l` inside leaves the block normally. -/
@[inline] def block (l : Nat) (body : Stm σ ρ) : Stm σ ρ := fun s =>
  match body s with
  | .error e => .error e
  | .ok (s', .brk l') => if l' = l then .ok (s', .next) else .ok (s', .brk l')
  | .ok (s', c) => .ok (s', c)

/-- what happens after one execution of a loop body: `none` = go on with the next iteration
    (after the post statement), `some c` = leave the loop with control `c`. -/
@[inline] def afterBody (l : Nat) : Ctl ρ → Option (Ctl ρ)
  | .next => none
  | .cont l' => if l' = l then none else some (.cont l')
  | .brk l' => if l' = l then some .next else some (.brk l')
  | .ret r => some (.ret r)

/-- `for ; cond; post { body }` with label `l` and fuel. -/
def loop (l : Nat) (cond : σ → R Bool) (body post : Stm σ ρ) : Nat → Stm σ ρ
  | 0 => fun s =>
    match cond s with
    | .error e => .error e
    | .ok false => .ok (s, .next)
    | .ok true => .error .fuel
  | n + 1 => fun s =>
    match cond s with
    | .error e => .error e
    | .ok false => .ok (s, .next)
    | .ok true =>
      match body s with
      | .error e => .error e
      | .ok (s1, c) =>
        match afterBody l c with
        | some c' => .ok (s1, c')
        | none =>
          match post s1 with
          | .error e => .error e
          | .ok (s2, .next) => loop l cond body post n s2
          | .ok (s2, c2) => .ok (s2, c2)

/-- `for i, x := range xs { body }` over a snapshot `xs` of the slice (the translator only
    accepts bodies that do not assign through the ranged slice when the value variable is used);
    `bind i x` stores the iteration variables into the state. Structural: needs no fuel. -/
def range {β : Type} (l : Nat) (bind : Int → β → σ → σ) (body : Stm σ ρ) : Int → List β → Stm σ ρ
  | _, [] => fun s => .ok (s, .next)
  | i, x :: xs => fun s =>
    match body (bind i x s) with
    | .error e => .error e
    | .ok (s1, c) =>
      match afterBody l c with
      | some c' => .ok (s1, c')
      | none => range l bind body (i + 1) xs s1

/-- `range` over a slice expression evaluated once at loop entry. -/
@[inline] def rangeOver {β : Type} (l : Nat) (xs : σ → R (List β)) (bind : Int → β → σ → σ)
    (body : Stm σ ρ) : Stm σ ρ := fun s =>
  match xs s with
  | .error e => .error e
  | .ok lst => range l bind body 0 lst s

/-- run a function body; falling off the end returns `dflt` (Go: function without results). -/
@[inline] def run (body : Stm σ ρ) (dflt : ρ) (s : σ) : R (σ × ρ) :=
  match body s with
  | .error e => .error e
  | .ok (s', .ret r) => .ok (s', r)
  | .ok (s', _) => .ok (s', dflt)

end Stm

/-! ### slices as lists -/

/-- `l[i]` (panics when out of range). -/
@[inline] def goIdx {β : Type} (l : List β) (i : Int) : R β :=
  if i < 0 then .error (.panic "index out of range")
  else match l[i.toNat]? with
    | some x => .ok x
    | none => .error (.panic "index out of range")

/-- `l[i] = x`. -/
@[inline] def goSet {β : Type} (l : List β) (i : Int) (x : β) : R (List β) :=
  if i < 0 then .error (.panic "index out of range")
  else if i.toNat < l.length then .ok (l.set i.toNat x)
  else .error (.panic "index out of range")

/-- `l[lo:hi]`; reslicing beyond the length is outside the translated fragment (panic). -/
@[inline] def goSlice {β : Type} (l : List β) (lo hi : Int) : R (List β) :=
  if 0 ≤ lo ∧ lo ≤ hi ∧ hi ≤ (l.length : Int) then .ok ((l.take hi.toNat).drop lo.toNat)
  else .error (.panic "slice bounds out of range")

@[inline] def goLen {β : Type} (l : List β) : Int := (l.length : Int)

/-- `make([]T, n)`. -/
@[inline] def goMake {β : Type} (z : β) (n : Int) : R (List β) :=
  if n < 0 then .error (.panic "makeslice: len out of range") else .ok (List.replicate n.toNat z)

/-- `*p` / `p.f` through a pointer that may be nil. -/
@[inline] def goDeref {β : Type} (p : Option β) : R β :=
  match p with
  | some x => .ok x
  | none => .error (.panic "nil pointer dereference")

/-- `reflect.DeepEqual` on two `[]int`.  Go distinguishes a nil slice from an empty non-nil one, which
    lists do not: the one ambiguous case (both empty) is outside the translated fragment (model panic). -/
@[inline] def goDeepEqualInts (a b : List Int) : R Bool :=
  if a = [] ∧ b = [] then .error (.panic "reflect.DeepEqual: nil vs empty slice is not modelled")
  else .ok (decide (a = b))

/-- `float64(i)` for an `int` (exact for |i| < 2^53 at Float). -/
@[inline] def goFloatOfInt {α : Type} [Scalar α] (i : Int) : α :=
  if i < 0 then Scalar.neg (Scalar.ofNat (-i).toNat) else Scalar.ofNat i.toNat

/-- `sort.Search(n, pred)` exactly as the standard library computes it (binary search;
    `pred` may panic). Fuel `n` suffices because the interval halves. -/
def goSearchAux {m : Type → Type} [Monad m] (pred : Int → m Bool) : Nat → Int → Int → m Int
  | 0, i, _ => pure i
  | f + 1, i, j =>
    if i < j then do
      let h := (i + j) / 2      -- int(uint(i+j) >> 1) for non-negative i, j
      if !(← pred h) then goSearchAux pred f (h + 1) j
      else goSearchAux pred f i h
    else pure i

@[inline] def goSearch (n : Int) (pred : Int → R Bool) : R Int :=
  goSearchAux pred (n.toNat + 1) 0 n

end EtVerif.GoSem
