/-
  Model of pkg/basic/server/oapi/openapi.go (the OpenAPI front-end) from the *decoded* request:
  inline loaders, the compute pipeline, the two compute endpoints, and the stored local-trust
  handlers over a sequential store.  JSON / echo routing are outside the model (trusted base);
  status mapping is modelled as the router delivers it (a non-HTTP error from a strict handler
  becomes 500).  Mirrors the tree after the `fix:` commits of known_findings.jsonl.
  Core-only.
-/
import EtVerif.Model.Basic

namespace EtVerif.Oapi
open EtVerif Scalar

variable {α : Type} [Scalar α]

/-- openapi.InlineTrustMatrix as decoded (JSON integers may be negative). -/
structure IMatrix (α : Type) where
  size : Int
  entries : List (Int × Int × α)
deriving Inhabited

/-- openapi.InlineTrustVector as decoded. -/
structure IVector (α : Type) where
  size : Int
  entries : List (Int × α)
deriving Inhabited

inductive MatrixRef (α : Type) where
  | inline (m : IMatrix α)
  | stored (id : String)
  | objectStorage (url : String)
  | unknown (scheme : String)

inductive VectorRef (α : Type) where
  | inline (v : IVector α)
  | objectStorage (url : String)
  | unknown (scheme : String)

/-- loadInlineTrustMatrix (412-439): size ≥ 1, indices in range (checked in entry order). -/
def loadInlineMatrix (m : IMatrix α) : Option (CSM α) :=
  if m.size ≤ 0 then none
  else if m.entries.all (fun (i, j, _) => 0 ≤ i && i < m.size && 0 ≤ j && j < m.size) then
    some (CSM.newCSR m.size.toNat m.size.toNat
      (m.entries.map fun (i, j, v) => ⟨i.toNat, j.toNat, v⟩) false)
  else none

/-- loadInlineTrustVector (568-588), as repaired (`size ≥ 1`): index in range and `v > 0`. -/
def loadInlineVector (v : IVector α) : Option (Vec α) :=
  if v.size ≤ 0 then none
  else if v.entries.all (fun (i, x) => 0 ≤ i && i < v.size && !le x zero) then
    some (Vec.new v.size.toNat (v.entries.map fun (i, x) => ⟨i.toNat, x⟩))
  else none

abbrev Store (α : Type) := List (String × CSM α)

def Store.get? (s : Store α) (id : String) : Option (CSM α) :=
  (s.find? (·.1 == id)).map (·.2)

def Store.set (s : Store α) (id : String) (m : CSM α) : Store α :=
  (id, m) :: s.filter (·.1 != id)

def Store.erase (s : Store α) (id : String) : Store α := s.filter (·.1 != id)

/-- loadTrustMatrix (384-410); stored references resolve to a deep copy of the stored matrix
    (loadStoredTrustMatrix 441-460), an unknown id is a client error.  Object storage is not
    modelled (`none` ⇒ 400, as for every loader error). -/
def loadMatrix (s : Store α) : MatrixRef α → Option (CSM α)
  | .inline m => loadInlineMatrix m
  | .stored id => s.get? id
  | .objectStorage _ => none
  | .unknown _ => none

def loadVector : VectorRef α → Option (Vec α)
  | .inline v => loadInlineVector v
  | .objectStorage _ => none
  | .unknown _ => none

structure ComputeReq (α : Type) where
  localTrust : MatrixRef α
  initialTrust : Option (VectorRef α) := none
  preTrust : Option (VectorRef α) := none
  alpha : Option α := none
  epsilon : Option α := none
  flatTail : Option Int := none
  numLeaders : Option Int := none
  maxIterations : Option Int := none
  minIterations : Option Int := none
  checkFreq : Option Int := none

/-- literal constants of the handler that have no exact `Scalar` rendering. -/
structure Consts (α : Type) where
  half : α          -- 0.5
  epsNum : α        -- 1e-6

inductive Resp (β : Type) where
  | ok (b : β)
  | badRequest          -- 400
  | notFound            -- 404
  | serverError         -- 500
deriving Inhabited

structure ComputeOut (α : Type) where
  scores : Vec α
  stats : FlatTailStats α
  iters : Nat

/-- the effective inputs handed to `basic.Compute` and `DiscountTrustVector` -/
structure Effective (α : Type) where
  c : CSM α
  p : Vec α
  t0 : Option (Vec α)
  discounts : CSM α
  a : α
  e : α
  opts : ComputeOpts α

def optBad (o : Option Int) (lo : Int) : Bool :=
  match o with | some x => decide (x < lo) | none => false

/-- compute (53-213) up to the call of `basic.Compute`: loading, alignment, defaults, guards,
    canonicalisation, distrust extraction.  `none` = 400. -/
def prepare (k : Consts α) (s : Store α) (r : ComputeReq α) : Option (Effective α) :=
  match loadMatrix s r.localTrust with
  | none => none
  | some c0 =>
    -- c0 is square by construction (loaders) or by the store invariant
    let cDim0 := c0.major
    -- pre-trust (81-98)
    let pLoaded : Option (Option (Vec α)) := match r.preTrust with
      | none => some none
      | some ref => (loadVector ref).map some
    match pLoaded with
    | none => none
    | some pOpt =>
      let (c1, p1, cDim1) : CSM α × Vec α × Nat := match pOpt with
        | none => (c0, Vec.new cDim0 [], cDim0)
        | some p =>
          if p.dim < cDim0 then (c0, p.setDim cDim0, cDim0)
          else if cDim0 < p.dim then (c0.setDim p.dim p.dim, p, p.dim)
          else (c0, p, cDim0)
      -- initial trust (103-125)
      let tLoaded : Option (Option (Vec α)) := match r.initialTrust with
        | none => some none
        | some ref => (loadVector ref).map some
      match tLoaded with
      | none => none
      | some tOpt =>
        let (c2, p2, t2, cDim2) : CSM α × Vec α × Option (Vec α) × Nat := match tOpt with
          | none => (c1, p1, none, cDim1)
          | some t0 =>
            if t0.dim < cDim1 then (c1, p1, some (t0.setDim cDim1), cDim1)
            else if cDim1 < t0.dim then (c1.setDim t0.dim t0.dim, p1.setDim t0.dim, some t0, t0.dim)
            else (c1, p1, some t0, cDim1)
        -- alpha / epsilon (126-145)
        let aOK := match r.alpha with | some a => !(lt a zero || lt one a) | none => true
        let eOK := match r.epsilon with | some e => !(le e zero || lt one e) | none => true
        if !aOK || !eOK then none
        -- iteration options (as repaired: documented minima, answered 400)
        else if optBad r.flatTail 0 || optBad r.numLeaders 0 || optBad r.maxIterations 0 ||
                optBad r.minIterations 1 || optBad r.checkFreq 1 then none
        else
          let a := r.alpha.getD k.half
          let e := r.epsilon.getD (div k.epsNum (ofNat cDim2))
          -- 161-187
          let p3 := canonicalizeTrustVector p2
          let t3 := t2.map canonicalizeTrustVector
          match extractDistrust c2 with
          | .error _ => none
          | .ok (c3, d3) =>
            match canonicalizeLocalTrust c3 (some p3), canonicalizeLocalTrust d3 none with
            | .ok c4, .ok d4 =>
              some { c := c4, p := p3, t0 := t3, discounts := d4, a := a, e := e,
                     opts := { t0 := t3, flatTail := (r.flatTail.getD 0).toNat,
                               numLeaders := (r.numLeaders.getD 0).toNat,
                               maxIterations := r.maxIterations, minIterations := r.minIterations,
                               checkFreq := r.checkFreq } }
            | _, _ => none

/-- compute (188-212): run `basic.Compute` and discount.  A compute error is a 500. -/
def computeCore (fuel : Nat) (k : Consts α) (s : Store α) (r : ComputeReq α) : Resp (ComputeOut α) :=
  match prepare k s r with
  | none => .badRequest
  | some eff =>
    match compute fuel eff.c eff.p eff.a eff.e eff.opts with
    | .error _ => .serverError
    | .ok res =>
      .ok { scores := discountTrustVector res.t eff.discounts, stats := res.stats, iters := res.iters }

/-- POST /compute (215-238): scores only. -/
def handleCompute (fuel : Nat) (k : Consts α) (s : Store α) (r : ComputeReq α) : Resp (Vec α) :=
  match computeCore fuel k s r with
  | .ok o => .ok o.scores
  | .badRequest => .badRequest
  | .notFound => .notFound
  | .serverError => .serverError

/-- POST /compute-with-stats (240-267). -/
def handleComputeWithStats (fuel : Nat) (k : Consts α) (s : Store α) (r : ComputeReq α) :
    Resp (Vec α × FlatTailStats α) :=
  match computeCore fuel k s r with
  | .ok o => .ok (o.scores, o.stats)
  | .badRequest => .badRequest
  | .notFound => .notFound
  | .serverError => .serverError

/-! ### /local-trust/{id} (sequential semantics) -/

inductive StoreReq (α : Type) where
  | put (id : String) (merge : Bool) (body : MatrixRef α)
  | get (id : String)
  | head (id : String)
  | delete (id : String)

inductive StoreResp (α : Type) where
  | created            -- 201
  | updated            -- 200
  | noContent          -- 204
  | notFound           -- 404
  | badRequest         -- 400
  | matrix (size : Nat) (entries : List (Nat × Nat × α))   -- 200 + inline body (scheme "inline")

/-- the entries of a GET body (getLocalTrust 298-315): row-major, stored order. -/
def entriesOf (m : CSM α) : List (Nat × Nat × α) :=
  (m.rows.zipIdx.map fun (r, i) => r.map fun e => (i, e.idx, e.val)).flatten

/-- UpdateLocalTrust (333-372, as repaired: loader errors are answered 400), getLocalTrust
    (269-320, as repaired: scheme "inline"), HeadLocalTrust, DeleteLocalTrust; the map operations
    are those of NamedTrustMatrices.Set / Merge (namedtrust.go 48-72). -/
def handleStore (s : Store α) : StoreReq α → Store α × StoreResp α
  | .put id merge body =>
    match loadMatrix s body with
    | none => (s, .badRequest)
    | some c =>
      match s.get? id with
      | none => (s.set id c, .created)
      | some old =>
        if merge then (s.set id (old.merge c).1, .updated)
        else (s.set id c, .updated)
  | .get id =>
    match s.get? id with
    | none => (s, .notFound)
    | some m => (s, .matrix m.major (entriesOf m))
  | .head id => (s, if (s.get? id).isSome then .noContent else .notFound)
  | .delete id =>
    if (s.get? id).isSome then (s.erase id, .noContent) else (s, .notFound)

end EtVerif.Oapi
