/-
  Models of the CSV-based front-ends from parsed *records* (encoding/csv and strconv are outside
  the model: every field carries its raw text and the results of `strconv.Atoi`,
  `strconv.ParseInt(s,0,0)` and `strconv.ParseFloat` as computed by the real library):
    * pkg/basic/peernames.go, localtrust.go (ReadLocalTrustFromCsv), trustvector.go (library readers);
    * internal/playground/engine.go (calculate);
    * cmd/eigentrust/cmd/basiccompute.go (name table, CSV → inline references, output mapping);
    * pkg/basic/server/oapi loadCsvTrustMatrix / loadCsvTrustVector (`file:` / S3 bodies).
  Mirrors the tree after the `fix:` commits of known_findings.jsonl.  Core-only.
-/
import EtVerif.Model.Oapi

namespace EtVerif.Fe
open EtVerif Scalar

variable {α : Type} [Scalar α]

/-- one CSV field with the library's parse results -/
structure Field (α : Type) where
  raw : String
  atoi : Option Int        -- strconv.Atoi
  parseInt0 : Option Int   -- strconv.ParseInt(s, 0, 0)
  float : Option α         -- strconv.ParseFloat(s, 64)
deriving Inhabited

abbrev Record (α : Type) := List (Field α)

/-! ### pkg/basic/peernames.go -/

/-- ReadPeerNamesFromCsv (9-31): first field of every record; empty record or duplicate = error. -/
def readPeerNames : List (Record α) → List String → Option (List String)
  | [], acc => some acc.reverse
  | r :: rs, acc =>
    match r with
    | [] => none
    | f :: _ => if acc.contains f.raw then none else readPeerNames rs (f.raw :: acc)

/-- ParsePeerId (37-51): by name when a peer list is given, else a non-negative integer literal. -/
def parsePeerId (names : Option (List String)) (f : Field α) : Option Nat :=
  match names with
  | some ns => let i := ns.idxOf f.raw; if i < ns.length then some i else none
  | none => match f.atoi with
    | some i => if i < 0 then none else some i.toNat
    | none => none

/-- ReadLocalTrustFromCsv (localtrust.go 79-135): ≥ 2 fields, default level 1,
    dimension = highest index + 1; the first bad record aborts. -/
def readLocalTrust (names : Option (List String)) (recs : List (Record α)) : Option (CSM α) :=
  let parse : Record α → Option (Coo α) := fun r =>
    match r with
    | f0 :: f1 :: rest =>
      match parsePeerId names f0, parsePeerId names f1 with
      | some i, some j =>
        match rest with
        | [] => some ⟨i, j, one⟩
        | f2 :: _ => f2.float.map fun v => ⟨i, j, v⟩
      | _, _ => none
    | _ => none
  match recs.mapM parse with
  | none => none
  | some coos =>
    let dim := coos.foldl (fun d e => max d (max (e.row + 1) (e.col + 1))) 0
    some (CSM.newCSR dim dim coos false)

/-- ReadTrustVectorFromCsv (trustvector.go 28-67): ≥ 1 field, default level 1. -/
def readTrustVector (names : Option (List String)) (recs : List (Record α)) : Option (Vec α) :=
  let parse : Record α → Option (Entry α) := fun r =>
    match r with
    | f0 :: rest =>
      match parsePeerId names f0 with
      | some i =>
        match rest with
        | [] => some ⟨i, one⟩
        | f1 :: _ => f1.float.map fun v => ⟨i, v⟩
      | none => none
    | _ => none
  match recs.mapM parse with
  | none => none
  | some es =>
    let dim := es.foldl (fun d e => max d (e.idx + 1)) 0
    some (Vec.new dim es)

/-! ### internal/playground/engine.go -/

structure Upload (α : Type) where
  names : Option (List (Record α))
  localTrust : List (Record α)
  preTrust : List (Record α)
  /-- strconv.Atoi of the hunchPercent form field (default "10") -/
  hunchPercent : Option Int

structure Row (α : Type) where
  index : Nat
  name : String
  score : α
  flagged : Bool

def insertByScoreDesc (e : Row α) : List (Row α) → List (Row α)
  | [] => [e]
  | x :: xs => if lt x.score e.score then e :: x :: xs else x :: insertByScoreDesc e xs

/-- `sort.Sort(ByScore(entries))`: descending by score (any sorted permutation). -/
def sortByScoreDesc (rs : List (Row α)) : List (Row α) := rs.foldr insertByScoreDesc []

/-- `iterationBound` (engine.go, as repaired): the loop `for x := 2.0; x > e && n < 1<<16; x *= 1-a { n++ }`
    from `n = 2` — a count by which the exact iteration has converged to within `e`. -/
def pgIterBoundAux (oneMinusA e : α) : Nat → α → Nat → Nat
  | 0, _, n => n
  | f + 1, x, n =>
    if lt e x && decide (n < 65536) then pgIterBoundAux oneMinusA e f (mul x oneMinusA) (n + 1) else n

def pgIterBound (a e : α) : Nat := pgIterBoundAux (sub one a) e 65536 (ofNat 2) 2

/-- the options the playground passes to `Compute`: `WithMaxIterations(iterationBound(alpha, epsilon))`. -/
def pgOpts (a e : α) : ComputeOpts α := { maxIterations := some ((pgIterBound a e : Nat) : Int) }

/-- calculate (51-220), as repaired (`preTrusted` sized by the dimension; iterations bounded).
    `none` = error page, 400. -/
def calculate (fuel : Nat) (hundred eps : α) (u : Upload α) : Option (List (Row α)) :=
  match u.hunchPercent with
  | none => none
  | some hp =>
    if hp < 0 || hp > 100 then none else
    let namesR : Option (Option (List String)) := match u.names with
      | none => some none
      | some recs => (readPeerNames recs []).map some
    match namesR with
    | none => none
    | some names =>
      match readLocalTrust names u.localTrust, readTrustVector names u.preTrust with
      | some lt0, some pt0 =>
        let ltDim := lt0.major
        -- dimension rule (122-146)
        let aligned : Option (CSM α × Vec α) := match names with
          | some ns =>
            let n := ns.length
            if ltDim > n || pt0.dim > n then none
            else some (if ltDim < n then lt0.setDim n n else lt0, if pt0.dim < n then pt0.setDim n else pt0)
          | none =>
            if ltDim < pt0.dim then some (lt0.setDim pt0.dim pt0.dim, pt0)
            else if pt0.dim < ltDim then some (lt0, pt0.setDim ltDim)
            else some (lt0, pt0)
        match aligned with
        | none => none
        | some (lt1, pt1) =>
          let dim := pt1.dim
          let flagged := fun (i : Nat) => pt1.entries.any (·.idx == i)
          let p := canonicalizeTrustVector pt1
          match extractDistrust lt1 with
          | .error _ => none
          | .ok (c, d) =>
            match canonicalizeLocalTrust c (some p), canonicalizeLocalTrust d none with
            | .ok c', .ok d' =>
              match compute fuel c' p (div (ofNat hp.toNat) hundred) eps
                  (pgOpts (div (ofNat hp.toNat) hundred) eps) with
              | .error _ => none
              | .ok res =>
                let t := discountTrustVector res.t d'
                let nameOf := fun (i : Nat) => match names with
                  | some ns => ns.getD i ""
                  | none => s!"Peer {i}"
                let rows := (List.range dim).map fun i =>
                  ({ index := i, name := nameOf i, score := denE t.entries i, flagged := flagged i } : Row α)
                some (sortByScoreDesc rows)
            | _, _ => none
      | _, _ => none

/-! ### cmd/eigentrust/cmd/basiccompute.go -/

/-- the global name table (`peerIds`, `peerIndices`): names in order of first appearance -/
abbrev NameTable := List String

/-- getPeerIndex (431-443). Raw mode: `strconv.ParseInt(s, 0, 0)`. -/
def getPeerIndex (raw : Bool) (tbl : NameTable) (f : Field α) : Option (Int × NameTable) :=
  if raw then f.parseInt0.map fun i => (i, tbl)
  else
    let i := tbl.idxOf f.raw
    if i < tbl.length then some ((i : Int), tbl) else some ((tbl.length : Int), tbl ++ [f.raw])

/-- getPeerId (445-454). -/
def getPeerId (raw : Bool) (tbl : NameTable) (i : Int) : Option String :=
  if raw then some (toString i)
  else if 0 ≤ i && i.toNat < tbl.length then tbl[i.toNat]? else none

/-- loadInlineTrustMatrixCsv (90-168), as repaired (a record needs exactly 3 fields to carry a
    value; 2-field records get the default level 1 … see known_findings): header skipped when
    `hasHeader`, field counts checked before anything else, first bad record aborts. -/
def cliLoadMatrix (raw hasHeader : Bool) (recs : List (Record α)) (tbl : NameTable) :
    Option (Oapi.IMatrix α × NameTable) :=
  let rec go (recs : List (Record α)) (skip : Bool) (tbl : NameTable) (size : Int)
      (acc : List (Int × Int × α)) : Option (Oapi.IMatrix α × NameTable) :=
    match recs with
    | [] => if size = 0 then none else some (⟨size, acc.reverse⟩, tbl)
    | r :: rs =>
      if r.length < 2 || r.length > 3 then none
      else if skip then go rs false tbl size acc
      else
        match r with
        | f0 :: f1 :: rest =>
          match getPeerIndex raw tbl f0 with
          | none => none
          | some (from_, tbl1) =>
            if from_ < 0 then none else
            match getPeerIndex raw tbl1 f1 with
            | none => none
            | some (to, tbl2) =>
              if to < 0 then none else
              let value : Option α := match rest with
                | f2 :: _ => f2.float
                | [] => some one
              match value with
              | none => none
              | some v => go rs false tbl2 (max size (max (from_ + 1) (to + 1))) ((from_, to, v) :: acc)
        | _ => none
  go recs hasHeader tbl 0 []

/-- loadInlineTrustVectorCsv (210-284), as repaired (1-field records get the default level 1). -/
def cliLoadVector (raw hasHeader : Bool) (recs : List (Record α)) (tbl : NameTable) :
    Option (Oapi.IVector α × NameTable) :=
  let rec go (recs : List (Record α)) (skip : Bool) (tbl : NameTable) (size : Int)
      (acc : List (Int × α)) : Option (Oapi.IVector α × NameTable) :=
    match recs with
    | [] => if size = 0 then none else some (⟨size, acc.reverse⟩, tbl)
    | r :: rs =>
      if r.length < 1 || r.length > 2 then none
      else if skip then go rs false tbl size acc
      else
        match r with
        | f0 :: rest =>
          match getPeerIndex raw tbl f0 with
          | none => none
          | some (from_, tbl1) =>
            if from_ < 0 then none else
            let value : Option α := match rest with
              | f1 :: _ => f1.float
              | [] => some one
            match value with
            | none => none
            | some v => if lt v zero then none else go rs false tbl1 (max size (from_ + 1)) ((from_, v) :: acc)
        | _ => none
  go recs hasHeader tbl 0 []

structure CliRequest (α : Type) where
  localTrust : Oapi.IMatrix α
  preTrust : Option (Oapi.IVector α)
  initialTrust : Option (Oapi.IVector α)
  peerIds : NameTable

/-- runBasicCompute (329-397) up to the request: local trust, then pre-trust, then initial trust
    share one name table. `none` = the CLI reports an error and sends nothing. -/
def cliBuildRequest (raw hasHeader : Bool) (lt : List (Record α)) (pt it : Option (List (Record α))) :
    Option (CliRequest α) :=
  match cliLoadMatrix raw hasHeader lt [] with
  | none => none
  | some (m, t1) =>
    let ptR : Option (Option (Oapi.IVector α) × NameTable) := match pt with
      | none => some (none, t1)
      | some recs => (cliLoadVector raw hasHeader recs t1).map fun (v, t) => (some v, t)
    match ptR with
    | none => none
    | some (pv, t2) =>
      let itR : Option (Option (Oapi.IVector α) × NameTable) := match it with
        | none => some (none, t2)
        | some recs => (cliLoadVector raw hasHeader recs t2).map fun (v, t) => (some v, t)
      match itR with
      | none => none
      | some (iv, t3) => some ⟨m, pv, iv, t3⟩

/-- writeOutput (286-313): index → name for every response entry; an unknown index is an error. -/
def cliOutput (raw : Bool) (tbl : NameTable) (entries : List (Int × α)) : Option (List (String × α)) :=
  entries.mapM fun (i, v) => (getPeerId raw tbl i).map fun n => (n, v)

/-! ### oapi loadCsvTrustMatrix / loadCsvTrustVector (openapi.go 507-544, 637-667) -/

/-- header `i,j,v`, exactly 3 fields, integer indices — as repaired: negative indices refused. -/
def oapiCsvMatrix (recs : List (Record α)) : Option (CSM α) :=
  match recs with
  | [] => none
  | hdr :: body =>
    if hdr.map (·.raw) != ["i", "j", "v"] then none
    else
      let parse : Record α → Option (Coo α) := fun r =>
        match r with
        | [f0, f1, f2] =>
          match f0.atoi, f1.atoi, f2.float with
          | some i, some j, some v => if i < 0 || j < 0 then none else some ⟨i.toNat, j.toNat, v⟩
          | _, _, _ => none
        | _ => none
      match body.mapM parse with
      | none => none
      | some coos =>
        let size := coos.foldl (fun d e => max d (max (e.row + 1) (e.col + 1))) 0
        some (CSM.newCSR size size coos false)

def oapiCsvVector (recs : List (Record α)) : Option (Vec α) :=
  match recs with
  | [] => none
  | hdr :: body =>
    if hdr.map (·.raw) != ["i", "v"] then none
    else
      let parse : Record α → Option (Entry α) := fun r =>
        match r with
        | [f0, f1] =>
          match f0.atoi, f1.float with
          | some i, some v => if i < 0 then none else some ⟨i.toNat, v⟩
          | _, _ => none
        | _ => none
      match body.mapM parse with
      | none => none
      | some es =>
        let size := es.foldl (fun d e => max d (e.idx + 1)) 0
        some (Vec.new size es)

end EtVerif.Fe
