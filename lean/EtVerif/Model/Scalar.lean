/-
  Scalar: the arithmetic the Go code performs on `float64`, as a class.

  Three instances exist:
  * `Scalar Float`  (this file)  — IEEE binary64, used by the driver's bit tier;
  * `Scalar Rat`    (this file)  — exact rationals, used by the driver's exact tier;
  * `fieldScalar`   (Proofs/FieldScalar.lean) — any linearly ordered field; all algebraic
    theorems are proved for this instance.

  Core-only: no Mathlib import (this file is linked into the driver executable).
-/
namespace EtVerif

class Scalar (α : Type) where
  zero : α
  one  : α
  add  : α → α → α
  sub  : α → α → α
  mul  : α → α → α
  div  : α → α → α
  neg  : α → α
  abs  : α → α
  /-- Go `x < y` on float64 (false when either side is NaN). -/
  lt   : α → α → Bool
  /-- Go `x <= y`. -/
  le   : α → α → Bool
  /-- Go `x == y` (IEEE: `-0 == 0`, `NaN != NaN`). -/
  eq   : α → α → Bool
  /-- Go `float64(n)` for a non-negative `int`. -/
  ofNat : Nat → α
  /-- Go `math.Sqrt(x) <= e`.  At exact instances: `x ≤ e*e` (for `e ≥ 0`). -/
  sqrtLe : α → α → Bool

namespace Scalar
variable {α : Type} [Scalar α]

@[inline] def isZero (x : α) : Bool := Scalar.eq x (Scalar.zero : α)
@[inline] def ge (x y : α) : Bool := Scalar.le y x

end Scalar

instance floatScalar : Scalar Float where
  zero := 0.0
  one := 1.0
  add := (· + ·)
  sub := (· - ·)
  mul := (· * ·)
  div := (· / ·)
  neg := fun x => -x
  abs := Float.abs
  lt := fun x y => decide (x < y)
  le := fun x y => decide (x ≤ y)
  eq := fun x y => x == y
  ofNat := Float.ofNat
  sqrtLe := fun x e => decide (Float.sqrt x ≤ e)

def ratAbs (x : Rat) : Rat := if x < 0 then -x else x

instance ratScalar : Scalar Rat where
  zero := 0
  one := 1
  add := (· + ·)
  sub := (· - ·)
  mul := (· * ·)
  div := (· / ·)
  neg := fun x => -x
  abs := ratAbs
  lt := fun x y => decide (x < y)
  le := fun x y => decide (x ≤ y)
  eq := fun x y => decide (x = y)
  ofNat := fun n => (n : Rat)
  sqrtLe := fun x e => decide (x ≤ e * e)

end EtVerif
