/-
  Model of pkg/basic (eigentrust.go, localtrust.go, trustvector.go, computeopts.go).
  Core-only.  Mirrors the tree *after* the `fix:` commits recorded in known_findings.jsonl
  (non-finite delta is an error; flat-tail leaders are the top of the order).
-/
import EtVerif.Model.Sparse

namespace EtVerif
open Scalar

variable {α : Type} [Scalar α]

/-- Canonicalize (eigentrust.go 25-38): divide by the compensated sum; zero sum is an error
    and leaves the entries untouched. -/
def canonicalize (es : List (Entry α)) : Except SErr (List (Entry α)) :=
  let s := kbnSum (es.map (·.val))
  if isZero s then .error .zeroSum
  else .ok (es.map fun e => ⟨e.idx, div e.val s⟩)

/-- one row of CanonicalizeLocalTrust (localtrust.go 30-42). -/
def canonRow (p : Option (Vec α)) (r : Row α) : Row α :=
  match canonicalize r with
  | .ok r' => r'
  | .error _ => match p with
    | some p => p.entries      -- SetRowVector(i, preTrust): shares p's entries
    | none => r

/-- CanonicalizeLocalTrust (localtrust.go 20-44). -/
def canonicalizeLocalTrust (m : CSM α) (p : Option (Vec α)) : Except SErr (CSM α) :=
  match m.dim with
  | .error e => .error e
  | .ok n =>
    if (match p with | some p => decide (n ≠ p.dim) | none => false) then .error .dimMismatch
    else .ok { m with rows := m.rows.map (canonRow p) }

def uniformEntries (dim : Nat) : List (Entry α) :=
  (List.range dim).map fun i => ⟨i, div one (ofNat dim)⟩

/-- CanonicalizeTrustVector (trustvector.go 15-24). -/
def canonicalizeTrustVector (v : Vec α) : Vec α :=
  match canonicalize v.entries with
  | .ok es => ⟨v.dim, es⟩
  | .error _ => ⟨v.dim, uniformEntries v.dim⟩

/-- the in-place partition of one row by sign (localtrust.go 60-71):
    returns (kept non-negative part, distrust part with reversed sign). -/
def splitRow (r : Row α) : Row α × Row α :=
  (r.filter (fun e => ge e.val zero),
   (r.filter (fun e => !ge e.val zero)).map fun e => ⟨e.idx, neg e.val⟩)

/-- ExtractDistrust (localtrust.go 49-76): (local trust afterwards, distrust). -/
def extractDistrust (m : CSM α) : Except SErr (CSM α × CSM α) :=
  match m.dim with
  | .error e => .error e
  | .ok n =>
    let parts := m.rows.map splitRow
    .ok ({ m with rows := parts.map (·.1) }, ⟨n, n, parts.map (·.2), []⟩)

/-- DiscountTrustVector (eigentrust.go 324-363): merge-match distrusters (rows, by index) with
    the entries of the *undiscounted* clone `t1`; each match subtracts `score * row`. -/
def discountLoop : List (Entry α) → List (Row α × Nat) → List (Entry α) → List (Entry α)
  | [], _, t => t                                   -- i1 >= len(t1.Entries): finish
  | _, [], t => t
  | s :: t1, (row, distruster) :: rows, t =>
    if s.idx < distruster then discountLoop t1 ((row, distruster) :: rows) t      -- i1++
    else if s.idx = distruster then
      discountLoop t1 rows (subEntries t ((Vec.scale s.val ⟨0, row⟩).entries))     -- match
    else discountLoop (s :: t1) rows t                                            -- next distruster
termination_by t1 rows _ => t1.length + rows.length

def discountTrustVector (t : Vec α) (discounts : CSM α) : Vec α :=
  ⟨t.dim, discountLoop t.entries discounts.rows.zipIdx t.entries⟩

/-! ### Convergence and flat-tail checkers -/

/-- ConvergenceChecker (eigentrust.go 44-90): previous checked vector and the *squared* delta
    (`Norm2` is `sqrt` of this; `Converged` is `sqrt dsq ≤ e`, i.e. `Scalar.sqrtLe dsq e`). -/
structure ConvChecker (α : Type) where
  t : List (Entry α)
  dsq : α

def ConvChecker.update (c : ConvChecker α) (t : List (Entry α)) : ConvChecker α :=
  let td := subEntries t c.t
  ⟨t, kbnSum (td.map fun e => mul e.val e.val)⟩

/-- FlatTailStats (openapi) with the delta kept squared (see ConvChecker). -/
structure FlatTailStats (α : Type) where
  length : Nat
  threshold : Nat
  deltaSq : α
  ranking : Option (List Nat)

def FlatTailStats.init : FlatTailStats α := ⟨0, 1, one, none⟩

def insertByVal (e : Entry α) : List (Entry α) → List (Entry α)
  | [] => [e]
  | x :: xs => if lt e.val x.val then e :: x :: xs else x :: insertByVal e xs

/-- `sort.Sort(EntriesByValue …)`: ascending by value (any sorted permutation; ties excluded
    by the properties that observe the order). -/
def sortByVal (es : List (Entry α)) : List (Entry α) := es.foldr insertByVal []

/-- the ranking of FlatTailChecker.Update (126-134), *as repaired*: ascending score order,
    keeping the `numLeaders` highest-scored peers. -/
def rankOf (t : List (Entry α)) (numLeaders : Nat) : List Nat :=
  let r := (sortByVal t).map (·.idx)
  if r.length > numLeaders then r.drop (r.length - numLeaders) else r

/-- FlatTailChecker.Update (125-150). -/
def FlatTailStats.update (s : FlatTailStats α) (ranking : List Nat) (dsq : α) : FlatTailStats α :=
  if s.ranking = some ranking then { s with length := s.length + 1 }
  else
    { length := 0
      threshold := if s.threshold ≤ s.length then s.length + 1 else s.threshold
      deltaSq := dsq
      ranking := some ranking }

/-! ### Compute -/

structure ComputeOpts (α : Type) where
  t0 : Option (Vec α) := none
  resultDim : Option Nat := none          -- WithResultIn(t): only `t.Dim` matters before the end
  flatTail : Nat := 0
  numLeaders : Nat := 0
  maxIterations : Option Int := none
  minIterations : Option Int := none
  checkFreq : Option Int := none

structure LoopState (α : Type) where
  t1 : List (Entry α)
  iter : Nat
  conv : ConvChecker α
  stats : FlatTailStats α
  checks : List Nat          -- iterations at which the exit criteria were evaluated (newest first)

inductive EndedBy where
  | criteria | maxIterations | outOfFuel | nonFinite
deriving Repr, DecidableEq

/-- one power iteration (eigentrust.go 278-286): `t1 ← (1-a)·(Cᵀ t1) + a·p`. -/
def stepEntries (ct : List (Row α)) (ap : List (Entry α)) (oneMinusA : α) (t : List (Entry α)) :
    List (Entry α) :=
  let prod := mulVecEntries ct t
  let scaled := if isZero oneMinusA then [] else scaleEntries oneMinusA prod
  addEntries scaled ap

/-- `(iter-minIters)%checkFreq == 0 && iter >= minIters` (eigentrust.go 266-267). -/
def isCheck (minI freq iter : Nat) : Bool := iter ≥ minI && (iter - minI) % freq == 0

/-- `finite` at exact instances is always true; at Float it is `!isNaN && !isInf`.
    A delta is non-finite iff it is not `≤` itself or exceeds every bound; we test it through
    the comparison the repaired code performs: `d != d || d > MaxFloat64`, which for a squared
    delta is `!(dsq ≤ dsq)` or `dsq = dsq + dsq ∧ dsq ≠ 0`. -/
def nonFinite (x : α) : Bool := !le x x || (eq (add x x) x && !isZero x)

/-- The loop of Compute (eigentrust.go 258-288) with explicit fuel. -/
def computeLoop (ct : List (Row α)) (ap : List (Entry α)) (oneMinusA e : α)
    (minI freq : Nat) (maxI : Option Nat) (flatTail numLeaders : Nat) :
    Nat → LoopState α → LoopState α × EndedBy
  | 0, s => (s, .outOfFuel)
  | fuel + 1, s =>
    if (match maxI with | some m => decide (s.iter ≥ m) | none => false) then (s, .maxIterations)
    else
      let checked := isCheck minI freq s.iter
      let conv := if checked then s.conv.update s.t1 else s.conv
      let stats := if checked then s.stats.update (rankOf s.t1 numLeaders) conv.dsq else s.stats
      let checks := if checked then s.iter :: s.checks else s.checks
      let s' : LoopState α := { s with conv := conv, stats := stats, checks := checks }
      if checked && nonFinite conv.dsq then (s', .nonFinite)
      else if checked && sqrtLe conv.dsq e && decide (stats.length ≥ flatTail) then (s', .criteria)
      else
        computeLoop ct ap oneMinusA e minI freq maxI flatTail numLeaders fuel
          { s' with t1 := stepEntries ct ap oneMinusA s.t1, iter := s.iter + 1 }

structure ComputeResult (α : Type) where
  t : Vec α
  iters : Nat
  stats : FlatTailStats α
  checks : List Nat
  endedBy : EndedBy

/-- Compute (eigentrust.go 179-314), sequential, no cancellation.  Validation in source order. -/
def compute (fuel : Nat) (c : CSM α) (p : Vec α) (a e : α) (o : ComputeOpts α) :
    Except SErr (ComputeResult α) :=
  match c.dim with
  | .error err => .error err
  | .ok n =>
    if n = 0 then .error .emptyLocalTrust
    else if p.dim ≠ n || (match o.t0 with | some t0 => decide (t0.dim ≠ n) | none => false)
        || (match o.resultDim with | some d => decide (d ≠ n) | none => false) then .error .dimMismatch
    else if lt a zero || lt one a then .error (.badParam "alpha")
    else if le e zero then .error (.badParam "epsilon")
    else
      let numLeaders := if o.numLeaders = 0 then n else o.numLeaders
      let t0 := (o.t0.getD p).entries
      let ct := c.transpose
      let ap := (Vec.scale a p).entries
      let freq : Int := o.checkFreq.getD 1
      if freq < 1 then .error (.badParam "checkFreq")
      else
        let maxI : Int := o.maxIterations.getD 0
        if maxI < 0 then .error (.badParam "maxIterations")
        else
          let minI : Int := o.minIterations.getD freq
          if minI ≤ 0 then .error (.badParam "minIterations")
          else
            let init : LoopState α :=
              { t1 := t0, iter := 0, conv := ⟨t0, zero⟩,
                stats := FlatTailStats.init, checks := [] }
            let (s, by_) := computeLoop ct.rows ap (sub one a) e minI.toNat freq.toNat
              (if maxI = 0 then none else some maxI.toNat) o.flatTail numLeaders fuel init
            if by_ = .nonFinite then .error (.badParam "nonfinite")
            else .ok ⟨⟨n, s.t1⟩, s.iter, s.stats, s.checks.reverse, by_⟩

end EtVerif
