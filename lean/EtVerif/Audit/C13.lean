import EtVerif.Props.C13b
import EtVerif.Props.TieStore
import EtVerif.Props.C13
#print axioms EtVerif.C13.absStore_set
#print axioms EtVerif.C13.absStore_erase
#print axioms EtVerif.C13.resolve_load
#print axioms EtVerif.C13.merge_abs
#print axioms EtVerif.C13.store_step_refines
#print axioms EtVerif.C13.store_refines_from
#print axioms EtVerif.C13.store_refines_map
#print axioms EtVerif.C13.reachable_inv
#print axioms EtVerif.C13.invalid_body_unchanged
#print axioms EtVerif.C13.put_status
#print axioms EtVerif.C13.put_replace
#print axioms EtVerif.C13.merge_overlay
#print axioms EtVerif.C13.get_exact
#print axioms EtVerif.C13.get_put_roundtrip
#print axioms EtVerif.Ties.source_store_safe
#print axioms EtVerif.C13b.conc_invariant
#print axioms EtVerif.C13b.content_is_fold
#print axioms EtVerif.C13b.linearizable
#print axioms EtVerif.C13b.linearizable_no_merge
#print axioms EtVerif.C13b.kvSet_eq_update
#print axioms EtVerif.C13b.specStep_eq_C13
#print axioms EtVerif.C13b.runSpec_eq_C13
#print axioms EtVerif.C13b.linearizable_C13
#print axioms EtVerif.C13b.runSpec_mem
#print axioms EtVerif.C13b.self_copy_never_created
#print axioms EtVerif.C13b.stored_ref_put_not_linearizable
