import EtVerif.Props.TieStore
import EtVerif.Props.C13
#print axioms EtVerif.C13.absStore_set
#print axioms EtVerif.C13.absStore_erase
#print axioms EtVerif.C13.resolve_load
#print axioms EtVerif.C13.merge_abs
#print axioms EtVerif.C13.store_step_refines
#print axioms EtVerif.C13.store_refines_from
#print axioms EtVerif.C13.store_refines_map
#print axioms EtVerif.C13.reachable_inv
#print axioms EtVerif.C13.invalid_body_unchanged
#print axioms EtVerif.C13.put_status
#print axioms EtVerif.C13.put_replace
#print axioms EtVerif.C13.merge_overlay
#print axioms EtVerif.C13.get_exact
#print axioms EtVerif.C13.get_put_roundtrip
#print axioms EtVerif.Ties.source_store_safe
