import EtVerif.Props.C14b
import EtVerif.Props.TieStore
import EtVerif.Props.C14
#print axioms EtVerif.Ties.source_store_safe
#print axioms EtVerif.C14.compute_reads_only
#print axioms EtVerif.C14.compute_snapshot
#print axioms EtVerif.C14.compute_unaffected_by_other_ids
#print axioms EtVerif.C03.stored_eq_inline
#print axioms EtVerif.C03.stored_request_reduces
#print axioms EtVerif.C03.endpoints_agree
#print axioms EtVerif.C14b.heap_refines_pure_deepCopy
#print axioms EtVerif.C14b.heap_refines_pure_setDim
#print axioms EtVerif.C14b.heap_refines_pure_extractDistrust
#print axioms EtVerif.C14b.heap_refines_pure_canonicalizeLocalTrust
#print axioms EtVerif.C14b.heap_refines_pure
#print axioms EtVerif.C14b.heap_refines_pure_of_old_pretrust
#print axioms EtVerif.C14b.pipeline_frame
#print axioms EtVerif.C14b.pipeline_frame_getElem
#print axioms EtVerif.C14b.stored_unchanged
#print axioms EtVerif.C14b.store_unchanged
#print axioms EtVerif.C14b.pipeline_frame_deep_mode
#print axioms EtVerif.C14b.shallow_copy_witness_rows
#print axioms EtVerif.C14b.shallow_copy_witness
#print axioms EtVerif.C14b.pretrust_alias_harmless
#print axioms EtVerif.C14b.pretrust_unchanged_by_pipeline
#print axioms EtVerif.C14b.sep_needed
#print axioms EtVerif.C14b.canonLoopH_eq_take
#print axioms EtVerif.C14b.pipelineH_frame
#print axioms EtVerif.C14b.pipelineH_refines
