import EtVerif.Props.TieStore
import EtVerif.Props.C14
#print axioms EtVerif.Ties.source_store_safe
#print axioms EtVerif.C14.compute_reads_only
#print axioms EtVerif.C14.compute_snapshot
#print axioms EtVerif.C14.compute_unaffected_by_other_ids
#print axioms EtVerif.C03.stored_eq_inline
#print axioms EtVerif.C03.stored_request_reduces
#print axioms EtVerif.C03.endpoints_agree
