import EtVerif.Props.TieStore
import EtVerif.Props.C03
#print axioms EtVerif.Ties.source_store_safe
#print axioms EtVerif.C03.stored_eq_inline
#print axioms EtVerif.C03.stored_request_reduces
#print axioms EtVerif.C03.endpoints_agree
