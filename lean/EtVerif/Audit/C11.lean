import EtVerif.Props.C11
#print axioms EtVerif.C11.den_mergeSpan
#print axioms EtVerif.C11.sorted_mergeSpan
#print axioms EtVerif.C11.wf_mergeSpan
#print axioms EtVerif.C11.mem_mergeSpan
#print axioms EtVerif.C11.setDim_of_le
#print axioms EtVerif.C11.merge_vec
#print axioms EtVerif.C11.merge_matrix
#print axioms EtVerif.C11.merge_matrix_row
#print axioms EtVerif.C11.merge_history
#print axioms EtVerif.C11.merge_vec_history
#print axioms EtVerif.C11.assign_fold_of_not_mem
#print axioms EtVerif.C11.assign_fold_of_mem
#print axioms EtVerif.C11.overlay_newCSR
#print axioms EtVerif.C11.rebatch_history
#print axioms EtVerif.C11.rebatch_invariant
#print axioms EtVerif.C11.rebatch_invariant_dense
