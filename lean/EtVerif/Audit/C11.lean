import EtVerif.Props.C11
import EtVerif.Props.TrC11
import EtVerif.Props.TrGo11
#print axioms EtVerif.C11.den_mergeSpan
#print axioms EtVerif.C11.sorted_mergeSpan
#print axioms EtVerif.C11.wf_mergeSpan
#print axioms EtVerif.C11.mem_mergeSpan
#print axioms EtVerif.C11.setDim_of_le
#print axioms EtVerif.C11.merge_vec
#print axioms EtVerif.C11.merge_matrix
#print axioms EtVerif.C11.merge_matrix_row
#print axioms EtVerif.C11.merge_history
#print axioms EtVerif.C11.merge_vec_history
#print axioms EtVerif.C11.assign_fold_of_not_mem
#print axioms EtVerif.C11.assign_fold_of_mem
#print axioms EtVerif.C11.overlay_newCSR
#print axioms EtVerif.C11.rebatch_history
#print axioms EtVerif.C11.rebatch_invariant
#print axioms EtVerif.C11.rebatch_invariant_dense
-- refinement of the translated Go kernels (Gen/Translated.lean, regenerated from /repo) to the model
#print axioms EtVerif.TrC11.mergeSpan_refines
#print axioms EtVerif.TrC11.vector_merge_refines
#print axioms EtVerif.TrC11.go_mergeSpan_overlay
#print axioms EtVerif.TrC11.go_vector_merge_overlay
#print axioms EtVerif.TrGo11.go_merge_run_refines
#print axioms EtVerif.TrGo11.go_vector_merge_history
