import EtVerif.Props.C05a
#print axioms EtVerif.C05a.iterate_distribution_dense
#print axioms EtVerif.C05a.l2_le_l1
#print axioms EtVerif.C05a.delta_geometric_l1
#print axioms EtVerif.C05a.delta_geometric
#print axioms EtVerif.C05a.two_mul_pow_ceil_le
#print axioms EtVerif.C05a.terminates_default_at
#print axioms EtVerif.C05a.terminates_default
#print axioms EtVerif.C05a.first_success_le
#print axioms EtVerif.C05a.terminates_alpha_one
#print axioms EtVerif.C05a.iterate_alpha_one_eq
