import EtVerif.Props.C08
import EtVerif.Props.TrC08
import EtVerif.Props.TrGo08
import EtVerif.Props.TrGo08c
#print axioms EtVerif.C08.extract_split
#print axioms EtVerif.C08.extract_signs
#print axioms EtVerif.C08.extract_disjoint
#print axioms EtVerif.C08.extract_order
#print axioms EtVerif.C08.extract_count
#print axioms EtVerif.C08.extract_sorted
#print axioms EtVerif.C08.extract_wf
#print axioms EtVerif.C08.extract_dims
#print axioms EtVerif.C08.extract_error
#print axioms EtVerif.C08.extract_ok
#print axioms EtVerif.C08.discount_spec
#print axioms EtVerif.C08.discount_dim
#print axioms EtVerif.C08.discount_wf
#print axioms EtVerif.C08.discount_zero_rep_general
#print axioms EtVerif.C08.discount_zero_rep
#print axioms EtVerif.C08.discount_zero_rep_exact
#print axioms EtVerif.C08.discount_zero_rep_set_exact
-- refinement of the translated Go kernels (Gen/Translated.lean, regenerated from /repo) to the model
#print axioms EtVerif.TrC08.extractDistrust_refines
#print axioms EtVerif.TrC08.discount_refines
-- the property stated about the translated Go code (composition of refinement and model-level theorems)
#print axioms EtVerif.TrGo08.go_extract_of_ok
#print axioms EtVerif.TrGo08.go_extract_of_error
#print axioms EtVerif.TrGo08.go_discount
#print axioms EtVerif.TrGo08.go_extract_ok
#print axioms EtVerif.TrGo08.go_extract_split
#print axioms EtVerif.TrGo08.go_extract_signs
#print axioms EtVerif.TrGo08.go_extract_disjoint
#print axioms EtVerif.TrGo08.go_extract_order
#print axioms EtVerif.TrGo08.go_extract_wf
#print axioms EtVerif.TrGo08.go_extract_spec
#print axioms EtVerif.TrGo08.go_extract_error
#print axioms EtVerif.TrGo08.go_discount_spec
#print axioms EtVerif.TrGo08.go_discount_wf
#print axioms EtVerif.TrGo08.go_discount_zero_rep_general
#print axioms EtVerif.TrGo08.go_discount_zero_rep
#print axioms EtVerif.TrGo08.go_discount_zero_rep_exact
#print axioms EtVerif.TrGo08.go_discount_zero_rep_set_exact
#print axioms EtVerif.TrGo08c.go_extract_then_discount
#print axioms EtVerif.TrGo08c.go_extract_twice
