import EtVerif.Props.C18
import EtVerif.Props.TrC18
import EtVerif.Props.TrC01
import EtVerif.Props.TrGo05
import EtVerif.Props.TrSrc
import EtVerif.Props.TrGoSrc
#print axioms EtVerif.C18.runs_spec
#print axioms EtVerif.C18.ft_empty
#print axioms EtVerif.C18.ft_length
#print axioms EtVerif.C18.ft_ranking
#print axioms EtVerif.C18.ft_delta
#print axioms EtVerif.C18.ft_threshold
#print axioms EtVerif.C18.ft_reached_iff
#print axioms EtVerif.C18.ft_stats
#print axioms EtVerif.C18.ft_ranking_last_check
#print axioms EtVerif.C18.flatAt_iff
#print axioms EtVerif.C18.flatAt_iff_consecutive
#print axioms EtVerif.C18.ft_stop
#print axioms EtVerif.C18.ft_stop_first
#print axioms EtVerif.C18.ft_ranking_returned
#print axioms EtVerif.C18.compute_stats
#print axioms EtVerif.C18.ft_ranking_top
#print axioms EtVerif.C18.ft_ranking_dominates
#print axioms EtVerif.C18.ft_ranking_all
-- refinement of the translated Go code (Gen/Translated.lean, regenerated from /repo) to the model
#print axioms EtVerif.TrC18.newChecker_refines
#print axioms EtVerif.TrC18.update_refines
#print axioms EtVerif.TrC18.reached_refines
#print axioms EtVerif.TrC18.stats_refines
-- refinement of the translated basic.Compute (Gen/Translated.lean, regenerated from /repo) to the model
#print axioms EtVerif.TrC01.compute_refines_ok_partial
#print axioms EtVerif.TrC01.compute_refines_err_partial
#print axioms EtVerif.TrC01.compute_refuses_validation
#print axioms EtVerif.TrC01.compute_schedule
#print axioms EtVerif.TrC01.compute_default_schedule
-- the property stated about the translated Go code (composition of refinement and model-level theorems)
#print axioms EtVerif.TrGo05.go_compute_returns
#print axioms EtVerif.TrGo05.refusal_of_not_valid
#print axioms EtVerif.TrGo05.go_compute_returns_iterate
#print axioms EtVerif.TrGo05.go_compute_stop_spec
#print axioms EtVerif.TrGo05.go_compute_stop_first
#print axioms EtVerif.TrGo05.go_compute_withIterations
#print axioms EtVerif.TrGo05.go_compute_ok_of_loop
#print axioms EtVerif.TrGo05.go_compute_fuel_independent
#print axioms EtVerif.TrGo05.go_compute_invalid_rejected
#print axioms EtVerif.TrGo05.go_compute_invalid_error
#print axioms EtVerif.TrGo05.go_compute_nonFinite
#print axioms EtVerif.TrGo05.go_compute_stats
#print axioms EtVerif.TrGo05.go_compute_stats_fields
#print axioms EtVerif.TrGo05.go_compute_criteria_stop
#print axioms EtVerif.TrGo05.go_compute_criteria_first
#print axioms EtVerif.TrGo05.go_compute_stop_first_exact
#print axioms EtVerif.TrGo05.go_compute_ranking_top
#print axioms EtVerif.TrGo05.go_compute_ranking_all
#print axioms EtVerif.TrGo05.go_compute_terminates_schedule
#print axioms EtVerif.TrGo05.go_compute_terminates_default
#print axioms EtVerif.TrGo05.go_compute_terminates_with_t0
#print axioms EtVerif.TrGo05.go_compute_terminates_alpha_one
#print axioms EtVerif.TrGo05.go_compute_terminates_first
#print axioms EtVerif.TrGo05.go_compute_converged_bound
#print axioms EtVerif.TrGo05.go_compute_converged_bound_unique
#print axioms EtVerif.TrGo05.go_compute_default_bound
#print axioms EtVerif.TrGo05.go_flatTail_update_fold
#print axioms EtVerif.TrGo05.go_flatTail_update_stats
#print axioms EtVerif.TrGo05.go_flatTail_reached_iff
#print axioms EtVerif.TrGo05.go_flatTail_update_ranking_top
-- basic.Compute translated TOGETHER WITH the convergence checker translated from the source (no hand-written checker
-- in between) refines the model, under the oracle hypotheses about sqrt on sums of squares
#print axioms EtVerif.TrSrc.compute_src_refines_ok_partial
#print axioms EtVerif.TrSrc.compute_src_refines_err_partial
#print axioms EtVerif.TrSrc.compute_src_refuses_validation
#print axioms EtVerif.TrSrc.oracleOK_of_forall
#print axioms EtVerif.TrSrc.go_compute_src_distribution
-- the properties stated about basic.Compute translated TOGETHER WITH the source convergence checker (Props/TrGoSrc)
#print axioms EtVerif.TrGoSrc.go_compute_src_withIterations
#print axioms EtVerif.TrGoSrc.go_compute_src_stats
#print axioms EtVerif.TrGoSrc.go_compute_src_stats_fields
#print axioms EtVerif.TrGoSrc.go_compute_src_criteria_stop
#print axioms EtVerif.TrGoSrc.go_compute_src_criteria_first
#print axioms EtVerif.TrGoSrc.go_compute_src_ranking_top
#print axioms EtVerif.TrGoSrc.go_compute_src_ranking_all
