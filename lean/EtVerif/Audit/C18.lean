import EtVerif.Props.C18
import EtVerif.Props.TrC18
import EtVerif.Props.TrC01
#print axioms EtVerif.C18.runs_spec
#print axioms EtVerif.C18.ft_empty
#print axioms EtVerif.C18.ft_length
#print axioms EtVerif.C18.ft_ranking
#print axioms EtVerif.C18.ft_delta
#print axioms EtVerif.C18.ft_threshold
#print axioms EtVerif.C18.ft_reached_iff
#print axioms EtVerif.C18.ft_stats
#print axioms EtVerif.C18.ft_ranking_last_check
#print axioms EtVerif.C18.flatAt_iff
#print axioms EtVerif.C18.flatAt_iff_consecutive
#print axioms EtVerif.C18.ft_stop
#print axioms EtVerif.C18.ft_stop_first
#print axioms EtVerif.C18.ft_ranking_returned
#print axioms EtVerif.C18.compute_stats
#print axioms EtVerif.C18.ft_ranking_top
#print axioms EtVerif.C18.ft_ranking_dominates
#print axioms EtVerif.C18.ft_ranking_all
-- refinement of the translated Go code (Gen/Translated.lean, regenerated from /repo) to the model
#print axioms EtVerif.TrC18.newChecker_refines
#print axioms EtVerif.TrC18.update_refines
#print axioms EtVerif.TrC18.reached_refines
#print axioms EtVerif.TrC18.stats_refines
-- refinement of the translated basic.Compute (Gen/Translated.lean, regenerated from /repo) to the model
#print axioms EtVerif.TrC01.compute_refines_ok_partial
#print axioms EtVerif.TrC01.compute_refines_err_partial
#print axioms EtVerif.TrC01.compute_refuses_validation
#print axioms EtVerif.TrC01.compute_schedule
#print axioms EtVerif.TrC01.compute_default_schedule
