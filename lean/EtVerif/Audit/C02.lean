import EtVerif.Props.C02
#print axioms EtVerif.C02.step_den
#print axioms EtVerif.C02.step_wf
#print axioms EtVerif.C02.step_mass
#print axioms EtVerif.C02.step_zero_origin
#print axioms EtVerif.C02.iterate_distribution
#print axioms EtVerif.C02.compute_distribution
#print axioms EtVerif.C02.compute_sum_one
