import EtVerif.Props.C02
import EtVerif.Props.TrC09
import EtVerif.Props.TrC01
import EtVerif.Props.TrC02
import EtVerif.Props.TrC04
import EtVerif.Props.TrSrc
#print axioms EtVerif.C02.step_den
#print axioms EtVerif.C02.step_wf
#print axioms EtVerif.C02.step_mass
#print axioms EtVerif.C02.step_zero_origin
#print axioms EtVerif.C02.iterate_distribution
#print axioms EtVerif.C02.compute_distribution
#print axioms EtVerif.C02.compute_sum_one
-- refinement of the translated Go kernels (Gen/Translated.lean, regenerated from /repo) to the model
#print axioms EtVerif.TrC09.kbn_add
#print axioms EtVerif.TrC09.kbn_sum
#print axioms EtVerif.TrC09.vector_sum
#print axioms EtVerif.TrC09.addVec
#print axioms EtVerif.TrC09.subVec
#print axioms EtVerif.TrC09.scaleInPlace
#print axioms EtVerif.TrC09.scaleVec
#print axioms EtVerif.TrC09.vecDot_partial
#print axioms EtVerif.TrC09.vecDot_iff
#print axioms EtVerif.TrC09.vecDot_field
#print axioms EtVerif.TrC09.assign
#print axioms EtVerif.TrC09.clone
#print axioms EtVerif.TrC09.reset
#print axioms EtVerif.TrC09.setDim
-- refinement of the translated basic.Compute (Gen/Translated.lean, regenerated from /repo) to the model
#print axioms EtVerif.TrC01.compute_refines_ok_partial
#print axioms EtVerif.TrC01.compute_refines_err_partial
#print axioms EtVerif.TrC01.compute_refuses_validation
#print axioms EtVerif.TrC01.compute_schedule
#print axioms EtVerif.TrC01.compute_default_schedule
#print axioms EtVerif.TrC02.go_compute_distribution
-- the hypotheses of the distribution theorems (row-stochastic local trust, pre-trust summing to one) are established
-- by the translated Go canonicalisers: their refinement is part of what C02 rests on
#print axioms EtVerif.TrC04.canonicalize_refines
#print axioms EtVerif.TrC04.canonicalizeTrustVector_refines
#print axioms EtVerif.TrC04.canonicalizeLocalTrust_refines
-- basic.Compute translated TOGETHER WITH the convergence checker translated from the source (no hand-written checker
-- in between) refines the model, under the oracle hypotheses about sqrt on sums of squares
#print axioms EtVerif.TrSrc.compute_src_refines_ok_partial
#print axioms EtVerif.TrSrc.compute_src_refines_err_partial
#print axioms EtVerif.TrSrc.compute_src_refuses_validation
#print axioms EtVerif.TrSrc.oracleOK_of_forall
#print axioms EtVerif.TrSrc.go_compute_src_distribution
