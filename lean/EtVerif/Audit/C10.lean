import EtVerif.Props.C10
import EtVerif.Props.TrC10
import EtVerif.Props.TrGo10
#print axioms EtVerif.C10.newCSR_cells
#print axioms EtVerif.C10.newCSR_stored
#print axioms EtVerif.C10.newCSR_no_zero
#print axioms EtVerif.C10.newCSR_row_sorted
#print axioms EtVerif.C10.newCSR_wf
#print axioms EtVerif.C10.newCSR_perm
#print axioms EtVerif.C10.transpose_den
#print axioms EtVerif.C10.transpose_dims
#print axioms EtVerif.C10.transpose_wf
#print axioms EtVerif.C10.transpose_stored
#print axioms EtVerif.C10.transpose_involutive
#print axioms EtVerif.C10.rowVec_view
#print axioms EtVerif.C10.colVec_view
#print axioms EtVerif.C10.views_agree
#print axioms EtVerif.C10.sharedView_wf_iff
#print axioms EtVerif.C10.hiddenClean_setMajorDim
#print axioms EtVerif.C10.hiddenClean_setMinorDim
#print axioms EtVerif.C10.hiddenClean_setDim
#print axioms EtVerif.C10.hiddenClean_merge
#print axioms EtVerif.C10.hiddenClean_transpose
#print axioms EtVerif.C10.hiddenClean_newCSR
#print axioms EtVerif.C10.setDim_den
#print axioms EtVerif.C10.setDim_wf
#print axioms EtVerif.C10.setMajorDim_den
#print axioms EtVerif.C10.setMinorDim_den
#print axioms EtVerif.C10.vec_setDim
#print axioms EtVerif.C10.shrink_then_grow
#print axioms EtVerif.C10.resize_step
#print axioms EtVerif.C10.resize_history
-- refinement of the translated Go kernels (Gen/Translated.lean, regenerated from /repo) to the model
#print axioms EtVerif.TrC10.dim
#print axioms EtVerif.TrC10.nnz
#print axioms EtVerif.TrC10.setMinorDim
#print axioms EtVerif.TrC10.transpose_refines
#print axioms EtVerif.TrC10.newCSR_refines
#print axioms EtVerif.TrC10.rowVector_refines
#print axioms EtVerif.TrC10.setRowVector_refines
-- the property stated about the translated Go code (composition of refinement and model-level theorems)
#print axioms EtVerif.TrGo10.go_newCSR_cells
#print axioms EtVerif.TrGo10.go_newCSR_stored
#print axioms EtVerif.TrGo10.go_newCSR_wf
#print axioms EtVerif.TrGo10.go_newCSR_perm
#print axioms EtVerif.TrGo10.go_transpose_den
#print axioms EtVerif.TrGo10.go_transpose_stored
#print axioms EtVerif.TrGo10.go_transpose_involutive
#print axioms EtVerif.TrGo10.go_rowVector_view
#print axioms EtVerif.TrGo10.go_colVector_view
#print axioms EtVerif.TrGo10.go_setMinorDim_crop
#print axioms EtVerif.TrGo10.go_vector_setDim
#print axioms EtVerif.TrGo10.go_setMinorDim_shrink_then_grow
#print axioms EtVerif.TrGo10.go_newCSR_then_transpose
