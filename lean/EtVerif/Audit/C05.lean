import EtVerif.Props.C05
#print axioms EtVerif.C05.loop_returns_iterate
#print axioms EtVerif.C05.loop_returns_iterate_init
#print axioms EtVerif.C05.stopIter_spec
#print axioms EtVerif.C05.stopIter_first
#print axioms EtVerif.C05.checks_schedule
#print axioms EtVerif.C05.check_delta
#print axioms EtVerif.C05.withIterations
#print axioms EtVerif.C05.fuel_mono
#print axioms EtVerif.C05.invalid_rejected
#print axioms EtVerif.C05.invalid_error
#print axioms EtVerif.C05.compute_ok
#print axioms EtVerif.C05.compute_nonFinite
#print axioms EtVerif.C05.compute_spec
#print axioms EtVerif.C05.compute_withIterations
#print axioms EtVerif.C05.compute_fuel_mono
