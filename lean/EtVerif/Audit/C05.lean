import EtVerif.Props.C05b
import EtVerif.Props.C05
import EtVerif.Props.TrC05
import EtVerif.Props.TrC01
import EtVerif.Props.TrGo05
import EtVerif.Props.TrChk
import EtVerif.Props.TrSrc
import EtVerif.Props.TrGoSrc
#print axioms EtVerif.C05.loop_returns_iterate
#print axioms EtVerif.C05.loop_returns_iterate_init
#print axioms EtVerif.C05.stopIter_spec
#print axioms EtVerif.C05.stopIter_first
#print axioms EtVerif.C05.checks_schedule
#print axioms EtVerif.C05.check_delta
#print axioms EtVerif.C05.withIterations
#print axioms EtVerif.C05.fuel_mono
#print axioms EtVerif.C05.invalid_rejected
#print axioms EtVerif.C05.invalid_error
#print axioms EtVerif.C05.compute_ok
#print axioms EtVerif.C05.compute_nonFinite
#print axioms EtVerif.C05.compute_spec
#print axioms EtVerif.C05.compute_withIterations
#print axioms EtVerif.C05.compute_fuel_mono
#print axioms EtVerif.C05a.iterate_distribution_dense
#print axioms EtVerif.C05a.l2_le_l1
#print axioms EtVerif.C05a.delta_geometric_l1
#print axioms EtVerif.C05a.delta_geometric
#print axioms EtVerif.C05a.two_mul_pow_ceil_le
#print axioms EtVerif.C05a.terminates_default_at
#print axioms EtVerif.C05a.terminates_default
#print axioms EtVerif.C05a.first_success_le
#print axioms EtVerif.C05a.terminates_alpha_one
#print axioms EtVerif.C05a.iterate_alpha_one_eq
#print axioms EtVerif.C05b.nonFinite_never
#print axioms EtVerif.C05b.compute_terminates_schedule
#print axioms EtVerif.C05b.compute_terminates_default
#print axioms EtVerif.C05b.compute_terminates_default_any_fuel
#print axioms EtVerif.C05b.compute_terminates_alpha_one
#print axioms EtVerif.C05b.compute_terminates_with_t0
#print axioms EtVerif.C05b.compute_terminates_first
-- refinement of the translated Go code (Gen/Translated.lean, regenerated from /repo) to the model
#print axioms EtVerif.TrC05.withInitialTrust
#print axioms EtVerif.TrC05.withResultIn
#print axioms EtVerif.TrC05.withFlatTail
#print axioms EtVerif.TrC05.withFlatTailNumLeaders
#print axioms EtVerif.TrC05.withFlatTailStats
#print axioms EtVerif.TrC05.withMaxIterations
#print axioms EtVerif.TrC05.withMinIterations
#print axioms EtVerif.TrC05.withIterations
#print axioms EtVerif.TrC05.withCheckFreq
-- refinement of the translated basic.Compute (Gen/Translated.lean, regenerated from /repo) to the model
#print axioms EtVerif.TrC01.compute_refines_ok_partial
#print axioms EtVerif.TrC01.compute_refines_err_partial
#print axioms EtVerif.TrC01.compute_refuses_validation
#print axioms EtVerif.TrC01.compute_schedule
#print axioms EtVerif.TrC01.compute_default_schedule
-- the property stated about the translated Go code (composition of refinement and model-level theorems)
#print axioms EtVerif.TrGo05.go_compute_returns
#print axioms EtVerif.TrGo05.refusal_of_not_valid
#print axioms EtVerif.TrGo05.go_compute_returns_iterate
#print axioms EtVerif.TrGo05.go_compute_stop_spec
#print axioms EtVerif.TrGo05.go_compute_stop_first
#print axioms EtVerif.TrGo05.go_compute_withIterations
#print axioms EtVerif.TrGo05.go_compute_ok_of_loop
#print axioms EtVerif.TrGo05.go_compute_fuel_independent
#print axioms EtVerif.TrGo05.go_compute_invalid_rejected
#print axioms EtVerif.TrGo05.go_compute_invalid_error
#print axioms EtVerif.TrGo05.go_compute_nonFinite
#print axioms EtVerif.TrGo05.go_compute_stats
#print axioms EtVerif.TrGo05.go_compute_stats_fields
#print axioms EtVerif.TrGo05.go_compute_criteria_stop
#print axioms EtVerif.TrGo05.go_compute_criteria_first
#print axioms EtVerif.TrGo05.go_compute_stop_first_exact
#print axioms EtVerif.TrGo05.go_compute_ranking_top
#print axioms EtVerif.TrGo05.go_compute_ranking_all
#print axioms EtVerif.TrGo05.go_compute_terminates_schedule
#print axioms EtVerif.TrGo05.go_compute_terminates_default
#print axioms EtVerif.TrGo05.go_compute_terminates_with_t0
#print axioms EtVerif.TrGo05.go_compute_terminates_alpha_one
#print axioms EtVerif.TrGo05.go_compute_terminates_first
#print axioms EtVerif.TrGo05.go_compute_converged_bound
#print axioms EtVerif.TrGo05.go_compute_converged_bound_unique
#print axioms EtVerif.TrGo05.go_compute_default_bound
#print axioms EtVerif.TrGo05.go_flatTail_update_fold
#print axioms EtVerif.TrGo05.go_flatTail_update_stats
#print axioms EtVerif.TrGo05.go_flatTail_reached_iff
#print axioms EtVerif.TrGo05.go_flatTail_update_ranking_top
-- the convergence checker and Norm2 translated from the CURRENT SOURCE simulate the checker Compute is proved with
#print axioms EtVerif.TrChk.norm2_refines
#print axioms EtVerif.TrChk.newChecker_refines
#print axioms EtVerif.TrChk.newChecker_related
#print axioms EtVerif.TrChk.update_simulates
#print axioms EtVerif.TrChk.converged_agrees
#print axioms EtVerif.TrChk.delta_agrees
-- basic.Compute translated TOGETHER WITH the convergence checker translated from the source (no hand-written checker
-- in between) refines the model, under the oracle hypotheses about sqrt on sums of squares
#print axioms EtVerif.TrSrc.compute_src_refines_ok_partial
#print axioms EtVerif.TrSrc.compute_src_refines_err_partial
#print axioms EtVerif.TrSrc.compute_src_refuses_validation
#print axioms EtVerif.TrSrc.oracleOK_of_forall
#print axioms EtVerif.TrSrc.go_compute_src_distribution
-- the properties stated about basic.Compute translated TOGETHER WITH the source convergence checker (Props/TrGoSrc)
#print axioms EtVerif.TrGoSrc.go_compute_src_returns
#print axioms EtVerif.TrGoSrc.go_compute_src_returns_iterate
#print axioms EtVerif.TrGoSrc.go_compute_src_stop_spec
#print axioms EtVerif.TrGoSrc.go_compute_src_stop_first
#print axioms EtVerif.TrGoSrc.go_compute_src_withIterations
#print axioms EtVerif.TrGoSrc.go_compute_src_ok_of_loop
#print axioms EtVerif.TrGoSrc.go_compute_src_fuel_independent
#print axioms EtVerif.TrGoSrc.go_compute_src_invalid_rejected
#print axioms EtVerif.TrGoSrc.go_compute_src_invalid_error
#print axioms EtVerif.TrGoSrc.go_compute_src_nonFinite
#print axioms EtVerif.TrGoSrc.go_compute_src_stats
#print axioms EtVerif.TrGoSrc.go_compute_src_stats_fields
#print axioms EtVerif.TrGoSrc.go_compute_src_criteria_stop
#print axioms EtVerif.TrGoSrc.go_compute_src_criteria_first
#print axioms EtVerif.TrGoSrc.go_compute_src_stop_first_exact
#print axioms EtVerif.TrGoSrc.go_compute_src_ranking_top
#print axioms EtVerif.TrGoSrc.go_compute_src_ranking_all
#print axioms EtVerif.TrGoSrc.go_compute_src_terminates_schedule
#print axioms EtVerif.TrGoSrc.go_compute_src_terminates_default
#print axioms EtVerif.TrGoSrc.go_compute_src_terminates_with_t0
#print axioms EtVerif.TrGoSrc.go_compute_src_terminates_alpha_one
#print axioms EtVerif.TrGoSrc.go_compute_src_terminates_first
#print axioms EtVerif.TrGoSrc.go_compute_src_converged_bound
#print axioms EtVerif.TrGoSrc.go_compute_src_converged_bound_unique
#print axioms EtVerif.TrGoSrc.go_compute_src_default_bound
