import EtVerif.Props.C05b
import EtVerif.Props.C05
import EtVerif.Props.TrC05
import EtVerif.Props.TrC01
#print axioms EtVerif.C05.loop_returns_iterate
#print axioms EtVerif.C05.loop_returns_iterate_init
#print axioms EtVerif.C05.stopIter_spec
#print axioms EtVerif.C05.stopIter_first
#print axioms EtVerif.C05.checks_schedule
#print axioms EtVerif.C05.check_delta
#print axioms EtVerif.C05.withIterations
#print axioms EtVerif.C05.fuel_mono
#print axioms EtVerif.C05.invalid_rejected
#print axioms EtVerif.C05.invalid_error
#print axioms EtVerif.C05.compute_ok
#print axioms EtVerif.C05.compute_nonFinite
#print axioms EtVerif.C05.compute_spec
#print axioms EtVerif.C05.compute_withIterations
#print axioms EtVerif.C05.compute_fuel_mono
#print axioms EtVerif.C05a.iterate_distribution_dense
#print axioms EtVerif.C05a.l2_le_l1
#print axioms EtVerif.C05a.delta_geometric_l1
#print axioms EtVerif.C05a.delta_geometric
#print axioms EtVerif.C05a.two_mul_pow_ceil_le
#print axioms EtVerif.C05a.terminates_default_at
#print axioms EtVerif.C05a.terminates_default
#print axioms EtVerif.C05a.first_success_le
#print axioms EtVerif.C05a.terminates_alpha_one
#print axioms EtVerif.C05a.iterate_alpha_one_eq
#print axioms EtVerif.C05b.nonFinite_never
#print axioms EtVerif.C05b.compute_terminates_schedule
#print axioms EtVerif.C05b.compute_terminates_default
#print axioms EtVerif.C05b.compute_terminates_default_any_fuel
#print axioms EtVerif.C05b.compute_terminates_alpha_one
#print axioms EtVerif.C05b.compute_terminates_with_t0
#print axioms EtVerif.C05b.compute_terminates_first
-- refinement of the translated Go code (Gen/Translated.lean, regenerated from /repo) to the model
#print axioms EtVerif.TrC05.withInitialTrust
#print axioms EtVerif.TrC05.withResultIn
#print axioms EtVerif.TrC05.withFlatTail
#print axioms EtVerif.TrC05.withFlatTailNumLeaders
#print axioms EtVerif.TrC05.withFlatTailStats
#print axioms EtVerif.TrC05.withMaxIterations
#print axioms EtVerif.TrC05.withMinIterations
#print axioms EtVerif.TrC05.withIterations
#print axioms EtVerif.TrC05.withCheckFreq
-- refinement of the translated basic.Compute (Gen/Translated.lean, regenerated from /repo) to the model
#print axioms EtVerif.TrC01.compute_refines_ok_partial
#print axioms EtVerif.TrC01.compute_refines_err_partial
#print axioms EtVerif.TrC01.compute_refuses_validation
#print axioms EtVerif.TrC01.compute_schedule
#print axioms EtVerif.TrC01.compute_default_schedule
