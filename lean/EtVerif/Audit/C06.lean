import EtVerif.Props.C06
#print axioms EtVerif.C06.collect_perm_invariant
#print axioms EtVerif.C06.collect_perm_invariant'
#print axioms EtVerif.C06.sort_hypothesis_satisfiable
#print axioms EtVerif.C06.seq_is_mulVecEntries
#print axioms EtVerif.C06.sortByIdx_of_perm_mulVecEntries
#print axioms EtVerif.C06.mulVec_schedule_independent
#print axioms EtVerif.C06.mulVec_schedule_independent_numWorkers
#print axioms EtVerif.C06.mulVec_schedule_independent_model
#print axioms EtVerif.C06.source_deterministicCollect
#print axioms EtVerif.C06.mulVec_schedule_independent_source
#print axioms EtVerif.C06.mulVec_no_deadlock
#print axioms EtVerif.C06.mulVec_terminates
#print axioms EtVerif.C06.mulVec_steps_bound
