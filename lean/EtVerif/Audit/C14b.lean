import EtVerif.Props.C14b
-- 1. refinement of the pure model
#print axioms EtVerif.C14b.heap_refines_pure_deepCopy
#print axioms EtVerif.C14b.heap_refines_pure_setDim
#print axioms EtVerif.C14b.heap_refines_pure_extractDistrust
#print axioms EtVerif.C14b.heap_refines_pure_canonicalizeLocalTrust
#print axioms EtVerif.C14b.heap_refines_pure
#print axioms EtVerif.C14b.heap_refines_pure_of_old_pretrust
-- 2. frame
#print axioms EtVerif.C14b.pipeline_frame
#print axioms EtVerif.C14b.pipeline_frame_getElem
#print axioms EtVerif.C14b.stored_unchanged
#print axioms EtVerif.C14b.store_unchanged
#print axioms EtVerif.C14b.pipeline_frame_deep_mode
-- 3. shallow-copy witness
#print axioms EtVerif.C14b.shallow_copy_witness_rows
#print axioms EtVerif.C14b.shallow_copy_witness
-- 4. pre-trust aliasing
#print axioms EtVerif.C14b.pretrust_alias_harmless
#print axioms EtVerif.C14b.pretrust_unchanged_by_pipeline
-- necessity of the no-alias hypothesis
#print axioms EtVerif.C14b.sep_needed
-- supporting lemmas of Proofs/Heap.lean the statements above rest on
#print axioms EtVerif.C14b.canonLoopH_eq_take
#print axioms EtVerif.C14b.pipelineH_frame
#print axioms EtVerif.C14b.pipelineH_refines
