import EtVerif.Props.C05b
#print axioms EtVerif.C05b.nonFinite_never
#print axioms EtVerif.C05b.compute_terminates_schedule
#print axioms EtVerif.C05b.compute_terminates_default
#print axioms EtVerif.C05b.compute_terminates_default_any_fuel
#print axioms EtVerif.C05b.compute_terminates_alpha_one
#print axioms EtVerif.C05b.compute_terminates_with_t0
#print axioms EtVerif.C05b.compute_terminates_first
