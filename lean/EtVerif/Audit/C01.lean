import EtVerif.Props.C01
#print axioms EtVerif.C01.l1_contract
#print axioms EtVerif.C01.F_contract
#print axioms EtVerif.C01.fixedpoint_exists_unique
#print axioms EtVerif.C01.fixedpoint_distribution
#print axioms EtVerif.C01.l1_le_sqrt_mul_l2
#print axioms EtVerif.C01.stop_bound
#print axioms EtVerif.C01.converged_bound
#print axioms EtVerif.C01.converged_bound_unique
