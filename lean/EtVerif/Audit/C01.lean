import EtVerif.Props.C01b
import EtVerif.Props.C01
import EtVerif.Props.TrC09
import EtVerif.Props.TrC01
#print axioms EtVerif.C01.l1_contract
#print axioms EtVerif.C01.F_contract
#print axioms EtVerif.C01.fixedpoint_exists_unique
#print axioms EtVerif.C01.fixedpoint_distribution
#print axioms EtVerif.C01.l1_le_sqrt_mul_l2
#print axioms EtVerif.C01.stop_bound
#print axioms EtVerif.C01.converged_bound
#print axioms EtVerif.C01.converged_bound_unique
#print axioms EtVerif.C01b.step_refines
#print axioms EtVerif.C01b.iterate_refines
#print axioms EtVerif.C01b.denseC_nonneg
#print axioms EtVerif.C01b.denseC_rowsum
#print axioms EtVerif.C01b.toDense_dist
#print axioms EtVerif.C01b.check_iff_l2
#print axioms EtVerif.C01b.compute_converged_bound
#print axioms EtVerif.C01b.compute_converged_bound_unique
#print axioms EtVerif.C01b.fixedpoint_dist
-- refinement of the translated Go kernels (Gen/Translated.lean, regenerated from /repo) to the model
#print axioms EtVerif.TrC09.kbn_add
#print axioms EtVerif.TrC09.kbn_sum
#print axioms EtVerif.TrC09.vector_sum
#print axioms EtVerif.TrC09.addVec
#print axioms EtVerif.TrC09.subVec
#print axioms EtVerif.TrC09.scaleInPlace
#print axioms EtVerif.TrC09.scaleVec
#print axioms EtVerif.TrC09.vecDot_partial
#print axioms EtVerif.TrC09.vecDot_iff
#print axioms EtVerif.TrC09.vecDot_field
#print axioms EtVerif.TrC09.assign
#print axioms EtVerif.TrC09.clone
#print axioms EtVerif.TrC09.reset
#print axioms EtVerif.TrC09.setDim
-- refinement of the translated basic.Compute (Gen/Translated.lean, regenerated from /repo) to the model
#print axioms EtVerif.TrC01.compute_refines_ok_partial
#print axioms EtVerif.TrC01.compute_refines_err_partial
#print axioms EtVerif.TrC01.compute_refuses_validation
#print axioms EtVerif.TrC01.compute_schedule
#print axioms EtVerif.TrC01.compute_default_schedule
