import EtVerif.Props.C01b
import EtVerif.Props.C01
import EtVerif.Props.TrC09
import EtVerif.Props.TrC01
import EtVerif.Props.TrGo05
import EtVerif.Props.TrChk
import EtVerif.Props.TrSrc
import EtVerif.Props.TrGoSrc
#print axioms EtVerif.C01.l1_contract
#print axioms EtVerif.C01.F_contract
#print axioms EtVerif.C01.fixedpoint_exists_unique
#print axioms EtVerif.C01.fixedpoint_distribution
#print axioms EtVerif.C01.l1_le_sqrt_mul_l2
#print axioms EtVerif.C01.stop_bound
#print axioms EtVerif.C01.converged_bound
#print axioms EtVerif.C01.converged_bound_unique
#print axioms EtVerif.C01b.step_refines
#print axioms EtVerif.C01b.iterate_refines
#print axioms EtVerif.C01b.denseC_nonneg
#print axioms EtVerif.C01b.denseC_rowsum
#print axioms EtVerif.C01b.toDense_dist
#print axioms EtVerif.C01b.check_iff_l2
#print axioms EtVerif.C01b.compute_converged_bound
#print axioms EtVerif.C01b.compute_converged_bound_unique
#print axioms EtVerif.C01b.fixedpoint_dist
-- refinement of the translated Go kernels (Gen/Translated.lean, regenerated from /repo) to the model
#print axioms EtVerif.TrC09.kbn_add
#print axioms EtVerif.TrC09.kbn_sum
#print axioms EtVerif.TrC09.vector_sum
#print axioms EtVerif.TrC09.addVec
#print axioms EtVerif.TrC09.subVec
#print axioms EtVerif.TrC09.scaleInPlace
#print axioms EtVerif.TrC09.scaleVec
#print axioms EtVerif.TrC09.vecDot_partial
#print axioms EtVerif.TrC09.vecDot_iff
#print axioms EtVerif.TrC09.vecDot_field
#print axioms EtVerif.TrC09.assign
#print axioms EtVerif.TrC09.clone
#print axioms EtVerif.TrC09.reset
#print axioms EtVerif.TrC09.setDim
-- refinement of the translated basic.Compute (Gen/Translated.lean, regenerated from /repo) to the model
#print axioms EtVerif.TrC01.compute_refines_ok_partial
#print axioms EtVerif.TrC01.compute_refines_err_partial
#print axioms EtVerif.TrC01.compute_refuses_validation
#print axioms EtVerif.TrC01.compute_schedule
#print axioms EtVerif.TrC01.compute_default_schedule
-- the property stated about the translated Go code (composition of refinement and model-level theorems)
#print axioms EtVerif.TrGo05.go_compute_returns
#print axioms EtVerif.TrGo05.refusal_of_not_valid
#print axioms EtVerif.TrGo05.go_compute_returns_iterate
#print axioms EtVerif.TrGo05.go_compute_stop_spec
#print axioms EtVerif.TrGo05.go_compute_stop_first
#print axioms EtVerif.TrGo05.go_compute_withIterations
#print axioms EtVerif.TrGo05.go_compute_ok_of_loop
#print axioms EtVerif.TrGo05.go_compute_fuel_independent
#print axioms EtVerif.TrGo05.go_compute_invalid_rejected
#print axioms EtVerif.TrGo05.go_compute_invalid_error
#print axioms EtVerif.TrGo05.go_compute_nonFinite
#print axioms EtVerif.TrGo05.go_compute_stats
#print axioms EtVerif.TrGo05.go_compute_stats_fields
#print axioms EtVerif.TrGo05.go_compute_criteria_stop
#print axioms EtVerif.TrGo05.go_compute_criteria_first
#print axioms EtVerif.TrGo05.go_compute_stop_first_exact
#print axioms EtVerif.TrGo05.go_compute_ranking_top
#print axioms EtVerif.TrGo05.go_compute_ranking_all
#print axioms EtVerif.TrGo05.go_compute_terminates_schedule
#print axioms EtVerif.TrGo05.go_compute_terminates_default
#print axioms EtVerif.TrGo05.go_compute_terminates_with_t0
#print axioms EtVerif.TrGo05.go_compute_terminates_alpha_one
#print axioms EtVerif.TrGo05.go_compute_terminates_first
#print axioms EtVerif.TrGo05.go_compute_converged_bound
#print axioms EtVerif.TrGo05.go_compute_converged_bound_unique
#print axioms EtVerif.TrGo05.go_compute_default_bound
#print axioms EtVerif.TrGo05.go_flatTail_update_fold
#print axioms EtVerif.TrGo05.go_flatTail_update_stats
#print axioms EtVerif.TrGo05.go_flatTail_reached_iff
#print axioms EtVerif.TrGo05.go_flatTail_update_ranking_top
-- the convergence checker and Norm2 translated from the CURRENT SOURCE simulate the checker Compute is proved with
#print axioms EtVerif.TrChk.norm2_refines
#print axioms EtVerif.TrChk.newChecker_refines
#print axioms EtVerif.TrChk.newChecker_related
#print axioms EtVerif.TrChk.update_simulates
#print axioms EtVerif.TrChk.converged_agrees
#print axioms EtVerif.TrChk.delta_agrees
-- basic.Compute translated TOGETHER WITH the convergence checker translated from the source (no hand-written checker
-- in between) refines the model, under the oracle hypotheses about sqrt on sums of squares
#print axioms EtVerif.TrSrc.compute_src_refines_ok_partial
#print axioms EtVerif.TrSrc.compute_src_refines_err_partial
#print axioms EtVerif.TrSrc.compute_src_refuses_validation
#print axioms EtVerif.TrSrc.oracleOK_of_forall
#print axioms EtVerif.TrSrc.go_compute_src_distribution
-- the properties stated about basic.Compute translated TOGETHER WITH the source convergence checker (Props/TrGoSrc)
#print axioms EtVerif.TrGoSrc.go_compute_src_returns
#print axioms EtVerif.TrGoSrc.go_compute_src_returns_iterate
#print axioms EtVerif.TrGoSrc.go_compute_src_terminates_default
#print axioms EtVerif.TrGoSrc.go_compute_src_converged_bound
#print axioms EtVerif.TrGoSrc.go_compute_src_converged_bound_unique
#print axioms EtVerif.TrGoSrc.go_compute_src_default_bound
