import EtVerif.Props.C04
import EtVerif.Props.TrC04
import EtVerif.Props.TrGo04
import EtVerif.Props.TrGo04c
#print axioms EtVerif.C04.canonicalize_sum_one
#print axioms EtVerif.C04.canonicalize_ok_iff
#print axioms EtVerif.C04.canonicalize_ratio
#print axioms EtVerif.C04.canonicalize_den
#print axioms EtVerif.C04.canonicalize_zero_sum
#print axioms EtVerif.C04.canonicalize_scale
#print axioms EtVerif.C04.canonLT_ok_iff
#print axioms EtVerif.C04.canonLT_dims
#print axioms EtVerif.C04.canonLT_rows
#print axioms EtVerif.C04.canonLT_row_sum_one
#print axioms EtVerif.C04.canonLT_error_nonsquare
#print axioms EtVerif.C04.canonLT_error_pdim
#print axioms EtVerif.C04.canonLT_ok
#print axioms EtVerif.C04.canonTV_uniform
#print axioms EtVerif.C04.uniform_sum_one
#print axioms EtVerif.C04.uniform_wf
#print axioms EtVerif.C04.uniform_entries
#print axioms EtVerif.C04.canonTV_nonzero
#print axioms EtVerif.C04.canonTV_dim
#print axioms EtVerif.C04.canonTV_sum_one
#print axioms EtVerif.C04.canonTV_wf
#print axioms EtVerif.C04.canonLT_scale_invariant
#print axioms EtVerif.C04.canonLT_scale_invariant_some
#print axioms EtVerif.C04.canonLT_scale_invariant_nonneg
#print axioms EtVerif.C04.canonTV_scale_invariant
#print axioms EtVerif.C04.pipeline_scale_invariant
#print axioms EtVerif.C04.canonicalize_pow2_equivariant
-- refinement of the translated Go kernels (Gen/Translated.lean, regenerated from /repo) to the model
#print axioms EtVerif.TrC04.canonicalize_refines
#print axioms EtVerif.TrC04.canonicalizeTrustVector_refines
#print axioms EtVerif.TrC04.canonicalizeLocalTrust_refines
-- the property stated about the translated Go code (composition of refinement and model-level theorems)
#print axioms EtVerif.TrGo04.go_canonicalize_of_ok
#print axioms EtVerif.TrGo04.go_canonicalize_of_error
#print axioms EtVerif.TrGo04.go_canonicalize_congr
#print axioms EtVerif.TrGo04.go_canonicalize_pow2_equivariant
#print axioms EtVerif.TrGo04.go_canonTV
#print axioms EtVerif.TrGo04.go_canonLT_of_ok
#print axioms EtVerif.TrGo04.go_canonLT_of_error
#print axioms EtVerif.TrGo04.go_canonLT_congr
#print axioms EtVerif.TrGo04.go_canonicalize_sum_one
#print axioms EtVerif.TrGo04.go_canonicalize_ratio
#print axioms EtVerif.TrGo04.go_canonicalize_zero_sum
#print axioms EtVerif.TrGo04.go_canonicalize_total
#print axioms EtVerif.TrGo04.go_canonicalize_scale
#print axioms EtVerif.TrGo04.go_canonTV_uniform
#print axioms EtVerif.TrGo04.go_canonTV_nonzero
#print axioms EtVerif.TrGo04.go_canonTV_sum_one
#print axioms EtVerif.TrGo04.go_canonTV_scale_invariant
#print axioms EtVerif.TrGo04.go_canonLT_rows
#print axioms EtVerif.TrGo04.go_canonLT_closed
#print axioms EtVerif.TrGo04.go_canonLT_error_nonsquare
#print axioms EtVerif.TrGo04.go_canonLT_error_pdim
#print axioms EtVerif.TrGo04.go_canonLT_scale_invariant
#print axioms EtVerif.TrGo04.go_canonLT_scale_invariant_some
#print axioms EtVerif.TrGo04.go_canonLT_scale_invariant_nonneg
#print axioms EtVerif.TrGo04.go_pipeline_scale_invariant
#print axioms EtVerif.TrGo04c.go_canonicalize_idempotent
#print axioms EtVerif.TrGo04c.go_canonicalize_zero_sum_twice
