import EtVerif.Props.C09b
#print axioms EtVerif.C09b.fpModel_exact
#print axioms EtVerif.C09b.fpModel_inexact
#print axioms EtVerif.C09b.kbn_decomposition
#print axioms EtVerif.C09b.kbn_error_bound_pow
#print axioms EtVerif.C09b.kbn_error_bound
#print axioms EtVerif.C09b.kbn_exact_of_id
#print axioms EtVerif.C09b.kbn_bound_tight
#print axioms EtVerif.C09b.sum_error_bound
#print axioms EtVerif.C09b.dot_error_bound
#print axioms EtVerif.C09b.dot_error_bound_exact
