import EtVerif.Props.C07
import EtVerif.Props.C12
import EtVerif.Props.TieMmap
#print axioms EtVerif.C07.mulVec_cancel_safe
#print axioms EtVerif.C07.mulVec_wrong_only_without_recheck
#print axioms EtVerif.C07.mulVec_cancel_unsafe_witness
#print axioms EtVerif.C07.mulVec_cancel_unsafe_general
#print axioms EtVerif.C07.source_mulVec_verdict
#print axioms EtVerif.C07.mulVec_source_safe_or_witness
#print axioms EtVerif.C07.allDone_iff
#print axioms EtVerif.C07.mulVec_no_leak_measure
#print axioms EtVerif.C07.mulVec_channel_bounds
#print axioms EtVerif.C07.mulVec_no_leak
#print axioms EtVerif.C07.mulVec_no_leak_eventually
#print axioms EtVerif.C07.mulVec_stuck_is_terminated
#print axioms EtVerif.C07.mulVec_no_send_on_closed
#print axioms EtVerif.C07.compute_cancel_atomic
#print axioms EtVerif.C07.compute_uncancelled
#print axioms EtVerif.C07.compute_cancel_noticed
#print axioms EtVerif.C07.transpose_cancel_atomic
#print axioms EtVerif.C07.source_compute_transpose_safe
#print axioms EtVerif.C07.source_mulVec_safe
#print axioms EtVerif.C07.mulVec_cancel_safe_source
-- cancellation of a swap-out (Mmap): failure (incl. ctx cancellation at any row) leaves matrix, rows and mapping intact
#print axioms EtVerif.C12.mmap_fail_intact
#print axioms EtVerif.C12.mmap_fail_usable
#print axioms EtVerif.C12.mmap_ctx_iff
