import EtVerif.Props.C01b
#print axioms EtVerif.C01b.step_refines
#print axioms EtVerif.C01b.iterate_refines
#print axioms EtVerif.C01b.denseC_nonneg
#print axioms EtVerif.C01b.denseC_rowsum
#print axioms EtVerif.C01b.toDense_dist
#print axioms EtVerif.C01b.check_iff_l2
#print axioms EtVerif.C01b.compute_converged_bound
#print axioms EtVerif.C01b.compute_converged_bound_unique
#print axioms EtVerif.C01b.fixedpoint_dist
