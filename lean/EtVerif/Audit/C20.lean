import EtVerif.Props.C20
import EtVerif.Props.C15
import EtVerif.Props.TrPg
#print axioms EtVerif.C20.stages
#print axioms EtVerif.C20.rows_each_peer_once
#print axioms EtVerif.C20.rows_sorted_desc
#print axioms EtVerif.C20.rows_scores
#print axioms EtVerif.C20.aligned_inputs
#print axioms EtVerif.C20.flags_exact
#print axioms EtVerif.C20.unusable_is_400
#print axioms EtVerif.C20.unusable_records
#print axioms EtVerif.C20.rat_eq_field
#print axioms EtVerif.C15.bounded_computation_playground
-- the playground's iteration bound (the repair e85c9dc), translated from the current source, is the model's pgIterBound
#print axioms EtVerif.TrPg.iterationBound_refines
#print axioms EtVerif.TrPg.iterationBound_range
