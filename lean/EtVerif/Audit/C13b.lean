import EtVerif.Props.C13b
#print axioms EtVerif.C13b.conc_invariant
#print axioms EtVerif.C13b.content_is_fold
#print axioms EtVerif.C13b.linearizable
#print axioms EtVerif.C13b.linearizable_no_merge
#print axioms EtVerif.C13b.kvSet_eq_update
#print axioms EtVerif.C13b.specStep_eq_C13
#print axioms EtVerif.C13b.runSpec_eq_C13
#print axioms EtVerif.C13b.linearizable_C13
#print axioms EtVerif.C13b.runSpec_mem
#print axioms EtVerif.C13b.self_copy_never_created
#print axioms EtVerif.C13b.stored_ref_put_not_linearizable
