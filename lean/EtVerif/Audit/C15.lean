import EtVerif.Props.TieSites
import EtVerif.Props.C15
import EtVerif.Props.TrPg
#print axioms EtVerif.C15.newCSR_guard_oapi_inline
#print axioms EtVerif.C15.newCSR_guard_grpc_update
#print axioms EtVerif.C15.newCSR_guard_readLocalTrust
#print axioms EtVerif.C15.newCSR_guard_oapiCsv
#print axioms EtVerif.C15.oapiCsv_negative_refused
#print axioms EtVerif.C15.store_inv_init
#print axioms EtVerif.C15.oapi_store_inv
#print axioms EtVerif.C15.tm_store_inv
#print axioms EtVerif.C15.grpc_reachable_inv
#print axioms EtVerif.C15.oapi_reachable_inv
#print axioms EtVerif.C15.transpose_guard_oapi
#print axioms EtVerif.C15.transpose_guard_grpc
#print axioms EtVerif.C15.transpose_guard_playground
#print axioms EtVerif.C15.playground_result_guard
#print axioms EtVerif.C15.guarded_of_wfm
#print axioms EtVerif.C15.oapi_scores_in_range
#print axioms EtVerif.C15.oapi_loadMatrix_invalid
#print axioms EtVerif.C15.oapi_loadVector_invalid
#print axioms EtVerif.C15.oapi_prepare_invalid
#print axioms EtVerif.C15.oapi_invalid_is_400
#print axioms EtVerif.C15.oapi_store_invalid
#print axioms EtVerif.C15.oapi_store_unknown_id
#print axioms EtVerif.C15.oapi_refusal_unchanged
#print axioms EtVerif.C15.grpc_tmUpdate_negative
#print axioms EtVerif.C15.grpc_tmUpdate_unknown_id
#print axioms EtVerif.C15.grpc_tmUpdate_refusal_unchanged
#print axioms EtVerif.C15.grpc_tvUpdate_negative
#print axioms EtVerif.C15.grpc_tvUpdate_unknown_id
#print axioms EtVerif.C15.grpc_tvUpdate_refusal_unchanged
#print axioms EtVerif.C15.grpc_compute_no_params
#print axioms EtVerif.C15.grpc_compute_bad_params
#print axioms EtVerif.C15.grpc_compute_unknown_id
#print axioms EtVerif.C15.grpc_compute_refusal_unchanged
#print axioms EtVerif.C15.fe_invalid_is_client_error
#print axioms EtVerif.C15.bounded_computation_oapi
#print axioms EtVerif.C15.bounded_computation_grpc
#print axioms EtVerif.C15.bounded_computation_playground
#print axioms EtVerif.Ties.source_sites_audited
#print axioms EtVerif.C15.pgIterBound_le
#print axioms EtVerif.C15.pgIterBound_ge
-- the playground's iteration bound (the repair e85c9dc), translated from the current source, is the model's pgIterBound
#print axioms EtVerif.TrPg.iterationBound_refines
#print axioms EtVerif.TrPg.iterationBound_range
