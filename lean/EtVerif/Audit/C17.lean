import EtVerif.Props.TieStore
import EtVerif.Props.C17
#print axioms EtVerif.C17.bc_no_params
#print axioms EtVerif.C17.bc_unknown_local_trust
#print axioms EtVerif.C17.bc_unknown_pre_trust
#print axioms EtVerif.C17.bcLoadPre_isSome
#print axioms EtVerif.C17.bc_unknown_global_trust
#print axioms EtVerif.C17.bcParamsOK_eq_false_iff
#print axioms EtVerif.C17.bc_bad_params
#print axioms EtVerif.C17.bc_error_unchanged
#print axioms EtVerif.C17.bcPrep_ne_ok
#print axioms EtVerif.C17.bc_ok_inv
#print axioms EtVerif.C17.bc_effective_spec
#print axioms EtVerif.C17.uniform_pretrust
#print axioms EtVerif.C17.bc_result
#print axioms EtVerif.C17.bc_warm_start
#print axioms EtVerif.C17.bc_timestamps
#print axioms EtVerif.C17.bc_ts_never_lowered
#print axioms EtVerif.C17.bc_inputs_unchanged
#print axioms EtVerif.C17.bc_honours_max_iterations
#print axioms EtVerif.C17.preOK_of_bcLoadPre
#print axioms EtVerif.C17.bc_code_eq
#print axioms EtVerif.C17.bcPrep_error_cases
#print axioms EtVerif.C17.bc_notFound_iff
#print axioms EtVerif.C17.bc_invalidArgument_iff
#print axioms EtVerif.Ties.source_store_safe
