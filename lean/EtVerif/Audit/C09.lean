import EtVerif.Props.C09
#print axioms EtVerif.C09.den_add
#print axioms EtVerif.C09.den_sub
