/-
  Refinement of the translated KBNSummer.Add / KBNSummer.Sum / Vector.Sum (Gen/Translated.lean,
  regenerated from /repo) to the hand-written model (`KBN.push`, `KBN.result`, `Vec.sum`).
  Also the worked examples for the proof style of the other Tr* files.
-/
import EtVerif.Proofs.TrBridge
namespace EtVerif.Tr
open EtVerif EtVerif.GoSem EtVerif.Gen Scalar
variable {α : Type} [Scalar α]

def ofGK (g : GKBNSummer α) : KBN α := ⟨g.sum, g.compensation⟩
@[simp] theorem toGK_ofGK (g : GKBNSummer α) : toGK (ofGK g) = g := rfl
@[simp] theorem ofGK_toGK (k : KBN α) : ofGK (toGK k) = k := rfl

theorem KBNSummer_Add_refines (k : KBN α) (x : α) :
    (KBNSummer_Add (toGK k) x).map (fun r => r.1.s) = .ok (toGK (k.push x)) := by
  cases h : lt (abs k.sum) (abs x) <;>
  simp [KBNSummer_Add, KBNSummer_Add.body, Stm.run, Stm.seq, Stm.set, Stm.ite, Stm.skip, toGK, KBN.push,
    pure, Except.pure, Except.map, h]

/-- usable form: the call succeeds and the receiver afterwards is the pushed summer. -/
theorem KBNSummer_Add_ok (g : GKBNSummer α) (x : α) :
    ∃ st, KBNSummer_Add g x = .ok (st, ()) ∧ st.s = toGK ((ofGK g).push x) := by
  have h := KBNSummer_Add_refines (ofGK g) x
  simp only [toGK_ofGK] at h
  cases hr : KBNSummer_Add g x with
  | error e => rw [hr] at h; simp [Except.map] at h
  | ok r => rw [hr] at h; simp [Except.map] at h; exact ⟨r.1, rfl, h⟩

theorem KBNSummer_Sum_refines (k : KBN α) :
    (KBNSummer_Sum (toGK k)).map (fun r => r.2) = .ok k.result := by
  simp [KBNSummer_Sum, KBNSummer_Sum.body, Stm.run, Stm.ret, toGK, KBN.result, pure, Except.pure, Except.map]

theorem KBNSummer_Sum_ok (g : GKBNSummer α) :
    ∃ st, KBNSummer_Sum g = .ok (st, (ofGK g).result) := by
  simp [KBNSummer_Sum, KBNSummer_Sum.body, Stm.run, Stm.ret, ofGK, KBN.result, pure, Except.pure]

theorem Vector_Sum_loop (es : List (GEntry α)) :
    ∀ (i : Int) (s : Vector_Sum.St α),
      ∃ s', Stm.range 1 Vector_Sum.loop1_bind (Vector_Sum.loop1_body (α := α)) i es s = .ok (s', .next) ∧
        s'.summer = toGK ((es.map (·.Value)).foldl KBN.push (ofGK s.summer)) := by
  induction es with
  | nil => intro i s; exact ⟨s, rfl, by simp⟩
  | cons e es ih =>
    intro i s
    obtain ⟨st, h1, h2⟩ := KBNSummer_Add_ok s.summer e.Value
    obtain ⟨s', h3, h4⟩ := ih (i + 1) { s with e := e, summer := st.s }
    refine ⟨s', ?_, ?_⟩
    · rw [range_cons_next (s1 := { s with e := e, summer := st.s })]
      · exact h3
      · simp [Vector_Sum.loop1_body, Vector_Sum.loop1_bind, Stm.set, h1, bind, Except.bind, pure, Except.pure]
    · simp [h4, h2]

theorem Vector_Sum_refines (v : Vec α) :
    (Vector_Sum (toGV v)).map (fun r => r.2) = .ok v.sum := by
  obtain ⟨s', h1, h2⟩ := Vector_Sum_loop (toGs v.entries) 0
    { v := toGV v, summer := GKBNSummer.zero, e := GEntry.zero }
  obtain ⟨st, hst⟩ := KBNSummer_Sum_ok s'.summer
  simp only [toGK_zero] at h1
  simp only [Vector_Sum, Vector_Sum.body, Stm.run, Stm.seq, Stm.set, Stm.rangeOver, Vector_Sum.loop1_xs, pure,
    Except.pure, toGK_zero, toGV_Entries, h1, Stm.ret, hst, bind, Except.bind, Except.map]
  simp [h2, Vec.sum, kbnSum, toGs, Function.comp_def, ofGK, toGK, KBN.init, GKBNSummer.zero]
end EtVerif.Tr
