/-
  Refinement of the translated Vector.Assign / Clone / Reset / SetDim (growing case) to the model.
-/
import EtVerif.Proofs.TrBridge
namespace EtVerif.Tr
open EtVerif EtVerif.GoSem EtVerif.Gen Scalar
variable {α : Type} [Scalar α]
set_option linter.unusedSectionVars false

theorem Vector_Assign_refines (w : GVector α) (v1 : Vec α) :
    (Vector_Assign w (toGV v1)).map (fun r => r.1.v) = .ok (toGV v1) := by
  simp [Vector_Assign, Vector_Assign.body, Stm.run, Stm.seq, Stm.set, pure, Except.pure, bind,
    Except.bind, Except.map, toGV]

theorem Vector_Clone_refines (v : Vec α) :
    (Vector_Clone (toGV v)).map (fun r => r.2) = .ok (toGV v) := by
  simp [Vector_Clone, Vector_Clone.body, Stm.run, Stm.ret, pure, Except.pure, bind,
    Except.bind, Except.map, toGV]

theorem Vector_Reset_eq (w : GVector α) :
    Vector_Reset w = .ok ({ v := { Dim := 0, Entries := [] } }, ()) := by
  simp [Vector_Reset, Vector_Reset.body, Stm.run, Stm.seq, Stm.set, pure, Except.pure]

theorem Vector_Reset_refines (w : GVector α) :
    (Vector_Reset w).map (fun r => r.1.v) = .ok (toGV (⟨0, []⟩ : Vec α)) := by
  simp [Vector_Reset_eq, Except.map, toGV]

/-- growing (or keeping) the dimension never touches the entries: the `sort.Search` branch of
    `Vector.SetDim` is not taken. -/
theorem Vector_SetDim_grow (g : GVector α) (d : Int) (h : g.Dim ≤ d) :
    (Vector_SetDim g d).map (fun r => r.1.v) = .ok { g with Dim := d } := by
  have h' : ¬ d < g.Dim := by omega
  simp [Vector_SetDim, Vector_SetDim.body, Stm.run, Stm.seq, Stm.set, Stm.ite, Stm.skip, pure,
    Except.pure, Except.map, h']

theorem map_eq_ok {ε β γ : Type} {x : Except ε β} {f : β → γ} {c : γ}
    (h : x.map f = .ok c) : ∃ r, x = .ok r ∧ f r = c := by
  cases x with
  | error e => simp [Except.map] at h
  | ok r => exact ⟨r, rfl, by simpa [Except.map] using h⟩

end EtVerif.Tr
