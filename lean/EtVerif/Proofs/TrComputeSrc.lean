/-
  Refinement of the SECOND translation of `basic.Compute` (`Gen.Compute_src`, Gen/Translated.lean: the same Go
  function, calling the convergence checker TRANSLATED FROM THE SOURCE, with `math.Sqrt`, `math.IsNaN`,
  `math.IsInf` as uninterpreted parameters `sqrtO`, `nanO`, `infO`) to the hand-written model `compute`
  (Model/Basic.lean), under explicit oracle hypotheses

    hnf : ∀ x, (nanO (sqrtO x) || infO (sqrtO x)) = nonFinite x
    hsq : ∀ x e, Scalar.le (sqrtO x) e = Scalar.sqrtLe x e

  Structure: as Proofs/TrCompute.lean (the lemmas there that do not mention the record `Compute.St` are reused),
  with the invariant redone: the checker field is tied to the model's `ConvChecker` through the facts of
  `CCRel` (Proofs/TrChecker.lean), and the flat-tail statistics carry `sqrtO` of the model's squared delta
  (`srcStats`).

  Main results:
  * `Compute_src_refines_ok_sq_partial`   — (A) a properly ended run of the model is computed exactly, the oracle
                                             hypotheses being needed on sums of squares only (`OracleOK`);
  * `Compute_src_refines_err_sq_partial`  — (B) when the model refuses, Go returns `nil, err` and never panics;
  * `Compute_src_refines_ok_partial`, `Compute_src_refines_err_partial` — the same under `hnf`, `hsq` as above;
  * `Compute_src_refines_ok_root_partial` — (A) in the shape "`DeltaNorm` is the root of the model's squared delta"
                                             (needs `sqrtO one = one`);
  * `Compute_src_refuses_validation`      — (B), validation part, no oracle hypothesis.
-/
import EtVerif.Proofs.TrCompute
import EtVerif.Proofs.TrChecker
namespace EtVerif.Tr
open EtVerif EtVerif.GoSem EtVerif.Gen Scalar
variable {α : Type} [Scalar α]
set_option linter.unusedSectionVars false

/-! ### the statistics of the source universe -/

/-- the model's statistics as the SOURCE universe leaves them: once a ranking has been recorded (every
    `FlatTailChecker.Update` records one), the delta is the root of the model's squared delta; before that it is
    the initial `1`. -/
def srcStats (sqrtO : α → α) (s : FlatTailStats α) : FlatTailStats α :=
  { s with deltaSq := if s.ranking.isSome then sqrtO s.deltaSq else s.deltaSq }

/-- the Go statistics record as the SOURCE universe leaves it. -/
def toGStatsSrc (sqrtO : α → α) (s : FlatTailStats α) : GFlatTailStats α := toGStats (srcStats sqrtO s)

theorem srcStats_init (sqrtO : α → α) : srcStats sqrtO (FlatTailStats.init : FlatTailStats α) = FlatTailStats.init :=
  rfl

theorem srcStats_length (sqrtO : α → α) (s : FlatTailStats α) : (srcStats sqrtO s).length = s.length := rfl

/-- updating the source statistics with the root = the source view of updating the model's with the square. -/
theorem srcStats_update (sqrtO : α → α) (s : FlatTailStats α) (rk : List Nat) (d : α) :
    (srcStats sqrtO s).update rk (sqrtO d) = srcStats sqrtO (s.update rk d) := by
  by_cases h : s.ranking = some rk
  · simp [FlatTailStats.update, srcStats, h]
  · simp only [FlatTailStats.update, srcStats, h, if_false, Option.isSome_some, if_true]
    rfl

/-! ### lengths (the fuel of the `SubVec` merge loop inside `ConvergenceChecker.Update`) -/

theorem addEntries_length_le (a b : List (Entry α)) : (addEntries a b).length ≤ a.length + b.length := by
  fun_induction addEntries a b <;> simp_all <;> omega

theorem stepEntries_length_le (ct : List (Row α)) (ap : List (Entry α)) (x : α) (t : List (Entry α)) :
    (stepEntries ct ap x t).length ≤ ct.length + ap.length := by
  have h1 := mulVecEntries_length_le ct t
  have h2 := scale_entries_length_le x (⟨0, mulVecEntries ct t⟩ : Vec α)
  rw [scale_entries_eq] at h2
  simp only at h2
  have h3 := addEntries_length_le (if isZero x then [] else scaleEntries x (mulVecEntries ct t)) ap
  simp only [stepEntries]
  omega

/-! ### the four checker calls (`Update_src_fin`, `Update_src_nonfin`, `OracleOK` are in Proofs/TrChecker.lean) -/

theorem Delta_src_eq (g : GConvergenceCheckerSrc α) :
    Gen.ConvergenceChecker_Delta_src g = .ok (⟨g⟩, g.d) := rfl

theorem Converged_src_eq (g : GConvergenceCheckerSrc α) :
    Gen.ConvergenceChecker_Converged_src g = .ok (⟨g⟩, Scalar.le g.d g.e) := rfl

/-! ### one iteration of the loop body, the calls abstracted by their results -/

section generic
variable (capO : Nat → Int) (fuel : Nat) (sqrtO : α → α) (nanO infO : α → Bool)

/-- not a check iteration: only the power step. -/
theorem src_body_nocheck_generic (s : Compute_src.St α)
    (hnc : Int.tmod (s.iter - s.minIters) s.checkFreq = 0 → ¬ (s.iter ≥ s.minIters))
    (r1 : Vector_MulVec.St α × Option GoError) (r2 : Vector_ScaleVec.St α × Unit)
    (r3 : Vector_AddVec.St α × Option GoError)
    (h1 : Gen.Vector_MulVec s.t1 s.ct s.t1 = .ok r1) (h1e : r1.2 = none)
    (h2 : Gen.Vector_ScaleVec r1.1.v (Scalar.sub (Scalar.one : α) s.a) r1.1.v true = .ok r2)
    (h3 : Gen.Vector_AddVec capO fuel r2.1.v r2.1.v s.ap = .ok r3) (h3e : r3.2 = none) :
    Compute_src.loop1_body capO fuel sqrtO nanO infO s = .ok ({ s with t1 := r3.1.v, err := none }, .next) := by
  by_cases hm : Int.tmod (s.iter - s.minIters) s.checkFreq = 0
  · have hge := hnc hm
    simp only [Compute_src.loop1_body, Stm.seq, Stm.ite, Stm.set, Stm.skip, pure, Except.pure, bind,
      Except.bind, hm, hge, decide_true, decide_false, h1, h1e, h2, h3, h3e, Option.isNone_none, Bool.not_true]
  · simp only [Compute_src.loop1_body, Stm.seq, Stm.ite, Stm.set, Stm.skip, pure, Except.pure, bind,
      Except.bind, hm, decide_false, h1, h1e, h2, h3, h3e, Option.isNone_none, Bool.not_true]

/-- a check iteration whose `Update` fails: `return nil, err`. -/
theorem src_body_nonfinite_generic (s : Compute_src.St α)
    (hm : Int.tmod (s.iter - s.minIters) s.checkFreq = 0) (hge : s.iter ≥ s.minIters)
    (ru : ConvergenceChecker_Update_src.St α × Option GoError) (msg : GoError)
    (hu : Gen.ConvergenceChecker_Update_src capO fuel sqrtO nanO infO s.convChecker s.t1 = .ok ru)
    (hue : ru.2 = some msg) :
    ∃ s', Compute_src.loop1_body capO fuel sqrtO nanO infO s = .ok (s', .ret (GVector.zero, some msg)) := by
  exact ⟨_, by
    simp only [Compute_src.loop1_body, Stm.seq, Stm.ite, Stm.set, Stm.ret, pure, Except.pure, bind,
      Except.bind, hm, hge, decide_true, hu, hue, Option.isNone_some, Bool.not_false]
    rfl⟩

/-- a check iteration that meets the exit criteria: `break`. -/
theorem src_body_break_generic (s : Compute_src.St α)
    (hm : Int.tmod (s.iter - s.minIters) s.checkFreq = 0) (hge : s.iter ≥ s.minIters)
    (ru : ConvergenceChecker_Update_src.St α × Option GoError)
    (hu : Gen.ConvergenceChecker_Update_src capO fuel sqrtO nanO infO s.convChecker s.t1 = .ok ru)
    (hue : ru.2 = none)
    (rf : FlatTailChecker_Update.St α × Unit) (rr : FlatTailChecker_Reached.St α × Bool)
    (hf : Gen.FlatTailChecker_Update s.flatTailChecker s.t1 ru.1.c.d = .ok rf)
    (hle : Scalar.le ru.1.c.d ru.1.c.e = true)
    (hr : Gen.FlatTailChecker_Reached rf.1.c = .ok rr) (hrr : rr.2 = true) :
    Compute_src.loop1_body capO fuel sqrtO nanO infO s =
      .ok ({ s with convChecker := ru.1.c, err := none, flatTailChecker := rf.1.c }, .brk 1) := by
  simp only [Compute_src.loop1_body, Stm.seq, Stm.ite, Stm.set, Stm.skip, Stm.brk, pure, Except.pure, bind,
    Except.bind, hm, hge, decide_true, hu, hue, Delta_src_eq, Converged_src_eq,
    Option.isNone_none, Bool.not_true, hf, hle, if_true, hr, hrr]

/-- a check iteration that goes on: the checkers are updated, then the power step. -/
theorem src_body_check_generic (s : Compute_src.St α)
    (hm : Int.tmod (s.iter - s.minIters) s.checkFreq = 0) (hge : s.iter ≥ s.minIters)
    (ru : ConvergenceChecker_Update_src.St α × Option GoError)
    (hu : Gen.ConvergenceChecker_Update_src capO fuel sqrtO nanO infO s.convChecker s.t1 = .ok ru)
    (hue : ru.2 = none)
    (rf : FlatTailChecker_Update.St α × Unit)
    (hf : Gen.FlatTailChecker_Update s.flatTailChecker s.t1 ru.1.c.d = .ok rf)
    (hgo : Scalar.le ru.1.c.d ru.1.c.e = true →
      ∃ rr, Gen.FlatTailChecker_Reached rf.1.c = .ok rr ∧ rr.2 = false)
    (r1 : Vector_MulVec.St α × Option GoError) (r2 : Vector_ScaleVec.St α × Unit)
    (r3 : Vector_AddVec.St α × Option GoError)
    (h1 : Gen.Vector_MulVec s.t1 s.ct s.t1 = .ok r1) (h1e : r1.2 = none)
    (h2 : Gen.Vector_ScaleVec r1.1.v (Scalar.sub (Scalar.one : α) s.a) r1.1.v true = .ok r2)
    (h3 : Gen.Vector_AddVec capO fuel r2.1.v r2.1.v s.ap = .ok r3) (h3e : r3.2 = none) :
    Compute_src.loop1_body capO fuel sqrtO nanO infO s =
      .ok ({ s with convChecker := ru.1.c, err := none, flatTailChecker := rf.1.c, t1 := r3.1.v }, .next) := by
  cases hle : Scalar.le ru.1.c.d ru.1.c.e with
  | false =>
    simp only [Compute_src.loop1_body, Stm.seq, Stm.ite, Stm.set, Stm.skip, pure, Except.pure, bind,
      Except.bind, hm, hge, decide_true, hu, hue, Delta_src_eq, Converged_src_eq, if_false, Bool.false_eq_true,
      Option.isNone_none, Bool.not_true, hf, hle, h1, h1e, h2, h3, h3e]
  | true =>
    obtain ⟨rr, hr, hrr⟩ := hgo hle
    simp only [Compute_src.loop1_body, Stm.seq, Stm.ite, Stm.set, Stm.skip, pure, Except.pure, bind,
      Except.bind, hm, hge, decide_true, hu, hue, Delta_src_eq, Converged_src_eq,
      Option.isNone_none, Bool.not_true, hf, hle, if_true, hr, hrr, h1, h1e, h2, h3, h3e]
end generic

/-! ### the loop invariant -/

/-- the Go state inside the loop: the constants prepared by the prefix, and the loop-variant fields tied to
    the model's `LoopState`.  The checker: its vector and epsilon are the model's (the two facts of `CCRel`); its
    `d` and `iter` are free (`d` is the sentinel `2·e` before the first `Update`, and is only read right after an
    `Update`).  The statistics are the source view `srcStats` of the model's.  `tR` is the `WithResultIn` field. -/
structure CInvS (sqrtO : α → α) (n : Nat) (ct : CSM α) (ap : List (Entry α)) (a e : α) (freq minI : Nat)
    (M : Int) (fl nl : Nat) (tR : Option (GVector α)) (s : Compute_src.St α) (ls : LoopState α) : Prop where
  t1 : s.t1 = toGV ⟨n, ls.t1⟩
  convT : s.convChecker.t = toGV ⟨n, ls.conv.t⟩
  convE : s.convChecker.e = e
  ftc : s.flatTailChecker = ⟨(fl : Int), (nl : Int), some (toGStats (srcStats sqrtO ls.stats))⟩
  iter : s.iter = (ls.iter : Int)
  err : s.err = none
  ct : s.ct = toGM ct
  ap : s.ap = toGV ⟨n, ap⟩
  a : s.a = a
  checkFreq : s.checkFreq = (freq : Int)
  minIters : s.minIters = (minI : Int)
  maxIters : s.maxIters = M
  t : s.t = tR

/-! ### one iteration under the invariant, following `computeLoop` -/

section iter
variable (capO : Nat → Int) (fuel : Nat) (sqrtO : α → α) (nanO infO : α → Bool)
  {n : Nat} {ct : CSM α} {ap : List (Entry α)} {a e : α}
  {freq minI : Nat} {M : Int} {fl nl : Nat} {tR : Option (GVector α)} {s : Compute_src.St α} {ls : LoopState α}

theorem src_iter_nocheck (h : CInvS sqrtO n ct ap a e freq minI M fl nl tR s ls)
    (hmaj : ct.major = n) (hmin : ct.minor = n) (hlen : ct.rows.length + ap.length ≤ fuel)
    (hck : isCheck minI freq ls.iter = false) :
    ∃ s1, Compute_src.loop1_body capO fuel sqrtO nanO infO s = .ok (s1, .next) ∧
      CInvS sqrtO n ct ap a e freq minI M fl nl tR s1
        { ls with t1 := stepEntries ct.rows ap (Scalar.sub (Scalar.one : α) a) ls.t1 } := by
  obtain ⟨r1, r2, r3, h1, h1e, h2, h3, h3e, h3v⟩ := step_calls capO fuel n ct ls.t1 ap a hmaj hmin hlen
  have hb := src_body_nocheck_generic capO fuel sqrtO nanO infO s
    (by rw [h.iter, h.minIters, h.checkFreq]; exact isCheck_false _ _ _ hck) r1 r2 r3
    (by rw [h.t1, h.ct]; exact h1) h1e (by rw [h.a]; exact h2) (by rw [h.ap]; exact h3) h3e
  exact ⟨_, hb, ⟨h3v, h.convT, h.convE, h.ftc, h.iter, rfl, h.ct, h.ap, h.a, h.checkFreq, h.minIters,
    h.maxIters, h.t⟩⟩

theorem src_iter_nonfinite (hO : OracleOK sqrtO nanO infO e)
    (h : CInvS sqrtO n ct ap a e freq minI M fl nl tR s ls)
    (hsub : ls.t1.length + ls.conv.t.length ≤ fuel)
    (hck : isCheck minI freq ls.iter = true)
    (hnf : nonFinite (ls.conv.update ls.t1).dsq = true) :
    ∃ s' msg, Compute_src.loop1_body capO fuel sqrtO nanO infO s = .ok (s', .ret (GVector.zero, some msg)) := by
  obtain ⟨hm, hge⟩ := isCheck_true _ _ _ hck
  obtain ⟨ru, msg, hu, hue⟩ := Update_src_nonfin capO fuel sqrtO nanO infO s.convChecker ls.conv n ls.t1
    h.convT hsub ((hO.nf (subEntries ls.t1 ls.conv.t)).trans hnf)
  obtain ⟨s', hb⟩ := src_body_nonfinite_generic capO fuel sqrtO nanO infO s
    (by rw [h.iter, h.minIters, h.checkFreq]; exact hm) (by rw [h.iter, h.minIters]; exact hge) ru msg
    (by rw [h.t1]; exact hu) hue
  exact ⟨s', msg, hb⟩

theorem src_iter_break (hO : OracleOK sqrtO nanO infO e)
    (h : CInvS sqrtO n ct ap a e freq minI M fl nl tR s ls)
    (hsub : ls.t1.length + ls.conv.t.length ≤ fuel)
    (hne : ls.t1 ≠ []) (hnl : 0 < nl)
    (hck : isCheck minI freq ls.iter = true)
    (hnf : nonFinite (ls.conv.update ls.t1).dsq = false)
    (hsq : Scalar.sqrtLe (ls.conv.update ls.t1).dsq e = true)
    (hreach : (ls.stats.update (rankOf ls.t1 nl) (ls.conv.update ls.t1).dsq).length ≥ fl)
    (checks : List Nat) :
    ∃ s1, Compute_src.loop1_body capO fuel sqrtO nanO infO s = .ok (s1, .brk 1) ∧
      CInvS sqrtO n ct ap a e freq minI M fl nl tR s1
        { ls with conv := ls.conv.update ls.t1,
                  stats := ls.stats.update (rankOf ls.t1 nl) (ls.conv.update ls.t1).dsq,
                  checks := checks } := by
  obtain ⟨hm, hge⟩ := isCheck_true _ _ _ hck
  obtain ⟨ru, hu, hue, hut, hueps, hud⟩ := Update_src_fin capO fuel sqrtO nanO infO s.convChecker ls.conv e n
    ls.t1 h.convT h.convE hsub ((hO.nf (subEntries ls.t1 ls.conv.t)).trans hnf)
  obtain ⟨rf, hf, hfv⟩ := map_eq_ok (FlatTailChecker_Update_refines (fl : Int) nl (srcStats sqrtO ls.stats)
    ⟨n, ls.t1⟩ (sqrtO (ls.conv.update ls.t1).dsq) hne hnl)
  rw [srcStats_update] at hfv
  obtain ⟨rr, hr, hrv⟩ := map_eq_ok (FlatTailChecker_Reached_refines fl (nl : Int)
    (srcStats sqrtO (ls.stats.update (rankOf ls.t1 nl) (ls.conv.update ls.t1).dsq)))
  have hb := src_body_break_generic capO fuel sqrtO nanO infO s
    (by rw [h.iter, h.minIters, h.checkFreq]; exact hm) (by rw [h.iter, h.minIters]; exact hge) ru
    (by rw [h.t1]; exact hu) hue rf rr
    (by rw [h.ftc, h.t1, hud]; exact hf) (by rw [hud, hueps]; exact (hO.sq (subEntries ls.t1 ls.conv.t)).trans hsq)
    (by rw [hfv]; exact hr) (by rw [hrv]; exact decide_eq_true hreach)
  exact ⟨_, hb, ⟨h.t1, hut, hueps, hfv, h.iter, rfl, h.ct, h.ap, h.a, h.checkFreq, h.minIters, h.maxIters, h.t⟩⟩

theorem src_iter_check (hO : OracleOK sqrtO nanO infO e)
    (h : CInvS sqrtO n ct ap a e freq minI M fl nl tR s ls)
    (hsub : ls.t1.length + ls.conv.t.length ≤ fuel)
    (hmaj : ct.major = n) (hmin : ct.minor = n) (hlen : ct.rows.length + ap.length ≤ fuel)
    (hne : ls.t1 ≠ []) (hnl : 0 < nl)
    (hck : isCheck minI freq ls.iter = true)
    (hnf : nonFinite (ls.conv.update ls.t1).dsq = false)
    (hgo : (Scalar.sqrtLe (ls.conv.update ls.t1).dsq e &&
      decide ((ls.stats.update (rankOf ls.t1 nl) (ls.conv.update ls.t1).dsq).length ≥ fl)) = false)
    (checks : List Nat) :
    ∃ s1, Compute_src.loop1_body capO fuel sqrtO nanO infO s = .ok (s1, .next) ∧
      CInvS sqrtO n ct ap a e freq minI M fl nl tR s1
        { t1 := stepEntries ct.rows ap (Scalar.sub (Scalar.one : α) a) ls.t1, iter := ls.iter,
          conv := ls.conv.update ls.t1,
          stats := ls.stats.update (rankOf ls.t1 nl) (ls.conv.update ls.t1).dsq,
          checks := checks } := by
  obtain ⟨hm, hge⟩ := isCheck_true _ _ _ hck
  obtain ⟨ru, hu, hue, hut, hueps, hud⟩ := Update_src_fin capO fuel sqrtO nanO infO s.convChecker ls.conv e n
    ls.t1 h.convT h.convE hsub ((hO.nf (subEntries ls.t1 ls.conv.t)).trans hnf)
  obtain ⟨rf, hf, hfv⟩ := map_eq_ok (FlatTailChecker_Update_refines (fl : Int) nl (srcStats sqrtO ls.stats)
    ⟨n, ls.t1⟩ (sqrtO (ls.conv.update ls.t1).dsq) hne hnl)
  rw [srcStats_update] at hfv
  obtain ⟨rr, hr, hrv⟩ := map_eq_ok (FlatTailChecker_Reached_refines fl (nl : Int)
    (srcStats sqrtO (ls.stats.update (rankOf ls.t1 nl) (ls.conv.update ls.t1).dsq)))
  obtain ⟨r1, r2, r3, h1, h1e, h2, h3, h3e, h3v⟩ := step_calls capO fuel n ct ls.t1 ap a hmaj hmin hlen
  have hb := src_body_check_generic capO fuel sqrtO nanO infO s
    (by rw [h.iter, h.minIters, h.checkFreq]; exact hm) (by rw [h.iter, h.minIters]; exact hge) ru
    (by rw [h.t1]; exact hu) hue rf
    (by rw [h.ftc, h.t1, hud]; exact hf)
    (by
      rw [hud, hueps, hfv]
      intro hle
      have hsq : Scalar.sqrtLe (ls.conv.update ls.t1).dsq e = true :=
        (hO.sq (subEntries ls.t1 ls.conv.t)).symm.trans hle
      refine ⟨rr, hr, ?_⟩
      rw [hrv]
      rw [hsq, Bool.true_and] at hgo
      exact hgo)
    r1 r2 r3 (by rw [h.t1, h.ct]; exact h1) h1e (by rw [h.a]; exact h2) (by rw [h.ap]; exact h3) h3e
  exact ⟨_, hb, ⟨h3v, hut, hueps, hfv, h.iter, rfl, h.ct, h.ap, h.a, h.checkFreq, h.minIters, h.maxIters, h.t⟩⟩

theorem src_post (h : CInvS sqrtO n ct ap a e freq minI M fl nl tR s ls) :
    ∃ s2, Compute_src.loop1_post capO fuel sqrtO nanO infO s = .ok (s2, .next) ∧
      CInvS sqrtO n ct ap a e freq minI M fl nl tR s2 { ls with iter := ls.iter + 1 } := by
  refine ⟨{ s with iter := s.iter + 1 }, ?_, ⟨h.t1, h.convT, h.convE, h.ftc, ?_, h.err, h.ct, h.ap, h.a,
    h.checkFreq, h.minIters, h.maxIters, h.t⟩⟩
  · simp only [Compute_src.loop1_post, Stm.set, pure, Except.pure]
  · show s.iter + 1 = ((ls.iter + 1 : Nat) : Int)
    rw [h.iter]
    omega

theorem src_cond_eq (h : CInvS sqrtO n ct ap a e freq minI M fl nl tR s ls) :
    Compute_src.loop1_cond capO fuel sqrtO nanO infO s = .ok (decide ((ls.iter : Int) < M)) := by
  simp only [Compute_src.loop1_cond, pure, Except.pure, h.iter, h.maxIters]
end iter

/-! ### the loop -/

/-- what `k` turns of the Go loop from `s` deliver when the model's loop ends in `ls'` by `by_`: a normal end in a
    state satisfying the invariant for `ls'` (criteria, `maxIterations`), or `return nil, err` (non-finite). -/
def LoopGoal (capO : Nat → Int) (fuel : Nat) (sqrtO : α → α) (nanO infO : α → Bool)
    (n : Nat) (ct : CSM α) (ap : List (Entry α)) (a e : α) (freq minI : Nat) (M : Int) (fl nl : Nat)
    (tR : Option (GVector α)) (k : Nat) (s : Compute_src.St α) (ls' : LoopState α) (by_ : EndedBy) : Prop :=
  ((by_ = .criteria ∨ by_ = .maxIterations) → ∃ s',
    Stm.loop 1 (Compute_src.loop1_cond capO fuel sqrtO nanO infO) (Compute_src.loop1_body capO fuel sqrtO nanO infO)
      (Compute_src.loop1_post capO fuel sqrtO nanO infO) k s = .ok (s', .next) ∧
    CInvS sqrtO n ct ap a e freq minI M fl nl tR s' ls') ∧
  (by_ = .nonFinite → ∃ s' msg,
    Stm.loop 1 (Compute_src.loop1_cond capO fuel sqrtO nanO infO) (Compute_src.loop1_body capO fuel sqrtO nanO infO)
      (Compute_src.loop1_post capO fuel sqrtO nanO infO) k s = .ok (s', .ret (GVector.zero, some msg)))

/-- One turn of the Go loop whose condition holds, against the corresponding part of `computeLoop`
    (`R` is the model's recursive call, `key` what is known about the rest of the Go loop).
    `L` bounds the length of the checker's vector, `ct.rows.length + ap.length` that of every iterate after the
    first step: the fuel must cover the `SubVec` merge of the two. -/
theorem src_loop_turn (capO : Nat → Int) (fuel : Nat) (sqrtO : α → α) (nanO infO : α → Bool)
    {n : Nat} {ct : CSM α} {ap : List (Entry α)} {a e : α}
    {freq minI : Nat} {M : Int} {fl nl : Nat} {tR : Option (GVector α)} (L : Nat)
    (hO : OracleOK sqrtO nanO infO e)
    (hmaj : ct.major = n) (hmin : ct.minor = n)
    (hBL : ct.rows.length + ap.length + L ≤ fuel) (hB : ct.rows.length + ap.length ≤ L)
    (hnl : 0 < nl) (hminI : 0 < minI) (hap : ap ≠ [])
    (k : Nat) (s : Compute_src.St α) (ls : LoopState α)
    (hinv : CInvS sqrtO n ct ap a e freq minI M fl nl tR s ls)
    (hpos : 0 < ls.iter → ls.t1 ≠ [] ∧ ls.t1.length ≤ ct.rows.length + ap.length)
    (hcl : ls.conv.t.length ≤ L)
    (hc : Compute_src.loop1_cond capO fuel sqrtO nanO infO s = .ok true)
    (ls' : LoopState α) (by_ : EndedBy) (R : LoopState α → LoopState α × EndedBy)
    (key : ∀ (s1 : Compute_src.St α) (LS : LoopState α),
        CInvS sqrtO n ct ap a e freq minI M fl nl tR s1 LS → R LS = (ls', by_) →
        (LS.t1 ≠ [] ∧ LS.t1.length ≤ ct.rows.length + ap.length) → LS.conv.t.length ≤ L →
        LS.iter = ls.iter + 1 →
        LoopGoal capO fuel sqrtO nanO infO n ct ap a e freq minI M fl nl tR k s1 ls' by_)
    (h : (let checked := isCheck minI freq ls.iter
          let conv := if checked then ls.conv.update ls.t1 else ls.conv
          let stats := if checked then ls.stats.update (rankOf ls.t1 nl) conv.dsq else ls.stats
          let checks := if checked then ls.iter :: ls.checks else ls.checks
          let s' : LoopState α := { ls with conv := conv, stats := stats, checks := checks }
          if checked && nonFinite conv.dsq then (s', EndedBy.nonFinite)
          else if checked && Scalar.sqrtLe conv.dsq e && decide (stats.length ≥ fl) then (s', EndedBy.criteria)
          else R { s' with t1 := stepEntries ct.rows ap (Scalar.sub (Scalar.one : α) a) ls.t1,
                           iter := ls.iter + 1 }) = (ls', by_)) :
    LoopGoal capO fuel sqrtO nanO infO n ct ap a e freq minI M fl nl tR (k + 1) s ls' by_ := by
  have hlen : ct.rows.length + ap.length ≤ fuel := by omega
  have hstep : stepEntries ct.rows ap (Scalar.sub (Scalar.one : α) a) ls.t1 ≠ [] ∧
      (stepEntries ct.rows ap (Scalar.sub (Scalar.one : α) a) ls.t1).length ≤ ct.rows.length + ap.length :=
    ⟨stepEntries_ne_nil _ _ _ _ hap, stepEntries_length_le _ _ _ _⟩
  cases hck : isCheck minI freq ls.iter with
  | false =>
    simp only [hck, Bool.false_eq_true, if_false, Bool.false_and] at h
    obtain ⟨s1, hb, hi1⟩ := src_iter_nocheck capO fuel sqrtO nanO infO hinv hmaj hmin hlen hck
    obtain ⟨s2, hp, hi2⟩ := src_post capO fuel sqrtO nanO infO hi1
    have hk := key s2 _ hi2 h hstep hcl rfl
    unfold LoopGoal at hk ⊢
    rw [loop_step hc hb hp]
    exact hk
  | true =>
    have hiter : 0 < ls.iter := by
      have := (isCheck_true _ _ _ hck).2
      omega
    obtain ⟨hne, hl1⟩ := hpos hiter
    have hsub : ls.t1.length + ls.conv.t.length ≤ fuel := by omega
    simp only [hck, if_true, Bool.true_and] at h
    cases hnf : nonFinite (ls.conv.update ls.t1).dsq with
    | true =>
      simp only [hnf, if_true, Prod.mk.injEq] at h
      obtain ⟨_, rfl⟩ := h
      refine ⟨fun hh => (by rcases hh with hh | hh <;> cases hh), fun _ => ?_⟩
      obtain ⟨s', msg, hb⟩ := src_iter_nonfinite capO fuel sqrtO nanO infO hO hinv hsub hck hnf
      exact ⟨s', msg, loop_leave hc hb rfl⟩
    | false =>
      simp only [hnf, Bool.false_eq_true, if_false] at h
      split at h
      · rename_i hcrit
        simp only [Prod.mk.injEq] at h
        obtain ⟨rfl, rfl⟩ := h
        simp only [Bool.and_eq_true, decide_eq_true_eq] at hcrit
        refine ⟨fun _ => ?_, fun hh => (by cases hh)⟩
        obtain ⟨s1, hb, hi1⟩ := src_iter_break capO fuel sqrtO nanO infO hO hinv hsub hne hnl hck hnf
          hcrit.1 hcrit.2 (ls.iter :: ls.checks)
        exact ⟨s1, loop_brk hc hb, hi1⟩
      · rename_i hcrit
        have hgo := Bool.eq_false_iff.mpr hcrit
        obtain ⟨s1, hb, hi1⟩ := src_iter_check capO fuel sqrtO nanO infO hO hinv hsub hmaj hmin hlen hne hnl
          hck hnf hgo (ls.iter :: ls.checks)
        obtain ⟨s2, hp, hi2⟩ := src_post capO fuel sqrtO nanO infO hi1
        have hk := key s2 _ hi2 h hstep (by show ls.t1.length ≤ L; omega) rfl
        unfold LoopGoal at hk ⊢
        rw [loop_step hc hb hp]
        exact hk

/-- The Go loop follows `computeLoop`. -/
theorem Compute_src_loop (capO : Nat → Int) (fuel : Nat) (sqrtO : α → α) (nanO infO : α → Bool)
    {n : Nat} {ct : CSM α} {ap : List (Entry α)} {a e : α}
    {freq minI : Nat} (maxI : Option Nat) {fl nl : Nat} {tR : Option (GVector α)} (L : Nat)
    (hO : OracleOK sqrtO nanO infO e)
    (hmaj : ct.major = n) (hmin : ct.minor = n)
    (hBL : ct.rows.length + ap.length + L ≤ fuel) (hB : ct.rows.length + ap.length ≤ L)
    (hnl : 0 < nl) (hminI : 0 < minI) (hap : ap ≠ []) :
    ∀ (k : Nat) (s : Compute_src.St α) (ls : LoopState α),
      CInvS sqrtO n ct ap a e freq minI (goMax maxI) fl nl tR s ls →
      (0 < ls.iter → ls.t1 ≠ [] ∧ ls.t1.length ≤ ct.rows.length + ap.length) →
      ls.conv.t.length ≤ L →
      (maxI = none → ls.iter + k ≤ 9223372036854775807) →
      ∀ (ls' : LoopState α) (by_ : EndedBy),
        computeLoop ct.rows ap (Scalar.sub (Scalar.one : α) a) e minI freq maxI fl nl k ls = (ls', by_) →
        LoopGoal capO fuel sqrtO nanO infO n ct ap a e freq minI (goMax maxI) fl nl tR k s ls' by_ := by
  intro k
  induction k with
  | zero =>
    intro s ls hinv hpos hcl hk ls' by_ h
    simp only [computeLoop, Prod.mk.injEq] at h
    obtain ⟨rfl, rfl⟩ := h
    exact ⟨fun hh => (by rcases hh with hh | hh <;> cases hh), fun hh => (by cases hh)⟩
  | succ k ih =>
    intro s ls hinv hpos hcl hk ls' by_ h
    have key : ∀ (s1 : Compute_src.St α) (LS : LoopState α),
        CInvS sqrtO n ct ap a e freq minI (goMax maxI) fl nl tR s1 LS →
        computeLoop ct.rows ap (Scalar.sub (Scalar.one : α) a) e minI freq maxI fl nl k LS = (ls', by_) →
        (LS.t1 ≠ [] ∧ LS.t1.length ≤ ct.rows.length + ap.length) → LS.conv.t.length ≤ L →
        LS.iter = ls.iter + 1 →
        LoopGoal capO fuel sqrtO nanO infO n ct ap a e freq minI (goMax maxI) fl nl tR k s1 ls' by_ :=
      fun s1 LS hi hLS h1 h2 h3 => ih s1 LS hi (fun _ => h1) h2
        (fun hm => by have := hk hm; omega) ls' by_ hLS
    have hc0 := src_cond_eq capO fuel sqrtO nanO infO hinv
    cases maxI with
    | none =>
      simp only [computeLoop, Bool.false_eq_true, if_false] at h
      have hc : Compute_src.loop1_cond capO fuel sqrtO nanO infO s = .ok true := by
        rw [hc0]
        have := hk rfl
        have : (ls.iter : Int) < 9223372036854775807 := by omega
        simp only [goMax, this, decide_true]
      exact src_loop_turn capO fuel sqrtO nanO infO L hO hmaj hmin hBL hB hnl hminI hap k s ls hinv hpos hcl
        hc ls' by_ _ key h
    | some m =>
      simp only [computeLoop] at h
      split at h
      · -- `iter < maxIters` is false
        rename_i hmax
        simp only [Prod.mk.injEq] at h
        obtain ⟨rfl, rfl⟩ := h
        have hc : Compute_src.loop1_cond capO fuel sqrtO nanO infO s = .ok false := by
          rw [hc0]
          simp only [decide_eq_true_eq] at hmax
          have : ¬ ((ls.iter : Int) < (m : Int)) := by omega
          simp only [goMax, this, decide_false]
        refine ⟨fun _ => ⟨s, loop_exit hc, hinv⟩, fun hh => (by cases hh)⟩
      · rename_i hmax
        have hc : Compute_src.loop1_cond capO fuel sqrtO nanO infO s = .ok true := by
          rw [hc0]
          simp only [decide_eq_true_eq] at hmax
          have : (ls.iter : Int) < (m : Int) := by omega
          simp only [goMax, this, decide_true]
        exact src_loop_turn capO fuel sqrtO nanO infO L hO hmaj hmin hBL hB hnl hminI hap k s ls hinv hpos
          hcl hc ls' by_ _ key h

/-! ### the body of the translated function: validation and preparation, statement by statement -/

/-- The state in which `Compute_src` enters its loop: as `CStart`, the checker being the source one
    (previous vector = the initial trust, sentinel delta `2·e`, iteration counter 0). -/
structure CStartS (c : CSM α) (p : Vec α) (a e : α) (o : ComputeOpts α) (tRes : Option (Vec α)) (n : Nat)
    (S : Compute_src.St α) : Prop where
  t1 : S.t1 = toGV (o.t0.getD p)
  conv : S.convChecker =
    { iter := 0, t := toGV (o.t0.getD p), d := Scalar.mul (Scalar.ofNat 2) e, e := e }
  ftc : S.flatTailChecker = ⟨(o.flatTail : Int), ((if o.numLeaders = 0 then n else o.numLeaders : Nat) : Int),
    some (toGStats FlatTailStats.init)⟩
  iter : S.iter = 0
  err : S.err = none
  ct : S.ct = toGM c.transpose
  ap : S.ap = toGV (Vec.scale a p)
  a : S.a = a
  checkFreq : S.checkFreq = o.checkFreq.getD 1
  minIters : S.minIters = o.minIterations.getD (o.checkFreq.getD 1)
  maxIters : S.maxIters =
    if o.maxIterations.getD 0 = 0 then 9223372036854775807 else o.maxIterations.getD 0
  t : S.t = tRes.map toGV

/-- the initial state of `Compute_src` (as in `Gen.Compute_src`). -/
def initStS (c : CSM α) (p : Vec α) (a e : α) (o : ComputeOpts α) (tRes : Option (Vec α))
    (gs : Option (GFlatTailStats α)) : Compute_src.St α :=
  { c := toGM c, p := toGV p, a := a, e := e, o := toGOpts o tRes gs, t0 := (none : (Option (GVector α))), t := (none : (Option (GVector α))), flatTail := (0 : Int), numLeaders := (0 : Int), n := (0 : Int), err := (none : Option GoError), t1 := (GVector.zero : GVector α), ct := (GCSMatrix.zero : GCSMatrix α), ap := (GVector.zero : GVector α), checkFreq := (0 : Int), maxIters := (0 : Int), minIters := (0 : Int), convChecker := (GConvergenceCheckerSrc.zero : GConvergenceCheckerSrc α), flatTailChecker := (GFlatTailChecker.zero : GFlatTailChecker α), iter := (0 : Int), flatTailStats := (GFlatTailStats.zero : GFlatTailStats α) }

theorem Compute_src_eq_run (capO : Nat → Int) (fuel : Nat) (sqrtO : α → α) (nanO infO : α → Bool)
    (c : CSM α) (p : Vec α) (a e : α) (o : ComputeOpts α) (tRes : Option (Vec α))
    (gs : Option (GFlatTailStats α)) :
    Gen.Compute_src capO fuel sqrtO nanO infO (toGM c) (toGV p) a e (toGOpts o tRes gs) =
      Stm.run (Compute_src.body capO fuel sqrtO nanO infO) ((GVector.zero : GVector α), (none : Option GoError))
        (initStS c p a e o tRes gs) := rfl

local macro "cstep" "[" ls:Lean.Parser.Tactic.simpLemma,* "]" : tactic =>
  `(tactic| (refine P_congr (seq_next (s1 := ?s1) ?h) ?rest
             case h => (simp only [Stm.set, pure, Except.pure, bind, Except.bind, toGOpts, $ls,*]; rfl)))

/-- Case analysis of the body of the translated `Compute` (every statement before the loop executed
    symbolically): either `c.Dim()` fails and the body returns `nil, err`; or a validation fails (`Refusal`,
    the model's conditions in the model's order) and the body returns `nil, err`; or every validation passes
    and the body is the loop, started in a state described by `CStart`, followed by an epilogue `K` that
    returns the current iterate (assigned into the `WithResultIn` vector, if any) and the flat-tail statistics. -/
theorem Compute_src_body_elim (capO : Nat → Int) (fuel : Nat) (sqrtO : α → α) (nanO infO : α → Bool) (c : CSM α) (p : Vec α) (a e : α)
    (o : ComputeOpts α) (tRes : Option (Vec α)) (gs : Option (GFlatTailStats α))
    (hres : o.resultDim = tRes.map (·.dim))
    (hcols : c.colsInRange = true)
    {P : R (Compute_src.St α × Ctl (GVector α × Option GoError)) → Prop}
    (h_dim : ∀ er st msg, c.dim = .error er → P (.ok (st, .ret (GVector.zero, some msg))))
    (h_val : ∀ n st msg, c.dim = .ok n → Refusal p a e o n → P (.ok (st, .ret (GVector.zero, some msg))))
    (h_run : ∀ n (K : Stm (Compute_src.St α) (GVector α × Option GoError)) (S : Compute_src.St α),
      c.dim = .ok n → Valid p a e o n → CStartS c p a e o tRes n S →
      (∀ (S' : Compute_src.St α) (g : GFlatTailStats α) (v : Vec α), S'.t = tRes.map toGV →
        S'.flatTailChecker.stats = some g → S'.t1 = toGV v →
        ∃ st, K S' = .ok (st, .ret (toGV v, none)) ∧ st.flatTailStats = g) →
      P (Stm.seq (Stm.loop 1 (Compute_src.loop1_cond capO fuel sqrtO nanO infO) (Compute_src.loop1_body capO fuel sqrtO nanO infO)
        (Compute_src.loop1_post capO fuel sqrtO nanO infO) fuel) K S)) :
    P (Compute_src.body capO fuel sqrtO nanO infO (initStS c p a e o tRes gs)) := by
  unfold Compute_src.body initStS
  cstep []
  cstep []
  cstep []
  cstep []
  -- n, err := c.Dim()
  have hD0 := CSMatrix_Dim_refines c
  cases hdim : c.dim with
  | error er =>
    simp only [hdim] at hD0
    obtain ⟨rd, hD, hrd⟩ := map_eq_ok hD0
    cstep [hD, hrd]
    refine P_congr (seq_ite_ret rfl rfl) ?_
    exact h_dim er _ _ hdim
  | ok n =>
    simp only [hdim] at hD0
    obtain ⟨rd, hD, hrd⟩ := map_eq_ok hD0
    cstep [hD, hrd]
    refine P_congr (seq_ite_pass rfl) ?_
    -- if n == 0
    by_cases hn0 : n = 0
    · refine P_congr (seq_ite_ret (by simp only [hn0, pure, Except.pure]; rfl) rfl) ?_
      exact h_val n _ _ hdim (Or.inl hn0)
    have hn0' : ¬ ((n : Int) = 0) := by omega
    refine P_congr (seq_ite_pass (by simp only [hn0', decide_false, pure, Except.pure])) ?_
    -- dimension checks
    by_cases hdims : dimBad p o n = true
    · refine P_congr (seq_ite_ret (v := (GVector.zero, some ⟨"ErrDimensionMismatch"⟩)) ?_ rfl) ?_
      · have hdims' := hdims
        simp only [dimBad] at hdims'
        rw [hres] at hdims'
        rcases ho : o.t0 with _ | t0v <;> rcases tRes with _ | tv <;>
          simp [ho, goDeref, pure, Except.pure, bind, Except.bind, Int.natCast_inj] at hdims' ⊢
        all_goals (by_cases h1 : p.dim = n <;> simp_all)
        intro h2
        rcases hdims' with h | h
        · exact absurd h2 h
        · exact h
      · exact h_val n _ _ hdim (Or.inr (Or.inl hdims))
    have hdims' := hdims
    simp only [dimBad] at hdims'
    have hpn : p.dim = n := by
      simp only [Bool.or_eq_true, decide_eq_true_eq, not_or] at hdims'
      exact Classical.not_not.mp hdims'.1.1
    have ht0n : (o.t0.getD p).dim = n := by
      simp only [Bool.or_eq_true, decide_eq_true_eq, not_or] at hdims'
      rcases ho : o.t0 with _ | t0v
      · exact hpn
      · have := hdims'.1.2
        simp only [ho, decide_eq_true_eq, ne_eq, Classical.not_not] at this
        exact this
    have htn : ∀ tv, tRes = some tv → tv.dim = n := by
      intro tv htv
      simp only [Bool.or_eq_true, decide_eq_true_eq, not_or] at hdims'
      have := hdims'.2
      simp only [hres, htv, Option.map_some, decide_eq_true_eq, ne_eq, Classical.not_not] at this
      exact this
    refine P_congr (seq_ite_pass ?_) ?_
    · have ht0n' : ∀ t0v, o.t0 = some t0v → t0v.dim = n := by
        intro t0v ho
        simpa only [ho, Option.getD_some] using ht0n
      rcases ho : o.t0 with _ | t0v <;> rcases htr : tRes with _ | tv <;>
        simp [goDeref, pure, Except.pure, bind, Except.bind, Int.natCast_inj, hpn]
      · exact htn _ htr
      · exact ht0n' _ ho
      · simp [ht0n' _ ho, htn _ htr]
    -- alpha, epsilon
    by_cases halpha : (Scalar.lt a Scalar.zero || Scalar.lt Scalar.one a) = true
    · refine P_congr (seq_ite_ret (by simp only [halpha, pure, Except.pure]) rfl) ?_
      exact h_val n _ _ hdim (Or.inr (Or.inr (Or.inl halpha)))
    refine P_congr (seq_ite_pass (by simp only [Bool.eq_false_iff.mpr halpha, pure, Except.pure])) ?_
    by_cases heps : Scalar.le e Scalar.zero = true
    · refine P_congr (seq_ite_ret (by simp only [heps, pure, Except.pure]) rfl) ?_
      exact h_val n _ _ hdim (Or.inr (Or.inr (Or.inr (Or.inl heps))))
    refine P_congr (seq_ite_pass (by simp only [Bool.eq_false_iff.mpr heps, pure, Except.pure])) ?_
    -- numLeaders, t0
    refine P_congr (seq_stepF
      (fun S => { S with numLeaders := ((if o.numLeaders = 0 then n else o.numLeaders : Nat) : Int) }) ?_) ?_
    · by_cases hnl0 : o.numLeaders = 0
      · simp [Stm.ite, Stm.set, pure, Except.pure, hnl0]
      · have : ¬ ((o.numLeaders : Int) = 0) := by omega
        simp only [Stm.ite, Stm.skip, pure, Except.pure, hnl0, this, decide_false, if_false]
    refine P_congr (seq_stepF (fun S => { S with t0 := some (toGV (o.t0.getD p)) }) ?_) ?_
    · rcases o.t0 with _ | t0v <;> simp [Stm.ite, Stm.set, Stm.skip, pure, Except.pure]
    cstep [goDeref_some, Vector_Clone_eq]
    obtain ⟨rt, hT, hrt⟩ := map_eq_ok (CSMatrix_Transpose_refines c hcols)
    cstep [hT, hrt]
    refine P_congr (seq_ite_pass rfl) ?_
    cstep []
    obtain ⟨rs, hS, hrs⟩ := map_eq_ok (Vector_ScaleVec_refines
      ({ Dim := (0 : Int), Entries := [] } : GVector α) a p false (by simp))
    cstep [hS, hrs]
    -- checkFreq
    cstep []
    refine P_congr (seq_stepF (fun S => { S with checkFreq := o.checkFreq.getD 1 }) ?_) ?_
    · rcases o.checkFreq with _ | v <;> simp [Stm.ite, Stm.set, Stm.skip, pure, Except.pure, goDeref, bind,
        Except.bind]
    by_cases hfreq : o.checkFreq.getD 1 < 1
    · refine P_congr (seq_ite_ret (by simp only [hfreq, decide_true, pure, Except.pure]) rfl) ?_
      exact h_val n _ _ hdim (Or.inr (Or.inr (Or.inr (Or.inr (Or.inl hfreq)))))
    refine P_congr (seq_ite_pass (by simp only [hfreq, decide_false, pure, Except.pure])) ?_
    -- maxIters
    cstep []
    refine P_congr (seq_stepF (fun S => { S with maxIters := o.maxIterations.getD 0 }) ?_) ?_
    · rcases o.maxIterations with _ | v <;> simp [Stm.ite, Stm.set, Stm.skip, pure, Except.pure, goDeref, bind,
        Except.bind]
    by_cases hmaxI : o.maxIterations.getD 0 < 0
    · refine P_congr (seq_ite_ret (by simp only [hmaxI, decide_true, pure, Except.pure]) rfl) ?_
      exact h_val n _ _ hdim (Or.inr (Or.inr (Or.inr (Or.inr (Or.inr (Or.inl hmaxI))))))
    refine P_congr (seq_ite_pass (by simp only [hmaxI, decide_false, pure, Except.pure])) ?_
    refine P_congr (seq_stepF (fun S =>
      { S with
        maxIters := if o.maxIterations.getD 0 = 0 then 9223372036854775807 else o.maxIterations.getD 0 })
      ?_) ?_
    · by_cases hm0 : o.maxIterations.getD 0 = 0
      · simp [Stm.ite, Stm.set, pure, Except.pure, hm0]
      · simp only [Stm.ite, Stm.skip, pure, Except.pure, hm0, decide_false, if_false]
    -- minIters
    cstep []
    refine P_congr (seq_stepF
      (fun S => { S with minIters := o.minIterations.getD (o.checkFreq.getD 1) }) ?_) ?_
    · rcases o.minIterations with _ | v <;> simp [Stm.ite, Stm.set, Stm.skip, pure, Except.pure, goDeref, bind,
        Except.bind]
    by_cases hminI : o.minIterations.getD (o.checkFreq.getD 1) ≤ 0
    · refine P_congr (seq_ite_ret (by simp only [hminI, decide_true, pure, Except.pure]) rfl) ?_
      exact h_val n _ _ hdim (Or.inr (Or.inr (Or.inr (Or.inr (Or.inr (Or.inr hminI))))))
    refine P_congr (seq_ite_pass (by simp only [hminI, decide_false, pure, Except.pure])) ?_
    -- checkers, iter
    obtain ⟨rc, hC, hrc⟩ := map_eq_ok (NewConvergenceChecker_src_refines (o.t0.getD p) e)
    cstep [goDeref_some, hC, hrc]
    obtain ⟨rn, hN, hrn⟩ := map_eq_ok (NewFlatTailChecker_refines (o.flatTail : Int)
      ((if o.numLeaders = 0 then n else o.numLeaders : Nat) : Int) gs)
    cstep [hN, hrn]
    cstep []
    -- the loop and the epilogue
    refine h_run n _ _ hdim ⟨hn0, hdims, halpha, heps, hfreq, hmaxI, hminI⟩
      ⟨rfl, rfl, rfl, rfl, rfl, rfl, rfl, rfl, rfl, rfl, rfl, rfl⟩ ?_
    intro S' g v h1 h2 h3
    obtain ⟨rst, hSt, hst⟩ := map_eq_ok (FlatTailChecker_Stats_refines S'.flatTailChecker g h2)
    refine ⟨{ S' with flatTailStats := g, t := some (toGV v) }, ?_, rfl⟩
    refine (seq_next (s1 := { S' with flatTailStats := g }) ?_).trans ?_
    · simp only [Stm.set, pure, Except.pure, bind, Except.bind, hSt, hst]
    refine (seq_next (s1 := { S' with flatTailStats := g, t := some (toGV v) }) ?_).trans ?_
    · rcases tRes with _ | tv <;>
        simp [Stm.ite, Stm.set, pure, Except.pure, goDeref, bind, Except.bind, Vector_Assign_eq, h1, h3]
    · simp [Stm.ret, goDeref, pure, Except.pure, bind, Except.bind]

/-! ### (A), (B): `Compute_src` against the model's `compute` -/

/-- what the body of `Compute_src` must deliver, given the model's result `M`. -/
def SpecS (sqrtO : α → α) (M : Except SErr (ComputeResult α))
    (x : R (Compute_src.St α × Ctl (GVector α × Option GoError))) : Prop :=
  (∀ r, M = .ok r → r.endedBy ≠ .outOfFuel →
    ∃ st, x = .ok (st, .ret (toGV r.t, none)) ∧ st.flatTailStats = toGStatsSrc sqrtO r.stats) ∧
  (∀ er, M = .error er → ∃ st msg, x = .ok (st, .ret (GVector.zero, some msg)))

theorem SpecS_refuse {sqrtO : α → α} {M : Except SErr (ComputeResult α)} {st : Compute_src.St α} {msg : GoError}
    (hno : ∀ r, M ≠ .ok r) : SpecS sqrtO M (.ok (st, .ret (GVector.zero, some msg))) :=
  ⟨fun r hr _ => absurd hr (hno r), fun _ _ => ⟨st, msg, rfl⟩⟩

theorem Compute_src_body_spec (capO : Nat → Int) (fuel : Nat) (sqrtO : α → α) (nanO infO : α → Bool)
    (c : CSM α) (p : Vec α) (a e : α) (hO : OracleOK sqrtO nanO infO e)
    (o : ComputeOpts α) (tRes : Option (Vec α)) (gs : Option (GFlatTailStats α))
    (hres : o.resultDim = tRes.map (·.dim))
    (hcols : c.colsInRange = true)
    (hap : (Vec.scale a p).entries ≠ [])
    (hfuel : c.major + p.entries.length +
      max (c.major + p.entries.length) (o.t0.getD p).entries.length ≤ fuel)
    (hfuel63 : fuel < 9223372036854775807) :
    SpecS sqrtO (compute fuel c p a e o)
      (Compute_src.body capO fuel sqrtO nanO infO (initStS c p a e o tRes gs)) := by
  refine Compute_src_body_elim capO fuel sqrtO nanO infO c p a e o tRes gs hres hcols ?_ ?_ ?_
  · intro er st msg hdim
    exact SpecS_refuse (fun r hr => by rw [compute_dim_err hdim] at hr; cases hr)
  · intro n st msg hdim href
    exact SpecS_refuse (fun r hr => (compute_ok_inv hdim hr).1.not_refusal href)
  · intro n K S hdim hv hS hK
    have hmm : c.major = c.minor ∧ c.major = n := by
      simp only [CSM.dim] at hdim
      split at hdim
      · cases hdim
      · rename_i h
        exact ⟨Classical.not_not.mp h, Except.ok.inj hdim⟩
    have hdims' := hv.dims
    simp only [dimBad, Bool.or_eq_true, decide_eq_true_eq, not_or] at hdims'
    have hpn : p.dim = n := Classical.not_not.mp hdims'.1.1
    have ht0n : (o.t0.getD p).dim = n := by
      rcases ho : o.t0 with _ | t0v
      · exact hpn
      · have := hdims'.1.2
        simp only [ho, decide_eq_true_eq, ne_eq, Classical.not_not] at this
        exact this
    have hfreq := hv.freq
    have hmaxI := hv.maxI
    have hminI := hv.minI
    have hn0 := hv.n0
    have hsl := scale_entries_length_le a p
    have htr := transpose_rows_length c
    have hBL : c.transpose.rows.length + (Vec.scale a p).entries.length +
        max (c.major + p.entries.length) (o.t0.getD p).entries.length ≤ fuel := by omega
    have hB : c.transpose.rows.length + (Vec.scale a p).entries.length ≤
        max (c.major + p.entries.length) (o.t0.getD p).entries.length := by omega
    have hnl : 0 < (if o.numLeaders = 0 then n else o.numLeaders) := by
      split <;> omega
    have hinv : CInvS sqrtO n c.transpose (Vec.scale a p).entries a e (o.checkFreq.getD 1).toNat
        (o.minIterations.getD (o.checkFreq.getD 1)).toNat
        (goMax (if o.maxIterations.getD 0 = 0 then none else some (o.maxIterations.getD 0).toNat))
        o.flatTail (if o.numLeaders = 0 then n else o.numLeaders) (tRes.map toGV) S
        { t1 := (o.t0.getD p).entries, iter := 0, conv := ⟨(o.t0.getD p).entries, Scalar.zero⟩,
          stats := FlatTailStats.init, checks := [] } := by
      refine ⟨?_, ?_, ?_, hS.ftc, hS.iter, hS.err, hS.ct, ?_, hS.a, ?_, ?_, ?_, hS.t⟩
      · rw [hS.t1, ← ht0n]
      · rw [hS.conv, ← ht0n]
      · rw [hS.conv]
      · rw [hS.ap, ← hpn, ← scale_dim a p]
      · rw [hS.checkFreq]; omega
      · rw [hS.minIters]; omega
      · rw [hS.maxIters]
        by_cases hm0 : o.maxIterations.getD 0 = 0
        · simp only [hm0, if_true, goMax]
        · have : ((o.maxIterations.getD 0).toNat : Int) = o.maxIterations.getD 0 := by omega
          simp only [hm0, if_false, goMax, this]
    cases hcl : modelLoop fuel c p a e o n with
    | mk ls' by_ =>
    have hloop := Compute_src_loop capO fuel sqrtO nanO infO (ct := c.transpose)
      (ap := (Vec.scale a p).entries) (a := a) (e := e)
      (freq := (o.checkFreq.getD 1).toNat) (minI := (o.minIterations.getD (o.checkFreq.getD 1)).toNat)
      (if o.maxIterations.getD 0 = 0 then none else some (o.maxIterations.getD 0).toNat)
      (fl := o.flatTail) (nl := (if o.numLeaders = 0 then n else o.numLeaders)) (n := n)
      (tR := tRes.map toGV) (max (c.major + p.entries.length) (o.t0.getD p).entries.length) hO
      (by show c.minor = n; omega) (by show c.major = n; omega) hBL hB hnl (by omega) hap fuel S _ hinv
      (fun h => absurd h (Nat.lt_irrefl 0)) (by show (o.t0.getD p).entries.length ≤ _; omega)
      (fun _ => by simp only [Nat.zero_add]; omega) ls' by_ hcl
    have hres_of_ok : ∀ r, compute fuel c p a e o = .ok r → by_ ≠ .nonFinite ∧
        r = ⟨⟨n, ls'.t1⟩, ls'.iter, ls'.stats, ls'.checks.reverse, by_⟩ := by
      intro r hr
      obtain ⟨_, h2, h3⟩ := compute_ok_inv hdim hr
      rw [hcl] at h2 h3
      exact ⟨h2, h3⟩
    have hnoerr : by_ ≠ .nonFinite → ∀ er, compute fuel c p a e o ≠ .error er := by
      intro hb er hr
      rcases compute_err_inv hdim hr with h | h
      · exact hv.not_refusal h
      · rw [hcl] at h
        exact hb h
    by_cases hby : by_ = .criteria ∨ by_ = .maxIterations
    · obtain ⟨s', hl, hi'⟩ := hloop.1 hby
      refine P_congr (seq_next hl) ?_
      obtain ⟨st, hKeq, hfs⟩ := hK s' (toGStats (srcStats sqrtO ls'.stats)) ⟨n, ls'.t1⟩ hi'.t
        (by rw [hi'.ftc]) hi'.t1
      refine P_congr hKeq ?_
      refine ⟨fun r hr _ => ?_, fun er hr =>
        absurd hr (hnoerr (by rcases hby with h | h <;> rw [h] <;> decide) er)⟩
      obtain ⟨_, rfl⟩ := hres_of_ok r hr
      exact ⟨st, rfl, hfs⟩
    cases by_ with
    | criteria => exact absurd (Or.inl rfl) hby
    | maxIterations => exact absurd (Or.inr rfl) hby
    | outOfFuel =>
      refine ⟨fun r hr hend => ?_, fun er hr => absurd hr (hnoerr (by decide) er)⟩
      obtain ⟨_, rfl⟩ := hres_of_ok r hr
      exact absurd rfl hend
    | nonFinite =>
      obtain ⟨s1, msg, h⟩ := hloop.2 rfl
      exact P_congr (seq_ret h) (SpecS_refuse (fun r hr => (hres_of_ok r hr).1 rfl))

/-- (A) A run of the model that ends properly (by the criteria or by `maxIterations`) is computed exactly by
    `Compute_src` — the translated Go code calling the convergence checker translated from the source — when the
    oracles agree with the model on sums of squares (`OracleOK`): same trust vector, no error, the model's flat-tail
    statistics with the delta under the root (`toGStatsSrc`: length, threshold and ranking are the model's;
    `DeltaNorm` is `sqrtO` of the model's squared delta once a ranking has been recorded, and the initial `1` before).
    `_partial`: (1) as `Compute_refines_ok_partial`, the hypothesis `hfuel63 : fuel < 2^63-1`;
    (2) the fuel hypothesis is stronger than `c.major + p.entries.length ≤ fuel`: the same `fuel` also bounds the
    merge loop of the `SubVec` inside `ConvergenceChecker.Update`, which runs over the current iterate (at most
    `c.major + p.entries.length` entries) and the previously checked vector (an earlier iterate, or the initial
    trust).  With less fuel `Compute_src` can end with the fuel error while the model succeeds. -/
theorem Compute_src_refines_ok_sq_partial (capO : Nat → Int) (fuel : Nat) (sqrtO : α → α) (nanO infO : α → Bool)
    (c : CSM α) (p : Vec α) (a e : α) (hO : OracleOK sqrtO nanO infO e)
    (o : ComputeOpts α) (tRes : Option (Vec α)) (gs : Option (GFlatTailStats α))
    (hres : o.resultDim = tRes.map (·.dim))
    (hcols : c.colsInRange = true)
    (hap : (Vec.scale a p).entries ≠ [])
    (r : ComputeResult α) (hr : compute fuel c p a e o = .ok r) (hend : r.endedBy ≠ .outOfFuel)
    (hfuel : c.major + p.entries.length +
      max (c.major + p.entries.length) (o.t0.getD p).entries.length ≤ fuel)
    (hfuel63 : fuel < 9223372036854775807) :
    (Gen.Compute_src capO fuel sqrtO nanO infO (toGM c) (toGV p) a e (toGOpts o tRes gs)).map
        (fun x => (x.2, x.1.flatTailStats)) = .ok ((toGV r.t, none), toGStatsSrc sqrtO r.stats) := by
  obtain ⟨st, h1, h2⟩ :=
    (Compute_src_body_spec capO fuel sqrtO nanO infO c p a e hO o tRes gs hres hcols hap hfuel hfuel63).1
      r hr hend
  rw [Compute_src_eq_run]
  simp only [Stm.run, h1, Except.map, h2]

/-- (B) Whenever the model refuses (validation error, or a non-finite delta), `Compute_src` returns a nil vector
    and an error; it never panics.  `_partial`: hypotheses as in (A). -/
theorem Compute_src_refines_err_sq_partial (capO : Nat → Int) (fuel : Nat) (sqrtO : α → α) (nanO infO : α → Bool)
    (c : CSM α) (p : Vec α) (a e : α) (hO : OracleOK sqrtO nanO infO e)
    (o : ComputeOpts α) (tRes : Option (Vec α)) (gs : Option (GFlatTailStats α))
    (hres : o.resultDim = tRes.map (·.dim))
    (hcols : c.colsInRange = true)
    (hap : (Vec.scale a p).entries ≠ [])
    (er : SErr) (hr : compute fuel c p a e o = .error er)
    (hfuel : c.major + p.entries.length +
      max (c.major + p.entries.length) (o.t0.getD p).entries.length ≤ fuel)
    (hfuel63 : fuel < 9223372036854775807) :
    ∃ st msg, Gen.Compute_src capO fuel sqrtO nanO infO (toGM c) (toGV p) a e (toGOpts o tRes gs) =
      .ok (st, (GVector.zero, some msg)) := by
  obtain ⟨st, msg, h1⟩ :=
    (Compute_src_body_spec capO fuel sqrtO nanO infO c p a e hO o tRes gs hres hcols hap hfuel hfuel63).2
      er hr
  refine ⟨st, msg, ?_⟩
  rw [Compute_src_eq_run]
  simp only [Stm.run, h1]

/-- (A) under the oracle hypotheses quantified over every scalar (`hnf`, `hsq`); see
    `Compute_src_refines_ok_sq_partial` for the `_partial` (fuel) and for the weaker hypothesis `OracleOK`. -/
theorem Compute_src_refines_ok_partial (capO : Nat → Int) (fuel : Nat) (sqrtO : α → α) (nanO infO : α → Bool)
    (hnf : ∀ x : α, (nanO (sqrtO x) || infO (sqrtO x)) = nonFinite x)
    (hsq : ∀ x e : α, Scalar.le (sqrtO x) e = Scalar.sqrtLe x e)
    (c : CSM α) (p : Vec α) (a e : α)
    (o : ComputeOpts α) (tRes : Option (Vec α)) (gs : Option (GFlatTailStats α))
    (hres : o.resultDim = tRes.map (·.dim))
    (hcols : c.colsInRange = true)
    (hap : (Vec.scale a p).entries ≠ [])
    (r : ComputeResult α) (hr : compute fuel c p a e o = .ok r) (hend : r.endedBy ≠ .outOfFuel)
    (hfuel : c.major + p.entries.length +
      max (c.major + p.entries.length) (o.t0.getD p).entries.length ≤ fuel)
    (hfuel63 : fuel < 9223372036854775807) :
    (Gen.Compute_src capO fuel sqrtO nanO infO (toGM c) (toGV p) a e (toGOpts o tRes gs)).map
        (fun x => (x.2, x.1.flatTailStats)) = .ok ((toGV r.t, none), toGStatsSrc sqrtO r.stats) :=
  Compute_src_refines_ok_sq_partial capO fuel sqrtO nanO infO c p a e (OracleOK.of_forall hnf hsq e) o tRes gs hres
    hcols hap r hr hend hfuel hfuel63

/-- (B) under the oracle hypotheses quantified over every scalar. -/
theorem Compute_src_refines_err_partial (capO : Nat → Int) (fuel : Nat) (sqrtO : α → α) (nanO infO : α → Bool)
    (hnf : ∀ x : α, (nanO (sqrtO x) || infO (sqrtO x)) = nonFinite x)
    (hsq : ∀ x e : α, Scalar.le (sqrtO x) e = Scalar.sqrtLe x e)
    (c : CSM α) (p : Vec α) (a e : α)
    (o : ComputeOpts α) (tRes : Option (Vec α)) (gs : Option (GFlatTailStats α))
    (hres : o.resultDim = tRes.map (·.dim))
    (hcols : c.colsInRange = true)
    (hap : (Vec.scale a p).entries ≠ [])
    (er : SErr) (hr : compute fuel c p a e o = .error er)
    (hfuel : c.major + p.entries.length +
      max (c.major + p.entries.length) (o.t0.getD p).entries.length ≤ fuel)
    (hfuel63 : fuel < 9223372036854775807) :
    ∃ st msg, Gen.Compute_src capO fuel sqrtO nanO infO (toGM c) (toGV p) a e (toGOpts o tRes gs) =
      .ok (st, (GVector.zero, some msg)) :=
  Compute_src_refines_err_sq_partial capO fuel sqrtO nanO infO c p a e (OracleOK.of_forall hnf hsq e) o tRes gs hres
    hcols hap er hr hfuel hfuel63

/-- (B), validation part, without oracle, `hap` or fuel hypotheses: a failing `c.Dim()` or a failing validation
    makes `Compute_src` return a nil vector and an error. -/
theorem Compute_src_refuses_validation (capO : Nat → Int) (fuel : Nat) (sqrtO : α → α) (nanO infO : α → Bool)
    (c : CSM α) (p : Vec α) (a e : α)
    (o : ComputeOpts α) (tRes : Option (Vec α)) (gs : Option (GFlatTailStats α))
    (hres : o.resultDim = tRes.map (·.dim))
    (hcols : c.colsInRange = true)
    (h : (∃ er, c.dim = .error er) ∨ ∃ n, c.dim = .ok n ∧ Refusal p a e o n) :
    ∃ st msg, Gen.Compute_src capO fuel sqrtO nanO infO (toGM c) (toGV p) a e (toGOpts o tRes gs) =
      .ok (st, (GVector.zero, some msg)) := by
  have key : ∃ st msg, Compute_src.body capO fuel sqrtO nanO infO (initStS c p a e o tRes gs) =
      .ok (st, .ret (GVector.zero, some msg)) := by
    refine Compute_src_body_elim capO fuel sqrtO nanO infO c p a e o tRes gs hres hcols
      (P := fun x => ∃ st msg, x = .ok (st, .ret (GVector.zero, some msg))) ?_ ?_ ?_
    · intro er st msg _
      exact ⟨st, msg, rfl⟩
    · intro n st msg _ _
      exact ⟨st, msg, rfl⟩
    · intro n K S hdim hv _ _
      rcases h with ⟨er, h⟩ | ⟨n', h, hr⟩
      · rw [hdim] at h; cases h
      · rw [hdim] at h
        cases h
        exact absurd hr hv.not_refusal
  obtain ⟨st, msg, h1⟩ := key
  refine ⟨st, msg, ?_⟩
  rw [Compute_src_eq_run]
  simp only [Stm.run, h1]

/-! ### the statistics in the shape "`DeltaNorm` is the root of the model's squared delta" -/

/-- what the model's statistics satisfy as long as no ranking has been recorded: the delta is the initial `1`. -/
def StatsFresh (s : FlatTailStats α) : Prop := s.ranking = none → s.deltaSq = Scalar.one

theorem StatsFresh_update (s : FlatTailStats α) (rk : List Nat) (d : α) : StatsFresh (s.update rk d) := by
  intro hr
  by_cases heq : s.ranking = some rk
  · simp [FlatTailStats.update, heq] at hr
  · simp [FlatTailStats.update, heq] at hr

theorem computeLoop_StatsFresh (ct : List (Row α)) (ap : List (Entry α)) (x e : α) (minI freq : Nat)
    (maxI : Option Nat) (fl nl : Nat) :
    ∀ (k : Nat) (ls : LoopState α), StatsFresh ls.stats →
      StatsFresh (computeLoop ct ap x e minI freq maxI fl nl k ls).1.stats := by
  intro k
  induction k with
  | zero => intro ls h; exact h
  | succ k ih =>
    intro ls h
    have hu := StatsFresh_update ls.stats (rankOf ls.t1 nl) (ls.conv.update ls.t1).dsq
    unfold computeLoop
    cases hck : isCheck minI freq ls.iter <;>
      simp only [if_true, if_false, Bool.false_eq_true, Bool.true_and, Bool.false_and] <;>
      (repeat' split) <;>
      first | exact h | exact hu | exact ih _ h | exact ih _ hu

theorem toGStatsSrc_root (sqrtO : α → α) (hs1 : sqrtO (Scalar.one : α) = Scalar.one) (s : FlatTailStats α)
    (h : StatsFresh s) : toGStatsSrc sqrtO s = { toGStats s with DeltaNorm := sqrtO (toGStats s).DeltaNorm } := by
  cases hr : s.ranking with
  | none =>
    have := h hr
    simp only [toGStatsSrc, srcStats, toGStats, hr, Option.isSome_none, Bool.false_eq_true, if_false, this, hs1]
  | some rk =>
    simp only [toGStatsSrc, srcStats, toGStats, hr, Option.isSome_some, if_true]

/-- (A) with the extra oracle hypothesis `sqrtO 1 = 1`: the Go statistics record is the model's with the squared
    delta under the root, in every case (`DeltaNorm = sqrtO deltaSq`). -/
theorem Compute_src_refines_ok_root_partial (capO : Nat → Int) (fuel : Nat) (sqrtO : α → α) (nanO infO : α → Bool)
    (hs1 : sqrtO (Scalar.one : α) = Scalar.one)
    (c : CSM α) (p : Vec α) (a e : α) (hO : OracleOK sqrtO nanO infO e)
    (o : ComputeOpts α) (tRes : Option (Vec α)) (gs : Option (GFlatTailStats α))
    (hres : o.resultDim = tRes.map (·.dim))
    (hcols : c.colsInRange = true)
    (hap : (Vec.scale a p).entries ≠ [])
    (r : ComputeResult α) (hr : compute fuel c p a e o = .ok r) (hend : r.endedBy ≠ .outOfFuel)
    (hfuel : c.major + p.entries.length +
      max (c.major + p.entries.length) (o.t0.getD p).entries.length ≤ fuel)
    (hfuel63 : fuel < 9223372036854775807) :
    (Gen.Compute_src capO fuel sqrtO nanO infO (toGM c) (toGV p) a e (toGOpts o tRes gs)).map
        (fun x => (x.2, x.1.flatTailStats)) =
      .ok ((toGV r.t, none), { toGStats r.stats with DeltaNorm := sqrtO (toGStats r.stats).DeltaNorm }) := by
  have hfresh : StatsFresh r.stats := by
    cases hdim : c.dim with
    | error er => rw [compute_dim_err hdim] at hr; cases hr
    | ok n =>
      obtain ⟨_, _, rfl⟩ := compute_ok_inv hdim hr
      exact computeLoop_StatsFresh _ _ _ _ _ _ _ _ _ _ _ (fun _ => rfl)
  rw [← toGStatsSrc_root sqrtO hs1 r.stats hfresh]
  exact Compute_src_refines_ok_sq_partial capO fuel sqrtO nanO infO c p a e hO o tRes gs hres hcols hap r hr hend
    hfuel hfuel63

end EtVerif.Tr
