/-
  Flat-tail statistics (`FlatTailStats.update`, eigentrust.go 125-150) as a function of the
  sequence of observations `(ranking, squared delta)` fed to it, and the ranking (`rankOf`).

  * `ftFold obs`      — the statistics after feeding `obs` (oldest first) to a fresh checker;
  * `runs obs`        — the specification: `obs` split into maximal runs of equal consecutive
                        rankings, each run as `(ranking, delta at the head of the run, size)`;
  * `ftFold_eq_finish`— `ftFold obs = finish 1 (runs obs)`; from it the four field lemmas;
  * `trailing`        — size of the final run counted directly on the observation list
                        (used for the stop rule "identical for L+1 consecutive checks");
  * `sortByVal`/`rankOf` lemmas (sorted permutation, top-k).
-/
import EtVerif.Model.Basic
import EtVerif.Proofs.FieldScalar
import Mathlib.Data.List.Basic
import Mathlib.Data.List.Chain
import Mathlib.Data.List.Perm.Basic
import Mathlib.Data.List.Nodup

namespace EtVerif
open Scalar

/-- `List.foldl max θ l` is the maximum of `θ` and the elements of `l` -/
theorem foldl_max_spec (l : List Nat) : ∀ θ : Nat,
    θ ≤ l.foldl max θ ∧ (∀ x ∈ l, x ≤ l.foldl max θ) ∧ (l.foldl max θ = θ ∨ l.foldl max θ ∈ l) := by
  induction l with
  | nil => intro θ; simp
  | cons a l ih =>
    intro θ
    obtain ⟨h1, h2, h3⟩ := ih (max θ a)
    rw [List.foldl_cons]
    refine ⟨by omega, ?_, ?_⟩
    · intro x hx
      rcases List.mem_cons.mp hx with rfl | hx
      · omega
      · exact h2 x hx
    · rcases h3 with h3 | h3
      · rcases Nat.le_total θ a with hle | hle
        · right; rw [h3, Nat.max_eq_right hle]; exact List.mem_cons_self
        · left; rw [h3, Nat.max_eq_left hle]
      · right; exact List.mem_cons_of_mem _ h3

section general
variable {α : Type}

/-- prepend a run to a list of runs, merging it with the first run when the rankings agree
    (the merged run keeps the delta of the *prepended* run: the delta at the head). -/
def absorb (cur : List Nat × α × Nat) :
    List (List Nat × α × Nat) → List (List Nat × α × Nat)
  | [] => [cur]
  | (r1, d1, n1) :: tl =>
    if cur.1 = r1 then (cur.1, cur.2.1, cur.2.2 + n1) :: tl else cur :: (r1, d1, n1) :: tl

/-- The observation sequence split into maximal runs of equal consecutive rankings;
    a run is `(ranking, delta of the first observation of the run, number of observations)`.
    (`runs_flatten`, `runs_isChain`, `runs_pos`, `runs_head_delta` show that this is that
    decomposition.) -/
def runs : List (List Nat × α) → List (List Nat × α × Nat)
  | [] => []
  | (r, d) :: rest => absorb (r, d, 1) (runs rest)

theorem absorb_absorb_same (r : List Nat) (δ d1 : α) (n m : Nat) (rs : List (List Nat × α × Nat)) :
    absorb (r, δ, n) (absorb (r, d1, m) rs) = absorb (r, δ, n + m) rs := by
  cases rs with
  | nil => simp [absorb]
  | cons x tl =>
    obtain ⟨r2, d2, n2⟩ := x
    by_cases h : r = r2
    · subst h; simp [absorb, Nat.add_assoc]
    · simp [absorb, h]

theorem absorb_head (r : List Nat) (d : α) (m : Nat) (rs : List (List Nat × α × Nat)) :
    ∃ d' n' tl, absorb (r, d, m) rs = (r, d', n') :: tl := by
  cases rs with
  | nil => exact ⟨d, m, [], rfl⟩
  | cons x tl =>
    obtain ⟨r2, d2, n2⟩ := x
    by_cases h : r = r2
    · exact ⟨d, m + n2, tl, by simp [absorb, h]⟩
    · exact ⟨d, m, (r2, d2, n2) :: tl, by simp [absorb, h]⟩

theorem absorb_ne_nil (cur : List Nat × α × Nat) (rs : List (List Nat × α × Nat)) :
    absorb cur rs ≠ [] := by
  obtain ⟨r, d, m⟩ := cur
  obtain ⟨d', n', tl, h⟩ := absorb_head r d m rs
  simp [h]

theorem runs_cons (r : List Nat) (d : α) (rest : List (List Nat × α)) :
    runs ((r, d) :: rest) = absorb (r, d, 1) (runs rest) := rfl

theorem runs_ne_nil {obs : List (List Nat × α)} (h : obs ≠ []) : runs obs ≠ [] := by
  cases obs with
  | nil => exact absurd rfl h
  | cons o rest => obtain ⟨r, d⟩ := o; exact absorb_ne_nil _ _

theorem runs_eq_nil_iff {obs : List (List Nat × α)} : runs obs = [] ↔ obs = [] := by
  constructor
  · intro h; by_contra hne; exact runs_ne_nil hne h
  · rintro rfl; rfl

/-! ### `runs` is the decomposition into maximal runs -/

theorem absorb_pos (cur : List Nat × α × Nat) (rs : List (List Nat × α × Nat))
    (hc : 1 ≤ cur.2.2) (h : ∀ x ∈ rs, 1 ≤ x.2.2) : ∀ x ∈ absorb cur rs, 1 ≤ x.2.2 := by
  cases rs with
  | nil => intro x hx; simp [absorb] at hx; subst hx; exact hc
  | cons y tl =>
    obtain ⟨r1, d1, n1⟩ := y
    intro x hx
    by_cases hr : cur.1 = r1
    · simp only [absorb, hr, if_true] at hx
      rcases List.mem_cons.mp hx with rfl | hx
      · simp; omega
      · exact h x (List.mem_cons_of_mem _ hx)
    · simp only [absorb, hr, if_false] at hx
      rcases List.mem_cons.mp hx with rfl | hx
      · exact hc
      · exact h x hx

/-- every run is non-empty -/
theorem runs_pos (obs : List (List Nat × α)) : ∀ x ∈ runs obs, 1 ≤ x.2.2 := by
  induction obs with
  | nil => intro x hx; simp [runs] at hx
  | cons o rest ih => obtain ⟨r, d⟩ := o; exact absorb_pos _ _ (le_refl 1) ih

/-- expanding the runs gives back the sequence of observed rankings -/
theorem runs_flatten (obs : List (List Nat × α)) :
    (runs obs).flatMap (fun x => List.replicate x.2.2 x.1) = obs.map (·.1) := by
  induction obs with
  | nil => rfl
  | cons o rest ih =>
    obtain ⟨r, d⟩ := o
    rw [runs_cons, List.map_cons, ← ih]
    cases runs rest with
    | nil => simp [absorb]
    | cons y tl =>
      obtain ⟨r1, d1, n1⟩ := y
      by_cases h : r = r1
      · subst h
        simp [absorb, List.replicate_add]
      · simp [absorb, h]

/-- consecutive runs have different rankings (so the runs are maximal) -/
theorem runs_isChain (obs : List (List Nat × α)) :
    (runs obs).IsChain (fun a b => a.1 ≠ b.1) := by
  induction obs with
  | nil => exact List.IsChain.nil
  | cons o rest ih =>
    obtain ⟨r, d⟩ := o
    rw [runs_cons]
    cases hr : runs rest with
    | nil => simp [absorb]
    | cons y tl =>
      obtain ⟨r1, d1, n1⟩ := y
      rw [hr] at ih
      by_cases h : r = r1
      · subst h
        simp only [absorb, if_true]
        cases tl with
        | nil => exact List.IsChain.singleton _
        | cons z tl' =>
          rw [List.isChain_cons_cons] at ih ⊢
          exact ih
      · simp only [absorb, h, if_false]
        exact List.IsChain.cons_cons h ih

/-- the delta recorded for a run is the delta of the observation at the head of the run:
    the run preceded by the runs `pre` starts at position `Σ sizes of pre`. -/
theorem runs_head_delta (obs : List (List Nat × α)) :
    ∀ (pre : List (List Nat × α × Nat)) (run : List Nat × α × Nat) (post : List (List Nat × α × Nat)),
      runs obs = pre ++ run :: post →
      obs[(pre.map (·.2.2)).sum]? = some (run.1, run.2.1) := by
  induction obs with
  | nil => intro pre run post h; simp [runs] at h
  | cons o rest ih =>
    obtain ⟨r, d⟩ := o
    intro pre run post h
    rw [runs_cons] at h
    cases hr : runs rest with
    | nil =>
      rw [hr] at h
      simp only [absorb] at h
      cases pre with
      | nil => simp at h; obtain ⟨h1, _⟩ := h; subst h1; simp
      | cons p pre' => simp at h
    | cons y tl =>
      obtain ⟨r1, d1, n1⟩ := y
      rw [hr] at h ih
      by_cases hrr : r = r1
      · subst hrr
        simp only [absorb, if_true] at h
        cases pre with
        | nil =>
          simp only [List.nil_append, List.cons.injEq] at h
          obtain ⟨h1, _⟩ := h; subst h1; simp
        | cons p pre' =>
          simp only [List.cons_append, List.cons.injEq] at h
          obtain ⟨h1, h2⟩ := h
          subst h1
          have := ih ((r, d1, n1) :: pre') run post (by simp [h2])
          simp only [List.map_cons, List.sum_cons] at this ⊢
          have e : 1 + n1 + (List.map (fun x => x.2.2) pre').sum
              = (n1 + (List.map (fun x => x.2.2) pre').sum) + 1 := by omega
          rw [e, List.getElem?_cons_succ]
          exact this
      · simp only [absorb, hrr, if_false] at h
        cases pre with
        | nil =>
          simp only [List.nil_append, List.cons.injEq] at h
          obtain ⟨h1, _⟩ := h; subst h1; simp
        | cons p pre' =>
          simp only [List.cons_append, List.cons.injEq] at h
          obtain ⟨h1, h2⟩ := h
          subst h1
          have := ih pre' run post h2
          simp only [List.map_cons, List.sum_cons]
          have e : 1 + (List.map (fun x => x.2.2) pre').sum
              = (List.map (fun x => x.2.2) pre').sum + 1 := by omega
          rw [e, List.getElem?_cons_succ]
          exact this

variable [Scalar α]

/-- statistics after feeding the observations (oldest first) to a fresh `FlatTailChecker`. -/
def ftFold (obs : List (List Nat × α)) : FlatTailStats α :=
  obs.foldl (fun s o => s.update o.1 o.2) FlatTailStats.init

/-- statistics read off a list of runs, `θ` = threshold accumulated so far:
    every run that is followed by another one (a *broken* run) raises the threshold to its size. -/
def finish : Nat → List (List Nat × α × Nat) → FlatTailStats α
  | θ, [] => ⟨0, θ, one, none⟩
  | θ, [(r, d, n)] => ⟨n - 1, θ, d, some r⟩
  | θ, (_, _, n) :: x :: tl => finish (max θ n) (x :: tl)

/-- folding from a state whose current run is `(r, δ, ℓ+1)`. -/
theorem foldl_update_eq (obs : List (List Nat × α)) :
    ∀ (ℓ θ : Nat) (δ : α) (r : List Nat),
      obs.foldl (fun s o => s.update o.1 o.2) (⟨ℓ, θ, δ, some r⟩ : FlatTailStats α)
        = finish θ (absorb (r, δ, ℓ + 1) (runs obs)) := by
  induction obs with
  | nil => intro ℓ θ δ r; simp [runs, absorb, finish]
  | cons o rest ih =>
    intro ℓ θ δ r
    obtain ⟨r1, d1⟩ := o
    rw [List.foldl_cons, runs_cons]
    by_cases h : r = r1
    · subst h
      have hu : (⟨ℓ, θ, δ, some r⟩ : FlatTailStats α).update r d1 = ⟨ℓ + 1, θ, δ, some r⟩ := by
        simp [FlatTailStats.update]
      simp only [hu, ih, absorb_absorb_same]
    · have hu : (⟨ℓ, θ, δ, some r⟩ : FlatTailStats α).update r1 d1
          = ⟨0, max θ (ℓ + 1), d1, some r1⟩ := by
        have hm : (if θ ≤ ℓ then ℓ + 1 else θ) = max θ (ℓ + 1) := by
          split <;> omega
        simp [FlatTailStats.update, h, hm]
      obtain ⟨d', n', tl, ha⟩ := absorb_head r1 d1 1 (runs rest)
      simp only [hu, ih, Nat.zero_add]
      rw [ha]
      simp [absorb, h, finish]

/-- The statistics are those read off the run decomposition. -/
theorem ftFold_eq_finish (obs : List (List Nat × α)) : ftFold obs = finish 1 (runs obs) := by
  cases obs with
  | nil => rfl
  | cons o rest =>
    obtain ⟨r, d⟩ := o
    have hu : (FlatTailStats.init : FlatTailStats α).update r d = ⟨0, 1, d, some r⟩ := by
      simp [FlatTailStats.update, FlatTailStats.init]
    unfold ftFold
    rw [List.foldl_cons, hu, foldl_update_eq, runs_cons]

theorem ftFold_nil : ftFold ([] : List (List Nat × α)) = FlatTailStats.init := rfl

theorem ftFold_snoc (obs : List (List Nat × α)) (o : List Nat × α) :
    ftFold (obs ++ [o]) = (ftFold obs).update o.1 o.2 := by
  simp [ftFold, List.foldl_append]

/-! ### reading `finish` -/

theorem finish_ranking (rs : List (List Nat × α × Nat)) (h : rs ≠ []) :
    ∀ θ, (finish θ rs).ranking = some (rs.getLast h).1 := by
  induction rs with
  | nil => exact absurd rfl h
  | cons x tl ih =>
    intro θ
    cases tl with
    | nil => obtain ⟨r, d, n⟩ := x; simp [finish]
    | cons y tl' =>
      obtain ⟨r, d, n⟩ := x
      simp only [finish]
      rw [ih (by simp)]
      simp

theorem finish_deltaSq (rs : List (List Nat × α × Nat)) (h : rs ≠ []) :
    ∀ θ, (finish θ rs).deltaSq = (rs.getLast h).2.1 := by
  induction rs with
  | nil => exact absurd rfl h
  | cons x tl ih =>
    intro θ
    cases tl with
    | nil => obtain ⟨r, d, n⟩ := x; simp [finish]
    | cons y tl' =>
      obtain ⟨r, d, n⟩ := x
      simp only [finish]
      rw [ih (by simp)]
      simp

theorem finish_length (rs : List (List Nat × α × Nat)) (h : rs ≠ []) :
    ∀ θ, (finish θ rs).length = (rs.getLast h).2.2 - 1 := by
  induction rs with
  | nil => exact absurd rfl h
  | cons x tl ih =>
    intro θ
    cases tl with
    | nil => obtain ⟨r, d, n⟩ := x; simp [finish]
    | cons y tl' =>
      obtain ⟨r, d, n⟩ := x
      simp only [finish]
      rw [ih (by simp)]
      simp

theorem finish_threshold (rs : List (List Nat × α × Nat)) :
    ∀ θ, (finish θ rs).threshold = (rs.dropLast.map (·.2.2)).foldl max θ := by
  induction rs with
  | nil => intro θ; simp [finish]
  | cons x tl ih =>
    intro θ
    cases tl with
    | nil => obtain ⟨r, d, n⟩ := x; simp [finish]
    | cons y tl' =>
      obtain ⟨r, d, n⟩ := x
      simp only [finish]
      rw [ih]
      simp

/-! ### the four statistics, for a non-empty observation sequence -/

theorem ftFold_ranking_run {obs : List (List Nat × α)} (h : obs ≠ []) :
    (ftFold obs).ranking = some ((runs obs).getLast (runs_ne_nil h)).1 := by
  rw [ftFold_eq_finish, finish_ranking]

theorem ftFold_deltaSq_run {obs : List (List Nat × α)} (h : obs ≠ []) :
    (ftFold obs).deltaSq = ((runs obs).getLast (runs_ne_nil h)).2.1 := by
  rw [ftFold_eq_finish, finish_deltaSq]

theorem ftFold_length_run {obs : List (List Nat × α)} (h : obs ≠ []) :
    (ftFold obs).length + 1 = ((runs obs).getLast (runs_ne_nil h)).2.2 := by
  rw [ftFold_eq_finish, finish_length _ (runs_ne_nil h)]
  have := runs_pos obs _ (List.getLast_mem (runs_ne_nil h))
  omega

theorem ftFold_threshold_run (obs : List (List Nat × α)) :
    (ftFold obs).threshold = ((runs obs).dropLast.map (·.2.2)).foldl max 1 := by
  rw [ftFold_eq_finish, finish_threshold]

/-- the ranking in the statistics is the last observed ranking -/
theorem ftFold_ranking_last (obs : List (List Nat × α)) :
    (ftFold obs).ranking = obs.getLast?.map (·.1) := by
  induction obs using List.reverseRecOn with
  | nil => rfl
  | append_singleton l o ih =>
    rw [ftFold_snoc]
    simp only [List.getLast?_append, List.getLast?_singleton, Option.some_or, Option.map_some]
    unfold FlatTailStats.update
    split
    · assumption
    · rfl

/-! ### the final run counted on the observation list -/

/-- number of trailing observations whose ranking equals the last one (0 for no observation). -/
def trailing (obs : List (List Nat × α)) : Nat :=
  match obs.reverse with
  | [] => 0
  | o :: rest => ((o :: rest).takeWhile (fun x => decide (x.1 = o.1))).length

omit [Scalar α] in
theorem trailing_snoc (obs : List (List Nat × α)) (o : List Nat × α) :
    trailing (obs ++ [o]) =
      if obs.getLast?.map (·.1) = some o.1 then trailing obs + 1 else 1 := by
  unfold trailing
  rw [List.reverse_append]
  simp only [List.reverse_cons, List.reverse_nil, List.nil_append, List.singleton_append]
  rw [List.getLast?_eq_head?_reverse]
  cases obs.reverse with
  | nil => simp
  | cons p rest =>
    by_cases h : p.1 = o.1
    · simp [h]
    · simp [h]

theorem ftFold_length_trailing (obs : List (List Nat × α)) (h : obs ≠ []) :
    (ftFold obs).length + 1 = trailing obs := by
  induction obs using List.reverseRecOn with
  | nil => exact absurd rfl h
  | append_singleton l o ih =>
    rw [ftFold_snoc, trailing_snoc, ← ftFold_ranking_last]
    unfold FlatTailStats.update
    by_cases hr : (ftFold l).ranking = some o.1
    · have hl : l ≠ [] := by
        rintro rfl
        simp [ftFold, FlatTailStats.init] at hr
      simp only [hr, if_true]
      rw [← ih hl]
    · simp [hr]

omit [Scalar α] in
theorem le_length_takeWhile_iff {β : Type} (p : β → Bool) (l : List β) :
    ∀ n, n ≤ (l.takeWhile p).length ↔ n ≤ l.length ∧ ∀ x ∈ l.take n, p x = true := by
  induction l with
  | nil => intro n; simp
  | cons a l ih =>
    intro n
    cases n with
    | zero => simp
    | succ n =>
      by_cases h : p a
      · simp [h, ih n]
      · simp [h]

omit [Scalar α] in
/-- the final run has at least `L+1` elements iff the last `L+1` observed rankings are identical -/
theorem le_trailing_iff (obs : List (List Nat × α)) (L : Nat) :
    L + 1 ≤ trailing obs ↔
      L + 1 ≤ obs.length ∧ ∃ r, ∀ o ∈ obs.drop (obs.length - (L + 1)), o.1 = r := by
  unfold trailing
  cases h : obs.reverse with
  | nil =>
    have : obs = [] := by simpa using h
    subst this; simp
  | cons o rest =>
    have hlen : (o :: rest).length = obs.length := by rw [← h, List.length_reverse]
    have htake : ∀ x, x ∈ (o :: rest).take (L + 1) ↔ x ∈ obs.drop (obs.length - (L + 1)) := by
      intro x; rw [← h, List.take_reverse, List.mem_reverse]
    simp only
    rw [le_length_takeWhile_iff, hlen]
    constructor
    · rintro ⟨h1, h2⟩
      exact ⟨h1, o.1, fun x hx => by simpa using h2 x ((htake x).2 hx)⟩
    · rintro ⟨h1, r, h2⟩
      have ho : o.1 = r := h2 o ((htake o).1 (by simp))
      exact ⟨h1, fun x hx => by simpa [ho] using h2 x ((htake x).1 hx)⟩

/-- `length ≥ L` (the `Reached` test of the flat-tail checker) holds iff the last `L+1` observed
    rankings are identical. -/
theorem ftFold_reached_iff (obs : List (List Nat × α)) (h : obs ≠ []) (L : Nat) :
    L ≤ (ftFold obs).length ↔
      L + 1 ≤ obs.length ∧ ∃ r, ∀ o ∈ obs.drop (obs.length - (L + 1)), o.1 = r := by
  rw [← le_trailing_iff, ← ftFold_length_trailing obs h]
  omega

end general

/-! ### `sortByVal`, `rankOf` -/

section rank
variable {α : Type} [Scalar α]

theorem insertByVal_perm (e : Entry α) (l : List (Entry α)) : (insertByVal e l).Perm (e :: l) := by
  induction l with
  | nil => exact List.Perm.refl _
  | cons x xs ih =>
    unfold insertByVal
    split
    · exact List.Perm.refl _
    · exact ((List.Perm.cons x ih).trans (List.Perm.swap e x xs))

theorem sortByVal_cons (e : Entry α) (l : List (Entry α)) :
    sortByVal (e :: l) = insertByVal e (sortByVal l) := rfl

/-- `sortByVal` returns a permutation of its input -/
theorem sortByVal_perm (l : List (Entry α)) : (sortByVal l).Perm l := by
  induction l with
  | nil => exact List.Perm.refl _
  | cons e l ih => exact (insertByVal_perm e _).trans (List.Perm.cons e ih)

theorem sortByVal_length (l : List (Entry α)) : (sortByVal l).length = l.length :=
  (sortByVal_perm l).length_eq

/-- the ranking keeps the last `numLeaders` entries of the ascending order -/
theorem rankOf_eq (t : List (Entry α)) (nl : Nat) :
    rankOf t nl = ((sortByVal t).drop (t.length - nl)).map (·.idx) := by
  unfold rankOf
  simp only [List.length_map, sortByVal_length, List.map_drop]
  split
  · rfl
  · have : t.length - nl = 0 := by omega
    simp [this]

theorem rankOf_length (t : List (Entry α)) (nl : Nat) :
    (rankOf t nl).length = min nl t.length := by
  rw [rankOf_eq]
  simp only [List.length_map, List.length_drop, sortByVal_length]
  omega

/-- with `numLeaders ≥ nnz` the ranking lists every entry -/
theorem rankOf_all (t : List (Entry α)) (nl : Nat) (h : t.length ≤ nl) :
    rankOf t nl = (sortByVal t).map (·.idx) := by
  rw [rankOf_eq]
  have : t.length - nl = 0 := by omega
  simp [this]

end rank

section rankK
variable {K : Type} [Field K] [LinearOrder K]

theorem insertByVal_sorted (e : Entry K) (l : List (Entry K))
    (h : l.Pairwise (fun a b => a.val ≤ b.val)) :
    (insertByVal e l).Pairwise (fun a b => a.val ≤ b.val) := by
  induction l with
  | nil => simp [insertByVal]
  | cons x xs ih =>
    have hx := List.pairwise_cons.mp h
    unfold insertByVal
    split
    · rename_i hlt
      have hlt' : e.val < x.val := by simpa using hlt
      refine List.pairwise_cons.mpr ⟨?_, h⟩
      intro b hb
      rcases List.mem_cons.mp hb with rfl | hb
      · exact le_of_lt hlt'
      · exact le_trans (le_of_lt hlt') (hx.1 b hb)
    · rename_i hlt
      have hle : x.val ≤ e.val := by simpa using hlt
      refine List.pairwise_cons.mpr ⟨?_, ih hx.2⟩
      intro b hb
      rcases List.mem_cons.mp ((insertByVal_perm e xs).mem_iff.mp hb) with rfl | hb
      · exact hle
      · exact hx.1 b hb

/-- `sortByVal` sorts ascending by value -/
theorem sortByVal_sorted (l : List (Entry K)) :
    (sortByVal l).Pairwise (fun a b => a.val ≤ b.val) := by
  induction l with
  | nil => exact List.Pairwise.nil
  | cons e l ih => exact insertByVal_sorted e _ ih

/-- with pairwise distinct values, strictly ascending -/
theorem sortByVal_strict (l : List (Entry K)) (hval : l.Pairwise (fun a b => a.val ≠ b.val)) :
    (sortByVal l).Pairwise (fun a b => a.val < b.val) := by
  have hne : (sortByVal l).Pairwise (fun a b => a.val ≠ b.val) :=
    (List.Perm.pairwise_iff (fun h => Ne.symm h) (sortByVal_perm l)).mpr hval
  exact ((sortByVal_sorted l).and hne).imp (fun h => lt_of_le_of_ne h.1 h.2)

/-- The ranking is the top of the score order: the entries split (as a permutation) into
    `rest ++ top` where `top` has `min numLeaders nnz` elements, is strictly increasing in
    value, dominates `rest`, and `rankOf` lists the indices of `top` in that order. -/
theorem rankOf_top (t : List (Entry K)) (nl : Nat)
    (hval : t.Pairwise (fun a b => a.val ≠ b.val)) :
    ∃ rest top : List (Entry K),
      (rest ++ top).Perm t ∧ top.length = min nl t.length ∧
      rankOf t nl = top.map (·.idx) ∧
      top.Pairwise (fun a b => a.val < b.val) ∧
      ∀ a ∈ rest, ∀ b ∈ top, a.val < b.val := by
  refine ⟨(sortByVal t).take (t.length - nl), (sortByVal t).drop (t.length - nl), ?_, ?_,
    rankOf_eq t nl, ?_, ?_⟩
  · rw [List.take_append_drop]; exact sortByVal_perm t
  · rw [List.length_drop, sortByVal_length]; omega
  · have h := sortByVal_strict t hval
    rw [← List.take_append_drop (t.length - nl) (sortByVal t)] at h
    exact (List.pairwise_append.mp h).2.1
  · have h := sortByVal_strict t hval
    rw [← List.take_append_drop (t.length - nl) (sortByVal t)] at h
    exact (List.pairwise_append.mp h).2.2

/-- index form: with distinct indices and distinct values, every listed peer scores strictly
    higher than every unlisted peer. -/
theorem rankOf_dominates (t : List (Entry K)) (nl : Nat)
    (hval : t.Pairwise (fun a b => a.val ≠ b.val)) (hidx : (t.map (·.idx)).Nodup)
    (x y : Entry K) (hx : x ∈ t) (hy : y ∈ t)
    (hyr : y.idx ∈ rankOf t nl) (hxr : x.idx ∉ rankOf t nl) : x.val < y.val := by
  obtain ⟨rest, top, hperm, _, hr, _, hdom⟩ := rankOf_top t nl hval
  rw [hr] at hyr hxr
  obtain ⟨z, hz, hzy⟩ := List.mem_map.mp hyr
  have hzt : z ∈ t := hperm.mem_iff.mp (List.mem_append_right _ hz)
  have hzy' : z = y := List.inj_on_of_nodup_map hidx hzt hy hzy
  subst hzy'
  have hxm : x ∈ rest ++ top := hperm.mem_iff.mpr hx
  rcases List.mem_append.mp hxm with hxrest | hxtop
  · exact hdom x hxrest z hz
  · exact absurd (List.mem_map.mpr ⟨x, hxtop, rfl⟩) hxr

end rankK

end EtVerif
