/-
  Refinement of the translated basic.CanonicalizeLocalTrust (Gen/Translated.lean, regenerated from /repo)
  to the model `canonicalizeLocalTrust`.
-/
import EtVerif.Proofs.TrCanon
import EtVerif.Proofs.TrNewCSR
import EtVerif.Proofs.TrHelpers
import EtVerif.Proofs.TrMatSmall
import EtVerif.Proofs.TrVecSmall
namespace EtVerif.Tr
open EtVerif EtVerif.GoSem EtVerif.Gen Scalar
variable {α : Type} [Scalar α]
set_option linter.unusedSectionVars false

/-! ### CanonicalizeLocalTrust -/

omit [Scalar α] in
theorem RowVector_eq (g : GCSMatrix α) (i : Int) (row : List (GEntry α)) (h : goIdx g.Entries i = .ok row) :
    Gen.CSRMatrix_RowVector g i = .ok ({ m := g, index := i }, ({ Dim := g.MinorDim, Entries := row } : GVector α)) := by
  simp [Gen.CSRMatrix_RowVector, CSRMatrix_RowVector.body, Stm.run, Stm.ret, bind, Except.bind, pure,
    Except.pure, h]

omit [Scalar α] in
theorem SetRowVector_eq (g : GCSMatrix α) (i : Int) (v : GVector α) (t : List (List (GEntry α)))
    (h : goSet g.Entries i v.Entries = .ok t) :
    Gen.CSRMatrix_SetRowVector g i v = .ok ({ m := { g with Entries := t }, index := i, vector := v }, ()) := by
  simp [Gen.CSRMatrix_SetRowVector, CSRMatrix_SetRowVector.body, Stm.run, Stm.set, bind, Except.bind, pure,
    Except.pure, h]

/-- one iteration of the row loop: row `pre.length` becomes its canonical form. -/
theorem canonLT_body (fuel : Nat) (p : Option (Vec α)) (s : CanonicalizeLocalTrust.St α)
    (pre rest : List (List (GEntry α))) (r : Row α)
    (hl : s.localTrust.Entries = pre ++ toGs r :: rest) (hi : s.i = (pre.length : Int))
    (hp : s.preTrust = p.map toGV) :
    ∃ s', CanonicalizeLocalTrust.loop1_body fuel s = .ok (s', .next) ∧
      s'.localTrust = { s.localTrust with Entries := pre ++ toGs (canonRow p r) :: rest } ∧
      s'.i = s.i ∧ s'.n = s.n ∧ s'.preTrust = s.preTrust := by
  have g1 : goIdx s.localTrust.Entries s.i = .ok (toGs r) := goIdx_mid _ _ pre (toGs r) rest hl hi
  have hRV := RowVector_eq s.localTrust s.i (toGs r) g1
  have gset : ∀ r', goSet s.localTrust.Entries s.i r' = .ok (pre ++ r' :: rest) :=
    fun r' => goSet_mid _ _ pre (toGs r) r' rest hl hi
  have hC := Canonicalize_refines r
  cases hcan : canonicalize r with
  | ok r' =>
    simp only [hcan] at hC
    obtain ⟨⟨st, e⟩, hC1, hC2⟩ := map_eq_ok hC
    have e1 : st.entries = toGs r' := congrArg Prod.fst hC2
    have e2 : e = none := congrArg Prod.snd hC2
    subst e2
    simp only [CanonicalizeLocalTrust.loop1_body, Stm.seq, Stm.set, Stm.ite, Stm.skip, bind, Except.bind, pure,
      Except.pure, hRV, hC1, e1, gset, Option.isNone_none, canonRow, hcan]
    exact ⟨_, rfl, rfl, rfl, rfl, rfl⟩
  | error err =>
    simp only [hcan] at hC
    obtain ⟨⟨st, e⟩, hC1, hC2⟩ := map_eq_ok hC
    have e1 : st.entries = toGs r := congrArg Prod.fst hC2
    have e2 : e = some ⟨"ErrZeroSum"⟩ := congrArg Prod.snd hC2
    subst e2
    cases p with
    | none =>
      simp only [Option.map_none] at hp
      simp only [CanonicalizeLocalTrust.loop1_body, Stm.seq, Stm.set, Stm.ite, Stm.skip, bind, Except.bind, pure,
        Except.pure, hRV, hC1, e1, gset, Option.isNone_some, decide_true, hp, Option.isNone_none, Bool.not_true,
        canonRow, hcan]
      exact ⟨_, rfl, rfl, rfl, rfl, rfl⟩
    | some pv =>
      simp only [Option.map_some] at hp
      have hS := SetRowVector_eq { s.localTrust with Entries := pre ++ toGs r :: rest } s.i (toGV pv)
        (pre ++ toGs pv.entries :: rest)
        (goSet_mid _ _ pre (toGs r) _ rest rfl hi)
      simp only [CanonicalizeLocalTrust.loop1_body, Stm.seq, Stm.set, Stm.ite, bind, Except.bind, pure,
        Except.pure, hRV, hC1, e1, gset, Option.isNone_some, decide_true, hp, Bool.not_false, goDeref, hS,
        canonRow, hcan]
      exact ⟨_, rfl, rfl, rfl, rfl, rfl⟩

/-- the row loop: rows `done.length …` are still to be processed. -/
theorem canonLT_loop (fuel0 : Nat) (p : Option (Vec α)) :
    ∀ (rem : List (Row α)) (fuel : Nat) (done : List (List (GEntry α))) (s : CanonicalizeLocalTrust.St α),
      rem.length ≤ fuel → s.localTrust.Entries = done ++ rem.map toGs → s.i = (done.length : Int) →
      s.n = ((done.length + rem.length : Nat) : Int) → s.preTrust = p.map toGV →
      ∃ s', Stm.loop 1 (CanonicalizeLocalTrust.loop1_cond fuel0) (CanonicalizeLocalTrust.loop1_body (α := α) fuel0)
            (CanonicalizeLocalTrust.loop1_post fuel0) fuel s = .ok (s', .next) ∧
        s'.localTrust = { s.localTrust with Entries := done ++ (rem.map (canonRow p)).map toGs } := by
  intro rem
  induction rem with
  | nil =>
    intro fuel done s hf hl hi hn hp
    refine ⟨s, ?_, ?_⟩
    · apply loop_exit
      simp [CanonicalizeLocalTrust.loop1_cond, pure, Except.pure, hi, hn]
    · cases hs : s.localTrust; simp [hs] at hl ⊢; exact hl
  | cons r rem ih =>
    intro fuel done s hf hl hi hn hp
    cases fuel with
    | zero => simp at hf
    | succ f =>
      have hf' : rem.length ≤ f := by simpa using hf
      have hc : CanonicalizeLocalTrust.loop1_cond fuel0 s = .ok true := by
        simp [CanonicalizeLocalTrust.loop1_cond, pure, Except.pure, hi, hn]
        omega
      obtain ⟨s1, b1, b2, b3, b4, b5⟩ := canonLT_body fuel0 p s done (rem.map toGs) r
        (by simpa using hl) hi hp
      have hpost : CanonicalizeLocalTrust.loop1_post fuel0 s1 = .ok ({ s1 with i := s1.i + 1 }, .next) := by
        simp [CanonicalizeLocalTrust.loop1_post, Stm.set, pure, Except.pure]
      obtain ⟨s', c1, c2⟩ := ih f (done ++ [toGs (canonRow p r)]) { s1 with i := s1.i + 1 } hf'
        (by simp [b2]) (by simp [b3, hi]) (by simp [b4, hn]; omega) (by simp [b5, hp])
      refine ⟨s', ?_, ?_⟩
      · rw [loop_step hc b1 hpost]
        exact c1
      · rw [c2]; simp [b2]

/-- Go `basic.CanonicalizeLocalTrust` = the model's `canonicalizeLocalTrust`: every row divided by its
    compensated sum in place; a zero-sum row is replaced by the pre-trust's entries when a pre-trust is given and
    left untouched otherwise; a non-square matrix or a pre-trust of another dimension is refused untouched. -/
theorem CanonicalizeLocalTrust_refines (fuel : Nat) (m : CSM α) (p : Option (Vec α))
    (hrows : m.rows.length = m.major) (hf : m.major ≤ fuel) :
    (Gen.CanonicalizeLocalTrust fuel (toGM m) (p.map toGV)).map (fun r => (r.1.localTrust, r.2)) =
      (match canonicalizeLocalTrust m p with
       | .ok m' => .ok (toGM m', none)
       | .error _ => .ok (toGM m, some ⟨"ErrDimensionMismatch"⟩)) := by
  by_cases hsq : m.major = m.minor
  · obtain ⟨st, hD⟩ := CSMatrix_Dim_sq (toGM m) (by simp [hsq])
    by_cases hdim : (match p with | some p => decide (m.major ≠ p.dim) | none => false) = true
    · obtain ⟨pv, rfl⟩ : ∃ pv, p = some pv := by
        cases p with
        | none => simp at hdim
        | some pv => exact ⟨pv, rfl⟩
      have hn2 : ¬ (m.minor = pv.dim) := by
        simp at hdim; omega
      have hne : ¬ ((m.minor : Int) = (pv.dim : Int)) := by omega
      simp [Gen.CanonicalizeLocalTrust, CanonicalizeLocalTrust.body, Stm.run, Stm.seq, Stm.set, Stm.ite, Stm.ret,
        Stm.skip, bind, Except.bind, pure, Except.pure, Except.map, hD, goDeref, hne, hn2, canonicalizeLocalTrust,
        CSM.dim, hsq]
    · have hcanon : canonicalizeLocalTrust m p = .ok { m with rows := m.rows.map (canonRow p) } := by
        simp only [canonicalizeLocalTrust, CSM.dim, hsq, ne_eq, not_true_eq_false, if_false]
        rw [← hsq]
        exact if_neg hdim
      obtain ⟨s', c1, c2⟩ := canonLT_loop fuel p m.rows fuel []
        { localTrust := toGM m, preTrust := p.map toGV, n := (m.major : Int), err := none, i := 0,
          inRow := (GVector.zero : GVector α), viewIdx := 0, err_2 := none }
        (by simpa [hrows] using hf) (by simp) rfl (by simp [hrows]) rfl
      have hchk : (if (!(p.map toGV).isNone) then (do
            let t1 ← goDeref (p.map toGV)
            pure (!(decide ((m.major : Int) = (t1).Dim)))) else (pure false : R Bool)) = .ok false := by
        cases p with
        | none => rfl
        | some pv =>
          have : m.major = pv.dim := by simpa using hdim
          simp [goDeref, bind, Except.bind, pure, Except.pure, this]
      rw [hcanon]
      simp only [Gen.CanonicalizeLocalTrust, CanonicalizeLocalTrust.body, Stm.run, Stm.seq, Stm.set, Stm.ite,
        Stm.ret, Stm.skip, bind, Except.bind, pure, Except.pure, Except.map, hD, toGM_MajorDim,
        Option.isNone_none, Bool.not_true]
      simp only [bind, Except.bind, pure, Except.pure] at hchk
      simp only [hchk, c1]
      simp [c2, toGM]
  · obtain ⟨st, hD⟩ := CSMatrix_Dim_nsq (toGM m) (by simp; omega)
    simp [Gen.CanonicalizeLocalTrust, CanonicalizeLocalTrust.body, Stm.run, Stm.seq, Stm.set, Stm.ite, Stm.ret,
      bind, Except.bind, pure, Except.pure, Except.map, hD, canonicalizeLocalTrust, CSM.dim, hsq]

end EtVerif.Tr
