/-
  Refinement of the translated CSRMatrix.RowVector / SetRowVector / NewCSRMatrix (Gen/Translated.lean,
  regenerated from /repo) to the model (`CSM.rowVec`, row replacement, `CSM.newCSR`).
-/
import EtVerif.Proofs.TrHelpers
import EtVerif.Proofs.TrMatSmall
import EtVerif.Proofs.TrVecSmall
namespace EtVerif.Tr
open EtVerif EtVerif.GoSem EtVerif.Gen Scalar
variable {α : Type} [Scalar α]
set_option linter.unusedSectionVars false

theorem CSRMatrix_RowVector_refines (m : CSM α) (i : Nat) (h : i < m.rows.length) :
    (Gen.CSRMatrix_RowVector (toGM m) (i : Int)).map (fun r => r.2) = .ok (toGV (m.rowVec i)) := by
  have g : goIdx (m.rows.map toGs) (i : Int) = .ok (toGs m.rows[i]) := by
    rw [goIdx_ofNat _ _ (by simpa using h)]
    simp
  simp [Gen.CSRMatrix_RowVector, CSRMatrix_RowVector.body, Stm.run, Stm.ret, bind, Except.bind, pure,
    Except.pure, Except.map, g, CSM.rowVec, toGV, h]

theorem CSRMatrix_SetRowVector_refines (m : CSM α) (i : Nat) (v : Vec α) (h : i < m.rows.length) :
    (Gen.CSRMatrix_SetRowVector (toGM m) (i : Int) (toGV v)).map (fun r => r.1.m) =
      .ok (toGM { m with rows := m.rows.set i v.entries }) := by
  have g : goSet (m.rows.map toGs) (i : Int) (toGs v.entries) = .ok ((m.rows.map toGs).set i (toGs v.entries)) :=
    goSet_ofNat _ _ _ (by simpa using h)
  simp [Gen.CSRMatrix_SetRowVector, CSRMatrix_SetRowVector.body, Stm.run, Stm.set, bind, Except.bind, pure,
    Except.pure, Except.map, g, toGM, List.map_set]

/-! ### NewCSRMatrix -/

theorem goSort_toGs (r : List (Entry α)) : goSortEntriesByIndex (toGs r) = toGs (sortByIdx r) := by
  simp [goSortEntriesByIndex, map_entryToG]

theorem bucketCoo_length (incl : Bool) (t : List (Row α)) (e : Coo α) :
    (bucketCoo incl t e).length = t.length := by
  unfold bucketCoo
  split <;> simp

/-- first loop: bucket every kept coordinate into its row. -/
theorem NewCSR_loop1 (incl : Bool) (es : List (Coo α)) :
    ∀ (j : Int) (t : List (Row α)) (s : NewCSRMatrix.St α),
      s.entries2 = t.map toGs → s.includeZero = incl → cooRowsInRange t.length es incl = true →
      ∃ s', Stm.range 1 NewCSRMatrix.loop1_bind (NewCSRMatrix.loop1_body (α := α)) j (es.map toGCoo) s
          = .ok (s', .next) ∧
        s'.entries2 = (es.foldl (bucketCoo incl) t).map toGs ∧ s'.rows = s.rows ∧ s'.cols = s.cols := by
  induction es with
  | nil => intro j t s ht _ _; exact ⟨s, rfl, ht, rfl, rfl⟩
  | cons e es ih =>
    intro j t s ht hi hr
    have hr' : cooRowsInRange (bucketCoo incl t e).length es incl = true := by
      rw [bucketCoo_length]
      simp only [cooRowsInRange, List.all_cons, Bool.and_eq_true] at hr ⊢
      exact hr.2
    have he : ((isZero e.val && !incl) || decide (e.row < t.length)) = true := by
      simp only [cooRowsInRange, List.all_cons, Bool.and_eq_true] at hr
      exact hr.1
    cases hz : (isZero e.val && !incl) with
    | true =>
      have hb : NewCSRMatrix.loop1_body (NewCSRMatrix.loop1_bind j (toGCoo e) s) =
          .ok ({ s with e := toGCoo e }, .cont 1) := by
        have hz' : (Scalar.eq e.val (Scalar.zero : α) && !incl) = true := hz
        simp only [NewCSRMatrix.loop1_body, NewCSRMatrix.loop1_bind, Stm.seq, Stm.ite, Stm.cont, pure,
          Except.pure, toGCoo, hi, hz']
      obtain ⟨s', h1, h2, h3, h4⟩ := ih (j + 1) (bucketCoo incl t e) { s with e := toGCoo e }
        (by simp [bucketCoo, hz, ht]) hi hr'
      refine ⟨s', ?_, ?_, h3, h4⟩
      · rw [List.map_cons, range_cons_cont hb]
        exact h1
      · simpa using h2
    | false =>
      have hlt : e.row < t.length := by simpa [hz] using he
      have hlt' : e.row < (t.map toGs).length := by simpa using hlt
      have hbk : bucketCoo incl t e = t.modify e.row (· ++ [⟨e.col, e.val⟩]) := by
        simp [bucketCoo, hz]
      have hmod : (t.modify e.row (· ++ [⟨e.col, e.val⟩])).map toGs =
          (t.map toGs).set e.row ((t.map toGs)[e.row] ++ [({ Index := (e.col : Int), Value := e.val } : GEntry α)]) := by
        rw [modify_eq_set_of_lt _ _ _ hlt, List.map_set]
        simp [toG]
      have hb : NewCSRMatrix.loop1_body (NewCSRMatrix.loop1_bind j (toGCoo e) s) =
          .ok ({ s with e := toGCoo e, entries2 := (bucketCoo incl t e).map toGs }, .next) := by
        have hz' : (Scalar.eq e.val (Scalar.zero : α) && !incl) = false := hz
        simp only [NewCSRMatrix.loop1_body, NewCSRMatrix.loop1_bind, Stm.seq, Stm.ite, Stm.skip, Stm.set, bind,
          Except.bind, pure, Except.pure, toGCoo, hi, hz', ht, goIdx_ofNat _ _ hlt', goSet_ofNat _ _ _ hlt',
          hbk, hmod]
      obtain ⟨s', h1, h2, h3, h4⟩ := ih (j + 1) (bucketCoo incl t e)
        { s with e := toGCoo e, entries2 := (bucketCoo incl t e).map toGs } rfl hi hr'
      refine ⟨s', ?_, ?_, h3, h4⟩
      · rw [List.map_cons, range_cons_next hb]
        exact h1
      · simpa using h2

/-- second loop: the range list is a snapshot (only its length matters); row `done.length` is sorted in place. -/
theorem NewCSR_loop2 (xs : List (List (GEntry α))) :
    ∀ (done rest : List (Row α)) (s : NewCSRMatrix.St α),
      xs.length = rest.length → s.entries2 = (done.map sortByIdx).map toGs ++ rest.map toGs →
      ∃ s', Stm.range 2 NewCSRMatrix.loop2_bind (NewCSRMatrix.loop2_body (α := α)) (done.length : Int) xs s
          = .ok (s', .next) ∧
        s'.entries2 = ((done ++ rest).map sortByIdx).map toGs ∧ s'.rows = s.rows ∧ s'.cols = s.cols := by
  induction xs with
  | nil =>
    intro done rest s hl he
    have : rest = [] := by cases rest with
      | nil => rfl
      | cons _ _ => simp at hl
    subst this
    exact ⟨s, rfl, by simpa using he, rfl, rfl⟩
  | cons x xs ih =>
    intro done rest s hl he
    cases rest with
    | nil => simp at hl
    | cons r rest =>
      have hl' : xs.length = rest.length := by simpa using hl
      have hlen : (done.length : Int) = (((done.map sortByIdx).map toGs).length : Int) := by simp
      have g1 : goIdx s.entries2 (done.length : Int) = .ok (toGs r) :=
        goIdx_mid _ _ ((done.map sortByIdx).map toGs) (toGs r) (rest.map toGs) (by simpa using he) hlen
      have g2 : goSet s.entries2 (done.length : Int) (toGs (sortByIdx r)) =
          .ok ((done.map sortByIdx).map toGs ++ toGs (sortByIdx r) :: rest.map toGs) :=
        goSet_mid _ _ ((done.map sortByIdx).map toGs) (toGs r) _ (rest.map toGs) (by simpa using he) hlen
      have hb : NewCSRMatrix.loop2_body (NewCSRMatrix.loop2_bind (done.length : Int) x s) =
          .ok ({ s with rangeIdx := (done.length : Int), row := toGs (sortByIdx r),
                        entries2 := (done.map sortByIdx).map toGs ++ toGs (sortByIdx r) :: rest.map toGs }, .next) := by
        simp only [NewCSRMatrix.loop2_body, NewCSRMatrix.loop2_bind, Stm.seq, Stm.set, bind, Except.bind, pure,
          Except.pure, g1, g2, goSort_toGs]
      obtain ⟨s', h1, h2, h3, h4⟩ := ih (done ++ [r]) rest
        { s with rangeIdx := (done.length : Int), row := toGs (sortByIdx r),
                 entries2 := (done.map sortByIdx).map toGs ++ toGs (sortByIdx r) :: rest.map toGs }
        hl' (by simp)
      refine ⟨s', ?_, ?_, h3, h4⟩
      · rw [range_cons_next hb]
        have : ((done ++ [r]).length : Int) = (done.length : Int) + 1 := by simp
        rw [this] at h1
        exact h1
      · simpa using h2

/-- Go `NewCSRMatrix` = the model's `CSM.newCSR` (bucket by row in input order, zeros dropped unless asked for,
    every row sorted by column), for coordinate lists whose kept entries have a row index `< rows` (otherwise the
    Go code panics on `entries2[e.Row]`). -/
theorem NewCSRMatrix_refines (rows cols : Nat) (es : List (Coo α)) (incl : Bool)
    (hr : cooRowsInRange rows es incl = true) :
    (Gen.NewCSRMatrix (rows : Int) (cols : Int) (es.map toGCoo) incl).map (fun r => r.2) =
      .ok (toGM (CSM.newCSR rows cols es incl)) := by
  let s0 : NewCSRMatrix.St α :=
    { rows := (rows : Int), cols := (cols : Int), entries := es.map toGCoo, includeZero := incl,
      entries2 := (List.replicate rows ([] : Row α)).map toGs, e := (GCooEntry.zero : GCooEntry α),
      row := ([] : List (GEntry α)), rangeIdx := (0 : Int), m := (GCSMatrix.zero : GCSMatrix α) }
  obtain ⟨s1, a1, a2, a3, a4⟩ := NewCSR_loop1 incl es 0 (List.replicate rows []) s0 rfl rfl (by simpa using hr)
  obtain ⟨s2, b1, b2, b3, b4⟩ := NewCSR_loop2 s1.entries2 [] (es.foldl (bucketCoo incl) (List.replicate rows [])) s1
    (by simp [a2]) (by simp [a2])
  simp only [List.length_nil, Int.natCast_zero] at b1
  simp only [List.nil_append] at b2
  have hfin : s2.rows = (rows : Int) ∧ s2.cols = (cols : Int) := ⟨by rw [b3, a3], by rw [b4, a4]⟩
  cases rows with
  | zero =>
    simp only [Gen.NewCSRMatrix, NewCSRMatrix.body, Stm.run, Stm.seq, Stm.set, Stm.ite, Stm.skip, Stm.ret,
      Stm.rangeOver, NewCSRMatrix.loop1_xs, NewCSRMatrix.loop2_xs, pure, Except.pure,
      Except.map, Int.natCast_zero, decide_true, Bool.not_true]
    have a1' := a1
    simp only [s0, List.replicate_zero, List.map_nil, Int.natCast_zero] at a1'
    simp only [a1', b1]
    simp [toGM, CSM.newCSR, b2, hfin.1, hfin.2]
  | succ n =>
    have hne : ¬ (((n + 1 : Nat) : Int) = 0) := by omega
    simp only [Gen.NewCSRMatrix, NewCSRMatrix.body, Stm.run, Stm.seq, Stm.set, Stm.ite, Stm.ret,
      Stm.rangeOver, NewCSRMatrix.loop1_xs, NewCSRMatrix.loop2_xs, bind, Except.bind, pure, Except.pure,
      Except.map, hne, decide_false, Bool.not_false, goMake_natCast]
    have a1' := a1
    simp only [s0, List.map_replicate, toGs_nil] at a1'
    simp only [a1', b1]
    simp [toGM, CSM.newCSR, b2, hfin.1, hfin.2]

end EtVerif.Tr
