/-
  Helper lemmas for the gRPC front-end model (Model/Grpc.lean): the qword encoding of big
  unsigned integers, the association-list store, one-step facts about the TrustMatrix /
  TrustVector services, and the staged form of `basicCompute`.
-/
import EtVerif.Model.Grpc
import EtVerif.Props.C04
import EtVerif.Props.C05
import EtVerif.Props.C10
import EtVerif.Props.C11

namespace EtVerif.GrpcL
open EtVerif EtVerif.Grpc Scalar

/-! ## 1. biguintqwords.go -/

section qwords

/-- value of a little-endian (least significant first) base-2^64 digit list -/
def leVal : List Nat → Nat
  | [] => 0
  | d :: ds => d + base64 * leVal ds

theorem base64_pos : 0 < base64 := by unfold base64; exact Nat.pos_of_ne_zero (by simp)

theorem qwords2Nat_append (ws : List Nat) (w : Nat) :
    qwords2Nat (ws ++ [w]) = qwords2Nat ws * base64 + w := by
  unfold qwords2Nat
  rw [List.foldl_append]
  rfl

theorem qwords2Nat_reverse (ds : List Nat) : qwords2Nat ds.reverse = leVal ds := by
  induction ds with
  | nil => rfl
  | cons d ds ih =>
    rw [List.reverse_cons, qwords2Nat_append, ih, leVal, Nat.mul_comm, Nat.add_comm]

theorem foldl_shift (ws : List Nat) (a : Nat) :
    ws.foldl (fun v w => v * base64 + w) a =
      a * base64 ^ ws.length + ws.foldl (fun v w => v * base64 + w) 0 := by
  induction ws generalizing a with
  | nil => simp
  | cons w ws ih =>
    rw [List.foldl_cons, ih, List.foldl_cons, ih (0 * base64 + w), List.length_cons, Nat.pow_succ]
    simp only [Nat.zero_mul, Nat.zero_add, Nat.add_mul]
    rw [Nat.mul_assoc, Nat.mul_comm base64, Nat.add_assoc]

theorem qwords2Nat_cons (w : Nat) (ws : List Nat) :
    qwords2Nat (w :: ws) = w * base64 ^ ws.length + qwords2Nat ws := by
  unfold qwords2Nat
  rw [List.foldl_cons, foldl_shift]
  simp

theorem leVal_qwordsLE (fuel n : Nat) (h : n ≤ fuel) : leVal (qwordsLE fuel n) = n := by
  induction fuel generalizing n with
  | zero =>
    have : n = 0 := by omega
    subst this; rfl
  | succ f ih =>
    unfold qwordsLE
    split
    · rename_i h0; rw [h0]; rfl
    · rename_i h0
      have hb := base64_pos
      have hlt : n / base64 < n := Nat.div_lt_self (by omega) (by unfold base64; decide)
      rw [leVal, ih _ (by omega)]
      exact Nat.mod_add_div n base64

theorem qwordsLE_lt (fuel n : Nat) : ∀ d ∈ qwordsLE fuel n, d < base64 := by
  induction fuel generalizing n with
  | zero => intro d hd; simp [qwordsLE] at hd
  | succ f ih =>
    intro d hd
    unfold qwordsLE at hd
    split at hd
    · simp at hd
    · rcases List.mem_cons.mp hd with rfl | hd
      · exact Nat.mod_lt _ base64_pos
      · exact ih _ d hd

/-- a little-endian digit list is canonical: digits below the base, most significant digit
    (the last one) non-zero -/
def CanonLE (ds : List Nat) : Prop := (∀ d ∈ ds, d < base64) ∧ ds.getLast? ≠ some 0

theorem canonLE_qwordsLE (fuel n : Nat) (h : n ≤ fuel) : CanonLE (qwordsLE fuel n) := by
  refine ⟨qwordsLE_lt fuel n, ?_⟩
  induction fuel generalizing n with
  | zero => simp [qwordsLE]
  | succ f ih =>
    unfold qwordsLE
    split
    · simp
    · rename_i h0
      have hlt : n / base64 < n := Nat.div_lt_self (by omega) (by unfold base64; decide)
      have ih' := ih (n / base64) (by omega)
      rw [List.getLast?_cons]
      cases hq : (qwordsLE f (n / base64)).getLast? with
      | none =>
        -- no higher digit: `n / base64 = 0`, so the digit is `n ≠ 0`
        have hnil : qwordsLE f (n / base64) = [] := List.getLast?_eq_none_iff.mp hq
        have hv := leVal_qwordsLE f (n / base64) (by omega)
        rw [hnil] at hv
        have hdiv : n / base64 = 0 := hv.symm
        have : n < base64 := by
          by_contra hge
          have : 0 < n / base64 := Nat.div_pos (by omega) base64_pos
          omega
        simp only [Option.getD_none, ne_eq, Option.some.injEq]
        rw [Nat.mod_eq_of_lt this]; exact h0
      | some d =>
        rw [hq] at ih'
        simpa using ih'

theorem canonLE_cons_ne_zero {d : Nat} {ds : List Nat} (h : CanonLE (d :: ds)) :
    leVal (d :: ds) ≠ 0 := by
  induction ds generalizing d with
  | nil =>
    have := h.2
    simp only [List.getLast?_singleton, ne_eq, Option.some.injEq] at this
    simpa [leVal] using this
  | cons d' ds ih =>
    have h' : CanonLE (d' :: ds) := by
      refine ⟨fun x hx => h.1 x (List.mem_cons_of_mem _ hx), ?_⟩
      have := h.2
      rwa [List.getLast?_cons_cons] at this
    have := ih h'
    have hb := base64_pos
    rw [leVal]
    intro h0
    have : base64 * leVal (d' :: ds) = 0 := by omega
    rcases Nat.mul_eq_zero.mp this with h1 | h1 <;> omega

theorem canonLE_tail {d : Nat} {ds : List Nat} (h : CanonLE (d :: ds)) : CanonLE ds := by
  refine ⟨fun x hx => h.1 x (List.mem_cons_of_mem _ hx), ?_⟩
  cases ds with
  | nil => simp
  | cons d' ds => have := h.2; rwa [List.getLast?_cons_cons] at this

/-- canonical digit lists are determined by their value -/
theorem leVal_injective {ds1 ds2 : List Nat} (h1 : CanonLE ds1) (h2 : CanonLE ds2)
    (h : leVal ds1 = leVal ds2) : ds1 = ds2 := by
  induction ds1 generalizing ds2 with
  | nil =>
    cases ds2 with
    | nil => rfl
    | cons d ds => exact absurd h.symm (canonLE_cons_ne_zero h2)
  | cons d ds ih =>
    cases ds2 with
    | nil => exact absurd h (canonLE_cons_ne_zero h1)
    | cons d' ds' =>
      have hd : d < base64 := h1.1 d (by simp)
      have hd' : d' < base64 := h2.1 d' (by simp)
      simp only [leVal] at h
      have e1 : d = d' := by
        have := congrArg (· % base64) h
        simpa [Nat.add_mul_mod_self_left, Nat.mod_eq_of_lt hd, Nat.mod_eq_of_lt hd'] using this
      have e2 : leVal ds = leVal ds' := by
        subst e1
        have : base64 * leVal ds = base64 * leVal ds' := by omega
        exact Nat.eq_of_mul_eq_mul_left base64_pos this
      rw [e1, ih (canonLE_tail h1) (canonLE_tail h2) e2]

/-- digit count: `base64^(len-1) ≤ n < base64^len` -/
theorem qwordsLE_length_bounds (fuel n : Nat) (h : n ≤ fuel) :
    n < base64 ^ (qwordsLE fuel n).length ∧
      (n ≠ 0 → base64 ^ ((qwordsLE fuel n).length - 1) ≤ n) := by
  induction fuel generalizing n with
  | zero =>
    have : n = 0 := by omega
    subst this; simp [qwordsLE]
  | succ f ih =>
    unfold qwordsLE
    split
    · rename_i h0; subst h0; simp
    · rename_i h0
      have hb := base64_pos
      have hlt : n / base64 < n := Nat.div_lt_self (by omega) (by unfold base64; decide)
      obtain ⟨i1, i2⟩ := ih (n / base64) (by omega)
      simp only [List.length_cons, Nat.add_sub_cancel]
      constructor
      · rw [Nat.pow_succ]
        exact (Nat.div_lt_iff_lt_mul hb).mp i1
      · intro _
        by_cases hq : n / base64 = 0
        · have : (qwordsLE f (n / base64)).length = 0 := by
            rw [hq]; cases f <;> simp [qwordsLE]
          rw [this]; simp; omega
        · have i2 := i2 hq
          have hlen : (qwordsLE f (n / base64)).length ≠ 0 := by
            intro h0'
            rw [h0', Nat.pow_zero] at i1
            omega
          have : (qwordsLE f (n / base64)).length =
              ((qwordsLE f (n / base64)).length - 1) + 1 := by omega
          rw [this, Nat.pow_succ]
          exact (Nat.le_div_iff_mul_le hb).mp i2

end qwords

/-! ## 2. the association-list store -/

section store
variable {β : Type}

@[simp] theorem lookup_nil (id : String) : lookup ([] : List (String × β)) id = none := rfl

theorem lookup_filter_ne (l : List (String × β)) {id id' : String} (h : id' ≠ id) :
    lookup (l.filter (·.1 != id)) id' = lookup l id' := by
  unfold lookup
  congr 1
  induction l with
  | nil => rfl
  | cons a l ih =>
    by_cases ha : a.1 = id
    · have h1 : (a.1 != id) = false := by simp [ha]
      have h2 : (a.1 == id') = false := by
        rw [ha]; exact beq_false_of_ne (fun h' => h h'.symm)
      rw [List.filter_cons]
      simp only [h1, Bool.false_eq_true, if_false]
      rw [List.find?_cons_of_neg (by simp [h2]), ih]
    · have h1 : (a.1 != id) = true := by simp [ha]
      rw [List.filter_cons]
      simp only [h1, if_true]
      by_cases hb : a.1 = id'
      · rw [List.find?_cons_of_pos (by simp [hb]), List.find?_cons_of_pos (by simp [hb])]
      · rw [List.find?_cons_of_neg (by simp [hb]), List.find?_cons_of_neg (by simp [hb]), ih]

theorem lookup_filter_self (l : List (String × β)) (id : String) :
    lookup (l.filter (·.1 != id)) id = none := by
  unfold lookup
  rw [Option.map_eq_none_iff, List.find?_eq_none]
  intro x hx
  have := (List.mem_filter.mp hx).2
  simpa using this

theorem lookup_store (l : List (String × β)) (id id' : String) (b : β) :
    lookup (store l id b) id' = if id' = id then some b else lookup l id' := by
  by_cases h : id' = id
  · subst h
    rw [if_pos rfl]
    unfold store lookup
    rw [List.find?_cons_of_pos (by simp)]
    rfl
  · rw [if_neg h, ← lookup_filter_ne l h]
    unfold store lookup
    rw [List.find?_cons_of_neg (by simpa using fun h' => h h'.symm)]

theorem lookup_erase (l : List (String × β)) (id id' : String) :
    lookup (erase l id) id' = if id' = id then none else lookup l id' := by
  unfold erase
  by_cases h : id' = id
  · subst h; rw [if_pos rfl]; exact lookup_filter_self l _
  · rw [if_neg h]; exact lookup_filter_ne l h

theorem lookup_store_self (l : List (String × β)) (id : String) (b : β) :
    lookup (store l id b) id = some b := by rw [lookup_store, if_pos rfl]

theorem lookup_store_ne (l : List (String × β)) {id id' : String} (b : β) (h : id' ≠ id) :
    lookup (store l id b) id' = lookup l id' := by rw [lookup_store, if_neg h]

end store

variable {K : Type} [Field K] [LinearOrder K]

set_option linter.unusedSectionVars false

/-! ## 3. TrustMatrix service: one step -/

/-- invariant of every stored trust matrix -/
def GoodM (tm : TM K) : Prop := WFM tm.m ∧ HiddenClean tm.m ∧ tm.m.major = tm.m.minor

theorem goodM_empty (ts : Nat) : GoodM (⟨CSM.empty, ts⟩ : TM K) := by
  refine ⟨⟨rfl, ?_⟩, ?_, rfl⟩
  · intro r hr; simp [CSM.empty] at hr
  · intro r hr; simp [CSM.empty] at hr

/-- the entry stream of `Get`, rows numbered from `k` -/
def entriesFrom (k : Nat) (rows : List (Row K)) : List (Nat × Nat × K) :=
  ((rows.zipIdx k).map fun (r, i) =>
    (r.filter fun e => !isZero e.val).map fun e => (i, e.idx, e.val)).flatten

/-- the entry stream of `Get` -/
def mEntries (m : CSM K) : List (Nat × Nat × K) := entriesFrom 0 m.rows

theorem tmGet_eq (s : GState K) (id : String) :
    tmGet s id = (lookup s.mats id).map fun tm => (tm.ts, mEntries tm.m) := rfl

def rowEntries (i : Nat) (r : Row K) : List (Nat × Nat × K) :=
  (r.filter fun e => !isZero e.val).map fun e => (i, e.idx, e.val)

theorem entriesFrom_nil (k : Nat) : entriesFrom k ([] : List (Row K)) = [] := rfl

theorem entriesFrom_cons (k : Nat) (r : Row K) (rows : List (Row K)) :
    entriesFrom k (r :: rows) = rowEntries k r ++ entriesFrom (k + 1) rows := by
  simp [entriesFrom, rowEntries, List.zipIdx_cons]

theorem mem_rowEntries {i : Nat} {r : Row K} {x : Nat × Nat × K} :
    x ∈ rowEntries i r ↔ x.1 = i ∧ x.2.2 ≠ 0 ∧ (⟨x.2.1, x.2.2⟩ : Entry K) ∈ r := by
  obtain ⟨a, b, c⟩ := x
  unfold rowEntries
  simp only [List.mem_map, List.mem_filter, s_isZero, Bool.not_eq_true', decide_eq_false_iff_not,
    Prod.mk.injEq]
  constructor
  · rintro ⟨e, ⟨he, hz⟩, rfl, rfl, rfl⟩
    exact ⟨rfl, hz, he⟩
  · rintro ⟨rfl, hz, he⟩
    exact ⟨⟨b, c⟩, ⟨he, hz⟩, rfl, rfl, rfl⟩

theorem mem_entriesFrom {k : Nat} {rows : List (Row K)} {x : Nat × Nat × K} :
    x ∈ entriesFrom k rows ↔
      k ≤ x.1 ∧ x.2.2 ≠ 0 ∧ (⟨x.2.1, x.2.2⟩ : Entry K) ∈ rows.getD (x.1 - k) [] := by
  induction rows generalizing k with
  | nil => simp [entriesFrom_nil]
  | cons r rows ih =>
    rw [entriesFrom_cons, List.mem_append, mem_rowEntries, ih]
    constructor
    · rintro (⟨h1, h2, h3⟩ | ⟨h1, h2, h3⟩)
      · refine ⟨by omega, h2, ?_⟩
        have : x.1 - k = 0 := by omega
        rw [this]; exact h3
      · refine ⟨by omega, h2, ?_⟩
        have : x.1 - k = (x.1 - (k + 1)) + 1 := by omega
        rw [this]; exact h3
    · rintro ⟨h1, h2, h3⟩
      by_cases hk : x.1 = k
      · left
        have : x.1 - k = 0 := by omega
        rw [this] at h3
        exact ⟨hk, h2, h3⟩
      · right
        have : x.1 - k = (x.1 - (k + 1)) + 1 := by omega
        rw [this] at h3
        exact ⟨by omega, h2, h3⟩

/-- the cells streamed by `Get` are exactly the non-zero cells of the dense content -/
theorem mem_mEntries {m : CSM K} (hw : WFM m) (i j : Nat) (v : K) :
    (i, j, v) ∈ mEntries m ↔ v ≠ 0 ∧ v = denRows m.rows i j := by
  unfold mEntries
  rw [mem_entriesFrom]
  simp only [Nat.zero_le, true_and, Nat.sub_zero]
  have hs : Sorted (m.rows.getD i []) := (Mx.WFM.row hw i).1
  constructor
  · rintro ⟨h1, h2⟩
    refine ⟨h1, ?_⟩
    have := Mg.denE_of_mem hs h2
    exact this.symm
  · rintro ⟨h1, h2⟩
    refine ⟨h1, ?_⟩
    have hne : denE (m.rows.getD i []) j ≠ 0 := by
      intro h0; apply h1; rw [h2]; exact h0
    obtain ⟨e, he, hej⟩ := exists_mem_of_denE_ne_zero hne
    have := Mg.denE_of_mem hs he
    rw [hej] at this
    have hev : e = ⟨j, v⟩ := by
      cases e with
      | mk ei ev =>
        simp only at hej this
        subst hej
        rw [h2]; unfold denRows; rw [this]
    rw [← hev]; exact he

/-- strict lexicographic order on the (row, column) coordinates of streamed entries -/
def coordLt (a b : Nat × Nat × K) : Prop := a.1 < b.1 ∨ (a.1 = b.1 ∧ a.2.1 < b.2.1)

theorem rowEntries_pairwise {i : Nat} {r : Row K} (hs : Sorted r) :
    (rowEntries i r).Pairwise coordLt := by
  unfold rowEntries
  rw [List.pairwise_map]
  have : (r.filter fun e => !isZero e.val).Pairwise (fun a b => a.idx < b.idx) :=
    List.Pairwise.sublist List.filter_sublist hs
  exact this.imp (fun h => Or.inr ⟨rfl, h⟩)

theorem entriesFrom_pairwise {k : Nat} {rows : List (Row K)} (hs : ∀ r ∈ rows, Sorted r) :
    (entriesFrom k rows).Pairwise coordLt := by
  induction rows generalizing k with
  | nil => exact List.Pairwise.nil
  | cons r rows ih =>
    rw [entriesFrom_cons]
    refine List.pairwise_append.mpr ⟨rowEntries_pairwise (hs r (by simp)),
      ih (fun r' hr' => hs r' (by simp [hr'])), ?_⟩
    intro a ha b hb
    have h1 := (mem_rowEntries.mp ha).1
    have h2 := (mem_entriesFrom.mp hb).1
    exact Or.inl (by omega)

theorem mEntries_pairwise {m : CSM K} (hw : WFM m) : (mEntries m).Pairwise coordLt :=
  entriesFrom_pairwise (fun r hr => (hw.2 r hr).1)

theorem coordLt_nodup {l : List (Nat × Nat × K)} (h : l.Pairwise coordLt) :
    (l.map fun x => (x.1, x.2.1)).Nodup := by
  unfold List.Nodup
  rw [List.pairwise_map]
  refine h.imp ?_
  intro a b hab heq
  have := Prod.mk.inj heq
  rcases hab with h1 | ⟨_, h2⟩ <;> omega

theorem mEntries_empty : mEntries (CSM.empty : CSM K) = [] := rfl

/-! ### Update -/

theorem foldl_max_ge {γ : Type} (f : γ → Nat) (l : List γ) (a : Nat) :
    a ≤ l.foldl (fun r e => max r (f e)) a ∧ ∀ e ∈ l, f e ≤ l.foldl (fun r e => max r (f e)) a := by
  induction l generalizing a with
  | nil => simp
  | cons x l ih =>
    obtain ⟨h1, h2⟩ := ih (max a (f x))
    rw [List.foldl_cons]
    refine ⟨by omega, ?_⟩
    intro e he
    rcases List.mem_cons.mp he with rfl | he
    · omega
    · exact h2 e he

/-- the squared dimension `Update` gives its batch -/
def dimOf (coos : List (Coo K)) : Nat :=
  max (coos.foldl (fun r e => max r (e.row + 1)) 0) (coos.foldl (fun c e => max c (e.col + 1)) 0)

theorem lt_dimOf {coos : List (Coo K)} {e : Coo K} (he : e ∈ coos) :
    e.row < dimOf coos ∧ e.col < dimOf coos := by
  have h1 := (foldl_max_ge (fun e : Coo K => e.row + 1) coos 0).2 e he
  have h2 := (foldl_max_ge (fun e : Coo K => e.col + 1) coos 0).2 e he
  unfold dimOf
  constructor <;> omega

/-- the stored object after a successful `Update` -/
def updM (tm : TM K) (ts : Nat) (coos : List (Coo K)) : TM K :=
  ⟨(tm.m.merge (CSM.newCSR (dimOf coos) (dimOf coos) coos true)).1, max tm.ts ts⟩

theorem tmUpdate_eq (s : GState K) (id : String) (ts : Nat) (entries : List (MEntry K)) :
    tmUpdate s id ts entries =
      match lookup s.mats id with
      | none => (s, .notFound)
      | some tm =>
        match parseMEntries entries with
        | .error c => (s, c)
        | .ok coos => ({ s with mats := store s.mats id (updM tm ts coos) }, .ok) := rfl

theorem updM_good {tm : TM K} (hg : GoodM tm) (ts : Nat) {coos : List (Coo K)}
    (hd : (coos.map fun e => (e.row, e.col)).Nodup) :
    GoodM (updM tm ts coos) ∧
      denRows (updM tm ts coos).m.rows = coos.foldl C11.assign (denRows tm.m.rows) := by
  obtain ⟨hw, hc, hsq⟩ := hg
  have hB : WFM (CSM.newCSR (dimOf coos) (dimOf coos) coos true) :=
    Mx.newCSR_wfm hd (fun e he _ => (lt_dimOf he).2)
  obtain ⟨h1, h2, _, h4, h5, h6⟩ := C11.merge_matrix tm.m _ hw hc hB
  refine ⟨⟨h4, h5, ?_⟩, ?_⟩
  · show (tm.m.merge _).1.major = (tm.m.merge _).1.minor
    rw [h1, h2, hsq]; rfl
  · show denRows (tm.m.merge _).1.rows = _
    rw [← C11.overlay_newCSR (denRows tm.m.rows) (dimOf coos) (dimOf coos) coos hd
      (fun x hx => (lt_dimOf hx).1)]
    funext i j
    exact h6 i j

/-! ## 4. TrustVector service: one step -/

/-- invariant of every stored trust vector -/
def GoodV (tv : TV K) : Prop := WF tv.v.dim tv.v.entries

theorem goodV_empty (ts : Nat) : GoodV (⟨⟨0, []⟩, ts⟩ : TV K) := Mg.wf_nil 0

/-- the entry stream of the vector `Get` -/
def vEntries (v : Vec K) : List (Nat × K) :=
  (v.entries.filter fun e => !isZero e.val).map fun e => (e.idx, e.val)

theorem tvGet_eq (s : GState K) (id : String) :
    tvGet s id = (lookup s.vecs id).map fun tv => (tv.ts, vEntries tv.v) := rfl

theorem mem_vEntries {v : Vec K} (hs : Sorted v.entries) (i : Nat) (x : K) :
    (i, x) ∈ vEntries v ↔ x ≠ 0 ∧ x = denE v.entries i := by
  unfold vEntries
  simp only [List.mem_map, List.mem_filter, s_isZero, Bool.not_eq_true', decide_eq_false_iff_not,
    Prod.mk.injEq]
  constructor
  · rintro ⟨e, ⟨he, hz⟩, rfl, rfl⟩
    exact ⟨hz, (Mg.denE_of_mem hs he).symm⟩
  · rintro ⟨h1, h2⟩
    have hne : denE v.entries i ≠ 0 := by rw [← h2]; exact h1
    obtain ⟨e, he, hei⟩ := exists_mem_of_denE_ne_zero hne
    have := Mg.denE_of_mem hs he
    rw [hei, ← h2] at this
    exact ⟨e, ⟨he, by rw [← this]; exact h1⟩, hei, this.symm⟩

theorem vEntries_pairwise {v : Vec K} (hs : Sorted v.entries) :
    (vEntries v).Pairwise (fun a b => a.1 < b.1) := by
  unfold vEntries
  rw [List.pairwise_map]
  exact List.Pairwise.sublist List.filter_sublist hs

/-- the size `Update` gives its batch -/
def sizeOf (es : List (Entry K)) : Nat := es.foldl (fun r e => max r (e.idx + 1)) 0

theorem lt_sizeOf {es : List (Entry K)} {e : Entry K} (he : e ∈ es) : e.idx < sizeOf es := by
  have h1 := (foldl_max_ge (fun e : Entry K => e.idx + 1) es 0).2 e he
  unfold sizeOf
  omega

/-- the stored object after a successful vector `Update` -/
def updV (tv : TV K) (ts : Nat) (es : List (Entry K)) : TV K :=
  ⟨(tv.v.merge (Vec.new (sizeOf es) es)).1, max tv.ts ts⟩

theorem tvUpdate_eq (s : GState K) (id : String) (ts : Nat) (entries : List (VEntry K)) :
    tvUpdate s id ts entries =
      match lookup s.vecs id with
      | none => (s, .notFound)
      | some tv =>
        match parseVEntries entries with
        | .error c => (s, c)
        | .ok es => ({ s with vecs := store s.vecs id (updV tv ts es) }, .ok) := rfl

/-- one single-index assignment `idx := val` on a dense vector (`val = 0` erases) -/
def assignV (f : Nat → K) (e : Entry K) : Nat → K := fun i => if e.idx = i then e.val else f i

theorem assignV_fold_of_not_mem (b : List (Entry K)) (f : Nat → K) {i : Nat}
    (h : ∀ x ∈ b, x.idx ≠ i) : b.foldl assignV f i = f i := by
  induction b generalizing f with
  | nil => rfl
  | cons a b ih =>
    rw [List.foldl_cons, ih _ (fun x hx => h x (by simp [hx]))]
    unfold assignV
    rw [if_neg (h a (by simp))]

theorem assignV_fold_of_mem (b : List (Entry K)) (f : Nat → K)
    (hd : (b.map (·.idx)).Nodup) {x : Entry K} (hx : x ∈ b) :
    b.foldl assignV f x.idx = x.val := by
  induction b generalizing f with
  | nil => simp at hx
  | cons a b ih =>
    rw [List.map_cons, List.nodup_cons] at hd
    rw [List.foldl_cons]
    rcases List.mem_cons.mp hx with rfl | hx'
    · rw [assignV_fold_of_not_mem b _ (fun y hy hyx => hd.1 (List.mem_map.mpr ⟨y, hy, hyx⟩))]
      unfold assignV
      rw [if_pos rfl]
    · exact ih _ hd.2 hx'

theorem updV_good {tv : TV K} (hg : GoodV tv) (ts : Nat) {es : List (Entry K)}
    (hd : (es.map (·.idx)).Nodup) :
    GoodV (updV tv ts es) ∧
      denE (updV tv ts es).v.entries = es.foldl assignV (denE tv.v.entries) := by
  have hs : Sorted (sortByIdx es) := Mx.sorted_sortByIdx hd
  have h2 : WF (Vec.new (sizeOf es) es).dim (Vec.new (sizeOf es) es).entries :=
    ⟨hs, fun e he => lt_sizeOf ((Mx.sortByIdx_perm es).mem_iff.mp he)⟩
  obtain ⟨_, _, h3, h4⟩ := C11.merge_vec tv.v _ hg h2
  refine ⟨h3, ?_⟩
  funext i
  show denE (tv.v.merge _).1.entries i = _
  rw [h4 i]
  show (if ∃ e ∈ sortByIdx es, e.idx = i then denE (sortByIdx es) i else denE tv.v.entries i) = _
  by_cases h : ∃ e ∈ sortByIdx es, e.idx = i
  · rw [if_pos h]
    obtain ⟨e, he, rfl⟩ := h
    rw [Mg.denE_of_mem hs he,
      assignV_fold_of_mem es _ hd ((Mx.sortByIdx_perm es).mem_iff.mp he)]
  · rw [if_neg h, assignV_fold_of_not_mem es _ (fun x hx hxi =>
      h ⟨x, (Mx.sortByIdx_perm es).mem_iff.mpr hx, hxi⟩)]

/-! ## 5. Compute service: the staged form of `basicCompute` -/

/-- the effective inputs of `BasicCompute` (compute.go 38-135) -/
structure BcEff (K : Type) where
  ltm : TM K
  pre : Option (TV K)
  gt : TV K
  c2 : CSM K
  p2 : Vec K
  t2 : Vec K
  c4 : CSM K
  p3 : Vec K
  t3 : Vec K
  d4 : CSM K
  a : K
  e : K
  ts2 : Nat

def bcLoadPre (s : GState K) (q : Params K) : Option (Option (TV K)) :=
  if q.preTrustId == "" then some none
  else match lookup s.vecs q.preTrustId with
    | none => none
    | some pt => some (some pt)

def bcAlignPre (c0 : CSM K) (ts0 : Nat) : Option (TV K) → CSM K × Vec K × Nat
  | none => (c0, Vec.new c0.major [], ts0)
  | some pt =>
    if pt.v.dim < c0.major then (c0, pt.v.setDim c0.major, max ts0 pt.ts)
    else if c0.major < pt.v.dim then (c0.setDim pt.v.dim pt.v.dim, pt.v, max ts0 pt.ts)
    else (c0, pt.v, max ts0 pt.ts)

def bcAlignGt (c1 : CSM K) (p1 : Vec K) (gt : TV K) : CSM K × Vec K × Vec K :=
  if gt.v.dim < p1.dim then (c1, p1, gt.v.setDim p1.dim)
  else if p1.dim < gt.v.dim then (c1.setDim gt.v.dim gt.v.dim, p1.setDim gt.v.dim, gt.v)
  else (c1, p1, gt.v)

def bcParamsOK (q : Params K) : Bool :=
  (match q.alpha with | some a => !(lt a zero || lt one a) | none => true) &&
  (match q.epsilon with | some e => !(le e zero || lt one e) | none => true)

def bcFinish (k : Consts K) (q : Params K) (ltm : TM K) (pre : Option (TV K)) (gt : TV K)
    (c2 : CSM K) (p2 t2 : Vec K) (ts2 : Nat) : Except Code (BcEff K) :=
  let p3 := canonicalizeTrustVector p2
  let t3 := canonicalizeTrustVector t2
  match extractDistrust c2 with
  | .error _ => .error .internal
  | .ok (c3, d3) =>
    match canonicalizeLocalTrust c3 (some p3), canonicalizeLocalTrust d3 none with
    | .ok c4, .ok d4 =>
      .ok { ltm := ltm, pre := pre, gt := gt, c2 := c2, p2 := p2, t2 := t2, c4 := c4, p3 := p3,
            t3 := t3, d4 := d4, a := q.alpha.getD k.half,
            e := q.epsilon.getD (div k.epsNum (ofNat c2.major)), ts2 := ts2 }
    | _, _ => .error .internal

def bcPrep (k : Consts K) (s : GState K) (q : Params K) : Except Code (BcEff K) :=
  match lookup s.mats q.localTrustId with
  | none => .error .notFound
  | some ltm =>
    if ltm.m.major ≠ ltm.m.minor then .error .internal else
    match bcLoadPre s q with
    | none => .error .notFound
    | some preOpt =>
      match lookup s.vecs q.globalTrustId with
      | none => .error .notFound
      | some gt =>
        let x := bcAlignPre ltm.m ltm.ts preOpt
        let y := bcAlignGt x.1 x.2.1 gt
        if !bcParamsOK q then .error .invalidArgument
        else bcFinish k q ltm preOpt gt y.1 y.2.1 y.2.2 (max x.2.2 gt.ts)

def bcOpts (q : Params K) (E : BcEff K) : ComputeOpts K :=
  { t0 := some E.t3, resultDim := some E.t3.dim,
    maxIterations := if q.maxIterations = 0 then none else some (q.maxIterations : Int) }

def bcWrite (s : GState K) (q : Params K) (E : BcEff K) (res : ComputeResult K) : GState K :=
  let vecs1 :=
    if q.positiveGlobalTrustId == "" then s.vecs
    else match lookup s.vecs q.positiveGlobalTrustId with
      | none => s.vecs
      | some gtp => store s.vecs q.positiveGlobalTrustId ⟨res.t, max gtp.ts E.ts2⟩
  let gtNow := (lookup vecs1 q.globalTrustId).getD E.gt
  { s with vecs := store vecs1 q.globalTrustId ⟨discountTrustVector res.t E.d4, max gtNow.ts E.ts2⟩ }

theorem basicCompute_eq (fuel : Nat) (k : Consts K) (s : GState K) (q : Params K) :
    basicCompute fuel k s (some q) =
      match bcPrep k s q with
      | .error c => (s, c)
      | .ok E =>
        match compute fuel E.c4 E.p3 E.a E.e (bcOpts q E) with
        | .error _ => (s, .unavailable)
        | .ok res => (bcWrite s q E res, .ok) := by
  obtain ⟨lid, pid, al, ep, gid, mx, pos⟩ := q
  unfold basicCompute bcPrep
  simp only
  cases h1 : lookup s.mats lid with
  | none => rfl
  | some ltm =>
    simp only
    by_cases hsq : ltm.m.major ≠ ltm.m.minor
    · rw [if_pos hsq, if_pos hsq]
    · rw [if_neg hsq, if_neg hsq]
      unfold bcLoadPre
      cases hp : (pid == "") with
      | true =>
        simp only [if_true]
        cases hg : lookup s.vecs gid with
        | none => rfl
        | some gt =>
          simp only [bcAlignPre]
          generalize hy : bcAlignGt ltm.m (Vec.new ltm.m.major []) gt = y
          unfold bcAlignGt at hy
          simp only [hy]
          cases al <;> cases ep <;> simp only [bcParamsOK, Bool.not_and]
          all_goals
            split
            · rfl
            · unfold bcFinish
              simp only
              cases hx : extractDistrust y.1 with
              | error _ => rfl
              | ok cd =>
                obtain ⟨c3, d3⟩ := cd
                simp only
                cases h4 : canonicalizeLocalTrust c3 (some (canonicalizeTrustVector y.2.1)) <;>
                  cases h5 : canonicalizeLocalTrust d3 none <;> rfl
      | false =>
        simp only [Bool.false_eq_true, if_false]
        cases hpt : lookup s.vecs pid with
        | none => rfl
        | some pt =>
          simp only
          cases hg : lookup s.vecs gid with
          | none => rfl
          | some gt =>
            simp only
            generalize hx : bcAlignPre ltm.m ltm.ts (some pt) = x
            simp only [bcAlignPre] at hx
            simp only [hx]
            generalize hy : bcAlignGt x.1 x.2.1 gt = y
            unfold bcAlignGt at hy
            simp only [hy]
            cases al <;> cases ep <;> simp only [bcParamsOK, Bool.not_and]
            all_goals
              split
              · rfl
              · unfold bcFinish
                simp only
                cases hxd : extractDistrust y.1 with
                | error _ => rfl
                | ok cd =>
                  obtain ⟨c3, d3⟩ := cd
                  simp only
                  cases h4 : canonicalizeLocalTrust c3 (some (canonicalizeTrustVector y.2.1)) <;>
                    cases h5 : canonicalizeLocalTrust d3 none <;> rfl

/-- `bcPrep` as an `Option` -/
def bcEffective (k : Consts K) (s : GState K) (q : Params K) : Option (BcEff K) :=
  match bcPrep k s q with
  | .ok E => some E
  | .error _ => none

/-- the timestamp of the optional pre-trust (`0` when none is named) -/
def preTs (pre : Option (TV K)) : Nat := match pre with | none => 0 | some pt => pt.ts
def preDim (pre : Option (TV K)) : Nat := match pre with | none => 0 | some pt => pt.v.dim
def preEntries (pre : Option (TV K)) : List (Entry K) :=
  match pre with | none => [] | some pt => pt.v.entries

theorem bcAlignPre_ts (c0 : CSM K) (ts0 : Nat) (pre : Option (TV K)) :
    (bcAlignPre c0 ts0 pre).2.2 = max ts0 (preTs pre) := by
  cases pre with
  | none => simp [bcAlignPre, preTs]
  | some pt =>
    simp only [bcAlignPre, preTs]
    split
    · rfl
    · split <;> rfl

/-- inversion of a successful preparation -/
theorem bcPrep_ok {k : Consts K} {s : GState K} {q : Params K} {E : BcEff K}
    (h : bcPrep k s q = .ok E) :
    lookup s.mats q.localTrustId = some E.ltm ∧ E.ltm.m.major = E.ltm.m.minor ∧
    bcLoadPre s q = some E.pre ∧ lookup s.vecs q.globalTrustId = some E.gt ∧
    bcParamsOK q = true ∧
    E.c2 = (bcAlignGt (bcAlignPre E.ltm.m E.ltm.ts E.pre).1
      (bcAlignPre E.ltm.m E.ltm.ts E.pre).2.1 E.gt).1 ∧
    E.p2 = (bcAlignGt (bcAlignPre E.ltm.m E.ltm.ts E.pre).1
      (bcAlignPre E.ltm.m E.ltm.ts E.pre).2.1 E.gt).2.1 ∧
    E.t2 = (bcAlignGt (bcAlignPre E.ltm.m E.ltm.ts E.pre).1
      (bcAlignPre E.ltm.m E.ltm.ts E.pre).2.1 E.gt).2.2 ∧
    E.ts2 = max (max E.ltm.ts (preTs E.pre)) E.gt.ts ∧
    E.p3 = canonicalizeTrustVector E.p2 ∧ E.t3 = canonicalizeTrustVector E.t2 ∧
    (∃ c3 d3, extractDistrust E.c2 = .ok (c3, d3) ∧
      canonicalizeLocalTrust c3 (some E.p3) = .ok E.c4 ∧
      canonicalizeLocalTrust d3 none = .ok E.d4) ∧
    E.a = q.alpha.getD k.half ∧ E.e = q.epsilon.getD (k.epsNum / (E.c2.major : K)) := by
  unfold bcPrep at h
  split at h
  · cases h
  · rename_i ltm h1
    split at h
    · cases h
    · rename_i hsq
      split at h
      · cases h
      · rename_i preOpt hp
        split at h
        · cases h
        · rename_i gt hg
          simp only at h
          split at h
          · cases h
          · rename_i hpar
            unfold bcFinish at h
            simp only at h
            split at h
            · cases h
            · rename_i c3 d3 hx
              split at h
              · rename_i c4 d4 h4 h5
                cases h
                refine ⟨h1, by simpa using hsq, hp, hg, by simpa using hpar, rfl, rfl, rfl, ?_,
                  rfl, rfl, ⟨c3, d3, hx, h4, h5⟩, rfl, rfl⟩
                simp only [bcAlignPre_ts]
              · cases h

theorem bcEffective_eq_some {k : Consts K} {s : GState K} {q : Params K} {E : BcEff K} :
    bcEffective k s q = some E ↔ bcPrep k s q = .ok E := by
  unfold bcEffective
  cases bcPrep k s q <;> simp

/-! ### the write-back -/

theorem bcWrite_mats (s : GState K) (q : Params K) (E : BcEff K) (res : ComputeResult K) :
    (bcWrite s q E res).mats = s.mats := rfl

theorem bcWrite_lookup_other (s : GState K) (q : Params K) (E : BcEff K) (res : ComputeResult K)
    {id : String} (h1 : id ≠ q.globalTrustId) (h2 : id ≠ q.positiveGlobalTrustId) :
    lookup (bcWrite s q E res).vecs id = lookup s.vecs id := by
  unfold bcWrite
  simp only
  rw [lookup_store_ne _ _ h1]
  split
  · rfl
  · split
    · rfl
    · rw [lookup_store_ne _ _ h2]

theorem bcWrite_gt (s : GState K) (q : Params K) (E : BcEff K) (res : ComputeResult K)
    (hg : lookup s.vecs q.globalTrustId = some E.gt) :
    lookup (bcWrite s q E res).vecs q.globalTrustId =
      some ⟨discountTrustVector res.t E.d4, max E.gt.ts E.ts2⟩ := by
  unfold bcWrite
  simp only
  rw [lookup_store_self]
  congr 2
  split
  · rw [hg]; rfl
  · split
    · rw [hg]; rfl
    · rename_i gtp hp
      by_cases he : q.globalTrustId = q.positiveGlobalTrustId
      · rw [he, lookup_store_self]
        rw [he, hp] at hg
        cases hg
        simp only [Option.getD_some]
        omega
      · rw [lookup_store_ne _ _ he, hg]; rfl

theorem bcWrite_pos (s : GState K) (q : Params K) (E : BcEff K) (res : ComputeResult K)
    {gtp : TV K} (h0 : q.positiveGlobalTrustId ≠ "")
    (hne : q.positiveGlobalTrustId ≠ q.globalTrustId)
    (hp : lookup s.vecs q.positiveGlobalTrustId = some gtp) :
    lookup (bcWrite s q E res).vecs q.positiveGlobalTrustId =
      some ⟨res.t, max gtp.ts E.ts2⟩ := by
  unfold bcWrite
  simp only
  rw [lookup_store_ne _ _ hne]
  have : (q.positiveGlobalTrustId == "") = false := beq_false_of_ne h0
  rw [this, hp]
  simp only [Bool.false_eq_true, if_false]
  rw [lookup_store_self]

/-! ### the alignment -/

theorem csm_setDim_major (M : CSM K) (r c : Nat) : (M.setDim r c).major = r := by
  unfold CSM.setDim; simp

theorem csm_setDim_minor (M : CSM K) (r c : Nat) : (M.setDim r c).minor = c := by
  unfold CSM.setDim; simp

theorem bcAlignPre_spec (c0 : CSM K) (hsq : c0.major = c0.minor) (ts0 : Nat)
    (pre : Option (TV K)) :
    (bcAlignPre c0 ts0 pre).1.major = max c0.major (preDim pre) ∧
    (bcAlignPre c0 ts0 pre).1.minor = max c0.major (preDim pre) ∧
    (bcAlignPre c0 ts0 pre).2.1 = ⟨max c0.major (preDim pre), preEntries pre⟩ := by
  cases pre with
  | none =>
    refine ⟨?_, ?_, ?_⟩ <;> simp [bcAlignPre, preDim, preEntries, Vec.new, sortByIdx, hsq]
  | some pt =>
    simp only [bcAlignPre, preDim, preEntries]
    split
    · rename_i h
      rw [C11.setDim_of_le _ (Nat.le_of_lt h), Nat.max_eq_left (Nat.le_of_lt h)]
      exact ⟨rfl, hsq.symm, rfl⟩
    · split
      · rename_i h
        rw [Nat.max_eq_right (Nat.le_of_lt h)]
        exact ⟨csm_setDim_major _ _ _, csm_setDim_minor _ _ _, rfl⟩
      · rename_i h1 h2
        have : pt.v.dim = c0.major := by omega
        rw [← this, Nat.max_self]
        exact ⟨rfl, by show c0.minor = pt.v.dim; omega, rfl⟩

theorem bcAlignGt_spec (c1 : CSM K) (p1 : Vec K) (gt : TV K) (h1 : c1.major = p1.dim)
    (h2 : c1.minor = p1.dim) :
    (bcAlignGt c1 p1 gt).1.major = max p1.dim gt.v.dim ∧
    (bcAlignGt c1 p1 gt).1.minor = max p1.dim gt.v.dim ∧
    (bcAlignGt c1 p1 gt).2.1 = ⟨max p1.dim gt.v.dim, p1.entries⟩ ∧
    (bcAlignGt c1 p1 gt).2.2 = ⟨max p1.dim gt.v.dim, gt.v.entries⟩ := by
  unfold bcAlignGt
  split
  · rename_i h
    rw [C11.setDim_of_le _ (Nat.le_of_lt h), Nat.max_eq_left (Nat.le_of_lt h)]
    exact ⟨h1, h2, rfl, rfl⟩
  · split
    · rename_i h
      rw [C11.setDim_of_le _ (Nat.le_of_lt h), Nat.max_eq_right (Nat.le_of_lt h)]
      exact ⟨csm_setDim_major _ _ _, csm_setDim_minor _ _ _, rfl, rfl⟩
    · rename_i h3 h4
      have : gt.v.dim = p1.dim := by omega
      rw [this, Nat.max_self]
      exact ⟨h1, h2, rfl, by rw [← this]⟩

/-- growing a well-formed matrix to `d × d` keeps the invariants and the dense content -/
theorem setDim_grow {M : CSM K} (hw : WFM M) (hc : HiddenClean M) {d : Nat}
    (h1 : M.major ≤ d) (h2 : M.minor ≤ d) :
    WFM (M.setDim d d) ∧ HiddenClean (M.setDim d d) ∧
      denRows (M.setDim d d).rows = denRows M.rows := by
  obtain ⟨a, b, _⟩ := C10.setDim_wf M hw hc d d
  refine ⟨a, b, ?_⟩
  funext i j
  rw [C10.setDim_den M hw hc]
  split
  · rfl
  · rename_i h
    by_cases hi : i < d
    · have hj : M.minor ≤ j := by
        have : ¬ j < d := fun hj => h ⟨hi, hj⟩
        omega
      exact (Mx.denRows_of_ge_minor hw i hj).symm
    · exact (Mx.denRows_of_ge_major hw (by omega) j).symm

/-- the aligned local trust has the dense content of the stored one -/
theorem bcAlign_den {c0 : CSM K} (hw : WFM c0) (hc : HiddenClean c0) (hsq : c0.major = c0.minor)
    (ts0 : Nat) (pre : Option (TV K)) (gt : TV K) :
    WFM (bcAlignGt (bcAlignPre c0 ts0 pre).1 (bcAlignPre c0 ts0 pre).2.1 gt).1 ∧
    HiddenClean (bcAlignGt (bcAlignPre c0 ts0 pre).1 (bcAlignPre c0 ts0 pre).2.1 gt).1 ∧
    denRows (bcAlignGt (bcAlignPre c0 ts0 pre).1 (bcAlignPre c0 ts0 pre).2.1 gt).1.rows =
      denRows c0.rows := by
  have hx : WFM (bcAlignPre c0 ts0 pre).1 ∧ HiddenClean (bcAlignPre c0 ts0 pre).1 ∧
      denRows (bcAlignPre c0 ts0 pre).1.rows = denRows c0.rows := by
    cases pre with
    | none => exact ⟨hw, hc, rfl⟩
    | some pt =>
      simp only [bcAlignPre]
      split
      · exact ⟨hw, hc, rfl⟩
      · split
        · rename_i h
          exact setDim_grow hw hc (Nat.le_of_lt h) (by rw [← hsq]; exact Nat.le_of_lt h)
        · exact ⟨hw, hc, rfl⟩
  obtain ⟨m1, m2, m3⟩ := bcAlignPre_spec c0 hsq ts0 pre
  obtain ⟨x1, x2, x3⟩ := hx
  generalize bcAlignPre c0 ts0 pre = x at *
  unfold bcAlignGt
  split
  · exact ⟨x1, x2, x3⟩
  · split
    · rename_i h
      have hd : x.2.1.dim = max c0.major (preDim pre) := by rw [m3]
      obtain ⟨g1, g2, g3⟩ := setDim_grow x1 x2 (d := gt.v.dim) (by omega) (by omega)
      exact ⟨g1, g2, g3.trans x3⟩
    · exact ⟨x1, x2, x3⟩

end EtVerif.GrpcL
