/-
  An explicit heap model for property C14 ("a compute that references stored local trust leaves
  every stored matrix exactly as it was").

  The pure model (Model/*.lean) treats every slice as a value, so it cannot express that an
  in-place mutation of the working matrix would also change the STORED matrix if the two shared
  memory.  Here entry slices live in a heap of cells; a matrix is a table of row references; the
  Go mutations (`Canonicalize`: `entries[i].Value /= s`; `ExtractDistrust`: `trustRow[i-k] = entry`;
  `SetRowVector`: `m.Entries[i] = vector.Entries`; `SetMajorDim`/`SetMinorDim`: reslicing) are
  modelled as heap writes / reference updates.

  * `Heap α`      — `cells[a]` is the backing array of entry-slice address `a`.
  * `RowRef`      — `nil` or the slice `cells[addr][0:len]`.
  * `MatRef`      — dimensions + row table (+ the hidden capacity of the row table, as in
                    `CSM.hidden`).  The outer `[][]Entry` table is by-value in this model; what a
                    copy shares is chosen by `CopyMode` (`deep`: fresh cell per row, as
                    `deepcopy.Copy` in loadStoredTrustMatrix; `shallow`: same row references).
  * `value h m`   — the `CSM α` denoted.

  Core + a few Mathlib list lemmas; generic in `{α} [Scalar α]`.
-/
import EtVerif.Model.Basic
import Mathlib.Data.List.Basic
import Mathlib.Data.List.Nodup

namespace EtVerif.C14b
open EtVerif Scalar

/-! ## The heap and references into it -/

/-- the heap of entry slices: `cells[a]` is the backing array at address `a` -/
structure Heap (α : Type) where
  cells : List (List (Entry α))

/-- a Go `[]Entry` value: `nil`, or the slice `cells[addr][0:len]` -/
inductive RowRef where
  | nil
  | slice (addr len : Nat)
deriving Repr, DecidableEq, Inhabited

/-- a `sparse.CSMatrix` as the Go struct holds it: dimensions and the row table `Entries`
    (`rows` = `Entries[0:len]`, `hidden` = `Entries[len:cap]`). -/
structure MatRef where
  major : Nat
  minor : Nat
  rows : List RowRef
  hidden : List RowRef := []
deriving Repr, DecidableEq, Inhabited

/-- a `sparse.Vector`: dimension and its `Entries` slice -/
structure VecRef where
  dim : Nat
  row : RowRef
deriving Repr, DecidableEq, Inhabited

def RowRef.addr? : RowRef → Option Nat
  | .nil => none
  | .slice a _ => some a

/-- the addresses a list of row references points to -/
def addrsOf (rs : List RowRef) : List Nat := rs.filterMap RowRef.addr?

def MatRef.addrs (m : MatRef) : List Nat := addrsOf (m.rows ++ m.hidden)

variable {α : Type}

/-- the content of cell `a` (`[]` when unallocated) -/
def Heap.cell (h : Heap α) (a : Nat) : List (Entry α) := (h.cells[a]?).getD []

/-- overwrite the whole backing array at `a` (no effect when `a` is unallocated) -/
def Heap.write (h : Heap α) (a : Nat) (c : List (Entry α)) : Heap α := ⟨h.cells.set a c⟩

/-- allocate a fresh cell; returns the new heap and the new address -/
def alloc (h : Heap α) (c : List (Entry α)) : Heap α × Nat := (⟨h.cells ++ [c]⟩, h.cells.length)

/-- the entries a row reference denotes -/
def deref (h : Heap α) : RowRef → List (Entry α)
  | .nil => []
  | .slice a l => (h.cell a).take l

/-- the matrix a `MatRef` denotes -/
def value (h : Heap α) (m : MatRef) : CSM α :=
  ⟨m.major, m.minor, m.rows.map (deref h), m.hidden.map (deref h)⟩

/-- the vector a `VecRef` denotes -/
def vecValue (h : Heap α) (p : VecRef) : Vec α := ⟨p.dim, deref h p.row⟩

/-! ## Well-formedness -/

/-- the reference points into the allocated part of the heap -/
def RowRef.InRange (h : Heap α) (r : RowRef) : Prop := ∀ a ∈ r.addr?, a < h.cells.length

/-- all references of a list point into the allocated part of the heap -/
def RowsInRange (h : Heap α) (rs : List RowRef) : Prop := ∀ a ∈ addrsOf rs, a < h.cells.length

def MatRef.InRange (h : Heap α) (m : MatRef) : Prop := ∀ a ∈ m.addrs, a < h.cells.length

/-- distinct rows of the row table (visible or hidden: `SetMajorDim` can re-expose hidden rows)
    do not share a cell. -/
def MatRef.Sep (m : MatRef) : Prop := m.addrs.Nodup

instance (h : Heap α) (r : RowRef) : Decidable (r.InRange h) := by
  unfold RowRef.InRange; infer_instance
instance (h : Heap α) (rs : List RowRef) : Decidable (RowsInRange h rs) := by
  unfold RowsInRange; infer_instance
instance (h : Heap α) (m : MatRef) : Decidable (m.InRange h) := by
  unfold MatRef.InRange; infer_instance
instance (m : MatRef) : Decidable m.Sep := by
  unfold MatRef.Sep; infer_instance

/-! ## Framing: which cells an operation may have written -/

/-- `h'` arises from `h` by writing only cells whose address is in `S` and by allocating:
    every other cell that existed in `h` is unchanged. -/
def Frame (S : List Nat) (h h' : Heap α) : Prop :=
  h.cells.length ≤ h'.cells.length ∧
  ∀ a, a < h.cells.length → a ∉ S → h'.cells[a]? = h.cells[a]?

theorem Frame.refl (S : List Nat) (h : Heap α) : Frame S h h := ⟨Nat.le_refl _, fun _ _ _ => rfl⟩

theorem Frame.trans {S S' : List Nat} {h h' h'' : Heap α} (f : Frame S h h') (g : Frame S' h' h'') :
    Frame (S ++ S') h h'' := by
  refine ⟨Nat.le_trans f.1 g.1, fun a ha hn => ?_⟩
  rw [List.mem_append, not_or] at hn
  rw [g.2 a (Nat.lt_of_lt_of_le ha f.1) hn.2, f.2 a ha hn.1]

theorem Frame.mono {S S' : List Nat} {h h' : Heap α} (f : Frame S h h') (hs : ∀ a ∈ S, a ∈ S') :
    Frame S' h h' :=
  ⟨f.1, fun a ha hn => f.2 a ha (fun hm => hn (hs a hm))⟩

theorem frame_write (h : Heap α) (a : Nat) (c : List (Entry α)) : Frame [a] h (h.write a c) := by
  refine ⟨by simp [Heap.write], fun b _ hn => ?_⟩
  have : a ≠ b := fun e => hn (by simp [e])
  simp [Heap.write, List.getElem?_set_ne this]

theorem frame_alloc (h : Heap α) (c : List (Entry α)) : Frame [] h (alloc h c).1 := by
  refine ⟨by simp [alloc], fun b hb _ => ?_⟩
  simp [alloc, List.getElem?_append_left hb]

@[simp] theorem write_length (h : Heap α) (a : Nat) (c : List (Entry α)) :
    (h.write a c).cells.length = h.cells.length := by simp [Heap.write]

@[simp] theorem alloc_length (h : Heap α) (c : List (Entry α)) :
    (alloc h c).1.cells.length = h.cells.length + 1 := by simp [alloc]

@[simp] theorem alloc_addr (h : Heap α) (c : List (Entry α)) : (alloc h c).2 = h.cells.length := rfl

theorem cell_write_self {h : Heap α} {a : Nat} (ha : a < h.cells.length) (c : List (Entry α)) :
    (h.write a c).cell a = c := by
  simp [Heap.cell, Heap.write, ha]

theorem cell_alloc_self (h : Heap α) (c : List (Entry α)) :
    (alloc h c).1.cell h.cells.length = c := by
  simp [Heap.cell, alloc]

theorem cell_of_not_lt {h : Heap α} {a : Nat} (ha : ¬ a < h.cells.length) : h.cell a = [] := by
  simp [Heap.cell, List.getElem?_eq_none (Nat.le_of_not_lt ha)]

theorem write_of_not_lt {h : Heap α} {a : Nat} (ha : ¬ a < h.cells.length) (c : List (Entry α)) :
    h.write a c = h := by
  simp [Heap.write, List.set_eq_of_length_le (Nat.le_of_not_lt ha)]

/-- a reference into the old heap that avoids the written addresses denotes the same entries -/
theorem deref_frame {S : List Nat} {h h' : Heap α} (f : Frame S h h') {r : RowRef}
    (hin : r.InRange h) (hn : ∀ a ∈ r.addr?, a ∉ S) : deref h' r = deref h r := by
  cases r with
  | nil => rfl
  | slice a l =>
    have h1 := hin a (by simp [RowRef.addr?])
    have h2 := hn a (by simp [RowRef.addr?])
    simp [deref, Heap.cell, f.2 a h1 h2]

theorem mem_addrsOf {rs : List RowRef} {a : Nat} :
    a ∈ addrsOf rs ↔ ∃ r ∈ rs, r.addr? = some a := by
  simp [addrsOf, List.mem_filterMap]

theorem map_deref_frame {S : List Nat} {h h' : Heap α} (f : Frame S h h') {rs : List RowRef}
    (hin : RowsInRange h rs) (hn : ∀ a ∈ addrsOf rs, a ∉ S) :
    rs.map (deref h') = rs.map (deref h) := by
  apply List.map_congr_left
  intro r hr
  apply deref_frame f
  · intro a ha; exact hin a (mem_addrsOf.mpr ⟨r, hr, by simpa using ha⟩)
  · intro a ha; exact hn a (mem_addrsOf.mpr ⟨r, hr, by simpa using ha⟩)

/-- every cell that existed below `n` is unchanged when all written addresses are `≥ n` -/
theorem Frame.below {S : List Nat} {h h' : Heap α} (f : Frame S h h') {n : Nat}
    (hn : n ≤ h.cells.length) (hS : ∀ a ∈ S, n ≤ a) :
    ∀ a < n, h'.cells[a]? = h.cells[a]? :=
  fun a ha => f.2 a (Nat.lt_of_lt_of_le ha hn) (fun hm => by have := hS a hm; omega)

@[simp] theorem addrsOf_nil : addrsOf [] = [] := rfl
@[simp] theorem addrsOf_cons_nil (rs : List RowRef) : addrsOf (.nil :: rs) = addrsOf rs := rfl
@[simp] theorem addrsOf_cons_slice (a l : Nat) (rs : List RowRef) :
    addrsOf (.slice a l :: rs) = a :: addrsOf rs := rfl
@[simp] theorem addrsOf_append (rs rs' : List RowRef) :
    addrsOf (rs ++ rs') = addrsOf rs ++ addrsOf rs' := by simp [addrsOf]

theorem addrsOf_cons (r : RowRef) (rs : List RowRef) :
    addrsOf (r :: rs) = r.addr?.toList ++ addrsOf rs := by
  cases r <;> simp [RowRef.addr?]

theorem rowsInRange_cons {h : Heap α} {r : RowRef} {rs : List RowRef} :
    RowsInRange h (r :: rs) ↔ r.InRange h ∧ RowsInRange h rs := by
  cases r <;> simp [RowsInRange, RowRef.InRange, RowRef.addr?]

theorem RowsInRange.mono {h h' : Heap α} {rs : List RowRef} (hr : RowsInRange h rs)
    (hl : h.cells.length ≤ h'.cells.length) : RowsInRange h' rs :=
  fun a ha => Nat.lt_of_lt_of_le (hr a ha) hl

theorem RowRef.InRange.mono {h h' : Heap α} {r : RowRef} (hr : r.InRange h)
    (hl : h.cells.length ≤ h'.cells.length) : r.InRange h' :=
  fun a ha => Nat.lt_of_lt_of_le (hr a ha) hl

/-! ## Copies -/

/-- deep copy of one row: a fresh cell holding the denoted entries (nil stays nil) -/
def deepCopyRow (h : Heap α) : RowRef → Heap α × RowRef
  | .nil => (h, .nil)
  | .slice a l => ((alloc h (deref h (.slice a l))).1, .slice h.cells.length l)

def deepCopyRows : Heap α → List RowRef → Heap α × List RowRef
  | h, [] => (h, [])
  | h, r :: rs =>
    let x := deepCopyRow h r
    let y := deepCopyRows x.1 rs
    (y.1, x.2 :: y.2)

/-- `deepcopy.Copy(c0)` (openapi.go loadStoredTrustMatrix): fresh row table, fresh cell per
    non-nil row, contents copied.  (mohae/deepcopy makes the new table with the old capacity and
    copies `len` elements, so the copy's hidden rows are nil; here hidden rows are copied like
    visible ones, which coincides under the repaired `SetMajorDim` — hidden rows are nil — and
    otherwise only gives the copy more to re-expose: all of it in fresh cells.) -/
def deepCopy (h : Heap α) (m : MatRef) : Heap α × MatRef :=
  let x := deepCopyRows h m.rows
  let y := deepCopyRows x.1 m.hidden
  (y.1, { m with rows := x.2, hidden := y.2 })

/-- a struct copy / shallow row-table copy: the same row references -/
def shallowCopy (h : Heap α) (m : MatRef) : Heap α × MatRef := (h, m)

inductive CopyMode where
  | deep
  | shallow
deriving Repr, DecidableEq

def copyMat (mode : CopyMode) (h : Heap α) (m : MatRef) : Heap α × MatRef :=
  match mode with
  | .deep => deepCopy h m
  | .shallow => shallowCopy h m

/-- what a deep copy of a list of rows guarantees -/
structure CopySpec (h h' : Heap α) (rs rs' : List RowRef) : Prop where
  frame : Frame [] h h'
  fresh : ∀ a ∈ addrsOf rs', h.cells.length ≤ a ∧ a < h'.cells.length
  nodup : (addrsOf rs').Nodup
  val : RowsInRange h rs → rs'.map (deref h') = rs.map (deref h)

theorem deepCopyRow_spec (h : Heap α) (r : RowRef) :
    CopySpec h (deepCopyRow h r).1 [r] [(deepCopyRow h r).2] := by
  cases r with
  | nil => exact ⟨Frame.refl _ _, by simp [deepCopyRow], by simp [deepCopyRow], fun _ => rfl⟩
  | slice a l =>
    refine ⟨frame_alloc _ _, by simp [deepCopyRow], by simp [deepCopyRow], fun _ => ?_⟩
    simp only [deepCopyRow, List.map_cons, List.map_nil, List.cons.injEq, and_true]
    show ((alloc h _).1.cell h.cells.length).take l = _
    rw [cell_alloc_self]
    simp [deref, List.take_take]

theorem deepCopyRows_spec (h : Heap α) (rs : List RowRef) :
    CopySpec h (deepCopyRows h rs).1 rs (deepCopyRows h rs).2 := by
  induction rs generalizing h with
  | nil => exact ⟨Frame.refl _ _, by simp [deepCopyRows], by simp [deepCopyRows], fun _ => rfl⟩
  | cons r rs ih =>
    have s1 := deepCopyRow_spec h r
    have s2 := ih (deepCopyRow h r).1
    simp only [deepCopyRows]
    refine ⟨(s1.frame.trans s2.frame).mono (by simp), ?_, ?_, ?_⟩
    · intro a ha
      rw [addrsOf_cons, List.mem_append] at ha
      rcases ha with ha | ha
      · have := s1.fresh a (by rw [addrsOf_cons]; simpa using ha)
        have := s2.frame.1; omega
      · have := s2.fresh a ha
        have := s1.frame.1; omega
    · rw [addrsOf_cons]
      refine List.Nodup.append ?_ s2.nodup ?_
      · cases (deepCopyRow h r).2 <;> simp [RowRef.addr?]
      · intro a ha hb
        have h1 := s1.fresh a (by rw [addrsOf_cons]; simpa using ha)
        have h2 := s2.fresh a hb
        omega
    · intro hin
      rw [rowsInRange_cons] at hin
      simp only [List.map_cons, List.cons.injEq]
      constructor
      · have e1 := s1.val (by rw [rowsInRange_cons]; exact ⟨hin.1, by simp [RowsInRange]⟩)
        simp only [List.map_cons, List.map_nil, List.cons.injEq, and_true] at e1
        rw [← e1]
        apply deref_frame s2.frame
        · intro a ha
          exact (s1.fresh a (by rw [addrsOf_cons]; simpa using ha)).2
        · simp
      · rw [s2.val (hin.2.mono s1.frame.1)]
        exact map_deref_frame s1.frame hin.2 (by simp)

theorem deepCopyRows_length (h : Heap α) (rs : List RowRef) :
    (deepCopyRows h rs).2.length = rs.length := by
  induction rs generalizing h with
  | nil => rfl
  | cons r rs ih => simp [deepCopyRows, ih]

theorem deepCopy_dims (h : Heap α) (m : MatRef) :
    (deepCopy h m).2.major = m.major ∧ (deepCopy h m).2.minor = m.minor ∧
    (deepCopy h m).2.rows.length = m.rows.length := by
  simp [deepCopy, deepCopyRows_length]

/-- what `deepCopy` guarantees: old cells untouched, the copy's cells are fresh and pairwise
    distinct, and the copy denotes the same matrix. -/
theorem deepCopy_spec (h : Heap α) (m : MatRef) :
    Frame [] h (deepCopy h m).1 ∧
    (∀ a ∈ (deepCopy h m).2.addrs, h.cells.length ≤ a ∧ a < (deepCopy h m).1.cells.length) ∧
    (deepCopy h m).2.addrs.Nodup ∧
    (m.InRange h → value (deepCopy h m).1 (deepCopy h m).2 = value h m) := by
  have s1 := deepCopyRows_spec h m.rows
  have s2 := deepCopyRows_spec (deepCopyRows h m.rows).1 m.hidden
  simp only [deepCopy, MatRef.addrs, addrsOf_append]
  refine ⟨(s1.frame.trans s2.frame).mono (by simp), ?_, ?_, ?_⟩
  · intro a ha
    rcases List.mem_append.mp ha with ha | ha
    · have := s1.fresh a ha; have := s2.frame.1; omega
    · have := s2.fresh a ha; have := s1.frame.1; omega
  · refine List.Nodup.append s1.nodup s2.nodup ?_
    intro a ha hb
    have := s1.fresh a ha; have := s2.fresh a hb; omega
  · intro hin
    have hin1 : RowsInRange h m.rows := fun a ha => hin a (by simp [MatRef.addrs, ha])
    have hin2 : RowsInRange h m.hidden := fun a ha => hin a (by simp [MatRef.addrs, ha])
    simp only [value, CSM.mk.injEq, true_and]
    constructor
    · rw [← s1.val hin1]
      exact map_deref_frame s2.frame (fun a ha => (s1.fresh a ha).2) (by simp)
    · rw [s2.val (hin2.mono s1.frame.1)]
      exact map_deref_frame s1.frame hin2 (by simp)

/-! ## SetDim: reslicing of the row table and of the rows; never writes a cell -/

/-- CSMatrix.SetMajorDim (matrix.go 46-57) on the row table (cf. `CSM.setMajorDim`). -/
def setMajorDimH (m : MatRef) (dim : Nat) : MatRef :=
  let len := m.rows.length
  let cap := len + m.hidden.length
  if cap < dim then
    { m with major := dim, rows := m.rows ++ List.replicate (dim - len) .nil, hidden := [] }
  else
    let all := m.rows ++ m.hidden
    { m with major := dim, rows := all.take dim,
             hidden := (all.drop dim).zipIdx.map fun (r, i) => if dim + i < len then .nil else r }

/-- `entries[:end]` with `end = sort.Search(…Index >= dim)`: same cell, shorter slice. -/
def shorten (h : Heap α) (dim : Nat) : RowRef → RowRef
  | .nil => .nil
  | .slice a l => .slice a ((deref h (.slice a l)).takeWhile (·.idx < dim)).length

/-- CSMatrix.SetMinorDim (matrix.go 61-70): reads the cells, reslices the rows. -/
def setMinorDimH (h : Heap α) (m : MatRef) (dim : Nat) : MatRef :=
  if dim < m.minor then { m with minor := dim, rows := m.rows.map (shorten h dim) }
  else { m with minor := dim }

def setDimRef (h : Heap α) (m : MatRef) (rows cols : Nat) : MatRef :=
  setMinorDimH h (setMajorDimH m rows) cols

/-- CSRMatrix.SetDim: the heap is returned unchanged. -/
def setDimH (h : Heap α) (m : MatRef) (rows cols : Nat) : Heap α × MatRef :=
  (h, setDimRef h m rows cols)

theorem deref_shorten (h : Heap α) (dim : Nat) (r : RowRef) :
    deref h (shorten h dim r) = (deref h r).takeWhile (·.idx < dim) := by
  cases r with
  | nil => rfl
  | slice a l =>
    simp only [shorten, deref]
    have h1 : ((h.cell a).take l).takeWhile (·.idx < dim) <+: h.cell a :=
      (List.takeWhile_prefix _).trans (List.take_prefix _ _)
    exact (List.prefix_iff_eq_take.mp h1).symm

theorem value_setMajorDimH (h : Heap α) (m : MatRef) (dim : Nat) :
    value h (setMajorDimH m dim) = (value h m).setMajorDim dim := by
  unfold setMajorDimH CSM.setMajorDim
  simp only [value, List.length_map]
  by_cases hc : m.rows.length + m.hidden.length < dim
  · simp [hc, deref]
  · simp only [hc, if_false, CSM.mk.injEq, true_and, ← List.map_append, List.map_take,
      List.map_map]
    rw [← List.map_drop, List.zipIdx_map, List.map_map]
    apply List.map_congr_left
    rintro ⟨r, i⟩ _
    simp only [Function.comp, Prod.map, id]
    split <;> simp [deref]

theorem value_setMinorDimH (h : Heap α) (m : MatRef) (dim : Nat) :
    value h (setMinorDimH h m dim) = (value h m).setMinorDim dim := by
  unfold setMinorDimH CSM.setMinorDim
  simp only [value]
  by_cases hc : dim < m.minor
  · simp only [hc, if_true, CSM.mk.injEq, true_and, List.map_map, and_true]
    apply List.map_congr_left
    intro r _
    simp [deref_shorten]
  · simp [hc]

/-- refinement: `setDimH` denotes `CSM.setDim` -/
theorem value_setDimRef (h : Heap α) (m : MatRef) (rows cols : Nat) :
    value h (setDimRef h m rows cols) = (value h m).setDim rows cols := by
  simp [setDimRef, CSM.setDim, value_setMinorDimH, value_setMajorDimH]

theorem addr_shorten (h : Heap α) (dim : Nat) (r : RowRef) : (shorten h dim r).addr? = r.addr? := by
  cases r <;> rfl

theorem addrsOf_map_shorten (h : Heap α) (dim : Nat) (rs : List RowRef) :
    addrsOf (rs.map (shorten h dim)) = addrsOf rs := by
  induction rs with
  | nil => rfl
  | cons r rs ih => rw [List.map_cons, addrsOf_cons, addrsOf_cons, ih, addr_shorten]

theorem addrsOf_clear_sublist (dim len : Nat) (rs : List RowRef) (k : Nat) :
    (addrsOf ((rs.zipIdx k).map fun x => if dim + x.snd < len then RowRef.nil else x.fst)).Sublist
      (addrsOf rs) := by
  induction rs generalizing k with
  | nil => simp
  | cons r rs ih =>
    simp only [List.zipIdx_cons, List.map_cons]
    split
    · rw [addrsOf_cons_nil, addrsOf_cons]
      exact (ih (k + 1)).trans (List.sublist_append_right _ _)
    · rw [addrsOf_cons, addrsOf_cons]
      exact (List.Sublist.refl _).append (ih (k + 1))

theorem addrs_setMajorDimH (m : MatRef) (dim : Nat) :
    (setMajorDimH m dim).addrs.Sublist m.addrs := by
  unfold setMajorDimH MatRef.addrs
  by_cases hc : m.rows.length + m.hidden.length < dim
  · simp only [hc, if_true, List.append_nil, addrsOf_append]
    have : addrsOf (List.replicate (dim - m.rows.length) RowRef.nil) = [] := by
      simp [addrsOf, List.filterMap_replicate, RowRef.addr?]
    rw [this, List.append_nil]
    exact List.sublist_append_left _ _
  · simp only [hc, if_false]
    rw [addrsOf_append]
    conv => rhs; rw [← List.take_append_drop dim (m.rows ++ m.hidden), addrsOf_append]
    exact (List.Sublist.refl _).append
      (addrsOf_clear_sublist dim m.rows.length _ 0)

theorem addrs_setMinorDimH (h : Heap α) (m : MatRef) (dim : Nat) :
    (setMinorDimH h m dim).addrs = m.addrs := by
  unfold setMinorDimH MatRef.addrs
  split
  · simp [addrsOf_map_shorten]
  · rfl

theorem addrs_setDimRef (h : Heap α) (m : MatRef) (rows cols : Nat) :
    (setDimRef h m rows cols).addrs.Sublist m.addrs := by
  unfold setDimRef
  rw [addrs_setMinorDimH]
  exact addrs_setMajorDimH m rows

theorem rows_length_setMajorDimH (m : MatRef) (dim : Nat) :
    (setMajorDimH m dim).rows.length = (setMajorDimH m dim).major := by
  unfold setMajorDimH
  by_cases hc : m.rows.length + m.hidden.length < dim
  · simp [hc]; omega
  · simp [hc]; omega

theorem rows_length_setDimRef (h : Heap α) (m : MatRef) (rows cols : Nat) :
    (setDimRef h m rows cols).rows.length = (setDimRef h m rows cols).major := by
  have := rows_length_setMajorDimH m rows
  unfold setDimRef setMinorDimH
  split <;> simpa using this

/-! ## Canonicalize / CanonicalizeLocalTrust: in-place division, row substitution by aliasing -/

section canon
variable [Scalar α]

/-- the new content of a cell whose first `l` entries were rewritten to `es'` -/
def overwriteFront (c : List (Entry α)) (l : Nat) (es' : List (Entry α)) : List (Entry α) :=
  es' ++ c.drop l

/-- Canonicalize (eigentrust.go 25-38) on a slice: `entries[i].Value /= s` WRITES THE CELL, so every
    reference to that address sees the division.  Zero sum: error, nothing written. -/
def canonicalizeRowInPlace (h : Heap α) (r : RowRef) : Except SErr (Heap α) :=
  let es := deref h r
  let s := kbnSum (es.map (·.val))
  if isZero s then .error .zeroSum
  else match r with
    | .nil => .ok h
    | .slice a l =>
      .ok (h.write a (overwriteFront (h.cell a) l (es.map fun e => ⟨e.idx, div e.val s⟩)))

/-- one iteration of the loop of CanonicalizeLocalTrust (localtrust.go 30-42) on the row reference
    `r`: canonicalise in place; on zero sum with a pre-trust vector the row reference is REPLACED
    by the pre-trust vector's own slice (`SetRowVector(i, preTrust)`: aliasing). -/
def canonRowH (p : Option VecRef) (h : Heap α) (r : RowRef) : Heap α × RowRef :=
  match canonicalizeRowInPlace h r with
  | .ok h' => (h', r)
  | .error _ => match p with
    | some pv => (h, pv.row)
    | none => (h, r)

/-- the loop, by structural recursion over the row table -/
def canonRowsH (p : Option VecRef) : Heap α → List RowRef → Heap α × List RowRef
  | h, [] => (h, [])
  | h, r :: rs =>
    let x := canonRowH p h r
    let y := canonRowsH p x.1 rs
    (y.1, x.2 :: y.2)

/-- one iteration of the Go loop, as written: read `Entries[i]` from the CURRENT table,
    canonicalise in place, possibly `Entries[i] = preTrust.Entries`. -/
def canonStepH (p : Option VecRef) (st : Heap α × List RowRef) (i : Nat) : Heap α × List RowRef :=
  let x := canonRowH p st.1 (st.2.getD i .nil)
  (x.1, st.2.set i x.2)

/-- `for i := 0; i < n; i++ { … }` over the current table -/
def canonLoopH (p : Option VecRef) (h : Heap α) (rows : List RowRef) (n : Nat) :
    Heap α × List RowRef :=
  (List.range n).foldl (canonStepH p) (h, rows)

/-- `preTrust != nil && n != preTrust.Dim` -/
def preTrustDimBad (m : MatRef) (p : Option VecRef) : Bool :=
  match p with
  | some pv => decide (m.major ≠ pv.dim)
  | none => false

/-- CanonicalizeLocalTrust (localtrust.go 20-44).  Errors are raised before anything is written. -/
def canonicalizeLocalTrustH (h : Heap α) (m : MatRef) (p : Option VecRef) :
    Except SErr (Heap α × MatRef) :=
  if m.major ≠ m.minor then .error .dimMismatch
  else if preTrustDimBad m p then .error .dimMismatch
  else
    let x := canonLoopH p h m.rows m.major
    .ok (x.1, { m with rows := x.2 })

omit [Scalar α] in
theorem take_overwriteFront (c : List (Entry α)) (l : Nat) (f : Entry α → Entry α) :
    (overwriteFront c l ((c.take l).map f)).take l = (c.take l).map f := by
  unfold overwriteFront
  by_cases hl : l ≤ c.length
  · have : ((c.take l).map f).length = l := by simp [hl]
    rw [List.take_left' this]
  · have h1 : c.drop l = [] := List.drop_eq_nil_of_le (by omega)
    rw [h1, List.append_nil]
    apply List.take_of_length_le
    simp; omega

/-- one row: what `canonRowH` writes and what the resulting reference denotes -/
theorem canonRowH_spec (p : Option VecRef) (h : Heap α) (r : RowRef) :
    Frame (addrsOf [r]) h (canonRowH p h r).1 ∧
    (canonRowH p h r).1.cells.length = h.cells.length ∧
    deref (canonRowH p h r).1 (canonRowH p h r).2 = canonRow (p.map (vecValue h)) (deref h r) ∧
    ((canonRowH p h r).2 = r ∨ ∃ pv, p = some pv ∧ (canonRowH p h r).2 = pv.row) := by
  unfold canonRowH canonicalizeRowInPlace canonRow canonicalize
  by_cases hz : isZero (kbnSum ((deref h r).map (·.val))) = true
  · simp only [hz, if_true]
    cases p with
    | none => exact ⟨Frame.refl _ _, rfl, rfl, Or.inl rfl⟩
    | some pv => exact ⟨Frame.refl _ _, rfl, rfl, Or.inr ⟨pv, rfl, rfl⟩⟩
  · simp only [hz]
    cases r with
    | nil => exact ⟨Frame.refl _ _, rfl, by simp [deref], Or.inl rfl⟩
    | slice a l =>
      refine ⟨by simpa using frame_write h a _, by simp, ?_, Or.inl rfl⟩
      by_cases ha : a < h.cells.length
      · simp only [deref, cell_write_self ha, Bool.false_eq_true, if_false]
        exact take_overwriteFront _ _ _
      · simp [write_of_not_lt ha, deref, cell_of_not_lt ha]

omit [Scalar α] in
/-- as `deref_frame`, for operations that do not allocate: no in-range hypothesis needed -/
theorem deref_frame' {S : List Nat} {h h' : Heap α} (f : Frame S h h')
    (hl : h'.cells.length = h.cells.length) {r : RowRef} (hn : ∀ a ∈ r.addr?, a ∉ S) :
    deref h' r = deref h r := by
  cases r with
  | nil => rfl
  | slice a l =>
    by_cases ha : a < h.cells.length
    · exact deref_frame f (fun b hb => by simp [RowRef.addr?] at hb; omega) hn
    · simp [deref, cell_of_not_lt ha, cell_of_not_lt (hl ▸ ha)]

omit [Scalar α] in
theorem map_deref_frame' {S : List Nat} {h h' : Heap α} (f : Frame S h h')
    (hl : h'.cells.length = h.cells.length) {rs : List RowRef} (hn : ∀ a ∈ addrsOf rs, a ∉ S) :
    rs.map (deref h') = rs.map (deref h) := by
  apply List.map_congr_left
  intro r hr
  apply deref_frame' f hl
  intro a ha; exact hn a (mem_addrsOf.mpr ⟨r, hr, by simpa using ha⟩)

/-- the loop writes only cells of the rows it was given, and allocates nothing -/
theorem canonRowsH_frame (p : Option VecRef) (h : Heap α) (rs : List RowRef) :
    Frame (addrsOf rs) h (canonRowsH p h rs).1 ∧
    (canonRowsH p h rs).1.cells.length = h.cells.length := by
  induction rs generalizing h with
  | nil => exact ⟨Frame.refl _ _, rfl⟩
  | cons r rs ih =>
    obtain ⟨f1, l1, -, -⟩ := canonRowH_spec p h r
    obtain ⟨f2, l2⟩ := ih (canonRowH p h r).1
    simp only [canonRowsH]
    refine ⟨(f1.trans f2).mono ?_, by rw [l2, l1]⟩
    intro a ha
    rw [addrsOf_cons r rs]
    simpa [addrsOf_cons r []] using ha

/-- the references after the loop: each is the old one or the pre-trust vector's -/
theorem canonRowsH_refs (p : Option VecRef) (h : Heap α) (rs : List RowRef) :
    ∀ a ∈ addrsOf (canonRowsH p h rs).2,
      a ∈ addrsOf rs ∨ ∃ pv, p = some pv ∧ pv.row.addr? = some a := by
  induction rs generalizing h with
  | nil => simp [canonRowsH]
  | cons r rs ih =>
    obtain ⟨-, -, -, o1⟩ := canonRowH_spec p h r
    intro a ha
    simp only [canonRowsH] at ha
    rw [addrsOf_cons, List.mem_append] at ha
    rcases ha with ha | ha
    · rcases o1 with e | ⟨pv, e1, e2⟩
      · left; rw [addrsOf_cons, List.mem_append]; left; rw [← e]; exact ha
      · right; exact ⟨pv, e1, by rw [e2] at ha; simpa using ha⟩
    · rcases ih _ a ha with h1 | h1
      · left; rw [addrsOf_cons, List.mem_append]; right; exact h1
      · right; exact h1

theorem canonRowsH_length (p : Option VecRef) (h : Heap α) (rs : List RowRef) :
    (canonRowsH p h rs).2.length = rs.length := by
  induction rs generalizing h with
  | nil => rfl
  | cons r rs ih => simp [canonRowsH, ih]

/-- refinement of the loop: if the rows do not alias each other and none of them aliases the
    pre-trust vector, the table afterwards denotes `map (canonRow p)` of what it denoted. -/
theorem canonRowsH_value (p : Option VecRef) (h : Heap α) (rs : List RowRef)
    (hnd : (addrsOf rs).Nodup) (hp : ∀ pv ∈ p, ∀ a ∈ pv.row.addr?, a ∉ addrsOf rs) :
    (canonRowsH p h rs).2.map (deref (canonRowsH p h rs).1) =
      (rs.map (deref h)).map (canonRow (p.map (vecValue h))) := by
  induction rs generalizing h with
  | nil => rfl
  | cons r rs ih =>
    obtain ⟨f1, l1, v1, o1⟩ := canonRowH_spec p h r
    obtain ⟨f2, l2⟩ := canonRowsH_frame p (canonRowH p h r).1 rs
    rw [addrsOf_cons, List.nodup_append] at hnd
    obtain ⟨-, hnd2, hdisj⟩ := hnd
    have hr_rs : ∀ a ∈ r.addr?, a ∉ addrsOf rs := fun a ha hb =>
      hdisj a (by simpa using ha) a hb rfl
    have hp_rs : ∀ pv ∈ p, ∀ a ∈ pv.row.addr?, a ∉ addrsOf rs := fun pv hpv a ha hb =>
      hp pv hpv a ha (by rw [addrsOf_cons, List.mem_append]; exact Or.inr hb)
    have hp_r : ∀ pv ∈ p, ∀ a ∈ pv.row.addr?, a ∉ addrsOf [r] := fun pv hpv a ha hb =>
      hp pv hpv a ha (by
        rw [addrsOf_cons, List.mem_append]; left; simpa [addrsOf_cons r []] using hb)
    have hpv : p.map (vecValue (canonRowH p h r).1) = p.map (vecValue h) := by
      cases p with
      | none => rfl
      | some pv =>
        simp only [Option.map_some, vecValue, Option.some.injEq, Vec.mk.injEq, true_and]
        exact deref_frame' f1 l1 (hp_r pv rfl)
    have hrs : rs.map (deref (canonRowH p h r).1) = rs.map (deref h) :=
      map_deref_frame' f1 l1 (fun a ha hb => by
        have : a ∈ r.addr? := by simpa [addrsOf_cons r []] using hb
        exact hr_rs a this ha)
    simp only [canonRowsH, List.map_cons, List.cons.injEq]
    constructor
    · rw [← v1]
      apply deref_frame' f2 l2
      rcases o1 with e | ⟨pv, e1, e2⟩
      · rw [e]; exact hr_rs
      · rw [e2]; exact hp_rs pv (by simp [e1])
    · rw [ih _ hnd2 hp_rs, hpv, hrs]

/-- The Go loop (indexing the CURRENT table, which it also overwrites) visits each row once and
    canonicalises it BEFORE a possible substitution, so it is the structural recursion. -/
theorem canonLoopH_aux (p : Option VecRef) (post rest : List RowRef) :
    ∀ (pre : List RowRef) (h : Heap α),
      (List.range' pre.length post.length).foldl (canonStepH p) (h, pre ++ (post ++ rest)) =
        ((canonRowsH p h post).1, pre ++ ((canonRowsH p h post).2 ++ rest)) := by
  induction post with
  | nil => intro pre h; simp [canonRowsH]
  | cons r post ih =>
    intro pre h
    have hstep : canonStepH p (h, pre ++ (r :: post ++ rest)) pre.length =
        ((canonRowH p h r).1, (pre ++ [(canonRowH p h r).2]) ++ (post ++ rest)) := by
      simp [canonStepH]
    simp only [List.length_cons, List.range'_succ, List.foldl_cons, hstep]
    have := ih (pre ++ [(canonRowH p h r).2]) (canonRowH p h r).1
    simp only [List.length_append, List.length_cons, List.length_nil, Nat.zero_add] at this
    rw [this]
    simp [canonRowsH]

/-- iterations beyond the end of the table do nothing (Go would panic there) -/
theorem canonStepH_beyond (p : Option VecRef) (h : Heap α) (rows : List RowRef) (i : Nat)
    (hi : rows.length ≤ i) : canonStepH p (h, rows) i = (h, rows) := by
  have h1 : rows[i]?.getD RowRef.nil = RowRef.nil := by simp [List.getElem?_eq_none hi]
  have h2 : (canonRowH p h RowRef.nil).1 = h := by
    unfold canonRowH canonicalizeRowInPlace
    by_cases hz : isZero (kbnSum ((deref h RowRef.nil).map (·.val))) = true
    · simp only [hz, if_true]; cases p <;> rfl
    · simp only [hz]; rfl
  simp [canonStepH, h1, h2, List.set_eq_of_length_le hi]

theorem canonLoopH_beyond (p : Option VecRef) (h : Heap α) (rows : List RowRef) (is : List Nat)
    (hi : ∀ i ∈ is, rows.length ≤ i) : is.foldl (canonStepH p) (h, rows) = (h, rows) := by
  induction is with
  | nil => rfl
  | cons i is ih =>
    rw [List.foldl_cons, canonStepH_beyond p h rows i (hi i (by simp))]
    exact ih (fun j hj => hi j (by simp [hj]))

/-- the Go loop with an arbitrary bound `n`: the first `n` rows are processed once each -/
theorem canonLoopH_eq_take (p : Option VecRef) (h : Heap α) (rows : List RowRef) (n : Nat) :
    canonLoopH p h rows n =
      ((canonRowsH p h (rows.take n)).1, (canonRowsH p h (rows.take n)).2 ++ rows.drop n) := by
  unfold canonLoopH
  rw [List.range_eq_range']
  by_cases hn : n ≤ rows.length
  · have := canonLoopH_aux p (rows.take n) (rows.drop n) [] h
    simpa [List.length_take, Nat.min_eq_left hn] using this
  · have hlen : rows.length ≤ n := by omega
    have e : List.range' 0 n = List.range' 0 rows.length ++ List.range' rows.length (n - rows.length) := by
      have := @List.range'_append_1 0 rows.length (n - rows.length)
      rw [Nat.zero_add] at this
      rw [this]; congr 1; omega
    have := canonLoopH_aux p rows [] [] h
    simp only [List.length_nil, List.append_nil, List.nil_append] at this
    rw [e, List.foldl_append, this, List.take_of_length_le hlen, List.drop_eq_nil_of_le hlen,
      List.append_nil]
    apply canonLoopH_beyond
    intro i hi
    rw [canonRowsH_length]
    simp [List.mem_range'_1] at hi
    omega

theorem canonLoopH_eq (p : Option VecRef) (h : Heap α) (rows : List RowRef) :
    canonLoopH p h rows rows.length = canonRowsH p h rows := by
  rw [canonLoopH_eq_take]; simp

omit [Scalar α] in
theorem addrsOf_take_subset (rs : List RowRef) (n : Nat) : ∀ a ∈ addrsOf (rs.take n), a ∈ addrsOf rs :=
  fun _ ha => ((List.take_sublist n rs).filterMap _).subset ha

/-- CanonicalizeLocalTrust writes only cells of the rows of its matrix argument and allocates
    nothing — whatever the pre-trust vector, the dimensions, or aliasing among the rows. -/
theorem canonicalizeLocalTrustH_frame (h : Heap α) (m : MatRef) (p : Option VecRef)
    (x : Heap α × MatRef) (hx : canonicalizeLocalTrustH h m p = .ok x) :
    Frame (addrsOf m.rows) h x.1 ∧ x.1.cells.length = h.cells.length ∧
    (∀ a ∈ addrsOf x.2.rows, a ∈ addrsOf m.rows ∨ ∃ pv, p = some pv ∧ pv.row.addr? = some a) ∧
    x.2.hidden = m.hidden := by
  unfold canonicalizeLocalTrustH at hx
  by_cases h1 : m.major ≠ m.minor
  · simp [h1] at hx
  · by_cases h2 : preTrustDimBad m p = true
    · simp [h1, h2] at hx
    · simp only [h1, h2, if_false, Bool.false_eq_true, Except.ok.injEq] at hx
      subst hx
      rw [canonLoopH_eq_take]
      obtain ⟨f, l⟩ := canonRowsH_frame p h (m.rows.take m.major)
      refine ⟨f.mono (addrsOf_take_subset _ _), l, ?_, rfl⟩
      intro a ha
      simp only [addrsOf_append, List.mem_append] at ha
      rcases ha with ha | ha
      · rcases canonRowsH_refs p h _ a ha with h1 | h1
        · exact Or.inl (addrsOf_take_subset _ _ a h1)
        · exact Or.inr h1
      · exact Or.inl (((List.drop_sublist m.major m.rows).filterMap _).subset ha)

/-- refinement: `canonicalizeLocalTrustH` denotes `canonicalizeLocalTrust`, provided the row table
    has `major` rows, the rows do not alias each other (nor hidden rows), and no row's cell is the
    pre-trust vector's cell. -/
theorem canonicalizeLocalTrustH_refines (h : Heap α) (m : MatRef) (p : Option VecRef)
    (hlen : m.rows.length = m.major) (hsep : m.Sep)
    (hp : ∀ pv ∈ p, ∀ a ∈ pv.row.addr?, a ∉ addrsOf m.rows) :
    (canonicalizeLocalTrustH h m p).map (fun x => value x.1 x.2) =
      canonicalizeLocalTrust (value h m) (p.map (vecValue h)) := by
  unfold MatRef.Sep MatRef.addrs at hsep
  rw [addrsOf_append, List.nodup_append] at hsep
  obtain ⟨hnd, -, hdisj⟩ := hsep
  have key : value (canonRowsH p h m.rows).1 { m with rows := (canonRowsH p h m.rows).2 } =
      { value h m with rows := (value h m).rows.map (canonRow (p.map (vecValue h))) } := by
    obtain ⟨f, l⟩ := canonRowsH_frame p h m.rows
    simp only [value, CSM.mk.injEq, true_and]
    exact ⟨canonRowsH_value p h m.rows hnd hp,
      map_deref_frame' f l (fun a ha hb => hdisj a hb a ha rfl)⟩
  unfold canonicalizeLocalTrustH canonicalizeLocalTrust CSM.dim
  rw [← hlen, canonLoopH_eq, hlen]
  by_cases h1 : m.major ≠ m.minor
  · simp [h1, Except.map, value]
  · cases p with
    | none =>
      simp only [preTrustDimBad, Option.map_none] at key ⊢
      simp only [value] at key ⊢
      simp [h1, Except.map, key]
    | some pv =>
      simp only [preTrustDimBad, Option.map_some] at key ⊢
      simp only [value, vecValue] at key ⊢
      by_cases h2 : m.major ≠ pv.dim
      · simp [h1, h2, Except.map]
      · simp [h1, h2, Except.map, key]

end canon

/-! ## ExtractDistrust: in-place compaction of the trust row, fresh distrust rows -/

section distrust
variable [Scalar α]

/-- one iteration of the loop of ExtractDistrust (localtrust.go 57-74).  The kept entries are
    moved to the front of the SAME cell (`trustRow[i-len(distrustRow)] = entry`; a write at
    position `≤ i` after position `i` was read, so reads see the original content and the cell
    ends as `kept ++ cell[len kept:]`), the reference is shortened (`nil` when empty); the
    distrust entries are appended to a nil slice, i.e. live in a fresh cell (`nil` when none). -/
def extractRowH (h : Heap α) (r : RowRef) : Heap α × RowRef × RowRef :=
  let parts := splitRow (deref h r)
  let k := parts.1.length
  let h1 := match r with
    | .nil => h
    | .slice a _ => h.write a (overwriteFront (h.cell a) k parts.1)
  let r' := match r with
    | .nil => RowRef.nil
    | .slice a _ => if k = 0 then .nil else .slice a k
  if parts.2.length = 0 then (h1, r', .nil)
  else ((alloc h1 parts.2).1, r', .slice h1.cells.length parts.2.length)

def extractRowsH : Heap α → List RowRef → Heap α × List RowRef × List RowRef
  | h, [] => (h, [], [])
  | h, r :: rs =>
    let x := extractRowH h r
    let y := extractRowsH x.1 rs
    (y.1, x.2.1 :: y.2.1, x.2.2 :: y.2.2)

/-- ExtractDistrust (localtrust.go 49-76): (heap, local trust afterwards, distrust).
    The dimension error is raised before anything is written. -/
def extractDistrustH (h : Heap α) (m : MatRef) : Except SErr (Heap α × MatRef × MatRef) :=
  if m.major ≠ m.minor then .error .dimMismatch
  else
    let x := extractRowsH h m.rows
    .ok (x.1, { m with rows := x.2.1 }, ⟨m.major, m.major, x.2.2, []⟩)

theorem extractRowH_spec (h : Heap α) (r : RowRef) :
    Frame (addrsOf [r]) h (extractRowH h r).1 ∧
    deref (extractRowH h r).1 (extractRowH h r).2.1 = (splitRow (deref h r)).1 ∧
    deref (extractRowH h r).1 (extractRowH h r).2.2 = (splitRow (deref h r)).2 ∧
    (∀ a ∈ (extractRowH h r).2.1.addr?, a ∈ r.addr?) ∧
    (∀ a ∈ (extractRowH h r).2.2.addr?, h.cells.length ≤ a ∧ a < (extractRowH h r).1.cells.length) := by
  -- the allocation part, given the state after the in-place part
  have hA : ∀ (h1 : Heap α) (r' : RowRef),
      Frame (addrsOf [r]) h h1 → h1.cells.length = h.cells.length → r'.InRange h1 →
      deref h1 r' = (splitRow (deref h r)).1 → (∀ a ∈ r'.addr?, a ∈ r.addr?) →
      let x : Heap α × RowRef × RowRef :=
        if (splitRow (deref h r)).2.length = 0 then (h1, r', .nil)
        else ((alloc h1 (splitRow (deref h r)).2).1, r',
              .slice h1.cells.length (splitRow (deref h r)).2.length)
      Frame (addrsOf [r]) h x.1 ∧ deref x.1 x.2.1 = (splitRow (deref h r)).1 ∧
      deref x.1 x.2.2 = (splitRow (deref h r)).2 ∧ (∀ a ∈ x.2.1.addr?, a ∈ r.addr?) ∧
      (∀ a ∈ x.2.2.addr?, h.cells.length ≤ a ∧ a < x.1.cells.length) := by
    intro h1 r' f1 l1 hin v1 a1
    by_cases hd : (splitRow (deref h r)).2.length = 0
    · simp only [hd, if_true]
      refine ⟨f1, v1, ?_, a1, by simp [RowRef.addr?]⟩
      simp only [deref]
      exact (List.eq_nil_of_length_eq_zero hd).symm
    · simp only [hd, if_false]
      refine ⟨(f1.trans (frame_alloc h1 _)).mono (by simp), ?_, ?_, a1, ?_⟩
      · rw [← v1]
        exact deref_frame (frame_alloc h1 _) hin (by simp)
      · simp only [deref]
        rw [cell_alloc_self, List.take_length]
      · intro a ha
        simp only [RowRef.addr?, Option.mem_def, Option.some.injEq] at ha
        subst ha
        simp [l1]
  cases r with
  | nil =>
    exact hA h .nil (Frame.refl _ _) rfl (by simp [RowRef.InRange, RowRef.addr?])
      (by simp [deref, splitRow]) (by simp [RowRef.addr?])
  | slice a l =>
    by_cases hk : (splitRow (deref h (.slice a l))).1.length = 0
    · have := hA (h.write a (overwriteFront (h.cell a) (splitRow (deref h (.slice a l))).1.length
          (splitRow (deref h (.slice a l))).1)) .nil (by simpa using frame_write h a _) (by simp)
        (by simp [RowRef.InRange, RowRef.addr?])
        (by simp only [deref]; exact (List.eq_nil_of_length_eq_zero hk).symm)
        (by simp [RowRef.addr?])
      simpa [extractRowH, hk] using this
    · have ha : a < h.cells.length := by
        by_contra hn
        apply hk
        simp [deref, cell_of_not_lt hn, splitRow]
      have := hA (h.write a (overwriteFront (h.cell a) (splitRow (deref h (.slice a l))).1.length
          (splitRow (deref h (.slice a l))).1))
        (.slice a (splitRow (deref h (.slice a l))).1.length)
        (by simpa using frame_write h a _) (by simp)
        (by simpa [RowRef.InRange, RowRef.addr?] using ha)
        (by simp only [deref, cell_write_self ha, overwriteFront]; exact List.take_left' rfl)
        (by simp [RowRef.addr?])
      simpa [extractRowH, hk] using this

/-- what the loop of ExtractDistrust guarantees -/
structure ExtractSpec (h h' : Heap α) (rs c d : List RowRef) : Prop where
  frame : Frame (addrsOf rs) h h'
  keptAddrs : (addrsOf c).Sublist (addrsOf rs)
  fresh : ∀ a ∈ addrsOf d, h.cells.length ≤ a ∧ a < h'.cells.length
  nodup : (addrsOf d).Nodup
  lengths : c.length = rs.length ∧ d.length = rs.length
  val : (addrsOf rs).Nodup → RowsInRange h rs →
    c.map (deref h') = (rs.map (deref h)).map (fun r => (splitRow r).1) ∧
    d.map (deref h') = (rs.map (deref h)).map (fun r => (splitRow r).2)

omit [Scalar α] in
theorem addr_sublist_of_subset {r r' : RowRef} (hs : ∀ a ∈ r'.addr?, a ∈ r.addr?) :
    r'.addr?.toList.Sublist r.addr?.toList := by
  cases r' with
  | nil => simp [RowRef.addr?]
  | slice a l =>
    have := hs a (by simp [RowRef.addr?])
    simp only [Option.mem_def] at this
    rw [this]
    simp [RowRef.addr?]

theorem extractRowsH_spec (h : Heap α) (rs : List RowRef) :
    ExtractSpec h (extractRowsH h rs).1 rs (extractRowsH h rs).2.1 (extractRowsH h rs).2.2 := by
  induction rs generalizing h with
  | nil =>
    exact ⟨Frame.refl _ _, by simp [extractRowsH], by simp [extractRowsH],
      by simp [extractRowsH], by simp [extractRowsH], fun _ _ => ⟨rfl, rfl⟩⟩
  | cons r rs ih =>
    obtain ⟨f1, v1, w1, a1, b1⟩ := extractRowH_spec h r
    have s2 := ih (extractRowH h r).1
    have f1' : Frame (r.addr?.toList) h (extractRowH h r).1 := by
      simpa [addrsOf_cons r []] using f1
    simp only [extractRowsH]
    refine ⟨?_, ?_, ?_, ?_, by simp [s2.lengths.1, s2.lengths.2], ?_⟩
    · rw [addrsOf_cons r rs]; exact f1'.trans s2.frame
    · rw [addrsOf_cons, addrsOf_cons r rs]
      exact (addr_sublist_of_subset a1).append s2.keptAddrs
    · intro a ha
      rw [addrsOf_cons, List.mem_append] at ha
      rcases ha with ha | ha
      · have := b1 a (by simpa using ha); have := s2.frame.1; omega
      · have := s2.fresh a ha; have := f1.1; omega
    · rw [addrsOf_cons]
      refine List.Nodup.append ?_ s2.nodup ?_
      · cases (extractRowH h r).2.2 <;> simp [RowRef.addr?]
      · intro a ha hb
        have := b1 a (by simpa using ha)
        have := s2.fresh a hb
        omega
    · intro hnd hin
      rw [addrsOf_cons, List.nodup_append] at hnd
      obtain ⟨-, hnd2, hdisj⟩ := hnd
      rw [rowsInRange_cons] at hin
      have hr_rs : ∀ a ∈ r.addr?, a ∉ addrsOf rs := fun a ha hb =>
        hdisj a (by simpa using ha) a hb rfl
      have hrs : rs.map (deref (extractRowH h r).1) = rs.map (deref h) :=
        map_deref_frame f1' hin.2 (fun a ha hb => hr_rs a (by simpa using hb) ha)
      obtain ⟨e1, e2⟩ := s2.val hnd2 (hin.2.mono f1.1)
      simp only [List.map_cons, List.cons.injEq]
      refine ⟨⟨?_, by rw [e1, hrs]⟩, ⟨?_, by rw [e2, hrs]⟩⟩
      · rw [← v1]
        apply deref_frame s2.frame
        · intro a ha
          exact Nat.lt_of_lt_of_le (hin.1 a (a1 a ha)) f1.1
        · intro a ha; exact hr_rs a (a1 a ha)
      · rw [← w1]
        apply deref_frame s2.frame
        · intro a ha; exact (b1 a ha).2
        · intro a ha hb
          have := (b1 a ha).1
          have := hin.2 a hb
          omega

/-- ExtractDistrust writes only cells of the rows of its argument; everything else it touches is
    freshly allocated.  The kept rows stay in (a sub-list of) the old cells; distrust rows are fresh
    and pairwise distinct. -/
theorem extractDistrustH_frame (h : Heap α) (m : MatRef) (x : Heap α × MatRef × MatRef)
    (hx : extractDistrustH h m = .ok x) :
    Frame (addrsOf m.rows) h x.1 ∧
    (addrsOf x.2.1.rows).Sublist (addrsOf m.rows) ∧ x.2.1.hidden = m.hidden ∧
    (∀ a ∈ x.2.2.addrs, h.cells.length ≤ a ∧ a < x.1.cells.length) ∧ x.2.2.addrs.Nodup ∧
    x.2.1.rows.length = m.rows.length ∧ x.2.1.major = m.major ∧
    x.2.2.rows.length = m.rows.length ∧ x.2.2.major = m.major := by
  unfold extractDistrustH at hx
  by_cases h1 : m.major ≠ m.minor
  · simp [h1] at hx
  · simp only [h1, if_false, Except.ok.injEq] at hx
    subst hx
    have s := extractRowsH_spec h m.rows
    exact ⟨s.frame, s.keptAddrs, rfl, by simpa [MatRef.addrs] using s.fresh,
      by simpa [MatRef.addrs] using s.nodup, s.lengths.1, rfl, s.lengths.2, rfl⟩

/-- refinement: `extractDistrustH` denotes `extractDistrust`, provided the references are in range
    and distinct rows of the row table do not share a cell. -/
theorem extractDistrustH_refines (h : Heap α) (m : MatRef) (hin : m.InRange h) (hsep : m.Sep) :
    (extractDistrustH h m).map (fun x => (value x.1 x.2.1, value x.1 x.2.2)) =
      extractDistrust (value h m) := by
  unfold MatRef.Sep MatRef.addrs at hsep
  rw [addrsOf_append, List.nodup_append] at hsep
  obtain ⟨hnd, -, hdisj⟩ := hsep
  have hin1 : RowsInRange h m.rows := fun a ha => hin a (by simp [MatRef.addrs, ha])
  have hin2 : RowsInRange h m.hidden := fun a ha => hin a (by simp [MatRef.addrs, ha])
  have s := extractRowsH_spec h m.rows
  obtain ⟨e1, e2⟩ := s.val hnd hin1
  have e3 : m.hidden.map (deref (extractRowsH h m.rows).1) = m.hidden.map (deref h) :=
    map_deref_frame s.frame hin2 (fun a ha hb => hdisj a hb a ha rfl)
  unfold extractDistrustH extractDistrust CSM.dim
  by_cases h1 : m.major ≠ m.minor
  · simp [h1, Except.map, value]
  · simp [h1, Except.map, value, e1, e2, e3]

end distrust

/-! ## The working pipeline of `compute` (openapi.go 92-98, 113-120, 186-208) -/

section pipeline
variable [Scalar α]

/-- alignment: `c.SetDim(d, d)` for each dimension the request forces (pre-trust, initial trust) -/
def alignH (h : Heap α) (m : MatRef) (dims : List Nat) : MatRef :=
  dims.foldl (fun m d => setDimRef h m d d) m

/-- What `compute` does to its working matrix before calling `basic.Compute`: alignment,
    `ExtractDistrust(c)`, `CanonicalizeLocalTrust(c, p)`, `CanonicalizeLocalTrust(discounts, nil)`.
    The heap is returned also when a step fails (the Go code returns early; what it wrote stays). -/
def pipelineH (h : Heap α) (m : MatRef) (dims : List Nat) (p : Option VecRef) :
    Heap α × Except SErr (MatRef × MatRef) :=
  match extractDistrustH h (alignH h m dims) with
  | .error e => (h, .error e)
  | .ok x =>
    match canonicalizeLocalTrustH x.1 x.2.1 p with
    | .error e => (x.1, .error e)
    | .ok y =>
      match canonicalizeLocalTrustH y.1 x.2.2 none with
      | .error e => (y.1, .error e)
      | .ok z => (z.1, .ok (y.2, z.2))

/-- the same steps in the pure model (Oapi.prepare 135-153, 167-177) -/
def pipelinePure (c : CSM α) (dims : List Nat) (p : Option (Vec α)) : Except SErr (CSM α × CSM α) :=
  match extractDistrust (dims.foldl (fun c d => c.setDim d d) c) with
  | .error e => .error e
  | .ok x =>
    match canonicalizeLocalTrust x.1 p with
    | .error e => .error e
    | .ok c4 =>
      match canonicalizeLocalTrust x.2 none with
      | .error e => .error e
      | .ok d4 => .ok (c4, d4)

omit [Scalar α] in
theorem alignH_spec (h : Heap α) (m : MatRef) (dims : List Nat) :
    (alignH h m dims).addrs.Sublist m.addrs ∧
    value h (alignH h m dims) = dims.foldl (fun c d => c.setDim d d) (value h m) ∧
    (m.rows.length = m.major → (alignH h m dims).rows.length = (alignH h m dims).major) := by
  induction dims generalizing m with
  | nil => exact ⟨List.Sublist.refl _, rfl, id⟩
  | cons d dims ih =>
    obtain ⟨i1, i2, i3⟩ := ih (setDimRef h m d d)
    simp only [alignH, List.foldl_cons] at i1 i2 i3 ⊢
    exact ⟨i1.trans (addrs_setDimRef h m d d), by rw [i2, value_setDimRef],
      fun _ => i3 (rows_length_setDimRef h m d d)⟩

omit [Scalar α] in
theorem addrsOf_rows_subset (m : MatRef) : ∀ a ∈ addrsOf m.rows, a ∈ m.addrs :=
  fun a ha => by simp [MatRef.addrs, ha]

omit [Scalar α] in
/-- a matrix whose cells were not written denotes the same value (no allocation in between) -/
theorem value_frame' {S : List Nat} {h h' : Heap α} (f : Frame S h h')
    (hl : h'.cells.length = h.cells.length) {m : MatRef} (hn : ∀ a ∈ m.addrs, a ∉ S) :
    value h' m = value h m := by
  simp only [value, CSM.mk.injEq, true_and]
  exact ⟨map_deref_frame' f hl (fun a ha => hn a (by simp [MatRef.addrs, ha])),
    map_deref_frame' f hl (fun a ha => hn a (by simp [MatRef.addrs, ha]))⟩

omit [Scalar α] in
/-- a matrix of the old heap whose cells were not written denotes the same value -/
theorem value_frame {S : List Nat} {h h' : Heap α} (f : Frame S h h') {m : MatRef}
    (hin : m.InRange h) (hn : ∀ a ∈ m.addrs, a ∉ S) : value h' m = value h m := by
  simp only [value, CSM.mk.injEq, true_and]
  exact ⟨map_deref_frame f (fun a ha => hin a (by simp [MatRef.addrs, ha]))
      (fun a ha => hn a (by simp [MatRef.addrs, ha])),
    map_deref_frame f (fun a ha => hin a (by simp [MatRef.addrs, ha]))
      (fun a ha => hn a (by simp [MatRef.addrs, ha]))⟩

/-- The pipeline writes only cells of its working matrix and cells it allocated itself: every
    cell that existed before and does not belong to the working matrix is unchanged — for every
    alignment, every pre-trust reference (even one aliasing other memory), and whether or not the
    pipeline fails half-way. -/
theorem pipelineH_frame (h : Heap α) (m : MatRef) (dims : List Nat) (p : Option VecRef) :
    h.cells.length ≤ (pipelineH h m dims p).1.cells.length ∧
    ∀ a < h.cells.length, a ∉ m.addrs → (pipelineH h m dims p).1.cells[a]? = h.cells[a]? := by
  obtain ⟨al, -, -⟩ := alignH_spec h m dims
  have hm1 : ∀ a ∈ addrsOf (alignH h m dims).rows, a ∈ m.addrs := fun a ha =>
    al.subset (addrsOf_rows_subset _ a ha)
  unfold pipelineH
  cases hE : extractDistrustH h (alignH h m dims) with
  | error e => exact ⟨Nat.le_refl _, fun a _ _ => rfl⟩
  | ok x =>
    obtain ⟨f1, k1, -, d1, -, -⟩ := extractDistrustH_frame h _ x hE
    have hc : ∀ a ∈ addrsOf x.2.1.rows, a ∈ m.addrs := fun a ha => hm1 a (k1.subset ha)
    have hd : ∀ a ∈ addrsOf x.2.2.rows, h.cells.length ≤ a := fun a ha =>
      (d1 a (addrsOf_rows_subset _ a ha)).1
    simp only []
    cases hC : canonicalizeLocalTrustH x.1 x.2.1 p with
    | error e => exact ⟨f1.1, fun a ha hn => f1.2 a ha (fun hb => hn (hm1 a hb))⟩
    | ok y =>
      obtain ⟨f2, -, -, -⟩ := canonicalizeLocalTrustH_frame _ _ _ y hC
      simp only []
      cases hD : canonicalizeLocalTrustH y.1 x.2.2 none with
      | error e =>
        refine ⟨(f1.trans f2).1, fun a ha hn => (f1.trans f2).2 a ha (fun hb => ?_)⟩
        rcases List.mem_append.mp hb with hb | hb
        · exact hn (hm1 a hb)
        · exact hn (hc a hb)
      | ok z =>
        obtain ⟨f3, -, -, -⟩ := canonicalizeLocalTrustH_frame _ _ _ z hD
        refine ⟨((f1.trans f2).trans f3).1,
          fun a ha hn => ((f1.trans f2).trans f3).2 a ha (fun hb => ?_)⟩
        rcases List.mem_append.mp hb with hb | hb
        · rcases List.mem_append.mp hb with hb | hb
          · exact hn (hm1 a hb)
          · exact hn (hc a hb)
        · have := hd a hb; omega

/-- if every cell of the working matrix has an address `≥ n`, all cells below `n` are unchanged -/
theorem pipelineH_below (h : Heap α) (m : MatRef) (dims : List Nat) (p : Option VecRef) (n : Nat)
    (hn : n ≤ h.cells.length) (hm : ∀ a ∈ m.addrs, n ≤ a) :
    ∀ a < n, (pipelineH h m dims p).1.cells[a]? = h.cells[a]? :=
  fun a ha => (pipelineH_frame h m dims p).2 a (Nat.lt_of_lt_of_le ha hn)
    (fun hb => by have := hm a hb; omega)

omit [Scalar α] in
/-- a matrix all of whose cells are unchanged denotes the same value -/
theorem value_of_cells_eq {h h' : Heap α} {m : MatRef}
    (hc : ∀ a ∈ m.addrs, h'.cells[a]? = h.cells[a]?) : value h' m = value h m := by
  have hd : ∀ rs : List RowRef, (∀ a ∈ addrsOf rs, a ∈ m.addrs) →
      rs.map (deref h') = rs.map (deref h) := by
    intro rs hrs
    apply List.map_congr_left
    intro r hr
    cases r with
    | nil => rfl
    | slice a l =>
      have := hc a (hrs a (mem_addrsOf.mpr ⟨_, hr, rfl⟩))
      simp [deref, Heap.cell, this]
  simp only [value, CSM.mk.injEq, true_and]
  exact ⟨hd _ (fun a ha => by simp [MatRef.addrs, ha]), hd _ (fun a ha => by simp [MatRef.addrs, ha])⟩

/-- refinement of the whole pipeline: on a working matrix whose rows are in range and do not share
    cells (what `deepCopy` delivers) and a pre-trust vector living in a cell of its own, the heap
    pipeline denotes the pure pipeline — so every theorem about the pure model carries over. -/
theorem pipelineH_refines (h : Heap α) (m : MatRef) (dims : List Nat) (p : Option VecRef)
    (hlen : m.rows.length = m.major) (hin : m.InRange h) (hsep : m.Sep)
    (hp : ∀ pv ∈ p, pv.row.InRange h ∧ ∀ a ∈ pv.row.addr?, a ∉ m.addrs) :
    (pipelineH h m dims p).2.map
        (fun cd => (value (pipelineH h m dims p).1 cd.1, value (pipelineH h m dims p).1 cd.2)) =
      pipelinePure (value h m) dims (p.map (vecValue h)) := by
  obtain ⟨al, av, alen⟩ := alignH_spec h m dims
  have hin1 : (alignH h m dims).InRange h := fun a ha => hin a (al.subset ha)
  have hsep1 : (alignH h m dims).Sep := al.nodup hsep
  have hp1 : ∀ pv ∈ p, ∀ a ∈ pv.row.addr?, a ∉ (alignH h m dims).addrs :=
    fun pv hpv a ha hb => (hp pv hpv).2 a ha (al.subset hb)
  have r1 := extractDistrustH_refines h _ hin1 hsep1
  rw [av] at r1
  unfold pipelineH pipelinePure
  cases hE : extractDistrustH h (alignH h m dims) with
  | error e =>
    rw [hE] at r1; simp only [Except.map] at r1; rw [← r1]; rfl
  | ok x =>
    rw [hE] at r1; simp only [Except.map] at r1; rw [← r1]
    simp only []
    obtain ⟨f1, k1, kh, d1, dnd, cl, cmaj, dl, dmaj⟩ := extractDistrustH_frame h _ x hE
    have c_addrs : x.2.1.addrs.Sublist (alignH h m dims).addrs := by
      unfold MatRef.addrs
      rw [addrsOf_append, addrsOf_append, kh]
      exact k1.append (List.Sublist.refl _)
    have c_sep : x.2.1.Sep := c_addrs.nodup hsep1
    have c_len : x.2.1.rows.length = x.2.1.major := by rw [cl, cmaj]; exact alen hlen
    have c_in : ∀ a ∈ x.2.1.addrs, a < h.cells.length := fun a ha => hin1 a (c_addrs.subset ha)
    have hp_c : ∀ pv ∈ p, ∀ a ∈ pv.row.addr?, a ∉ addrsOf x.2.1.rows :=
      fun pv hpv a ha hb => hp1 pv hpv a ha (c_addrs.subset (addrsOf_rows_subset _ a hb))
    have pval : p.map (vecValue x.1) = p.map (vecValue h) := by
      cases p with
      | none => rfl
      | some pv =>
        simp only [Option.map_some, vecValue, Option.some.injEq, Vec.mk.injEq, true_and]
        exact deref_frame f1 (hp pv rfl).1
          (fun a ha hb => hp1 pv rfl a ha (addrsOf_rows_subset _ a hb))
    have r2 := canonicalizeLocalTrustH_refines x.1 x.2.1 p c_len c_sep hp_c
    rw [pval] at r2
    cases hC : canonicalizeLocalTrustH x.1 x.2.1 p with
    | error e =>
      rw [hC] at r2; simp only [Except.map] at r2; rw [← r2]; rfl
    | ok y =>
      rw [hC] at r2; simp only [Except.map] at r2; rw [← r2]
      simp only []
      obtain ⟨f2, l2, yrefs, yh⟩ := canonicalizeLocalTrustH_frame _ _ _ y hC
      have d_len : x.2.2.rows.length = x.2.2.major := by rw [dl, dmaj]; exact alen hlen
      have dval : value y.1 x.2.2 = value x.1 x.2.2 :=
        value_frame' f2 l2 (fun a ha hb => by
          have := (d1 a ha).1
          have := c_in a (addrsOf_rows_subset _ a hb)
          omega)
      have r3 := canonicalizeLocalTrustH_refines y.1 x.2.2 none d_len dnd (by simp)
      rw [dval, Option.map_none] at r3
      cases hD : canonicalizeLocalTrustH y.1 x.2.2 none with
      | error e =>
        rw [hD] at r3; simp only [Except.map] at r3; rw [← r3]; rfl
      | ok z =>
        rw [hD] at r3; simp only [Except.map] at r3; rw [← r3]
        obtain ⟨f3, l3, -, -⟩ := canonicalizeLocalTrustH_frame _ _ _ z hD
        have cval : value z.1 y.2 = value y.1 y.2 :=
          value_frame' f3 l3 (fun a ha hb => by
            have hge := (d1 a (addrsOf_rows_subset _ a hb)).1
            have hlt : a < h.cells.length := by
              unfold MatRef.addrs at ha
              rw [addrsOf_append, List.mem_append] at ha
              rcases ha with ha | ha
              · rcases yrefs a ha with h1 | ⟨pv, e1, e2⟩
                · exact c_in a (addrsOf_rows_subset _ a h1)
                · exact (hp pv (by simp [e1])).1 a (by simp [e2])
              · rw [yh] at ha
                exact c_in a (by simp [MatRef.addrs, ha])
            omega)
        simp [Except.map, cval]

end pipeline

/-! ## Witness data (used by Props/C14b.lean) -/

/-- cell 0: the stored row `[(0,2),(1,2)]`; cell 1: a canonical pre-trust vector -/
def wHeap : Heap Rat := ⟨[[⟨0, 2⟩, ⟨1, 2⟩], [⟨0, 1/2⟩, ⟨1, 1/2⟩]]⟩
/-- a stored 2×2 matrix: row 0 = cell 0, row 1 empty; no negative entry -/
def wStored : MatRef := ⟨2, 2, [.slice 0 2, .nil], []⟩
def wP : VecRef := ⟨2, .slice 1 2⟩

/-- observable content of a matrix value (`Entry` has no decidable equality) -/
def showRows (c : CSM Rat) : List (List (Nat × Rat)) := c.rows.map (·.map fun e => (e.idx, e.val))
def showCells (h : Heap Rat) : List (List (Nat × Rat)) := h.cells.map (·.map fun e => (e.idx, e.val))

end EtVerif.C14b
