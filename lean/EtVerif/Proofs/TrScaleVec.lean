/-
  Refinement of the translated `Vector.ScaleVec` and `basic.DiscountTrustVector`
  (Gen/Translated.lean) to the hand-written model (`Vec.scale`, `discountTrustVector`).
-/
import EtVerif.Proofs.TrScale
namespace EtVerif.Tr
open EtVerif EtVerif.GoSem EtVerif.Gen Scalar
variable {α : Type} [Scalar α]

theorem map_ok_elim {ε β γ : Type} {x : Except ε β} {f : β → γ} {y : γ} (h : x.map f = .ok y) :
    ∃ r, x = .ok r ∧ f r = y := by
  cases x with
  | error e => simp [Except.map] at h
  | ok r => exact ⟨r, rfl, by simpa [Except.map] using h⟩

omit [Scalar α] in
theorem Vector_Assign_eq (w : GVector α) (v : Vec α) :
    Gen.Vector_Assign w (toGV v) = .ok (⟨toGV v, toGV v⟩, ()) := by
  simp [Gen.Vector_Assign, Vector_Assign.body, Stm.run, Stm.seq, Stm.set, bind, Except.bind, pure,
    Except.pure, toGV]

omit [Scalar α] in
theorem Vector_Clone_eq (v : Vec α) :
    Gen.Vector_Clone (toGV v) = .ok (⟨toGV v⟩, toGV v) := by
  simp [Gen.Vector_Clone, Vector_Clone.body, Stm.run, Stm.ret, bind, Except.bind, pure,
    Except.pure, toGV]

/-- Go `Vector.ScaleVec` = the model's `Vec.scale` (a == 0 clears; otherwise copy unless aliased, then scale in
    place). When the flag says "same object", the receiver's content is the operand's. -/
theorem Vector_ScaleVec_refines (w : GVector α) (a : α) (v1 : Vec α) (al : Bool)
    (hal : al = true → w = toGV v1) :
    (Gen.Vector_ScaleVec w a (toGV v1) al).map (fun r => r.1.v) = .ok (toGV (Vec.scale a v1)) := by
  cases ha : Scalar.eq a (Scalar.zero : α) with
  | true =>
    simp [Gen.Vector_ScaleVec, Vector_ScaleVec.body, Stm.run, Stm.seq, Stm.set, Stm.ite, Stm.ret, pure,
      Except.pure, Except.map, ha, Vec.scale, isZero, toGV]
  | false =>
    obtain ⟨r, hr, hrv⟩ := map_ok_elim (Vector_scaleInPlace_refines v1 a)
    have hA := Vector_Assign_eq w v1
    cases al with
    | true =>
      have := hal rfl
      subst this
      simp [Gen.Vector_ScaleVec, Vector_ScaleVec.body, Stm.run, Stm.seq, Stm.set, Stm.ite, Stm.skip, bind,
        Except.bind, pure, Except.pure, Except.map, ha, hr, hrv, Vec.scale, isZero]
    | false =>
      simp [Gen.Vector_ScaleVec, Vector_ScaleVec.body, Stm.run, Stm.seq, Stm.set, Stm.ite, Stm.skip, bind,
        Except.bind, pure, Except.pure, Except.map, ha, hA, hr, hrv, Vec.scale, isZero]

end EtVerif.Tr
