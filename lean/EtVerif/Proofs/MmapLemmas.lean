/-
  Helper lemmas for Model/Mmap.lean (swap-out of pkg/sparse/matrix.go: Mmap, Munmap, finalize,
  Reset, Merge): a branch-by-branch normal form of `mmap`, the state invariant `MInv`, the
  operation language `Op`/`run`, and the list lemmas they need.
  Everything here is stated for an arbitrary `Scalar α` (no field needed).
  (Proofs.Matrix is imported only so that the equation lemmas of `mergeRows` it generates are shared.)
-/
import EtVerif.Model.Mmap
import EtVerif.Proofs.Matrix

namespace EtVerif.Mm
open EtVerif Scalar

variable {α : Type} [Scalar α]

set_option linter.unusedSectionVars false

/-! ### vocabulary -/

/-- the invisible part `Entries[len:cap]` holds only nil rows (`HiddenClean` for any scalar) -/
def HClean (M : CSM α) : Prop := ∀ r ∈ M.hidden, r = []

/-- the "already mapped" test of `Mmap` (matrix.go 188-207): a mapping is adopted and no non-empty
    row lies outside it -/
def alreadyClean (s : MState α) : Bool :=
  match s.mapped with
  | some id => !dirty s id
  | none => false

/-- the context is found cancelled at one of the polls of the copy loop -/
def cancelled (f : Faults) (s : MState α) : Bool :=
  match f.cancelAtRow with
  | some k => decide (k < s.m.rows.length)
  | none => false

/-- some syscall of the swap-out fails -/
def Faults.sysFault (f : Faults) : Bool := f.createTemp || f.truncate || f.mmapSys || f.remove

/-- state after a failed `Truncate`/`syscall.Mmap`: both `defer`s ran (close, unlink) -/
def failSt (s : MState α) : MState α :=
  { s with led := { files := rmv (s.led.next :: s.led.files) s.led.next,
                    fds := rmv (s.led.next :: s.led.fds) s.led.next,
                    maps := s.led.maps, next := s.led.next + 1 } }

/-- state after a failed `os.Remove`: the deferred unmap ran, the file stays -/
def removeSt (s : MState α) : MState α :=
  { s with led := { files := s.led.next :: s.led.files,
                    fds := rmv (s.led.next :: s.led.fds) s.led.next,
                    maps := rmv ((s.led.next + 1) :: s.led.maps) (s.led.next + 1),
                    next := s.led.next + 1 + 1 } }

/-- state after a cancellation during the copy: the deferred unmap ran, file already unlinked -/
def cancelSt (s : MState α) : MState α :=
  { s with led := { files := rmv (s.led.next :: s.led.files) s.led.next,
                    fds := rmv (s.led.next :: s.led.fds) s.led.next,
                    maps := rmv ((s.led.next + 1) :: s.led.maps) (s.led.next + 1),
                    next := s.led.next + 1 + 1 } }

/-- state after a completed swap-out: rows re-pointed into the new mapping `next + 1`,
    the previous mapping (if any) released -/
def okSt (s : MState α) : MState α :=
  { m := { s.m with hidden := s.m.hidden.map fun _ => [] },
    locs := s.m.rows.map fun _ => Loc.map (s.led.next + 1),
    mapped := some (s.led.next + 1),
    led := { files := rmv (s.led.next :: s.led.files) s.led.next,
             fds := rmv (s.led.next :: s.led.fds) s.led.next,
             maps := match s.mapped with
               | some old => rmv ((s.led.next + 1) :: s.led.maps) old
               | none => (s.led.next + 1) :: s.led.maps,
             next := s.led.next + 1 + 1 } }

/-- `mmap` as a flat decision list -/
theorem mmap_eq (f : Faults) (s : MState α) :
    mmap f s =
      if alreadyClean s then (s, .ok ())
      else if s.m.nnz = 0 then (munmap s, .ok ())
      else if f.createTemp then (s, .error .sys)
      else if f.truncate then (failSt s, .error .sys)
      else if f.mmapSys then (failSt s, .error .sys)
      else if f.remove then (removeSt s, .error .sys)
      else if cancelled f s then (cancelSt s, .error .ctx)
      else (okSt s, .ok ()) := by
  unfold mmap alreadyClean cancelled failSt removeSt cancelSt okSt
  simp only []
  cases hk : f.cancelAtRow with
  | none =>
    cases hm : s.mapped <;> rfl
  | some k =>
    by_cases hlt : k < s.m.rows.length
    · cases hm : s.mapped <;> simp only [hlt, if_true, decide_true]
    · cases hm : s.mapped <;> simp only [hlt, if_false, decide_false] <;> rfl

/-! ### `rmv` -/

theorem rmv_cons_self {l : List Nat} {x : Nat} (h : x ∉ l) : rmv (x :: l) x = l := by
  unfold rmv
  rw [List.filter_cons_of_neg (by simp)]
  exact List.filter_eq_self.mpr (fun a ha => by
    have : a ≠ x := fun e => h (e ▸ ha)
    simpa using this)

theorem rmv_singleton (x : Nat) : rmv [x] x = [] := rmv_cons_self (by simp)

theorem rmv_pair {a b : Nat} (h : a ≠ b) : rmv [a, b] b = [a] := by
  unfold rmv
  simp [h]

/-! ### small list facts -/

theorem snd_of_mem_zip_const {β γ : Type} {l : List β} {c : γ} {p : β × γ}
    (h : p ∈ l.zip (l.map fun _ => c)) : p.2 = c := by
  obtain ⟨a, b⟩ := p
  have := (List.of_mem_zip h).2
  obtain ⟨_, _, rfl⟩ := List.mem_map.mp this
  rfl

theorem snd_of_mem_zip_replicate {β γ : Type} {l : List β} {k : Nat} {c : γ} {p : β × γ}
    (h : p ∈ l.zip (List.replicate k c)) : p.2 = c := by
  obtain ⟨a, b⟩ := p
  exact List.eq_of_mem_replicate (List.of_mem_zip h).2

theorem nnz_eq_zero_iff (M : CSM α) : M.nnz = 0 ↔ ∀ r ∈ M.rows, r = [] := by
  unfold CSM.nnz
  induction M.rows with
  | nil => simp
  | cons a l ih =>
    simp only [List.map_cons, List.sum_cons, List.mem_cons, forall_eq_or_imp]
    constructor
    · intro h
      exact ⟨List.eq_nil_of_length_eq_zero (by omega), ih.mp (by omega)⟩
    · rintro ⟨rfl, h⟩
      simp [ih.mpr h]

theorem isEmpty_eq_false_iff {β : Type} (r : List β) : (!r.isEmpty) = true ↔ r ≠ [] := by
  cases r <;> simp

/-! ### `dirty`, `inMapCount`, `nonEmptyCount` -/

theorem dirty_eq_true_iff (s : MState α) (id : Nat) :
    dirty s id = true ↔ ∃ p ∈ s.m.rows.zip s.locs, p.1 ≠ [] ∧ p.2 ≠ Loc.map id := by
  unfold dirty
  rw [List.any_eq_true]
  constructor
  · rintro ⟨⟨r, l⟩, hp, h⟩
    simp only [Bool.and_eq_true, bne_iff_ne, ne_eq] at h
    exact ⟨(r, l), hp, (isEmpty_eq_false_iff r).mp h.1, h.2⟩
  · rintro ⟨⟨r, l⟩, hp, h1, h2⟩
    refine ⟨(r, l), hp, ?_⟩
    simp only [Bool.and_eq_true, bne_iff_ne, ne_eq]
    exact ⟨(isEmpty_eq_false_iff r).mpr h1, h2⟩

theorem dirty_eq_false_iff (s : MState α) (id : Nat) :
    dirty s id = false ↔ ∀ p ∈ s.m.rows.zip s.locs, p.1 ≠ [] → p.2 = Loc.map id := by
  rw [← Bool.not_eq_true, dirty_eq_true_iff]
  constructor
  · intro h p hp hne
    apply Classical.byContradiction
    intro hc
    exact h ⟨p, hp, hne, hc⟩
  · rintro h ⟨p, hp, hne, hc⟩
    exact hc (h p hp hne)

theorem nnz_ne_zero_of_dirty {s : MState α} {id : Nat} (h : dirty s id = true) : s.m.nnz ≠ 0 := by
  obtain ⟨⟨r, l⟩, hp, hne, _⟩ := (dirty_eq_true_iff s id).mp h
  intro h0
  exact hne ((nnz_eq_zero_iff s.m).mp h0 r (List.of_mem_zip hp).1)

/-- a matrix without stored entries is never dirty, hence `alreadyClean` iff a mapping is adopted -/
theorem mapped_none_of_not_clean_of_empty {s : MState α} (hc : alreadyClean s = false)
    (h0 : s.m.nnz = 0) : s.mapped = none := by
  unfold alreadyClean at hc
  cases hm : s.mapped with
  | none => rfl
  | some id =>
    rw [hm] at hc
    simp only [Bool.not_eq_eq_eq_not, Bool.not_false] at hc
    exact absurd h0 (nnz_ne_zero_of_dirty hc)

theorem filter_zip_length {rows : List (Row α)} {locs : List Loc} (p : Row α × Loc → Bool)
    (q : Row α → Bool) (hl : locs.length = rows.length)
    (h : ∀ x ∈ rows.zip locs, p x = q x.1) :
    ((rows.zip locs).filter p).length = (rows.filter q).length := by
  induction rows generalizing locs with
  | nil => simp
  | cons r rows ih =>
    cases locs with
    | nil => simp at hl
    | cons l locs =>
      simp only [List.zip_cons_cons, List.filter_cons]
      have h1 : p (r, l) = q r := h (r, l) (by simp)
      have h2 := ih (locs := locs) (by simpa using hl) (fun x hx => h x (by simp [hx]))
      rw [h1]
      cases q r <;> simp [h2]

/-- all non-empty rows tagged with mapping `id` ⇒ the two counters agree -/
theorem inMapCount_eq_of_not_dirty {s : MState α} {id : Nat} (hm : s.mapped = some id)
    (hl : s.locs.length = s.m.rows.length) (hd : dirty s id = false) :
    inMapCount s = nonEmptyCount s := by
  unfold inMapCount nonEmptyCount
  rw [hm]
  simp only []
  apply filter_zip_length _ _ hl
  rintro ⟨r, l⟩ hx
  have := (dirty_eq_false_iff s id).mp hd (r, l) hx
  simp only at this ⊢
  by_cases hr : r = []
  · subst hr; rfl
  · rw [this hr]
    simp

theorem nonEmptyCount_eq_zero_of_empty {s : MState α} (h0 : s.m.nnz = 0) : nonEmptyCount s = 0 := by
  unfold nonEmptyCount
  rw [List.length_eq_zero_iff, List.filter_eq_nil_iff]
  intro r hr
  rw [(nnz_eq_zero_iff s.m).mp h0 r hr]
  simp

/-! ### resizing, for any scalar -/

theorem setMajorDim_length (M : CSM α) (d : Nat) : (M.setMajorDim d).rows.length = d := by
  unfold CSM.setMajorDim; simp only
  split
  · simp only [List.length_append, List.length_replicate]; omega
  · simp only [List.length_take, List.length_append]; omega

theorem setMajorDim_major (M : CSM α) (d : Nat) : (M.setMajorDim d).major = d := by
  unfold CSM.setMajorDim; simp only; split <;> rfl

theorem setMajorDim_minor (M : CSM α) (d : Nat) : (M.setMajorDim d).minor = M.minor := by
  unfold CSM.setMajorDim; simp only; split <;> rfl

/-- the new row table is a prefix of the old one extended by something -/
theorem setMajorDim_rows_take (M : CSM α) (d : Nat) :
    ∃ X, (M.setMajorDim d).rows = (M.rows ++ X).take d := by
  unfold CSM.setMajorDim; simp only
  split
  · refine ⟨List.replicate (d - M.rows.length) [], ?_⟩
    simp only []
    rw [List.take_of_length_le]
    simp only [List.length_append, List.length_replicate]; omega
  · exact ⟨M.hidden, rfl⟩

theorem hclean_eq_replicate {M : CSM α} (hc : HClean M) :
    M.hidden = List.replicate M.hidden.length [] :=
  List.eq_replicate_iff.mpr ⟨rfl, hc⟩

/-- with a clean hidden part the new row table depends on the visible rows only -/
theorem setMajorDim_rows_of_clean {M : CSM α} (hc : HClean M) (d : Nat) :
    (M.setMajorDim d).rows = (M.rows ++ List.replicate (d - M.rows.length) []).take d := by
  unfold CSM.setMajorDim; simp only
  split
  · rw [List.take_of_length_le]
    simp only [List.length_append, List.length_replicate]; omega
  · rename_i hcap
    simp only []
    rw [hclean_eq_replicate hc, List.take_append, List.take_append, List.take_replicate,
      List.take_replicate]
    congr 2
    omega

theorem setMajorDim_hclean {M : CSM α} (hc : HClean M) (d : Nat) :
    HClean (M.setMajorDim d) := by
  unfold CSM.setMajorDim HClean; simp only
  split
  · intro r hr; simp at hr
  · intro r hr
    simp only [List.mem_map] at hr
    obtain ⟨⟨x, k⟩, hx, rfl⟩ := hr
    simp only
    split
    · rfl
    · rename_i hlt
      have hx' := List.mk_mem_zipIdx_iff_getElem?.mp hx
      rw [List.getElem?_drop, List.getElem?_append, if_neg hlt] at hx'
      exact hc x (List.mem_iff_getElem?.mpr ⟨_, hx'⟩)

theorem setMinorDim_length (M : CSM α) (d : Nat) :
    (M.setMinorDim d).rows.length = M.rows.length := by
  unfold CSM.setMinorDim; split <;> simp

theorem setMinorDim_hidden (M : CSM α) (d : Nat) : (M.setMinorDim d).hidden = M.hidden := by
  unfold CSM.setMinorDim; split <;> rfl

theorem setMinorDim_rows_of_le (M : CSM α) {d : Nat} (h : M.minor ≤ d) :
    (M.setMinorDim d).rows = M.rows := by
  unfold CSM.setMinorDim
  rw [if_neg (by omega)]

/-- the visible rows are mapped through a function that never makes an empty row non-empty -/
theorem setMinorDim_rows_map (M : CSM α) (d : Nat) :
    ∃ g : Row α → Row α, (∀ r, g r ≠ [] → r ≠ []) ∧ (M.setMinorDim d).rows = M.rows.map g := by
  unfold CSM.setMinorDim
  split
  · refine ⟨fun r => r.takeWhile (·.idx < d), ?_, rfl⟩
    intro r h hr
    subst hr
    exact h rfl
  · exact ⟨id, fun _ h => h, by simp⟩

theorem setDim_length (M : CSM α) (r c : Nat) : (M.setDim r c).rows.length = r := by
  unfold CSM.setDim
  rw [setMinorDim_length, setMajorDim_length]

theorem setDim_hclean {M : CSM α} (hc : HClean M) (r c : Nat) : HClean (M.setDim r c) := by
  unfold CSM.setDim HClean
  rw [setMinorDim_hidden]
  exact setMajorDim_hclean hc r

theorem mergeSpan_nil_right (s : List (Entry α)) : mergeSpan s [] = s := by
  rw [mergeSpan]

theorem mergeRows_nil_right (t : List (Row α)) : mergeRows t [] = t := by
  cases t <;> rfl

theorem mergeRows_length (t1 t2 : List (Row α)) : (mergeRows t1 t2).length = t1.length := by
  fun_induction mergeRows t1 t2 <;> simp_all

/-- the row table of the receiver just before the row-wise merge of `CSMatrix.Merge` -/
def grownRows (A B : CSM α) : List (Row α) := (A.setMajorDim (max A.major B.major)).rows

theorem merge_rows (A B : CSM α) : (A.merge B).1.rows = mergeRows (grownRows A B) B.rows := by
  unfold CSM.merge grownRows
  simp only []
  rw [setMinorDim_rows_of_le _ (by rw [setMajorDim_minor]; exact Nat.le_max_left _ _)]

theorem merge_grown_rows (A B : CSM α) :
    ((A.setMajorDim (max A.major B.major)).setMinorDim (max A.minor B.minor)).rows =
      grownRows A B := by
  unfold grownRows
  rw [setMinorDim_rows_of_le _ (by rw [setMajorDim_minor]; exact Nat.le_max_left _ _)]

theorem grownRows_length (A B : CSM α) : (grownRows A B).length = max A.major B.major :=
  setMajorDim_length _ _

theorem merge_length (A B : CSM α) : (A.merge B).1.rows.length = max A.major B.major := by
  rw [merge_rows, mergeRows_length, grownRows_length]

theorem merge_major (A B : CSM α) : (A.merge B).1.major = max A.major B.major := by
  unfold CSM.merge; simp only []
  unfold CSM.setMinorDim
  split <;> exact setMajorDim_major _ _

theorem merge_minor (A B : CSM α) : (A.merge B).1.minor = max A.minor B.minor := by
  unfold CSM.merge; simp only []
  unfold CSM.setMinorDim
  split <;> rfl

theorem merge_hclean {A : CSM α} (hc : HClean A) (B : CSM α) : HClean (A.merge B).1 := by
  unfold CSM.merge HClean
  simp only []
  rw [setMinorDim_hidden]
  exact setMajorDim_hclean hc _

/-! ### no dangling pointers -/

/-- every non-empty row that points into a mapping points into the adopted one -/
def AllGood (mp : Option Nat) (rows : List (Row α)) (locs : List Loc) : Prop :=
  ∀ p ∈ rows.zip locs, ∀ id, p.1 ≠ [] → p.2 = Loc.map id → mp = some id

theorem allGood_const_heap (mp : Option Nat) (rows : List (Row α)) :
    AllGood mp rows (rows.map fun _ => Loc.heap) := by
  intro p hp id _ h
  rw [snd_of_mem_zip_const hp] at h
  cases h

theorem allGood_const_map (rows : List (Row α)) (id : Nat) :
    AllGood (some id) rows (rows.map fun _ => Loc.map id) := by
  intro p hp id' _ h
  rw [snd_of_mem_zip_const hp] at h
  cases h
  rfl

theorem allGood_nil (mp : Option Nat) : AllGood mp ([] : List (Row α)) [] := by
  intro p hp
  simp at hp

theorem allGood_grow {mp : Option Nat} {rows : List (Row α)} {locs : List Loc}
    (h : AllGood mp rows locs) (hl : locs.length = rows.length) (X : List (Row α)) (k d : Nat) :
    AllGood mp ((rows ++ X).take d) ((locs ++ List.replicate k Loc.heap).take d) := by
  intro p hp id hne hid
  rw [List.zip_eq_zipWith, ← List.take_zipWith, ← List.zip_eq_zipWith, List.zip_append hl.symm] at hp
  rcases List.mem_append.mp (List.mem_of_mem_take hp) with hp | hp
  · exact h p hp id hne hid
  · rw [snd_of_mem_zip_replicate hp] at hid
    cases hid

theorem allGood_map {mp : Option Nat} {rows : List (Row α)} {locs : List Loc}
    (h : AllGood mp rows locs) {g : Row α → Row α} (hg : ∀ r, g r ≠ [] → r ≠ []) :
    AllGood mp (rows.map g) locs := by
  intro p hp id hne hid
  rw [List.zip_map_left] at hp
  obtain ⟨q, hq, rfl⟩ := List.mem_map.mp hp
  exact h q hq id (hg _ hne) hid

theorem allGood_merge {mp : Option Nat} (g : List (Row α)) (lg : List Loc) (u : List (Row α))
    (h : AllGood mp g lg) : AllGood mp (mergeRows g u) (mergeLocs g lg u) := by
  fun_induction mergeLocs g lg u with
  | case1 r1 t1 l1 tl r2 t2 ih =>
    have ht : AllGood mp t1 tl := fun p hp => h p (by simp [hp])
    intro p hp id hne hid
    simp only [mergeRows, List.zip_cons_cons, List.mem_cons] at hp
    rcases hp with rfl | hp
    · simp only at hne hid
      cases r2 with
      | nil =>
        simp only [List.isEmpty_nil, if_true] at hid
        rw [mergeSpan_nil_right] at hne
        exact h (r1, l1) (by simp) id hne hid
      | cons b r2 =>
        simp at hid
    · exact ih ht p hp id hne hid
  | case2 t1 tl =>
    rw [mergeRows_nil_right]
    exact h
  | case3 t1 tl u hx hy =>
    intro p hp
    simp at hp

theorem mergeLocs_length (g : List (Row α)) (lg : List Loc) (u : List (Row α))
    (hl : lg.length = g.length) : (mergeLocs g lg u).length = g.length := by
  fun_induction mergeLocs g lg u with
  | case1 r1 t1 l1 tl r2 t2 ih =>
    simp only [List.length_cons] at hl ⊢
    rw [ih (by omega)]
  | case2 t1 tl => exact hl
  | case3 t1 tl u hx hy =>
    cases t1 with
    | nil => rfl
    | cons r1 t1 =>
      cases tl with
      | nil => simp at hl
      | cons l1 tl =>
        cases u with
        | nil => exact absurd rfl hx
        | cons r2 t2 => exact (hy r1 t1 l1 tl r2 t2 rfl rfl rfl).elim

/-- a row of the update that is not empty makes the corresponding receiver row heap-allocated -/
theorem mergeLocs_heap (g : List (Row α)) (lg : List Loc) (u : List (Row α))
    (hl : lg.length = g.length) {i : Nat} (hi : i < g.length) {r2 : Row α}
    (hu : u[i]? = some r2) (hne : r2 ≠ []) : (mergeLocs g lg u)[i]? = some Loc.heap := by
  fun_induction mergeLocs g lg u generalizing i with
  | case1 r1 t1 l1 tl r2' t2 ih =>
    cases i with
    | zero =>
      simp only [List.getElem?_cons_zero, Option.some.injEq] at hu
      subst hu
      cases r2' with
      | nil => exact absurd rfl hne
      | cons _ _ => simp
    | succ i =>
      simp only [List.getElem?_cons_succ] at hu ⊢
      exact ih (by simpa using hl) (by simpa using hi) hu
  | case2 t1 tl => simp at hu
  | case3 t1 tl u hx hy =>
    cases t1 with
    | nil => simp at hi
    | cons r1 t1 =>
      cases tl with
      | nil => simp at hl
      | cons l1 tl =>
        cases u with
        | nil => simp at hu
        | cons r2' t2 => exact (hy r1 t1 l1 tl r2' t2 rfl rfl rfl).elim

/-! ### the state invariant -/

/-- no temp file, no descriptor, no mapping beside the adopted one -/
def Ledger.clean (l : Ledger) : Prop := l.files = [] ∧ l.fds = [] ∧ l.maps = []

/-- Well-formed swap-out state: one location tag per row; between calls no temp file exists, no
    descriptor is open and the only live mapping is the adopted one; no non-empty row points into
    a mapping other than the adopted one (no dangling pointer); ledger ids are below the supply. -/
structure MInv (s : MState α) : Prop where
  len : s.locs.length = s.m.rows.length
  files : s.led.files = []
  fds : s.led.fds = []
  maps : s.led.maps = (match s.mapped with | some id => [id] | none => [])
  nodangling : ∀ p ∈ s.m.rows.zip s.locs, ∀ id, p.1 ≠ [] → p.2 = Loc.map id → s.mapped = some id
  fresh : ∀ x ∈ s.led.files ++ s.led.fds ++ s.led.maps, x < s.led.next

theorem MInv.maps_lt {s : MState α} (h : MInv s) : ∀ x ∈ s.led.maps, x < s.led.next :=
  fun x hx => h.fresh x (by simp [hx])

theorem MInv.maps_of_some {s : MState α} (h : MInv s) {id : Nat} (hm : s.mapped = some id) :
    s.led.maps = [id] := by
  have := h.maps; rw [hm] at this; exact this

theorem MInv.maps_of_none {s : MState α} (h : MInv s) (hm : s.mapped = none) :
    s.led.maps = [] := by
  have := h.maps; rw [hm] at this; exact this

theorem MInv.id_lt {s : MState α} (h : MInv s) {id : Nat} (hm : s.mapped = some id) :
    id < s.led.next :=
  h.maps_lt id (by rw [h.maps_of_some hm]; simp)

theorem munmap_none {s : MState α} (h : s.mapped = none) : munmap s = s := by
  unfold munmap; rw [h]

theorem munmap_some {s : MState α} {id : Nat} (h : s.mapped = some id) :
    munmap s = { m := { s.m with hidden := [] }, locs := s.m.rows.map fun _ => Loc.heap,
                 mapped := none, led := { s.led with maps := rmv s.led.maps id } } := by
  unfold munmap; rw [h]

theorem munmap_rows (s : MState α) : (munmap s).m.rows = s.m.rows := by
  unfold munmap; cases s.mapped <;> rfl

theorem munmap_major (s : MState α) : (munmap s).m.major = s.m.major := by
  unfold munmap; cases s.mapped <;> rfl

theorem munmap_minor (s : MState α) : (munmap s).m.minor = s.m.minor := by
  unfold munmap; cases s.mapped <;> rfl

theorem munmap_mapped (s : MState α) : (munmap s).mapped = none := by
  unfold munmap
  cases h : s.mapped with
  | none => exact h
  | some id => rfl

theorem munmap_hclean {s : MState α} (hc : HClean s.m) : HClean (munmap s).m := by
  unfold munmap
  cases s.mapped with
  | none => exact hc
  | some id => intro r hr; simp at hr

theorem munmap_inv {s : MState α} (h : MInv s) : MInv (munmap s) := by
  cases hm : s.mapped with
  | none => rw [munmap_none hm]; exact h
  | some id =>
    rw [munmap_some hm]
    refine ⟨by simp, h.files, h.fds, ?_, allGood_const_heap _ _, ?_⟩
    · simp only []
      rw [h.maps_of_some hm, rmv_singleton]
    · intro x hx
      simp only [h.files, h.fds, h.maps_of_some hm, rmv_singleton, List.append_nil] at hx
      simp at hx

theorem munmap_maps {s : MState α} (h : MInv s) : (munmap s).led.maps = [] :=
  (munmap_inv h).maps_of_none (munmap_mapped s)

theorem failSt_inv {s : MState α} (h : MInv s) : MInv (failSt s) := by
  unfold failSt
  refine ⟨h.len, ?_, ?_, h.maps, h.nodangling, ?_⟩
  · simp only []; rw [h.files, rmv_singleton]
  · simp only []; rw [h.fds, rmv_singleton]
  · intro x hx
    simp only [h.files, h.fds, rmv_singleton, List.nil_append] at hx
    have := h.maps_lt x hx
    simp only []; omega

theorem next_succ_not_mem {s : MState α} (h : MInv s) : s.led.next + 1 ∉ s.led.maps := by
  intro hx
  have := h.maps_lt _ hx
  omega

theorem cancelSt_inv {s : MState α} (h : MInv s) : MInv (cancelSt s) := by
  unfold cancelSt
  refine ⟨h.len, ?_, ?_, ?_, h.nodangling, ?_⟩
  · simp only []; rw [h.files, rmv_singleton]
  · simp only []; rw [h.fds, rmv_singleton]
  · simp only []; rw [rmv_cons_self (next_succ_not_mem h)]; exact h.maps
  · intro x hx
    simp only [h.files, h.fds, rmv_singleton, List.nil_append,
      rmv_cons_self (next_succ_not_mem h)] at hx
    have := h.maps_lt x hx
    simp only []; omega

theorem okSt_maps {s : MState α} (h : MInv s) : (okSt s).led.maps = [s.led.next + 1] := by
  unfold okSt
  simp only []
  cases hm : s.mapped with
  | none => simp only []; rw [h.maps_of_none hm]
  | some old =>
    simp only []
    rw [h.maps_of_some hm]
    have := h.id_lt hm
    exact rmv_pair (by omega)

theorem okSt_inv {s : MState α} (h : MInv s) : MInv (okSt s) := by
  refine ⟨by simp [okSt], ?_, ?_, okSt_maps h, allGood_const_map _ _, ?_⟩
  · simp only [okSt]; rw [h.files, rmv_singleton]
  · simp only [okSt]; rw [h.fds, rmv_singleton]
  · intro x hx
    rw [okSt_maps h] at hx
    simp only [okSt, h.files, h.fds, rmv_singleton, List.nil_append, List.mem_singleton] at hx
    simp only [okSt]; omega

theorem mmap_inv {s : MState α} (h : MInv s) {f : Faults} (hr : f.remove = false) :
    MInv (mmap f s).1 := by
  rw [mmap_eq]
  split
  · exact h
  · split
    · exact munmap_inv h
    · split
      · exact h
      · split
        · exact failSt_inv h
        · split
          · exact failSt_inv h
          · rw [if_neg (by simp [hr])]
            split
            · exact cancelSt_inv h
            · exact okSt_inv h

theorem reset_inv {s : MState α} (h : MInv s) : MInv (reset s) := by
  have h' := munmap_inv h
  unfold reset
  exact ⟨rfl, h'.files, h'.fds, h'.maps, allGood_nil _, h'.fresh⟩

theorem finalize_inv {s : MState α} (h : MInv s) : MInv (finalize s) := munmap_inv h

theorem setDim_locs_length (s : MState α) (r c : Nat) : (setDim s r c).locs.length = r := by
  unfold setDim
  simp only [List.length_take, List.length_append, List.length_replicate]
  omega

theorem setDim_inv {s : MState α} (h : MInv s) (r c : Nat) : MInv (setDim s r c) := by
  refine ⟨?_, h.files, h.fds, h.maps, ?_, h.fresh⟩
  · rw [setDim_locs_length]
    exact (setDim_length s.m r c).symm
  · obtain ⟨X, hX⟩ := setMajorDim_rows_take s.m r
    obtain ⟨g, hg, hrows⟩ := setMinorDim_rows_map (s.m.setMajorDim r) c
    have : (setDim s r c).m.rows = ((s.m.rows ++ X).take r).map g := by
      unfold setDim CSM.setDim
      simp only []
      rw [hrows, hX]
    show AllGood s.mapped (setDim s r c).m.rows (setDim s r c).locs
    rw [this]
    exact allGood_map (allGood_grow h.nodangling h.len X _ r) hg

/-- the receiver after `Merge` -/
theorem merge_fst_inv {s : MState α} (h : MInv s) (u : MState α) : MInv (merge s u).1 := by
  have hrows : (merge s u).1.m.rows = mergeRows (grownRows s.m (munmap u).m) (munmap u).m.rows :=
    merge_rows s.m (munmap u).m
  have hlocs : (merge s u).1.locs = mergeLocs (grownRows s.m (munmap u).m)
      ((s.locs ++ List.replicate ((grownRows s.m (munmap u).m).length - s.locs.length) Loc.heap).take
        (grownRows s.m (munmap u).m).length) (munmap u).m.rows := by
    unfold merge
    simp only []
    rw [merge_grown_rows]
  have hlen : ((s.locs ++ List.replicate ((grownRows s.m (munmap u).m).length - s.locs.length)
      Loc.heap).take (grownRows s.m (munmap u).m).length).length =
      (grownRows s.m (munmap u).m).length := by
    simp only [List.length_take, List.length_append, List.length_replicate]
    omega
  refine ⟨?_, h.files, h.fds, h.maps, ?_, h.fresh⟩
  · rw [hrows, hlocs, mergeLocs_length _ _ _ hlen, mergeRows_length]
  · show AllGood s.mapped (merge s u).1.m.rows (merge s u).1.locs
    rw [hrows, hlocs]
    apply allGood_merge
    obtain ⟨X, hX⟩ := setMajorDim_rows_take s.m (max s.m.major (munmap u).m.major)
    have hg : grownRows s.m (munmap u).m =
        (s.m.rows ++ X).take (grownRows s.m (munmap u).m).length := by
      rw [grownRows_length]; exact hX
    have hgood := allGood_grow h.nodangling h.len X
      ((grownRows s.m (munmap u).m).length - s.locs.length) (grownRows s.m (munmap u).m).length
    rw [← hg] at hgood
    exact hgood

/-- the argument after `Merge` is `Reset` -/
theorem merge_snd_eq_reset (s u : MState α) : (merge s u).2 = reset u := rfl

theorem merge_snd_inv (s : MState α) {u : MState α} (h : MInv u) : MInv (merge s u).2 :=
  reset_inv h

theorem fresh_inv (m : CSM α) {led : Ledger} (hc : led.clean) : MInv (fresh m led) := by
  obtain ⟨h1, h2, h3⟩ := hc
  refine ⟨by simp [fresh], h1, h2, h3, allGood_const_heap _ _, ?_⟩
  intro x hx
  simp [fresh, h1, h2, h3] at hx

/-! ### the operation language -/

/-- the operations a client can perform on a (possibly swapped-out) matrix; `mmap f` carries the
    environment's fault choice for that call, `mergeFrom u` merges a freshly built update `u`,
    `finalize` is the garbage collector's hook -/
inductive Op (α : Type) where
  | mmap (f : Faults)
  | munmap
  | reset
  | finalize
  | setDim (r c : Nat)
  | mergeFrom (u : CSM α)

/-- one operation on the swap-out state (the process ledger is carried along) -/
def step (s : MState α) : Op α → MState α
  | .mmap f => (Mm.mmap f s).1
  | .munmap => Mm.munmap s
  | .reset => Mm.reset s
  | .finalize => Mm.finalize s
  | .setDim r c => Mm.setDim s r c
  | .mergeFrom u => (Mm.merge s (fresh u s.led)).1

def run (s : MState α) (ops : List (Op α)) : MState α := ops.foldl step s

/-- the same operation on a plain heap matrix: swap-out, swap-in and finalisation do nothing -/
def stepPlain (m : CSM α) : Op α → CSM α
  | .mmap _ => m
  | .munmap => m
  | .finalize => m
  | .reset => CSM.empty
  | .setDim r c => m.setDim r c
  | .mergeFrom u => (m.merge u).1

def runPlain (m : CSM α) (ops : List (Op α)) : CSM α := ops.foldl stepPlain m

/-- no `Mmap` call of the history suffers an `os.Remove` failure -/
def NoRemoveFault (ops : List (Op α)) : Prop := ∀ f, Op.mmap f ∈ ops → f.remove = false

theorem step_inv {s : MState α} (h : MInv s) (op : Op α)
    (hop : ∀ f, op = Op.mmap f → f.remove = false) : MInv (step s op) := by
  cases op with
  | mmap f => exact mmap_inv h (hop f rfl)
  | munmap => exact munmap_inv h
  | reset => exact reset_inv h
  | finalize => exact finalize_inv h
  | setDim r c => exact setDim_inv h r c
  | mergeFrom u => exact merge_fst_inv h _

theorem run_inv {s : MState α} (h : MInv s) (ops : List (Op α)) (hops : NoRemoveFault ops) :
    MInv (run s ops) := by
  induction ops generalizing s with
  | nil => exact h
  | cons op ops ih =>
    unfold run
    rw [List.foldl_cons]
    exact ih (step_inv h op (fun f hf => hops f (by simp [hf])))
      (fun f hf => hops f (by simp [hf]))

/-! ### transparency -/

/-- same visible contents and dimensions, both hidden parts clean -/
def Sim (a b : CSM α) : Prop :=
  a.rows = b.rows ∧ a.major = b.major ∧ a.minor = b.minor ∧ HClean a ∧ HClean b

theorem mmap_rows (f : Faults) (s : MState α) : (mmap f s).1.m.rows = s.m.rows := by
  rw [mmap_eq]
  repeat' split
  all_goals first | rfl | exact munmap_rows s

theorem mmap_major (f : Faults) (s : MState α) : (mmap f s).1.m.major = s.m.major := by
  rw [mmap_eq]
  repeat' split
  all_goals first | rfl | exact munmap_major s

theorem mmap_minor (f : Faults) (s : MState α) : (mmap f s).1.m.minor = s.m.minor := by
  rw [mmap_eq]
  repeat' split
  all_goals first | rfl | exact munmap_minor s

theorem okSt_hclean (s : MState α) : HClean (okSt s).m := by
  intro r hr
  simp only [okSt, List.mem_map] at hr
  obtain ⟨_, _, rfl⟩ := hr
  rfl

theorem mmap_hclean (f : Faults) {s : MState α} (hc : HClean s.m) : HClean (mmap f s).1.m := by
  rw [mmap_eq]
  repeat' split
  all_goals first | exact hc | exact munmap_hclean hc | exact okSt_hclean s

theorem setMajorDim_sim {a b : CSM α} (h : Sim a b) (d : Nat) :
    Sim (a.setMajorDim d) (b.setMajorDim d) := by
  obtain ⟨h1, h2, h3, h4, h5⟩ := h
  refine ⟨?_, ?_, ?_, setMajorDim_hclean h4 d, setMajorDim_hclean h5 d⟩
  · rw [setMajorDim_rows_of_clean h4, setMajorDim_rows_of_clean h5, h1]
  · rw [setMajorDim_major, setMajorDim_major]
  · rw [setMajorDim_minor, setMajorDim_minor, h3]

theorem setMinorDim_sim {a b : CSM α} (h : Sim a b) (d : Nat) :
    Sim (a.setMinorDim d) (b.setMinorDim d) := by
  obtain ⟨h1, h2, h3, h4, h5⟩ := h
  have ha : HClean (a.setMinorDim d) := by unfold HClean; rw [setMinorDim_hidden]; exact h4
  have hb : HClean (b.setMinorDim d) := by unfold HClean; rw [setMinorDim_hidden]; exact h5
  refine ⟨?_, ?_, ?_, ha, hb⟩
  all_goals
    unfold CSM.setMinorDim
    rw [h3]
    split
    · simp only [h1, h2]
    · simp only [h1, h2]

theorem setDim_sim {a b : CSM α} (h : Sim a b) (r c : Nat) : Sim (a.setDim r c) (b.setDim r c) :=
  setMinorDim_sim (setMajorDim_sim h r) c

theorem merge_sim {a b : CSM α} (h : Sim a b) (u : CSM α) : Sim (a.merge u).1 (b.merge u).1 := by
  have hg := setMinorDim_sim (setMajorDim_sim h (max a.major u.major)) (max a.minor u.minor)
  rw [h.2.1, h.2.2.1] at hg
  obtain ⟨g1, g2, g3, g4, g5⟩ := hg
  have e1 : a.major = b.major := h.2.1
  have e2 : a.minor = b.minor := h.2.2.1
  refine ⟨?_, ?_, ?_, merge_hclean h.2.2.2.1 u, merge_hclean h.2.2.2.2 u⟩
  · unfold CSM.merge
    simp only []
    rw [e1, e2, g1]
  · rw [merge_major, merge_major, e1]
  · rw [merge_minor, merge_minor, e2]

theorem step_sim {s : MState α} {p : CSM α} (h : Sim s.m p) (op : Op α) :
    Sim (step s op).m (stepPlain p op) := by
  cases op with
  | mmap f =>
    exact ⟨(mmap_rows f s).trans h.1, (mmap_major f s).trans h.2.1, (mmap_minor f s).trans h.2.2.1,
      mmap_hclean f h.2.2.2.1, h.2.2.2.2⟩
  | munmap =>
    exact ⟨(munmap_rows s).trans h.1, (munmap_major s).trans h.2.1, (munmap_minor s).trans h.2.2.1,
      munmap_hclean h.2.2.2.1, h.2.2.2.2⟩
  | finalize =>
    exact ⟨(munmap_rows s).trans h.1, (munmap_major s).trans h.2.1, (munmap_minor s).trans h.2.2.1,
      munmap_hclean h.2.2.2.1, h.2.2.2.2⟩
  | reset =>
    have hc : HClean (CSM.empty : CSM α) := by intro r hr; simp [CSM.empty] at hr
    exact ⟨rfl, rfl, rfl, hc, hc⟩
  | setDim r c => exact setDim_sim h r c
  | mergeFrom u => exact merge_sim h u

theorem run_sim {s : MState α} {p : CSM α} (h : Sim s.m p) (ops : List (Op α)) :
    Sim (run s ops).m (runPlain p ops) := by
  induction ops generalizing s p with
  | nil => exact h
  | cons op ops ih =>
    unfold run runPlain
    rw [List.foldl_cons, List.foldl_cons]
    exact ih (step_sim h op)

/-! ### re-mapping -/

theorem okSt_not_dirty (s : MState α) : dirty (okSt s) (s.led.next + 1) = false := by
  rw [dirty_eq_false_iff]
  intro p hp _
  exact snd_of_mem_zip_const hp

theorem okSt_alreadyClean (s : MState α) : alreadyClean (okSt s) = true := by
  have h := okSt_not_dirty s
  unfold alreadyClean
  show (!dirty (okSt s) (s.led.next + 1)) = true
  rw [h]; rfl

theorem mmap_of_clean {s : MState α} (h : alreadyClean s = true) (f : Faults) :
    mmap f s = (s, .ok ()) := by
  rw [mmap_eq, if_pos h]

/-- `Mmap` of a matrix without stored entries does nothing at all -/
theorem mmap_of_empty {s : MState α} (h0 : s.m.nnz = 0) (f : Faults) : mmap f s = (s, .ok ()) := by
  rw [mmap_eq]
  by_cases hc : alreadyClean s = true
  · rw [if_pos hc]
  · rw [if_neg hc, if_pos h0,
      munmap_none (mapped_none_of_not_clean_of_empty (by simpa using hc) h0)]

theorem mergeFrom_rows (s : MState α) (u : CSM α) :
    (step s (.mergeFrom u)).m.rows = mergeRows (grownRows s.m u) u.rows :=
  merge_rows s.m u

theorem mergeFrom_locs (s : MState α) (u : CSM α) :
    (step s (.mergeFrom u)).locs = mergeLocs (grownRows s.m u)
      ((s.locs ++ List.replicate ((grownRows s.m u).length - s.locs.length) Loc.heap).take
        (grownRows s.m u).length) u.rows := by
  show (merge s (fresh u s.led)).1.locs = _
  unfold merge
  simp only []
  rw [munmap_none (s := fresh u s.led) rfl, merge_grown_rows]
  rfl

/-- a row that receives a non-empty update row and ends non-empty is outside every mapping -/
theorem dirty_mergeFrom (s : MState α) (u : CSM α) (id : Nat) {i : Nat}
    (hne : (step s (.mergeFrom u)).m.rows.getD i [] ≠ []) (hu : u.rows.getD i [] ≠ []) :
    dirty (step s (.mergeFrom u)) id = true := by
  rw [dirty_eq_true_iff]
  have hlen : ((s.locs ++ List.replicate ((grownRows s.m u).length - s.locs.length)
      Loc.heap).take (grownRows s.m u).length).length = (grownRows s.m u).length := by
    simp only [List.length_take, List.length_append, List.length_replicate]
    omega
  have hi : i < (grownRows s.m u).length := by
    apply Classical.byContradiction
    intro hge
    apply hne
    rw [List.getD_eq_getElem?_getD, List.getElem?_eq_none_iff.mpr (by
      rw [mergeFrom_rows, mergeRows_length]; omega)]
    rfl
  obtain ⟨r2, hr2⟩ : ∃ r2, u.rows[i]? = some r2 := by
    cases h : u.rows[i]? with
    | none => rw [List.getD_eq_getElem?_getD, h] at hu; exact absurd rfl hu
    | some r2 => exact ⟨r2, rfl⟩
  have hr2ne : r2 ≠ [] := by
    rw [List.getD_eq_getElem?_getD, hr2] at hu; exact hu
  have hloc := mergeLocs_heap (grownRows s.m u) _ u.rows hlen hi hr2 hr2ne
  rw [← mergeFrom_locs] at hloc
  have hi' : i < (step s (.mergeFrom u)).m.rows.length := by
    rw [mergeFrom_rows, mergeRows_length]; exact hi
  have hrow : (step s (.mergeFrom u)).m.rows[i]? = some ((step s (.mergeFrom u)).m.rows.getD i []) := by
    rw [List.getD_eq_getElem?_getD, List.getElem?_eq_getElem hi']; rfl
  refine ⟨((step s (.mergeFrom u)).m.rows.getD i [], Loc.heap), ?_, hne, by simp⟩
  apply List.mem_iff_getElem?.mpr
  refine ⟨i, ?_⟩
  rw [List.getElem?_zip_eq_some]
  exact ⟨hrow, hloc⟩

/-! ### reading the tests -/

theorem alreadyClean_iff (s : MState α) :
    alreadyClean s = true ↔ ∃ id, s.mapped = some id ∧ dirty s id = false := by
  unfold alreadyClean
  cases s.mapped with
  | none => simp
  | some id => simp

theorem cancelled_iff (f : Faults) (s : MState α) :
    cancelled f s = true ↔ ∃ k, f.cancelAtRow = some k ∧ k < s.m.rows.length := by
  unfold cancelled
  cases f.cancelAtRow with
  | none => simp
  | some k => simp

theorem cancelled_eq_false_iff (f : Faults) (s : MState α) :
    cancelled f s = false ↔ ∀ k, f.cancelAtRow = some k → s.m.rows.length ≤ k := by
  unfold cancelled
  cases f.cancelAtRow with
  | none => simp
  | some k => simp

end EtVerif.Mm
