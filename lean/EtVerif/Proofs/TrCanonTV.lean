/-
  Refinement of the translated `basic.CanonicalizeTrustVector` (Gen/Translated.lean, regenerated from
  /repo) to the hand-written model `canonicalizeTrustVector` (Model/Basic.lean).
-/
import EtVerif.Proofs.TrCanon
import EtVerif.Proofs.TrHelpers
namespace EtVerif.Tr
open EtVerif EtVerif.GoSem EtVerif.Gen Scalar
variable {α : Type} [Scalar α]
/-! ### CanonicalizeTrustVector -/

/-- `Gen.Canonicalize` never panics; its entries and error are those of the model. -/
theorem Canonicalize_ok (es : List (Entry α)) :
    ∃ r, Gen.Canonicalize (toGs es) = .ok r ∧
      (r.1.entries, r.2) = (match canonicalize es with
        | .ok es' => (toGs es', (none : Option GoError))
        | .error _ => (toGs es, some ⟨"ErrZeroSum"⟩)) := by
  have h := Canonicalize_refines es
  cases hc : Gen.Canonicalize (toGs es) with
  | error e =>
    rw [hc] at h
    cases hcan : canonicalize es <;> simp [Except.map, hcan] at h
  | ok r =>
    refine ⟨r, rfl, ?_⟩
    rw [hc] at h
    cases hcan : canonicalize es <;> simpa [Except.map, hcan] using h

omit [Scalar α] in
/-- the uniform-fill loop: position `pre.length` gets `⟨pre.length, c⟩` in each iteration. -/
theorem CTV_loop (xs : List (GEntry α)) :
    ∀ (pre rest : List (GEntry α)) (s : CanonicalizeTrustVector.St α),
      xs.length = rest.length → s.v.Entries = pre ++ rest →
      ∃ s', Stm.range 1 CanonicalizeTrustVector.loop1_bind (CanonicalizeTrustVector.loop1_body (α := α))
          (pre.length : Int) xs s = .ok (s', .next) ∧
        s'.v.Entries = pre ++ (List.range' pre.length rest.length).map (fun (i : Nat) => (⟨(i : Int), s.c⟩ : GEntry α)) ∧
        s'.v.Dim = s.v.Dim := by
  induction xs with
  | nil =>
    intro pre rest s hl he
    have : rest = [] := by cases rest with
      | nil => rfl
      | cons _ _ => simp at hl
    subst this
    exact ⟨s, rfl, by simpa using he, rfl⟩
  | cons x xs ih =>
    intro pre rest s hl he
    cases rest with
    | nil => simp at hl
    | cons r rest =>
      have hl' : xs.length = rest.length := by simpa using hl
      obtain ⟨s', h1, h2, h3⟩ := ih (pre ++ [(⟨(pre.length : Int), s.c⟩ : GEntry α)]) rest
        { s with i := (pre.length : Int),
                 v := { s.v with Entries := pre ++ (⟨(pre.length : Int), s.c⟩ : GEntry α) :: rest } } hl' (by simp)
      refine ⟨s', ?_, ?_, ?_⟩
      · rw [range_cons_next (s1 :=
            { s with i := (pre.length : Int),
                     v := { s.v with Entries := pre ++ (⟨(pre.length : Int), s.c⟩ : GEntry α) :: rest } })]
        · have : ((pre ++ [(⟨(pre.length : Int), s.c⟩ : GEntry α)]).length : Int) = (pre.length : Int) + 1 := by
            simp
          rw [this] at h1
          exact h1
        · simp [CanonicalizeTrustVector.loop1_body, CanonicalizeTrustVector.loop1_bind, Stm.seq, Stm.set, he,
            goIdx_append_length, goSet_append_length, bind, Except.bind, pure, Except.pure]
      · simpa [List.range'_succ] using h2
      · simpa using h3

theorem toGs_uniformEntries (dim : Nat) :
    toGs (uniformEntries (α := α) dim) =
      (List.range' 0 dim).map (fun (i : Nat) => (⟨(i : Int), div one (ofNat dim)⟩ : GEntry α)) := by
  simp [uniformEntries, toGs, toG, List.range_eq_range', Function.comp_def]

/-- Go `basic.CanonicalizeTrustVector` = the model's `canonicalizeTrustVector` (normalise, or uniform when the
    compensated sum is zero). -/
theorem CanonicalizeTrustVector_refines (v : Vec α) :
    (Gen.CanonicalizeTrustVector (toGV v)).map (fun r => r.1.v) = .ok (toGV (canonicalizeTrustVector v)) := by
  obtain ⟨r, hr, hr2⟩ := Canonicalize_ok v.entries
  cases hcan : canonicalize v.entries with
  | ok es' =>
    rw [hcan] at hr2
    have h1 : r.1.entries = toGs es' := by simpa using congrArg Prod.fst hr2
    have h2 : r.2 = none := by simpa using congrArg Prod.snd hr2
    simp [Gen.CanonicalizeTrustVector, CanonicalizeTrustVector.body, Stm.run, Stm.seq, Stm.set, Stm.ite, Stm.skip,
      bind, Except.bind, pure, Except.pure, Except.map, hr, h1, h2, canonicalizeTrustVector, hcan, toGV]
  | error e =>
    rw [hcan] at hr2
    have h2 : r.2 = some ⟨"ErrZeroSum"⟩ := by simpa using congrArg Prod.snd hr2
    obtain ⟨s', h3, h4, h5⟩ := CTV_loop (List.replicate v.dim (GEntry.zero : GEntry α)) []
      (List.replicate v.dim (GEntry.zero : GEntry α))
      { v := ⟨(v.dim : Int), List.replicate v.dim (GEntry.zero : GEntry α)⟩, cond := true,
        c := Scalar.div (Scalar.one : α) (Scalar.ofNat v.dim), i := 0 } rfl rfl
    simp only [List.length_nil, Int.natCast_zero, List.nil_append, List.length_replicate] at h3 h4
    have hv : s'.v = ⟨(v.dim : Int), s'.v.Entries⟩ := by
      cases hs : s'.v; simp [hs] at h5 ⊢; exact h5
    simp only [Gen.CanonicalizeTrustVector, CanonicalizeTrustVector.body, Stm.run, Stm.ite, Stm.seq, Stm.set,
      Stm.rangeOver, CanonicalizeTrustVector.loop1_xs, bind, Except.bind, pure, Except.pure, Except.map,
      toGV_Entries, toGV_Dim, hr, h2, decide_true, goMake_natCast, goFloatOfInt_natCast, h3]
    rw [hv, h4]
    simp [toGV, toGs_uniformEntries, canonicalizeTrustVector, hcan]

end EtVerif.Tr
