/-
  Refinement of the translated Vector.Merge to the model Vec.merge.
-/
import EtVerif.Proofs.TrMergeSpan
import EtVerif.Proofs.TrVecSmall
namespace EtVerif.Tr
open EtVerif EtVerif.GoSem EtVerif.Gen Scalar
variable {α : Type} [Scalar α]
set_option linter.unusedSectionVars false
/-- Go `Vector.Merge` = the model's `Vec.merge`: receiver becomes the overlay, the argument is reset. -/
theorem Vector_Merge_refines (fuel : Nat) (v v2 : Vec α)
    (hf : v.entries.length + v2.entries.length ≤ fuel) :
    (Vector_Merge fuel (toGV v) (toGV v2)).map (fun r => (r.1.v, r.1.v2)) =
      .ok (toGV (v.merge v2).1, toGV (v.merge v2).2) := by
  have hmax : max ((v.dim : Nat) : Int) (v2.dim : Int) = ((max v.dim v2.dim : Nat) : Int) := by
    omega
  obtain ⟨r1, e1, f1⟩ := map_eq_ok
    (Vector_SetDim_grow (toGV v) (max (toGV v).Dim (toGV v2).Dim) (by simp only [toGV_Dim]; omega))
  obtain ⟨r2, e2, f2⟩ := map_eq_ok (mergeSpan_refines fuel v.entries v2.entries hf)
  have hsd : ¬ (max v.dim v2.dim < v.dim) := by omega
  simp only [Vector_Merge, Vector_Merge.body, Stm.run, Stm.seq, Stm.set, pure, Except.pure, bind,
    Except.bind, Except.map, e1, f1, toGV_Entries, e2, f2, Vector_Reset_eq]
  simp [Vec.merge, Vec.setDim, hsd, toGV, hmax]

end EtVerif.Tr
