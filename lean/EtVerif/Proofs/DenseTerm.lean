/-
  Termination analysis of the dense EigenTrust iteration (helpers for C05a):
  consecutive iterates get geometrically close, and the logarithmic iteration bound.
-/
import EtVerif.Proofs.Dense
import Mathlib.Analysis.SpecialFunctions.Log.Basic

namespace EtVerif.Dense

open Finset

variable {n : ℕ}

/-- Two distributions are at L1 distance at most 2. -/
theorem l1_sub_le_two (x y : Fin n → ℝ) (hx0 : ∀ i, 0 ≤ x i) (hx1 : ∑ i, x i = 1)
    (hy0 : ∀ i, 0 ≤ y i) (hy1 : ∑ i, y i = 1) : l1 (x - y) ≤ 2 := by
  have := l1_sub_le x y
  rw [l1_of_nonneg hx0, l1_of_nonneg hy0, hx1, hy1] at this
  linarith

/-- `‖t_{k+1} − t_k‖₁ ≤ 2 (1-a)^k`. -/
theorem delta_l1_geometric (C : Fin n → Fin n → ℝ) (p : Fin n → ℝ) (a : ℝ)
    (hC0 : ∀ i j, 0 ≤ C i j) (hC1 : ∀ i, ∑ j, C i j = 1)
    (hp0 : ∀ i, 0 ≤ p i) (hp1 : ∑ i, p i = 1) (ha0 : 0 ≤ a) (ha1 : a ≤ 1)
    (t0 : Fin n → ℝ) (ht0 : ∀ i, 0 ≤ t0 i) (ht1 : ∑ i, t0 i = 1) (k : ℕ) :
    l1 ((F C p a)^[k + 1] t0 - (F C p a)^[k] t0) ≤ 2 * (1 - a) ^ k := by
  rw [Function.iterate_succ_apply]
  have h1 := F_iterate_contract C p a hC0 (fun i => (hC1 i).le) ha0 ha1 (F C p a t0) t0 k
  have hF := F_distribution C p a hC0 hC1 hp0 hp1 ha0 ha1 t0 ht0 ht1
  have h2 := l1_sub_le_two (F C p a t0) t0 hF.1 hF.2 ht0 ht1
  have h3 : (0 : ℝ) ≤ (1 - a) ^ k := pow_nonneg (by linarith) k
  calc l1 ((F C p a)^[k] (F C p a t0) - (F C p a)^[k] t0)
      ≤ (1 - a) ^ k * l1 (F C p a t0 - t0) := h1
    _ ≤ (1 - a) ^ k * 2 := mul_le_mul_of_nonneg_left h2 h3
    _ = 2 * (1 - a) ^ k := by ring

/-- The logarithmic bound: with `N = ⌈ln(e/4)/ln(1-a)⌉`, `(1-a)^N ≤ e/4`. -/
theorem pow_ceil_log_le (a e : ℝ) (ha0 : 0 < a) (ha1 : a < 1) (he : 0 < e) :
    (1 - a) ^ (⌈Real.log (e / 4) / Real.log (1 - a)⌉₊) ≤ e / 4 := by
  set N := ⌈Real.log (e / 4) / Real.log (1 - a)⌉₊ with hN
  have hq0 : 0 < 1 - a := by linarith
  have hq1 : 1 - a < 1 := by linarith
  have hlog : Real.log (1 - a) < 0 := Real.log_neg hq0 hq1
  have he4 : 0 < e / 4 := by linarith
  have hceil : Real.log (e / 4) / Real.log (1 - a) ≤ (N : ℝ) := Nat.le_ceil _
  have hmul : (N : ℝ) * Real.log (1 - a) ≤ Real.log (e / 4) := by
    rwa [div_le_iff_of_neg hlog] at hceil
  have hpow : 0 < (1 - a) ^ N := pow_pos hq0 N
  rw [← Real.log_le_log_iff hpow he4, Real.log_pow]
  exact hmul

/-- With `a = 1` one step lands on `p`. -/
theorem F_alpha_one (C : Fin n → Fin n → ℝ) (p : Fin n → ℝ) (t : Fin n → ℝ) :
    F C p 1 t = p := by
  funext j
  simp [F]

theorem iterate_alpha_one (C : Fin n → Fin n → ℝ) (p : Fin n → ℝ) (t0 : Fin n → ℝ) (k : ℕ) :
    (F C p 1)^[k + 1] t0 = p := by
  rw [Function.iterate_succ_apply', F_alpha_one]

end EtVerif.Dense
