/-
  Lengths of the merges behind `Vector.AddVec` / `Vector.SubVec` (helper lemmas for Props/TrGo09c: the fuel of a
  call whose operand is an earlier call's result).  Kept apart from Proofs/TrDiscount and TrComputeSrc (which
  hold the same facts) so that C09's import closure stays confined to the vector functions.
-/
import EtVerif.Proofs.TrAddSub
namespace EtVerif.Tr.Len
open EtVerif Scalar
set_option linter.unusedSectionVars false
variable {α : Type} [Scalar α]

theorem addEntries_length_le (a b : List (Entry α)) : (addEntries a b).length ≤ a.length + b.length := by
  fun_induction addEntries a b <;> simp_all <;> omega

theorem subEntries_length_le (a b : List (Entry α)) : (subEntries a b).length ≤ a.length + b.length := by
  fun_induction subEntries a b <;> simp_all [negEntries] <;> omega

end EtVerif.Tr.Len
