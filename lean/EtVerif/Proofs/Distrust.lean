/-
  Helper lemmas for property C08 (ExtractDistrust, DiscountTrustVector).
-/
import EtVerif.Proofs.Vec
import EtVerif.Model.Basic
import Mathlib.Algebra.BigOperators.Group.Finset.Basic
import Mathlib.Algebra.BigOperators.Group.List.Basic
import Mathlib.Algebra.Order.Ring.Defs
import Mathlib.Tactic.Ring
import Mathlib.Tactic.Linarith

namespace EtVerif.Distrust
open EtVerif Scalar

variable {K : Type} [Field K] [LinearOrder K]

/-- dense value of a row table at `(i, j)` (missing rows are empty) -/
def denRows (rows : List (Row K)) (i j : Nat) : K := denE (rows.getD i []) j

/-! ### generic list facts -/

omit [Field K] [LinearOrder K] in
theorem sorted_iff_map {es : List (Entry K)} :
    Sorted es ↔ (es.map (·.idx)).Pairwise (· < ·) := by
  unfold Sorted
  rw [List.pairwise_map]

omit [Field K] [LinearOrder K] in
theorem sorted_of_idx_sublist {es es' : List (Entry K)}
    (h : (es'.map (·.idx)).Sublist (es.map (·.idx))) (hs : Sorted es) : Sorted es' := by
  rw [sorted_iff_map] at hs ⊢
  exact hs.sublist h

omit [Field K] [LinearOrder K] in
theorem sorted_sublist {es es' : List (Entry K)} (h : es'.Sublist es) (hs : Sorted es) :
    Sorted es' := List.Pairwise.sublist h hs

omit [Field K] [LinearOrder K] in
theorem wf_sublist {n : Nat} {es es' : List (Entry K)} (h : es'.Sublist es) (hs : WF n es) :
    WF n es' := ⟨sorted_sublist h hs.1, fun e he => hs.2 e (h.subset he)⟩

/-- in a sorted list the index determines the entry -/
theorem sorted_eq_of_idx_eq {es : List (Entry K)} (hs : Sorted es) {a b : Entry K}
    (ha : a ∈ es) (hb : b ∈ es) (h : a.idx = b.idx) : a = b := by
  induction es with
  | nil => cases ha
  | cons e es ih =>
    have hlt := hs.head_lt
    rcases List.mem_cons.mp ha with rfl | ha' <;> rcases List.mem_cons.mp hb with rfl | hb'
    · rfl
    · have := hlt b hb'; omega
    · have := hlt a ha'; omega
    · exact ih hs.tail ha' hb'

/-- in a sorted list the dense value at the index of a stored entry is its value -/
theorem denE_of_mem {es : List (Entry K)} (hs : Sorted es) {a : Entry K} (ha : a ∈ es) :
    denE es a.idx = a.val := by
  induction es with
  | nil => cases ha
  | cons e es ih =>
    rcases List.mem_cons.mp ha with rfl | ha'
    · simp [denE_tail_of_le_head hs (le_refl _)]
    · have := hs.head_lt a ha'
      have hne : e.idx ≠ a.idx := by omega
      simp [hne, ih hs.tail ha']

theorem denE_eq_zero_of_ge {n : Nat} {es : List (Entry K)} (h : ∀ e ∈ es, e.idx < n) {i : Nat}
    (hi : n ≤ i) : denE es i = 0 :=
  denE_eq_zero_of_forall_ne fun e he => by have := h e he; omega

/-! ### splitRow / ExtractDistrust -/

@[simp] theorem splitRow_nil : splitRow ([] : Row K) = ([], []) := rfl

theorem splitRow_fst (r : Row K) : (splitRow r).1 = r.filter (fun e => decide (0 ≤ e.val)) := rfl

theorem splitRow_snd (r : Row K) :
    (splitRow r).2 = (r.filter (fun e => !decide (0 ≤ e.val))).map fun e => ⟨e.idx, -e.val⟩ := rfl

theorem den_splitRow (r : Row K) (j : Nat) :
    denE r j = denE (splitRow r).1 j - denE (splitRow r).2 j := by
  rw [splitRow_fst, splitRow_snd]
  induction r with
  | nil => simp
  | cons e r ih =>
    by_cases h : 0 ≤ e.val
    · simp only [List.filter_cons, h, decide_true, Bool.not_true, Bool.false_eq_true, if_false,
        if_true, denE_cons, ih]
      split <;> ring
    · simp only [List.filter_cons, h, decide_false, Bool.not_false, Bool.false_eq_true, if_false,
        if_true, denE_cons, ih, List.map_cons]
      split <;> ring

theorem splitRow_fst_sublist (r : Row K) : ((splitRow r).1).Sublist r := by
  rw [splitRow_fst]; exact List.filter_sublist

theorem splitRow_snd_neg_sublist (r : Row K) :
    (((splitRow r).2).map fun e => (⟨e.idx, -e.val⟩ : Entry K)).Sublist r := by
  rw [splitRow_snd, List.map_map]
  have : ((fun e : Entry K => (⟨e.idx, -e.val⟩ : Entry K)) ∘ fun e => ⟨e.idx, -e.val⟩) = id := by
    funext e; simp
  rw [this, List.map_id]; exact List.filter_sublist

theorem splitRow_snd_idx_sublist (r : Row K) :
    (((splitRow r).2).map (·.idx)).Sublist (r.map (·.idx)) := by
  rw [splitRow_snd, List.map_map]
  exact (List.filter_sublist).map _

theorem splitRow_fst_nonneg (r : Row K) : ∀ e ∈ (splitRow r).1, 0 ≤ e.val := by
  intro e he
  rw [splitRow_fst, List.mem_filter] at he
  simpa using he.2

theorem splitRow_snd_pos [IsStrictOrderedRing K] (r : Row K) : ∀ e ∈ (splitRow r).2, 0 < e.val := by
  intro e he
  rw [splitRow_snd, List.mem_map] at he
  obtain ⟨a, ha, rfl⟩ := he
  rw [List.mem_filter] at ha
  have : ¬ 0 ≤ a.val := by simpa using ha.2
  show 0 < -a.val
  linarith [not_le.mp this]

theorem splitRow_disjoint {r : Row K} (hs : Sorted r) :
    ∀ a ∈ (splitRow r).1, ∀ b ∈ (splitRow r).2, a.idx ≠ b.idx := by
  intro a ha b hb heq
  rw [splitRow_fst, List.mem_filter] at ha
  rw [splitRow_snd, List.mem_map] at hb
  obtain ⟨c, hc, rfl⟩ := hb
  rw [List.mem_filter] at hc
  have := sorted_eq_of_idx_eq hs ha.1 hc.1 heq
  subst this
  have h1 := ha.2
  have h2 := hc.2
  simp only [h1, Bool.not_true] at h2
  exact Bool.false_ne_true h2

theorem getD_map_splitRow_fst (rows : List (Row K)) (i : Nat) :
    ((rows.map splitRow).map (·.1)).getD i [] = (splitRow (rows.getD i [])).1 := by
  simp only [List.getD_eq_getElem?_getD, List.getElem?_map]
  cases rows[i]? <;> simp

theorem getD_map_splitRow_snd (rows : List (Row K)) (i : Nat) :
    ((rows.map splitRow).map (·.2)).getD i [] = (splitRow (rows.getD i [])).2 := by
  simp only [List.getD_eq_getElem?_getD, List.getElem?_map]
  cases rows[i]? <;> simp

/-- shape of a successful `extractDistrust` -/
theorem extractDistrust_ok {L P D : CSM K} (h : extractDistrust L = .ok (P, D)) :
    L.major = L.minor ∧
    P = { L with rows := (L.rows.map splitRow).map (·.1) } ∧
    D = ⟨L.major, L.major, (L.rows.map splitRow).map (·.2), []⟩ := by
  unfold extractDistrust CSM.dim at h
  by_cases hd : L.major = L.minor
  · rw [if_neg (by simpa using hd)] at h
    injection h with h
    injection h with h1 h2
    exact ⟨hd, h1.symm, h2.symm⟩
  · simp [hd] at h

/-! ### scaleEntries / subEntries (own copies) -/

theorem den_scaleEntries' (a : K) (es : List (Entry K)) (j : Nat) :
    denE (scaleEntries a es) j = denE es j * a := by
  unfold scaleEntries
  by_cases h1 : a = 1
  · simp [h1]
  · simp only [s_eq, s_one, h1, decide_false, Bool.false_eq_true, if_false, s_mul, s_isZero]
    induction es with
    | nil => simp
    | cons e es ih =>
      by_cases hz : e.val * a = 0
      · simp only [List.filterMap_cons, hz, decide_true, if_true, ih, denE_cons]
        split
        · rw [add_mul, hz, zero_add]
        · rfl
      · simp only [List.filterMap_cons, hz, decide_false, Bool.false_eq_true, if_false, ih,
          denE_cons]
        split <;> ring

theorem den_vecScale' (a : K) (n : Nat) (row : List (Entry K)) (j : Nat) :
    denE (Vec.scale a ⟨n, row⟩).entries j = a * denE row j := by
  unfold Vec.scale
  by_cases h : a = 0
  · simp [h]
  · simp only [s_isZero, h, decide_false, Bool.false_eq_true, if_false, den_scaleEntries']
    ring

theorem scaleEntries_idx_sublist' (a : K) (es : List (Entry K)) :
    ((scaleEntries a es).map (·.idx)).Sublist (es.map (·.idx)) := by
  unfold scaleEntries
  split
  · exact List.Sublist.refl _
  · induction es with
    | nil => simp
    | cons e es ih =>
      simp only [List.filterMap_cons, List.map_cons]
      split
      · exact ih.cons _
      · rename_i b hb
        split at hb
        · cases hb
        · cases hb; simp only [List.map_cons]; exact ih.cons_cons _

theorem vecScale_idx_sublist' (a : K) (n : Nat) (row : List (Entry K)) :
    (((Vec.scale a ⟨n, row⟩).entries).map (·.idx)).Sublist (row.map (·.idx)) := by
  unfold Vec.scale
  split
  · simp
  · exact scaleEntries_idx_sublist' a row

omit [Field K] [LinearOrder K] in
theorem wf_of_idx_sublist {n : Nat} {es es' : List (Entry K)}
    (h : (es'.map (·.idx)).Sublist (es.map (·.idx))) (hs : WF n es) : WF n es' := by
  refine ⟨sorted_of_idx_sublist h hs.1, fun e he => ?_⟩
  have : e.idx ∈ es.map (·.idx) := h.subset (List.mem_map_of_mem he)
  obtain ⟨e0, he0, h0⟩ := List.mem_map.mp this
  rw [← h0]; exact hs.2 e0 he0

theorem mem_subEntries_idx' (e1 e2 : List (Entry K)) :
    ∀ x ∈ subEntries e1 e2, (∃ y ∈ e1, y.idx = x.idx) ∨ (∃ y ∈ e2, y.idx = x.idx) := by
  fun_induction subEntries e1 e2 with
  | case1 e2 =>
    intro x hx
    right
    simp only [negEntries, List.mem_map] at hx
    obtain ⟨y, hy, rfl⟩ := hx
    exact ⟨y, hy, rfl⟩
  | case2 e1 _ => intro x hx; left; exact ⟨x, hx, rfl⟩
  | case3 a e1 b e2 h ih =>
    intro x hx
    rcases List.mem_cons.mp hx with rfl | hx
    · left; exact ⟨x, by simp, rfl⟩
    · rcases ih x hx with ⟨y, hy, h⟩ | ⟨y, hy, h⟩
      · left; exact ⟨y, by simp [hy], h⟩
      · right; exact ⟨y, hy, h⟩
  | case4 a e1 b e2 h1 h2 ih =>
    intro x hx
    rcases List.mem_cons.mp hx with rfl | hx
    · right; exact ⟨b, by simp, rfl⟩
    · rcases ih x hx with ⟨y, hy, h⟩ | ⟨y, hy, h⟩
      · left; exact ⟨y, hy, h⟩
      · right; exact ⟨y, by simp [hy], h⟩
  | case5 a e1 b e2 h1 h2 ih =>
    intro x hx
    rcases List.mem_cons.mp hx with rfl | hx
    · left; exact ⟨a, by simp, rfl⟩
    · rcases ih x hx with ⟨y, hy, h⟩ | ⟨y, hy, h⟩
      · left; exact ⟨y, by simp [hy], h⟩
      · right; exact ⟨y, by simp [hy], h⟩

theorem sorted_subEntries' (e1 e2 : List (Entry K)) (h1 : Sorted e1) (h2 : Sorted e2) :
    Sorted (subEntries e1 e2) := by
  fun_induction subEntries e1 e2 with
  | case1 e2 =>
    rw [sorted_iff_map] at h2 ⊢
    simpa [negEntries, List.map_map, Function.comp_def] using h2
  | case2 e1 _ => exact h1
  | case3 a e1 b e2 h ih =>
    refine List.pairwise_cons.mpr ⟨fun x hx => ?_, ih h1.tail h2⟩
    rcases mem_subEntries_idx' _ _ x hx with ⟨y, hy, hxy⟩ | ⟨y, hy, hxy⟩
    · rw [← hxy]; exact h1.head_lt y hy
    · rw [← hxy]
      rcases List.mem_cons.mp hy with rfl | hy
      · exact h
      · have := h2.head_lt y hy; omega
  | case4 a e1 b e2 h3 h4 ih =>
    refine List.pairwise_cons.mpr ⟨fun x hx => ?_, ih h1 h2.tail⟩
    show b.idx < x.idx
    rcases mem_subEntries_idx' _ _ x hx with ⟨y, hy, hxy⟩ | ⟨y, hy, hxy⟩
    · rw [← hxy]
      rcases List.mem_cons.mp hy with rfl | hy
      · exact h4
      · have := h1.head_lt y hy; omega
    · rw [← hxy]; exact h2.head_lt y hy
  | case5 a e1 b e2 h3 h4 ih =>
    refine List.pairwise_cons.mpr ⟨fun x hx => ?_, ih h1.tail h2.tail⟩
    show a.idx < x.idx
    rcases mem_subEntries_idx' _ _ x hx with ⟨y, hy, hxy⟩ | ⟨y, hy, hxy⟩
    · rw [← hxy]; exact h1.head_lt y hy
    · rw [← hxy]; have := h2.head_lt y hy; omega

theorem wf_subEntries' {n : Nat} (e1 e2 : List (Entry K)) (h1 : WF n e1) (h2 : WF n e2) :
    WF n (subEntries e1 e2) := by
  refine ⟨sorted_subEntries' e1 e2 h1.1 h2.1, fun x hx => ?_⟩
  rcases mem_subEntries_idx' _ _ x hx with ⟨y, hy, hxy⟩ | ⟨y, hy, hxy⟩
  · rw [← hxy]; exact h1.2 y hy
  · rw [← hxy]; exact h2.2 y hy

/-! ### DiscountTrustVector -/

/-- the loop invariant: the result denotes `t` minus the weighted rows, the weights being the
    dense values of the *undiscounted* entry list `t1`. -/
theorem den_discountLoop (t1 : List (Entry K)) (rows : List (Row K × Nat)) (t : List (Entry K))
    (h1 : Sorted t1) (hr : rows.Pairwise (fun a b => a.2 < b.2)) (j : Nat) :
    denE (discountLoop t1 rows t) j
      = denE t j - (rows.map fun p => denE t1 p.2 * denE p.1 j).sum := by
  fun_induction discountLoop t1 rows t with
  | case1 rows t => simp
  | case2 t1 t _ => simp
  | case3 s t1 row d rows t hlt ih =>
    rw [ih h1.tail hr]
    congr 1
    apply congrArg
    apply List.map_congr_left
    intro p hp
    have hge : d ≤ p.2 := by
      rcases List.mem_cons.mp hp with rfl | hp
      · exact le_refl _
      · exact le_of_lt ((List.pairwise_cons.mp hr).1 p hp)
    have : s.idx ≠ p.2 := by omega
    simp [this]
  | case4 s t1 row rows t hlt ih =>
    rw [ih h1.tail (List.pairwise_cons.mp hr).2, den_subEntries, den_vecScale']
    have htail : denE t1 s.idx = 0 := denE_tail_of_le_head h1 (le_refl _)
    have hrest : (rows.map fun p => denE (s :: t1) p.2 * denE p.1 j)
        = rows.map fun p => denE t1 p.2 * denE p.1 j := by
      apply List.map_congr_left
      intro p hp
      have : s.idx < p.2 := (List.pairwise_cons.mp hr).1 p hp
      have : s.idx ≠ p.2 := by omega
      simp [this]
    have hhead : denE (s :: t1) s.idx = s.val := by simp [htail]
    simp only [List.map_cons, List.sum_cons]
    rw [hrest, hhead]
    ring
  | case5 s t1 row d rows t hlt hne ih =>
    rw [ih h1 (List.pairwise_cons.mp hr).2]
    have hz : denE (s :: t1) d = 0 := denE_of_lt_head h1 (by omega)
    simp only [List.map_cons, List.sum_cons, hz, zero_mul, zero_add]

theorem wf_discountLoop {n : Nat} (t1 : List (Entry K)) (rows : List (Row K × Nat))
    (t : List (Entry K)) (ht : WF n t) (hr : ∀ p ∈ rows, WF n p.1) :
    WF n (discountLoop t1 rows t) := by
  fun_induction discountLoop t1 rows t with
  | case1 rows t => exact ht
  | case2 t1 t _ => exact ht
  | case3 s t1 row d rows t hlt ih => exact ih ht hr
  | case4 s t1 row rows t hlt ih =>
    apply ih
    · apply wf_subEntries' _ _ ht
      exact wf_of_idx_sublist (vecScale_idx_sublist' _ _ _) (hr (row, s.idx) (by simp))
    · intro p hp; exact hr p (by simp [hp])
  | case5 s t1 row d rows t hlt hne ih =>
    exact ih ht (fun p hp => hr p (by simp [hp]))

theorem zipIdx_pairwise {α : Type} (l : List α) (k : Nat) :
    (l.zipIdx k).Pairwise (fun a b => a.2 < b.2) := by
  induction l generalizing k with
  | nil => simp
  | cons a l ih =>
    rw [List.zipIdx_cons, List.pairwise_cons]
    refine ⟨fun p hp => ?_, ih (k + 1)⟩
    have := List.mem_zipIdx hp
    simp only at this ⊢
    omega

omit [LinearOrder K] in
theorem sum_zipIdx (rows : List (Row K)) (k : Nat) (f : Row K → Nat → K) :
    ((rows.zipIdx k).map fun p => f p.1 p.2).sum
      = ∑ i ∈ Finset.range rows.length, f (rows.getD i []) (k + i) := by
  induction rows generalizing k with
  | nil => simp
  | cons r rows ih =>
    rw [List.zipIdx_cons, List.map_cons, List.sum_cons, ih (k + 1), List.length_cons,
      Finset.sum_range_succ']
    simp only [List.getD_cons_succ, List.getD_cons_zero, add_zero]
    rw [add_comm]
    congr 1
    apply Finset.sum_congr rfl
    intro i _
    congr 1
    omega

omit [LinearOrder K] in
theorem sum_range_extend (f : Nat → K) {n m : Nat} (hnm : n ≤ m) (hz : ∀ i, n ≤ i → f i = 0) :
    ∑ i ∈ Finset.range m, f i = ∑ i ∈ Finset.range n, f i := by
  induction m, hnm using Nat.le_induction with
  | base => rfl
  | succ m hm ih => rw [Finset.sum_range_succ, ih, hz m hm, add_zero]

/-- the sum over all rows of the table, re-indexed over any `n` that bounds the support of `t` -/
theorem den_discount_rows (t : List (Entry K)) (rows : List (Row K)) (n : Nat) (ht : WF n t)
    (j : Nat) :
    denE (discountLoop t rows.zipIdx t) j
      = denE t j - ∑ i ∈ Finset.range n, denE t i * denRows rows i j := by
  rw [den_discountLoop t rows.zipIdx t ht.1 (zipIdx_pairwise rows 0) j,
    sum_zipIdx rows 0 (fun r i => denE t i * denE r j)]
  congr 1
  simp only [zero_add]
  have e1 := sum_range_extend (fun i => denE t i * denE (rows.getD i []) j)
    (le_max_left rows.length n) (fun i hi => by
      have : rows.getD i [] = [] := by
        rw [List.getD_eq_getElem?_getD, List.getElem?_eq_none hi]; rfl
      show denE t i * denE (rows.getD i []) j = 0
      rw [this]; simp)
  have e2 := sum_range_extend (fun i => denE t i * denE (rows.getD i []) j)
    (le_max_right rows.length n) (fun i hi => by
      simp [denE_eq_zero_of_ge ht.2 hi])
  unfold denRows
  rw [← e1, e2]

/-! ### exact (entry-list) insensitivity to rows of zero-score peers -/

theorem discountLoop_nil_rows (t1 t : List (Entry K)) : discountLoop t1 [] t = t := by
  cases t1 <;> simp [discountLoop]

/-- replacing the rows of peers whose dense score is zero does not change the computed list -/
theorem discountLoop_map_rows (f : Row K × Nat → Row K) (t1 : List (Entry K))
    (rows : List (Row K × Nat)) (t : List (Entry K)) (h1 : Sorted t1)
    (hr : rows.Pairwise (fun a b => a.2 < b.2))
    (hf : ∀ p ∈ rows, denE t1 p.2 ≠ 0 → f p = p.1) :
    discountLoop t1 (rows.map fun p => (f p, p.2)) t = discountLoop t1 rows t := by
  fun_induction discountLoop t1 rows t with
  | case1 rows t => simp [discountLoop]
  | case2 t1 t _ => simp [discountLoop_nil_rows]
  | case3 s t1 row d rows t hlt ih =>
    rw [List.map_cons, discountLoop, if_pos hlt]
    refine ih h1.tail hr ?_
    intro p hp hne
    apply hf p hp
    have hge : d ≤ p.2 := by
      rcases List.mem_cons.mp hp with rfl | hp
      · exact le_refl _
      · exact le_of_lt ((List.pairwise_cons.mp hr).1 p hp)
    have : s.idx ≠ p.2 := by omega
    simpa [this] using hne
  | case4 s t1 row rows t hlt ih =>
    rw [List.map_cons, discountLoop, if_neg hlt, if_pos rfl]
    have hrow : (Vec.scale s.val ⟨0, f (row, s.idx)⟩).entries = (Vec.scale s.val ⟨0, row⟩).entries := by
      by_cases hz : s.val = 0
      · simp [Vec.scale, hz]
      · have : f (row, s.idx) = row := by
          apply hf (row, s.idx) (by simp)
          simp [denE_tail_of_le_head h1 (le_refl _), hz]
        rw [this]
    rw [hrow]
    apply ih h1.tail (List.pairwise_cons.mp hr).2
    intro p hp hne
    apply hf p (by simp [hp])
    have : s.idx < p.2 := (List.pairwise_cons.mp hr).1 p hp
    have : s.idx ≠ p.2 := by omega
    simpa [this] using hne
  | case5 s t1 row d rows t hlt hne ih =>
    rw [List.map_cons, discountLoop, if_neg hlt, if_neg hne]
    exact ih h1 (List.pairwise_cons.mp hr).2 (fun p hp => hf p (by simp [hp]))

omit [Field K] [LinearOrder K] in
theorem zipIdx_eq_map_of_length_eq (l l' : List (Row K)) (h : l'.length = l.length) :
    l'.zipIdx = l.zipIdx.map fun p => (l'.getD p.2 [], p.2) := by
  apply List.ext_getElem
  · simp [h]
  · intro j h1 h2
    simp only [List.length_zipIdx] at h1
    simp [List.getD_eq_getElem?_getD, List.getElem?_eq_getElem h1]

end EtVerif.Distrust
