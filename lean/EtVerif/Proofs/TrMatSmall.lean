/-
  Refinement of the translated CSMatrix.Dim / NNZ to the model CSM.dim / CSM.nnz.
-/
import EtVerif.Proofs.TrBridge
namespace EtVerif.Tr
open EtVerif EtVerif.GoSem EtVerif.Gen Scalar
variable {α : Type} [Scalar α]
set_option linter.unusedSectionVars false
theorem CSMatrix_Dim_refines (m : CSM α) :
    (CSMatrix_Dim (toGM m)).map (fun r => r.2) =
      (match m.dim with
       | .ok n => .ok ((n : Int), none)
       | .error _ => .ok ((0 : Int), some ⟨"ErrDimensionMismatch"⟩)) := by
  by_cases h : m.major = m.minor
  · simp [CSMatrix_Dim, CSMatrix_Dim.body, Stm.run, Stm.seq, Stm.ite, Stm.ret, Stm.skip, pure,
      Except.pure, Except.map, CSM.dim, h]
  · have h' : ¬ (m.major : Int) = (m.minor : Int) := by omega
    simp [CSMatrix_Dim, CSMatrix_Dim.body, Stm.run, Stm.seq, Stm.ite, Stm.ret, pure,
      Except.pure, Except.map, CSM.dim, h, h']

theorem CSMatrix_NNZ_loop (rows : List (List (Entry α))) :
    ∀ (i : Int) (s : CSMatrix_NNZ.St α),
      ∃ s', Stm.range 1 CSMatrix_NNZ.loop1_bind CSMatrix_NNZ.loop1_body i (rows.map toGs) s
          = .ok (s', .next) ∧
        s'.nnz = s.nnz + (((rows.map List.length).sum : Nat) : Int) := by
  induction rows with
  | nil => intro i s; exact ⟨s, rfl, by simp⟩
  | cons r rows ih =>
    intro i s
    obtain ⟨s', h1, h2⟩ := ih (i + 1)
      { s with row := toGs r, nnz := s.nnz + (r.length : Int) }
    refine ⟨s', ?_, ?_⟩
    · rw [List.map_cons, range_cons_next (s1 := { s with row := toGs r, nnz := s.nnz + (r.length : Int) })]
      · exact h1
      · simp [CSMatrix_NNZ.loop1_body, CSMatrix_NNZ.loop1_bind, Stm.set, pure, Except.pure]
    · rw [h2]
      simp only [List.map_cons, List.sum_cons]
      omega

theorem CSMatrix_NNZ_refines (m : CSM α) :
    (CSMatrix_NNZ (toGM m)).map (fun r => r.2) = .ok ((m.nnz : Nat) : Int) := by
  obtain ⟨s', h1, h2⟩ := CSMatrix_NNZ_loop m.rows 0
    { m := toGM m, nnz := 0, row := ([] : List (GEntry α)) }
  simp [CSMatrix_NNZ, CSMatrix_NNZ.body, Stm.run, Stm.seq, Stm.rangeOver, Stm.ret,
    CSMatrix_NNZ.loop1_xs, pure, Except.pure, Except.map, h1, h2, CSM.nnz]

omit [Scalar α] in
theorem CSMatrix_Dim_sq (g : GCSMatrix α) (h : g.MajorDim = g.MinorDim) :
    ∃ st, Gen.CSMatrix_Dim g = .ok (st, (g.MajorDim, none)) := by
  simp [Gen.CSMatrix_Dim, CSMatrix_Dim.body, Stm.run, Stm.seq, Stm.ite, Stm.ret, Stm.skip, pure, Except.pure, h]


omit [Scalar α] in
theorem CSMatrix_Dim_nsq (g : GCSMatrix α) (h : g.MajorDim ≠ g.MinorDim) :
    ∃ st, Gen.CSMatrix_Dim g = .ok (st, (0, some ⟨"ErrDimensionMismatch"⟩)) := by
  simp [Gen.CSMatrix_Dim, CSMatrix_Dim.body, Stm.run, Stm.seq, Stm.ite, Stm.ret, pure, Except.pure, h]


end EtVerif.Tr
