/-
  Bridge definitions for the refinement of the translated `basic.Compute` to the model's `compute`.
-/
import EtVerif.Proofs.TrBridge

namespace EtVerif.Tr
open EtVerif EtVerif.GoSem EtVerif.Gen Scalar

variable {α : Type} [Scalar α]

/-- model options ↦ the Go options record.  `tRes` is the vector given by `WithResultIn` (the model only
    keeps its dimension, `resultDim`), `gs` the statistics object given by `WithFlatTailStats` (its content
    is irrelevant: `NewFlatTailChecker` resets it). -/
def toGOpts (o : ComputeOpts α) (tRes : Option (Vec α)) (gs : Option (GFlatTailStats α)) :
    GComputeOpts α :=
  { t0 := o.t0.map toGV, t := tRes.map toGV, flatTailLength := (o.flatTail : Int),
    numLeaders := (o.numLeaders : Int), flatTailStats := gs, maxIterations := o.maxIterations,
    minIterations := o.minIterations, checkFreq := o.checkFreq }

/-- the `k`-th power iterate of the model (`stepEntries` applied `k` times). -/
def iterN (ct : List (Row α)) (ap : List (Entry α)) (oneMinusA : α) : Nat → List (Entry α) → List (Entry α)
  | 0, t => t
  | k + 1, t => iterN ct ap oneMinusA k (stepEntries ct ap oneMinusA t)

end EtVerif.Tr
