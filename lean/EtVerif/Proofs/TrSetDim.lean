/-
  Refinement of the translated `Vector.SetDim` and `CSMatrix.SetMinorDim` (Gen/Translated.lean)
  to the hand-written model `Vec.setDim` / `CSM.setMinorDim` (Model/Sparse.lean): the standard
  library's binary search `sort.Search` over index-sorted entries finds exactly the length of the
  model's `takeWhile (·.idx < dim)`.
-/
import EtVerif.Proofs.TrBridge
namespace EtVerif.Tr
open EtVerif EtVerif.GoSem EtVerif.Gen Scalar
variable {α : Type} [Scalar α]

/-! ### `sort.Search` -/

/-- invariant of the binary search: `pred` is false below `k` and true from `k` on (below `n`);
    the search interval `[i, j]` contains `k` and the fuel covers its width. -/
theorem goSearchAux_spec (pred : Int → R Bool) (n k : Nat)
    (hlo : ∀ i : Nat, i < k → pred (i : Int) = .ok false)
    (hhi : ∀ i : Nat, k ≤ i → i < n → pred (i : Int) = .ok true) :
    ∀ (fuel i j : Nat), i ≤ k → k ≤ j → j ≤ n → j - i ≤ fuel →
      goSearchAux pred fuel (i : Int) (j : Int) = .ok (k : Int) := by
  intro fuel
  induction fuel with
  | zero =>
    intro i j hi hj hn hf
    have : i = k := by omega
    subst this
    rfl
  | succ f ih =>
    intro i j hi hj hn hf
    by_cases hij : i < j
    · have hij' : (i : Int) < (j : Int) := by omega
      obtain ⟨m, hm⟩ : ∃ m : Nat, m = (i + j) / 2 := ⟨_, rfl⟩
      have hm1 : i ≤ m := by omega
      have hm2 : m < j := by omega
      have hh : ((i : Int) + (j : Int)) / 2 = (m : Int) := by omega
      by_cases hk : m < k
      · have h1 := ih (m + 1) j (by omega) hj hn (by omega)
        have h2 := hlo m hk
        simp only [goSearchAux, hij', if_true, hh, h2, bind, Except.bind]
        simpa using h1
      · have h1 := ih i m hi (by omega) (by omega) (by omega)
        have h2 := hhi m (by omega) (by omega)
        simp only [goSearchAux, hij', if_true, hh, h2, bind, Except.bind]
        simpa using h1
    · have : i = k := by omega
      subst this
      have hij' : ¬ ((i : Int) < (j : Int)) := by omega
      simp only [goSearchAux, hij', if_false]
      rfl

/-- `sort.Search(n, pred)` for a monotone, non-panicking `pred` returns the least index where
    `pred` holds (or `n`). -/
theorem goSearch_spec (pred : Int → R Bool) (n k : Nat) (hk : k ≤ n)
    (hlo : ∀ i : Nat, i < k → pred (i : Int) = .ok false)
    (hhi : ∀ i : Nat, k ≤ i → i < n → pred (i : Int) = .ok true) :
    goSearch (n : Int) pred = .ok (k : Int) := by
  have := goSearchAux_spec pred n k hlo hhi (n + 1) 0 n (by omega) hk (by omega) (by omega)
  simpa [goSearch] using this

/-! ### sorted entries and `takeWhile` -/

omit [Scalar α] in
theorem sortedStrict_tail (a : Entry α) (t : List (Entry α)) (h : sortedStrict (a :: t) = true) :
    sortedStrict t = true := by
  cases t with
  | nil => rfl
  | cons b t => simp [sortedStrict] at h; exact h.2

omit [Scalar α] in
theorem sortedStrict_head_lt (t : List (Entry α)) :
    ∀ (a : Entry α), sortedStrict (a :: t) = true → ∀ x ∈ t, a.idx < x.idx := by
  induction t with
  | nil => intro a _ x hx; simp at hx
  | cons b t ih =>
    intro a h x hx
    simp [sortedStrict] at h
    rcases List.mem_cons.mp hx with rfl | hx
    · exact h.1
    · have := ih b h.2 x hx
      omega

omit [Scalar α] in
/-- below the length of the `takeWhile` the indices are `< d`; from there on (sortedness) `≥ d`. -/
theorem takeWhile_split (d : Nat) (es : List (Entry α)) (hs : sortedStrict es = true) :
    ∀ (i : Nat) (h : i < es.length),
      (i < (es.takeWhile (·.idx < d)).length → es[i].idx < d) ∧
      ((es.takeWhile (·.idx < d)).length ≤ i → d ≤ es[i].idx) := by
  induction es with
  | nil => intro i h; simp at h
  | cons a t ih =>
    intro i h
    by_cases ha : a.idx < d
    · have hk : (a :: t).takeWhile (·.idx < d) = a :: t.takeWhile (·.idx < d) := by
        simp [ha]
      rw [hk, List.length_cons]
      cases i with
      | zero => simp [ha]
      | succ i =>
        have := ih (sortedStrict_tail a t hs) i (by simpa using h)
        simp only [List.getElem_cons_succ]
        constructor
        · intro h1; exact this.1 (by omega)
        · intro h1; exact this.2 (by omega)
    · have hk : (a :: t).takeWhile (·.idx < d) = [] := by
        simp [ha]
      rw [hk, List.length_nil]
      constructor
      · intro h1; omega
      · intro _
        cases i with
        | zero => simp; omega
        | succ i =>
          have hi : i < t.length := by simpa using h
          have := sortedStrict_head_lt t a hs t[i] (List.getElem_mem _)
          simp only [List.getElem_cons_succ]
          omega

theorem take_length_takeWhile {β : Type} (p : β → Bool) (l : List β) :
    l.take (l.takeWhile p).length = l.takeWhile p := by
  induction l with
  | nil => rfl
  | cons a t ih =>
    by_cases h : p a = true
    · simp [h, ih]
    · simp [h]

theorem goSlice_zero_take {β : Type} (l : List β) (k : Nat) (h : k ≤ l.length) :
    goSlice l 0 (k : Int) = .ok (l.take k) := by
  have : (k : Int) ≤ (l.length : Int) := by omega
  simp [goSlice, this]

omit [Scalar α] in
/-- the binary search of `SetDim` / `SetMinorDim` over index-sorted Go entries (any `pred` that
    behaves like `entries[i].Index >= dim` on the valid positions). -/
theorem search_entries (es : List (Entry α)) (d : Nat) (hs : sortedStrict es = true)
    (pred : Int → R Bool)
    (hp : ∀ (i : Nat) (h : i < es.length), pred (i : Int) = .ok (decide (d ≤ es[i].idx))) :
    goSearch ((es.length : Nat) : Int) pred =
      .ok (((es.takeWhile (·.idx < d)).length : Nat) : Int) := by
  apply goSearch_spec
  · exact (List.takeWhile_prefix _).length_le
  · intro i hi
    have hl : i < es.length := Nat.lt_of_lt_of_le hi (List.takeWhile_prefix _).length_le
    have := (takeWhile_split d es hs i hl).1 hi
    rw [hp i hl]
    simp only [Except.ok.injEq, decide_eq_false_iff_not]
    omega
  · intro i hi hl
    have := (takeWhile_split d es hs i hl).2 hi
    rw [hp i hl]
    simp only [Except.ok.injEq, decide_eq_true_eq]
    omega

theorem slice_entries (es : List (Entry α)) (d : Nat) :
    goSlice (toGs es) 0 (((es.takeWhile (·.idx < d)).length : Nat) : Int) =
      .ok (toGs (es.takeWhile (·.idx < d))) := by
  rw [goSlice_zero_take _ _ (by simpa using (List.takeWhile_prefix _).length_le)]
  simp only [toGs, ← List.map_take, take_length_takeWhile]

/-! ### `Vector.SetDim` -/

/-- Go `Vector.SetDim` (binary search for the first index ≥ dim, then truncate) = the model's `takeWhile`,
    for index-sorted entries. -/
theorem Vector_SetDim_refines (v : Vec α) (d : Nat) (hs : sortedStrict v.entries = true) :
    (Vector_SetDim (toGV v) (d : Int)).map (fun r => r.1.v) = .ok (toGV (v.setDim d)) := by
  by_cases hd : d < v.dim
  · have hd' : (d : Int) < (v.dim : Int) := by omega
    simp only [Vector_SetDim, Vector_SetDim.body, Stm.run, Stm.seq, Stm.set, Stm.ite, pure,
      Except.pure, toGV_Dim, toGV_Entries, hd', decide_true, bind, Except.bind, goLen_eq, toGs_length,
      Except.map]
    rw [search_entries v.entries d hs _ (by
      intro i hi
      rw [goIdx_ofNat _ _ (by simpa using hi)]
      simp [toGs])]
    simp [slice_entries, Vec.setDim, hd, toGV]
  · have hd' : ¬ ((d : Int) < (v.dim : Int)) := by omega
    simp [Vector_SetDim, Vector_SetDim.body, Stm.run, Stm.seq, Stm.set, Stm.ite, Stm.skip, pure,
      Except.pure, hd', Except.map, Vec.setDim, hd, toGV]

/-! ### `CSMatrix.SetMinorDim` -/

theorem goIdx_append_mid {β : Type} (pre : List β) (r : β) (rest : List β) :
    goIdx (pre ++ r :: rest) (pre.length : Int) = .ok r := by
  rw [goIdx_ofNat _ _ (by simp)]
  simp

theorem goSet_append_mid {β : Type} (pre : List β) (r r' : β) (rest : List β) :
    goSet (pre ++ r :: rest) (pre.length : Int) r' = .ok (pre ++ r' :: rest) := by
  rw [goSet_ofNat _ _ _ (by simp)]
  simp

/-- one iteration: row number `pre.length` (re-read from the current matrix) is truncated in place. -/
theorem SetMinorDim_body_step (d : Nat) (pre : List (List (GEntry α))) (r : List (Entry α))
    (rest : List (List (GEntry α))) (s : CSMatrix_SetMinorDim.St α) (x : List (GEntry α))
    (he : s.m.Entries = pre ++ toGs r :: rest) (hd : s.dim = (d : Int)) (hs : sortedStrict r = true) :
    CSMatrix_SetMinorDim.loop1_body (CSMatrix_SetMinorDim.loop1_bind (pre.length : Int) x s) =
      .ok ({ s with
              maj := (pre.length : Int), entries := toGs r,
              end_ := (((r.takeWhile (·.idx < d)).length : Nat) : Int),
              m := { s.m with Entries := pre ++ toGs (r.takeWhile (·.idx < d)) :: rest } }, .next) := by
  simp only [CSMatrix_SetMinorDim.loop1_body, CSMatrix_SetMinorDim.loop1_bind, Stm.seq, Stm.set, bind,
    Except.bind, pure, Except.pure, he, hd, goIdx_append_mid, goLen_eq, toGs_length]
  rw [search_entries r d hs _ (by
    intro i hi
    rw [goIdx_ofNat _ _ (by simpa using hi)]
    simp [toGs])]
  simp [slice_entries, goSet_append_mid, he]

/-- the loop: the ranged list `xs` is a snapshot of which only the length matters (the body re-reads the
    row from the current matrix); rows before `pre.length` are done, the rows `rest` are still to do. -/
theorem SetMinorDim_loop (d : Nat) (xs : List (List (GEntry α))) :
    ∀ (pre : List (List (GEntry α))) (rest : List (List (Entry α))) (s : CSMatrix_SetMinorDim.St α),
      xs.length = rest.length → s.m.Entries = pre ++ rest.map toGs → s.dim = (d : Int) →
      (∀ r ∈ rest, sortedStrict r = true) →
      ∃ s', Stm.range 1 CSMatrix_SetMinorDim.loop1_bind (CSMatrix_SetMinorDim.loop1_body (α := α))
          (pre.length : Int) xs s = .ok (s', .next) ∧
        s'.m.Entries = pre ++ rest.map (fun r => toGs (r.takeWhile (·.idx < d))) ∧
        s'.m.MajorDim = s.m.MajorDim ∧ s'.dim = s.dim := by
  induction xs with
  | nil =>
    intro pre rest s hl he hd hs
    have : rest = [] := by cases rest with
      | nil => rfl
      | cons _ _ => simp at hl
    subst this
    exact ⟨s, rfl, by simpa using he, rfl, rfl⟩
  | cons x xs ih =>
    intro pre rest s hl he hd hs
    cases rest with
    | nil => simp at hl
    | cons r rest =>
      have hl' : xs.length = rest.length := by simpa using hl
      have hb := SetMinorDim_body_step d pre r (rest.map toGs) s x (by simpa using he) hd
        (hs r (by simp))
      obtain ⟨s', h1, h2, h3, h4⟩ := ih (pre ++ [toGs (r.takeWhile (·.idx < d))]) rest
        { s with
            maj := (pre.length : Int), entries := toGs r,
            end_ := (((r.takeWhile (·.idx < d)).length : Nat) : Int),
            m := { s.m with Entries := pre ++ toGs (r.takeWhile (·.idx < d)) :: rest.map toGs } }
        hl' (by simp) hd (fun r' hr' => hs r' (by simp [hr']))
      refine ⟨s', ?_, ?_, ?_, ?_⟩
      · rw [range_cons_next hb]
        have : ((pre ++ [toGs (r.takeWhile (·.idx < d))]).length : Int) = (pre.length : Int) + 1 := by simp
        rw [this] at h1
        exact h1
      · simpa using h2
      · simpa using h3
      · simpa using h4

/-- Go `CSMatrix.SetMinorDim` = the model's `CSM.setMinorDim`, for matrices whose rows are index-sorted. -/
theorem CSMatrix_SetMinorDim_refines (m : CSM α) (d : Nat)
    (hs : ∀ r ∈ m.rows, sortedStrict r = true) :
    (CSMatrix_SetMinorDim (toGM m) (d : Int)).map (fun r => r.1.m) = .ok (toGM (m.setMinorDim d)) := by
  by_cases hd : d < m.minor
  · have hd' : (d : Int) < (m.minor : Int) := by omega
    obtain ⟨s', h1, h2, h3, h4⟩ := SetMinorDim_loop d (m.rows.map toGs) [] m.rows
      { m := toGM m, dim := (d : Int), maj := 0, entries := [], end_ := 0 } (by simp) (by simp) rfl hs
    simp only [List.length_nil, Int.natCast_zero] at h1
    simp only [CSMatrix_SetMinorDim, CSMatrix_SetMinorDim.body, Stm.run, Stm.seq, Stm.set, Stm.ite,
      Stm.rangeOver, CSMatrix_SetMinorDim.loop1_xs, pure, Except.pure, toGM_MinorDim, toGM_Entries, hd',
      decide_true, h1, Except.map]
    simp only [List.nil_append] at h2
    simp only [toGM_MajorDim] at h3
    simp only [] at h4
    simp [CSM.setMinorDim, hd, toGM, h2, h3, h4]
  · have hd' : ¬ ((d : Int) < (m.minor : Int)) := by omega
    simp [CSMatrix_SetMinorDim, CSMatrix_SetMinorDim.body, Stm.run, Stm.seq, Stm.set, Stm.ite, Stm.skip, pure,
      Except.pure, hd', Except.map, CSM.setMinorDim, hd, toGM]

end EtVerif.Tr
