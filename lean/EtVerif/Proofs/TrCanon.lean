/-
  Refinement of the translated `basic.Canonicalize` (Gen/Translated.lean, regenerated from /repo)
  to the hand-written model `canonicalize` (Model/Basic.lean).
-/
import EtVerif.Proofs.TrKbn
namespace EtVerif.Tr
open EtVerif EtVerif.GoSem EtVerif.Gen Scalar
variable {α : Type} [Scalar α]

/-- first loop: feed every value to the summer; nothing else changes. -/
theorem Canonicalize_loop1 (es : List (GEntry α)) :
    ∀ (i : Int) (s : Canonicalize.St α),
      ∃ s', Stm.range 1 Canonicalize.loop1_bind (Canonicalize.loop1_body (α := α)) i es s = .ok (s', .next) ∧
        s'.summer = toGK ((es.map (·.Value)).foldl KBN.push (ofGK s.summer)) ∧
        s'.entries = s.entries := by
  induction es with
  | nil => intro i s; exact ⟨s, rfl, by simp, rfl⟩
  | cons e es ih =>
    intro i s
    obtain ⟨st, h1, h2⟩ := KBNSummer_Add_ok s.summer e.Value
    obtain ⟨s', h3, h4, h5⟩ := ih (i + 1) { s with entry := e, summer := st.s }
    refine ⟨s', ?_, ?_, ?_⟩
    · rw [range_cons_next (s1 := { s with entry := e, summer := st.s })]
      · exact h3
      · simp [Canonicalize.loop1_body, Canonicalize.loop1_bind, Stm.set, h1, bind, Except.bind, pure, Except.pure]
    · simp [h4, h2]
    · simp [h5]

/-- the in-place division of one Go entry. -/
def gdiv (d : α) (e : GEntry α) : GEntry α := { e with Value := div e.Value d }

theorem goIdx_append_length {β : Type} (pre : List β) (r : β) (rest : List β) :
    goIdx (pre ++ r :: rest) (pre.length : Int) = .ok r := by
  rw [goIdx_ofNat _ _ (by simp)]
  simp

theorem goSet_append_length {β : Type} (pre : List β) (r r' : β) (rest : List β) :
    goSet (pre ++ r :: rest) (pre.length : Int) r' = .ok (pre ++ r' :: rest) := by
  rw [goSet_ofNat _ _ _ (by simp)]
  simp

/-- second loop: the range list is a snapshot (only its length matters); position `pre.length`
    is divided in place in each iteration. -/
theorem Canonicalize_loop2 (xs : List (GEntry α)) :
    ∀ (pre rest : List (GEntry α)) (s : Canonicalize.St α),
      xs.length = rest.length → s.entries = pre ++ rest →
      ∃ s', Stm.range 2 Canonicalize.loop2_bind (Canonicalize.loop2_body (α := α)) (pre.length : Int) xs s
          = .ok (s', .next) ∧
        s'.entries = pre ++ rest.map (gdiv s.s) := by
  induction xs with
  | nil =>
    intro pre rest s hl he
    have : rest = [] := by cases rest with
      | nil => rfl
      | cons _ _ => simp at hl
    subst this
    exact ⟨s, rfl, by simpa using he⟩
  | cons x xs ih =>
    intro pre rest s hl he
    cases rest with
    | nil => simp at hl
    | cons r rest =>
      have hl' : xs.length = rest.length := by simpa using hl
      obtain ⟨s', h1, h2⟩ := ih (pre ++ [gdiv s.s r]) rest
        { s with i := (pre.length : Int), entries := pre ++ gdiv s.s r :: rest } hl' (by simp)
      refine ⟨s', ?_, ?_⟩
      · rw [range_cons_next (s1 := { s with i := (pre.length : Int), entries := pre ++ gdiv s.s r :: rest })]
        · have : ((pre ++ [gdiv s.s r]).length : Int) = (pre.length : Int) + 1 := by simp
          rw [this] at h1
          exact h1
        · simp [Canonicalize.loop2_body, Canonicalize.loop2_bind, Stm.set, he, goIdx_append_length,
            goSet_append_length, gdiv, bind, Except.bind, pure, Except.pure]
      · simpa using h2

/-- Go `basic.Canonicalize` (translated from the current source) computes exactly the model's
    `canonicalize`: entries divided by their compensated sum, or ErrZeroSum with the entries untouched. -/
theorem Canonicalize_refines (es : List (Entry α)) :
    (Gen.Canonicalize (toGs es)).map (fun r => (r.1.entries, r.2)) =
      (match canonicalize es with
       | .ok es' => .ok (toGs es', none)
       | .error _ => .ok (toGs es, some ⟨"ErrZeroSum"⟩)) := by
  obtain ⟨s1, h1, h2, h3⟩ := Canonicalize_loop1 (toGs es) 0
    { entries := toGs es, summer := GKBNSummer.zero, entry := GEntry.zero, s := (Scalar.zero : α), i := 0 }
  obtain ⟨st, hst⟩ := KBNSummer_Sum_ok s1.summer
  have hsum : (ofGK s1.summer).result = kbnSum (es.map (·.val)) := by
    simp [h2, kbnSum, toGs, Function.comp_def, ofGK, toGK, KBN.init, GKBNSummer.zero]
  simp only [] at h3
  cases hz : Scalar.eq (kbnSum (es.map (·.val))) (Scalar.zero : α) with
  | true =>
    simp only [Gen.Canonicalize, Canonicalize.body, Stm.run, Stm.seq, Stm.set, Stm.rangeOver, Canonicalize.loop1_xs,
      pure, Except.pure, h1, Stm.ret, Stm.ite, hst, hsum, hz, bind, Except.bind, Except.map]
    simp [canonicalize, isZero, hz, h3]
  | false =>
    obtain ⟨s2, h4, h5⟩ := Canonicalize_loop2 (toGs es) [] (toGs es)
      { s1 with s := kbnSum (es.map (·.val)) } rfl (by simp [h3])
    simp only [List.length_nil, Int.natCast_zero, h3] at h4
    simp only [List.nil_append] at h5
    simp only [Gen.Canonicalize, Canonicalize.body, Stm.run, Stm.seq, Stm.set, Stm.rangeOver, Canonicalize.loop1_xs,
      Canonicalize.loop2_xs, pure, Except.pure, h1, Stm.ret, Stm.ite, Stm.skip, hst, hsum, hz, h3, h4, bind,
      Except.bind, Except.map]
    simp [canonicalize, isZero, hz, h5, toGs, gdiv, toG, Function.comp_def]

end EtVerif.Tr
