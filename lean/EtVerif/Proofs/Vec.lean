/-
  Denotation lemmas for the vector part of Model/Sparse.lean over an ordered field.
-/
import EtVerif.Proofs.FieldScalar

namespace EtVerif
open Scalar

variable {K : Type} [Field K] [LinearOrder K]

/-- strictly increasing indices -/
def Sorted (es : List (Entry K)) : Prop := es.Pairwise (fun a b => a.idx < b.idx)

/-- well-formed entry list for dimension `dim` -/
def WF (dim : Nat) (es : List (Entry K)) : Prop := Sorted es ∧ ∀ e ∈ es, e.idx < dim

@[simp] theorem denE_nil (i : Nat) : denE ([] : List (Entry K)) i = 0 := rfl

@[simp] theorem denE_cons (e : Entry K) (es : List (Entry K)) (i : Nat) :
    denE (e :: es) i = if e.idx = i then e.val + denE es i else denE es i := rfl

theorem denE_eq_zero_of_forall_ne {es : List (Entry K)} {i : Nat}
    (h : ∀ e ∈ es, e.idx ≠ i) : denE es i = 0 := by
  induction es with
  | nil => rfl
  | cons e es ih =>
    have h1 : e.idx ≠ i := h e (by simp)
    simp [h1, ih (fun e he => h e (by simp [he]))]

theorem Sorted.tail {a : Entry K} {es : List (Entry K)} (h : Sorted (a :: es)) : Sorted es :=
  (List.pairwise_cons.mp h).2

theorem Sorted.head_lt {a : Entry K} {es : List (Entry K)} (h : Sorted (a :: es)) :
    ∀ e ∈ es, a.idx < e.idx := (List.pairwise_cons.mp h).1

theorem denE_of_lt_head {a : Entry K} {es : List (Entry K)} {i : Nat}
    (h : Sorted (a :: es)) (hi : i < a.idx) : denE (a :: es) i = 0 := by
  apply denE_eq_zero_of_forall_ne
  intro e he
  rcases List.mem_cons.mp he with rfl | he
  · omega
  · have := h.head_lt e he; omega

theorem denE_tail_of_le_head {a : Entry K} {es : List (Entry K)} {i : Nat}
    (h : Sorted (a :: es)) (hi : i ≤ a.idx) : denE es i = 0 := by
  apply denE_eq_zero_of_forall_ne
  intro e he
  have := h.head_lt e he; omega

/-! ### AddVec / SubVec -/

theorem den_addEntries (e1 e2 : List (Entry K)) (i : Nat) :
    denE (addEntries e1 e2) i = denE e1 i + denE e2 i := by
  fun_induction addEntries e1 e2 with
  | case1 e2 => simp
  | case2 e1 _ => simp
  | case3 a e1 b e2 h ih => simp only [denE_cons, ih]; split <;> ring
  | case4 a e1 b e2 h1 h2 ih => simp only [denE_cons, ih]; split <;> ring
  | case5 a e1 b e2 h1 h2 ih =>
    have hab : a.idx = b.idx := by omega
    simp only [denE_cons, ih, s_add, hab]; split <;> ring

@[simp] theorem den_negEntries (es : List (Entry K)) (i : Nat) :
    denE (negEntries es) i = - denE es i := by
  induction es with
  | nil => simp [negEntries]
  | cons e es ih =>
    simp only [negEntries, List.map_cons, denE_cons, s_neg] at ih ⊢
    split <;> simp [ih] ; ring

theorem den_subEntries (e1 e2 : List (Entry K)) (i : Nat) :
    denE (subEntries e1 e2) i = denE e1 i - denE e2 i := by
  fun_induction subEntries e1 e2 with
  | case1 e2 => simp
  | case2 e1 _ => simp
  | case3 a e1 b e2 h ih => simp only [denE_cons, ih]; split <;> ring
  | case4 a e1 b e2 h1 h2 ih => simp only [denE_cons, ih, s_neg]; split <;> ring
  | case5 a e1 b e2 h1 h2 ih =>
    have hab : a.idx = b.idx := by omega
    simp only [denE_cons, ih, s_sub, hab]; split <;> ring

end EtVerif
