/-
  Denotation lemmas for the vector part of Model/Sparse.lean over an ordered field.
-/
import EtVerif.Proofs.FieldScalar

namespace EtVerif
open Scalar

variable {K : Type} [Field K] [LinearOrder K]

/-- strictly increasing indices -/
def Sorted (es : List (Entry K)) : Prop := es.Pairwise (fun a b => a.idx < b.idx)

/-- well-formed entry list for dimension `dim` -/
def WF (dim : Nat) (es : List (Entry K)) : Prop := Sorted es ∧ ∀ e ∈ es, e.idx < dim

@[simp] theorem denE_nil (i : Nat) : denE ([] : List (Entry K)) i = 0 := rfl

@[simp] theorem denE_cons (e : Entry K) (es : List (Entry K)) (i : Nat) :
    denE (e :: es) i = if e.idx = i then e.val + denE es i else denE es i := rfl

theorem denE_eq_zero_of_forall_ne {es : List (Entry K)} {i : Nat}
    (h : ∀ e ∈ es, e.idx ≠ i) : denE es i = 0 := by
  induction es with
  | nil => rfl
  | cons e es ih =>
    have h1 : e.idx ≠ i := h e (by simp)
    simp [h1, ih (fun e he => h e (by simp [he]))]

theorem Sorted.tail {a : Entry K} {es : List (Entry K)} (h : Sorted (a :: es)) : Sorted es :=
  (List.pairwise_cons.mp h).2

theorem Sorted.head_lt {a : Entry K} {es : List (Entry K)} (h : Sorted (a :: es)) :
    ∀ e ∈ es, a.idx < e.idx := (List.pairwise_cons.mp h).1

theorem denE_of_lt_head {a : Entry K} {es : List (Entry K)} {i : Nat}
    (h : Sorted (a :: es)) (hi : i < a.idx) : denE (a :: es) i = 0 := by
  apply denE_eq_zero_of_forall_ne
  intro e he
  rcases List.mem_cons.mp he with rfl | he
  · omega
  · have := h.head_lt e he; omega

theorem denE_tail_of_le_head {a : Entry K} {es : List (Entry K)} {i : Nat}
    (h : Sorted (a :: es)) (hi : i ≤ a.idx) : denE es i = 0 := by
  apply denE_eq_zero_of_forall_ne
  intro e he
  have := h.head_lt e he; omega

/-! ### AddVec / SubVec -/

theorem den_addEntries (e1 e2 : List (Entry K)) (i : Nat) :
    denE (addEntries e1 e2) i = denE e1 i + denE e2 i := by
  fun_induction addEntries e1 e2 with
  | case1 e2 => simp
  | case2 e1 _ => simp
  | case3 a e1 b e2 h ih => simp only [denE_cons, ih]; split <;> ring
  | case4 a e1 b e2 h1 h2 ih => simp only [denE_cons, ih]; split <;> ring
  | case5 a e1 b e2 h1 h2 ih =>
    have hab : a.idx = b.idx := by omega
    simp only [denE_cons, ih, s_add, hab]; split <;> ring

@[simp] theorem den_negEntries (es : List (Entry K)) (i : Nat) :
    denE (negEntries es) i = - denE es i := by
  induction es with
  | nil => simp [negEntries]
  | cons e es ih =>
    simp only [negEntries, List.map_cons, denE_cons, s_neg] at ih ⊢
    split <;> simp [ih] ; ring

theorem den_subEntries (e1 e2 : List (Entry K)) (i : Nat) :
    denE (subEntries e1 e2) i = denE e1 i - denE e2 i := by
  fun_induction subEntries e1 e2 with
  | case1 e2 => simp
  | case2 e1 _ => simp
  | case3 a e1 b e2 h ih => simp only [denE_cons, ih]; split <;> ring
  | case4 a e1 b e2 h1 h2 ih => simp only [denE_cons, ih, s_neg]; split <;> ring
  | case5 a e1 b e2 h1 h2 ih =>
    have hab : a.idx = b.idx := by omega
    simp only [denE_cons, ih, s_sub, hab]; split <;> ring

/-! ### matrices -/

/-- dense value of a row table at `(i, j)` (rows beyond the table are empty) -/
def denM (rows : List (Row K)) (i j : Nat) : K := denE (rows.getD i []) j

/-! ### more `Sorted` / `WF` / `denE` basics -/

omit [Field K] [LinearOrder K] in
theorem Sorted.nil : Sorted ([] : List (Entry K)) := List.Pairwise.nil

omit [Field K] [LinearOrder K] in
theorem WF.nil (dim : Nat) : WF dim ([] : List (Entry K)) :=
  ⟨Sorted.nil, fun _ h => by cases h⟩

omit [Field K] [LinearOrder K] in
theorem Sorted.cons {a : Entry K} {es : List (Entry K)} (h1 : ∀ e ∈ es, a.idx < e.idx)
    (h2 : Sorted es) : Sorted (a :: es) := List.pairwise_cons.mpr ⟨h1, h2⟩

/-- in a sorted list the dense value at a stored index is the stored value -/
theorem denE_of_mem {es : List (Entry K)} (h : Sorted es) {e : Entry K} (he : e ∈ es) :
    denE es e.idx = e.val := by
  induction es with
  | nil => cases he
  | cons a es ih =>
    rcases List.mem_cons.mp he with rfl | he'
    · simp [denE_tail_of_le_head h (Nat.le_refl _)]
    · have hlt := h.head_lt e he'
      have hne : a.idx ≠ e.idx := by omega
      simp [hne, ih h.tail he']

/-- a dense value that is not zero is stored -/
theorem exists_mem_of_denE_ne_zero {es : List (Entry K)} {i : Nat} (h : denE es i ≠ 0) :
    ∃ e ∈ es, e.idx = i := by
  by_contra hc
  apply h
  apply denE_eq_zero_of_forall_ne
  intro e he hi
  exact hc ⟨e, he, hi⟩

/-! ### structure of the merge loops, for any `Scalar` (in particular `Float`) -/

section generic
variable {α : Type} [Scalar α]

/-- every entry produced by the `AddVec` loop is an input entry or ONE `add` of two input
    values with equal index -/
theorem mem_addEntries {e1 e2 : List (Entry α)} {x : Entry α} (hx : x ∈ addEntries e1 e2) :
    x ∈ e1 ∨ x ∈ e2 ∨ ∃ a ∈ e1, ∃ b ∈ e2, a.idx = b.idx ∧ x = ⟨a.idx, Scalar.add a.val b.val⟩ := by
  fun_induction addEntries e1 e2 with
  | case1 e2 => exact Or.inr (Or.inl hx)
  | case2 e1 _ => exact Or.inl hx
  | case3 a e1 b e2 h ih =>
    rcases List.mem_cons.mp hx with rfl | hx
    · exact Or.inl (by simp)
    · rcases ih hx with h | h | ⟨a', ha', b', hb', h⟩
      · exact Or.inl (List.mem_cons_of_mem _ h)
      · exact Or.inr (Or.inl h)
      · exact Or.inr (Or.inr ⟨a', List.mem_cons_of_mem _ ha', b', hb', h⟩)
  | case4 a e1 b e2 h1 h2 ih =>
    rcases List.mem_cons.mp hx with rfl | hx
    · exact Or.inr (Or.inl (by simp))
    · rcases ih hx with h | h | ⟨a', ha', b', hb', h⟩
      · exact Or.inl h
      · exact Or.inr (Or.inl (List.mem_cons_of_mem _ h))
      · exact Or.inr (Or.inr ⟨a', ha', b', List.mem_cons_of_mem _ hb', h⟩)
  | case5 a e1 b e2 h1 h2 ih =>
    rcases List.mem_cons.mp hx with rfl | hx
    · exact Or.inr (Or.inr ⟨a, by simp, b, by simp, by omega, rfl⟩)
    · rcases ih hx with h | h | ⟨a', ha', b', hb', h⟩
      · exact Or.inl (List.mem_cons_of_mem _ h)
      · exact Or.inr (Or.inl (List.mem_cons_of_mem _ h))
      · exact Or.inr (Or.inr ⟨a', List.mem_cons_of_mem _ ha', b', List.mem_cons_of_mem _ hb', h⟩)

/-- every entry produced by the `SubVec` loop is an entry of the minuend, ONE `neg` of an
    entry of the subtrahend, or ONE `sub` of two input values with equal index -/
theorem mem_subEntries {e1 e2 : List (Entry α)} {x : Entry α} (hx : x ∈ subEntries e1 e2) :
    x ∈ e1 ∨ (∃ b ∈ e2, x = ⟨b.idx, Scalar.neg b.val⟩) ∨
      ∃ a ∈ e1, ∃ b ∈ e2, a.idx = b.idx ∧ x = ⟨a.idx, Scalar.sub a.val b.val⟩ := by
  fun_induction subEntries e1 e2 with
  | case1 e2 =>
    simp only [negEntries, List.mem_map] at hx
    obtain ⟨b, hb, rfl⟩ := hx
    exact Or.inr (Or.inl ⟨b, hb, rfl⟩)
  | case2 e1 _ => exact Or.inl hx
  | case3 a e1 b e2 h ih =>
    rcases List.mem_cons.mp hx with rfl | hx
    · exact Or.inl (by simp)
    · rcases ih hx with h | ⟨b', hb', h⟩ | ⟨a', ha', b', hb', h⟩
      · exact Or.inl (List.mem_cons_of_mem _ h)
      · exact Or.inr (Or.inl ⟨b', hb', h⟩)
      · exact Or.inr (Or.inr ⟨a', List.mem_cons_of_mem _ ha', b', hb', h⟩)
  | case4 a e1 b e2 h1 h2 ih =>
    rcases List.mem_cons.mp hx with rfl | hx
    · exact Or.inr (Or.inl ⟨b, by simp, rfl⟩)
    · rcases ih hx with h | ⟨b', hb', h⟩ | ⟨a', ha', b', hb', h⟩
      · exact Or.inl h
      · exact Or.inr (Or.inl ⟨b', List.mem_cons_of_mem _ hb', h⟩)
      · exact Or.inr (Or.inr ⟨a', ha', b', List.mem_cons_of_mem _ hb', h⟩)
  | case5 a e1 b e2 h1 h2 ih =>
    rcases List.mem_cons.mp hx with rfl | hx
    · exact Or.inr (Or.inr ⟨a, by simp, b, by simp, by omega, rfl⟩)
    · rcases ih hx with h | ⟨b', hb', h⟩ | ⟨a', ha', b', hb', h⟩
      · exact Or.inl (List.mem_cons_of_mem _ h)
      · exact Or.inr (Or.inl ⟨b', List.mem_cons_of_mem _ hb', h⟩)
      · exact Or.inr (Or.inr ⟨a', List.mem_cons_of_mem _ ha', b', List.mem_cons_of_mem _ hb', h⟩)

/-- indices of the `AddVec` result come from the inputs -/
theorem idx_mem_addEntries {e1 e2 : List (Entry α)} {x : Entry α} (hx : x ∈ addEntries e1 e2) :
    ∃ y, (y ∈ e1 ∨ y ∈ e2) ∧ y.idx = x.idx := by
  rcases mem_addEntries hx with h | h | ⟨a, ha, b, hb, hab, rfl⟩
  · exact ⟨x, Or.inl h, rfl⟩
  · exact ⟨x, Or.inr h, rfl⟩
  · exact ⟨a, Or.inl ha, rfl⟩

/-- indices of the `SubVec` result come from the inputs -/
theorem idx_mem_subEntries {e1 e2 : List (Entry α)} {x : Entry α} (hx : x ∈ subEntries e1 e2) :
    ∃ y, (y ∈ e1 ∨ y ∈ e2) ∧ y.idx = x.idx := by
  rcases mem_subEntries hx with h | ⟨b, hb, rfl⟩ | ⟨a, ha, b, hb, hab, rfl⟩
  · exact ⟨x, Or.inl h, rfl⟩
  · exact ⟨b, Or.inr hb, rfl⟩
  · exact ⟨a, Or.inl ha, rfl⟩

end generic

/-! ### well-formedness of AddVec / SubVec results -/

theorem sorted_negEntries {es : List (Entry K)} (h : Sorted es) : Sorted (negEntries es) := by
  unfold Sorted negEntries
  exact List.pairwise_map.mpr h

theorem sorted_addEntries {e1 e2 : List (Entry K)} (h1 : Sorted e1) (h2 : Sorted e2) :
    Sorted (addEntries e1 e2) := by
  fun_induction addEntries e1 e2 with
  | case1 e2 => exact h2
  | case2 e1 _ => exact h1
  | case3 a e1 b e2 h ih =>
    refine Sorted.cons ?_ (ih h1.tail h2)
    intro x hx
    obtain ⟨y, hy | hy, hyx⟩ := idx_mem_addEntries hx
    · have := h1.head_lt y hy; omega
    · rcases List.mem_cons.mp hy with rfl | hy
      · omega
      · have := h2.head_lt y hy; omega
  | case4 a e1 b e2 hab hba ih =>
    refine Sorted.cons ?_ (ih h1 h2.tail)
    intro x hx
    obtain ⟨y, hy | hy, hyx⟩ := idx_mem_addEntries hx
    · rcases List.mem_cons.mp hy with rfl | hy
      · omega
      · have := h1.head_lt y hy; omega
    · have := h2.head_lt y hy; omega
  | case5 a e1 b e2 hab hba ih =>
    refine Sorted.cons ?_ (ih h1.tail h2.tail)
    intro x hx
    obtain ⟨y, hy | hy, hyx⟩ := idx_mem_addEntries hx
    · have := h1.head_lt y hy; simp only; omega
    · have := h2.head_lt y hy; simp only; omega

theorem sorted_subEntries {e1 e2 : List (Entry K)} (h1 : Sorted e1) (h2 : Sorted e2) :
    Sorted (subEntries e1 e2) := by
  fun_induction subEntries e1 e2 with
  | case1 e2 => exact sorted_negEntries h2
  | case2 e1 _ => exact h1
  | case3 a e1 b e2 h ih =>
    refine Sorted.cons ?_ (ih h1.tail h2)
    intro x hx
    obtain ⟨y, hy | hy, hyx⟩ := idx_mem_subEntries hx
    · have := h1.head_lt y hy; omega
    · rcases List.mem_cons.mp hy with rfl | hy
      · omega
      · have := h2.head_lt y hy; omega
  | case4 a e1 b e2 hab hba ih =>
    refine Sorted.cons ?_ (ih h1 h2.tail)
    intro x hx
    obtain ⟨y, hy | hy, hyx⟩ := idx_mem_subEntries hx
    · rcases List.mem_cons.mp hy with rfl | hy
      · simp only; omega
      · have := h1.head_lt y hy; simp only; omega
    · have := h2.head_lt y hy; simp only; omega
  | case5 a e1 b e2 hab hba ih =>
    refine Sorted.cons ?_ (ih h1.tail h2.tail)
    intro x hx
    obtain ⟨y, hy | hy, hyx⟩ := idx_mem_subEntries hx
    · have := h1.head_lt y hy; simp only; omega
    · have := h2.head_lt y hy; simp only; omega

theorem wf_addEntries {dim : Nat} {e1 e2 : List (Entry K)} (h1 : WF dim e1) (h2 : WF dim e2) :
    WF dim (addEntries e1 e2) := by
  refine ⟨sorted_addEntries h1.1 h2.1, fun x hx => ?_⟩
  obtain ⟨y, hy | hy, hyx⟩ := idx_mem_addEntries hx
  · have := h1.2 y hy; omega
  · have := h2.2 y hy; omega

theorem wf_subEntries {dim : Nat} {e1 e2 : List (Entry K)} (h1 : WF dim e1) (h2 : WF dim e2) :
    WF dim (subEntries e1 e2) := by
  refine ⟨sorted_subEntries h1.1 h2.1, fun x hx => ?_⟩
  obtain ⟨y, hy | hy, hyx⟩ := idx_mem_subEntries hx
  · have := h1.2 y hy; omega
  · have := h2.2 y hy; omega

/-! ### ScaleVec -/

/-- the general (`a ≠ 1`) branch of `scaleInPlace` -/
theorem den_scale_filterMap (a : K) (es : List (Entry K)) (i : Nat) :
    denE (es.filterMap fun e =>
      let x := Scalar.mul e.val a
      if Scalar.isZero x then none else some (⟨e.idx, x⟩ : Entry K)) i = denE es i * a := by
  induction es with
  | nil => simp
  | cons e es ih =>
    simp only [s_mul, s_isZero, decide_eq_true_eq] at ih ⊢
    rw [List.filterMap_cons]
    by_cases hz : e.val * a = 0
    · simp only [hz, if_true, ih, denE_cons]
      split
      · rw [add_mul, hz, zero_add]
      · rfl
    · simp only [hz, if_false, ih, denE_cons]
      split
      · rw [add_mul]
      · rfl

theorem den_scaleEntries (a : K) (es : List (Entry K)) (i : Nat) :
    denE (scaleEntries a es) i = a * denE es i := by
  unfold scaleEntries
  by_cases h1 : a = 1
  · simp [h1]
  · simp only [s_eq, s_one, h1, decide_false, Bool.false_eq_true, if_false]
    rw [den_scale_filterMap, mul_comm]

/-- membership in the result of `scaleEntries` for `a ≠ 1` -/
theorem mem_scaleEntries {a : K} (h1 : a ≠ 1) {es : List (Entry K)} {x : Entry K} :
    x ∈ scaleEntries a es ↔ ∃ e ∈ es, e.val * a ≠ 0 ∧ x = ⟨e.idx, e.val * a⟩ := by
  unfold scaleEntries
  simp only [s_eq, s_one, h1, decide_false, Bool.false_eq_true, if_false, List.mem_filterMap,
    s_mul, s_isZero, decide_eq_true_eq]
  constructor
  · rintro ⟨e, he, h⟩
    by_cases hz : e.val * a = 0
    · simp [hz] at h
    · simp only [hz, if_false, Option.some.injEq] at h
      exact ⟨e, he, hz, h.symm⟩
  · rintro ⟨e, he, hz, rfl⟩
    exact ⟨e, he, by simp [hz]⟩

theorem scaleEntries_one (es : List (Entry K)) : scaleEntries (1 : K) es = es := by
  simp [scaleEntries]

theorem scaleEntries_sublist_idx (a : K) (es : List (Entry K)) :
    ((scaleEntries a es).map (·.idx)).Sublist (es.map (·.idx)) := by
  unfold scaleEntries
  split
  · exact List.Sublist.refl _
  · induction es with
    | nil => simp
    | cons e es ih =>
      rw [List.filterMap_cons]
      split
      · exact List.Sublist.cons _ ih
      · rename_i b hb
        simp only at hb
        split at hb
        · cases hb
        · cases hb
          simpa using ih

omit [Field K] [LinearOrder K] in
theorem sorted_iff_map_idx {es : List (Entry K)} :
    Sorted es ↔ (es.map (·.idx)).Pairwise (· < ·) := by
  unfold Sorted; rw [List.pairwise_map]

theorem wf_scaleEntries {dim : Nat} (a : K) {es : List (Entry K)} (h : WF dim es) :
    WF dim (scaleEntries a es) := by
  constructor
  · rw [sorted_iff_map_idx]
    exact List.Pairwise.sublist (scaleEntries_sublist_idx a es) (sorted_iff_map_idx.mp h.1)
  · intro x hx
    have : x.idx ∈ (scaleEntries a es).map (·.idx) := List.mem_map.mpr ⟨x, hx, rfl⟩
    have := (scaleEntries_sublist_idx a es).subset this
    obtain ⟨y, hy, hyx⟩ := List.mem_map.mp this
    have := h.2 y hy
    omega

end EtVerif
