/-
  Refinement of the translated `mergeSpan` (Gen/Translated.lean, index based two-pointer merge
  with the `more1`/`more2` flags recomputed by the inlined closure) to the model's `mergeSpan`.
-/
import EtVerif.Proofs.TrBridge
namespace EtVerif.Tr
open EtVerif EtVerif.GoSem EtVerif.Gen Scalar
variable {α : Type} [Scalar α]

theorem mergeSpan_nil_right (l : List (Entry α)) : EtVerif.mergeSpan l [] = l := by
  rw [EtVerif.mergeSpan]

theorem mergeSpan_nil_left (l : List (Entry α)) : EtVerif.mergeSpan [] l = l := by
  cases l <;> simp [EtVerif.mergeSpan]

theorem goIdx_toGs (l : List (Entry α)) (k : Nat) (h : k < l.length) :
    goIdx (toGs l) (k : Int) = .ok (toG l[k]) := by
  rw [goIdx_ofNat _ _ (by simpa using h)]
  simp [toGs]

/-- the loop state determined by the two cursors (flags as the closure computes them). -/
def msSt (a0 b0 : List (Entry α)) (acc : List (GEntry α)) (k1 k2 : Nat) (x1 x2 : Int) :
    Gen.mergeSpan.St α :=
  { s1 := toGs a0, s2 := toGs b0, s := acc, i1 := (k1 : Int), i2 := (k2 : Int),
    more1 := decide (k1 < a0.length), more2 := decide (k2 < b0.length), index1 := x1, index2 := x2 }

theorem mergeSpan_loop (fuel : Nat) (a0 b0 : List (Entry α)) :
    ∀ (n k1 k2 : Nat) (acc : List (GEntry α)) (x1 x2 : Int),
      k1 ≤ a0.length → k2 ≤ b0.length → (a0.length - k1) + (b0.length - k2) ≤ n →
      ∃ s', Stm.loop 2 (Gen.mergeSpan.loop2_cond fuel) (Gen.mergeSpan.loop2_body fuel)
              (Gen.mergeSpan.loop2_post fuel) n (msSt a0 b0 acc k1 k2 x1 x2) = .ok (s', .next) ∧
        s'.s = acc ++ toGs (EtVerif.mergeSpan (a0.drop k1) (b0.drop k2)) := by
  intro n
  induction n with
  | zero =>
    intro k1 k2 acc x1 x2 h1 h2 hn
    have e1 : k1 = a0.length := by omega
    have e2 : k2 = b0.length := by omega
    subst e1 e2
    refine ⟨_, loop_exit ?_, ?_⟩
    · simp [Gen.mergeSpan.loop2_cond, msSt, pure, Except.pure]
    · simp [msSt, mergeSpan_nil_right]
  | succ n ih =>
    intro k1 k2 acc x1 x2 h1 h2 hn
    by_cases m2 : k2 < b0.length
    · by_cases m1 : k1 < a0.length
      · -- both spans have entries left
        have ga := goIdx_toGs a0 k1 m1
        have gb := goIdx_toGs b0 k2 m2
        have hc : Gen.mergeSpan.loop2_cond fuel (msSt a0 b0 acc k1 k2 x1 x2) = .ok true := by
          simp [Gen.mergeSpan.loop2_cond, msSt, pure, Except.pure, m1]
        rw [List.drop_eq_getElem_cons m1, List.drop_eq_getElem_cons m2, EtVerif.mergeSpan]
        by_cases c1 : a0[k1].idx < b0[k2].idx
        · obtain ⟨s', h3, h4⟩ := ih (k1 + 1) k2 (acc ++ [toG a0[k1]]) a0[k1].idx b0[k2].idx
            (by omega) h2 (by omega)
          refine ⟨s', ?_, ?_⟩
          · rw [loop_step (s1 := { msSt a0 b0 acc k1 k2 x1 x2 with
                  s := acc ++ [toG a0[k1]], i1 := (k1 : Int) + 1,
                  index1 := a0[k1].idx, index2 := b0[k2].idx })
                (s2 := msSt a0 b0 (acc ++ [toG a0[k1]]) (k1 + 1) k2 a0[k1].idx b0[k2].idx) hc]
            · exact h3
            · simp [Gen.mergeSpan.loop2_body, Stm.seq, Stm.set, Stm.ite, msSt, bind,
                Except.bind, pure, Except.pure, m1, m2, ga, gb, c1]
            · simp [Gen.mergeSpan.loop2_post, Stm.set, msSt, pure, Except.pure]
              omega
          · rw [h4, List.drop_eq_getElem_cons m2]
            simp [c1]
        · by_cases c2 : b0[k2].idx < a0[k1].idx
          · -- the update's entry comes first: taken unless zero
            cases hz : Scalar.eq b0[k2].val (Scalar.zero : α)
            · obtain ⟨s', h3, h4⟩ := ih k1 (k2 + 1) (acc ++ [toG b0[k2]]) a0[k1].idx b0[k2].idx
                h1 (by omega) (by omega)
              refine ⟨s', ?_, ?_⟩
              · rw [loop_step (s1 := { msSt a0 b0 acc k1 k2 x1 x2 with
                      s := acc ++ [toG b0[k2]], i2 := (k2 : Int) + 1,
                      index1 := a0[k1].idx, index2 := b0[k2].idx })
                    (s2 := msSt a0 b0 (acc ++ [toG b0[k2]]) k1 (k2 + 1) a0[k1].idx b0[k2].idx) hc]
                · exact h3
                · simp [Gen.mergeSpan.loop2_body, Stm.seq, Stm.set, Stm.ite, msSt, bind,
                    Except.bind, pure, Except.pure, m1, m2, ga, gb, c1, c2, hz]
                · simp [Gen.mergeSpan.loop2_post, Stm.set, msSt, pure, Except.pure]
                  omega
              · rw [h4, List.drop_eq_getElem_cons m1]
                simp [c1, c2, isZero, hz]
            · obtain ⟨s', h3, h4⟩ := ih k1 (k2 + 1) acc a0[k1].idx b0[k2].idx
                h1 (by omega) (by omega)
              refine ⟨s', ?_, ?_⟩
              · rw [loop_step (s1 := { msSt a0 b0 acc k1 k2 x1 x2 with
                      i2 := (k2 : Int) + 1,
                      index1 := a0[k1].idx, index2 := b0[k2].idx })
                    (s2 := msSt a0 b0 acc k1 (k2 + 1) a0[k1].idx b0[k2].idx) hc]
                · exact h3
                · simp [Gen.mergeSpan.loop2_body, Stm.seq, Stm.set, Stm.ite, Stm.skip, msSt, bind,
                    Except.bind, pure, Except.pure, m1, m2, ga, gb, c1, c2, hz]
                · simp [Gen.mergeSpan.loop2_post, Stm.set, msSt, pure, Except.pure]
                  omega
              · rw [h4, List.drop_eq_getElem_cons m1]
                simp [c1, c2, isZero, hz]
          · -- equal indices: the update's entry wins, a zero deletes
            cases hz : Scalar.eq b0[k2].val (Scalar.zero : α)
            · obtain ⟨s', h3, h4⟩ := ih (k1 + 1) (k2 + 1) (acc ++ [toG b0[k2]]) a0[k1].idx b0[k2].idx
                (by omega) (by omega) (by omega)
              refine ⟨s', ?_, ?_⟩
              · rw [loop_step (s1 := { msSt a0 b0 acc k1 k2 x1 x2 with
                      s := acc ++ [toG b0[k2]], i1 := (k1 : Int) + 1, i2 := (k2 : Int) + 1,
                      index1 := a0[k1].idx, index2 := b0[k2].idx })
                    (s2 := msSt a0 b0 (acc ++ [toG b0[k2]]) (k1 + 1) (k2 + 1) a0[k1].idx b0[k2].idx) hc]
                · exact h3
                · simp [Gen.mergeSpan.loop2_body, Stm.seq, Stm.set, Stm.ite, msSt, bind,
                    Except.bind, pure, Except.pure, m1, m2, ga, gb, c1, c2, hz]
                · simp [Gen.mergeSpan.loop2_post, Stm.set, msSt, pure, Except.pure]
                  omega
              · rw [h4]
                simp [c1, c2, isZero, hz]
            · obtain ⟨s', h3, h4⟩ := ih (k1 + 1) (k2 + 1) acc a0[k1].idx b0[k2].idx
                (by omega) (by omega) (by omega)
              refine ⟨s', ?_, ?_⟩
              · rw [loop_step (s1 := { msSt a0 b0 acc k1 k2 x1 x2 with
                      i1 := (k1 : Int) + 1, i2 := (k2 : Int) + 1,
                      index1 := a0[k1].idx, index2 := b0[k2].idx })
                    (s2 := msSt a0 b0 acc (k1 + 1) (k2 + 1) a0[k1].idx b0[k2].idx) hc]
                · exact h3
                · simp [Gen.mergeSpan.loop2_body, Stm.seq, Stm.set, Stm.ite, Stm.skip, msSt, bind,
                    Except.bind, pure, Except.pure, m1, m2, ga, gb, c1, c2, hz]
                · simp [Gen.mergeSpan.loop2_post, Stm.set, msSt, pure, Except.pure]
                  omega
              · rw [h4]
                simp [c1, c2, isZero, hz]
      · -- only the update has entries left: copied as they are (zeros included)
        have gb := goIdx_toGs b0 k2 m2
        have e1 : k1 = a0.length := by omega
        obtain ⟨s', h3, h4⟩ := ih k1 (k2 + 1) (acc ++ [toG b0[k2]]) x1 x2 h1 (by omega) (by omega)
        refine ⟨s', ?_, ?_⟩
        · rw [loop_step (s1 := { msSt a0 b0 acc k1 k2 x1 x2 with
                s := acc ++ [toG b0[k2]], i2 := (k2 : Int) + 1 })
              (s2 := msSt a0 b0 (acc ++ [toG b0[k2]]) k1 (k2 + 1) x1 x2)]
          · exact h3
          · simp [Gen.mergeSpan.loop2_cond, msSt, pure, Except.pure, m2]
          · simp [Gen.mergeSpan.loop2_body, Stm.seq, Stm.set, Stm.ite, msSt, bind,
              Except.bind, pure, Except.pure, m1, m2, gb]
          · simp [Gen.mergeSpan.loop2_post, Stm.set, msSt, pure, Except.pure]
            omega
        · rw [h4, List.drop_eq_getElem_cons m2, List.drop_eq_nil_of_le (by omega : a0.length ≤ k1),
            mergeSpan_nil_left, mergeSpan_nil_left]
          simp only [List.append_assoc, List.cons_append, List.nil_append, toGs_cons]
    · by_cases m1 : k1 < a0.length
      · -- only the first span has entries left
        have ga := goIdx_toGs a0 k1 m1
        have e2 : k2 = b0.length := by omega
        obtain ⟨s', h3, h4⟩ := ih (k1 + 1) k2 (acc ++ [toG a0[k1]]) x1 x2 (by omega) h2 (by omega)
        refine ⟨s', ?_, ?_⟩
        · rw [loop_step (s1 := { msSt a0 b0 acc k1 k2 x1 x2 with
                s := acc ++ [toG a0[k1]], i1 := (k1 : Int) + 1 })
              (s2 := msSt a0 b0 (acc ++ [toG a0[k1]]) (k1 + 1) k2 x1 x2)]
          · exact h3
          · simp [Gen.mergeSpan.loop2_cond, msSt, pure, Except.pure, m1]
          · simp [Gen.mergeSpan.loop2_body, Stm.seq, Stm.set, Stm.ite, msSt, bind,
              Except.bind, pure, Except.pure, m1, m2, ga]
          · simp [Gen.mergeSpan.loop2_post, Stm.set, msSt, pure, Except.pure]
            omega
        · rw [h4, List.drop_eq_getElem_cons m1, List.drop_eq_nil_of_le (by omega : b0.length ≤ k2),
            mergeSpan_nil_right, mergeSpan_nil_right]
          simp only [List.append_assoc, List.cons_append, List.nil_append, toGs_cons]
      · have e1 : k1 = a0.length := by omega
        have e2 : k2 = b0.length := by omega
        subst e1 e2
        refine ⟨_, loop_exit ?_, ?_⟩
        · simp [Gen.mergeSpan.loop2_cond, msSt, pure, Except.pure]
        · simp [msSt, mergeSpan_nil_right]

/-- Go `mergeSpan` (translated from the current source) computes exactly the model's `mergeSpan`,
    for every pair of entry lists (sorted or not) and every fuel ≥ the total number of entries. -/
theorem mergeSpan_refines (fuel : Nat) (s1 s2 : List (Entry α)) (hf : s1.length + s2.length ≤ fuel) :
    (Gen.mergeSpan fuel (toGs s1) (toGs s2)).map (fun r => r.2) = .ok (toGs (EtVerif.mergeSpan s1 s2)) := by
  cases s1 with
  | nil =>
    cases s2 with
    | nil =>
      simp [Gen.mergeSpan, Gen.mergeSpan.body, Stm.run, Stm.seq, Stm.ite, Stm.ret, pure, Except.pure,
        Except.map, mergeSpan_nil_right]
    | cons b l2 =>
      have hb : ¬ ((l2.length : Int) + 1 = 0) := by omega
      simp [Gen.mergeSpan, Gen.mergeSpan.body, Stm.run, Stm.seq, Stm.ite, Stm.ret, pure, Except.pure,
        Except.map, mergeSpan_nil_left, hb]
  | cons a l1 =>
    cases s2 with
    | nil =>
      have ha : ¬ ((l1.length : Int) + 1 = 0) := by omega
      simp [Gen.mergeSpan, Gen.mergeSpan.body, Stm.run, Stm.seq, Stm.ite, Stm.ret, pure, Except.pure,
        Except.map, mergeSpan_nil_right, ha]
    | cons b l2 =>
      have ha : ¬ ((l1.length : Int) + 1 = 0) := by omega
      have hb : ¬ ((l2.length : Int) + 1 = 0) := by omega
      obtain ⟨s', h1, h2⟩ := mergeSpan_loop fuel (a :: l1) (b :: l2) fuel 0 0 [] 0 0
        (Nat.zero_le _) (Nat.zero_le _) (by simpa using hf)
      simp [msSt] at h1 h2
      simp [Gen.mergeSpan, Gen.mergeSpan.body, Stm.run, Stm.seq, Stm.ite, Stm.ret, Stm.set, Stm.skip, pure,
        Except.pure, Except.map, bind, Except.bind, ha, hb, h1, h2]
end EtVerif.Tr
