/-
  The convergence checker translated from the source (`Gen.*_src`, with `math.Sqrt`, `math.IsNaN`, `math.IsInf`
  as uninterpreted parameters `sqrtO`, `nanO`, `infO`) SIMULATES the hand-modelled extern checker called by the
  translated `basic.Compute` (`Gen.NewConvergenceChecker`, `Gen.ConvergenceChecker_Update/_Converged/_Delta`),
  which carries the squared delta.
-/
import EtVerif.Proofs.TrAddSub
import EtVerif.Proofs.TrVecSmall
import EtVerif.Proofs.TrKbn
namespace EtVerif.Tr
open EtVerif EtVerif.GoSem EtVerif.Gen Scalar
variable {α : Type} [Scalar α]

/-- the source checker `g` represents the extern/model checker `m`: same previous vector (as entries), same epsilon;
    `g.d` is the square root of the model's squared delta (only meaningful after the first Update). -/
structure CCRel (sqrtO : α → α) (g : GConvergenceCheckerSrc α) (m : GConvergenceChecker α) (n : Nat) : Prop where
  t : g.t = toGV ⟨n, m.c.t⟩
  e : g.e = m.e

/-! ### the oracle hypotheses -/

/-- the compensated sum of squares of a list of entries: what `Norm2` takes the root of.  Every squared delta of the
    model is one: `(cv.update t).dsq = sqSum (subEntries t cv.t)` and `v.sumSq = sqSum v.entries`, by definition. -/
def sqSum (es : List (Entry α)) : α := kbnSum (es.map fun e => mul e.val e.val)

theorem update_dsq_eq_sqSum (cv : ConvChecker α) (t : List (Entry α)) :
    (cv.update t).dsq = sqSum (subEntries t cv.t) := rfl

theorem sumSq_eq_sqSum (v : Vec α) : v.sumSq = sqSum v.entries := rfl

/-- The stand-ins `sqrtO`, `nanO`, `infO` for `math.Sqrt`, `math.IsNaN`, `math.IsInf` agree with the model ON EVERY
    COMPENSATED SUM OF SQUARES `x = sqSum es`, for the epsilon `e` of the run:
    * `nf`: the Go finiteness test on `sqrt x` is the model's `nonFinite x`;
    * `sq`: `sqrt x ≤ e` is the model's `sqrtLe x e`.

    Why restricted to sums of squares: quantified over EVERY scalar `x` the first fact is false of the real float
    functions, and then every theorem assuming it is vacuous for the intended instance.  The square root of a negative
    FINITE number is NaN: `math.IsNaN(math.Sqrt(-1))` is true while `nonFinite (-1)` is false.  Together with `sq`
    (at the floats `sqrtLe x e` is `sqrt x ≤ e`, so `sqrtO (-1)` and `sqrtO NaN` are both NaN) no choice of oracles
    satisfies `nf` both at `x = -1` and at `x = NaN`.  The checker only ever takes roots of (Kahan–Babuška–Neumaier
    compensated) sums of squares of an entry list; on those `nf` says "a sum of squares is never a negative finite
    number", which is what the floats deliver, and at the floats with `sqrtO := Float.sqrt` the fact `sq` holds by
    `rfl`.  Likewise `sq` is asked at the run's epsilon only (the exact instances model `sqrtLe x e` as `x ≤ e·e`,
    which is the comparison of the root only for `e ≥ 0`; `Compute` refuses `e ≤ 0`). -/
structure OracleOK (sqrtO : α → α) (nanO infO : α → Bool) (e : α) : Prop where
  nf : ∀ es : List (Entry α), (nanO (sqrtO (sqSum es)) || infO (sqrtO (sqSum es))) = nonFinite (sqSum es)
  sq : ∀ es : List (Entry α), Scalar.le (sqrtO (sqSum es)) e = Scalar.sqrtLe (sqSum es) e

/-- the hypotheses quantified over every scalar (unsatisfiable at the floats, see `OracleOK`) are stronger. -/
theorem OracleOK.of_forall {sqrtO : α → α} {nanO infO : α → Bool}
    (hnf : ∀ x : α, (nanO (sqrtO x) || infO (sqrtO x)) = nonFinite x)
    (hsq : ∀ x e : α, Scalar.le (sqrtO x) e = Scalar.sqrtLe x e) (e : α) : OracleOK sqrtO nanO infO e :=
  ⟨fun _ => hnf _, fun _ => hsq _ e⟩

/-! ### Vector.Norm2 -/

theorem goIdx_mid' {β : Type} (l : List β) (i : Int) (pre : List β) (r : β) (rest : List β)
    (hl : l = pre ++ r :: rest) (hi : i = (pre.length : Int)) : goIdx l i = .ok r := by
  subst hl hi
  rw [goIdx_ofNat _ _ (by simp)]
  simp

theorem Vector_Norm2_src_loop (sqrtO : α → α) (es : List (GEntry α)) :
    ∀ (pre : List (GEntry α)) (s : Vector_Norm2_src.St α), s.v.Entries = pre ++ es →
      ∃ s', Stm.range 1 (Vector_Norm2_src.loop1_bind sqrtO) (Vector_Norm2_src.loop1_body sqrtO)
          (pre.length : Int) es s = .ok (s', .next) ∧
        s'.summer = toGK ((es.map (fun e => mul e.Value e.Value)).foldl KBN.push (ofGK s.summer)) := by
  induction es with
  | nil => intro pre s _; exact ⟨s, rfl, by simp⟩
  | cons e es ih =>
    intro pre s hs
    have hidx : goIdx s.v.Entries (pre.length : Int) = .ok e := goIdx_mid' _ _ pre e es hs rfl
    obtain ⟨st, h1, h2⟩ := KBNSummer_Add_ok s.summer (mul e.Value e.Value)
    obtain ⟨s', h3, h4⟩ := ih (pre ++ [e]) { s with i := (pre.length : Int), value := e.Value, summer := st.s }
      (by simp [hs])
    refine ⟨s', ?_, ?_⟩
    · rw [range_cons_next (s1 := { s with i := (pre.length : Int), value := e.Value, summer := st.s })]
      · have hl : (((pre ++ [e]).length : Nat) : Int) = (pre.length : Int) + 1 := by simp
        rw [hl] at h3
        exact h3
      · simp [Vector_Norm2_src.loop1_body, Vector_Norm2_src.loop1_bind, Stm.seq, Stm.set, hidx, h1, bind,
          Except.bind, pure, Except.pure]
    · simp [h4, h2]

/-- Go `Vector.Norm2` = sqrt of the model's compensated sum of squares. -/
theorem Vector_Norm2_src_refines (sqrtO : α → α) (v : Vec α) :
    (Gen.Vector_Norm2_src sqrtO (toGV v)).map (fun r => r.2) = .ok (sqrtO v.sumSq) := by
  obtain ⟨s', h1, h2⟩ := Vector_Norm2_src_loop sqrtO (toGs v.entries) []
    { v := toGV v, summer := GKBNSummer.zero, i := 0, value := Scalar.zero } (by simp)
  obtain ⟨st, hst⟩ := KBNSummer_Sum_ok s'.summer
  simp only [toGK_zero, List.length_nil, Int.natCast_zero] at h1
  simp only [Vector_Norm2_src, Vector_Norm2_src.body, Stm.run, Stm.seq, Stm.set, Stm.rangeOver,
    Vector_Norm2_src.loop1_xs, pure, Except.pure, toGK_zero, toGV_Entries, h1, Stm.ret, hst, bind, Except.bind,
    Except.map]
  simp [h2, Vec.sumSq, kbnSum, toGs, Function.comp_def, ofGK, toGK, KBN.init, GKBNSummer.zero]

/-! ### NewConvergenceChecker -/

theorem Vector_Assign_ok (w : GVector α) (v1 : Vec α) :
    ∃ st, Vector_Assign w (toGV v1) = .ok (st, ()) ∧ st.v = toGV v1 := by
  obtain ⟨r, h1, h2⟩ := map_eq_ok (Vector_Assign_refines w v1)
  exact ⟨r.1, h1, h2⟩

/-- `NewConvergenceChecker`: previous vector = t0, epsilon = e, iteration counter 0, sentinel delta 2·e. -/
theorem NewConvergenceChecker_src_refines (t0 : Vec α) (e : α) :
    (Gen.NewConvergenceChecker_src (toGV t0) e).map (fun r => r.2) =
      .ok { iter := 0, t := toGV t0, d := Scalar.mul (Scalar.ofNat 2) e, e := e } := by
  obtain ⟨st, h1, h2⟩ := Vector_Assign_ok (GVector.zero : GVector α) t0
  simp [NewConvergenceChecker_src, NewConvergenceChecker_src.body, Stm.run, Stm.seq, Stm.set, Stm.ret, pure,
    Except.pure, bind, Except.bind, Except.map, h1, h2]

theorem NewConvergenceChecker_src_rel (sqrtO : α → α) (t0 : Vec α) (e : α) :
    ∃ st g stm m, Gen.NewConvergenceChecker_src (toGV t0) e = .ok (st, g) ∧
      Gen.NewConvergenceChecker (toGV t0) e = .ok (stm, m) ∧ CCRel sqrtO g m t0.dim := by
  obtain ⟨r, h1, h2⟩ := map_eq_ok (NewConvergenceChecker_src_refines t0 e)
  refine ⟨r.1, r.2, {}, ⟨⟨t0.entries, Scalar.zero⟩, e⟩, h1, ?_, ?_⟩
  · simp [NewConvergenceChecker]
  · rw [h2]
    exact ⟨rfl, rfl⟩

/-! ### Update -/

theorem Vector_Norm2_src_ok (sqrtO : α → α) (v : Vec α) :
    ∃ st, Gen.Vector_Norm2_src sqrtO (toGV v) = .ok (st, sqrtO v.sumSq) := by
  obtain ⟨r, h1, h2⟩ := map_eq_ok (Vector_Norm2_src_refines sqrtO v)
  exact ⟨r.1, by rw [h1, ← h2]⟩

theorem Vector_SubVec_ok (capO : Nat → Int) (fuel : Nat) (w : GVector α) (v1 v2 : Vec α)
    (hd : v1.dim = v2.dim) (hf : v1.entries.length + v2.entries.length ≤ fuel) :
    ∃ st, Vector_SubVec capO fuel w (toGV v1) (toGV v2) = .ok (st, none) ∧
      st.v = toGV ⟨v1.dim, subEntries v1.entries v2.entries⟩ := by
  have h := Vector_SubVec_refines capO fuel w v1 v2 hf
  simp only [Vec.subVec, hd, ne_eq, not_true_eq_false, if_false] at h
  obtain ⟨r, h1, h2⟩ := map_eq_ok h
  simp only [Prod.mk.injEq] at h2
  refine ⟨r.1, ?_, ?_⟩
  · rw [h1, ← h2.2]
  · rw [h2.1, hd]

/-- `Update`: under the oracle hypothesis "the Go finiteness test on sqrt x is the model's `nonFinite x`" AT THE ONE
    VALUE MET — `x = (m.c.update t.entries).dsq`, the model's new squared delta, i.e. the compensated sum of squares
    `sqSum (subEntries t.entries m.c.t)` of the difference to the previously checked vector (`OracleOK.nf` provides
    it) — one Update of the source checker on a vector of the same dimension does what the extern does: same error
    decision; on success the relation is re-established, the iteration counter advances and
    `g'.d = sqrtO (new squared delta)`; on a non-finite delta both leave their checker unchanged.
    Fuel bounds the SubVec merge loop. -/
theorem ConvergenceChecker_Update_src_simulates (capO : Nat → Int) (fuel : Nat) (sqrtO : α → α) (nanO infO : α → Bool)
    (g : GConvergenceCheckerSrc α) (m : GConvergenceChecker α) (n : Nat) (t : Vec α)
    (hnf : (nanO (sqrtO (m.c.update t.entries).dsq) || infO (sqrtO (m.c.update t.entries).dsq)) =
      nonFinite (m.c.update t.entries).dsq)
    (hrel : CCRel sqrtO g m n) (hdim : t.dim = n) (hf : t.entries.length + m.c.t.length ≤ fuel) :
    ∃ st g' stm m' err,
      Gen.ConvergenceChecker_Update_src capO fuel sqrtO nanO infO g (toGV t) = .ok (st, err) ∧ st.c = g' ∧
      Gen.ConvergenceChecker_Update m (toGV t) = .ok (stm, err) ∧ stm.c = m' ∧
      CCRel sqrtO g' m' n ∧
      (err = none → g'.d = sqrtO m'.c.dsq ∧ g'.iter = g.iter + 1) ∧
      (err ≠ none → g' = g ∧ m' = m) := by
  have hnf' : (nanO (sqrtO (Vec.sumSq (⟨t.dim, subEntries t.entries m.c.t⟩ : Vec α))) ||
      infO (sqrtO (Vec.sumSq (⟨t.dim, subEntries t.entries m.c.t⟩ : Vec α)))) =
      nonFinite (Vec.sumSq (⟨t.dim, subEntries t.entries m.c.t⟩ : Vec α)) := hnf
  obtain ⟨gi, gt, gd, ge⟩ := g
  obtain ⟨ht, he⟩ := hrel
  simp only at ht he
  subst ht he
  obtain ⟨ss, hs1, hs2⟩ := Vector_SubVec_ok capO fuel ({ Dim := 0, Entries := [] } : GVector α) t ⟨n, m.c.t⟩
    hdim hf
  simp only at hs2
  obtain ⟨sn, hn⟩ := Vector_Norm2_src_ok sqrtO (⟨t.dim, subEntries t.entries m.c.t⟩ : Vec α)
  obtain ⟨sa, ha1, ha2⟩ := Vector_Assign_ok (toGV (⟨n, m.c.t⟩ : Vec α)) t
  have htt : toGV t = toGV (⟨n, t.entries⟩ : Vec α) := by rw [← hdim]
  rw [← hs2] at hn
  cases hfin : nonFinite (Vec.sumSq (⟨t.dim, subEntries t.entries m.c.t⟩ : Vec α)) with
  | true =>
    have hfin' : nonFinite (kbnSum ((subEntries t.entries m.c.t).map fun e => mul e.val e.val)) = true := hfin
    refine ⟨{ c := { iter := gi, t := toGV ⟨n, m.c.t⟩, d := gd, e := m.e }, t := toGV t, td := ss.v, err := none,
              d := sqrtO (Vec.sumSq (⟨t.dim, subEntries t.entries m.c.t⟩ : Vec α)) },
      { iter := gi, t := toGV ⟨n, m.c.t⟩, d := gd, e := m.e }, ⟨m⟩, m,
      some ⟨"trust vector delta is not finite (%v)"⟩, ?_, rfl, ?_, rfl, ⟨rfl, rfl⟩, ?_, ?_⟩
    · simp [ConvergenceChecker_Update_src, ConvergenceChecker_Update_src.body, Stm.run, Stm.seq, Stm.set, Stm.ite,
        Stm.skip, Stm.ret, pure, Except.pure, bind, Except.bind, hs1, hn, hnf', hfin]
    · simp [ConvergenceChecker_Update, ConvChecker.update, hfin']
    · intro h; cases h
    · intro _; exact ⟨rfl, rfl⟩
  | false =>
    have hfin' : nonFinite (kbnSum ((subEntries t.entries m.c.t).map fun e => mul e.val e.val)) = false := hfin
    refine ⟨{ c := { iter := gi + 1, t := sa.v,
                     d := sqrtO (Vec.sumSq (⟨t.dim, subEntries t.entries m.c.t⟩ : Vec α)), e := m.e },
              t := toGV t, td := ss.v, err := none,
              d := sqrtO (Vec.sumSq (⟨t.dim, subEntries t.entries m.c.t⟩ : Vec α)) },
      { iter := gi + 1, t := sa.v, d := sqrtO (Vec.sumSq (⟨t.dim, subEntries t.entries m.c.t⟩ : Vec α)), e := m.e },
      ⟨{ m with c := m.c.update t.entries }⟩, { m with c := m.c.update t.entries },
      none, ?_, rfl, ?_, rfl, ⟨?_, rfl⟩, ?_, ?_⟩
    · simp [ConvergenceChecker_Update_src, ConvergenceChecker_Update_src.body, Stm.run, Stm.seq, Stm.set, Stm.ite,
        Stm.skip, Stm.ret, pure, Except.pure, bind, Except.bind, hs1, hn, hnf', hfin, ha1]
    · simp [ConvergenceChecker_Update, ConvChecker.update, hfin']
    · simp only [ha2, ConvChecker.update]; exact htt
    · intro _; exact ⟨rfl, rfl⟩
    · intro h; exact absurd rfl h

/-- `Update` when the Go finiteness test passes: no error; the checker now holds the vector, the same epsilon, and
    the ROOT of the model's new squared delta.  (The source side of `ConvergenceChecker_Update_src_simulates` alone, the Go test
    given by its outcome: what the refinement of `Compute_src` uses.) -/
theorem Update_src_fin (capO : Nat → Int) (fuel : Nat) (sqrtO : α → α) (nanO infO : α → Bool)
    (g : GConvergenceCheckerSrc α) (cv : ConvChecker α) (e : α) (n : Nat) (t : List (Entry α))
    (hgt : g.t = toGV ⟨n, cv.t⟩) (hge : g.e = e) (hf : t.length + cv.t.length ≤ fuel)
    (hx : (nanO (sqrtO (cv.update t).dsq) || infO (sqrtO (cv.update t).dsq)) = false) :
    ∃ ru, Gen.ConvergenceChecker_Update_src capO fuel sqrtO nanO infO g (toGV ⟨n, t⟩) = .ok ru ∧ ru.2 = none ∧
      ru.1.c.t = toGV ⟨n, t⟩ ∧ ru.1.c.e = e ∧ ru.1.c.d = sqrtO (cv.update t).dsq := by
  obtain ⟨gi, gt, gd, ge⟩ := g
  simp only at hgt hge
  subst hgt hge
  obtain ⟨ss, hs1, hs2⟩ := Vector_SubVec_ok capO fuel ({ Dim := 0, Entries := [] } : GVector α) ⟨n, t⟩ ⟨n, cv.t⟩
    rfl hf
  simp only at hs2
  obtain ⟨sn, hn⟩ := Vector_Norm2_src_ok sqrtO (⟨n, subEntries t cv.t⟩ : Vec α)
  obtain ⟨sa, ha1, ha2⟩ := Vector_Assign_ok (toGV (⟨n, cv.t⟩ : Vec α)) ⟨n, t⟩
  rw [← hs2] at hn
  have hx' : (nanO (sqrtO (Vec.sumSq (⟨n, subEntries t cv.t⟩ : Vec α))) ||
      infO (sqrtO (Vec.sumSq (⟨n, subEntries t cv.t⟩ : Vec α)))) = false := hx
  refine ⟨(⟨{ iter := gi + 1, t := sa.v, d := sqrtO (Vec.sumSq (⟨n, subEntries t cv.t⟩ : Vec α)), e := ge },
      toGV ⟨n, t⟩, ss.v, none, sqrtO (Vec.sumSq (⟨n, subEntries t cv.t⟩ : Vec α))⟩, none), ?_, rfl, ha2, rfl, rfl⟩
  simp [ConvergenceChecker_Update_src, ConvergenceChecker_Update_src.body, Stm.run, Stm.seq, Stm.set, Stm.ite,
    Stm.skip, Stm.ret, pure, Except.pure, bind, Except.bind, hs1, hn, hx', ha1]

/-- `Update` when the Go finiteness test fails: an error. -/
theorem Update_src_nonfin (capO : Nat → Int) (fuel : Nat) (sqrtO : α → α) (nanO infO : α → Bool)
    (g : GConvergenceCheckerSrc α) (cv : ConvChecker α) (n : Nat) (t : List (Entry α))
    (hgt : g.t = toGV ⟨n, cv.t⟩) (hf : t.length + cv.t.length ≤ fuel)
    (hx : (nanO (sqrtO (cv.update t).dsq) || infO (sqrtO (cv.update t).dsq)) = true) :
    ∃ ru msg, Gen.ConvergenceChecker_Update_src capO fuel sqrtO nanO infO g (toGV ⟨n, t⟩) = .ok ru ∧
      ru.2 = some msg := by
  obtain ⟨gi, gt, gd, ge⟩ := g
  simp only at hgt
  subst hgt
  obtain ⟨ss, hs1, hs2⟩ := Vector_SubVec_ok capO fuel ({ Dim := 0, Entries := [] } : GVector α) ⟨n, t⟩ ⟨n, cv.t⟩
    rfl hf
  simp only at hs2
  obtain ⟨sn, hn⟩ := Vector_Norm2_src_ok sqrtO (⟨n, subEntries t cv.t⟩ : Vec α)
  rw [← hs2] at hn
  have hx' : (nanO (sqrtO (Vec.sumSq (⟨n, subEntries t cv.t⟩ : Vec α))) ||
      infO (sqrtO (Vec.sumSq (⟨n, subEntries t cv.t⟩ : Vec α)))) = true := hx
  refine ⟨(⟨{ iter := gi, t := toGV ⟨n, cv.t⟩, d := gd, e := ge },
      toGV ⟨n, t⟩, ss.v, none, sqrtO (Vec.sumSq (⟨n, subEntries t cv.t⟩ : Vec α))⟩,
      some ⟨"trust vector delta is not finite (%v)"⟩), _, ?_, rfl⟩
  simp [ConvergenceChecker_Update_src, ConvergenceChecker_Update_src.body, Stm.run, Stm.seq, Stm.set, Stm.ite,
    Stm.skip, Stm.ret, pure, Except.pure, bind, Except.bind, hs1, hn, hx']

/-! ### Converged, Delta -/

/-- `Converged`: under "sqrt x ≤ e ⟺ the model's sqrtLe x e" at the one value met — `x = m.c.dsq`, the squared delta
    the extern holds (after an `Update` a compensated sum of squares: `OracleOK.sq` provides the fact), and the
    checker's epsilon — the two verdicts coincide. -/
theorem ConvergenceChecker_Converged_src_agrees (sqrtO : α → α) (g : GConvergenceCheckerSrc α)
    (m : GConvergenceChecker α) (he : g.e = m.e) (hd : g.d = sqrtO m.c.dsq)
    (hsq : Scalar.le (sqrtO m.c.dsq) m.e = Scalar.sqrtLe m.c.dsq m.e) :
    (Gen.ConvergenceChecker_Converged_src g).map (fun r => r.2) =
      (Gen.ConvergenceChecker_Converged m).map (fun r => r.2) := by
  simp [ConvergenceChecker_Converged_src, ConvergenceChecker_Converged_src.body, ConvergenceChecker_Converged,
    Stm.run, Stm.ret, pure, Except.pure, Except.map, he, hd, hsq]

/-- `Delta`: the source returns the norm, the extern the squared norm: `sqrtO` of it. -/
theorem ConvergenceChecker_Delta_src_agrees (sqrtO : α → α) (g : GConvergenceCheckerSrc α)
    (m : GConvergenceChecker α) (hd : g.d = sqrtO m.c.dsq) :
    (Gen.ConvergenceChecker_Delta_src g).map (fun r => r.2) = .ok (sqrtO m.c.dsq) ∧
    (Gen.ConvergenceChecker_Delta m).map (fun r => r.2) = .ok m.c.dsq := by
  constructor
  · simp [ConvergenceChecker_Delta_src, ConvergenceChecker_Delta_src.body, Stm.run, Stm.ret, pure, Except.pure,
      Except.map, hd]
  · simp [ConvergenceChecker_Delta, Except.map]

end EtVerif.Tr
