/-
  The translated option constructors of pkg/basic (Gen/Translated.lean, regenerated from /repo):
  each sets exactly its own field(s) of the options record and nothing else.
-/
import EtVerif.Proofs.TrBridge
namespace EtVerif.Tr
open EtVerif EtVerif.GoSem EtVerif.Gen Scalar
variable {α : Type} [Scalar α]

-- the constructors do not use the scalar operations; the instance stays in the signatures for uniformity
set_option linter.unusedSectionVars false

theorem WithInitialTrust_refines (o : GComputeOpts α) (t0 : GVector α) :
    (Gen.WithInitialTrust o t0).map (fun r => r.1.o) = .ok { o with t0 := some t0 } := by
  simp [Gen.WithInitialTrust, WithInitialTrust.body, Stm.run, Stm.set, pure, Except.pure, Except.map]

theorem WithResultIn_refines (o : GComputeOpts α) (t : GVector α) :
    (Gen.WithResultIn o t).map (fun r => r.1.o) = .ok { o with t := some t } := by
  simp [Gen.WithResultIn, WithResultIn.body, Stm.run, Stm.set, pure, Except.pure, Except.map]

theorem WithFlatTail_refines (o : GComputeOpts α) (l : Int) :
    (Gen.WithFlatTail o l).map (fun r => r.1.o) = .ok { o with flatTailLength := l } := by
  simp [Gen.WithFlatTail, WithFlatTail.body, Stm.run, Stm.set, pure, Except.pure, Except.map]

theorem WithFlatTailNumLeaders_refines (o : GComputeOpts α) (n : Int) :
    (Gen.WithFlatTailNumLeaders o n).map (fun r => r.1.o) = .ok { o with numLeaders := n } := by
  simp [Gen.WithFlatTailNumLeaders, WithFlatTailNumLeaders.body, Stm.run, Stm.set, pure, Except.pure,
    Except.map]

theorem WithFlatTailStats_refines (o : GComputeOpts α) (s : GFlatTailStats α) :
    (Gen.WithFlatTailStats o s).map (fun r => r.1.o) = .ok { o with flatTailStats := some s } := by
  simp [Gen.WithFlatTailStats, WithFlatTailStats.body, Stm.run, Stm.set, pure, Except.pure, Except.map]

theorem WithMaxIterations_refines (o : GComputeOpts α) (n : Int) :
    (Gen.WithMaxIterations o n).map (fun r => r.1.o) = .ok { o with maxIterations := some n } := by
  simp [Gen.WithMaxIterations, WithMaxIterations.body, Stm.run, Stm.set, pure, Except.pure, Except.map]

theorem WithMinIterations_refines (o : GComputeOpts α) (n : Int) :
    (Gen.WithMinIterations o n).map (fun r => r.1.o) = .ok { o with minIterations := some n } := by
  simp [Gen.WithMinIterations, WithMinIterations.body, Stm.run, Stm.set, pure, Except.pure, Except.map]

theorem WithIterations_refines (o : GComputeOpts α) (n : Int) :
    (Gen.WithIterations o n).map (fun r => r.1.o) =
      .ok { o with maxIterations := some n, minIterations := some n } := by
  simp [Gen.WithIterations, WithIterations.body, Stm.run, Stm.set, pure, Except.pure, Except.map]

theorem WithCheckFreq_refines (o : GComputeOpts α) (n : Int) :
    (Gen.WithCheckFreq o n).map (fun r => r.1.o) = .ok { o with checkFreq := some n } := by
  simp [Gen.WithCheckFreq, WithCheckFreq.body, Stm.run, Stm.set, pure, Except.pure, Except.map]

end EtVerif.Tr
