/-
  Refinement of the translated Go `iterationBound` (internal/playground/engine.go) to the hand model
  `pgIterBound` (Model/Frontends.lean), for any `Scalar`.  Core-only.
-/
import EtVerif.Proofs.TrBridge
import EtVerif.Model.Frontends

namespace EtVerif.Tr
open EtVerif EtVerif.GoSem EtVerif.Gen Scalar
open EtVerif.Fe (pgIterBound pgIterBoundAux)

variable {α : Type} [Scalar α]

/-- the model's count never decreases and never exceeds 65536 (when started at or below it). -/
theorem pgIterBoundAux_bounds (w e : α) : ∀ (f : Nat) (x : α) (n : Nat), n ≤ 65536 →
    n ≤ pgIterBoundAux w e f x n ∧ pgIterBoundAux w e f x n ≤ 65536 := by
  intro f
  induction f with
  | zero => intro x n hn; simp [pgIterBoundAux, hn]
  | succ f ih =>
    intro x n hn
    simp only [pgIterBoundAux]
    split
    · rename_i h
      have hlt : n < 65536 := by
        simp only [Bool.and_eq_true, decide_eq_true_eq] at h
        exact h.2
      obtain ⟨h1, h2⟩ := ih (mul x w) (n + 1) (by omega)
      exact ⟨by omega, h2⟩
    · exact ⟨Nat.le_refl _, hn⟩

/-- The loop, from an arbitrary state whose counter is the natural number `n ≤ 65536`: whenever the Go fuel
    and the model's fuel both cover the remaining `65536 - n` iterations, the loop ends normally with the
    model's count (neither fuel is ever exhausted: `n < 65536` fails first). -/
theorem iterationBound_loop (gf : Nat) : ∀ (fuel mf n : Nat) (st : iterationBound.St α),
    st.n = (n : Int) → 65536 - n ≤ fuel → 65536 - n ≤ mf →
    ∃ st', Stm.loop 1 (iterationBound.loop1_cond gf) (iterationBound.loop1_body gf)
              (iterationBound.loop1_post gf) fuel st = .ok (st', (.next : Ctl Int)) ∧
      st'.n = ((pgIterBoundAux (sub one st.a) st.e mf st.x n : Nat) : Int) := by
  intro fuel
  induction fuel with
  | zero =>
    intro mf n st hn hf hm
    have hge : ¬ (n < 65536) := by omega
    have hc : iterationBound.loop1_cond gf st = .ok false := by
      have : ¬ ((n : Int) < 65536) := by omega
      simp [iterationBound.loop1_cond, pure, Except.pure, hn, this]
    refine ⟨st, loop_exit hc, ?_⟩
    cases mf with
    | zero => simp [pgIterBoundAux, hn]
    | succ mf => simp [pgIterBoundAux, hge, hn]
  | succ fuel ih =>
    intro mf n st hn hf hm
    by_cases hcond : (lt st.e st.x && decide (n < 65536)) = true
    · -- one more iteration
      have hlt : n < 65536 := by
        simp only [Bool.and_eq_true, decide_eq_true_eq] at hcond
        exact hcond.2
      have hx : lt st.e st.x = true := by
        simp only [Bool.and_eq_true] at hcond
        exact hcond.1
      have hc : iterationBound.loop1_cond gf st = .ok true := by
        have : (n : Int) < 65536 := by omega
        simp [iterationBound.loop1_cond, pure, Except.pure, hn, this, hx]
      have hb : iterationBound.loop1_body gf st = .ok ({ st with n := st.n + 1 }, (.next : Ctl Int)) := by
        simp [iterationBound.loop1_body, Stm.set, pure, Except.pure]
      have hp : iterationBound.loop1_post gf { st with n := st.n + 1 }
          = .ok ({ st with n := st.n + 1, x := mul st.x (sub one st.a) }, (.next : Ctl Int)) := by
        simp [iterationBound.loop1_post, Stm.set, pure, Except.pure]
      rw [loop_step hc hb hp]
      cases mf with
      | zero => omega
      | succ mf =>
        obtain ⟨st', h1, h2⟩ := ih mf (n + 1)
          { st with n := st.n + 1, x := mul st.x (sub one st.a) }
          (by simp [hn]) (by omega) (by omega)
        refine ⟨st', h1, ?_⟩
        rw [h2]
        simp only [pgIterBoundAux, hcond, if_true]
    · -- the condition fails: the loop is over, and so is the model's
      have hc : iterationBound.loop1_cond gf st = .ok false := by
        have hcond' : (lt st.e st.x && decide (n < 65536)) = false := by
          simpa using hcond
        have hiff : decide (st.n < ((1 : Int) * (2 : Int) ^ 16)) = decide (n < 65536) := by
          have : ((1 : Int) * (2 : Int) ^ 16) = 65536 := by decide
          rw [this, hn]
          by_cases h : n < 65536
          · have : (n : Int) < 65536 := by omega
            simp [h, this]
          · have : ¬ ((n : Int) < 65536) := by omega
            simp [h, this]
        simp only [iterationBound.loop1_cond, pure, Except.pure, hiff, hcond']
      refine ⟨st, loop_exit hc, ?_⟩
      cases mf with
      | zero => simp [pgIterBoundAux, hn]
      | succ mf => simp only [pgIterBoundAux, hcond, hn]; simp

/-- the whole function, with the smallest fuel for which it is true for every input: the loop starts at
    `n = 2` and runs at most `65534` times. -/
theorem iterationBound_run (fuel : Nat) (a e : α) (hf : 65534 ≤ fuel) :
    ∃ st, Gen.iterationBound fuel a e = .ok (st, ((pgIterBound a e : Nat) : Int)) := by
  obtain ⟨st', h1, h2⟩ := iterationBound_loop (α := α) fuel fuel 65536 2
    { a := a, e := e, n := (2 : Int), x := (Scalar.ofNat 2 : α) } rfl (by omega) (by omega)
  refine ⟨st', ?_⟩
  simp only [Gen.iterationBound, iterationBound.body, Stm.run, Stm.seq, Stm.set, Stm.ret,
    pure, Except.pure, h1, h2, pgIterBound]

/-- the translated Go loop computes exactly the model's count, for every fuel ≥ 65534 (so it terminates). -/
theorem iterationBound_refines' (fuel : Nat) (a e : α) (hf : 65534 ≤ fuel) :
    (Gen.iterationBound fuel a e).map (fun r => r.2) = .ok ((pgIterBound a e : Nat) : Int) := by
  obtain ⟨st, h⟩ := iterationBound_run fuel a e hf
  rw [h]; rfl

/-- the translated Go loop computes exactly the model's count, for every fuel ≥ 65536 (so it terminates). -/
theorem iterationBound_refines (fuel : Nat) (a e : α) (hf : 65536 ≤ fuel) :
    (Gen.iterationBound fuel a e).map (fun r => r.2) = .ok ((pgIterBound a e : Nat) : Int) :=
  iterationBound_refines' fuel a e (by omega)

/-- … and the count is between 2 and 65536 whatever the floats do (NaN, 0, 1, negative alpha …). -/
theorem iterationBound_range' (fuel : Nat) (a e : α) (hf : 65534 ≤ fuel) :
    ∃ st n, Gen.iterationBound fuel a e = .ok (st, n) ∧ 2 ≤ n ∧ n ≤ 65536 := by
  obtain ⟨st, h⟩ := iterationBound_run fuel a e hf
  obtain ⟨h1, h2⟩ := pgIterBoundAux_bounds (sub one a) e 65536 (ofNat 2 : α) 2 (by omega)
  refine ⟨st, _, h, ?_, ?_⟩
  · simp only [pgIterBound]; omega
  · simp only [pgIterBound]; omega

/-- … and the count is between 2 and 65536 whatever the floats do (NaN, 0, 1, negative alpha …). -/
theorem iterationBound_range (fuel : Nat) (a e : α) (hf : 65536 ≤ fuel) :
    ∃ st n, Gen.iterationBound fuel a e = .ok (st, n) ∧ 2 ≤ n ∧ n ≤ 65536 :=
  iterationBound_range' fuel a e (by omega)

end EtVerif.Tr
