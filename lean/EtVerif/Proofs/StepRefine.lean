/-
  The sparse power-iteration step `stepEntries` (Model/Basic.lean; eigentrust.go 278-286:
  `t1.MulVec(ct, t1); t1.ScaleVec(1-a, t1); t1.AddVec(t1, ap)`) refines the dense map
  `t ↦ (1-a)·Cᵀt + a·p`, keeps well-formedness, and maps distributions to distributions when
  the inputs are canonical.

  Definitions `Dist`, `Canon` live in `EtVerif`; helper lemmas in `EtVerif.SR`.
-/
import EtVerif.Proofs.Matrix
import EtVerif.Proofs.VecDot
import EtVerif.Proofs.Loop
import EtVerif.Props.C09
import EtVerif.Props.C10
import EtVerif.Props.C05
import Mathlib.Algebra.Order.BigOperators.Group.Finset
import Mathlib.Algebra.Order.BigOperators.Group.List
import Mathlib.Algebra.Order.Ring.Defs

namespace EtVerif
open Scalar

variable {K : Type} [Field K] [LinearOrder K]

/-- a sparse distribution of dimension `n`: strictly increasing indices `< n`, non-negative
    stored values, stored values summing to 1 -/
def Dist (n : Nat) (t : List (Entry K)) : Prop :=
  WF n t ∧ (∀ e ∈ t, 0 ≤ e.val) ∧ (t.map (·.val)).sum = 1

/-- canonical inputs of `Compute`: `c` is a well-formed `n × n` matrix whose stored values are
    non-negative and whose every row sums to 1; `p` is a distribution of dimension `n`. -/
def Canon (n : Nat) (c : CSM K) (p : Vec K) : Prop :=
  c.major = n ∧ c.minor = n ∧ WFM c ∧ (∀ r ∈ c.rows, ∀ e ∈ r, 0 ≤ e.val) ∧
  (∀ r ∈ c.rows, (r.map (·.val)).sum = 1) ∧
  p.dim = n ∧ WF n p.entries ∧ (∀ e ∈ p.entries, 0 ≤ e.val) ∧ (p.entries.map (·.val)).sum = 1

theorem Canon.dist {n : Nat} {c : CSM K} {p : Vec K} (h : Canon n c p) : Dist n p.entries :=
  ⟨h.2.2.2.2.2.2.1, h.2.2.2.2.2.2.2.1, h.2.2.2.2.2.2.2.2⟩

theorem Canon.wfm {n : Nat} {c : CSM K} {p : Vec K} (h : Canon n c p) : WFM c := h.2.2.1

namespace SR

/-! ### dense value of one step -/

theorem den_stepEntries (rows : List (Row K)) (ap : List (Entry K)) (q : K) (t : List (Entry K))
    (j : Nat) :
    denE (stepEntries rows ap q t) j = q * vecDot (rows.getD j []) t + denE ap j := by
  unfold stepEntries
  simp only
  rw [den_addEntries]
  congr 1
  by_cases hq : q = 0
  · simp [hq]
  · simp only [s_isZero, hq, decide_false, Bool.false_eq_true, if_false]
    rw [den_scaleEntries, den_mulVecEntries]

/-- item 1: the sparse step denotes `(1-a)·Cᵀt + a·p` (any `a`, including `a = 1`, where the
    product is cleared, and `a = 0`, where `a·p` is the empty vector). -/
theorem step_den {c : CSM K} (hw : WFM c) (p : Vec K) (a : K) {t : List (Entry K)}
    (ht : Sorted t) (j : Nat) :
    denE (stepEntries c.transpose.rows (Vec.scale a p).entries (1 - a) t) j
      = (1 - a) * (∑ i ∈ Finset.range c.major, denRows c.rows i j * denE t i)
        + a * denE p.entries j := by
  rw [den_stepEntries, C09.den_scale]
  have hrow := Mx.WFM.row (Mx.transpose_wfm hw) j
  rw [Mx.transpose_minor] at hrow
  rw [vecDot_eq_finset_sum hrow ht]
  congr 2
  apply Finset.sum_congr rfl
  intro i _
  have h := Mx.transpose_den hw i j
  unfold denRows at h
  unfold denRows
  rw [h]

/-! ### well-formedness of one step -/

theorem wf_stepEntries {n : Nat} {rows : List (Row K)} (hr : rows.length = n)
    {ap : List (Entry K)} (hap : WF n ap) (q : K) (t : List (Entry K)) :
    WF n (stepEntries rows ap q t) := by
  unfold stepEntries
  simp only
  apply wf_addEntries _ hap
  split
  · exact WF.nil n
  · rw [← hr]; exact wf_scaleEntries q (wf_mulVecEntries rows t)

/-- item 2: the result of a step is well-formed for dimension `n` (each peer at most once,
    increasing index order, indices `< n`) — whatever the current vector `t` is. -/
theorem step_wf {n : Nat} {c : CSM K} (hmin : c.minor = n) {p : Vec K} (hd : p.dim = n)
    (hp : WF n p.entries) (a : K) (t : List (Entry K)) :
    WF n (stepEntries c.transpose.rows (Vec.scale a p).entries (1 - a) t) := by
  apply wf_stepEntries
  · rw [Mx.transpose_length, hmin]
  · have h := C09.wf_scale a p (by rw [hd]; exact hp)
    rw [C09.dim_scale, hd] at h
    exact h

/-! ### non-negativity -/

section order
variable [IsStrictOrderedRing K]

theorem denE_nonneg {es : List (Entry K)} (h : ∀ e ∈ es, 0 ≤ e.val) (i : Nat) :
    0 ≤ denE es i := by
  induction es with
  | nil => simp
  | cons e es ih =>
    rw [denE_cons]
    have h1 := h e (by simp)
    have h2 := ih (fun x hx => h x (by simp [hx]))
    split
    · exact add_nonneg h1 h2
    · exact h2

theorem denRows_nonneg {rows : List (Row K)} (h : ∀ r ∈ rows, ∀ e ∈ r, 0 ≤ e.val) (i j : Nat) :
    0 ≤ denRows rows i j := by
  unfold denRows
  rcases Mx.getD_mem_or rows i with hm | he
  · exact denE_nonneg (h _ hm) j
  · rw [he]; simp

omit [IsStrictOrderedRing K] in
/-- row `i < n` of a canonical matrix sums to 1 over the dense columns -/
theorem denRows_rowsum {n : Nat} {c : CSM K} {p : Vec K} (hc : Canon n c p) {i : Nat}
    (hi : i < n) : ∑ j ∈ Finset.range n, denRows c.rows i j = 1 := by
  obtain ⟨hmaj, hmin, hw, _, hs, _⟩ := hc
  have hlen : i < c.rows.length := by rw [hw.1, hmaj]; exact hi
  have hm : c.rows.getD i [] ∈ c.rows := Mx.mem_iff_getD.mpr ⟨i, hlen, rfl⟩
  have hwf := hw.2 _ hm
  rw [hmin] at hwf
  unfold denRows
  rw [sum_denE hwf.2]
  exact hs _ hm

/-- the dense value of the step at index `j` is non-negative -/
theorem step_den_nonneg {n : Nat} {c : CSM K} {p : Vec K} (hc : Canon n c p) {a : K}
    (ha0 : 0 ≤ a) (ha1 : a ≤ 1) {t : List (Entry K)} (ht : Sorted t)
    (hn : ∀ e ∈ t, 0 ≤ e.val) (j : Nat) :
    0 ≤ denE (stepEntries c.transpose.rows (Vec.scale a p).entries (1 - a) t) j := by
  rw [step_den hc.wfm p a ht]
  have h1 : 0 ≤ ∑ i ∈ Finset.range c.major, denRows c.rows i j * denE t i :=
    Finset.sum_nonneg fun i _ => mul_nonneg (denRows_nonneg hc.2.2.2.1 i j) (denE_nonneg hn i)
  have h2 : 0 ≤ denE p.entries j := denE_nonneg hc.dist.2.1 j
  have hq : 0 ≤ 1 - a := sub_nonneg.mpr ha1
  exact add_nonneg (mul_nonneg hq h1) (mul_nonneg ha0 h2)

omit [IsStrictOrderedRing K] in
/-- the stored values of the step add up to `(1-a)·Σt + a` -/
theorem step_sum {n : Nat} {c : CSM K} {p : Vec K} (hc : Canon n c p) (a : K)
    {t : List (Entry K)} (ht : WF n t) :
    ((stepEntries c.transpose.rows (Vec.scale a p).entries (1 - a) t).map (·.val)).sum
      = (1 - a) * (t.map (·.val)).sum + a := by
  have hwf := step_wf hc.2.1 hc.2.2.2.2.2.1 hc.dist.1 a t
  rw [← sum_denE hwf.2]
  have hmaj : c.major = n := hc.1
  have hstep : ∀ j ∈ Finset.range n,
      denE (stepEntries c.transpose.rows (Vec.scale a p).entries (1 - a) t) j
        = (1 - a) * (∑ i ∈ Finset.range n, denRows c.rows i j * denE t i)
          + a * denE p.entries j := by
    intro j _
    rw [step_den hc.wfm p a ht.1, hmaj]
  rw [Finset.sum_congr rfl hstep, Finset.sum_add_distrib, ← Finset.mul_sum, ← Finset.mul_sum,
    Finset.sum_comm, sum_denE hc.dist.1.2, hc.dist.2.2, mul_one]
  congr 2
  rw [← sum_denE ht.2]
  apply Finset.sum_congr rfl
  intro i hi
  rw [← Finset.sum_mul, denRows_rowsum hc (Finset.mem_range.mp hi), one_mul]

/-- item 3 (core of C02): one step maps distributions to distributions, for every
    `0 ≤ a ≤ 1` (including `a = 0` and `a = 1`). -/
theorem step_mass {n : Nat} {c : CSM K} {p : Vec K} (hc : Canon n c p) {a : K}
    (ha0 : 0 ≤ a) (ha1 : a ≤ 1) {t : List (Entry K)} (ht : Dist n t) :
    Dist n (stepEntries c.transpose.rows (Vec.scale a p).entries (1 - a) t) := by
  have hwf := step_wf hc.2.1 hc.2.2.2.2.2.1 hc.dist.1 a t
  refine ⟨hwf, ?_, ?_⟩
  · intro x hx
    rw [← denE_of_mem hwf.1 hx]
    exact step_den_nonneg hc ha0 ha1 ht.1.1 ht.2.1 x.idx
  · rw [step_sum hc a ht.1, ht.2.2]
    ring

/-- item 4, library level: every iterate of a distribution is a distribution -/
theorem iterate_dist {n : Nat} {c : CSM K} {p : Vec K} (hc : Canon n c p) {a : K}
    (ha0 : 0 ≤ a) (ha1 : a ≤ 1) {t0 : List (Entry K)} (ht0 : Dist n t0) (k : Nat) :
    Dist n (iterate c.transpose.rows (Vec.scale a p).entries (1 - a) k t0) := by
  unfold iterate
  induction k with
  | zero => exact ht0
  | succ k ih =>
    rw [Function.iterate_succ_apply']
    exact step_mass hc ha0 ha1 ih

/-- "no explicit zero unless it comes from `a·p`": under the hypotheses of `step_mass`, a stored
    zero of the result is a stored zero of the pre-trust vector, and can occur only for
    `a = 1` (where `ScaleVec` keeps the entries of `p` as they are). -/
theorem step_zero_origin {n : Nat} {c : CSM K} {p : Vec K} (hc : Canon n c p) {a : K}
    (ha0 : 0 ≤ a) (ha1 : a ≤ 1) {t : List (Entry K)} (ht : Dist n t) {x : Entry K}
    (hx : x ∈ stepEntries c.transpose.rows (Vec.scale a p).entries (1 - a) t)
    (hz : x.val = 0) : a = 1 ∧ x ∈ p.entries := by
  -- stored values of the scaled product are positive
  have hq : 0 ≤ 1 - a := sub_nonneg.mpr ha1
  have hprod : ∀ y ∈ mulVecEntries c.transpose.rows t, 0 < y.val := by
    intro y hy
    obtain ⟨_, hv, hne⟩ := mem_mulVecEntries hy
    have h0 : 0 ≤ denE (mulVecEntries c.transpose.rows t) y.idx := by
      rw [den_mulVecEntries]
      have hrow := Mx.WFM.row (Mx.transpose_wfm hc.wfm) y.idx
      rw [vecDot_eq_finset_sum hrow ht.1.1]
      refine Finset.sum_nonneg fun i _ => mul_nonneg ?_ (denE_nonneg ht.2.1 i)
      have h := Mx.transpose_den hc.wfm i y.idx
      unfold denRows at h
      rw [h]
      exact denRows_nonneg hc.2.2.2.1 i y.idx
    rw [den_mulVecEntries, ← hv] at h0
    exact lt_of_le_of_ne h0 (Ne.symm hne)
  have hscaled : ∀ y ∈ (if isZero (1 - a) then [] else
      scaleEntries (1 - a) (mulVecEntries c.transpose.rows t)), 0 < y.val := by
    intro y hy
    split at hy
    · cases hy
    · rename_i hqz
      have hq0 : (1 - a) ≠ 0 := by simpa using hqz
      by_cases hq1 : (1 - a) = 1
      · rw [hq1, scaleEntries_one] at hy; exact hprod y hy
      · obtain ⟨z, hzm, _, rfl⟩ := (mem_scaleEntries hq1).mp hy
        exact mul_pos (hprod z hzm) (lt_of_le_of_ne hq (Ne.symm hq0))
  have hap : ∀ y ∈ (Vec.scale a p).entries, 0 ≤ y.val ∧ (y.val = 0 → a = 1 ∧ y ∈ p.entries) := by
    intro y hy
    unfold Vec.scale at hy
    split at hy
    · cases hy
    · by_cases h1 : a = 1
      · simp only [h1, scaleEntries_one] at hy
        exact ⟨hc.dist.2.1 y hy, fun _ => ⟨h1, hy⟩⟩
      · obtain ⟨z, hzm, hne, rfl⟩ := (mem_scaleEntries h1).mp hy
        exact ⟨mul_nonneg (hc.dist.2.1 z hzm) ha0, fun h => absurd h hne⟩
  unfold stepEntries at hx
  simp only at hx
  rcases mem_addEntries hx with h | h | ⟨u, hu, v, hv, _, rfl⟩
  · exact absurd hz (ne_of_gt (hscaled x h))
  · exact (hap x h).2 hz
  · exfalso
    have h1 := hscaled u hu
    have h2 := (hap v hv).1
    simp only [s_add] at hz
    linarith

end order

/-- all iterates are well-formed for dimension `n` -/
theorem wf_iterate {n : Nat} {c : CSM K} (hmin : c.minor = n) {p : Vec K} (hd : p.dim = n)
    (hp : WF n p.entries) (a : K) {t0 : List (Entry K)} (ht0 : WF n t0) (k : Nat) :
    WF n (iterate c.transpose.rows (Vec.scale a p).entries (1 - a) k t0) := by
  unfold iterate
  cases k with
  | zero => exact ht0
  | succ k =>
    rw [Function.iterate_succ_apply']
    exact step_wf hmin hd hp a _

/-! ### the convergence check -/

/-- the squared delta of `ConvergenceChecker.Update` is the dense squared Euclidean distance -/
theorem deltaSq_eq {n : Nat} {x y : List (Entry K)} (hx : WF n x) (hy : WF n y) :
    deltaSq x y = ∑ i ∈ Finset.range n, (denE x i - denE y i) ^ 2 := by
  unfold deltaSq
  rw [kbnSum_eq_sum]
  have h := sum_denE_sq (wf_subEntries hx hy)
  simp only [s_mul]
  rw [← h]
  apply Finset.sum_congr rfl
  intro i _
  rw [den_subEntries]

/-- If the first step does not move the pre-trust vector (squared delta 0), a `compute` with the
    default options (start vector `p`, checks after every iteration) ends by the criteria at
    iteration 1.  Used for non-vacuity examples over fields where `compute` cannot be evaluated
    (ℝ). -/
theorem first_check_converges [IsStrictOrderedRing K] (fuel : Nat) (hfuel : 2 ≤ fuel) (c : CSM K)
    (p : Vec K) (a e : K) (hv : ValidInput c p a e {})
    (hz : deltaSq (stepEntries c.transpose.rows (Vec.scale a p).entries (1 - a) p.entries)
      p.entries = 0) :
    ∃ r, compute fuel c p a e {} = .ok r ∧ r.endedBy = .criteria ∧ r.iters = 1 := by
  cases hl : loopOf fuel c p a e {} with
  | mk s by_ =>
    have hl' : computeLoop c.transpose.rows (Vec.scale a p).entries (1 - a) e 1 1 none 0 c.major
        fuel (initState p.entries) = (s, by_) := hl
    have hlc : lastChk 1 1 1 = 0 := by decide
    have hd : dsqAt c.transpose.rows (Vec.scale a p).entries (1 - a) 1 1 p.entries 1 = 0 := by
      unfold dsqAt
      rw [hlc]
      exact hz
    have hnf : nonFiniteAt c.transpose.rows (Vec.scale a p).entries (1 - a) 1 1 p.entries 1
        = false := by
      unfold nonFiniteAt
      rw [hd]
      simp [nonFinite]
    have hcv : convergedAt c.transpose.rows (Vec.scale a p).entries (1 - a) e 1 1 p.entries 1
        = true := by
      unfold convergedAt
      rw [hd]
      simp only [s_sqrtLe, decide_eq_true_eq]
      exact mul_self_nonneg e
    have hstop1 : stopAt c.transpose.rows (Vec.scale a p).entries (1 - a) e 1 1 0 c.major
        p.entries 1 = true := by
      simp [stopAt, hnf, hcv, flatAt, isCheck]
    have hstop0 : stopAt c.transpose.rows (Vec.scale a p).entries (1 - a) e 1 1 0 c.major
        p.entries 0 = false := by
      simp [stopAt, isCheck]
    obtain ⟨hi, hnof, hmx⟩ := loop_first _ _ _ _ _ _ _ _ _ fuel p.entries 1 (by omega)
      (fun k hk => by
        have : k = 0 := by omega
        subst this
        exact ⟨rfl, hstop0⟩)
      (Or.inr hstop1) s by_ hl'
    obtain ⟨_, _, _, _, _, _, hnfs, _⟩ := loop_spec _ _ _ _ _ _ _ _ _ fuel p.entries s by_ hl'
    have hby : by_ = .criteria := by
      cases by_ with
      | criteria => rfl
      | outOfFuel => exact absurd rfl hnof
      | maxIterations =>
        have := hmx.mp rfl
        simp [maxHit] at this
      | nonFinite =>
        have := (hnfs rfl).2.2.2.1
        rw [hi, hnf] at this
        cases this
    subst hby
    exact ⟨_, compute_ok_of_loop fuel c p a e {} hv s _ hl (by decide), rfl, hi⟩

section generic
variable {α : Type} [Scalar α]

/-- the previous check lies strictly before iteration `k ≥ 1` -/
theorem lastChk_lt {minI freq k : Nat} (hk : 0 < k) : lastChk minI freq k < k := by
  unfold lastChk
  cases h : sched minI freq k with
  | nil => simpa using hk
  | cons x xs =>
    have hm : x ∈ sched minI freq k := by rw [h]; simp
    simpa using (mem_sched.mp hm).1

/-- A `compute` that ended by the exit criteria returns the `K`-th iterate (`K = r.iters ≥ 1`), and
    the convergence verdict `sqrt dsq ≤ e` held for the squared delta between the `K`-th iterate
    and the iterate of the previous check `K' < K` (`K' = 0`, the initial vector, at the first
    check).  Any scalar type, any schedule / iteration limit / flat-tail setting. -/
theorem compute_criteria_inv (fuel : Nat) (c : CSM α) (p : Vec α) (a e : α) (o : ComputeOpts α)
    (r : ComputeResult α) (h : compute fuel c p a e o = .ok r) (hcr : r.endedBy = .criteria) :
    ValidInput c p a e o ∧ ∃ K', K' < r.iters ∧
      r.t = ⟨c.major, iterate c.transpose.rows (Vec.scale a p).entries (sub one a) r.iters
        (o.t0.getD p).entries⟩ ∧
      sqrtLe (deltaSq
        (iterate c.transpose.rows (Vec.scale a p).entries (sub one a) r.iters (o.t0.getD p).entries)
        (iterate c.transpose.rows (Vec.scale a p).entries (sub one a) K' (o.t0.getD p).entries))
        e = true := by
  obtain ⟨hv, ht, _, _, s, hl, hit, _, _⟩ := C05.compute_spec fuel c p a e o r h
  refine ⟨hv, ?_⟩
  unfold loopOf at hl
  rw [hcr] at hl
  obtain ⟨_, _, _, _, _, hc, _, _⟩ := C05.stopIter_spec _ _ _ _ _ _ _ _ _ fuel _ s _ hl
  obtain ⟨hchk, _, _, _, hconv, _⟩ := hc rfl
  have hmin : 0 < o.minIterations.getD (o.checkFreq.getD 1) := hv.2.2.2.2.2.2.2.2.2.2
  have hle := (isCheck_iff_mod.mp hchk).1
  have hpos : 0 < s.iter := by omega
  refine ⟨lastChk (o.minIterations.getD (o.checkFreq.getD 1)).toNat (o.checkFreq.getD 1).toNat
    r.iters, ?_, ht, ?_⟩
  · rw [hit]; exact lastChk_lt hpos
  · rw [hit]; exact hconv

end generic

end SR

end EtVerif
