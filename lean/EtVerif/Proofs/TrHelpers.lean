/-
  Small generic lemmas about the GoSem combinators shared by TrCanonTV.lean and TrDistrust.lean.
-/
import EtVerif.Proofs.TrBridge
namespace EtVerif.Tr
open EtVerif EtVerif.GoSem EtVerif.Gen Scalar
variable {α : Type} [Scalar α]
/-! ### generic helpers -/

theorem seq_next {σ ρ : Type} {a b : Stm σ ρ} {s s1 : σ} (h : a s = .ok (s1, .next)) :
    Stm.seq a b s = b s1 := by
  simp only [Stm.seq, h]

theorem ite_false {σ ρ : Type} {c : σ → R Bool} {a b : Stm σ ρ} {s : σ} (h : c s = .ok false) :
    Stm.ite c a b s = b s := by
  simp only [Stm.ite, h]

theorem goIdx_mid {β : Type} (l : List β) (i : Int) (pre : List β) (r : β) (rest : List β)
    (hl : l = pre ++ r :: rest) (hi : i = (pre.length : Int)) : goIdx l i = .ok r := by
  subst hl hi
  rw [goIdx_ofNat _ _ (by simp)]
  simp

theorem goSet_mid {β : Type} (l : List β) (i : Int) (pre : List β) (r r' : β) (rest : List β)
    (hl : l = pre ++ r :: rest) (hi : i = (pre.length : Int)) :
    goSet l i r' = .ok (pre ++ r' :: rest) := by
  subst hl hi
  rw [goSet_ofNat _ _ _ (by simp)]
  simp

theorem goFloatOfInt_natCast (n : Nat) : (goFloatOfInt ((n : Nat) : Int) : α) = Scalar.ofNat n := by
  have : ¬ ((n : Int) < 0) := by omega
  simp [goFloatOfInt, this]

theorem goMake_natCast {β : Type} (z : β) (n : Nat) : goMake z (n : Int) = .ok (List.replicate n z) := by
  have : ¬ ((n : Int) < 0) := by omega
  simp [goMake, this]

theorem modify_eq_set_of_lt {β : Type} (f : β → β) :
    ∀ (l : List β) (i : Nat) (h : i < l.length), l.modify i f = l.set i (f l[i]) := by
  intro l
  induction l with
  | nil => intro i h; simp at h
  | cons a l ih =>
    intro i h
    cases i with
    | zero => simp
    | succ i =>
      have h' : i < l.length := by simpa using h
      simp [ih i h']


end EtVerif.Tr
