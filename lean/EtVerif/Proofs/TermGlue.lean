/-
  Glue for the termination clause of C05 (Props/C05b.lean): a dense statement "some check at an
  iteration count `1 ≤ K ≤ B` succeeds" (Props/C05a.lean) makes the MODEL's `compute`, run under
  the default check schedule over ℝ, end by its exit criteria within `B` iterations.

  * `nonFinite_false`           — the `.nonFinite` exit is unreachable in exact arithmetic;
  * `isCheck_default`, `lastChk_default` — default schedule (`minI = freq = 1`): every `k ≥ 1` is a
                                  check and compares with iterate `k − 1`;
  * `convergedAt_default_iff`   — the model's verdict at check `k` is `‖F^[k] t0 − F^[k−1] t0‖₂ ≤ e`;
  * `loop_terminates`           — `computeLoop` from `initState t0`;
  * `DefaultSchedule`, `compute_terminates_of_dense` — `compute`.
-/
import EtVerif.Props.C01b
import EtVerif.Props.C05a

namespace EtVerif
open Scalar

/-- the options leave the default check schedule in force: no flat-tail requirement, no
    iteration limit (`maxIterations` unset or 0), `checkFreq` and `minIterations` unset or 1 -/
def DefaultSchedule {α : Type} (o : ComputeOpts α) : Prop :=
  o.flatTail = 0 ∧ o.maxIterations.getD 0 = 0 ∧ o.checkFreq.getD 1 = 1 ∧
    o.minIterations.getD 1 = 1

namespace TG

/-! ### exact arithmetic never produces a non-finite delta -/

section field
variable {K : Type} [Field K] [LinearOrder K]

theorem nonFinite_false (x : K) : nonFinite x = false := by
  unfold nonFinite
  simp only [s_le, s_eq, s_add, s_isZero]
  by_cases h : x = 0
  · simp [h]
  · have h2 : ¬ (x + x = x) := by
      intro h2
      apply h
      have h3 : x + x = x + 0 := by rw [add_zero]; exact h2
      exact add_left_cancel h3
    simp [h2]

end field

/-! ### the default schedule -/

theorem isCheck_default (k : Nat) (hk : 1 ≤ k) : isCheck 1 1 k = true := by
  rw [isCheck_iff_mod]; exact ⟨hk, Nat.mod_one _⟩

theorem isCheck_default_zero : isCheck 1 1 0 = false := by decide

theorem lastChk_default (k : Nat) (hk : 1 ≤ k) : lastChk 1 1 k = k - 1 := by
  rw [lastChk_of_isCheck (le_refl 1) (isCheck_default k hk)]
  split <;> omega

/-- the first `K ≥ 1` satisfying `P`, when some `K ≤ B` does -/
theorem first_of_exists (P : Nat → Prop) (B : Nat) (h : ∃ K, 1 ≤ K ∧ K ≤ B ∧ P K) :
    ∃ K, 1 ≤ K ∧ K ≤ B ∧ P K ∧ ∀ K', 1 ≤ K' → K' < K → ¬ P K' := by
  classical
  have hex : ∃ K, 1 ≤ K ∧ P K := by
    obtain ⟨K, h1, _, h3⟩ := h
    exact ⟨K, h1, h3⟩
  obtain ⟨K, h1, h2, h3⟩ := h
  refine ⟨Nat.find hex, (Nat.find_spec hex).1, ?_, (Nat.find_spec hex).2, ?_⟩
  · exact (Nat.find_min' hex ⟨h1, h3⟩).trans h2
  · intro K' hK1 hlt hP
    exact Nat.find_min hex hlt ⟨hK1, hP⟩

/-! ### over ℝ: verdicts of the model are the dense statements -/

section real
open EtVerif.Dense EtVerif.C01b

variable (n : Nat) (c : CSM ℝ) (p : Vec ℝ) (a e : ℝ)

/-- the success predicate of the dense analysis (Props/C05a.lean) at iteration count `K` -/
def DenseOK (t0 : List (Entry ℝ)) (K : Nat) : Prop :=
  l2 ((F (denseC n c) (toDense n p.entries) a)^[K] (toDense n t0)
      - (F (denseC n c) (toDense n p.entries) a)^[K - 1] (toDense n t0)) ≤ e

/-- default schedule: `Converged()` at the check after iteration `k ≥ 1` is
    `‖F^[k] t0 − F^[k−1] t0‖₂ ≤ e` -/
theorem convergedAt_default_iff (hc : Canon n c p) (he : 0 ≤ e) (t0 : List (Entry ℝ))
    (ht0 : WF n t0) (k : Nat) (hk : 1 ≤ k) :
    convergedAt c.transpose.rows (Vec.scale a p).entries (1 - a) e 1 1 t0 k = true ↔
      DenseOK n c p a e t0 k := by
  unfold convergedAt dsqAt DenseOK
  rw [lastChk_default k hk]
  have hwf := SR.wf_iterate hc.2.1 hc.2.2.2.2.2.1 hc.dist.1 a ht0
  rw [check_iff_l2 n _ _ (hwf k) (hwf (k - 1)) e he,
    iterate_refines n c hc.wfm hc.1 hc.2.1 p hc.2.2.2.2.2.1 hc.dist.1 a t0 ht0.1,
    iterate_refines n c hc.wfm hc.1 hc.2.1 p hc.2.2.2.2.2.1 hc.dist.1 a t0 ht0.1]

/-- The loop under the default schedule (`minI = freq = 1`, no limit, `flatTail = 0`), started in
    the initial state with enough fuel, ends by the criteria at the first `K ≥ 1` whose dense
    check succeeds. -/
theorem loop_terminates (hc : Canon n c p) (he : 0 < e) (nl : Nat) (t0 : List (Entry ℝ))
    (ht0 : WF n t0) (B : Nat) (hd : ∃ K, 1 ≤ K ∧ K ≤ B ∧ DenseOK n c p a e t0 K)
    (fuel : Nat) (hfuel : B < fuel) (s : LoopState ℝ) (by_ : EndedBy)
    (h : computeLoop c.transpose.rows (Vec.scale a p).entries (1 - a) e 1 1 none 0 nl fuel
      (initState t0) = (s, by_)) :
    by_ = .criteria ∧ 1 ≤ s.iter ∧ s.iter ≤ B ∧ DenseOK n c p a e t0 s.iter ∧
      ∀ K', 1 ≤ K' → K' < s.iter → ¬ DenseOK n c p a e t0 K' := by
  obtain ⟨K0, hK1, hKB, hKP, hKmin⟩ := first_of_exists _ B hd
  have hnf : ∀ k, nonFiniteAt c.transpose.rows (Vec.scale a p).entries (1 - a) 1 1 t0 k = false :=
    fun k => nonFinite_false _
  have hflat : ∀ k, flatAt c.transpose.rows (Vec.scale a p).entries (1 - a) 1 1 0 nl t0 k
      = true := by
    intro k; simp [flatAt]
  have hbefore : ∀ k, k < K0 → maxHit none k = false ∧
      stopAt c.transpose.rows (Vec.scale a p).entries (1 - a) e 1 1 0 nl t0 k = false := by
    intro k hk
    refine ⟨rfl, ?_⟩
    rcases Nat.eq_zero_or_pos k with rfl | hpos
    · simp [stopAt, isCheck_default_zero]
    · have hcv : convergedAt c.transpose.rows (Vec.scale a p).entries (1 - a) e 1 1 t0 k
          = false := by
        rw [← Bool.not_eq_true, convergedAt_default_iff n c p a e hc he.le t0 ht0 k hpos]
        exact hKmin k hpos hk
      simp [stopAt, hnf, hcv]
  have hat : stopAt c.transpose.rows (Vec.scale a p).entries (1 - a) e 1 1 0 nl t0 K0 = true := by
    have hcv := (convergedAt_default_iff n c p a e hc he.le t0 ht0 K0 hK1).mpr hKP
    simp [stopAt, isCheck_default K0 hK1, hnf, hcv, hflat]
  obtain ⟨hi, hnof, hmx⟩ := loop_first _ _ _ _ _ _ _ _ _ fuel t0 K0 (by omega) hbefore
    (Or.inr hat) s by_ h
  obtain ⟨_, _, _, _, _, _, hnfs, _⟩ := loop_spec _ _ _ _ _ _ _ _ _ fuel t0 s by_ h
  have hby : by_ = .criteria := by
    cases by_ with
    | criteria => rfl
    | outOfFuel => exact absurd rfl hnof
    | maxIterations =>
      have := hmx.mp rfl
      simp [maxHit] at this
    | nonFinite =>
      have := (hnfs rfl).2.2.2.1
      rw [hnf] at this
      cases this
  rw [hi]
  exact ⟨hby, hK1, hKB, hKP, hKmin⟩

/-- `compute` under the default schedule, canonical inputs, `0 ≤ a ≤ 1`, `0 < e`: if the dense
    analysis provides a successful check at some `1 ≤ K ≤ B`, then for every fuel `> B` the
    call succeeds, ends by its criteria, and its iteration count is the first such `K`. -/
theorem compute_terminates_of_dense (hn : 1 ≤ n) (o : ComputeOpts ℝ) (hc : Canon n c p)
    (ha0 : 0 ≤ a) (ha1 : a ≤ 1) (he : 0 < e) (hs : DefaultSchedule o)
    (ht0 : ∀ t0, o.t0 = some t0 → t0.dim = n ∧ WF n t0.entries)
    (hrd : ∀ d, o.resultDim = some d → d = n) (B : Nat)
    (hd : ∃ K, 1 ≤ K ∧ K ≤ B ∧ DenseOK n c p a e (o.t0.getD p).entries K)
    (fuel : Nat) (hfuel : B < fuel) :
    ∃ r, compute fuel c p a e o = .ok r ∧ r.endedBy = .criteria ∧ 1 ≤ r.iters ∧ r.iters ≤ B ∧
      DenseOK n c p a e (o.t0.getD p).entries r.iters ∧
      ∀ K', 1 ≤ K' → K' < r.iters → ¬ DenseOK n c p a e (o.t0.getD p).entries K' := by
  obtain ⟨h1, h2, h3, h4⟩ := hs
  have hv : ValidInput c p a e o := by
    refine ⟨by rw [hc.1, hc.2.1], by rw [hc.1]; omega, by rw [hc.1]; exact hc.2.2.2.2.2.1,
      fun t0 h => by rw [hc.1]; exact (ht0 t0 h).1, fun d h => by rw [hc.1]; exact hrd d h,
      ?_, ?_, ?_, by rw [h3], by rw [h2], by rw [h3, h4]; decide⟩
    · simpa using ha0
    · simpa using ha1
    · simpa using he
  have hstart : WF n (o.t0.getD p).entries := by
    cases h0 : o.t0 with
    | none => exact hc.dist.1
    | some t0 => exact (ht0 t0 h0).2
  cases hl : loopOf fuel c p a e o with
  | mk s by_ =>
    have hl' : computeLoop c.transpose.rows (Vec.scale a p).entries (1 - a) e 1 1 none 0
        (if o.numLeaders = 0 then c.major else o.numLeaders) fuel
        (initState (o.t0.getD p).entries) = (s, by_) := by
      have := hl
      unfold loopOf at this
      rw [h3, h4, h2, h1] at this
      exact this
    obtain ⟨hby, r1, r2, r3, r4⟩ := loop_terminates n c p a e hc he _ _ hstart B hd fuel hfuel
      s by_ hl'
    subst hby
    exact ⟨_, compute_ok_of_loop fuel c p a e o hv s _ hl (by decide), rfl, r1, r2, r3, r4⟩

end real

end TG

end EtVerif
