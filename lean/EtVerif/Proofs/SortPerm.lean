/-
  Sorting / permutation lemmas used by the MulVec goroutine model (C06, C07).

  * `IsSortFn sortFn`  : `sortFn` returns a permutation of its input that is sorted by the first
                         component (all that is assumed about Go's `sort.Sort(EntriesByIndex …)`).
  * `seqList`          : the sequential row-by-row product list (tagged pairs, zero products dropped).
  * `sorted_perm_unique`, `sortFn_eq_seqList` : uniqueness of the sorted permutation of a list with
                         pairwise distinct keys.
  * `isortFst`         : an insertion sort satisfying `IsSortFn` (the hypothesis is satisfiable), and
                         `sortByIdxPairs` : the model's `sortByIdx` transported to pairs satisfies it too.
  * `mulVecEntries_eq_seqList` : `seqList` is the model's `mulVecEntries`.
-/
import EtVerif.Model.Sparse
import Mathlib.Data.List.Perm.Basic
import Mathlib.Logic.Relation

namespace EtVerif.MulVecConc

variable {β : Type}

/-- key order on tagged pairs -/
abbrev KeyLE (a b : Nat × β) : Prop := a.1 ≤ b.1
abbrev KeyLT (a b : Nat × β) : Prop := a.1 < b.1

/-- What is assumed about `sort.Sort(EntriesByIndex(·))`: *some* sorted permutation. -/
def IsSortFn (sortFn : List (Nat × β) → List (Nat × β)) : Prop :=
  ∀ l, (sortFn l).Perm l ∧ (sortFn l).Pairwise KeyLE

/-- row `r` tagged with its product -/
def tag (prod : Nat → β) (r : Nat) : Nat × β := (r, prod r)

/-- all rows `0 … dim-1`, tagged, in index order (zero products kept) -/
def fullList (dim : Nat) (prod : Nat → β) : List (Nat × β) := (List.range dim).map (tag prod)

/-- The sequential product: rows in index order, zero products dropped. -/
def seqList (dim : Nat) (prod : Nat → β) (isZ : β → Bool) : List (Nat × β) :=
  (fullList dim prod).filter (fun x => !isZ x.2)

theorem fullList_pairwise (dim : Nat) (prod : Nat → β) : (fullList dim prod).Pairwise KeyLT := by
  unfold fullList
  rw [List.pairwise_map]
  exact List.pairwise_lt_range

theorem seqList_pairwise (dim : Nat) (prod : Nat → β) (isZ : β → Bool) :
    (seqList dim prod isZ).Pairwise KeyLT :=
  (fullList_pairwise dim prod).sublist List.filter_sublist

theorem seqList_eq_map_filter (dim : Nat) (prod : Nat → β) (isZ : β → Bool) :
    seqList dim prod isZ = ((List.range dim).filter (fun r => !isZ (prod r))).map (tag prod) := by
  unfold seqList fullList
  rw [List.filter_map]
  rfl

/-- A `≤`-sorted permutation of a strictly sorted list is that list. -/
theorem sorted_perm_unique {l₁ l₂ : List (Nat × β)} (hp : l₁.Perm l₂)
    (h1 : l₁.Pairwise KeyLE) (h2 : l₂.Pairwise KeyLT) : l₁ = l₂ := by
  -- keys of l₁ are pairwise distinct, because they are in l₂
  have hne2 : l₂.Pairwise (fun a b => a.1 ≠ b.1) := h2.imp (fun h => Nat.ne_of_lt h)
  have hne1 : l₁.Pairwise (fun a b => a.1 ≠ b.1) :=
    hne2.perm hp.symm (fun h => fun e => h e.symm)
  have h1' : l₁.Pairwise KeyLT :=
    (h1.and hne1).imp (fun h => Nat.lt_of_le_of_ne h.1 h.2)
  refine List.Perm.eq_of_pairwise (le := KeyLT) ?_ h1' h2 hp
  intro a b _ _ hab hba
  exact absurd hab (Nat.lt_asymm hba)

/-- Item 1 of C06: whatever the arrival order, sorting yields the sequential product. -/
theorem sortFn_eq_seqList {sortFn : List (Nat × β) → List (Nat × β)} (hs : IsSortFn sortFn)
    (dim : Nat) (prod : Nat → β) (isZ : β → Bool) (arr : List (Nat × β))
    (harr : arr.Perm (seqList dim prod isZ)) : sortFn arr = seqList dim prod isZ :=
  sorted_perm_unique ((hs arr).1.trans harr) (hs arr).2 (seqList_pairwise dim prod isZ)

/-- filtering before or after permuting is the same thing -/
theorem perm_filter_of_perm_full {dim : Nat} {prod : Nat → β} (isZ : β → Bool)
    {arr : List (Nat × β)} (h : arr.Perm (fullList dim prod)) :
    (arr.filter (fun x => !isZ x.2)).Perm (seqList dim prod isZ) :=
  h.filter _

theorem IsSortFn.nil {sortFn : List (Nat × β) → List (Nat × β)} (hs : IsSortFn sortFn) :
    sortFn [] = [] := List.perm_nil.mp (hs []).1

/-! ### an insertion sort: the hypothesis `IsSortFn` is satisfiable -/

def insertFst (x : Nat × β) : List (Nat × β) → List (Nat × β)
  | [] => [x]
  | y :: ys => if x.1 < y.1 then x :: y :: ys else y :: insertFst x ys

def isortFst (l : List (Nat × β)) : List (Nat × β) := l.foldr insertFst []

theorem insertFst_perm (x : Nat × β) (l : List (Nat × β)) : (insertFst x l).Perm (x :: l) := by
  induction l with
  | nil => exact List.Perm.refl _
  | cons y ys ih =>
    unfold insertFst
    split
    · exact List.Perm.refl _
    · exact (List.Perm.cons y ih).trans (List.Perm.swap x y ys)

theorem insertFst_sorted (x : Nat × β) (l : List (Nat × β)) (h : l.Pairwise KeyLE) :
    (insertFst x l).Pairwise KeyLE := by
  induction l with
  | nil => simp [insertFst]
  | cons y ys ih =>
    have hy := List.pairwise_cons.mp h
    unfold insertFst
    split
    · rename_i hlt
      refine List.pairwise_cons.mpr ⟨?_, h⟩
      intro z hz
      rcases List.mem_cons.mp hz with rfl | hz
      · exact Nat.le_of_lt hlt
      · exact Nat.le_trans (Nat.le_of_lt hlt) (hy.1 z hz)
    · rename_i hnlt
      refine List.pairwise_cons.mpr ⟨?_, ih hy.2⟩
      intro z hz
      have hz' := (insertFst_perm x ys).subset hz
      rcases List.mem_cons.mp hz' with rfl | hz'
      · exact Nat.le_of_not_lt hnlt
      · exact hy.1 z hz'

theorem isortFst_isSortFn : IsSortFn (isortFst (β := β)) := by
  intro l
  induction l with
  | nil => exact ⟨List.Perm.refl _, List.Pairwise.nil⟩
  | cons x xs ih =>
    refine ⟨?_, ?_⟩
    · exact (insertFst_perm x (isortFst xs)).trans (List.Perm.cons x ih.1)
    · exact insertFst_sorted x (isortFst xs) ih.2

/-! ### correspondence with the model (`Entry α` lists, `sortByIdx`, `mulVecEntries`) -/

section Model
open EtVerif Scalar
variable {α : Type}

/-- a tagged pair as a `sparse.Entry` -/
def toEntry (p : Nat × α) : Entry α := ⟨p.1, p.2⟩
/-- a `sparse.Entry` as a tagged pair -/
def ofEntry (e : Entry α) : Nat × α := (e.idx, e.val)

@[simp] theorem ofEntry_toEntry (p : Nat × α) : ofEntry (toEntry p) = p := rfl
@[simp] theorem toEntry_ofEntry (e : Entry α) : toEntry (ofEntry e) = e := rfl

theorem map_ofEntry_map_toEntry (l : List (Nat × α)) : (l.map toEntry).map ofEntry = l := by
  simp [List.map_map, Function.comp_def]

theorem map_toEntry_map_ofEntry (l : List (Entry α)) : (l.map ofEntry).map toEntry = l := by
  simp [List.map_map, Function.comp_def]

/-- the model's `insertByIdx` is `insertFst` on pairs -/
theorem insertByIdx_map (x : Nat × α) (l : List (Nat × α)) :
    insertByIdx (toEntry x) (l.map toEntry) = (insertFst x l).map toEntry := by
  induction l with
  | nil => rfl
  | cons y ys ih =>
    simp only [List.map_cons, insertByIdx, insertFst]
    by_cases h : x.1 < y.1
    · have h' : (toEntry x).idx < (toEntry y).idx := h
      simp [h, h']
    · have h' : ¬ (toEntry x).idx < (toEntry y).idx := h
      simp [h, h', ih]

/-- the model's `sortByIdx` is `isortFst` on pairs -/
theorem sortByIdx_map (l : List (Nat × α)) :
    sortByIdx (l.map toEntry) = (isortFst l).map toEntry := by
  induction l with
  | nil => rfl
  | cons x xs ih =>
    show insertByIdx (toEntry x) (sortByIdx (xs.map toEntry)) = _
    rw [ih, insertByIdx_map]
    rfl

/-- `sort.Sort(EntriesByIndex …)` of the model, on tagged pairs. -/
def sortByIdxPairs (l : List (Nat × α)) : List (Nat × α) := (sortByIdx (l.map toEntry)).map ofEntry

theorem sortByIdxPairs_eq : sortByIdxPairs (α := α) = isortFst := by
  funext l
  unfold sortByIdxPairs
  rw [sortByIdx_map, map_ofEntry_map_toEntry]

/-- the executable model's sort satisfies the hypothesis of the concurrency theorems -/
theorem sortByIdxPairs_isSortFn : IsSortFn (sortByIdxPairs (α := α)) := by
  rw [sortByIdxPairs_eq]; exact isortFst_isSortFn

variable [Scalar α]

/-- the product a worker computes for row `r`: ONE sequential `VecDot(m.RowVector(r), v1)` -/
def rowProd (rows : List (Row α)) (v : List (Entry α)) (r : Nat) : α := vecDot (rows.getD r []) v

omit [Scalar α] in
theorem zipIdx_eq_map_range (rows : List (Row α)) :
    rows.zipIdx = (List.range rows.length).map (fun i => (rows.getD i [], i)) := by
  apply List.ext_getElem
  · simp
  · intro i h1 h2
    simp at h1
    simp [List.getD_eq_getElem?_getD, h1]

/-- Exact correspondence: the tagged sequential list IS the model's `mulVecEntries`
    (for `dim = rows.length`, which `CSM.wf` + `CSM.dim` guarantee). -/
theorem mulVecEntries_eq_seqList (rows : List (Row α)) (v : List (Entry α)) :
    mulVecEntries rows v =
      (seqList rows.length (rowProd rows v) (fun x => isZero x)).map toEntry := by
  unfold mulVecEntries
  rw [zipIdx_eq_map_range, seqList_eq_map_filter, List.filterMap_map, List.map_map,
    ← List.filterMap_eq_map, ← List.filterMap_eq_filter, List.filterMap_filterMap]
  congr 1
  funext r
  simp only [Function.comp_def, rowProd, tag, toEntry]
  cases h : isZero (vecDot (rows.getD r []) v) <;>
    rw [List.getD_eq_getElem?_getD] at h <;> simp [Option.guard, h]

/-- the same, read from pairs to entries -/
theorem seqList_eq_mulVecEntries (rows : List (Row α)) (v : List (Entry α)) :
    seqList rows.length (rowProd rows v) (fun x => isZero x) =
      (mulVecEntries rows v).map ofEntry := by
  rw [mulVecEntries_eq_seqList, map_ofEntry_map_toEntry]

end Model

end EtVerif.MulVecConc
