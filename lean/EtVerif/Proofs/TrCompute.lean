/-
  Refinement of the translated `basic.Compute` (Gen/Translated.lean, regenerated from /repo) to the
  hand-written model `compute` (Model/Basic.lean).

  Main results:
  * `Compute_loop`       — the Go loop follows `computeLoop` (induction on the fuel, one turn = `loop_turn`);
  * `Compute_body_elim`  — case analysis of the body: every statement before the loop executed symbolically
                           (refusal at `c.Dim()`, refusal at a validation, or loop + epilogue from a `CStart` state);
  * `Compute_schedule`, `Compute_default_schedule` — (C) the schedule computed by the prefix;
  * `Compute_refines_ok_partial`  — (A) a properly ended run of the model is computed exactly (extra hypothesis
                                    `fuel < 2^63-1`: Go's "unlimited" is `math.MaxInt`, the model's is `none`);
  * `Compute_refines_err_partial` — (B) when the model refuses, Go returns `nil, err` and never panics.
-/
import EtVerif.Proofs.TrDiscount
import EtVerif.Proofs.TrMatSmall
import EtVerif.Proofs.TrTranspose
import EtVerif.Proofs.TrVecSmall
import EtVerif.Proofs.TrFlatTail
import EtVerif.Proofs.TrComputeBridge
namespace EtVerif.Tr
open EtVerif EtVerif.GoSem EtVerif.Gen Scalar
variable {α : Type} [Scalar α]
set_option linter.unusedSectionVars false

/-! ### small facts about the model -/

theorem map_map_entryOfG (rows : List (Row α)) :
    (rows.map toGs).map (fun r => r.map entryOfG) = rows := by
  induction rows with
  | nil => rfl
  | cons r rows ih => simp only [List.map_cons, map_entryOfG_toGs, ih]

theorem mulVecEntries_length_le (rows : List (Row α)) (v : List (Entry α)) :
    (mulVecEntries rows v).length ≤ rows.length := by
  have := List.length_filterMap_le
    (fun (x : Row α × Nat) => if isZero (vecDot x.1 v) then none else some (⟨x.2, vecDot x.1 v⟩ : Entry α))
    rows.zipIdx
  simpa [mulVecEntries] using this

theorem addEntries_ne_nil (x ap : List (Entry α)) (h : ap ≠ []) : addEntries x ap ≠ [] := by
  cases x with
  | nil => simpa [addEntries] using h
  | cons a x =>
    cases ap with
    | nil => exact absurd rfl h
    | cons b ap =>
      rw [addEntries]
      split
      · simp
      · split <;> simp

theorem stepEntries_ne_nil (ct : List (Row α)) (ap : List (Entry α)) (x : α) (t : List (Entry α))
    (h : ap ≠ []) : stepEntries ct ap x t ≠ [] :=
  addEntries_ne_nil _ _ h

theorem foldl_scatterRow_length (rows : List (Row α × Nat)) :
    ∀ (t : List (Row α)), (rows.foldl (fun t (p : Row α × Nat) => scatterRow t p.2 p.1) t).length = t.length := by
  induction rows with
  | nil => intro t; rfl
  | cons r rows ih => intro t; rw [List.foldl_cons, ih, scatterRow_length]

theorem transpose_rows_length (c : CSM α) : c.transpose.rows.length = c.minor := by
  simp only [CSM.transpose]
  rw [foldl_scatterRow_length]
  simp

theorem scale_entries_eq (x : α) (n : Nat) (es : List (Entry α)) :
    (Vec.scale x ⟨n, es⟩).entries = if isZero x then [] else scaleEntries x es := by
  simp only [Vec.scale]
  split <;> rfl

/-! ### the three calls of one power iteration -/

/-- `MulVec`, `ScaleVec`, `AddVec` of one iteration compute the model's `stepEntries`. -/
theorem step_calls (capO : Nat → Int) (fuel : Nat) (n : Nat) (ct : CSM α) (t ap : List (Entry α)) (a : α)
    (hmaj : ct.major = n) (hmin : ct.minor = n) (hlen : ct.rows.length + ap.length ≤ fuel) :
    ∃ (r1 : Vector_MulVec.St α × Option GoError) (r2 : Vector_ScaleVec.St α × Unit)
      (r3 : Vector_AddVec.St α × Option GoError),
      Gen.Vector_MulVec (toGV ⟨n, t⟩) (toGM ct) (toGV ⟨n, t⟩) = .ok r1 ∧ r1.2 = none ∧
      Gen.Vector_ScaleVec r1.1.v (Scalar.sub (Scalar.one : α) a) r1.1.v true = .ok r2 ∧
      Gen.Vector_AddVec capO fuel r2.1.v r2.1.v (toGV ⟨n, ap⟩) = .ok r3 ∧ r3.2 = none ∧
      r3.1.v = toGV ⟨n, stepEntries ct.rows ap (Scalar.sub (Scalar.one : α) a) t⟩ := by
  subst hmaj
  have h1 : Gen.Vector_MulVec (toGV ⟨ct.major, t⟩) (toGM ct) (toGV ⟨ct.major, t⟩) =
      .ok (⟨toGV ⟨ct.major, mulVecEntries ct.rows t⟩⟩, none) := by
    have hne : ¬ ((ct.major : Int) ≠ (ct.minor : Int)) := by omega
    simp only [Gen.Vector_MulVec, toGM_MajorDim, toGM_MinorDim, hne, if_false, toGV_Dim, ne_eq,
      not_true_eq_false, toGM_Entries, toGV_Entries, map_map_entryOfG, map_entryOfG_toGs, map_entryToG]
    rfl
  obtain ⟨r2, h2, h2v⟩ := map_eq_ok (Vector_ScaleVec_refines
    (toGV ⟨ct.major, mulVecEntries ct.rows t⟩) (Scalar.sub (Scalar.one : α) a)
    ⟨ct.major, mulVecEntries ct.rows t⟩ true (fun _ => rfl))
  have hl1 := scale_entries_length_le (Scalar.sub (Scalar.one : α) a)
    (⟨ct.major, mulVecEntries ct.rows t⟩ : Vec α)
  have hl2 := mulVecEntries_length_le ct.rows t
  have h3 := Vector_AddVec_refines capO fuel r2.1.v
    (Vec.scale (Scalar.sub (Scalar.one : α) a) ⟨ct.major, mulVecEntries ct.rows t⟩) ⟨ct.major, ap⟩
    (by simp only at hl1 ⊢; omega)
  simp only [Vec.addVec, scale_dim, ne_eq, not_true_eq_false, if_false] at h3
  obtain ⟨r3, h3, h3v⟩ := map_eq_ok h3
  simp only [Prod.mk.injEq] at h3v
  refine ⟨_, r2, r3, h1, rfl, h2, ?_, h3v.2, ?_⟩
  · rw [← h2v] at h3; exact h3
  · rw [h3v.1, stepEntries, scale_entries_eq]

/-! ### one iteration of the loop body, the calls abstracted by their results -/

/-- not a check iteration: only the power step. -/
theorem body_nocheck_generic (capO : Nat → Int) (fuel : Nat) (s : Compute.St α)
    (hnc : Int.tmod (s.iter - s.minIters) s.checkFreq = 0 → ¬ (s.iter ≥ s.minIters))
    (r1 : Vector_MulVec.St α × Option GoError) (r2 : Vector_ScaleVec.St α × Unit)
    (r3 : Vector_AddVec.St α × Option GoError)
    (h1 : Gen.Vector_MulVec s.t1 s.ct s.t1 = .ok r1) (h1e : r1.2 = none)
    (h2 : Gen.Vector_ScaleVec r1.1.v (Scalar.sub (Scalar.one : α) s.a) r1.1.v true = .ok r2)
    (h3 : Gen.Vector_AddVec capO fuel r2.1.v r2.1.v s.ap = .ok r3) (h3e : r3.2 = none) :
    Compute.loop1_body capO fuel s = .ok ({ s with t1 := r3.1.v, err := none }, .next) := by
  by_cases hm : Int.tmod (s.iter - s.minIters) s.checkFreq = 0
  · have hge := hnc hm
    simp only [Compute.loop1_body, Stm.seq, Stm.ite, Stm.set, Stm.skip, pure, Except.pure, bind,
      Except.bind, hm, hge, decide_true, decide_false, h1, h1e, h2, h3, h3e, Option.isNone_none, Bool.not_true]
  · simp only [Compute.loop1_body, Stm.seq, Stm.ite, Stm.set, Stm.skip, pure, Except.pure, bind,
      Except.bind, hm, decide_false, h1, h1e, h2, h3, h3e, Option.isNone_none, Bool.not_true]

/-- a check iteration whose delta is not finite: `return nil, err`. -/
theorem body_nonfinite_generic (capO : Nat → Int) (fuel : Nat) (s : Compute.St α)
    (hm : Int.tmod (s.iter - s.minIters) s.checkFreq = 0) (hge : s.iter ≥ s.minIters)
    (hnf : nonFinite (s.convChecker.c.update (s.t1.Entries.map entryOfG)).dsq = true) :
    ∃ s' msg, Compute.loop1_body capO fuel s = .ok (s', .ret (GVector.zero, some msg)) := by
  exact ⟨_, _, by
    simp only [Compute.loop1_body, Stm.seq, Stm.ite, Stm.set, Stm.ret, pure, Except.pure, bind,
      Except.bind, hm, hge, decide_true, Gen.ConvergenceChecker_Update, hnf, if_true, Option.isNone_some,
      Bool.not_false]
    rfl⟩

/-- a check iteration that meets the exit criteria: `break`. -/
theorem body_break_generic (capO : Nat → Int) (fuel : Nat) (s : Compute.St α)
    (hm : Int.tmod (s.iter - s.minIters) s.checkFreq = 0) (hge : s.iter ≥ s.minIters)
    (hnf : nonFinite (s.convChecker.c.update (s.t1.Entries.map entryOfG)).dsq = false)
    (rf : FlatTailChecker_Update.St α × Unit) (rr : FlatTailChecker_Reached.St α × Bool)
    (hf : Gen.FlatTailChecker_Update s.flatTailChecker s.t1
      (s.convChecker.c.update (s.t1.Entries.map entryOfG)).dsq = .ok rf)
    (hsq : Scalar.sqrtLe (s.convChecker.c.update (s.t1.Entries.map entryOfG)).dsq s.convChecker.e = true)
    (hr : Gen.FlatTailChecker_Reached rf.1.c = .ok rr) (hrr : rr.2 = true) :
    Compute.loop1_body capO fuel s =
      .ok ({ s with convChecker := { s.convChecker with
                      c := s.convChecker.c.update (s.t1.Entries.map entryOfG) },
                    err := none, flatTailChecker := rf.1.c }, .brk 1) := by
  simp only [Compute.loop1_body, Stm.seq, Stm.ite, Stm.set, Stm.skip, Stm.brk, pure, Except.pure, bind,
    Except.bind, hm, hge, decide_true, Gen.ConvergenceChecker_Update, Gen.ConvergenceChecker_Delta,
    Gen.ConvergenceChecker_Converged, hnf, if_false, Bool.false_eq_true, Option.isNone_none, Bool.not_true,
    hf, hsq, if_true, hr, hrr]

/-- a check iteration that goes on: the checkers are updated, then the power step. -/
theorem body_check_generic (capO : Nat → Int) (fuel : Nat) (s : Compute.St α)
    (hm : Int.tmod (s.iter - s.minIters) s.checkFreq = 0) (hge : s.iter ≥ s.minIters)
    (hnf : nonFinite (s.convChecker.c.update (s.t1.Entries.map entryOfG)).dsq = false)
    (rf : FlatTailChecker_Update.St α × Unit)
    (hf : Gen.FlatTailChecker_Update s.flatTailChecker s.t1
      (s.convChecker.c.update (s.t1.Entries.map entryOfG)).dsq = .ok rf)
    (hgo : Scalar.sqrtLe (s.convChecker.c.update (s.t1.Entries.map entryOfG)).dsq s.convChecker.e = true →
      ∃ rr, Gen.FlatTailChecker_Reached rf.1.c = .ok rr ∧ rr.2 = false)
    (r1 : Vector_MulVec.St α × Option GoError) (r2 : Vector_ScaleVec.St α × Unit)
    (r3 : Vector_AddVec.St α × Option GoError)
    (h1 : Gen.Vector_MulVec s.t1 s.ct s.t1 = .ok r1) (h1e : r1.2 = none)
    (h2 : Gen.Vector_ScaleVec r1.1.v (Scalar.sub (Scalar.one : α) s.a) r1.1.v true = .ok r2)
    (h3 : Gen.Vector_AddVec capO fuel r2.1.v r2.1.v s.ap = .ok r3) (h3e : r3.2 = none) :
    Compute.loop1_body capO fuel s =
      .ok ({ s with convChecker := { s.convChecker with
                      c := s.convChecker.c.update (s.t1.Entries.map entryOfG) },
                    err := none, flatTailChecker := rf.1.c, t1 := r3.1.v }, .next) := by
  cases hsq : Scalar.sqrtLe (s.convChecker.c.update (s.t1.Entries.map entryOfG)).dsq s.convChecker.e with
  | false =>
    simp only [Compute.loop1_body, Stm.seq, Stm.ite, Stm.set, Stm.skip, pure, Except.pure, bind,
      Except.bind, hm, hge, decide_true, Gen.ConvergenceChecker_Update, Gen.ConvergenceChecker_Delta,
      Gen.ConvergenceChecker_Converged, hnf, if_false, Bool.false_eq_true, Option.isNone_none, Bool.not_true,
      hf, hsq, h1, h1e, h2, h3, h3e]
  | true =>
    obtain ⟨rr, hr, hrr⟩ := hgo hsq
    simp only [Compute.loop1_body, Stm.seq, Stm.ite, Stm.set, Stm.skip, pure, Except.pure, bind,
      Except.bind, hm, hge, decide_true, Gen.ConvergenceChecker_Update, Gen.ConvergenceChecker_Delta,
      Gen.ConvergenceChecker_Converged, hnf, if_false, Bool.false_eq_true, Option.isNone_none, Bool.not_true,
      hf, hsq, if_true, hr, hrr, h1, h1e, h2, h3, h3e]

/-! ### the check schedule: Go's `(iter-minIters)%checkFreq == 0` then `iter >= minIters` vs `isCheck` -/

theorem isCheck_true (minI freq iter : Nat) (h : isCheck minI freq iter = true) :
    Int.tmod ((iter : Int) - (minI : Int)) (freq : Int) = 0 ∧ (iter : Int) ≥ (minI : Int) := by
  simp only [isCheck, Bool.and_eq_true, decide_eq_true_eq, beq_iff_eq] at h
  obtain ⟨h1, h2⟩ := h
  have e : (iter : Int) - (minI : Int) = ((iter - minI : Nat) : Int) := by omega
  refine ⟨?_, by omega⟩
  rw [e, ← Int.ofNat_tmod, h2]
  rfl

theorem isCheck_false (minI freq iter : Nat) (h : isCheck minI freq iter = false) :
    Int.tmod ((iter : Int) - (minI : Int)) (freq : Int) = 0 → ¬ ((iter : Int) ≥ (minI : Int)) := by
  intro hm hge
  have h1 : iter ≥ minI := by omega
  have e : (iter : Int) - (minI : Int) = ((iter - minI : Nat) : Int) := by omega
  rw [e, ← Int.ofNat_tmod] at hm
  have h2 : (iter - minI) % freq = 0 := by exact_mod_cast hm
  simp [isCheck, h1, h2] at h

/-! ### the loop invariant -/

/-- the Go state inside the loop: the constants prepared by the prefix, and the loop-variant fields tied to
    the model's `LoopState`. -/
structure CInv (n : Nat) (ct : CSM α) (ap : List (Entry α)) (a e : α) (freq minI : Nat) (M : Int)
    (fl nl : Nat) (s : Compute.St α) (ls : LoopState α) : Prop where
  t1 : s.t1 = toGV ⟨n, ls.t1⟩
  conv : s.convChecker = ⟨ls.conv, e⟩
  ftc : s.flatTailChecker = ⟨(fl : Int), (nl : Int), some (toGStats ls.stats)⟩
  iter : s.iter = (ls.iter : Int)
  err : s.err = none
  ct : s.ct = toGM ct
  ap : s.ap = toGV ⟨n, ap⟩
  a : s.a = a
  checkFreq : s.checkFreq = (freq : Int)
  minIters : s.minIters = (minI : Int)
  maxIters : s.maxIters = M

/-- the Go state with its loop-variant fields set from a model `LoopState`. -/
def upd (n : Nat) (e : α) (fl nl : Nat) (s : Compute.St α) (ls : LoopState α) : Compute.St α :=
  { s with t1 := toGV ⟨n, ls.t1⟩, convChecker := ⟨ls.conv, e⟩,
           flatTailChecker := ⟨(fl : Int), (nl : Int), some (toGStats ls.stats)⟩,
           iter := (ls.iter : Int), err := none }

theorem upd_inv {n : Nat} {ct : CSM α} {ap : List (Entry α)} {a e : α} {freq minI : Nat} {M : Int}
    {fl nl : Nat} {s : Compute.St α} {ls : LoopState α} (h : CInv n ct ap a e freq minI M fl nl s ls)
    (ls' : LoopState α) : CInv n ct ap a e freq minI M fl nl (upd n e fl nl s ls') ls' :=
  ⟨rfl, rfl, rfl, rfl, rfl, h.ct, h.ap, h.a, h.checkFreq, h.minIters, h.maxIters⟩

theorem upd_self {n : Nat} {ct : CSM α} {ap : List (Entry α)} {a e : α} {freq minI : Nat} {M : Int}
    {fl nl : Nat} {s : Compute.St α} {ls : LoopState α} (h : CInv n ct ap a e freq minI M fl nl s ls) :
    upd n e fl nl s ls = s := by
  obtain ⟨h1, h2, h3, h4, h5, _, _, _, _, _, _⟩ := h
  cases s
  simp only at h1 h2 h3 h4 h5
  subst h1 h2 h3 h4 h5
  rfl

/-! ### one iteration under the invariant, following `computeLoop` -/

section iter
variable (capO : Nat → Int) (fuel : Nat) {n : Nat} {ct : CSM α} {ap : List (Entry α)} {a e : α}
  {freq minI : Nat} {M : Int} {fl nl : Nat} {s : Compute.St α} {ls : LoopState α}

theorem iter_nocheck (h : CInv n ct ap a e freq minI M fl nl s ls)
    (hmaj : ct.major = n) (hmin : ct.minor = n) (hlen : ct.rows.length + ap.length ≤ fuel)
    (hck : isCheck minI freq ls.iter = false) :
    Compute.loop1_body capO fuel s =
      .ok (upd n e fl nl s
        { ls with t1 := stepEntries ct.rows ap (Scalar.sub (Scalar.one : α) a) ls.t1 }, .next) := by
  obtain ⟨r1, r2, r3, h1, h1e, h2, h3, h3e, h3v⟩ := step_calls capO fuel n ct ls.t1 ap a hmaj hmin hlen
  have hb := body_nocheck_generic capO fuel s
    (by rw [h.iter, h.minIters, h.checkFreq]; exact isCheck_false _ _ _ hck) r1 r2 r3
    (by rw [h.t1, h.ct]; exact h1) h1e (by rw [h.a]; exact h2) (by rw [h.ap]; exact h3) h3e
  rw [hb, h3v]
  obtain ⟨g1, g2, g3, g4, g5, _, _, _, _, _, _⟩ := h
  cases s
  simp only at g1 g2 g3 g4 g5
  subst g1 g2 g3 g4 g5
  rfl

theorem iter_nonfinite (h : CInv n ct ap a e freq minI M fl nl s ls)
    (hck : isCheck minI freq ls.iter = true)
    (hnf : nonFinite (ls.conv.update ls.t1).dsq = true) :
    ∃ s' msg, Compute.loop1_body capO fuel s = .ok (s', .ret (GVector.zero, some msg)) := by
  obtain ⟨hm, hge⟩ := isCheck_true _ _ _ hck
  have hE : s.t1.Entries.map entryOfG = ls.t1 := by rw [h.t1]; exact map_entryOfG_toGs _
  have hC : s.convChecker.c = ls.conv := by rw [h.conv]
  exact body_nonfinite_generic capO fuel s (by rw [h.iter, h.minIters, h.checkFreq]; exact hm)
    (by rw [h.iter, h.minIters]; exact hge) (by rw [hE, hC]; exact hnf)

theorem iter_break (h : CInv n ct ap a e freq minI M fl nl s ls)
    (hne : ls.t1 ≠ []) (hnl : 0 < nl)
    (hck : isCheck minI freq ls.iter = true)
    (hnf : nonFinite (ls.conv.update ls.t1).dsq = false)
    (hsq : Scalar.sqrtLe (ls.conv.update ls.t1).dsq e = true)
    (hreach : (ls.stats.update (rankOf ls.t1 nl) (ls.conv.update ls.t1).dsq).length ≥ fl)
    (checks : List Nat) :
    Compute.loop1_body capO fuel s =
      .ok (upd n e fl nl s
        { ls with conv := ls.conv.update ls.t1,
                  stats := ls.stats.update (rankOf ls.t1 nl) (ls.conv.update ls.t1).dsq,
                  checks := checks }, .brk 1) := by
  obtain ⟨hm, hge⟩ := isCheck_true _ _ _ hck
  have hE : s.t1.Entries.map entryOfG = ls.t1 := by rw [h.t1]; exact map_entryOfG_toGs _
  have hC : s.convChecker.c = ls.conv := by rw [h.conv]
  have hCe : s.convChecker.e = e := by rw [h.conv]
  obtain ⟨rf, hf, hfv⟩ := map_eq_ok (FlatTailChecker_Update_refines (fl : Int) nl ls.stats ⟨n, ls.t1⟩
    (ls.conv.update ls.t1).dsq hne hnl)
  obtain ⟨rr, hr, hrv⟩ := map_eq_ok (FlatTailChecker_Reached_refines fl (nl : Int)
    (ls.stats.update (rankOf ls.t1 nl) (ls.conv.update ls.t1).dsq))
  have hb := body_break_generic capO fuel s (by rw [h.iter, h.minIters, h.checkFreq]; exact hm)
    (by rw [h.iter, h.minIters]; exact hge) (by rw [hE, hC]; exact hnf) rf rr
    (by rw [hE, hC, h.ftc, h.t1]; exact hf) (by rw [hE, hC, hCe]; exact hsq)
    (by rw [hfv]; exact hr) (by rw [hrv]; exact decide_eq_true hreach)
  rw [hb, hE, hC, hfv]
  obtain ⟨g1, g2, g3, g4, g5, _, _, _, _, _, _⟩ := h
  cases s
  simp only at g1 g2 g3 g4 g5
  subst g1 g2 g3 g4 g5
  rfl

theorem iter_check (h : CInv n ct ap a e freq minI M fl nl s ls)
    (hmaj : ct.major = n) (hmin : ct.minor = n) (hlen : ct.rows.length + ap.length ≤ fuel)
    (hne : ls.t1 ≠ []) (hnl : 0 < nl)
    (hck : isCheck minI freq ls.iter = true)
    (hnf : nonFinite (ls.conv.update ls.t1).dsq = false)
    (hgo : (Scalar.sqrtLe (ls.conv.update ls.t1).dsq e &&
      decide ((ls.stats.update (rankOf ls.t1 nl) (ls.conv.update ls.t1).dsq).length ≥ fl)) = false)
    (checks : List Nat) :
    Compute.loop1_body capO fuel s =
      .ok (upd n e fl nl s
        { t1 := stepEntries ct.rows ap (Scalar.sub (Scalar.one : α) a) ls.t1, iter := ls.iter,
          conv := ls.conv.update ls.t1,
          stats := ls.stats.update (rankOf ls.t1 nl) (ls.conv.update ls.t1).dsq,
          checks := checks }, .next) := by
  obtain ⟨hm, hge⟩ := isCheck_true _ _ _ hck
  have hE : s.t1.Entries.map entryOfG = ls.t1 := by rw [h.t1]; exact map_entryOfG_toGs _
  have hC : s.convChecker.c = ls.conv := by rw [h.conv]
  have hCe : s.convChecker.e = e := by rw [h.conv]
  obtain ⟨rf, hf, hfv⟩ := map_eq_ok (FlatTailChecker_Update_refines (fl : Int) nl ls.stats ⟨n, ls.t1⟩
    (ls.conv.update ls.t1).dsq hne hnl)
  obtain ⟨rr, hr, hrv⟩ := map_eq_ok (FlatTailChecker_Reached_refines fl (nl : Int)
    (ls.stats.update (rankOf ls.t1 nl) (ls.conv.update ls.t1).dsq))
  obtain ⟨r1, r2, r3, h1, h1e, h2, h3, h3e, h3v⟩ := step_calls capO fuel n ct ls.t1 ap a hmaj hmin hlen
  have hb := body_check_generic capO fuel s (by rw [h.iter, h.minIters, h.checkFreq]; exact hm)
    (by rw [h.iter, h.minIters]; exact hge) (by rw [hE, hC]; exact hnf) rf
    (by rw [hE, hC, h.ftc, h.t1]; exact hf)
    (by
      rw [hE, hC, hCe, hfv]
      intro hsq
      refine ⟨rr, hr, ?_⟩
      rw [hrv]
      rw [hsq, Bool.true_and] at hgo
      exact hgo)
    r1 r2 r3 (by rw [h.t1, h.ct]; exact h1) h1e (by rw [h.a]; exact h2) (by rw [h.ap]; exact h3) h3e
  rw [hb, hE, hC, hfv, h3v]
  obtain ⟨g1, g2, g3, g4, g5, _, _, _, _, _, _⟩ := h
  cases s
  simp only at g1 g2 g3 g4 g5
  subst g1 g2 g3 g4 g5
  rfl

theorem post_upd (ls' : LoopState α) :
    Compute.loop1_post capO fuel (upd n e fl nl s ls') =
      .ok (upd n e fl nl s { ls' with iter := ls'.iter + 1 }, .next) := by
  simp only [Compute.loop1_post, Stm.set, pure, Except.pure, upd, Int.natCast_add, Int.natCast_one]
end iter

/-! ### the loop -/

/-- Go's `maxIters` for the model's `maxI` (`0`, unlimited, is replaced by `math.MaxInt`). -/
def goMax (maxI : Option Nat) : Int :=
  match maxI with
  | some m => (m : Int)
  | none => 9223372036854775807

theorem cond_eq (capO : Nat → Int) (fuel : Nat) {n : Nat} {ct : CSM α} {ap : List (Entry α)} {a e : α}
    {freq minI : Nat} {M : Int} {fl nl : Nat} {s : Compute.St α} {ls : LoopState α}
    (h : CInv n ct ap a e freq minI M fl nl s ls) :
    Compute.loop1_cond capO fuel s = .ok (decide ((ls.iter : Int) < M)) := by
  simp only [Compute.loop1_cond, pure, Except.pure, h.iter, h.maxIters]

/-- One turn of the Go loop whose condition holds, against the corresponding part of `computeLoop`
    (`R` is the model's recursive call, `key` what is known about the rest of the Go loop). -/
theorem loop_turn (capO : Nat → Int) (fuel : Nat) {n : Nat} {ct : CSM α} {ap : List (Entry α)} {a e : α}
    {freq minI : Nat} {M : Int} {fl nl : Nat}
    (hmaj : ct.major = n) (hmin : ct.minor = n) (hlen : ct.rows.length + ap.length ≤ fuel)
    (hnl : 0 < nl) (hminI : 0 < minI) (hap : ap ≠ [])
    (k : Nat) (s : Compute.St α) (ls : LoopState α)
    (hinv : CInv n ct ap a e freq minI M fl nl s ls) (hpos : 0 < ls.iter → ls.t1 ≠ [])
    (hc : Compute.loop1_cond capO fuel s = .ok true)
    (ls' : LoopState α) (by_ : EndedBy) (R : LoopState α → LoopState α × EndedBy)
    (key : ∀ LS : LoopState α, R LS = (ls', by_) → LS.t1 ≠ [] → LS.iter = ls.iter + 1 →
        ((by_ = .criteria ∨ by_ = .maxIterations) →
          Stm.loop 1 (Compute.loop1_cond capO fuel) (Compute.loop1_body capO fuel)
            (Compute.loop1_post capO fuel) k (upd n e fl nl s LS) = .ok (upd n e fl nl s ls', .next)) ∧
        (by_ = .nonFinite → ∃ s' msg,
          Stm.loop 1 (Compute.loop1_cond capO fuel) (Compute.loop1_body capO fuel)
            (Compute.loop1_post capO fuel) k (upd n e fl nl s LS) =
              .ok (s', .ret (GVector.zero, some msg))))
    (h : (let checked := isCheck minI freq ls.iter
          let conv := if checked then ls.conv.update ls.t1 else ls.conv
          let stats := if checked then ls.stats.update (rankOf ls.t1 nl) conv.dsq else ls.stats
          let checks := if checked then ls.iter :: ls.checks else ls.checks
          let s' : LoopState α := { ls with conv := conv, stats := stats, checks := checks }
          if checked && nonFinite conv.dsq then (s', EndedBy.nonFinite)
          else if checked && Scalar.sqrtLe conv.dsq e && decide (stats.length ≥ fl) then (s', EndedBy.criteria)
          else R { s' with t1 := stepEntries ct.rows ap (Scalar.sub (Scalar.one : α) a) ls.t1,
                           iter := ls.iter + 1 }) = (ls', by_)) :
    ((by_ = .criteria ∨ by_ = .maxIterations) →
      Stm.loop 1 (Compute.loop1_cond capO fuel) (Compute.loop1_body capO fuel)
        (Compute.loop1_post capO fuel) (k + 1) s = .ok (upd n e fl nl s ls', .next)) ∧
    (by_ = .nonFinite → ∃ s' msg,
      Stm.loop 1 (Compute.loop1_cond capO fuel) (Compute.loop1_body capO fuel)
        (Compute.loop1_post capO fuel) (k + 1) s = .ok (s', .ret (GVector.zero, some msg))) := by
  have hstep : stepEntries ct.rows ap (Scalar.sub (Scalar.one : α) a) ls.t1 ≠ [] :=
    stepEntries_ne_nil _ _ _ _ hap
  cases hck : isCheck minI freq ls.iter with
  | false =>
    simp only [hck, Bool.false_eq_true, if_false, Bool.false_and] at h
    have hb := iter_nocheck capO fuel hinv hmaj hmin hlen hck
    have hp := post_upd capO fuel (n := n) (e := e) (fl := fl) (nl := nl) (s := s)
      { ls with t1 := stepEntries ct.rows ap (Scalar.sub (Scalar.one : α) a) ls.t1 }
    rw [loop_step hc hb hp]
    exact key _ h hstep rfl
  | true =>
    have hiter : 0 < ls.iter := by
      have := (isCheck_true _ _ _ hck).2
      omega
    have hne := hpos hiter
    simp only [hck, if_true, Bool.true_and] at h
    cases hnf : nonFinite (ls.conv.update ls.t1).dsq with
    | true =>
      simp only [hnf, if_true, Prod.mk.injEq] at h
      obtain ⟨_, rfl⟩ := h
      refine ⟨fun hh => (by rcases hh with hh | hh <;> cases hh), fun _ => ?_⟩
      obtain ⟨s', msg, hb⟩ := iter_nonfinite capO fuel hinv hck hnf
      exact ⟨s', msg, loop_leave hc hb rfl⟩
    | false =>
      simp only [hnf, Bool.false_eq_true, if_false] at h
      split at h
      · rename_i hcrit
        simp only [Prod.mk.injEq] at h
        obtain ⟨rfl, rfl⟩ := h
        simp only [Bool.and_eq_true, decide_eq_true_eq] at hcrit
        refine ⟨fun _ => ?_, fun hh => (by cases hh)⟩
        rw [loop_brk hc (iter_break capO fuel hinv hne hnl hck hnf hcrit.1 hcrit.2 (ls.iter :: ls.checks))]
      · rename_i hcrit
        have hgo := Bool.eq_false_iff.mpr hcrit
        have hb := iter_check capO fuel hinv hmaj hmin hlen hne hnl hck hnf hgo (ls.iter :: ls.checks)
        have hp := post_upd capO fuel (n := n) (e := e) (fl := fl) (nl := nl) (s := s)
          { t1 := stepEntries ct.rows ap (Scalar.sub (Scalar.one : α) a) ls.t1, iter := ls.iter,
            conv := ls.conv.update ls.t1,
            stats := ls.stats.update (rankOf ls.t1 nl) (ls.conv.update ls.t1).dsq,
            checks := ls.iter :: ls.checks }
        rw [loop_step hc hb hp]
        exact key _ h hstep rfl

/-- The Go loop follows `computeLoop`: when the model's loop ends by the criteria or by `maxIterations`, the
    Go loop ends normally in the corresponding state; when it ends by a non-finite delta, the Go loop returns
    `nil, err`. -/
theorem Compute_loop (capO : Nat → Int) (fuel : Nat) {n : Nat} {ct : CSM α} {ap : List (Entry α)} {a e : α}
    {freq minI : Nat} (maxI : Option Nat) {fl nl : Nat}
    (hmaj : ct.major = n) (hmin : ct.minor = n) (hlen : ct.rows.length + ap.length ≤ fuel)
    (hnl : 0 < nl) (hminI : 0 < minI) (hap : ap ≠ []) :
    ∀ (k : Nat) (s : Compute.St α) (ls : LoopState α),
      CInv n ct ap a e freq minI (goMax maxI) fl nl s ls →
      (0 < ls.iter → ls.t1 ≠ []) →
      (maxI = none → ls.iter + k ≤ 9223372036854775807) →
      ∀ (ls' : LoopState α) (by_ : EndedBy),
        computeLoop ct.rows ap (Scalar.sub (Scalar.one : α) a) e minI freq maxI fl nl k ls = (ls', by_) →
        ((by_ = .criteria ∨ by_ = .maxIterations) →
          Stm.loop 1 (Compute.loop1_cond capO fuel) (Compute.loop1_body capO fuel)
            (Compute.loop1_post capO fuel) k s = .ok (upd n e fl nl s ls', .next)) ∧
        (by_ = .nonFinite → ∃ s' msg,
          Stm.loop 1 (Compute.loop1_cond capO fuel) (Compute.loop1_body capO fuel)
            (Compute.loop1_post capO fuel) k s = .ok (s', .ret (GVector.zero, some msg))) := by
  intro k
  induction k with
  | zero =>
    intro s ls hinv hpos hk ls' by_ h
    simp only [computeLoop, Prod.mk.injEq] at h
    obtain ⟨rfl, rfl⟩ := h
    exact ⟨fun hh => (by rcases hh with hh | hh <;> cases hh), fun hh => (by cases hh)⟩
  | succ k ih =>
    intro s ls hinv hpos hk ls' by_ h
    have key : ∀ LS : LoopState α,
        computeLoop ct.rows ap (Scalar.sub (Scalar.one : α) a) e minI freq maxI fl nl k LS = (ls', by_) →
        LS.t1 ≠ [] → LS.iter = ls.iter + 1 →
        ((by_ = .criteria ∨ by_ = .maxIterations) →
          Stm.loop 1 (Compute.loop1_cond capO fuel) (Compute.loop1_body capO fuel)
            (Compute.loop1_post capO fuel) k (upd n e fl nl s LS) = .ok (upd n e fl nl s ls', .next)) ∧
        (by_ = .nonFinite → ∃ s' msg,
          Stm.loop 1 (Compute.loop1_cond capO fuel) (Compute.loop1_body capO fuel)
            (Compute.loop1_post capO fuel) k (upd n e fl nl s LS) =
              .ok (s', .ret (GVector.zero, some msg))) :=
      fun LS hLS h1 h2 => ih (upd n e fl nl s LS) LS (upd_inv hinv LS) (fun _ => h1)
        (fun hm => by have := hk hm; omega) ls' by_ hLS
    have hc0 := cond_eq capO fuel hinv
    cases maxI with
    | none =>
      simp only [computeLoop, Bool.false_eq_true, if_false] at h
      have hc : Compute.loop1_cond capO fuel s = .ok true := by
        rw [hc0]
        have := hk rfl
        have : (ls.iter : Int) < 9223372036854775807 := by omega
        simp only [goMax, this, decide_true]
      exact loop_turn capO fuel hmaj hmin hlen hnl hminI hap k s ls hinv hpos hc ls' by_ _ key h
    | some m =>
      simp only [computeLoop] at h
      split at h
      · -- `iter < maxIters` is false
        rename_i hmax
        simp only [Prod.mk.injEq] at h
        obtain ⟨rfl, rfl⟩ := h
        have hc : Compute.loop1_cond capO fuel s = .ok false := by
          rw [hc0]
          simp only [decide_eq_true_eq] at hmax
          have : ¬ ((ls.iter : Int) < (m : Int)) := by omega
          simp only [goMax, this, decide_false]
        refine ⟨fun _ => ?_, fun hh => (by cases hh)⟩
        rw [loop_exit hc, upd_self hinv]
      · rename_i hmax
        have hc : Compute.loop1_cond capO fuel s = .ok true := by
          rw [hc0]
          simp only [decide_eq_true_eq] at hmax
          have : (ls.iter : Int) < (m : Int) := by omega
          simp only [goMax, this, decide_true]
        exact loop_turn capO fuel hmaj hmin hlen hnl hminI hap k s ls hinv hpos hc ls' by_ _ key h

/-! ### inversion of the model's `compute` -/

/-- the model's dimension test (`p`, `WithInitialTrust`, `WithResultIn` against `n`). -/
def dimBad (p : Vec α) (o : ComputeOpts α) (n : Nat) : Bool :=
  decide (p.dim ≠ n) || (match o.t0 with | some t0 => decide (t0.dim ≠ n) | none => false)
    || (match o.resultDim with | some d => decide (d ≠ n) | none => false)

/-- every validation of `compute` passes (`n` is the dimension of the local trust). -/
structure Valid (p : Vec α) (a e : α) (o : ComputeOpts α) (n : Nat) : Prop where
  n0 : n ≠ 0
  dims : ¬ (dimBad p o n = true)
  alpha : ¬ ((Scalar.lt a Scalar.zero || Scalar.lt Scalar.one a) = true)
  eps : ¬ (Scalar.le e Scalar.zero = true)
  freq : ¬ (o.checkFreq.getD 1 < 1)
  maxI : ¬ (o.maxIterations.getD 0 < 0)
  minI : ¬ (o.minIterations.getD (o.checkFreq.getD 1) ≤ 0)

/-- some validation of `compute` fails. -/
def Refusal (p : Vec α) (a e : α) (o : ComputeOpts α) (n : Nat) : Prop :=
  n = 0 ∨ dimBad p o n = true ∨ (Scalar.lt a Scalar.zero || Scalar.lt Scalar.one a) = true ∨
    Scalar.le e Scalar.zero = true ∨ o.checkFreq.getD 1 < 1 ∨ o.maxIterations.getD 0 < 0 ∨
    o.minIterations.getD (o.checkFreq.getD 1) ≤ 0

theorem Valid.not_refusal {p : Vec α} {a e : α} {o : ComputeOpts α} {n : Nat} (h : Valid p a e o n) :
    ¬ Refusal p a e o n := by
  intro hr
  rcases hr with h1 | h1 | h1 | h1 | h1 | h1 | h1
  · exact h.n0 h1
  · exact h.dims h1
  · exact h.alpha h1
  · exact h.eps h1
  · exact h.freq h1
  · exact h.maxI h1
  · exact h.minI h1

/-- the run of the model's loop inside `compute`. -/
def modelLoop (fuel : Nat) (c : CSM α) (p : Vec α) (a e : α) (o : ComputeOpts α) (n : Nat) :
    LoopState α × EndedBy :=
  computeLoop c.transpose.rows (Vec.scale a p).entries (Scalar.sub Scalar.one a) e
    (o.minIterations.getD (o.checkFreq.getD 1)).toNat (o.checkFreq.getD 1).toNat
    (if o.maxIterations.getD 0 = 0 then none else some (o.maxIterations.getD 0).toNat) o.flatTail
    (if o.numLeaders = 0 then n else o.numLeaders) fuel
    { t1 := (o.t0.getD p).entries, iter := 0, conv := ⟨(o.t0.getD p).entries, Scalar.zero⟩,
      stats := FlatTailStats.init, checks := [] }

theorem ite_ok_inv {ε β : Type} {c : Prop} [Decidable c] {er : ε} {x : Except ε β} {r : β}
    (h : (if c then Except.error er else x) = .ok r) : ¬ c ∧ x = .ok r := by
  split at h
  · cases h
  · exact ⟨‹_›, h⟩

theorem ite_err_inv {ε β : Type} {c : Prop} [Decidable c] {er er' : ε} {x : Except ε β}
    (h : (if c then Except.error er else x) = .error er') : c ∨ x = .error er' := by
  split at h
  · exact Or.inl ‹_›
  · exact Or.inr h

theorem compute_dim_err {fuel : Nat} {c : CSM α} {p : Vec α} {a e : α} {o : ComputeOpts α} {er : SErr}
    (hdim : c.dim = .error er) : compute fuel c p a e o = .error er := by
  unfold compute
  simp only [hdim]

/-- what a successful run of the model's `compute` went through. -/
theorem compute_ok_inv {fuel : Nat} {c : CSM α} {p : Vec α} {a e : α} {o : ComputeOpts α}
    {r : ComputeResult α} {n : Nat} (hdim : c.dim = .ok n) (hr : compute fuel c p a e o = .ok r) :
    Valid p a e o n ∧ (modelLoop fuel c p a e o n).2 ≠ .nonFinite ∧
      r = ⟨⟨n, (modelLoop fuel c p a e o n).1.t1⟩, (modelLoop fuel c p a e o n).1.iter,
           (modelLoop fuel c p a e o n).1.stats, (modelLoop fuel c p a e o n).1.checks.reverse,
           (modelLoop fuel c p a e o n).2⟩ := by
  unfold compute at hr
  simp only [hdim] at hr
  obtain ⟨h1, hr⟩ := ite_ok_inv hr
  obtain ⟨h2, hr⟩ := ite_ok_inv hr
  obtain ⟨h3, hr⟩ := ite_ok_inv hr
  obtain ⟨h4, hr⟩ := ite_ok_inv hr
  obtain ⟨h5, hr⟩ := ite_ok_inv hr
  obtain ⟨h6, hr⟩ := ite_ok_inv hr
  obtain ⟨h7, hr⟩ := ite_ok_inv hr
  obtain ⟨h8, hr⟩ := ite_ok_inv hr
  exact ⟨⟨h1, h2, h3, h4, h5, h6, h7⟩, h8, (Except.ok.inj hr).symm⟩

/-- why the model's `compute` refuses. -/
theorem compute_err_inv {fuel : Nat} {c : CSM α} {p : Vec α} {a e : α} {o : ComputeOpts α}
    {er : SErr} {n : Nat} (hdim : c.dim = .ok n) (hr : compute fuel c p a e o = .error er) :
    Refusal p a e o n ∨ (modelLoop fuel c p a e o n).2 = .nonFinite := by
  unfold compute at hr
  simp only [hdim] at hr
  rcases ite_err_inv hr with h | hr
  · exact Or.inl (Or.inl h)
  rcases ite_err_inv hr with h | hr
  · exact Or.inl (Or.inr (Or.inl h))
  rcases ite_err_inv hr with h | hr
  · exact Or.inl (Or.inr (Or.inr (Or.inl h)))
  rcases ite_err_inv hr with h | hr
  · exact Or.inl (Or.inr (Or.inr (Or.inr (Or.inl h))))
  rcases ite_err_inv hr with h | hr
  · exact Or.inl (Or.inr (Or.inr (Or.inr (Or.inr (Or.inl h)))))
  rcases ite_err_inv hr with h | hr
  · exact Or.inl (Or.inr (Or.inr (Or.inr (Or.inr (Or.inr (Or.inl h))))))
  rcases ite_err_inv hr with h | hr
  · exact Or.inl (Or.inr (Or.inr (Or.inr (Or.inr (Or.inr (Or.inr h))))))
  rcases ite_err_inv hr with h | hr
  · exact Or.inr h
  · cases hr

/-! ### the body of the translated function: validation and preparation, statement by statement -/

theorem goDeref_some {β : Type} (x : β) : goDeref (some x) = .ok x := rfl

theorem P_congr {β : Type} {P : β → Prop} {x y : β} (h : x = y) (hy : P y) : P x := h ▸ hy

theorem seq_ret {σ ρ : Type} {a b : Stm σ ρ} {s s1 : σ} {v : ρ} (h : a s = .ok (s1, .ret v)) :
    Stm.seq a b s = .ok (s1, .ret v) := by
  simp only [Stm.seq, h]

theorem seq_ite_pass {σ ρ : Type} {c : σ → R Bool} {a b : Stm σ ρ} {s : σ} (hc : c s = .ok false) :
    Stm.seq (Stm.ite c a Stm.skip) b s = b s := by
  simp only [Stm.seq, Stm.ite, hc, Stm.skip]

theorem seq_ite_ret {σ ρ : Type} {c : σ → R Bool} {f : σ → R ρ} {b : Stm σ ρ} {s : σ} {v : ρ}
    (hc : c s = .ok true) (hf : f s = .ok v) :
    Stm.seq (Stm.ite c (Stm.ret f) Stm.skip) b s = .ok (s, .ret v) := by
  simp only [Stm.seq, Stm.ite, hc, Stm.ret, hf]

theorem seq_stepF {σ ρ : Type} {a b : Stm σ ρ} {s : σ} (F : σ → σ) (h : a s = .ok (F s, .next)) :
    Stm.seq a b s = b (F s) := by
  simp only [Stm.seq, h]

/-- The state in which the translated `Compute` enters its loop (target statement (C): the schedule
    `checkFreq`/`minIters`/`maxIters` computed by the prefix of the body, and the other prepared values). -/
structure CStart (c : CSM α) (p : Vec α) (a e : α) (o : ComputeOpts α) (tRes : Option (Vec α)) (n : Nat)
    (S : Compute.St α) : Prop where
  t1 : S.t1 = toGV (o.t0.getD p)
  conv : S.convChecker = ⟨⟨(o.t0.getD p).entries, Scalar.zero⟩, e⟩
  ftc : S.flatTailChecker = ⟨(o.flatTail : Int), ((if o.numLeaders = 0 then n else o.numLeaders : Nat) : Int),
    some (toGStats FlatTailStats.init)⟩
  iter : S.iter = 0
  err : S.err = none
  ct : S.ct = toGM c.transpose
  ap : S.ap = toGV (Vec.scale a p)
  a : S.a = a
  checkFreq : S.checkFreq = o.checkFreq.getD 1
  minIters : S.minIters = o.minIterations.getD (o.checkFreq.getD 1)
  maxIters : S.maxIters =
    if o.maxIterations.getD 0 = 0 then 9223372036854775807 else o.maxIterations.getD 0
  t : S.t = tRes.map toGV

/-- the initial state of the translated `Compute` (as in `Gen.Compute`). -/
def initSt (c : CSM α) (p : Vec α) (a e : α) (o : ComputeOpts α) (tRes : Option (Vec α))
    (gs : Option (GFlatTailStats α)) : Compute.St α :=
  { c := toGM c, p := toGV p, a := a, e := e, o := toGOpts o tRes gs, t0 := (none : (Option (GVector α))), t := (none : (Option (GVector α))), flatTail := (0 : Int), numLeaders := (0 : Int), n := (0 : Int), err := (none : Option GoError), t1 := (GVector.zero : GVector α), ct := (GCSMatrix.zero : GCSMatrix α), ap := (GVector.zero : GVector α), checkFreq := (0 : Int), maxIters := (0 : Int), minIters := (0 : Int), convChecker := (GConvergenceChecker.zero : GConvergenceChecker α), flatTailChecker := (GFlatTailChecker.zero : GFlatTailChecker α), iter := (0 : Int), flatTailStats := (GFlatTailStats.zero : GFlatTailStats α) }

theorem Compute_eq_run (capO : Nat → Int) (fuel : Nat) (c : CSM α) (p : Vec α) (a e : α)
    (o : ComputeOpts α) (tRes : Option (Vec α)) (gs : Option (GFlatTailStats α)) :
    Gen.Compute capO fuel (toGM c) (toGV p) a e (toGOpts o tRes gs) =
      Stm.run (Compute.body capO fuel) ((GVector.zero : GVector α), (none : Option GoError))
        (initSt c p a e o tRes gs) := rfl

local macro "cstep" "[" ls:Lean.Parser.Tactic.simpLemma,* "]" : tactic =>
  `(tactic| (refine P_congr (seq_next (s1 := ?s1) ?h) ?rest
             case h => (simp only [Stm.set, pure, Except.pure, bind, Except.bind, toGOpts, $ls,*]; rfl)))

/-- Case analysis of the body of the translated `Compute` (every statement before the loop executed
    symbolically): either `c.Dim()` fails and the body returns `nil, err`; or a validation fails (`Refusal`,
    the model's conditions in the model's order) and the body returns `nil, err`; or every validation passes
    and the body is the loop, started in a state described by `CStart`, followed by an epilogue `K` that
    returns the current iterate (assigned into the `WithResultIn` vector, if any) and the flat-tail statistics. -/
theorem Compute_body_elim (capO : Nat → Int) (fuel : Nat) (c : CSM α) (p : Vec α) (a e : α)
    (o : ComputeOpts α) (tRes : Option (Vec α)) (gs : Option (GFlatTailStats α))
    (hres : o.resultDim = tRes.map (·.dim))
    (hcols : c.colsInRange = true)
    {P : R (Compute.St α × Ctl (GVector α × Option GoError)) → Prop}
    (h_dim : ∀ er st msg, c.dim = .error er → P (.ok (st, .ret (GVector.zero, some msg))))
    (h_val : ∀ n st msg, c.dim = .ok n → Refusal p a e o n → P (.ok (st, .ret (GVector.zero, some msg))))
    (h_run : ∀ n (K : Stm (Compute.St α) (GVector α × Option GoError)) (S : Compute.St α),
      c.dim = .ok n → Valid p a e o n → CStart c p a e o tRes n S →
      (∀ (S' : Compute.St α) (g : GFlatTailStats α) (v : Vec α), S'.t = tRes.map toGV →
        S'.flatTailChecker.stats = some g → S'.t1 = toGV v →
        ∃ st, K S' = .ok (st, .ret (toGV v, none)) ∧ st.flatTailStats = g) →
      P (Stm.seq (Stm.loop 1 (Compute.loop1_cond capO fuel) (Compute.loop1_body capO fuel)
        (Compute.loop1_post capO fuel) fuel) K S)) :
    P (Compute.body capO fuel (initSt c p a e o tRes gs)) := by
  unfold Compute.body initSt
  cstep []
  cstep []
  cstep []
  cstep []
  -- n, err := c.Dim()
  have hD0 := CSMatrix_Dim_refines c
  cases hdim : c.dim with
  | error er =>
    simp only [hdim] at hD0
    obtain ⟨rd, hD, hrd⟩ := map_eq_ok hD0
    cstep [hD, hrd]
    refine P_congr (seq_ite_ret rfl rfl) ?_
    exact h_dim er _ _ hdim
  | ok n =>
    simp only [hdim] at hD0
    obtain ⟨rd, hD, hrd⟩ := map_eq_ok hD0
    cstep [hD, hrd]
    refine P_congr (seq_ite_pass rfl) ?_
    -- if n == 0
    by_cases hn0 : n = 0
    · refine P_congr (seq_ite_ret (by simp only [hn0, pure, Except.pure]; rfl) rfl) ?_
      exact h_val n _ _ hdim (Or.inl hn0)
    have hn0' : ¬ ((n : Int) = 0) := by omega
    refine P_congr (seq_ite_pass (by simp only [hn0', decide_false, pure, Except.pure])) ?_
    -- dimension checks
    by_cases hdims : dimBad p o n = true
    · refine P_congr (seq_ite_ret (v := (GVector.zero, some ⟨"ErrDimensionMismatch"⟩)) ?_ rfl) ?_
      · have hdims' := hdims
        simp only [dimBad] at hdims'
        rw [hres] at hdims'
        rcases ho : o.t0 with _ | t0v <;> rcases tRes with _ | tv <;>
          simp [ho, goDeref, pure, Except.pure, bind, Except.bind, Int.natCast_inj] at hdims' ⊢
        all_goals (by_cases h1 : p.dim = n <;> simp_all)
        intro h2
        rcases hdims' with h | h
        · exact absurd h2 h
        · exact h
      · exact h_val n _ _ hdim (Or.inr (Or.inl hdims))
    have hdims' := hdims
    simp only [dimBad] at hdims'
    have hpn : p.dim = n := by
      simp only [Bool.or_eq_true, decide_eq_true_eq, not_or] at hdims'
      exact Classical.not_not.mp hdims'.1.1
    have ht0n : (o.t0.getD p).dim = n := by
      simp only [Bool.or_eq_true, decide_eq_true_eq, not_or] at hdims'
      rcases ho : o.t0 with _ | t0v
      · exact hpn
      · have := hdims'.1.2
        simp only [ho, decide_eq_true_eq, ne_eq, Classical.not_not] at this
        exact this
    have htn : ∀ tv, tRes = some tv → tv.dim = n := by
      intro tv htv
      simp only [Bool.or_eq_true, decide_eq_true_eq, not_or] at hdims'
      have := hdims'.2
      simp only [hres, htv, Option.map_some, decide_eq_true_eq, ne_eq, Classical.not_not] at this
      exact this
    refine P_congr (seq_ite_pass ?_) ?_
    · have ht0n' : ∀ t0v, o.t0 = some t0v → t0v.dim = n := by
        intro t0v ho
        simpa only [ho, Option.getD_some] using ht0n
      rcases ho : o.t0 with _ | t0v <;> rcases htr : tRes with _ | tv <;>
        simp [goDeref, pure, Except.pure, bind, Except.bind, Int.natCast_inj, hpn]
      · exact htn _ htr
      · exact ht0n' _ ho
      · simp [ht0n' _ ho, htn _ htr]
    -- alpha, epsilon
    by_cases halpha : (Scalar.lt a Scalar.zero || Scalar.lt Scalar.one a) = true
    · refine P_congr (seq_ite_ret (by simp only [halpha, pure, Except.pure]) rfl) ?_
      exact h_val n _ _ hdim (Or.inr (Or.inr (Or.inl halpha)))
    refine P_congr (seq_ite_pass (by simp only [Bool.eq_false_iff.mpr halpha, pure, Except.pure])) ?_
    by_cases heps : Scalar.le e Scalar.zero = true
    · refine P_congr (seq_ite_ret (by simp only [heps, pure, Except.pure]) rfl) ?_
      exact h_val n _ _ hdim (Or.inr (Or.inr (Or.inr (Or.inl heps))))
    refine P_congr (seq_ite_pass (by simp only [Bool.eq_false_iff.mpr heps, pure, Except.pure])) ?_
    -- numLeaders, t0
    refine P_congr (seq_stepF
      (fun S => { S with numLeaders := ((if o.numLeaders = 0 then n else o.numLeaders : Nat) : Int) }) ?_) ?_
    · by_cases hnl0 : o.numLeaders = 0
      · simp [Stm.ite, Stm.set, pure, Except.pure, hnl0]
      · have : ¬ ((o.numLeaders : Int) = 0) := by omega
        simp only [Stm.ite, Stm.skip, pure, Except.pure, hnl0, this, decide_false, if_false]
    refine P_congr (seq_stepF (fun S => { S with t0 := some (toGV (o.t0.getD p)) }) ?_) ?_
    · rcases o.t0 with _ | t0v <;> simp [Stm.ite, Stm.set, Stm.skip, pure, Except.pure]
    cstep [goDeref_some, Vector_Clone_eq]
    obtain ⟨rt, hT, hrt⟩ := map_eq_ok (CSMatrix_Transpose_refines c hcols)
    cstep [hT, hrt]
    refine P_congr (seq_ite_pass rfl) ?_
    cstep []
    obtain ⟨rs, hS, hrs⟩ := map_eq_ok (Vector_ScaleVec_refines
      ({ Dim := (0 : Int), Entries := [] } : GVector α) a p false (by simp))
    cstep [hS, hrs]
    -- checkFreq
    cstep []
    refine P_congr (seq_stepF (fun S => { S with checkFreq := o.checkFreq.getD 1 }) ?_) ?_
    · rcases o.checkFreq with _ | v <;> simp [Stm.ite, Stm.set, Stm.skip, pure, Except.pure, goDeref, bind,
        Except.bind]
    by_cases hfreq : o.checkFreq.getD 1 < 1
    · refine P_congr (seq_ite_ret (by simp only [hfreq, decide_true, pure, Except.pure]) rfl) ?_
      exact h_val n _ _ hdim (Or.inr (Or.inr (Or.inr (Or.inr (Or.inl hfreq)))))
    refine P_congr (seq_ite_pass (by simp only [hfreq, decide_false, pure, Except.pure])) ?_
    -- maxIters
    cstep []
    refine P_congr (seq_stepF (fun S => { S with maxIters := o.maxIterations.getD 0 }) ?_) ?_
    · rcases o.maxIterations with _ | v <;> simp [Stm.ite, Stm.set, Stm.skip, pure, Except.pure, goDeref, bind,
        Except.bind]
    by_cases hmaxI : o.maxIterations.getD 0 < 0
    · refine P_congr (seq_ite_ret (by simp only [hmaxI, decide_true, pure, Except.pure]) rfl) ?_
      exact h_val n _ _ hdim (Or.inr (Or.inr (Or.inr (Or.inr (Or.inr (Or.inl hmaxI))))))
    refine P_congr (seq_ite_pass (by simp only [hmaxI, decide_false, pure, Except.pure])) ?_
    refine P_congr (seq_stepF (fun S =>
      { S with
        maxIters := if o.maxIterations.getD 0 = 0 then 9223372036854775807 else o.maxIterations.getD 0 })
      ?_) ?_
    · by_cases hm0 : o.maxIterations.getD 0 = 0
      · simp [Stm.ite, Stm.set, pure, Except.pure, hm0]
      · simp only [Stm.ite, Stm.skip, pure, Except.pure, hm0, decide_false, if_false]
    -- minIters
    cstep []
    refine P_congr (seq_stepF
      (fun S => { S with minIters := o.minIterations.getD (o.checkFreq.getD 1) }) ?_) ?_
    · rcases o.minIterations with _ | v <;> simp [Stm.ite, Stm.set, Stm.skip, pure, Except.pure, goDeref, bind,
        Except.bind]
    by_cases hminI : o.minIterations.getD (o.checkFreq.getD 1) ≤ 0
    · refine P_congr (seq_ite_ret (by simp only [hminI, decide_true, pure, Except.pure]) rfl) ?_
      exact h_val n _ _ hdim (Or.inr (Or.inr (Or.inr (Or.inr (Or.inr (Or.inr hminI))))))
    refine P_congr (seq_ite_pass (by simp only [hminI, decide_false, pure, Except.pure])) ?_
    -- checkers, iter
    cstep [goDeref_some, Gen.NewConvergenceChecker, toGV_Entries, map_entryOfG_toGs]
    obtain ⟨rn, hN, hrn⟩ := map_eq_ok (NewFlatTailChecker_refines (o.flatTail : Int)
      ((if o.numLeaders = 0 then n else o.numLeaders : Nat) : Int) gs)
    cstep [hN, hrn]
    cstep []
    -- the loop and the epilogue
    refine h_run n _ _ hdim ⟨hn0, hdims, halpha, heps, hfreq, hmaxI, hminI⟩
      ⟨rfl, rfl, rfl, rfl, rfl, rfl, rfl, rfl, rfl, rfl, rfl, rfl⟩ ?_
    intro S' g v h1 h2 h3
    obtain ⟨rst, hSt, hst⟩ := map_eq_ok (FlatTailChecker_Stats_refines S'.flatTailChecker g h2)
    refine ⟨{ S' with flatTailStats := g, t := some (toGV v) }, ?_, rfl⟩
    refine (seq_next (s1 := { S' with flatTailStats := g }) ?_).trans ?_
    · simp only [Stm.set, pure, Except.pure, bind, Except.bind, hSt, hst]
    refine (seq_next (s1 := { S' with flatTailStats := g, t := some (toGV v) }) ?_).trans ?_
    · rcases tRes with _ | tv <;>
        simp [Stm.ite, Stm.set, pure, Except.pure, goDeref, bind, Except.bind, Vector_Assign_eq, h1, h3]
    · simp [Stm.ret, goDeref, pure, Except.pure, bind, Except.bind]

/-! ### (C) the schedule -/

/-- (C) When the validations pass, the body of the translated `Compute` is its loop followed by an epilogue,
    and the loop starts in a state with `checkFreq = o.checkFreq.getD 1`,
    `maxIters = if o.maxIterations.getD 0 = 0 then MaxInt else o.maxIterations.getD 0`,
    `minIters = o.minIterations.getD checkFreq`, `iter = 0` (and the other fields listed in `CStart`). -/
theorem Compute_schedule (capO : Nat → Int) (fuel : Nat) (c : CSM α) (p : Vec α) (a e : α)
    (o : ComputeOpts α) (tRes : Option (Vec α)) (gs : Option (GFlatTailStats α))
    (hres : o.resultDim = tRes.map (·.dim)) (hcols : c.colsInRange = true)
    (n : Nat) (hdim : c.dim = .ok n) (hv : Valid p a e o n) :
    ∃ (K : Stm (Compute.St α) (GVector α × Option GoError)) (S : Compute.St α),
      Compute.body capO fuel (initSt c p a e o tRes gs) =
        Stm.seq (Stm.loop 1 (Compute.loop1_cond capO fuel) (Compute.loop1_body capO fuel)
          (Compute.loop1_post capO fuel) fuel) K S ∧
      CStart c p a e o tRes n S := by
  refine Compute_body_elim capO fuel c p a e o tRes gs hres hcols
    (P := fun x => ∃ (K : Stm (Compute.St α) (GVector α × Option GoError)) (S : Compute.St α),
      x = Stm.seq (Stm.loop 1 (Compute.loop1_cond capO fuel) (Compute.loop1_body capO fuel)
        (Compute.loop1_post capO fuel) fuel) K S ∧ CStart c p a e o tRes n S) ?_ ?_ ?_
  · intro er st msg h
    rw [hdim] at h
    cases h
  · intro n' st msg h hr
    rw [hdim] at h
    cases h
    exact absurd hr hv.not_refusal
  · intro n' K S h _ hS _
    rw [hdim] at h
    cases h
    exact ⟨K, S, rfl, hS⟩

/-- the default schedule (`WithCheckFreq`, `WithMinIterations` not given): check at every iteration from
    iteration 1 on. -/
theorem isCheck_default (k : Nat) : isCheck 1 1 k = decide (1 ≤ k) := by
  simp [isCheck, Nat.mod_one]

theorem Compute_default_schedule (capO : Nat → Int) (fuel : Nat) (c : CSM α) (p : Vec α) (a e : α)
    (o : ComputeOpts α) (tRes : Option (Vec α)) (gs : Option (GFlatTailStats α))
    (hres : o.resultDim = tRes.map (·.dim)) (hcols : c.colsInRange = true)
    (n : Nat) (hdim : c.dim = .ok n) (hv : Valid p a e o n)
    (hcf : o.checkFreq = none) (hmi : o.minIterations = none) :
    ∃ (K : Stm (Compute.St α) (GVector α × Option GoError)) (S : Compute.St α),
      Compute.body capO fuel (initSt c p a e o tRes gs) =
        Stm.seq (Stm.loop 1 (Compute.loop1_cond capO fuel) (Compute.loop1_body capO fuel)
          (Compute.loop1_post capO fuel) fuel) K S ∧
      S.checkFreq = 1 ∧ S.minIters = 1 ∧ S.iter = 0 := by
  obtain ⟨K, S, h1, h2⟩ := Compute_schedule capO fuel c p a e o tRes gs hres hcols n hdim hv
  refine ⟨K, S, h1, ?_, ?_, h2.iter⟩
  · rw [h2.checkFreq, hcf]; rfl
  · rw [h2.minIters, hmi, hcf]; rfl

/-! ### (A), (B): the translated `Compute` against the model's `compute` -/

/-- what the body of the translated `Compute` must deliver, given the model's result `M`. -/
def Spec (M : Except SErr (ComputeResult α))
    (x : R (Compute.St α × Ctl (GVector α × Option GoError))) : Prop :=
  (∀ r, M = .ok r → r.endedBy ≠ .outOfFuel →
    ∃ st, x = .ok (st, .ret (toGV r.t, none)) ∧ st.flatTailStats = toGStats r.stats) ∧
  (∀ er, M = .error er → ∃ st msg, x = .ok (st, .ret (GVector.zero, some msg)))

theorem Spec_refuse {M : Except SErr (ComputeResult α)} {st : Compute.St α} {msg : GoError}
    (hno : ∀ r, M ≠ .ok r) : Spec M (.ok (st, .ret (GVector.zero, some msg))) :=
  ⟨fun r hr _ => absurd hr (hno r), fun _ _ => ⟨st, msg, rfl⟩⟩

theorem Compute_body_spec (capO : Nat → Int) (fuel : Nat) (c : CSM α) (p : Vec α) (a e : α)
    (o : ComputeOpts α) (tRes : Option (Vec α)) (gs : Option (GFlatTailStats α))
    (hres : o.resultDim = tRes.map (·.dim))
    (hcols : c.colsInRange = true)
    (hap : (Vec.scale a p).entries ≠ [])
    (hfuel : c.major + p.entries.length ≤ fuel) (hfuel63 : fuel < 9223372036854775807) :
    Spec (compute fuel c p a e o) (Compute.body capO fuel (initSt c p a e o tRes gs)) := by
  refine Compute_body_elim capO fuel c p a e o tRes gs hres hcols ?_ ?_ ?_
  · intro er st msg hdim
    exact Spec_refuse (fun r hr => by rw [compute_dim_err hdim] at hr; cases hr)
  · intro n st msg hdim href
    exact Spec_refuse (fun r hr => (compute_ok_inv hdim hr).1.not_refusal href)
  · intro n K S hdim hv hS hK
    have hmm : c.major = c.minor ∧ c.major = n := by
      simp only [CSM.dim] at hdim
      split at hdim
      · cases hdim
      · rename_i h
        exact ⟨Classical.not_not.mp h, Except.ok.inj hdim⟩
    have hdims' := hv.dims
    simp only [dimBad, Bool.or_eq_true, decide_eq_true_eq, not_or] at hdims'
    have hpn : p.dim = n := Classical.not_not.mp hdims'.1.1
    have ht0n : (o.t0.getD p).dim = n := by
      rcases ho : o.t0 with _ | t0v
      · exact hpn
      · have := hdims'.1.2
        simp only [ho, decide_eq_true_eq, ne_eq, Classical.not_not] at this
        exact this
    have hfreq := hv.freq
    have hmaxI := hv.maxI
    have hminI := hv.minI
    have hn0 := hv.n0
    have hlen : c.transpose.rows.length + (Vec.scale a p).entries.length ≤ fuel := by
      have := scale_entries_length_le a p
      rw [transpose_rows_length]
      omega
    have hnl : 0 < (if o.numLeaders = 0 then n else o.numLeaders) := by
      split <;> omega
    have hinv : CInv n c.transpose (Vec.scale a p).entries a e (o.checkFreq.getD 1).toNat
        (o.minIterations.getD (o.checkFreq.getD 1)).toNat
        (goMax (if o.maxIterations.getD 0 = 0 then none else some (o.maxIterations.getD 0).toNat))
        o.flatTail (if o.numLeaders = 0 then n else o.numLeaders) S
        { t1 := (o.t0.getD p).entries, iter := 0, conv := ⟨(o.t0.getD p).entries, Scalar.zero⟩,
          stats := FlatTailStats.init, checks := [] } := by
      refine ⟨?_, hS.conv, hS.ftc, hS.iter, hS.err, hS.ct, ?_, hS.a, ?_, ?_, ?_⟩
      · rw [hS.t1, ← ht0n]
      · rw [hS.ap, ← hpn, ← scale_dim a p]
      · rw [hS.checkFreq]; omega
      · rw [hS.minIters]; omega
      · rw [hS.maxIters]
        by_cases hm0 : o.maxIterations.getD 0 = 0
        · simp only [hm0, if_true, goMax]
        · have : ((o.maxIterations.getD 0).toNat : Int) = o.maxIterations.getD 0 := by omega
          simp only [hm0, if_false, goMax, this]
    cases hcl : modelLoop fuel c p a e o n with
    | mk ls' by_ =>
    have hloop := Compute_loop capO fuel (ct := c.transpose) (ap := (Vec.scale a p).entries) (a := a) (e := e)
      (freq := (o.checkFreq.getD 1).toNat) (minI := (o.minIterations.getD (o.checkFreq.getD 1)).toNat)
      (if o.maxIterations.getD 0 = 0 then none else some (o.maxIterations.getD 0).toNat)
      (fl := o.flatTail) (nl := (if o.numLeaders = 0 then n else o.numLeaders)) (n := n)
      (by show c.minor = n; omega) (by show c.major = n; omega) hlen hnl (by omega) hap fuel S _ hinv
      (fun h => absurd h (Nat.lt_irrefl 0)) (fun _ => by simp only [Nat.zero_add]; omega) ls' by_ hcl
    have hres_of_ok : ∀ r, compute fuel c p a e o = .ok r → by_ ≠ .nonFinite ∧
        r = ⟨⟨n, ls'.t1⟩, ls'.iter, ls'.stats, ls'.checks.reverse, by_⟩ := by
      intro r hr
      obtain ⟨_, h2, h3⟩ := compute_ok_inv hdim hr
      rw [hcl] at h2 h3
      exact ⟨h2, h3⟩
    have hnoerr : by_ ≠ .nonFinite → ∀ er, compute fuel c p a e o ≠ .error er := by
      intro hb er hr
      rcases compute_err_inv hdim hr with h | h
      · exact hv.not_refusal h
      · rw [hcl] at h
        exact hb h
    by_cases hby : by_ = .criteria ∨ by_ = .maxIterations
    · refine P_congr (seq_next (hloop.1 hby)) ?_
      obtain ⟨st, hKeq, hfs⟩ := hK (upd n e o.flatTail (if o.numLeaders = 0 then n else o.numLeaders) S ls')
        (toGStats ls'.stats) ⟨n, ls'.t1⟩ hS.t rfl rfl
      refine P_congr hKeq ?_
      refine ⟨fun r hr _ => ?_, fun er hr =>
        absurd hr (hnoerr (by rcases hby with h | h <;> rw [h] <;> decide) er)⟩
      obtain ⟨_, rfl⟩ := hres_of_ok r hr
      exact ⟨st, rfl, hfs⟩
    cases by_ with
    | criteria => exact absurd (Or.inl rfl) hby
    | maxIterations => exact absurd (Or.inr rfl) hby
    | outOfFuel =>
      refine ⟨fun r hr hend => ?_, fun er hr => absurd hr (hnoerr (by decide) er)⟩
      obtain ⟨_, rfl⟩ := hres_of_ok r hr
      exact absurd rfl hend
    | nonFinite =>
      obtain ⟨s1, msg, h⟩ := hloop.2 rfl
      exact P_congr (seq_ret h) (Spec_refuse (fun r hr => (hres_of_ok r hr).1 rfl))

/-- (A) A run of the model that ends properly (by the criteria or by `maxIterations`) is computed exactly by
    the translated Go code: same trust vector, no error, same flat-tail statistics.
    `_partial`: the target statement plus the hypothesis `hfuel63 : fuel < 2^63-1` (the Go loop bound for
    "unlimited" is `math.MaxInt`, the model's is `none`). -/
theorem Compute_refines_ok_partial (capO : Nat → Int) (fuel : Nat) (c : CSM α) (p : Vec α) (a e : α)
    (o : ComputeOpts α) (tRes : Option (Vec α)) (gs : Option (GFlatTailStats α))
    (hres : o.resultDim = tRes.map (·.dim))
    (hcols : c.colsInRange = true)
    (hap : (Vec.scale a p).entries ≠ [])
    (r : ComputeResult α) (hr : compute fuel c p a e o = .ok r) (hend : r.endedBy ≠ .outOfFuel)
    (hfuel : c.major + p.entries.length ≤ fuel) (hfuel63 : fuel < 9223372036854775807) :
    (Gen.Compute capO fuel (toGM c) (toGV p) a e (toGOpts o tRes gs)).map
        (fun x => (x.2, x.1.flatTailStats)) = .ok ((toGV r.t, none), toGStats r.stats) := by
  obtain ⟨st, h1, h2⟩ :=
    (Compute_body_spec capO fuel c p a e o tRes gs hres hcols hap hfuel hfuel63).1 r hr hend
  rw [Compute_eq_run]
  simp only [Stm.run, h1, Except.map, h2]

/-- (B) Whenever the model refuses (validation error, or a non-finite delta), the translated Go code returns
    a nil vector and an error; it never panics.
    `_partial`: with the hypotheses `hap` and `hfuel63` of (A) in addition to `hres`, `hcols`, `hfuel`
    (they are used only when the refusal is the non-finite delta inside the loop). -/
theorem Compute_refines_err_partial (capO : Nat → Int) (fuel : Nat) (c : CSM α) (p : Vec α) (a e : α)
    (o : ComputeOpts α) (tRes : Option (Vec α)) (gs : Option (GFlatTailStats α))
    (hres : o.resultDim = tRes.map (·.dim))
    (hcols : c.colsInRange = true)
    (hap : (Vec.scale a p).entries ≠ [])
    (er : SErr) (hr : compute fuel c p a e o = .error er)
    (hfuel : c.major + p.entries.length ≤ fuel) (hfuel63 : fuel < 9223372036854775807) :
    ∃ st msg, Gen.Compute capO fuel (toGM c) (toGV p) a e (toGOpts o tRes gs) =
      .ok (st, (GVector.zero, some msg)) := by
  obtain ⟨st, msg, h1⟩ :=
    (Compute_body_spec capO fuel c p a e o tRes gs hres hcols hap hfuel hfuel63).2 er hr
  refine ⟨st, msg, ?_⟩
  rw [Compute_eq_run]
  simp only [Stm.run, h1]

/-- (B), validation part, without `hap`/`hfuel`/`hfuel63`: a failing `c.Dim()` or a failing validation makes the
    translated Go code return a nil vector and an error. -/
theorem Compute_refuses_validation (capO : Nat → Int) (fuel : Nat) (c : CSM α) (p : Vec α) (a e : α)
    (o : ComputeOpts α) (tRes : Option (Vec α)) (gs : Option (GFlatTailStats α))
    (hres : o.resultDim = tRes.map (·.dim))
    (hcols : c.colsInRange = true)
    (h : (∃ er, c.dim = .error er) ∨ ∃ n, c.dim = .ok n ∧ Refusal p a e o n) :
    ∃ st msg, Gen.Compute capO fuel (toGM c) (toGV p) a e (toGOpts o tRes gs) =
      .ok (st, (GVector.zero, some msg)) := by
  have key : ∃ st msg, Compute.body capO fuel (initSt c p a e o tRes gs) =
      .ok (st, .ret (GVector.zero, some msg)) := by
    refine Compute_body_elim capO fuel c p a e o tRes gs hres hcols
      (P := fun x => ∃ st msg, x = .ok (st, .ret (GVector.zero, some msg))) ?_ ?_ ?_
    · intro er st msg _
      exact ⟨st, msg, rfl⟩
    · intro n st msg _ _
      exact ⟨st, msg, rfl⟩
    · intro n K S hdim hv _ _
      rcases h with ⟨er, h⟩ | ⟨n', h, hr⟩
      · rw [hdim] at h; cases h
      · rw [hdim] at h
        cases h
        exact absurd hr hv.not_refusal
  obtain ⟨st, msg, h1⟩ := key
  refine ⟨st, msg, ?_⟩
  rw [Compute_eq_run]
  simp only [Stm.run, h1]

end EtVerif.Tr
