/-
  Helper lemmas for property C04 (Canonicalize, CanonicalizeLocalTrust, CanonicalizeTrustVector).
-/
import EtVerif.Proofs.Vec
import EtVerif.Model.Basic
import Mathlib.Algebra.BigOperators.Group.List.Basic
import Mathlib.Algebra.Order.Ring.Defs
import Mathlib.Algebra.Order.BigOperators.Group.List
import Mathlib.Algebra.Order.Field.Basic
import Mathlib.Tactic.Ring
import Mathlib.Tactic.FieldSimp
import Mathlib.Tactic.Linarith

namespace EtVerif.Canon
open EtVerif Scalar

/-! ### generic `Scalar`: the compensated sum commutes with an arithmetic-preserving map -/

section generic
variable {α : Type} [Scalar α]

theorem kbn_push_equivariant (σ : α → α)
    (hadd : ∀ x y, σ (Scalar.add x y) = Scalar.add (σ x) (σ y))
    (hsub : ∀ x y, σ (Scalar.sub x y) = Scalar.sub (σ x) (σ y))
    (hlt : ∀ x y, Scalar.lt (Scalar.abs (σ x)) (Scalar.abs (σ y))
      = Scalar.lt (Scalar.abs x) (Scalar.abs y))
    (s : KBN α) (v : α) :
    KBN.push ⟨σ s.sum, σ s.comp⟩ (σ v) = ⟨σ (KBN.push s v).sum, σ (KBN.push s v).comp⟩ := by
  unfold KBN.push
  simp only [hlt]
  cases Scalar.lt (Scalar.abs s.sum) (Scalar.abs v) <;> simp [hadd, hsub]

theorem kbn_foldl_equivariant (σ : α → α)
    (hadd : ∀ x y, σ (Scalar.add x y) = Scalar.add (σ x) (σ y))
    (hsub : ∀ x y, σ (Scalar.sub x y) = Scalar.sub (σ x) (σ y))
    (hlt : ∀ x y, Scalar.lt (Scalar.abs (σ x)) (Scalar.abs (σ y))
      = Scalar.lt (Scalar.abs x) (Scalar.abs y))
    (xs : List α) (s : KBN α) :
    (xs.map σ).foldl KBN.push ⟨σ s.sum, σ s.comp⟩
      = ⟨σ (xs.foldl KBN.push s).sum, σ (xs.foldl KBN.push s).comp⟩ := by
  induction xs generalizing s with
  | nil => rfl
  | cons x xs ih =>
    simp only [List.map_cons, List.foldl_cons]
    rw [kbn_push_equivariant σ hadd hsub hlt, ih]

theorem kbnSum_equivariant (σ : α → α)
    (hadd : ∀ x y, σ (Scalar.add x y) = Scalar.add (σ x) (σ y))
    (hsub : ∀ x y, σ (Scalar.sub x y) = Scalar.sub (σ x) (σ y))
    (hlt : ∀ x y, Scalar.lt (Scalar.abs (σ x)) (Scalar.abs (σ y))
      = Scalar.lt (Scalar.abs x) (Scalar.abs y))
    (hzero : σ (Scalar.zero : α) = Scalar.zero)
    (xs : List α) : kbnSum (xs.map σ) = σ (kbnSum xs) := by
  unfold kbnSum
  have h0 : (⟨σ (KBN.init : KBN α).sum, σ (KBN.init : KBN α).comp⟩ : KBN α) = KBN.init := by
    simp [KBN.init, hzero]
  have key := kbn_foldl_equivariant σ hadd hsub hlt xs KBN.init
  rw [h0] at key
  rw [key]
  simp only [KBN.result, hadd]

end generic

variable {K : Type} [Field K] [LinearOrder K]

/-! ### the compensated sum is the plain sum in a field -/

theorem kbn_push_field (a v : K) : KBN.push (⟨a, 0⟩ : KBN K) v = ⟨a + v, 0⟩ := by
  unfold KBN.push
  simp only [s_lt, s_abs, s_add, s_sub]
  split <;> simp

theorem kbn_foldl_field (xs : List K) (a : K) :
    xs.foldl KBN.push (⟨a, 0⟩ : KBN K) = ⟨a + xs.sum, 0⟩ := by
  induction xs generalizing a with
  | nil => simp
  | cons x xs ih => simp only [List.foldl_cons, kbn_push_field, ih, List.sum_cons, add_assoc]

/-- own copy: in a field the Kahan–Babuška–Neumaier compensation is identically `0`. -/
theorem kbnSum_eq_sum (xs : List K) : kbnSum xs = xs.sum := by
  unfold kbnSum
  have : (KBN.init : KBN K) = ⟨0, 0⟩ := rfl
  rw [this, kbn_foldl_field]
  simp [KBN.result]

/-! ### Canonicalize -/

/-- sum of the stored values -/
def vsum (es : List (Entry K)) : K := (es.map (·.val)).sum

/-- `Canonicalize` over a field, in closed form -/
theorem canonicalize_eq (es : List (Entry K)) :
    canonicalize es =
      if vsum es = 0 then .error .zeroSum
      else .ok (es.map fun e => ⟨e.idx, e.val / vsum es⟩) := by
  unfold canonicalize vsum
  simp only [kbnSum_eq_sum, s_isZero, s_div, decide_eq_true_eq]

omit [LinearOrder K] in
theorem vsum_map_div (es : List (Entry K)) (s : K) :
    vsum (es.map fun e => ⟨e.idx, e.val / s⟩) = vsum es / s := by
  unfold vsum
  induction es with
  | nil => simp
  | cons e es ih =>
    simp only [List.map_cons, List.sum_cons] at ih ⊢
    rw [ih]; ring

omit [LinearOrder K] in
theorem vsum_map_mul (es : List (Entry K)) (c : K) :
    vsum (es.map fun e => ⟨e.idx, c * e.val⟩) = c * vsum es := by
  unfold vsum
  induction es with
  | nil => simp
  | cons e es ih =>
    simp only [List.map_cons, List.sum_cons] at ih ⊢
    rw [ih]; ring

theorem denE_map_div (es : List (Entry K)) (s : K) (i : Nat) :
    denE (es.map fun e => ⟨e.idx, e.val / s⟩) i = denE es i / s := by
  induction es with
  | nil => simp
  | cons e es ih =>
    simp only [List.map_cons, denE_cons, ih]
    split <;> ring

/-- scaling all values by `c ≠ 0` does not change the canonical form -/
theorem canonicalize_scale' (es : List (Entry K)) {c : K} (hc : c ≠ 0) :
    canonicalize (es.map fun e => ⟨e.idx, c * e.val⟩) = canonicalize es := by
  rw [canonicalize_eq, canonicalize_eq, vsum_map_mul]
  by_cases hs : vsum es = 0
  · simp [hs]
  · have hcs : c * vsum es ≠ 0 := mul_ne_zero hc hs
    rw [if_neg hcs, if_neg hs, List.map_map]
    congr 1
    apply List.map_congr_left
    intro e _
    simp only [Function.comp_apply]
    congr 1
    field_simp

/-! ### CanonicalizeLocalTrust -/

/-- multiply every stored value of row `i` by `s i` -/
def scaleRows (s : Nat → K) (m : CSM K) : CSM K :=
  { m with rows := m.rows.zipIdx.map fun p => p.1.map fun e => ⟨e.idx, s p.2 * e.val⟩ }

/-- multiply every stored value of a vector by `c` -/
def scaleVecBy (c : K) (v : Vec K) : Vec K := ⟨v.dim, v.entries.map fun e => ⟨e.idx, c * e.val⟩⟩

theorem canonRow_some_scale (p : Vec K) (r : Row K) {c : K} (hc : c ≠ 0) :
    canonRow (some p) (r.map fun e => ⟨e.idx, c * e.val⟩) = canonRow (some p) r := by
  unfold canonRow
  rw [canonicalize_scale' r hc]

theorem canonRow_none_scale (r : Row K) {c : K} (hc : c ≠ 0)
    (hz : vsum r = 0 → ∀ e ∈ r, e.val = 0) :
    canonRow none (r.map fun e => ⟨e.idx, c * e.val⟩) = canonRow none r := by
  unfold canonRow
  rw [canonicalize_scale' r hc]
  rw [canonicalize_eq]
  by_cases hs : vsum r = 0
  · rw [if_pos hs]
    show (r.map fun e => (⟨e.idx, c * e.val⟩ : Entry K)) = r
    conv_rhs => rw [← List.map_id r]
    apply List.map_congr_left
    intro e he
    obtain ⟨i, v⟩ := e
    have h0 : v = 0 := hz hs _ he
    subst h0
    simp
  · rw [if_neg hs]

omit [Field K] [LinearOrder K] in
theorem map_zipIdx_congr {β : Type} (rows : List (Row K)) (k : Nat) (f : Row K × Nat → β)
    (g : Row K → β) (h : ∀ r ∈ rows, ∀ i, f (r, i) = g r) :
    (rows.zipIdx k).map f = rows.map g := by
  induction rows generalizing k with
  | nil => rfl
  | cons r rows ih =>
    rw [List.zipIdx_cons, List.map_cons, List.map_cons, h r (by simp) k,
      ih (k + 1) (fun r hr i => h r (by simp [hr]) i)]

/-- a row of non-negative values that sums to zero is all zero -/
theorem all_zero_of_nonneg_of_vsum_zero [IsStrictOrderedRing K] (r : Row K)
    (hn : ∀ e ∈ r, 0 ≤ e.val) (hs : vsum r = 0) : ∀ e ∈ r, e.val = 0 := by
  unfold vsum at hs
  induction r with
  | nil => intro e he; cases he
  | cons a r ih =>
    simp only [List.map_cons, List.sum_cons] at hs
    have ha : 0 ≤ a.val := hn a (by simp)
    have hr : 0 ≤ (r.map (·.val)).sum :=
      List.sum_nonneg (by
        intro x hx
        obtain ⟨e, he, rfl⟩ := List.mem_map.mp hx
        exact hn e (by simp [he]))
    have ha0 : a.val = 0 := by linarith
    have hr0 : (r.map (·.val)).sum = 0 := by linarith
    intro e he
    rcases List.mem_cons.mp he with rfl | he
    · exact ha0
    · exact ih (fun e he => hn e (by simp [he])) hr0 e he

/-! ### uniform vector -/

theorem vsum_uniform [IsStrictOrderedRing K] {n : Nat} (hn : 0 < n) :
    vsum (uniformEntries n : List (Entry K)) = 1 := by
  unfold vsum uniformEntries
  rw [List.map_map]
  have : ((fun e : Entry K => e.val) ∘ fun i : Nat => (⟨i, Scalar.div Scalar.one (Scalar.ofNat n)⟩ : Entry K))
      = fun _ => (1 : K) / (n : K) := by
    funext i; simp
  rw [this, List.map_const', List.sum_replicate, List.length_range, nsmul_eq_mul]
  have : (n : K) ≠ 0 := Nat.cast_ne_zero.mpr (by omega)
  field_simp

theorem wf_uniform (n : Nat) : WF n (uniformEntries n : List (Entry K)) := by
  unfold uniformEntries
  constructor
  · unfold Sorted
    rw [List.pairwise_map]
    exact List.pairwise_lt_range
  · intro e he
    obtain ⟨i, hi, rfl⟩ := List.mem_map.mp he
    exact List.mem_range.mp hi

/-! ### ExtractDistrust commutes with positive row scaling -/

theorem splitRow_scale [IsStrictOrderedRing K] (r : Row K) {c : K} (hc : 0 < c) :
    splitRow (r.map fun e => (⟨e.idx, c * e.val⟩ : Entry K))
      = ((splitRow r).1.map (fun e => ⟨e.idx, c * e.val⟩),
         (splitRow r).2.map (fun e => ⟨e.idx, c * e.val⟩)) := by
  induction r with
  | nil => rfl
  | cons e r ih =>
    have hiff : 0 ≤ c * e.val ↔ 0 ≤ e.val := by
      constructor
      · intro h; exact nonneg_of_mul_nonneg_right h hc
      · intro h; exact mul_nonneg hc.le h
    simp only [splitRow, Scalar.ge, s_le, s_zero, s_neg, List.map_cons, List.filter_cons,
      Prod.mk.injEq] at ih ⊢
    by_cases h : 0 ≤ e.val
    · have h' := hiff.mpr h
      simp only [h, h', decide_true, if_true, Bool.not_true, Bool.false_eq_true, if_false,
        List.map_cons, ih.1, ih.2, and_self]
    · have h' : ¬ 0 ≤ c * e.val := fun x => h (hiff.mp x)
      simp only [h, h', decide_false, Bool.false_eq_true, if_false, Bool.not_false, if_true,
        List.map_cons, ih.1, ih.2, true_and, mul_neg]

theorem map_splitRow_scale_fst [IsStrictOrderedRing K] (s : Nat → K) (hs : ∀ i, 0 < s i)
    (rows : List (Row K)) (k : Nat) :
    ((((rows.zipIdx k).map fun p => p.1.map fun e => (⟨e.idx, s p.2 * e.val⟩ : Entry K)).map
        splitRow).map (·.1))
      = (((rows.map splitRow).map (·.1)).zipIdx k).map
          fun p => p.1.map fun e => (⟨e.idx, s p.2 * e.val⟩ : Entry K) := by
  induction rows generalizing k with
  | nil => rfl
  | cons r rows ih =>
    simp only [List.zipIdx_cons, List.map_cons, ih (k + 1), splitRow_scale r (hs k)]

theorem map_splitRow_scale_snd [IsStrictOrderedRing K] (s : Nat → K) (hs : ∀ i, 0 < s i)
    (rows : List (Row K)) (k : Nat) :
    ((((rows.zipIdx k).map fun p => p.1.map fun e => (⟨e.idx, s p.2 * e.val⟩ : Entry K)).map
        splitRow).map (·.2))
      = (((rows.map splitRow).map (·.2)).zipIdx k).map
          fun p => p.1.map fun e => (⟨e.idx, s p.2 * e.val⟩ : Entry K) := by
  induction rows generalizing k with
  | nil => rfl
  | cons r rows ih =>
    simp only [List.zipIdx_cons, List.map_cons, ih (k + 1), splitRow_scale r (hs k)]

/-- `ExtractDistrust` of a row-scaled matrix is the row-scaled result (positive factors). -/
theorem extractDistrust_scaleRows [IsStrictOrderedRing K] (s : Nat → K) (hs : ∀ i, 0 < s i)
    (L : CSM K) :
    extractDistrust (scaleRows s L)
      = (extractDistrust L).map fun PD => (scaleRows s PD.1, scaleRows s PD.2) := by
  unfold extractDistrust CSM.dim
  by_cases hd : L.major = L.minor
  · have hd' : (scaleRows s L).major = (scaleRows s L).minor := hd
    rw [if_neg (by simpa using hd'), if_neg (by simpa using hd)]
    simp only [Except.map, scaleRows, map_splitRow_scale_fst s hs, map_splitRow_scale_snd s hs]
  · have hd' : (scaleRows s L).major ≠ (scaleRows s L).minor := hd
    rw [if_pos hd', if_pos hd]
    rfl

end EtVerif.Canon
